#!/bin/bash
# dev/setup helper: (re)generate gen/*.v from /repo and build everything in place
cd /verif/coq
/venv/bin/python /verif/tools/gen_all.py /verif/coq/gen ${1:-/repo} || exit 1
{ echo "-Q theories V"; echo "-Q gen G"; echo "-arg -w -arg -all"; find theories gen -name '*.v' | sort; } > _CoqProject
coq_makefile -f _CoqProject -o Makefile >/dev/null || exit 1
timeout 3000 make -j16 2>&1 | grep -v '^COQC\|^COQDEP\|^CLEAN' 
exit ${PIPESTATUS[0]}
