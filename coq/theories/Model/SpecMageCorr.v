(* Comparators used by the correspondence shards of the extension `mage` (never by a theorem). *)
From Coq Require Import ZArith List Bool.
From V.Model Require Import Comp SpecMage.
From V.Lib Require Import Corr.
Import ListNotations.
Open Scope Z_scope.

Definition ev_eqb (a b : ev) : bool :=
  match a, b with
  | EReject, EReject => true | EDealt d h, EDealt d' h' => (d =? d') && (h =? h')
  | EDelay t, EDelay t' => t =? t' | EElapsed t, EElapsed t' => t =? t' | EKeydownEnd, EKeydownEnd => true
  | EMobDot d l, EMobDot d' l' => (d =? d') && (l =? l') | _, _ => false end.
Definition xev_eqb (a b : xev) : bool :=
  match a, b with
  | XE x, XE y => ev_eqb x y
  | XDealtM d h m n, XDealtM d' h' m' n' => (d =? d') && (h =? h') && (m =? m') && (n =? n')
  | _, _ => false end.
Definition oz_eqb (a b : option Z) := match a, b with Some x, Some y => x =? y | None, None => true | _, _ => false end.
Definition p_eqb (a b : P.P) := (P.interval a =? P.interval b) && (P.counter a =? P.counter b) && (P.tl a =? P.tl b) && (P.cnt a =? P.cnt b).
(* only the slots a mage class owns in the ust part *)
Definition u_eqb (a b : ust) : bool :=
  (u_cd a =? u_cd b) && (u_ltl a =? u_ltl b) && (u_lad a =? u_lad b) && p_eqb (u_p1 a) (u_p1 b) && oz_eqb (u_ic1 a) (u_ic1 b).
Definition stk_eqb (a b : stk) := (sk a =? sk b) && (skmax a =? skmax b).
Definition cf_eqb (a b : cfield) :=
  lclose p_eqb (cf_per a) (cf_per b) && (cf_itv a =? cf_itv b) && (cf_dur a =? cf_dur b) && (cf_max a =? cf_max b)
  && (cf_last a =? cf_last b) && (cf_force a =? cf_force b) && (cf_rng a =? cf_rng b).
Definition xst_eqb (a b : xst) : bool :=
  u_eqb (x_u a) (x_u b) && stk_eqb (x_stk a) (x_stk b) && oz_eqb (x_mark a) (x_mark b) && stk_eqb (x_frost a) (x_frost b)
  && p_eqb (x_shock a) (x_shock b) && (dcount (x_drain a) =? dcount (x_drain b)) && (dmax (x_drain a) =? dmax (x_drain b))
  && (ntl (x_nova a) =? ntl (x_nova b)) && (nmax (x_nova a) =? nmax (x_nova b)) && cf_eqb (x_cf a) (x_cf b).

(* an expected XDealtM d h (-1) (-1) stands for "no modifier or the empty one": the component's own default
   modifier is added to both on the Python side, which hides the difference *)
Definition xev_eqw (a b : xev) : bool :=
  match b with
  | XDealtM d h (-1) (-1) => xev_eqb a (XE (EDealt d h)) || xev_eqb a (XDealtM d h 0 0)
  | _ => xev_eqb a b
  end.
Definition xchk (c : xcomp) (m : xmeth) (p : xpar) (t : Z) (s s' : xst) (es : list xev) : bool :=
  match xreduce_exec c m p t s with Some (r, e) => xst_eqb r s' && lclose xev_eqw e es | None => false end.

Definition v_eqb (a b : option validity) :=
  match a, b with
  | Some a, Some b => Bool.eqb (v_valid a) (v_valid b) && (v_time_left a =? v_time_left b) && oz_eqb (v_stack a) (v_stack b)
  | None, None => true | _, _ => false end.
Definition r_eqb (a b : option running) :=
  match a, b with
  | Some x, Some y => (r_time_left x =? r_time_left y) && (r_duration x =? r_duration y) && oz_eqb (r_stack x) (r_stack y)
  | None, None => true | _, _ => false end.
Definition xchkv (c : xcomp) (p : xpar) (s : xst) (e : option validity * option running * option Z) : bool :=
  let '(v, r, b) := e in
  v_eqb (xview_validity c p s) v && r_eqb (xview_running c p s) r && oz_eqb (xview_buff c p s) b.

(* compact constructors for the shards *)
Definition U (cd ltl lad : Z) (p1 : P.P) (ic1 : option Z) : ust :=
  mkU cd 0 ltl lad (C.mkC 1 1 1 1) p1 (P.mkP 1 1 0 0) (P.mkP 1 1 0 0) ic1 None None (K.mkK 1 0 (-1)) 0.
