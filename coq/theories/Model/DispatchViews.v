(* C10, store-access part of the status views (the part a functional component model cannot see).
   Definitions only; proofs in Proofs/DispatchViews.v, closed statements in Props/C10_dispatch.v.

   Modelled code:
   simulate/component/base.py
   * `WrappedView.__call__`: `store.local(name)`, then `StoreAdapter(default_state, binds).get_state` -- the
     SAME bound names as the component's dispatcher (same default-state names, same `binds` object, same
     GlobalProperty merge), i.e. every bound name is read, with the default entity as `setdefault` default,
     `ValueError` when an address is absent and has no default -- then the view method, an arbitrary TOTAL
     function of the state (pydantic's ValidationError -> ValueError re-raise concerns the view method's
     own state type and is outside this model)  [view_call]
   * `Component.get_views`: one WrappedView per view method, registered as "<component name>.<view name>"
   simulate/base.py `ViewSet.show/get_views/get_viewer`, simulate/view.py `AggregationView`
   * `build`: `regex.match(view_name)` over the registered names in registration order, pattern
     ".*\.<kind>": re.match anchors at the start only, so a name matches iff it CONTAINS ".<kind>"
     [pattern_matches, agg_children]; the children of each installed aggregation view are also
     extracted as data from the real objects and compared
   * `__call__`: `[view(store) for view in children]` in order, then `aggregate`  [agg_call]
   component/view.py: Information/Validity/Running/Keydown parent views return the list; BuffParentView
     = `Stat.sum` of the non-None results = (C11_stat_sum_eq_fold) the left fold of Stat addition from the
     zero block  [buff_total]
   simulate/timer.py `clock_view`: `read_entity("global.time", Clock())` on the root store  [clock_view]
   simulate/kms.py / builder.py initialisation: `install_global_properties` writes global.dynamics and
     global.time; `add_component` -> `init_store`: every OWN default entity is `read_entity`'d with its
     default at ".<component>.<default name>" (the default NAME, not the bound address)  [initial_store] *)
From Coq Require Import List Bool Arith String Ascii.
From V.Model Require Import Router Play Dispatch.
Import ListNotations.
Local Open Scope string_scope.

(* ".*\.<kind>" under re.match *)
Definition pattern_matches (kind full : string) : bool := substringb ("." ++ kind) full.
Definition agg_children (names : list string) (kind : string) : list string :=
  filter (pattern_matches kind) names.

Section Views.
  Variables Ent Pay V : Type.
  Notation component := (component Ent Pay).
  Notation store := (store Ent).

  Definition view_fn := fields Ent -> V.
  Definition view_call (c : component) (vf : view_fn) (st : store) : option (store * V) :=
    match get_state Ent Pay c st with
    | None => None
    | Some (st1, fs) => Some (st1, vf fs)
    end.

  Record cview := { cv_comp : component; cv_name : string; cv_fn : view_fn }.
  Fixpoint agg_call (children : list cview) (st : store) : option (store * list V) :=
    match children with
    | [] => Some (st, [])
    | cv :: r =>
        match view_call (cv_comp cv) (cv_fn cv) st with
        | None => None
        | Some (st1, v) =>
            match agg_call r st1 with
            | None => None
            | Some (st2, vs) => Some (st2, v :: vs)
            end
        end
    end.

  Definition clock_view (clock0 : Ent) (st : store) : option (store * Ent) :=
    read_entity Ent st (resolve root_addr clock_addr) (Some clock0).

  (* ---- initialisation *)
  Definition dynamics_addr := "global.dynamics".
  Definition own_addrs (c : component) : list string :=
    map (fun kv => resolve (comp_addr Ent Pay c) (fst kv)) (c_default c).
  Fixpoint init_defaults (cur : string) (defs : list (string * Ent)) (st : store) : store :=
    match defs with
    | [] => st
    | (n, e) :: r =>
        match read_entity Ent st (resolve cur n) (Some e) with
        | Some (st1, _) => init_defaults cur r st1
        | None => st                                          (* cannot happen: a default is given *)
        end
    end.
  Definition init_comp (st : store) (c : component) : store :=
    init_defaults (comp_addr Ent Pay c) (c_default c) st.
  Definition bare_store (dyn clk : Ent) : store := dset (dset [] dynamics_addr dyn) clock_addr clk.
  Definition initial_store (dyn clk : Ent) (cs : list component) : store :=
    fold_left init_comp cs (bare_store dyn clk).

  Definition init_addrs (cs : list component) : list string :=
    dynamics_addr :: clock_addr :: flat_map own_addrs cs.
  (* every bind target is some component's own entity or a global property *)
  Definition binds_closed (cs : list component) : bool :=
    forallb (fun c => forallb (fun a => existsb (String.eqb a) (init_addrs cs)) (bound_addrs Ent Pay c)) cs.
  (* the same against an address list observed on the implementation (store.save().keys()) *)
  Definition bound_in (addrs : list string) (cs : list component) : bool :=
    forallb (fun c => forallb (fun a => existsb (String.eqb a) addrs) (bound_addrs Ent Pay c)) cs.
End Views.

Arguments cv_comp {Ent Pay V}. Arguments cv_name {Ent Pay V}. Arguments cv_fn {Ent Pay V}.
Arguments Build_cview {Ent Pay V}.

(* BuffParentView.aggregate *)
Section Buff.
  Variables B : Type.
  Variable add : B -> B -> B.
  Variable zero : B.
  Definition somes (rs : list (option B)) : list B :=
    flat_map (fun o => match o with Some x => [x] | None => [] end) rs.
  Definition buff_total (rs : list (option B)) : B := fold_left add (somes rs) zero.
End Buff.

Definition buff_view (Ent Pay B : Type) (add : B -> B -> B) (zero : B)
           (children : list (cview Ent Pay (option B))) (st : store Ent) : option (store Ent * B) :=
  match agg_call Ent Pay (option B) children st with
  | None => None
  | Some (st', rs) => Some (st', buff_total B add zero rs)
  end.
