(* Extension `mage`: executable model of the job-specific component classes of
   simaple/simulate/component/specific/{magician,bishop,archmagefb,archmagetc}.py.

   Same conventions as Model/Comp.v: times are Z ticks, damage/hit numbers are opaque Z codes,
   values obtained from the Dynamics entity by a multiplication are parameters computed by
   Python.  The own cooldown / lasting / periodic entities of a class live in the `ust` slot
   (u_cd, u_ltl/u_lad, u_p1/u_ic1); entities Comp.v lacks (Stack, DivineMark, FerventDrainStack,
   PoisonNovaEntity, CurrentField) and the entities a class reaches through `binds` (the frost
   stack, the Jupiter-Thunder schedule, the divine mark, the drain stack) are further slots of
   the state record: a reducer is the function (payload, state) -> (state, events).

   Damage events that carry a modifier are XDealtM d h m1 m2:
     bishop:      m1 = code of the consumed mark's Stat (0 = the empty Stat()), m2 = 0
     archmage TC: m1 = n with modifier damage_multiplier = 12 n (frost), m2 = 1 iff the
                  Jupiter-Thunder shock (final_damage_multiplier 12) is added, else 0.
   Damage values that Python computes by float arithmetic from an integer index (PoisonChain:
   periodic_damage + increment * stack; ThunderBreak: periodic_damage * decay_rate ** count) are
   the table xp_tbl of codes indexed by that integer.
   Fuelled loops answer None when the fuel runs out (never a value). *)
From Coq Require Import ZArith List Bool.
From V.Model Require Import Comp.
Import ListNotations.
Open Scope Z_scope.

(* ------------------------------------------------------------ entities *)
(* entity.Stack *)
Record stk := mkStk { sk : Z; skmax : Z }.
Definition stk_inc (s : stk) (v : Z) : stk := mkStk (Z.min (skmax s) (sk s + v)) (skmax s).
Definition stk_dec (s : stk) (v : Z) : stk := mkStk (sk s - v) (skmax s).
Definition stk_reset (s : stk) (v : Z) : stk := mkStk v (skmax s).

(* archmagefb.FerventDrainStack *)
Record drain := mkDrain { dcount : Z; dmax : Z }.
(* archmagefb.PoisonNovaEntity *)
Record nova := mkNova { ntl : Z; nmax : Z }.
Definition nova_can_trigger (n : nova) : bool := (0 <? ntl n) && (ntl n <? nmax n).

(* archmagetc.CurrentField; cf_rng and the probability live on their own (value) scale, on
   which 1.0 is the parameter xp_one *)
Record cfield := mkCF {
  cf_per : list P.P; cf_itv : Z; cf_dur : Z; cf_max : Z; cf_last : Z; cf_force : Z; cf_rng : Z }.

(* python l[-n:] *)
Definition lastn {A} (n : Z) (l : list A) : list A :=
  if n =? 0 then l
  else if 0 <? n then skipn (length l - Z.to_nat n) l
  else skipn (Z.to_nat (- n)) l.

Definition cf_create (c : cfield) : cfield :=
  mkCF (lastn (cf_max c) (cf_per c ++ [P.mkP (cf_itv c) (cf_itv c) (cf_dur c) 0]))
       (cf_itv c) (cf_dur c) (cf_max c) (cf_last c) (cf_force c) (cf_rng c).
Definition cf_set_last (c : cfield) v := mkCF (cf_per c) (cf_itv c) (cf_dur c) (cf_max c) v (cf_force c) (cf_rng c).
Definition cf_set_rng (c : cfield) v := mkCF (cf_per c) (cf_itv c) (cf_dur c) (cf_max c) (cf_last c) (cf_force c) v.
Definition cf_set_per (c : cfield) v := mkCF v (cf_itv c) (cf_dur c) (cf_max c) (cf_last c) (cf_force c) (cf_rng c).

(* CurrentField.stack_rng: the deterministic accumulator *)
Definition cf_stack_rng (one prob : Z) (c : cfield) : cfield :=
  if cf_force c <=? cf_last c then cf_create (cf_set_last c 0)
  else let r := cf_rng c + prob in
       if one <=? r then cf_create (cf_set_rng c (r - one)) else cf_set_rng c r.

(* CurrentField.elapse *)
Definition cf_tick_sum (pe : P.P -> Z -> P.P) (t : Z) (l : list P.P) : nat :=
  fold_right (fun q acc => (ticks q (pe q t) + acc)%nat) O l.
Definition cf_elapse (pe : P.P -> Z -> P.P) (t : Z) (c : cfield) : cfield * nat :=
  (mkCF (filter P.enabled (map (fun q => pe q t) (cf_per c))) (cf_itv c) (cf_dur c) (cf_max c)
        (cf_last c + t) (cf_force c) (cf_rng c),
   cf_tick_sum pe t (cf_per c)).

(* ------------------------------------------------------------ state, parameters, events *)
Record xst := mkX {
  x_u : ust;            (* own cooldown, lasting, periodic (+ its initial counter) *)
  x_stk : stk;          (* own Stack entity (stack / punishing_stack) *)
  x_mark : option Z;    (* bound DivineMark.advantage (code of the Stat; None = no mark) *)
  x_frost : stk;        (* frost_stack (own for FrostEffect, bound elsewhere) *)
  x_shock : P.P;        (* bound jupyter_thunder_shock schedule *)
  x_drain : drain;      (* drain_stack (own for FerventDrain, bound for InfernalVenom) *)
  x_nova : nova;
  x_cf : cfield
}.

Definition xset_u (s : xst) v := mkX v (x_stk s) (x_mark s) (x_frost s) (x_shock s) (x_drain s) (x_nova s) (x_cf s).
Definition xset_stk (s : xst) v := mkX (x_u s) v (x_mark s) (x_frost s) (x_shock s) (x_drain s) (x_nova s) (x_cf s).
Definition xset_mark (s : xst) v := mkX (x_u s) (x_stk s) v (x_frost s) (x_shock s) (x_drain s) (x_nova s) (x_cf s).
Definition xset_frost (s : xst) v := mkX (x_u s) (x_stk s) (x_mark s) v (x_shock s) (x_drain s) (x_nova s) (x_cf s).
Definition xset_drain (s : xst) v := mkX (x_u s) (x_stk s) (x_mark s) (x_frost s) (x_shock s) v (x_nova s) (x_cf s).
Definition xset_nova (s : xst) v := mkX (x_u s) (x_stk s) (x_mark s) (x_frost s) (x_shock s) (x_drain s) v (x_cf s).
Definition xset_cf (s : xst) v := mkX (x_u s) (x_stk s) (x_mark s) (x_frost s) (x_shock s) (x_drain s) (x_nova s) v.

Record xpar := mkXP {
  xp : par;             (* the fields shared with the common classes *)
  xp_mark : Z;          (* code of DivineMinion.mark_advantage *)
  xp_hasbuff : bool;    (* the optional synergy / stat of the buff view is configured *)
  xp_tbl : list Z;      (* damage codes by integer index (see the header) *)
  xp_resolve : Z;       (* HexaAngelRay.stack_resolve_amount *)
  xp_novatl : Z;        (* PoisonNova.nova_remaining_time *)
  xp_prob : Z; xp_one : Z;          (* electric_current_prob and 1.0 on the value scale *)
  xp_ival : Z;          (* Infinity.increase_interval (ticks) *)
  xp_fd0 : Z; xp_fdinc : Z; xp_fdmax : Z   (* Infinity final damage: default, increment, maximum (value scale) *)
}.

Inductive xev := XE (e : ev) | XDealtM (d h m1 m2 : Z).
Definition xis_reject (e : xev) : bool := match e with XE EReject => true | _ => false end.
Definition xis_dealt (e : xev) : bool := match e with XE (EDealt _ _) => true | XDealtM _ _ _ _ => true | _ => false end.
Definition xrejected (es : list xev) : bool := existsb xis_reject es.
Definition xdealt (x : dh) : xev := XE (dealt x).
Definition xres := (xst * list xev)%type.
Definition lift (s : xst) (r : res) : xres := (xset_u s (fst r), map XE (snd r)).
Definition mobdot (p : par) : xev := XE (EMobDot (fst (p_dot p)) (snd (p_dot p))).
Definition b2z (b : bool) : Z := if b then 1 else 0.

(* archmagetc.use_frost_stack: returns the new stack and the n of the modifier 12 n *)
Definition use_frost (f : stk) : stk * Z := if sk f =? 0 then (f, 0) else (stk_dec f 1, sk f).
(* DivineMark.consume_mark: the advantage, or the empty Stat (code 0) *)
Definition mark_code (m : option Z) : Z := match m with Some c => c | None => 0 end.

(* ------------------------------------------------------------ loops *)
(* PoisonChainComponent.elapse: one damage event per tick, the stack grows after each *)
Fixpoint chain_ticks (tbl : list Z) (h : Z) (n : nat) (s : stk) : list xev * stk :=
  match n with
  | O => ([], s)
  | S k => let '(es, s') := chain_ticks tbl h k (stk_inc s 1) in
           (XE (EDealt (nth (Z.to_nat (sk s)) tbl 0) h) :: es, s')
  end.

(* JupyterThunder.elapse: the resolve loop; break when count >= max_count; every tick with
   (count+1) % 5 == 0 consumes a frost stack, the others only read it *)
Fixpoint jt_loop (fuel : nat) (mx : Z) (pd : dh) (q : P.P) (t prev : Z) (f : stk) (acc : list xev)
  : option (P.P * stk * list xev) :=
  if t <=? 0 then Some (q, f, acc) else
  match fuel with
  | O => None
  | S fl => let '(q', t') := P.step q t in
            if mx <=? P.cnt q' then Some (q', f, acc)
            else if P.cnt q' =? prev then jt_loop fl mx pd q' t' prev f acc
            else let '(f', m) := if (P.cnt q' + 1) mod 5 =? 0 then use_frost f else (f, sk f) in
                 jt_loop fl mx pd q' t' (P.cnt q') f' (acc ++ [XDealtM (fst pd) (snd pd) m 0])
  end.

(* ThunderBreak.elapse: break when count > max_count; every tick consumes a frost stack, the
   damage decays with the count (table), the shock advantage is read from the bound schedule *)
Fixpoint tb_loop (fuel : nat) (mx : Z) (tbl : list Z) (h shock : Z) (q : P.P) (t prev : Z) (f : stk) (acc : list xev)
  : option (P.P * stk * list xev) :=
  if t <=? 0 then Some (q, f, acc) else
  match fuel with
  | O => None
  | S fl => let '(q', t') := P.step q t in
            if mx <? P.cnt q' then Some (q', f, acc)
            else if prev =? P.cnt q' then tb_loop fl mx tbl h shock q' t' prev f acc
            else let '(f', m) := use_frost f in
                 tb_loop fl mx tbl h shock q' t' (P.cnt q') f'
                         (acc ++ [XDealtM (nth (Z.to_nat (P.cnt q')) tbl 0) h m shock])
  end.
Definition cap_disable (mx : Z) (q : P.P) : P.P := if mx <=? P.cnt q then P.disable q else q.

(* ------------------------------------------------------------ classes and reducers *)
Inductive xcomp :=
| DotPunisher | Infinity | DivineAttack | DivineMinion | HexaAngelRay | Ifritt | PoisonNova | PoisonChain
| InfernalVenom | FlameSwipVI | FerventDrain | FrostEffect | ThunderAttack | JupyterThunder | ThunderBreak
| ChainLightningVI.
Inductive xmeth := XUse | XElapse | XResetCooldown | XTrigger | XStack | XExplode | XIncStep | XIncThree.

Definition cd_elapse (t : Z) (s : xst) : xres := lift s (elapse_simple_attack t (x_u s)).

(* HexaAngelRayComponent._stack *)
Definition har_stack (p : xpar) (s : xst) : xres :=
  let k := stk_inc (x_stk s) 1 in
  if xp_resolve p <=? sk k then (xset_stk s (stk_dec k (xp_resolve p)), [xdealt (p_dmg2 (xp p))])
  else (xset_stk s k, []).

(* use of the TC attack skills: cooldown, frost stack, shock advantage *)
Definition tc_attack (p : xpar) (s : xst) : xres :=
  let u := x_u s in
  let '(f', m) := use_frost (x_frost s) in
  (xset_frost (xset_u s (set_cd u (p_cdA (xp p)))) f',
   [XDealtM (fst (p_dmg (xp p))) (snd (p_dmg (xp p))) m (b2z (P.enabled (x_shock s))); XE (EDelay (p_delay (xp p)))]).

Definition xreduce (pe : P.P -> Z -> P.P) (fuel : P.P -> Z -> nat)
                   (c : xcomp) (m : xmeth) (p : xpar) (t : Z) (s : xst) : option xres :=
  let u := x_u s in let q := xp p in
  match c, m with
  (* ---- archmagefb.DotPunisherComponent *)
  | DotPunisher, XUse =>
      Some (if negb (avail u) then (s, [XE EReject])
            else (xset_u s (set_cd u (p_cdA q)),
                  repeat (xdealt (p_dmg q)) (p_multiple q) ++ [XE (EDelay (p_delay q)); mobdot q]))
  | DotPunisher, XElapse => Some (cd_elapse t s)
  | DotPunisher, XResetCooldown => Some (xset_u s (set_cd u 0), [])
  (* ---- magician.Infinity *)
  | Infinity, XUse => Some (lift s (use_buff_trait q u))
  | Infinity, XElapse => Some (lift s (elapse_buff_trait t u))
  (* ---- bishop.DivineAttackSkillComponent *)
  | DivineAttack, XUse =>
      Some (if negb (avail u) then (s, [XE EReject])
            else (xset_mark (xset_u s (set_cd u (p_cdA q))) None,
                  [XDealtM (fst (p_dmg q)) (snd (p_dmg q)) (mark_code (x_mark s)) 0; XE (EDelay (p_delay q))]))
  | DivineAttack, XElapse => Some (cd_elapse t s)
  (* ---- bishop.DivineMinion *)
  | DivineMinion, XUse => Some (lift s (use_periodic_with_simple q u))
  | DivineMinion, XElapse =>
      let r := elapse_periodic_with pe q t u in
      let n := ticks (u_p1 u) (u_p1 (fst r)) in
      Some (xset_mark (xset_u s (fst r)) (match n with O => x_mark s | S _ => Some (xp_mark p) end), map XE (snd r))
  (* ---- bishop.HexaAngelRayComponent *)
  | HexaAngelRay, XUse =>
      Some (if negb (avail u) then (s, [XE EReject])
            else let '(s1, sev) := har_stack p (xset_u s (set_cd u (p_cdA q))) in
                 (xset_mark s1 None,
                  [XDealtM (fst (p_dmg q)) (snd (p_dmg q)) (mark_code (x_mark s)) 0; XE (EDelay (p_delay q))] ++ sev))
  | HexaAngelRay, XStack => Some (har_stack p s)
  | HexaAngelRay, XElapse => Some (cd_elapse t s)
  (* ---- archmagefb.IfrittComponent *)
  | Ifritt, XUse =>
      let r := use_periodic_with_simple q u in
      Some (if rejected (snd r) then lift s r else (xset_u s (fst r), map XE (snd r) ++ [mobdot q]))
  | Ifritt, XElapse => Some (lift s (elapse_periodic_with pe q t u))
  (* ---- archmagefb.PoisonNovaComponent *)
  | PoisonNova, XElapse =>
      Some (xset_nova (xset_u s (set_cd u (u_cd u - t))) (mkNova (ntl (x_nova s) - t) (nmax (x_nova s))), [XE (EElapsed t)])
  | PoisonNova, XUse =>
      Some (if negb (avail u) then (s, [XE EReject])
            else (xset_nova (xset_u s (set_cd u (p_cdA q))) (mkNova (xp_novatl p) (nmax (x_nova s))),
                  [xdealt (p_dmg q); XE (EDelay (p_delay q)); mobdot q]))
  | PoisonNova, XTrigger =>
      Some (if nova_can_trigger (x_nova s)
            then (xset_nova s (mkNova 0 (nmax (x_nova s))), [xdealt (p_dmg2 q); xdealt (p_fin q)])
            else (s, []))
  (* ---- archmagefb.PoisonChainComponent *)
  | PoisonChain, XElapse =>
      let q1 := pe (u_p1 u) t in
      let '(es, k) := chain_ticks (xp_tbl p) (snd (p_pd1 q)) (ticks (u_p1 u) q1) (x_stk s) in
      Some (xset_stk (xset_u s (set_p1 (set_cd u (u_cd u - t)) q1)) k, XE (EElapsed t) :: es)
  | PoisonChain, XUse =>
      let r := use_periodic_with_simple q u in
      Some (if rejected (snd r) then lift s r
            else (xset_stk (xset_u s (fst r)) (stk_reset (x_stk s) 1), map XE (snd r)))
  (* ---- archmagefb.InfernalVenom *)
  | InfernalVenom, XUse =>
      Some (if negb (avail u) then (s, [XE EReject])
            else (xset_drain (xset_u s (set_las (set_cd u (p_cdA q)) (p_last q) (p_last q))) (mkDrain 10 10),
                  [xdealt (p_dmg q); xdealt (p_dmg2 q); XE (EDelay (p_delay q))]))
  | InfernalVenom, XElapse =>
      let u' := set_las (set_cd u (u_cd u - t)) (u_ltl u - t) (u_lad u) in
      let s' := xset_u s u' in
      Some (if las_on u && negb (las_on u') then xset_drain s' (mkDrain 5 5) else s', [XE (EElapsed t)])
  (* ---- archmagefb.FlameSwipVI (after the repair 385777f: a rejection is returned alone) *)
  | FlameSwipVI, XUse =>
      let r := use_simple_attack q u in
      Some (if rejected (snd r) then lift s r
            else (xset_stk (xset_u s (fst r)) (stk_inc (x_stk s) 1), map XE (snd r) ++ [mobdot q]))
  | FlameSwipVI, XExplode =>
      Some (if sk (x_stk s) <? 3 then (s, [])
            else (xset_stk s (stk_reset (x_stk s) 0), [xdealt (p_dmg2 q)]))
  (* ---- archmagetc.FrostEffect *)
  | FrostEffect, XIncStep => Some (xset_frost s (stk_inc (x_frost s) 1), [])
  | FrostEffect, XIncThree => Some (xset_frost s (stk_inc (x_frost s) 3), [])
  (* ---- archmagetc.ThunderAttackSkillComponent *)
  | ThunderAttack, XUse => Some (if negb (avail u) then (s, [XE EReject]) else tc_attack p s)
  | ThunderAttack, XElapse => Some (cd_elapse t s)
  (* ---- archmagetc.JupyterThunder *)
  | JupyterThunder, XUse => Some (lift s (use_periodic q u))
  | JupyterThunder, XElapse =>
      match jt_loop (fuel (u_p1 u) t) (p_maxcount q) (p_pd1 q) (u_p1 u) t (P.cnt (u_p1 u)) (x_frost s) [] with
      | None => None
      | Some (q1, f, es) =>
          Some (xset_frost (xset_u s (set_p1 (set_cd u (u_cd u - t)) (cap_disable (p_maxcount q) q1))) f,
                XE (EElapsed t) :: es)
      end
  (* ---- archmagetc.ThunderBreak *)
  | ThunderBreak, XUse => Some (lift s (use_periodic q u))
  | ThunderBreak, XElapse =>
      match tb_loop (fuel (u_p1 u) t) (p_maxcount q) (xp_tbl p) (snd (p_pd1 q)) (b2z (P.enabled (x_shock s)))
                    (u_p1 u) t (P.cnt (u_p1 u)) (x_frost s) [] with
      | None => None
      | Some (q1, f, es) =>
          Some (xset_frost (xset_u s (set_p1 (set_cd u (u_cd u - t)) (cap_disable (p_maxcount q) q1))) f,
                XE (EElapsed t) :: es)
      end
  (* ---- archmagetc.ChainLightningVIComponent *)
  | ChainLightningVI, XUse =>
      Some (if negb (avail u) then (s, [XE EReject])
            else let '(s1, es) := tc_attack p s in
                 (xset_cf s1 (cf_stack_rng (xp_one p) (xp_prob p) (x_cf s)), es))
  | ChainLightningVI, XElapse =>
      let '(c', n) := cf_elapse pe t (x_cf s) in
      Some (xset_cf (xset_u s (set_cd u (u_cd u - t))) c', XE (EElapsed t) :: repeat (xdealt (p_pd1 q)) n)
  | _, _ => None
  end.

(* specification instance (used by the theorems): the total Periodic.elapse, fuel t+1 *)
Definition xreduce_spec := xreduce P.elapse (fun _ t => P.fuel_of t).

(* executable instance: None when a fuelled loop runs out *)
Definition xpe_exec_ok (s : xst) (t : Z) : bool :=
  match P.elapse_exec (u_p1 (x_u s)) t with Some _ => true | None => false end
  && forallb (fun q => match P.elapse_exec q t with Some _ => true | None => false end) (cf_per (x_cf s)).
Definition xreduce_exec (c : xcomp) (m : xmeth) (p : xpar) (t : Z) (s : xst) : option xres :=
  if negb (xpe_exec_ok s t) then None else xreduce pe_exec P.exec_fuel c m p t s.

(* ------------------------------------------------------------ views *)
Definition BIG : Z := 999999999.
Definition xcd_validity (s : xst) : validity := mkV (avail (x_u s)) (Z.max 0 (u_cd (x_u s))) None.

Definition xview_validity (c : xcomp) (p : xpar) (s : xst) : option validity :=
  match c with
  | FerventDrain | FrostEffect => None
  | DivineMinion => Some (cd_validity (xp p) true (x_u s))     (* invalidatable *)
  | _ => Some (xcd_validity s)
  end.

Definition xview_running (c : xcomp) (p : xpar) (s : xst) : option running :=
  match c with
  | Infinity | InfernalVenom => Some (mkR (u_ltl (x_u s)) (u_lad (x_u s)) None)
  | DivineMinion | PoisonChain | Ifritt => Some (mkR (P.tl (u_p1 (x_u s))) (p_lastraw (xp p)) None)
  | FerventDrain => Some (mkR BIG BIG None)
  | FrostEffect => Some (mkR BIG BIG (Some (sk (x_frost s))))
  | _ => None
  end.

(* buff view: None = no view or the view returns None; Some v:
     Infinity      v = the final damage multiplier on the value scale
     FerventDrain  v = the final damage multiplier 5 * min count max_count
     FrostEffect   v = the number of stacks (the Stat is critical_damage_per_stack * v)
     others        v = 1, the configured Stat *)
Definition xview_buff (c : xcomp) (p : xpar) (s : xst) : option Z :=
  match c with
  | Infinity =>
      if las_on (x_u s)
      then Some (Z.min (xp_fd0 p + xp_fdinc p * ((u_lad (x_u s) - u_ltl (x_u s)) / xp_ival p)) (xp_fdmax p))
      else None
  | DivineAttack => if xp_hasbuff p then Some 1 else None
  | DivineMinion => if P.enabled (u_p1 (x_u s)) && xp_hasbuff p then Some 1 else None
  | HexaAngelRay => Some 1
  | FerventDrain => Some (5 * Z.min (dcount (x_drain s)) (dmax (x_drain s)))
  | FrostEffect => Some (sk (x_frost s))
  | _ => None
  end.
