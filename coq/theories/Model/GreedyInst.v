(* C19 -- executable instances of Model/Greedy.v used by the correspondence shards (definitions only):
   table-driven value/cost functions (the same tables drive the synthetic DiscreteTarget subclasses of
   tools/lib/h_opt.py) and the weapon-potential objective as a closed formula over potential lines. *)
From Coq Require Import List QArith Bool Arith.
From V.Model Require Import Greedy.
Import ListNotations.
Close Scope Q_scope.
Open Scope nat_scope.

(* ------------------------------------------------------------------ table-driven objective *)
Inductive fn : Type :=
| FSum (base : Q) (tabs : list (list Q))          (* base + sum_i tabs[i][state[i]] *)
| FProd (base : Q) (tabs : list (list Q))         (* base * prod_i tabs[i][state[i]] *)
| FFull (radix : nat) (tbl : list Q) (dflt : Q).  (* tbl[mixed-radix code of the state], dflt outside *)

Definition tab_at (t : list Q) (x : nat) : Q := nth x t 0%Q.

Fixpoint zip_tabs (tabs : list (list Q)) (st : state) : list Q :=
  match tabs, st with
  | t :: tabs', x :: st' => tab_at t x :: zip_tabs tabs' st'
  | _, _ => []
  end.

Definition code (radix : nat) (st : state) : nat := fold_left (fun a x => a * radix + x) st 0.

Definition eval_fn (f : fn) (st : state) : Q :=
  match f with
  | FSum base tabs => fold_left Qplus (zip_tabs tabs st) base
  | FProd base tabs => fold_left Qmult (zip_tabs tabs st) base
  | FFull radix tbl dflt => if forallb (fun x => x <? radix) st then nth (code radix st) tbl dflt else dflt
  end.

Fixpoint state_eqb (a b : state) : bool :=
  match a, b with
  | [], [] => true
  | x :: a', y :: b' => (x =? y) && state_eqb a' b'
  | _, _ => false
  end.

Fixpoint states_eqb (a b : list state) : bool :=
  match a, b with
  | [], [] => true
  | x :: a', y :: b' => state_eqb x y && states_eqb a' b'
  | _, _ => false
  end.

Definition outcome_eqb (a b : outcome) : bool :=
  match a, b with
  | Done s k, Done s' k' => state_eqb s s' && (k =? k')
  | Crash, Crash => true
  | Impossible, Impossible => true
  | IterExceeded, IterExceeded => true
  | _, _ => false
  end.

(* one correspondence case: the model's outcome and visited states against what the real
   StepwizeOptimizer did on the synthetic target with the same tables *)
Definition case_ok (vf cf : fn) (M : nat) (budget : Q) (step_size max_iter : nat) (start : state)
           (expected : outcome) (visited : list state) : bool :=
  outcome_eqb (optimize_coded (eval_fn vf) (eval_fn cf) M budget step_size max_iter start) expected
  && states_eqb (trace_coded (eval_fn vf) (eval_fn cf) M budget step_size max_iter start) visited.

Definition iter_ok (n depth : nat) (expected : list (list nat)) : bool :=
  states_eqb (cumulated n depth) expected.

(* ------------------------------------------------------------------ weapon potential instance *)
(* one line of _WEAPON_POTENTIALS as seen by a damage logic: flat attack and attack % of the logic's own
   attack type, ignored defence %, boss damage % *)
Record line : Type := { l_id : nat; l_att : Q; l_attm : Q; l_ied : Q; l_boss : Q }.

Record wp_env : Type := {
  e_const : Q;    (* product of the factors no potential line touches *)
  e_att : Q;      (* attack of the logic's attack type in default_stat *)
  e_attm : Q;     (* its multiplier % *)
  e_dmg : Q;      (* boss_damage_multiplier + damage_multiplier *)
  e_ied : Q;      (* ignored_defence *)
  e_armor : Q
}.

(* Stat.__add__ on ignored_defence: 100 - 0.01 * (100 - a) * (100 - b) *)
Definition ied_add (a b : Q) : Q := (100 - (1 # 100) * ((100 - a) * (100 - b)))%Q.

Definition wp_value_at (e : wp_env) (ied0 armor : Q) (ls : list line) : Q :=
  let att := fold_left (fun a l => (a + l_att l)%Q) ls (e_att e) in
  let attm := fold_left (fun a l => (a + l_attm l)%Q) ls (e_attm e) in
  let dmg := fold_left (fun a l => (a + l_boss l)%Q) ls (e_dmg e) in
  let ied := fold_left (fun a l => ied_add a (l_ied l)) ls ied0 in
  (e_const e * (1 + dmg * (1 # 100)) * (1 - (1 # 10000) * (armor * (100 - ied)))
   * (att * (1 + (1 # 100) * attm)))%Q.

(* get_reward: the configured armour *)
Definition wp_value (e : wp_env) (ls : list line) : Q := wp_value_at e (e_ied e) (e_armor e) ls.

(* get_useful_candidates: gain at default_stat + Stat(ignored_defence=90) under the DEFAULT armour 300 *)
Definition wp_useful (e : wp_env) (l : line) : bool :=
  let ied := ied_add (e_ied e) 90 in
  Qgt_bool (wp_value_at e ied 300 [l] - wp_value_at e ied 300 [])%Q 0.

Definition wp_is_boss (l : line) : bool := Qgt_bool (l_boss l) 0.
Definition wp_is_ied (l : line) : bool := Qgt_bool (l_ied l) 0.

Definition wp_cand_ids (e : wp_env) (tiers : list (list line)) (emblem : bool) : list (list nat) :=
  map (map l_id) (wp_candidates line (wp_useful e) wp_is_boss wp_is_ied tiers emblem).

Definition wp_full_value (e : wp_env) (tiers : list (list line)) : Q :=
  snd (wp_full_optimal line (wp_useful e) wp_is_boss wp_is_ied (wp_value e) tiers).

Definition wp_single_value (e : wp_env) (tiers : list (list line)) : Q :=
  snd (wp_optimal line (wp_useful e) wp_is_boss wp_is_ied (wp_value e) tiers).

(* the best value over ALL legal triples, without pruning *)
Definition wp_unpruned_best (e : wp_env) (tiers : list (list line)) : Q :=
  snd (argmax_from (triple_value line (wp_value e))
         (wp_full_unpruned line wp_is_boss wp_is_ied tiers) (([], [], []), 0%Q)).
