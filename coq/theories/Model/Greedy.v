(* C19 -- executable model of simaple/optimizer (definitions only, no proofs).

   optimizer.py      DiscreteTarget.get_stepped_target  = stepped
                     StepwizeOptimizer.get_reward       = reward   (None = ZeroDivisionError)
                     StepwizeOptimizer.get_optimal_increment = optimal_increment
                     StepwizeOptimizer.optimize         = run / optimize_coded
   step_iterator.py  Iterator.cumulated_iterator        = cumulated
   weapon_potential_optimizer.py  get_potential_candidates = wp_candidates,
                     get_optimal_potential = wp_optimal, get_full_optimal_potential = wp_full_optimal

   A target's state is its list of per-slot step counts.  value/cost are arbitrary functions
   state -> Q (every DiscreteTarget subclass, every damage logic, stat block, armour), the
   maximum step is a function of the slot (the code uses one number for all slots), the
   budget is a rational. *)
From Coq Require Import List QArith Bool Arith.
Import ListNotations.
Close Scope Q_scope.
Open Scope nat_scope.

Definition state := list nat.

(* new_state[step] += 1 *)
Fixpoint bump (st : state) (i : nat) : state :=
  match st, i with
  | [], _ => []
  | x :: r, O => S x :: r
  | x :: r, S i' => x :: bump r i'
  end.

Definition Qgt_bool (a b : Q) : bool := negb (Qle_bool a b).      (* a > b *)

Definition NO_TARGET_REWARD : Q := ((-999) # 1)%Q.
Definition COST_EXCEED : Q := ((-999) # 1)%Q.
Definition INITIAL_REWARD : Q := ((-1) # 1)%Q.

Inductive outcome : Type :=
| Done (st : state) (steps : nat)   (* optimize() returned a target with this state after so many accepted increments *)
| Crash                             (* ZeroDivisionError inside get_reward *)
| Impossible                        (* `raise TypeError`: the chosen increment is not a legal step *)
| IterExceeded.                     (* MaximumOptimizationStepExceed *)

Section Greedy.
  Variables value cost : state -> Q.
  Variable mx : nat -> nat.              (* maximum step of a slot *)
  Variable budget : Q.                   (* maximum_cost *)
  Variable incs : list (list nat).       (* what get_increment_iterator() yields, in order *)

  (* get_stepped_target: apply the increments one at a time; None as soon as the slot just
     raised exceeds its maximum *)
  Fixpoint stepped (st : state) (inc : list nat) : option state :=
    match inc with
    | [] => Some st
    | i :: r => let st' := bump st i in
                if mx i <? nth i st' 0 then None else stepped st' r
    end.

  (* get_reward(target, increments, original_cost, original_value) *)
  Definition reward (st : state) (inc : list nat) : option Q :=
    match stepped st inc with
    | None => Some NO_TARGET_REWARD
    | Some st' =>
        let c := cost st' in
        if Qgt_bool c budget then Some COST_EXCEED
        else if Qeq_bool (value st) 0 then None
        else if Qeq_bool (c - cost st) 0 then None
        else Some ((value st' / value st - 1) / (c - cost st))%Q
    end.

  (* `if reward > best_reward: best_reward, best_increments = reward, increments` *)
  Definition pick (acc : list nat * Q) (inc : list nat) (q : Q) : list nat * Q :=
    if Qgt_bool q (snd acc) then (inc, q) else acc.

  Fixpoint best (st : state) (l : list (list nat)) (acc : list nat * Q) : option (list nat * Q) :=
    match l with
    | [] => Some acc
    | inc :: r => match reward st inc with
                  | None => None
                  | Some q => best st r (pick acc inc q)
                  end
    end.

  Definition optimal_increment (st : state) : option (list nat) :=
    match best st incs ([], INITIAL_REWARD) with
    | None => None
    | Some a => Some (fst a)
    end.

  (* optimize(): fuel = maximum_iteration_count (the exception is raised by the step that
     makes iteration_count exceed it); k counts accepted increments *)
  Fixpoint run (fuel : nat) (st : state) (k : nat) : outcome :=
    match optimal_increment st with
    | None => Crash
    | Some [] => Done st k
    | Some inc =>
        match stepped st inc with
        | None => Impossible
        | Some st' => match fuel with
                      | O => IterExceeded
                      | S f => run f st' (S k)
                      end
        end
    end.

  (* the states the loop visits after the start state, in order (whatever the outcome) *)
  Fixpoint trace (fuel : nat) (st : state) : list state :=
    match optimal_increment st with
    | None => []
    | Some [] => []
    | Some inc =>
        match stepped st inc with
        | None => []
        | Some st' => match fuel with
                      | O => []
                      | S f => st' :: trace f st'
                      end
        end
    end.
End Greedy.

(* ------------------------------------------------------------------ step iterator *)
(* itertools.combinations(l, k) *)
Fixpoint combs {A : Type} (l : list A) (k : nat) : list (list A) :=
  match k, l with
  | O, _ => [[]]
  | S _, [] => []
  | S k', x :: r => map (cons x) (combs r k') ++ combs r k
  end.

(* itertools.permutations(range(n), 2) *)
Definition perms2 (n : nat) : list (nat * nat) :=
  flat_map (fun i => map (fun j => (i, j)) (filter (fun j => negb (j =? i)) (seq 0 n))) (seq 0 n).

Definition single_iterator (n : nat) : list (list nat) := map (fun i => [i]) (seq 0 n).

Definition double_iterator (n : nat) : list (list nat) :=
  map (fun i => [i; i]) (seq 0 n) ++ combs (seq 0 n) 2.

Definition triple_iterator (n : nat) : list (list nat) :=
  map (fun i => [i; i; i]) (seq 0 n)
  ++ map (fun p => [fst p; fst p; snd p]) (perms2 n)
  ++ combs (seq 0 n) 3.

Definition quadruple_iterator (n : nat) : list (list nat) :=
  map (fun i => [i; i; i; i]) (seq 0 n)
  ++ map (fun p => [fst p; fst p; fst p; snd p]) (perms2 n)
  ++ map (fun c => match c with [i; j] => [i; i; j; j] | _ => [] end) (combs (seq 0 n) 2)
  ++ flat_map (fun i => map (fun c => i :: i :: c)
                            (combs (filter (fun idx => negb (idx =? i)) (seq 0 n)) 2)) (seq 0 n)
  ++ combs (seq 0 n) 4.

Definition cumulated (n depth : nat) : list (list nat) :=
  (if 1 <=? depth then single_iterator n else [])
  ++ (if 2 <=? depth then double_iterator n else [])
  ++ (if 3 <=? depth then triple_iterator n else [])
  ++ (if 4 <=? depth then quadruple_iterator n else []).

(* StepwizeOptimizer(target, maximum_cost, step_size, maximum_iteration_count).optimize()
   for a target whose maximum_step is M *)
Definition optimize_coded (value cost : state -> Q) (M : nat) (budget : Q) (step_size max_iter : nat)
           (st : state) : outcome :=
  run value cost (fun _ => M) budget (cumulated (length st) step_size) max_iter st 0.

Definition trace_coded (value cost : state -> Q) (M : nat) (budget : Q) (step_size max_iter : nat)
           (st : state) : list state :=
  trace value cost (fun _ => M) budget (cumulated (length st) step_size) max_iter st.

(* ------------------------------------------------------------------ weapon potential *)
(* `for x in xs: r = f(x); if r > maximum_reward: maximum_reward, optimal = r, x` *)
Section ArgMax.
  Context {A : Type}.
  Variable f : A -> Q.
  Fixpoint argmax_from (l : list A) (acc : A * Q) : A * Q :=
    match l with
    | [] => acc
    | x :: r => argmax_from r (if Qgt_bool (f x) (snd acc) then (x, f x) else acc)
    end.
End ArgMax.

(* itertools.product of the lists in ls *)
Fixpoint product {A : Type} (ls : list (list A)) : list (list A) :=
  match ls with
  | [] => [[]]
  | l :: r => flat_map (fun x => map (cons x) (product r)) l
  end.

Section WeaponPotential.
  Variable opt : Type.                    (* one potential line (a Stat of _WEAPON_POTENTIALS) *)
  Variable useful : opt -> bool.          (* kept by get_useful_candidates *)
  Variables is_boss is_ied : opt -> bool. (* stat.boss_damage_multiplier > 0 / stat.ignored_defence > 0 *)
  Variable value : list opt -> Q.         (* get_reward(sum of the lines' stats) *)

  Definition count (p : opt -> bool) (l : list opt) : nat := length (filter p l).

  (* the two `continue` tests of get_potential_candidates *)
  Definition wp_legal (emblem : bool) (stats : list opt) : bool :=
    negb (emblem && (0 <? count is_boss stats))
    && negb ((2 <? count is_boss stats) || (2 <? count is_ied stats)).

  Definition wp_candidates_of (tiers : list (list opt)) (emblem : bool) : list (list opt) :=
    filter (wp_legal emblem) (product tiers).

  (* get_potential_candidates(tiers, emblem): pruned *)
  Definition wp_candidates (tiers : list (list opt)) (emblem : bool) : list (list opt) :=
    wp_candidates_of (map (filter useful) tiers) emblem.

  (* get_optimal_potential(): Potential() = no lines, maximum_reward = 0.0 *)
  Definition wp_optimal (tiers : list (list opt)) : list opt * Q :=
    argmax_from value (wp_candidates tiers false) ([], 0%Q).

  (* the triples of the three nested loops, in loop order *)
  Definition wp_triples (cw cs ce : list (list opt)) : list (list opt * list opt * list opt) :=
    flat_map (fun w => flat_map (fun s => map (fun e => (w, s, e)) ce) cs) cw.

  Definition triple_value (t : list opt * list opt * list opt) : Q :=
    value (fst (fst t) ++ snd (fst t) ++ snd t).

  (* get_full_optimal_potential() *)
  Definition wp_full_optimal (tiers : list (list opt)) : (list opt * list opt * list opt) * Q :=
    argmax_from triple_value
      (wp_triples (wp_candidates tiers false) (wp_candidates tiers false) (wp_candidates tiers true))
      (([], [], []), 0%Q).

  (* the same search without the pruning of get_useful_candidates *)
  Definition wp_full_unpruned (tiers : list (list opt)) : list (list opt * list opt * list opt) :=
    wp_triples (wp_candidates_of tiers false) (wp_candidates_of tiers false) (wp_candidates_of tiers true).
End WeaponPotential.
