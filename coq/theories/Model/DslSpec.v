(* C14 -- checks applied to the data tools/tr_grammar.py extracts (definitions only). *)
From Coq Require Import List NArith Bool String.
Import ListNotations.
From V.Model Require Import Dsl DslEq DslLex.

(* a command word must lex as one WORD and must not be the multiplier keyword *)
Definition word_ok (w : text) : bool :=
  match lex_word w with Some (_, []) => negb (text_eqb w [120%N]) | _ => false end.

Fixpoint tmpl_word (t : template) : text * template :=
  match t with
  | TC c :: r => if is_letter c then let (w, r') := tmpl_word r in (c :: w, r') else ([], t)
  | _ => ([], t)
  end.
(* a DSL text formatted by the strategy layer: a handled command word, then "name" or a time,
   spaced exactly like the corresponding expr template *)
Definition strategy_ok (words : list text) (t : template) : bool :=
  let (w, r) := tmpl_word t in
  existsb (text_eqb w) words &&
  match r with
  | [TC 32%N; TC 34%N; TF FName; TC 34%N] => true
  | [TC 32%N; TF FTime] => true
  | _ => false
  end.

Definition field_eqb (a b : field) : bool :=
  match a, b with FCommand, FCommand | FName, FName | FTime, FTime => true | _, _ => false end.
Definition rpart_eqb (a b : rpart) : bool :=
  match a, b with RC x, RC y => N.eqb x y | RMeta, RMeta | ROps, ROps => true | _, _ => false end.
(* every operation kind unpacks its children in the order the grammar rule lists them *)
Definition kinds_follow_rules (rules : list (string * gexp)) (kinds : list (string * (list field * (bool * bool) * template))) : bool :=
  forallb (fun k => list_eqb field_eqb (rule_fields rules (fst k)) (fst (fst (snd k)))) kinds.
