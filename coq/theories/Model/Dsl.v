(* C14 -- model of the plan DSL (simaple/simulate/policy/parser.py).  Definitions only.

   Level of the model: *layout-aware tokens*.  A plan text is a list of
     solid tokens   TW (WORD)  TS (ESCAPED_STRING, the raw text between the quotes)
                    TN (SIGNED_NUMBER, as the binary64 value float() gives it: its 64 bits)
                    TX z ("x" SIGNED_NUMBER accepted by int())   TDebug ("!debug")   THeader
                    TBad (text that matches no terminal, e.g. '-inf')
     layout atoms   TSp (one ' ', %ignore)   TCom (one COMMENT, %ignore: '#' up to the newline)
                    TNL (one "\n" / "\r\n")  TTab (one other WS character: \t \f lone \r)
   The Lark grammar mentions WS and NEWLINE explicitly and ignores only ' ' and COMMENT, so what
   may stand between two solid tokens depends on the grammar position.  [gmatch] is that gap
   grammar (greedy WS / NEWLINE runs, nondeterministic skipping of ignorable atoms, exactly as
   Lark's dynamic Earley lexer does it); [parse_items] is the deterministic parser of
   `body`, [parse_simaple] of `simaple` (strip, optional header).
   Character level (what is inside a TS / TN / THeader) is Model/DslLex.v. *)
From Coq Require Import List NArith ZArith Bool String.
Import ListNotations.
Open Scope Z_scope.

Definition text := list N.            (* unicode code points *)
Definition num := Z.                  (* the 64 bits of a Python float *)

Inductive tok : Type :=
| TW (w : text) | TS (s : text) | TN (t : num) | TX (z : Z) | TDebug | THeader (h : text)
| TNL | TSp | TTab | TCom | TBad.

Inductive op : Type :=
| Full (c : text) (n : text) (t : num)     (* full_operation  : command "name" time *)
| TimeOp (c : text) (t : num)              (* time_operation  : command time        *)
| SkillOp (c : text) (n : text).           (* skill_operation : command "name"      *)
Inductive cmd : Type := Op (o : op) | Console (s : text).

(* ------------------------------------------------------------------ numbers *)
Definition num_exp (b : num) : Z := (b / 4503599627370496) mod 2048.      (* bits 52..62 *)
Definition num_finite (b : num) : bool := negb (num_exp b =? 2047).
Definition pinf : num := 9218868437227405312.      (* 0x7FF0000000000000 *)
Definition ninf : num := 18442240474082181120.     (* 0xFFF0000000000000 *)
Definition w_inf : text := [105; 110; 102]%N.      (* "inf" *)
Definition w_nan : text := [110; 97; 110]%N.       (* "nan" *)
(* f"{time}": a finite float prints as a SIGNED_NUMBER that float() maps back to it
   (CPython's repr guarantee, tested by the harness); the others print as inf / -inf / nan *)
Definition print_num (b : num) : list tok :=
  if num_finite b then [TN b] else if b =? pinf then [TW w_inf] else if b =? ninf then [TBad; TW w_inf] else [TW w_nan].

(* ------------------------------------------------------------------ printer = the expr templates *)
Inductive field := FCommand | FName | FTime.
Inductive tchar := TC (c : N) | TF (f : field).     (* one f-string: literal characters and {fields} *)
Definition template := list tchar.

Definition tmpl_full : template :=
  [TF FCommand; TC 32; TC 34; TF FName; TC 34; TC 32; TF FTime]%N.      (* f'{command} "{skill_name}" {time}' *)
Definition tmpl_time : template := [TF FCommand; TC 32; TF FTime]%N.     (* f"{command} {time}" *)
Definition tmpl_skill : template := [TF FCommand; TC 32; TC 34; TF FName; TC 34]%N.   (* f'{command} "{skill_name}"' *)

(* lexing a template: a space is TSp, "{name}" in quotes is an ESCAPED_STRING, anything else is bad *)
Inductive ttok := KCommand | KTime | KName | KSp | KBad.
Fixpoint tmpl_toks (p : template) : list ttok :=
  match p with
  | [] => []
  | TF FCommand :: r => KCommand :: tmpl_toks r
  | TF FTime :: r => KTime :: tmpl_toks r
  | TC 32%N :: r => KSp :: tmpl_toks r
  | TC 34%N :: TF FName :: TC 34%N :: r => KName :: tmpl_toks r
  | _ :: r => KBad :: tmpl_toks r
  end.
Definition inst (c n : text) (t : num) (k : ttok) : list tok :=
  match k with KCommand => [TW c] | KTime => print_num t | KName => [TS n] | KSp => [TSp] | KBad => [TBad] end.
Definition print_op (o : op) : list tok :=
  match o with
  | Full c n t => flat_map (inst c n t) (tmpl_toks tmpl_full)
  | TimeOp c t => flat_map (inst c [] t) (tmpl_toks tmpl_time)
  | SkillOp c n => flat_map (inst c n 0) (tmpl_toks tmpl_skill)
  end.
(* a console line has no expr in the implementation; its text form is the grammar's own *)
Definition print_cmd (c : cmd) : list tok :=
  match c with Op o => print_op o | Console s => [TDebug; TSp; TS s] end.
Fixpoint print (cs : list cmd) : list tok :=
  match cs with [] => [] | [c] => print_cmd c | c :: r => print_cmd c ++ TNL :: print r end.

(* the same commands with arbitrary text between them (and after the last one) *)
Fixpoint print_sep (c : cmd) (rest : list (list tok * cmd)) (trail : list tok) : list tok :=
  print_cmd c ++ match rest with [] => trail | (g, c') :: r => g ++ print_sep c' r trail end.

(* ------------------------------------------------------------------ gaps *)
Definition is_layout (t : tok) := match t with TNL | TSp | TTab | TCom => true | _ => false end.
Definition is_ws (t : tok) := match t with TNL | TSp | TTab => true | _ => false end.
Definition is_ign (t : tok) := match t with TSp | TCom => true | _ => false end.
Definition is_nl (t : tok) := match t with TNL => true | _ => false end.

Fixpoint span (p : tok -> bool) (l : list tok) : list tok * list tok :=
  match l with
  | x :: r => if p x then let (a, b) := span p r in (x :: a, b) else ([], l)
  | [] => ([], [])
  end.
Definition take_gap := span is_layout.

Inductive elem := EIgn | EWs | EWsOpt | ENl | ENlOpt.
(* a terminal matched greedily: the maximal non-empty run of atoms satisfying p *)
Definition run (p : tok -> bool) (k : list tok -> bool) (g : list tok) : bool :=
  match span p g with ([], _) => false | (_ :: _, r) => k r end.
Fixpoint gmatch (es : list elem) : list tok -> bool :=
  match es with
  | [] => fun g => match g with [] => true | _ => false end
  | e :: es' =>
    let k := gmatch es' in
    match e with
    | EIgn => fix ign (g : list tok) : bool :=
                k g || match g with t :: g' => is_ign t && ign g' | [] => false end
    | EWs => run is_ws k
    | EWsOpt => fun g => k g || run is_ws k g
    | ENl => run is_nl k
    | ENlOpt => fun g => k g || run is_nl k g
    end
  end.

(* what the grammar allows between two solid tokens, by position (plain = the next item is a
   request without multiplier, the only place where the grammar has a leading `WS?`) *)
Definition g_ws : list elem := [EIgn; EWs; EIgn].          (* op_command WS skill, skill WS time, "!debug" WS expression *)
Definition g_optws : list elem := [EIgn; EWsOpt; EIgn].    (* multiplier WS? operation *)
Definition g_ign : list elem := [EIgn].                    (* end of text *)
Definition g_lead (plain : bool) : list elem := EIgn :: (if plain then [EWsOpt; EIgn] else []).
Definition g_sep (plain : bool) : list elem := EIgn :: ENl :: g_lead plain.           (* NEWLINE between two items *)
Definition g_head (plain : bool) : list elem := EIgn :: EWsOpt :: EIgn :: ENlOpt :: g_lead plain.   (* header WS? NEWLINE? body *)

(* ------------------------------------------------------------------ parser *)
Definition parse_op (ts : list tok) : option (op * list tok) :=
  match ts with
  | TW c :: r =>
    let (g1, r1) := take_gap r in
    if gmatch g_ws g1 then
      match r1 with
      | TS n :: r2 =>
        let (g2, r3) := take_gap r2 in
        match r3 with
        | TN t :: r4 => if gmatch g_ws g2 then Some (Full c n t, r4) else None
        | _ => Some (SkillOp c n, r2)
        end
      | TN t :: r2 => Some (TimeOp c t, r2)
      | _ => None
      end
    else None
  | _ => None
  end.

Definition parse_item (ts : list tok) : option (list cmd * list tok) :=
  match ts with
  | TX z :: r =>
    let (g, r1) := take_gap r in
    if gmatch g_optws g then
      match parse_op r1 with Some (o, r2) => Some (repeat (Op o) (Z.to_nat z), r2) | None => None end
    else None
  | TDebug :: r =>
    let (g, r1) := take_gap r in
    match r1 with
    | TS s :: r2 => if gmatch g_ws g then Some ([Console s], r2) else None
    | _ => None
    end
  | _ => match parse_op ts with Some (o, r) => Some ([Op o], r) | None => None end
  end.

Definition is_plain (t : tok) := match t with TW _ => true | _ => false end.

Fixpoint parse_items (fuel : nat) (spec : bool -> list elem) (ts : list tok) : option (list cmd) :=
  match fuel with
  | O => None
  | S f =>
    let (g, r) := take_gap ts in
    match r with
    | [] => None
    | t :: _ =>
      if gmatch (spec (is_plain t)) g then
        match parse_item r with
        | Some (cs, r') =>
          let (g', r'') := take_gap r' in
          match r'' with
          | [] => if gmatch g_ign g' then Some cs else None
          | _ :: _ => match parse_items f g_sep r' with Some cs' => Some (cs ++ cs') | None => None end
          end
        | None => None
        end
      else None
    end
  end.

(* parse_dsl_to_command: start = body, no strip *)
Definition parse_body (ts : list tok) : option (list cmd) := parse_items (S (List.length ts)) g_lead ts.
(* parse_dsl_to_operations: the same, then every command must be an Operation *)
Definition is_op (c : cmd) := match c with Op _ => true | Console _ => false end.
Definition parse_ops (ts : list tok) : option (list cmd) :=
  match parse_body ts with Some cs => if forallb is_op cs then Some cs else None | None => None end.

(* parse_simaple_runtime: text.strip(), start = simaple: (header WS? NEWLINE?)? body *)
Fixpoint dropws (l : list tok) : list tok :=
  match l with x :: r => if is_ws x then dropws r else l | [] => [] end.
Definition strip (l : list tok) : list tok := rev (dropws (rev (dropws l))).
Definition parse_simaple (ts : list tok) : option (option text * list cmd) :=
  match strip ts with
  | THeader h :: r =>
    match parse_items (S (List.length r)) g_head r with Some cs => Some (Some h, cs) | None => None end
  | s => match parse_body s with Some cs => Some (None, cs) | None => None end
  end.

(* ------------------------------------------------------------------ layouts (used by the theorems) *)
(* one item of a plan with explicit gaps: optional multiplier (+ gap after it), the command,
   the gap after the command word / "!debug", the gap before the time of a full operation *)
Record lay := { l_mult : option (Z * list tok); l_g1 : list tok; l_g2 : list tok; l_cmd : cmd }.
Definition render_cmd (g1 g2 : list tok) (c : cmd) : list tok :=
  match c with
  | Op (Full c n t) => TW c :: g1 ++ TS n :: g2 ++ print_num t
  | Op (TimeOp c t) => TW c :: g1 ++ print_num t
  | Op (SkillOp c n) => TW c :: g1 ++ [TS n]
  | Console s => TDebug :: g1 ++ [TS s]
  end.
Definition render_lay (l : lay) : list tok :=
  match l_mult l with Some (z, g) => TX z :: g | None => [] end ++ render_cmd (l_g1 l) (l_g2 l) (l_cmd l).
Definition denote_lay (l : lay) : list cmd :=
  match l_mult l with Some (z, _) => repeat (l_cmd l) (Z.to_nat z) | None => [l_cmd l] end.
Fixpoint render_doc (it : lay) (rest : list (list tok * lay)) (trail : list tok) : list tok :=
  render_lay it ++ match rest with [] => trail | (g, it') :: r => g ++ render_doc it' r trail end.
Definition lay_plain (l : lay) : bool :=
  match l_mult l, l_cmd l with None, Op _ => true | _, _ => false end.
Definition canon (c : cmd) : lay := {| l_mult := None; l_g1 := [TSp]; l_g2 := [TSp]; l_cmd := c |}.

(* shapes of gaps used in the statements *)
Definition sp (n : nat) : list tok := repeat TSp n.
Definition nls (k : nat) : list tok := repeat TNL (S k).
Definition optcom (c : bool) : list tok := if c then [TCom] else [].
Definition is_blank (t : tok) := match t with TSp | TTab => true | _ => false end.
(* "comments, blank lines and spacing": only spaces, newlines and comments, at least one line
   break, every comment runs to the end of its line *)
Fixpoint com_closed (g : list tok) : bool :=
  match g with
  | TCom :: r => match r with TNL :: _ => com_closed r | _ => false end
  | _ :: r => com_closed r
  | [] => true
  end.
Definition is_filler (g : list tok) : bool :=
  forallb (fun t => match t with TSp | TNL | TCom => true | _ => false end) g && existsb is_nl g && com_closed g.

(* ------------------------------------------------------------------ the grammar the parser implements,
   as data, in the shape tools/tr_grammar.py extracts it from parser.py (compared in Proofs/DslTie.v) *)
Inductive gsym :=
| GRule (name : string) | GTerm (name : string) | GLit (s : string) | GRe (s flags : string)
| GGroup (e : list (list gsym)) | GOpt (e : list (list gsym)) | GStar (e : list (list gsym)) | GPlus (e : list (list gsym)).
(* an expansion = list of alternatives, each a sequence of symbols; ( ... ) ? * + wrap an expansion *)
Definition gexp := list (list gsym).
Open Scope string_scope.
Definition g_item : gsym := GGroup [[GRule "request"]; [GRule "console"]].
Definition model_rules : list (string * gexp) :=
  [ ("simaple", [[GOpt [[GRule "header"; GOpt [[GTerm "WS"]]; GOpt [[GTerm "NEWLINE"]]]]; GRule "body"]]);
    ("body", [[g_item; GStar [[GTerm "NEWLINE"; g_item]]]]);
    ("header", [[GRe "(.+)(\n(.*))*\n---" ""]]);
    ("request", [[GOpt [[GRule "multiplier"]]; GOpt [[GTerm "WS"]]; GRule "operation"]]);
    ("multiplier", [[GLit "x"; GTerm "SIGNED_NUMBER"]]);
    ("operation", [[GRule "full_operation"]; [GRule "time_operation"]; [GRule "skill_operation"]]);
    ("full_operation", [[GRule "op_command"; GTerm "WS"; GRule "skill"; GTerm "WS"; GRule "time"]]);
    ("time_operation", [[GRule "op_command"; GTerm "WS"; GRule "time"]]);
    ("skill_operation", [[GRule "op_command"; GTerm "WS"; GRule "skill"]]);
    ("console", [[GLit "!debug"; GTerm "WS"; GRule "expression"]]);
    ("op_command", [[GTerm "WORD"]]);
    ("skill", [[GTerm "ESCAPED_STRING"]]);
    ("time", [[GTerm "SIGNED_NUMBER"]]);
    ("expression", [[GTerm "ESCAPED_STRING"]]) ].
(* terminals defined in the grammar text itself (MULTILINE_TEXT is defined but used nowhere) *)
Definition model_terminals : list (string * gexp) :=
  [ ("MULTILINE_TEXT", [[GRe "(.|\n)+" "s"]]);
    ("COMMENT", [[GLit "#"; GStar [[GRe "[^\n]" ""]]]]) ].
Definition model_imports : list string :=
  ["common.WORD"; "common.ESCAPED_STRING"; "common.SIGNED_NUMBER"; "common.WS"; "common.NEWLINE"].
Definition model_ignores : list gsym := [GLit " "; GTerm "COMMENT"].
Definition model_starts : list string := ["body"; "simaple"].

(* the Python side of the parser, in the shape tools/tr_grammar.py reports it *)
Definition model_transform : list (string * string) :=      (* TreeToOperation method -> what it does *)
  [ ("simaple", "yaml_header_or_empty"); ("header", "text_without_dashes"); ("op_command", "token_value");
    ("skill", "between_quotes"); ("multiplier", "int"); ("time", "float"); ("WS", "discard"); ("NEWLINE", "discard");
    ("body", "concat"); ("request", "replicate"); ("operation", "only_child"); ("console", "console_text");
    ("expression", "between_quotes") ].
(* operation kind -> (children in the order they are unpacked, (name given, time given), expr template) *)
Definition model_op_kinds : list (string * (list field * (bool * bool) * template)) :=
  [ ("full_operation", ([FCommand; FName; FTime], (true, true), tmpl_full));
    ("time_operation", ([FCommand; FTime], (false, true), tmpl_time));
    ("skill_operation", ([FCommand; FName], (true, false), tmpl_skill)) ].
(* entry point -> (start symbol, (text.strip() first, every command must be an Operation)) *)
Definition model_entries : list (string * (string * (bool * bool))) :=
  [ ("parse_dsl_to_operations", ("body", (false, true)));     (* parse_ops *)
    ("parse_dsl_to_command", ("body", (false, false)));       (* parse_body *)
    ("parse_simaple_runtime", ("simaple", (true, false))) ].  (* parse_simaple *)
(* children of an operation rule, WS discarded, as fields *)
Definition field_of_rule (s : gsym) : list field :=
  match s with
  | GRule "op_command" => [FCommand] | GRule "skill" => [FName] | GRule "time" => [FTime]
  | _ => []
  end.
Definition rule_fields (rules : list (string * gexp)) (name : string) : list field :=
  match find (fun r => String.eqb (fst r) name) rules with
  | Some (_, [alt]) => flat_map field_of_rule alt
  | _ => []
  end.
(* simaple/api/base.py: the plan is cut at "\n---"; header + body are rendered as
   f"---\n{metadata}\n---\n{operations}" *)
Inductive rpart := RC (c : N) | RMeta | ROps.
Definition model_api_separator : text := [10; 45; 45; 45]%N.
Definition model_api_render : list rpart :=
  [RC 45; RC 45; RC 45; RC 10; RMeta; RC 10; RC 45; RC 45; RC 45; RC 10; ROps]%N.
