(* Raw-action listeners (C07 audit finding F1, known finding C07-raw-action-listeners).
   A `listening_actions` key is normally a CALLBACK signature ("<skill>.<method>.emitted.<tag>" / ".done.").
   A key that is matched by the RAW signature "<owner>.<method>" of another installed component's reducer
   method makes the router hand the player's action itself to the listener: `USE owner` while the owner is not
   ready is then answered [owner reject] ++ the listener's events, and the listener's entities change.
   Definitions only (executable); the hand-written REVIEWED list of the shipped occurrences is here, the actual
   list of every shipped system is computed by vm_compute in gen/DispatchData.v and must be inside it. *)
From Coq Require Import List Bool String Ascii.
From V.Model Require Import Router Play Dispatch.
Import ListNotations.
Local Open Scope string_scope.

Section Raw.
  Variables Ent Pay : Type.
  Notation component := (component Ent Pay).

  (* the raw signatures a component answers to as their OWNER: its default keys "<name>.<method>" *)
  Definition own_sigs (o : component) : list string :=
    flat_map (fun km => match m_method (snd km) with
                        | Some m => if String.eqb (fst km) (c_name o ++ "." ++ m) then [fst km] else []
                        | None => []
                        end) (c_maps o).

  (* (listener, matching key of the listener, owner): `_find_mapping_name` of the listener is defined on a raw
     signature of ANOTHER component (exact key, or a '$' key by the substring rule; the listener's own default
     keys and its wildcard keys "*.<method>" can never match another component's raw signature) *)
  Definition raw_action_listeners (cs : list component) : list (string * string * string) :=
    flat_map (fun o =>
      flat_map (fun s =>
        flat_map (fun l =>
          if String.eqb (c_name l) (c_name o) then []
          else match find_mapping Ent Pay l s with
               | FFound k => [(c_name l, k, c_name o)]
               | _ => []
               end) cs) (own_sigs o)) cs.

  Definition pair_in (p : string * string) (l : list (string * string)) : bool :=
    existsb (fun q => String.eqb (fst p) (fst q) && String.eqb (snd p) (snd q)) l.
  Definition raw_listeners_reviewed (reviewed : list (string * string)) (cs : list component) : bool :=
    forallb (fun t => pair_in (fst (fst t), snd (fst t)) reviewed) (raw_action_listeners cs).
  Definition no_raw_listeners (cs : list component) : bool :=
    match raw_action_listeners cs with [] => true | _ => false end.
End Raw.

(* REVIEWED (listener component, key): archmagefb 포이즌 노바 / 플레임 스윕 VI listen to the use of 미스트 이럽션,
   포이즌 미스트 to the use of 플레임 헤이즈 (tests/simulate/report/archmagefb/test_overview.py::test_poison_nova
   asserts the behaviour); adele 크리에이션 listens to the use of 디바이드 (cooldown 0: never rejected). *)
Definition reviewed_raw_listeners : list (string * string) :=
  [("포이즌 노바", "미스트 이럽션.use"); ("포이즌 노바", "미스트 이럽션 VI.use");
   ("플레임 스윕 VI", "미스트 이럽션.use"); ("플레임 스윕 VI", "미스트 이럽션 VI.use");
   ("포이즌 미스트", "플레임 헤이즈.use"); ("포이즌 미스트", "플레임 헤이즈 VI.use");
   ("크리에이션", "디바이드.use"); ("크리에이션", "디바이드 VI.use")].
