(* Spec expressions ('{{ ... }}' of simaple/spec/_math.py): abstract syntax, evaluation over Q and the
   syntactic monotonicity checker.  DEFINITIONS ONLY (proofs: Proofs/ExprSem.v, Proofs/ExprMono.v).

   One constructor per semantic action of CalcTransformer:
     number / seperated_number -> Num     variable -> Var        neg -> Neg
     add sub mul div int_div gt lt -> Bin o                      ceil floor apply_attack_speed -> Fn1 f
     min max -> Fn2 g
   Numbers are exact rationals (Python: binary64 / int); an exception (division by zero, undefined
   variable) is None.  Comparisons yield 1 / 0 (Python True / False, which are the ints 1 / 0). *)
From Coq Require Import QArith Qround Qminmax List Bool ZArith String.
Import ListNotations.

Definition var := string.
Inductive bop := Add | Sub | Mul | Div | IDiv | Gt | Lt.
Inductive fn1 := Ceil | Floor | AtkSpd.
Inductive fn2 := Min | Max.
Inductive expr :=
| Num (q : Q) | Var (v : var)
| Bin (o : bop) (a b : expr) | Neg (a : expr)
| Fn1 (f : fn1) (a : expr) | Fn2 (g : fn2) (a b : expr).

Definition env := var -> option Q.
Definition env_of (l : list (var * Q)) : env :=
  fun v => match find (fun p => String.eqb (fst p) v) l with Some p => Some (snd p) | None => None end.

Definition qfloor (q : Q) : Q := inject_Z (Qfloor q).
Definition qceil (q : Q) : Q := inject_Z (Qceiling q).
Definition qbool (b : bool) : Q := if b then 1 else 0.
Definition qgt (x y : Q) : Q := qbool (negb (Qle_bool x y)).      (* x > y *)
Definition qidiv (x y : Q) : Q := qfloor (x / y).                  (* Python's  x // y  on rationals *)

Definition bin_sem (o : bop) (x y : Q) : option Q :=
  match o with
  | Add => Some (x + y)
  | Sub => Some (x - y)
  | Mul => Some (x * y)
  | Div => if Qeq_bool y 0 then None else Some (x / y)
  | IDiv => if Qeq_bool y 0 then None else Some (qidiv x y)
  | Gt => Some (qgt x y)
  | Lt => Some (qgt y x)
  end.

(* apply_attack_speed:  30 * math.ceil(x * ((16 - 4) / 16) / 30) *)
Definition atkspd (x : Q) : Q := 30 * qceil (x * ((16 - 4) / 16) / 30).

Definition fn1_sem (f : fn1) (x : Q) : Q :=
  match f with Ceil => qceil x | Floor => qfloor x | AtkSpd => atkspd x end.
Definition fn2_sem (g : fn2) (x y : Q) : Q :=
  match g with Min => Qmin x y | Max => Qmax x y end.

Fixpoint eval (r : env) (e : expr) : option Q :=
  match e with
  | Num q => Some q
  | Var v => r v
  | Bin o a b => match eval r a, eval r b with Some x, Some y => bin_sem o x y | _, _ => None end
  | Neg a => match eval r a with Some x => Some (- x) | None => None end
  | Fn1 f a => match eval r a with Some x => Some (fn1_sem f x) | None => None end
  | Fn2 g a b => match eval r a, eval r b with Some x, Some y => Some (fn2_sem g x y) | _, _ => None end
  end.

(* ------------------------------------------------------------------------------------------------
   Sufficient syntactic conditions (used by C16 for level formulas that mention other variables):
   nonneg e  : e >= 0 whenever every variable is >= 0
   const_in x e : e does not mention x
   mono x e  : e is non-decreasing in x over non-negative environments *)
Fixpoint nonneg (e : expr) : bool :=
  match e with
  | Num q => Qle_bool 0 q
  | Var _ => true
  | Bin Add a b | Bin Mul a b | Bin Div a b | Bin IDiv a b | Fn2 Min a b => nonneg a && nonneg b
  | Bin Gt _ _ | Bin Lt _ _ => true
  | Fn2 Max a b => nonneg a || nonneg b
  | Fn1 _ a => nonneg a
  | Bin Sub _ _ | Neg _ => false
  end.

Fixpoint const_in (x : var) (e : expr) : bool :=
  match e with
  | Num _ => true
  | Var v => negb (String.eqb v x)
  | Bin _ a b | Fn2 _ a b => const_in x a && const_in x b
  | Neg a | Fn1 _ a => const_in x a
  end.

Fixpoint mono (x : var) (e : expr) : bool :=
  match e with
  | Num _ | Var _ => true
  | Bin Add a b | Fn2 _ a b => mono x a && mono x b
  | Bin Sub a b => mono x a && const_in x b
  | Bin Mul a b => mono x a && mono x b && nonneg a && nonneg b
  | Bin Div a b | Bin IDiv a b => mono x a && const_in x b && nonneg b
  | Bin Gt _ _ | Bin Lt _ _ => false
  | Neg a => const_in x a
  | Fn1 _ a => mono x a
  end.

Definition env_nonneg (r : env) : Prop := forall v q, r v = Some q -> 0 <= q.
Definition upd (r : env) (x : var) (q : Q) : env := fun v => if String.eqb v x then Some q else r v.
