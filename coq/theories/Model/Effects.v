(* Effect skeletons: a tiny imperative language over object references, a heap semantics in
   which touching a PROTECTED object (one that existed before the call: the inputs, `self`,
   globals, and everything reachable from them) is an observable [Violation], and a static
   ownership checker.  Definitions only (the proofs are in Proofs/EffectsSound.v).

   Generic on purpose: nothing here knows about simaple.  A translator (tools/tr_effects.py)
   turns Python function bodies into [list stmt]; calls are desugared with the callee's
   [summary], and each summary is itself an obligation ([justified]) on the callee's skeleton.

   Heap model.  Objects are natural numbers, [next h] is the allocation pointer, [kids h o]
   the objects [o] refers to (fields, list elements, dict values, ...).  Immutable values
   (numbers, strings, None) are not objects.  With [base] the allocation pointer at entry,
   [o < base] = "existed before the call" = protected.

   Statements (what each one MAY do; the semantics is nondeterministic, the checker must be
   right for every resolution):
     Bind x (SAlias y)   x := y                                   (same object)
     Bind x (SFrom ys)   x := something reachable from ys, or a newly allocated object whose
                         parts are new or reachable from ys       (attribute read, element,
                         result of a call that mutates nothing and may return parts of ys)
     Bind x (SNew ys)    x := a NEW object (literal, constructor, shallow copy, comprehension,
                         concatenation) whose parts are new or reachable from ys;
                         SNew [] = deep copy / literal over immutables
     Mut xs              in-place modification of any objects reachable from xs (a call to a
                         method that mutates its receiver / arguments): their references may be
                         re-pointed to new objects or to objects reachable from xs
     Store x y           x.attr := y / x[k] := y / x.append(y): modifies the object x denotes
     WriteSelf           assignment to an attribute of the component (`self.cache = ...`)
     Impure              random / clock / IO / global state
     If a b, Loop body   branch outcome and iteration count are arbitrary
     Return rs           leave the function; rs are the returned references (tuple leaves)  *)
From Coq Require Import List Bool Arith PeanoNat.
Import ListNotations.

Definition var := nat.
Definition obj := nat.

Inductive src :=
| SAlias (y : var)
| SFrom (ys : list var)
| SNew (ys : list var).
Definition SFresh := SNew [].

Inductive stmt :=
| Bind (x : var) (s : src)
| Mut (xs : list var)
| Store (x y : var)
| WriteSelf
| Impure
| If (a b : list stmt)
| Loop (body : list stmt)
| Return (rs : list var).

(* ------------------------------------------------------------------ heaps *)
Record heap := { next : nat; kids : obj -> list obj }.

Inductive reach (h : heap) : obj -> obj -> Prop :=
| reach_refl o : reach h o o
| reach_step o c t : In c (kids h o) -> reach h c t -> reach h o t.

Record dstate := { env : var -> obj; hp : heap }.

Definition wfh (h : heap) : Prop := forall o c, In c (kids h o) -> o < next h /\ c < next h.

Definition reachv (d : dstate) (ys : list var) (t : obj) : Prop :=
  exists y, In y ys /\ reach (hp d) (env d y) t.

Definition upd (d : dstate) (x : var) (o : obj) (h : heap) : dstate :=
  {| env := fun v => if Nat.eqb v x then o else env d v; hp := h |}.

Definition set_kids (h : heap) (o : obj) (l : list obj) : heap :=
  {| next := next h; kids := fun o' => if Nat.eqb o' o then l else kids h o' |}.

Section Semantics.
  Variable base : nat.       (* objects below [base] are protected *)

  Definition wfd (d : dstate) : Prop :=
    wfh (hp d) /\ (forall v, env d v < next (hp d)) /\ base <= next (hp d).

  (* [h'] extends [h] and may have modified existing objects that satisfy [A] and are not
     protected; every reference written (into a modified or a new object) is new or in [A] *)
  Definition mutext (h h' : heap) (A : obj -> Prop) : Prop :=
    next h <= next h' /\
    (forall o, o < next h ->
       kids h' o = kids h o \/
       (A o /\ base <= o /\ forall c, In c (kids h' o) -> c < next h' /\ (next h <= c \/ A c))) /\
    (forall o c, next h <= o -> In c (kids h' o) -> o < next h' /\ c < next h' /\ (next h <= c \/ A c)).

  (* pure allocation: no existing object changes *)
  Definition ext (h h' : heap) (A : obj -> Prop) : Prop :=
    next h <= next h' /\
    (forall o, o < next h -> kids h' o = kids h o) /\
    (forall o c, next h <= o -> In c (kids h' o) -> o < next h' /\ c < next h' /\ (next h <= c \/ A c)).

  Inductive outcome := Ok (d : dstate) | Ret (d : dstate) (rs : list var) | Violation.

  Inductive step : dstate -> stmt -> outcome -> Prop :=
  | st_bind_alias d x y : step d (Bind x (SAlias y)) (Ok (upd d x (env d y) (hp d)))
  | st_bind_from d x ys o h' :
      ext (hp d) h' (reachv d ys) ->
      (next (hp d) <= o < next h' \/ reachv d ys o) ->
      step d (Bind x (SFrom ys)) (Ok (upd d x o h'))
  | st_bind_new d x ys o h' :
      ext (hp d) h' (reachv d ys) ->
      next (hp d) <= o < next h' ->
      step d (Bind x (SNew ys)) (Ok (upd d x o h'))
  | st_mut_bad d xs t : reachv d xs t -> t < base -> step d (Mut xs) Violation
  | st_mut_ok d xs h' : mutext (hp d) h' (reachv d xs) -> step d (Mut xs) (Ok {| env := env d; hp := h' |})
  | st_store_bad d x y : env d x < base -> step d (Store x y) Violation
  | st_store_ok d x y l :
      base <= env d x -> incl l (env d y :: kids (hp d) (env d x)) ->
      step d (Store x y) (Ok {| env := env d; hp := set_kids (hp d) (env d x) l |})
  | st_self d : step d WriteSelf Violation
  | st_impure d : step d Impure Violation
  | st_if_a d a b r : steps d a r -> step d (If a b) r
  | st_if_b d a b r : steps d b r -> step d (If a b) r
  | st_loop_0 d body : step d (Loop body) (Ok d)
  | st_loop_S d body d' r : steps d body (Ok d') -> step d' (Loop body) r -> step d (Loop body) r
  | st_loop_stop d body r : steps d body r -> (forall d', r <> Ok d') -> step d (Loop body) r
  | st_ret d rs : step d (Return rs) (Ret d rs)
  with steps : dstate -> list stmt -> outcome -> Prop :=
  | ss_nil d : steps d [] (Ok d)
  | ss_cons_ok d s d' rest r : step d s (Ok d') -> steps d' rest r -> steps d (s :: rest) r
  | ss_cons_stop d s rest r : step d s r -> (forall d', r <> Ok d') -> steps d (s :: rest) r.

  (* what the checker's knowledge means in a state *)
  Definition dfresh (d : dstate) (x : var) : Prop := forall t, reach (hp d) (env d x) t -> base <= t.
End Semantics.

(* ------------------------------------------------------------------ the checker *)
(* Static knowledge: [Dead] = this point is not reached (after a Return);
   [Live sd ss iso]: sd = variables denoting DEEP-fresh objects (nothing protected reachable),
   ss = variables denoting SHALLOW-fresh objects (the object itself was allocated by this call),
   iso = shallow-fresh variables whose object no OTHER deep-fresh variable can reach
   (a local accumulator: storing a borrowed reference into it spoils nothing else). *)
Inductive sigma := Dead | Live (sd ss iso : list var).

Definition mem (x : var) (s : list var) : bool := existsb (Nat.eqb x) s.
Definition inter (a b : list var) : list var := filter (fun x => mem x b) a.
Definition subset (a b : list var) : bool := forallb (fun x => mem x b) a.
Definition remove (x : var) (s : list var) : list var := filter (fun v => negb (Nat.eqb v x)) s.
Definition remove_all (xs s : list var) : list var := filter (fun v => negb (mem v xs)) s.

Definition meet (a b : sigma) : sigma :=
  match a, b with
  | Dead, s | s, Dead => s
  | Live d1 s1 i1, Live d2 s2 i2 => Live (inter d1 d2) (inter s1 s2) (inter i1 i2)
  end.

(* [le a b]: a claims no more than b *)
Definition le (a b : sigma) : bool :=
  match a, b with
  | _, Dead => true
  | Dead, Live _ _ _ => false
  | Live d1 s1 i1, Live d2 s2 i2 => subset d1 d2 && subset s1 s2 && subset i1 i2
  end.

Definition size (s : sigma) : nat :=
  match s with Dead => 0 | Live d s i => length d + length s + length i end.

Definition is_deep (x : var) (s : sigma) : bool := match s with Dead => true | Live sd _ _ => mem x sd end.
Definition all_deep (xs : list var) (s : sigma) : bool := forallb (fun x => is_deep x s) xs.

Definition bind_tr (x : var) (s : src) (sd ss iso : list var) : sigma :=
  let sd0 := remove x sd in let ss0 := remove x ss in let iso0 := remove x iso in
  match s with
  | SAlias y =>
      if Nat.eqb y x then Live sd ss iso
      else Live (if mem y sd then x :: sd0 else sd0) (if mem y ss then x :: ss0 else ss0) (remove y iso0)
  | SFrom ys =>
      if forallb (fun y => mem y sd) ys then Live (x :: sd0) (x :: ss0) (remove_all ys iso0)
      else Live sd0 ss0 iso0
  | SNew ys =>
      if forallb (fun y => mem y sd) ys then Live (x :: sd0) (x :: ss0) (x :: remove_all ys iso0)
      else Live sd0 (x :: ss0) (x :: iso0)
  end.

Section Check.
  Variable check : stmt -> sigma -> option sigma.
  Fixpoint checks_with (l : list stmt) (s : sigma) : option sigma :=
    match l with
    | [] => Some s
    | x :: r => match check x s with Some s' => checks_with r s' | None => None end
    end.
  (* loop rule: shrink the candidate invariant until the body preserves it *)
  Fixpoint iter_with (body : list stmt) (n : nat) (inv : sigma) : option sigma :=
    match n with
    | O => None
    | S n' =>
        match checks_with body inv with
        | None => None
        | Some out => if le inv out then Some inv else iter_with body n' (meet inv out)
        end
    end.
End Check.

Section Checker.
  Variable retok : list var -> sigma -> bool.   (* what must be known at every Return *)
  Variable pinned : list var.                   (* variables that may not be re-bound (mutated parameters) *)

  Fixpoint check (fuel : nat) (st : stmt) (s : sigma) {struct fuel} : option sigma :=
    match s with
    | Dead => Some Dead
    | Live sd ss iso =>
        match fuel with
        | O => None
        | S f =>
            match st with
            | Bind x src => if mem x pinned then None else Some (bind_tr x src sd ss iso)
            | Mut xs => if forallb (fun x => mem x sd) xs then Some (Live sd ss (remove_all xs iso)) else None
            | Store x y =>
                if mem x ss then
                  Some (if mem y sd then Live sd ss (remove y iso)
                        else Live (if mem x iso then remove x sd else []) ss iso)
                else None
            | WriteSelf | Impure => None
            | If a b =>
                match checks_with (check f) a s, checks_with (check f) b s with
                | Some sa, Some sb => Some (meet sa sb)
                | _, _ => None
                end
            | Loop body => iter_with (check f) body (S (size s)) s
            | Return rs => if retok rs s then Some Dead else None
            end
        end
    end.

  Definition checks (fuel : nat) := checks_with (check fuel).
End Checker.

Fixpoint depth (st : stmt) : nat :=
  match st with
  | If a b => S (fold_right (fun s n => Nat.max (depth s) n) 0 a + fold_right (fun s n => Nat.max (depth s) n) 0 b)
  | Loop body => S (fold_right (fun s n => Nat.max (depth s) n) 0 body)
  | _ => 1
  end.
Definition fuel_of (p : list stmt) : nat := S (fold_right (fun s n => Nat.max (depth s) n) 0 p).

Definition any_ret (_ : list var) (_ : sigma) : bool := true.

(* a function body that, started with NOTHING known to be fresh, can never touch a protected object *)
Definition safe (p : list stmt) : bool :=
  match checks any_ret [] (fuel_of p) p (Live [] [] []) with Some _ => true | None => false end.

(* ------------------------------------------------------------------ summaries *)
(* What a caller may assume of a call  (r0, r1, ..) = f(a0, a1, ..):
     s_mut  parameters f may mutate DEEPLY (anything reachable from them);
     s_top  parameters of which f may modify only the object itself (`self.x = v`): top-level stores;
     s_src  parameters whose objects (or parts) f may store into the parameters of s_mut / s_top;
     s_rets for each returned leaf the parameters it may be (a part of); Some [] = always a fresh
            object; None = no claim (callers bind the result as protected).
   The translator desugars the call into
       Mut [a_i | i in s_mut];
       Store a_i a_j   for i in s_top, j in s_mut ++ s_top ++ s_src, j <> i   (Store a_i <fresh> if there is no such j);
       Bind t (SFrom [a_i]); Store t a_j   for i in s_mut, j in s_src            (a store somewhere inside a_i);
       Bind r_k (SFrom ([a_i | i in s_mut ++ ps_k] ++ [r_0..r_{k-1}]))         (nth k s_rets = Some ps_k)
   and the summary is justified on the callee's skeleton by three kinds of checker runs:
   (1) effects: with exactly s_mut deep-fresh and s_top shallow-fresh no Violation is possible, these
       parameters are never re-bound, and s_mut is still deep-fresh at every Return;
   (2) stored sources: with s_mut, s_top, s_src deep-fresh, s_mut and s_top are still deep-fresh at every
       Return -- whatever f stored into them is new or comes from s_mut, s_top, s_src;
   (3) leaves: with s_mut and ps_k deep-fresh (s_top shallow-fresh), the k-th returned reference is
       deep-fresh at every Return ([Return []] = raise / end of a generator / a return of another class). *)
Record summary := { s_mut : list var; s_top : list var; s_src : list var; s_rets : list (option (list var)) }.

Definition ret_deep (must : list var) (rs : list var) (s : sigma) : bool := all_deep must s.
Definition ret_leaf (must : list var) (k : nat) (rs : list var) (s : sigma) : bool :=
  all_deep must s &&
  match rs with
  | [] => true
  | _ => match nth_error rs k with Some x => is_deep x s | None => false end
  end.

Definition check_from (retok : list var -> sigma -> bool) (pinned deep shallow : list var) (p : list stmt) : bool :=
  match checks retok pinned (fuel_of p) p (Live deep (deep ++ shallow) []) with Some _ => true | None => false end.

Fixpoint leaves_ok (p : list stmt) (m t : list var) (k : nat) (rets : list (option (list var))) : bool :=
  match rets with
  | [] => true
  | Some r :: rest => check_from (ret_leaf m k) (m ++ t) (m ++ r) t p && leaves_ok p m t (S k) rest
  | None :: rest => leaves_ok p m t (S k) rest
  end.

Definition justified (p : list stmt) (sm : summary) : bool :=
  let m := s_mut sm in let t := s_top sm in
  check_from (ret_deep m) (m ++ t) m t p
  && check_from (ret_deep (m ++ t)) (m ++ t) (m ++ t ++ s_src sm) [] p
  && leaves_ok p m t 0 (s_rets sm).
