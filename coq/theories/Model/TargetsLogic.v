(* C19 (real targets) -- the five damage logics of gen/CoreQ.v (each its own record there) under one type.
   `logic_df L` is what `damage_logic.get_damage_factor(stat, armor=...)` computes.  Definitions only; depends on gen/CoreQ.v
   alone (not on the generated targets), so it is rebuilt only when the stat algebra changes. *)
From Coq Require Import QArith.
From G Require Import CoreQ.

Inductive logic : Type :=
| LSTR (l : STRBasedDamageLogic)
| LINT (l : INTBasedDamageLogic)
| LDEX (l : DEXBasedDamageLogic)
| LLUK (l : LUKBasedDamageLogic)
| LDual (l : LUKBasedDualSubDamageLogic).

Definition logic_df (L : logic) : Stat -> Q -> Q :=
  match L with
  | LSTR l => STRBasedDamageLogic_get_damage_factor l
  | LINT l => INTBasedDamageLogic_get_damage_factor l
  | LDEX l => DEXBasedDamageLogic_get_damage_factor l
  | LLUK l => LUKBasedDamageLogic_get_damage_factor l
  | LDual l => LUKBasedDualSubDamageLogic_get_damage_factor l
  end.

Definition logic_armor_factor (L : logic) : Stat -> Q -> Q :=
  match L with
  | LSTR l => STRBasedDamageLogic_get_armor_factor l
  | LINT l => INTBasedDamageLogic_get_armor_factor l
  | LDEX l => DEXBasedDamageLogic_get_armor_factor l
  | LLUK l => LUKBasedDamageLogic_get_armor_factor l
  | LDual l => LUKBasedDualSubDamageLogic_get_armor_factor l
  end.

Definition logic_constant (L : logic) : Q :=
  match L with
  | LSTR l => STRBasedDamageLogic_attack_range_constant l
  | LINT l => INTBasedDamageLogic_attack_range_constant l
  | LDEX l => DEXBasedDamageLogic_attack_range_constant l
  | LLUK l => LUKBasedDamageLogic_attack_range_constant l
  | LDual l => LUKBasedDualSubDamageLogic_attack_range_constant l
  end.

Definition logic_mastery (L : logic) : Q :=
  match L with
  | LSTR l => STRBasedDamageLogic_mastery l
  | LINT l => INTBasedDamageLogic_mastery l
  | LDEX l => DEXBasedDamageLogic_mastery l
  | LLUK l => LUKBasedDamageLogic_mastery l
  | LDual l => LUKBasedDualSubDamageLogic_mastery l
  end.

