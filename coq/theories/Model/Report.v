(* C13, reports.  Hand-written executable model of
     simaple/simulate/report/base.py   _create_damage_log, SimulationEntry.build
     simaple/simulate/report/dpm.py    DamageCalculator.calculate_damage / calculate_total_damage / calculate_dpm
     simaple/simulate/report/feature.py DamageShareFeature.update / compute
   over Q (exact numbers; binary64 rounding of the running sums is outside the model).
   Definitions only; theorems in Proofs/Report.v; tied to the code by tools/lib/h_report.py.

   Parameters (section variables, so every theorem holds for every choice):
     Name, neqb   skill names and the dict-key equality used by DamageShareFeature
     Buff, badd   Stat and Stat.__add__ (the buff in force, + the event's modifier)
     gd           DamageCalculator.get_damage : DamageLog -> damage (its formula is C12's subject)
   Exceptions: calculate_dpm on an empty list (IndexError) or with final clock 0
   (ZeroDivisionError) and compute() with a non-empty table of total 0 (ZeroDivisionError)
   are None. *)
From Coq Require Import List QArith Bool.
Import ListNotations.

Inductive tag : Type := TDamage | TDot | TOther.     (* Tag.DAMAGE, Tag.DOT, any other tag / None *)
Definition is_damage_tag (t : tag) : bool := match t with TDamage | TDot => true | TOther => false end.

Section Report.
  Variable Name : Type.
  Variable neqb : Name -> Name -> bool.
  Variable Buff : Type.
  Variable badd : Buff -> Buff -> Buff.

  Record event : Type := mk_event
    { ev_name : Name; ev_tag : tag; ev_damage : Q; ev_hit : Q; ev_modifier : option Buff }.
  Record dlog : Type := mk_dlog
    { l_name : Name; l_damage : Q; l_hit : Q; l_buff : Buff; l_tag : tag }.
  Record entry : Type := mk_entry { e_clock : Q; e_logs : list dlog }.

  (* the buff recorded with a log: the entry's buff, plus the event's modifier when it has one *)
  Definition buff_in_force (e : event) (buff : Buff) : Buff :=
    match ev_modifier e with Some m => badd buff m | None => buff end.

  (*  if event["tag"] not in (Tag.DAMAGE, Tag.DOT): return None
      if event["payload"]["damage"] == 0 or event["payload"]["hit"] == 0: return None
      ... return DamageLog(name, damage, hit, buff (+ modifier), tag)                   *)
  Definition create_damage_log (e : event) (buff : Buff) : option dlog :=
    if negb (is_damage_tag (ev_tag e)) then None else
    if Qeq_bool (ev_damage e) 0 || Qeq_bool (ev_hit e) 0 then None else
    Some (mk_dlog (ev_name e) (ev_damage e) (ev_hit e) (buff_in_force e buff) (ev_tag e)).

  (* SimulationEntry.build: one _create_damage_log per event, the None results dropped, order kept *)
  Definition build_logs (events : list event) (buff : Buff) : list dlog :=
    flat_map (fun e => match create_damage_log e buff with Some l => [l] | None => [] end) events.
  Definition build (clock : Q) (events : list event) (buff : Buff) : entry :=
    mk_entry clock (build_logs events buff).

  Variable gd : dlog -> Q.

  (* total_damage = 0; for log in entry.damage_logs: total_damage += self.get_damage(log) *)
  Definition calculate_damage (e : entry) : Q := fold_left (fun acc l => acc + gd l) (e_logs e) 0.
  (* Python's sum(list): 0 + x1 + x2 + ... left to right *)
  Definition py_sum (xs : list Q) : Q := fold_left Qplus xs 0.
  Definition calculate_total_damage (es : list entry) : Q := py_sum (map calculate_damage es).
  (* total_damage / entries[-1].clock * 60_000 *)
  Definition calculate_dpm (es : list entry) : option Q :=
    match rev es with
    | [] => None
    | last :: _ =>
      if Qeq_bool (e_clock last) 0 then None
      else Some (calculate_total_damage es / e_clock last * 60000)
    end.

  (* DamageShareFeature: insertion-ordered dict name -> accumulated damage *)
  Fixpoint acc_add (acc : list (Name * Q)) (n : Name) (d : Q) : list (Name * Q) :=
    match acc with
    | [] => [(n, 0 + d)]                       (* self._damage_sum[name] = 0.0 ; ... += d *)
    | (m, v) :: r => if neqb m n then (m, v + d) :: r else (m, v) :: acc_add r n d
    end.
  Definition share_update (acc : list (Name * Q)) (e : entry) : list (Name * Q) :=
    fold_left (fun a l => acc_add a (l_name l) (gd l)) (e_logs e) acc.
  Definition share_acc (es : list entry) : list (Name * Q) := fold_left share_update es [].
  (* total = sum(values); {name: damage / total ...} -- an empty table yields an empty result *)
  Definition share_compute (acc : list (Name * Q)) : option (list (Name * Q)) :=
    let total := py_sum (map snd acc) in
    match acc with
    | [] => Some []
    | _ => if Qeq_bool total 0 then None else Some (map (fun p => (fst p, snd p / total)) acc)
    end.
  Definition shares (es : list entry) : option (list (Name * Q)) := share_compute (share_acc es).

  (* specification side: which events contribute, and the per-name sum *)
  Definition contributes (e : event) : bool :=
    is_damage_tag (ev_tag e) && negb (Qeq_bool (ev_damage e) 0) && negb (Qeq_bool (ev_hit e) 0).
  Definition log_of (buff : Buff) (e : event) : dlog :=
    mk_dlog (ev_name e) (ev_damage e) (ev_hit e) (buff_in_force e buff) (ev_tag e).
  Definition all_logs (es : list entry) : list dlog := flat_map e_logs es.
  Definition qsum (xs : list Q) : Q := fold_right Qplus 0 xs.
  Definition skill_damage (es : list entry) (n : Name) : Q :=
    qsum (map gd (filter (fun l => neqb (l_name l) n) (all_logs es))).
  Fixpoint lookup (acc : list (Name * Q)) (n : Name) : option Q :=
    match acc with
    | [] => None
    | (m, v) :: r => if neqb m n then Some v else lookup r n
    end.
End Report.
