(* C20 -- the model of Model/Memo.v instantiated with the field lists GENERATED from the provider
   classes (gen/MemoFields.v).  DEFINITIONS ONLY.
   * simaple_sig : the signature of the real code -- two provider kinds, fields named by strings,
     K = all fields minus the excluded ones, R / I = the generated read sets; everything else
     (values, hash, the two computations, serialisation) stays a parameter.
   * exec_sig    : a fully executable instance used by the correspondence shards and by the
     non-vacuity examples: values and environments are interned numbers, the "hash" is the hashed
     object itself, G and H are finite tables recorded from the implementation.
   * fields_ok   : the boolean obligations on the generated lists that Proofs/MemoInst.v discharges. *)
From Coq Require Import List Bool String NArith.
From V.Model Require Import Memo.
From G Require Import MemoFields.
Import ListNotations.
Open Scope string_scope.

Inductive pkind := Minimal | Baseline.
Definition kind_eqb (a b : pkind) : bool :=
  match a, b with Minimal, Minimal | Baseline, Baseline => true | _, _ => false end.

Definition mem (f : string) (l : list string) : bool := existsb (String.eqb f) l.
Definition subset (a b : list string) : bool := forallb (fun f => mem f b) a.
Definition minus (all excl : list string) : list string := filter (fun f => negb (mem f excl)) all.

Definition all_of (k : pkind) := match k with Minimal => minimal_all_fields | Baseline => baseline_all_fields end.
Definition excluded_of (k : pkind) := match k with Minimal => minimal_excluded | Baseline => baseline_excluded end.
Definition K_of (k : pkind) : list string := minus (all_of k) (excluded_of k).
Definition R_of (k : pkind) := match k with Minimal => minimal_memo_reads | Baseline => baseline_memo_reads end.
Definition I_of (k : pkind) := match k with Minimal => minimal_indep_reads | Baseline => baseline_indep_reads end.
Definition name_of (k : pkind) := match k with Minimal => minimal_name | Baseline => baseline_name end.

(* the hashed object carries the class name / the key dump *)
Definition named_of : bool := mem "get_name" key_component_methods && name_is_class_name.
Definition setting_of : bool := mem "get_memoization_key" key_component_methods.

Definition kinds : list pkind := [Minimal; Baseline].
Definition reads_in_key : bool := forallb (fun k => subset (R_of k) (K_of k)) kinds.
Definition reads_are_fields : bool :=
  forallb (fun k => subset (R_of k) (all_of k) && subset (I_of k) (all_of k) && subset (excluded_of k) (all_of k)) kinds.
Definition names_differ : bool := negb (String.eqb minimal_name baseline_name).
Definition fields_ok : bool := reads_in_key && reads_are_fields && named_of && setting_of && names_differ.

Definition simaple_sig (Val Hash MemoEnv IndepEnv Env Ser Exported FileC : Type)
    (heqb : Hash -> Hash -> bool)
    (h : option pkind * list (string * option Val) -> Hash)
    (G : pkind -> list (string * option Val) -> MemoEnv)
    (H : pkind -> list (string * option Val) -> IndepEnv)
    (combine : IndepEnv -> MemoEnv -> Env)
    (ser : MemoEnv * IndepEnv -> Ser) (de : Ser -> MemoEnv * IndepEnv)
    (xser : list (Hash * Ser) -> Exported) (xde : Exported -> list (Hash * Ser))
    (fser : list (Hash * Ser) -> FileC) (fde : FileC -> list (Hash * Ser)) : sig :=
  Sig string Val pkind Hash MemoEnv IndepEnv Env Ser Exported FileC
      String.eqb heqb K_of R_of I_of named_of h G H combine ser de xser xde fser fde.

(* ------------------------------------------------------------------ executable instance *)
Definition akey := (option pkind * list (string * option N))%type.

Definition opt_eqb {A} (e : A -> A -> bool) (a b : option A) : bool :=
  match a, b with Some x, Some y => e x y | None, None => true | _, _ => false end.
Fixpoint list_eqb {A} (e : A -> A -> bool) (a b : list A) : bool :=
  match a, b with
  | [], [] => true
  | x :: a', y :: b' => e x y && list_eqb e a' b'
  | _, _ => false
  end.
Definition cell_eqb (a b : string * option N) : bool :=
  String.eqb (fst a) (fst b) && opt_eqb N.eqb (snd a) (snd b).
Definition akey_eqb (a b : akey) : bool :=
  opt_eqb kind_eqb (fst a) (fst b) && list_eqb cell_eqb (snd a) (snd b).

(* G and H as finite tables (pkind, projection) -> interned environment, 0 when absent *)
Definition table := list ((pkind * list (string * option N)) * N).
Fixpoint tlookup (t : table) (k : pkind) (l : list (string * option N)) : N :=
  match t with
  | [] => 0%N
  | ((k', l'), v) :: r => if kind_eqb k' k && list_eqb cell_eqb l' l then v else tlookup r k l
  end.

Definition exec_sig (gt ht : table) : sig :=
  simaple_sig N akey N N (N * N) (N * N) (list (akey * (N * N))) (list (akey * (N * N)))
    akey_eqb (fun x => x) (tlookup gt) (tlookup ht) (fun i m => (m, i))
    (fun c => c) (fun c => c) (fun s => s) (fun s => s) (fun s => s) (fun s => s).

(* a history as the harness writes it *)
Inductive xop := XReq (k : pkind) (fs : list (string * N)) | XReopen.
Definition to_op (gt ht : table) (x : xop) : op (exec_sig gt ht) :=
  match x with
  | XReq k fs => Req (exec_sig gt ht) (Prov (exec_sig gt ht) k fs)
  | XReopen => Reopen (exec_sig gt ht)
  end.

(* model answers: (memoizable env id, independent env id, Some j = hit on entry j) *)
Definition run_exec (file : bool) (gt ht : table) (xs : list xop) : list ((N * N) * option N) :=
  let M := exec_sig gt ht in
  let ops := map (to_op gt ht) xs in
  map (fun r : result M => (fst r, option_map N.of_nat (snd r)))
      (if file then run_file M (new_file M) ops else run_mem M [] ops).
Definition entries_exec (file : bool) (gt ht : table) (xs : list xop) : N :=
  let M := exec_sig gt ht in
  let ops := map (to_op gt ht) xs in
  N.of_nat (List.length (if file then fde M (final_file M (new_file M) ops) else final_mem M [] ops)).

Definition ans_eqb (a b : (N * N) * option N) : bool :=
  N.eqb (fst (fst a)) (fst (fst b)) && N.eqb (snd (fst a)) (snd (fst b)) && opt_eqb N.eqb (snd a) (snd b).

(* one correspondence case: the implementation's answers and its final number of entries *)
Definition case_ok (file : bool) (gt ht : table) (xs : list xop)
           (expected : list ((N * N) * option N)) (entries : N) : bool :=
  list_eqb ans_eqb (run_exec file gt ht xs) expected && N.eqb (entries_exec file gt ht xs) entries.

(* the abstract key of a request, for the harness' key-injectivity test *)
Definition key_exec (k : pkind) (fs : list (string * N)) : akey :=
  key (exec_sig [] []) (Prov (exec_sig [] []) k fs).
