(* C16: the executable model of what get_skill_components builds, over the GENERATED tables (gen/Formulas.v,
   gen/Profiles.v, gen/CoreQ.v).  DEFINITIONS ONLY.

   config = the level-carrying fields of a SimulationEnvironment: skill_levels (name -> level), passive_skill_level,
   combat_orders_level, v_improvements_level, one hexa improvement level (given to every hexa_improvement_name of the
   profile, as the providers do) and the values of the other reference variables (character_level, weapon_attack_power,
   character_stat.*, combat_orders_level, passive_skill_level as rationals). *)
From Coq Require Import QArith Qround ZArith List String Bool.
From V.Model Require Import Expr ExprParse Levels.
From G Require Import CoreQ Formulas Profiles.
Import ListNotations.
Open Scope string_scope.

Record config := mkCfg {
  c_levels : list (string * Z); c_passive : Z; c_co : Z; c_v_improvement : Z; c_hexa_improvement : Z;
  c_vars : list (string * Q) }.

(* the level SkillLevelPatch substitutes into the strings of the specification of formula f *)
Definition eff_level (cfg : config) (f : formula) : Z :=
  gen_skill_level (f_named f) (lookup (f_skill f) (c_levels cfg)) (f_default f) (f_passive f) (f_co f) (c_passive cfg) (c_co cfg).
Definition in_range (cfg : config) (f : formula) : bool := (f_lo f <=? eff_level cfg f)%Z && (eff_level cfg f <=? f_hi f)%Z.

(* value of formula number fid after SkillLevelPatch + ArithmeticPatch *)
Definition fval (cfg : config) (fid : nat) : option Q :=
  match nth_error formulas fid with
  | Some f => eval (at_level (env_of (c_vars cfg)) level_var (eff_level cfg f)) (f_expr f)
  | None => None
  end.
(* the same through the TEXT: substitute the level into the tokens, parse, evaluate without binding the level variable *)
Definition fval_text (cfg : config) (fid : nat) : option Q :=
  match nth_error formulas fid with
  | Some f => evalp (env_of (c_vars cfg)) (subst_toks level_var (eff_level cfg f) (f_toks f))
  | None => None
  end.

Definition figure_value (cfg : config) (g : figure) : option Q := fig_value (fval cfg) g.

Definition fdm_stat (q : Q) : Stat := stat_of [("final_damage_multiplier", q)].
Definition ied_stat (q : Q) : Stat := stat_of [("ignored_defence", q)].
Definition v_level (cfg : config) (listed : bool) : Z := if listed then c_v_improvement cfg else 0%Z.
Definition hexa_level (cfg : config) (listed : bool) : Z := if listed then c_hexa_improvement cfg else 0%Z.
Definition step_value (cfg : config) (s : option Stat) (st : step) : option Stat :=
  match s with
  | None => None
  | Some s =>
    match st with
    | SV scale listed => let l := v_level cfg listed in
                         Some (Stat_add (Stat_add s (fdm_stat (gen_v_fdm scale l))) (ied_stat (gen_v_ied l)))
    | SH listed => match gen_hexa_fdm (hexa_level cfg listed) with Some q => Some (Stat_add s (fdm_stat q)) | None => None end
    | SS inc => Some (Stat_add s (stat_of inc))
    end
  end.
Definition block_base (cfg : config) (b : sblock) : option Stat :=
  match base_fields (fval cfg) (b_base b) with Some l => Some (stat_of l) | None => None end.
Definition block_value (cfg : config) (b : sblock) : option Stat := fold_left (step_value cfg) (b_steps b) (block_base cfg b).

(* names of the built components of a job *)
Definition built_names (p : profile) (levels : list (string * Z)) : list string :=
  exclude_hexa gen_excl (p_components p) (p_mastery p) levels.

(* ------------------------------------------------------------------------------------------------ table checks *)
Definition other_level_vars : list string := ["combat_orders_level"; "passive_skill_level"].
(* no damage formula mentions these two reference variables directly (they act through the effective level only) *)
Definition other_ok (x : var) (f : formula) : bool := const_in x (f_expr f).
Definition damage_ok (f : formula) : bool :=
  negb (f_damage f) || (range_ok f && level_ok level_var f && forallb (fun x => other_ok x f) other_level_vars).
Fixpoint ids_from (n : nat) (l : list formula) : bool :=
  match l with [] => true | f :: r => Nat.eqb (f_id f) n && ids_from (S n) r end.

Definition fid_damage (fid : nat) : bool := match nth_error formulas fid with Some f => f_damage f | None => false end.
Definition figure_ok (g : figure) : bool :=
  negb (g_damage g)
  || (forallb post_nonneg (g_post g)
      && match g_base g with BF fid => fid_damage fid | BC _ => true end
      && forallb (fun o => match o with PAddF fid => fid_damage fid | _ => true end) (g_post g)).

Definition step_scale_ok (st : step) : bool :=
  match st with
  | SV scale _ => Qle_bool 0 scale
  | SH _ => true
  | SS inc => Qle_bool (-100) (sget "final_damage_multiplier" inc) && Qle_bool (sget "ignored_defence" inc) 100
  end.
(* formula fid is at most `bound` on its whole level range (only for formulas in the level variable alone) *)
Definition bounded_above (fid : nat) (bound : Q) : bool :=
  match nth_error formulas fid with
  | Some f => only_var level_var (f_expr f)
              && forallb (fun l => match eval (at_level no_env level_var l) (f_expr f) with Some v => Qle_bool v bound | None => false end)
                         (zspan (f_lo f) (f_hi f + 1))
  | None => false
  end.
(* base entries of a stat block: final_damage_multiplier a constant >= -100, ignored_defence <= 100, formulas are damage formulas *)
Definition base_const_ok (kb : string * base) : bool :=
  match snd kb with
  | BC q => if String.eqb (fst kb) "final_damage_multiplier" then Qle_bool (-100) q
            else if String.eqb (fst kb) "ignored_defence" then Qle_bool q 100 else true
  | BF fid => fid_damage fid && negb (String.eqb (fst kb) "final_damage_multiplier")
              && (if String.eqb (fst kb) "ignored_defence" then bounded_above fid 100 else true)
  end.
Definition block_ok (b : sblock) : bool :=
  forallb step_scale_ok (b_steps b) && forallb base_const_ok (b_base b) && nodupb (map fst (b_base b)).

(* the corners of the documented configuration space of a profile: every formula of the profile's groups stays inside its hull *)
Definition corner_cfg (p : profile) (lv off : Z) : config := mkCfg (skill_levels_of p lv lv lv) off off 0 0 [].
Definition uses (p : profile) (f : formula) : bool :=
  mem (f_group f) (p_groups p) && (String.eqb (f_kind f) "Component" || String.eqb (f_kind f) "SkillImprovement").
Definition hull_ok (p : profile) (f : formula) : bool :=
  negb (uses p f) || ((f_lo f <=? eff_level (corner_cfg p 0 0) f)%Z && (eff_level (corner_cfg p max_skill_level max_offset) f <=? f_hi f)%Z).
(* a formula no profile uses (or of another kind) is never in the skill_levels map: its level is the specification's own *)
Definition fixed_hull_ok (f : formula) : bool :=
  (f_lo f <=? gen_skill_level (f_named f) None (f_default f) (f_passive f) (f_co f) 0 0)%Z
  && (gen_skill_level (f_named f) None (f_default f) (f_passive f) (f_co f) max_offset max_offset <=? f_hi f)%Z.

Definition replacement_names_ok (p : profile) : bool :=
  forallb (fun pr => mem (fst pr) (p_components p) && mem (snd pr) (p_components p)) (p_mastery p).

Definition fig_fids (g : figure) : list nat :=
  (match g_base g with BF fid => [fid] | BC _ => [] end)
  ++ flat_map (fun o => match o with PAddF fid => [fid] | _ => [] end) (g_post g).
Definition blk_fids (b : sblock) : list nat :=
  flat_map (fun kb => match snd kb with BF fid => [fid] | BC _ => [] end) (b_base b).
Definition fid_used (p : profile) (fid : nat) : bool := match nth_error formulas fid with Some f => uses p f | None => false end.
Definition profile_of (job : string) : option profile := find (fun p => String.eqb (p_job p) job) profiles.
Definition figure_scoped (g : figure) : bool :=
  match profile_of (g_job g) with Some p => forallb (fid_used p) (fig_fids g) | None => false end.
Definition block_scoped (b : sblock) : bool :=
  match profile_of (b_job b) with Some p => forallb (fid_used p) (blk_fids b) | None => false end.
