From Coq Require Import ZArith Lia Bool.
Open Scope Z_scope.
Ltac Zify.zify_post_hook ::= Z.to_euclidean_division_equations.

Record K := mkK { itv : Z; cnt : Z; tl : Z }.

(* the generator's while loop: returns (number of yields, final counter) *)
Fixpoint loop (fuel : nat) (I r c : Z) (k : Z) : Z * Z :=
  match fuel with
  | O => (k, c)
  | S f => if (0 <=? r) && (c <=? 0) then loop f I (r - I) (c + I) (k + 1) else (k, c)
  end.

Definition resolving (s : K) (t : Z) : K * Z :=
  let r := tl s - Z.max 0 (cnt s) in
  let c1 := cnt s - t in
  let fuel := S (Z.to_nat ((- c1) / itv s + 1)) in
  let '(k, c') := loop fuel (itv s) r c1 0 in
  (mkK (itv s) c' (tl s - t), k).

Definition wf (s : K) := 0 < itv s /\ (cnt s < 0 -> tl s < 0).

(* characterisation of the yield count *)
Definition count_ok (I r c k : Z) : Prop :=
  0 <= k /\ (forall j, 0 <= j < k -> 0 <= r - j * I /\ c + j * I <= 0) /\ (r - k * I < 0 \/ 0 < c + k * I).


Definition running (s : K) : bool := 0 <? tl s.
Definition next_delay (s : K) : Z := Z.min (cnt s) (tl s).
Definition start (s : K) (maxkd prep : Z) : K := mkK (itv s) prep maxkd.
Definition stop (s : K) : K := mkK (itv s) (cnt s) 0.
