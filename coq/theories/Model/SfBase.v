(* C17 -- vocabulary shared by the GENERATED star-force model (gen/SfGen.v, written by
   tools/tr_starforce.py from simaple/gear/improvements/starforce*.py on every run) and the
   hand-written reference model (Model/SfRef.v).  Executable definitions only, no proofs.

   * Meta   : the five GearMeta fields the star-force code reads.  m_type is the integer value
              of the GearType enum member, so "any gear kind" = any Z.
   * SStat  : the eight Stat fields star force can touch (every other field of an increment is
              the default 0; the translator rejects any other keyword and the harness compares
              the full 27-field dump).  Fields are rationals: Stat fields are Python floats and
              the reference stat is arbitrary; increments are integers injected with qz.
   * Python idioms: list indexing with an int (negative wraps, out of range = IndexError =
              None), float floor division, `for x in reversed(l): if p(x): return ..`,
              `for x in l: if p(x): cur = x else: break`, `for i in range(a, b): acc = f i acc`. *)
From Coq Require Import ZArith QArith Qround List Bool.
Import ListNotations.

Record Meta := mkMeta { m_type : Z; m_req_level : Z; m_req_job : Z; m_superior : bool; m_tuc : Z }.

Record SStat := mkS { sSTR : Q; sDEX : Q; sINT : Q; sLUK : Q; sATT : Q; sMAT : Q; sMHP : Q; sMMP : Q }.

Definition szero : SStat := mkS 0 0 0 0 0 0 0 0.
Definition sadd (a b : SStat) : SStat :=
  mkS (sSTR a + sSTR b) (sDEX a + sDEX b) (sINT a + sINT b) (sLUK a + sLUK b)
      (sATT a + sATT b) (sMAT a + sMAT b) (sMHP a + sMHP b) (sMMP a + sMMP b).
Definition sfields : list (SStat -> Q) := [sSTR; sDEX; sINT; sLUK; sATT; sMAT; sMHP; sMMP].

Definition qz (z : Z) : Q := inject_Z z.
(* Python `x // d` on floats: floor of the quotient *)
Definition qfdiv (x d : Q) : Q := inject_Z (Qfloor (x / d)).
Definition qleb (a b : Q) : bool := Qle_bool a b.
Definition qltb (a b : Q) : bool := negb (Qle_bool b a).
Definition qeqb (a b : Q) : bool := Qeq_bool a b.

Definition obind {A B} (o : option A) (f : A -> option B) : option B :=
  match o with Some a => f a | None => None end.

(* l[i] for a Python int i *)
Definition zidx {A} (l : list A) (i : Z) : option A :=
  if (i <? 0)%Z then
    (if (Z.of_nat (length l) + i <? 0)%Z then None else nth_error l (Z.to_nat (Z.of_nat (length l) + i)))
  else nth_error l (Z.to_nat i).
(* l[k] for a literal k the translator has checked against every row of the literal table *)
Definition zrow (r : list Z) (k : nat) : Z := nth k r 0%Z.

(* for x in reversed(l): if p x: return x *)
Definition find_rev {A} (p : A -> bool) (l : list A) : option A := find p (rev l).
(* cur = None; for x in l: (if p x: cur = x  else: break) *)
Fixpoint scan_break {A} (p : A -> bool) (l : list A) (cur : option A) : option A :=
  match l with
  | [] => cur
  | x :: r => if p x then scan_break p r (Some x) else cur
  end.
(* acc; for i in range(a, b): acc = f i acc   (f may raise = None) *)
Fixpoint fold_range_n {A} (f : Z -> A -> option A) (i : Z) (n : nat) (acc : A) : option A :=
  match n with
  | O => Some acc
  | S k => match f i acc with None => None | Some a => fold_range_n f (i + 1)%Z k a end
  end.
Definition fold_range {A} (f : Z -> A -> option A) (a b : Z) (acc : A) : option A :=
  fold_range_n f a (Z.to_nat (b - a)) acc.

(* comparators for the correspondence shards *)
Definition sstat_eqb (a b : SStat) : bool :=
  forallb (fun f => Qeq_bool (f a) (f b)) sfields.
Definition ostat_eqb (a b : option SStat) : bool :=
  match a, b with Some x, Some y => sstat_eqb x y | None, None => true | _, _ => false end.
Fixpoint olist_eqb (a b : list (option SStat)) : bool :=
  match a, b with
  | [], [] => true
  | x :: a', y :: b' => ostat_eqb x y && olist_eqb a' b'
  | _, _ => false
  end.
Fixpoint zrange (a : Z) (n : nat) : list Z := match n with O => [] | S k => a :: zrange (a + 1)%Z k end.
