From Coq Require Import ZArith Lia Bool List.
Import ListNotations.
Open Scope Z_scope.

Record P := mkP { interval : Z; counter : Z; tl : Z; cnt : Z }.

(* one resolve_step: returns new state and remaining time *)
Definition step (s : P) (t : Z) : P * Z :=
  if tl s <=? 0 then (s, 0) else
  let m := Z.min (counter s) (Z.min (tl s) t) in
  let t' := t - m in
  let c' := counter s - m in
  let tl' := tl s - m in
  if tl' =? 0 then (mkP (interval s) (counter s) 0 (cnt s), 0) else
  if c' =? 0 then (mkP (interval s) (c' + interval s) tl' (cnt s + 1), t')
  else (mkP (interval s) c' tl' (cnt s), t').

Fixpoint run (fuel : nat) (s : P) (t : Z) : P :=
  match fuel with
  | O => s
  | S f => if t <=? 0 then s else let '(s', t') := step s t in run f s' t'
  end.

Definition wf (s : P) := 0 < interval s /\ 0 < counter s.

Definition obs (s : P) : Z * Z * Z := (tl s, cnt s, if 0 <? tl s then counter s else 0).

(* fuel bound: number of steps <= t (each step consumes >= 1 tick when live) *)
Definition fuel_of (t : Z) : nat := S (Z.to_nat t).
Definition elapse (s : P) (t : Z) : P := run (fuel_of t) s t.

Definition obs_eq (s1 s2 : P) := obs s1 = obs s2 /\ interval s1 = interval s2.


(* ---- executable variant: fuel counts steps; None = fuel exhausted (never a normal value) *)
Fixpoint runo (fuel : nat) (s : P) (t : Z) : option P :=
  match fuel with
  | O => if t <=? 0 then Some s else None
  | S f => if t <=? 0 then Some s else let '(s', t') := step s t in runo f s' t'
  end.
(* steps happen only while the schedule is live: at most min(t, time_left) / interval ticks, plus the partial and the exit step
   (an unused slot keeps its placeholder interval 1 while t is scaled: t / interval would be astronomically large there) *)
Definition exec_fuel (s : P) (t : Z) : nat := Z.to_nat (Z.min t (Z.max 0 (tl s)) / Z.max 1 (interval s) + 4).
Definition elapse_exec (s : P) (t : Z) : option P := runo (exec_fuel s t) s t.

(* entity API used by the component model *)
Definition enabled (s : P) : bool := 0 <? tl s.
Definition set_time_left (s : P) (ic : option Z) (t : Z) : P :=
  mkP (interval s) (match ic with Some c => c | None => interval s end) t 0.
Definition disable (s : P) : P := mkP (interval s) (counter s) 0 (cnt s).
(* the state with the dead interval counter forgotten *)
Definition norm (s : P) : P := mkP (interval s) (if 0 <? tl s then counter s else 0) (tl s) (cnt s).
