(* C17 -- hand-written REFERENCE model of simaple's star force (my reading of
   gear/improvements/starforce.py + starforce_configuration.py + gear_type.py at audit time,
   tables included).  It is NOT regenerated: the correspondence harness runs it, the generated
   model gen/SfGen.v and the real implementation on the same gears; any behavioural edit of
   the implementation (a table cell, a band boundary, a cap, a dropped field) shows up as a
   difference against this file with the concrete (gear, star).  No proofs here. *)
From Coq Require Import ZArith QArith Qround List Bool.
From V.Model Require Import SfBase.
Import ListNotations.
Open Scope Z_scope.

Definition rt_superior_att_increments : list (list Z) := [
  [0; 0; 0; 0; 0; 0; 0; 0; 0; 0; 0; 0; 0; 0; 0; 0];
  [110; 0; 0; 0; 0; 0; 5; 6; 7; 0; 0; 0; 0; 0; 0; 0];
  [150; 0; 0; 0; 0; 0; 9; 10; 11; 12; 13; 15; 17; 19; 21; 23]].
Definition rt_superior_stat_increments : list (list Z) := [
  [0; 1; 2; 4; 7; 11; 0; 0; 0; 0; 0; 0; 0; 0; 0; 0];
  [80; 2; 3; 5; 8; 12; 0; 0; 0; 0; 0; 0; 0; 0; 0; 0];
  [110; 9; 10; 12; 15; 19; 0; 0; 0; 0; 0; 0; 0; 0; 0; 0];
  [150; 19; 20; 22; 25; 29; 0; 0; 0; 0; 0; 0; 0; 0; 0; 0]].
Definition rt_starforce_weapon_att_increments : list (list Z) := [
  [0; 0; 0; 0; 0; 0; 0; 0; 0; 0; 0; 0; 0; 0; 0; 0; 0; 0; 0; 0; 0; 0; 0; 0; 0; 0];
  [108; 0; 0; 0; 0; 0; 0; 0; 0; 0; 0; 0; 0; 0; 0; 0; 4; 5; 5; 6; 7; 8; 9; 27; 28; 29];
  [118; 0; 0; 0; 0; 0; 0; 0; 0; 0; 0; 0; 0; 0; 0; 0; 5; 6; 6; 7; 8; 9; 10; 28; 29; 30];
  [128; 0; 0; 0; 0; 0; 0; 0; 0; 0; 0; 0; 0; 0; 0; 0; 6; 7; 7; 8; 9; 10; 11; 29; 30; 31];
  [138; 0; 0; 0; 0; 0; 0; 0; 0; 0; 0; 0; 0; 0; 0; 0; 7; 8; 8; 9; 10; 11; 12; 30; 31; 32];
  [148; 0; 0; 0; 0; 0; 0; 0; 0; 0; 0; 0; 0; 0; 0; 0; 8; 9; 9; 10; 11; 12; 13; 31; 32; 33];
  [158; 0; 0; 0; 0; 0; 0; 0; 0; 0; 0; 0; 0; 0; 0; 0; 9; 9; 10; 11; 12; 13; 14; 32; 33; 34];
  [198; 0; 0; 0; 0; 0; 0; 0; 0; 0; 0; 0; 0; 0; 0; 0; 13; 13; 14; 14; 15; 16; 17; 34; 35; 36]].
Definition rt_starforce_att_increments : list (list Z) := [
  [0; 0; 0; 0; 0; 0; 0; 0; 0; 0; 0; 0; 0; 0; 0; 0; 0; 0; 0; 0; 0; 0; 0; 0; 0; 0];
  [108; 0; 0; 0; 0; 0; 0; 0; 0; 0; 0; 0; 0; 0; 0; 0; 5; 6; 7; 8; 9; 10; 12; 13; 15; 17];
  [118; 0; 0; 0; 0; 0; 0; 0; 0; 0; 0; 0; 0; 0; 0; 0; 6; 7; 8; 9; 10; 11; 13; 14; 16; 18];
  [128; 0; 0; 0; 0; 0; 0; 0; 0; 0; 0; 0; 0; 0; 0; 0; 7; 8; 9; 10; 11; 12; 14; 16; 18; 20];
  [138; 0; 0; 0; 0; 0; 0; 0; 0; 0; 0; 0; 0; 0; 0; 0; 8; 9; 10; 11; 12; 13; 15; 17; 19; 21];
  [148; 0; 0; 0; 0; 0; 0; 0; 0; 0; 0; 0; 0; 0; 0; 0; 9; 10; 11; 12; 13; 14; 16; 18; 20; 22];
  [158; 0; 0; 0; 0; 0; 0; 0; 0; 0; 0; 0; 0; 0; 0; 0; 10; 11; 12; 13; 14; 15; 17; 19; 21; 23];
  [198; 0; 0; 0; 0; 0; 0; 0; 0; 0; 0; 0; 0; 0; 0; 0; 12; 13; 14; 15; 16; 17; 19; 21; 23; 25]].
Definition rt_starforce_stat_increments : list (list Z) := [
  [0; 2; 2; 2; 2; 2; 3; 3; 3; 3; 3; 3; 3; 3; 3; 3; 0; 0; 0; 0; 0; 0; 0; 0; 0; 0];
  [108; 2; 2; 2; 2; 2; 3; 3; 3; 3; 3; 3; 3; 3; 3; 3; 3; 3; 3; 3; 3; 3; 3; 0; 0; 0];
  [118; 2; 2; 2; 2; 2; 3; 3; 3; 3; 3; 3; 3; 3; 3; 3; 5; 5; 5; 5; 5; 5; 5; 0; 0; 0];
  [128; 2; 2; 2; 2; 2; 3; 3; 3; 3; 3; 3; 3; 3; 3; 3; 7; 7; 7; 7; 7; 7; 7; 0; 0; 0];
  [138; 2; 2; 2; 2; 2; 3; 3; 3; 3; 3; 3; 3; 3; 3; 3; 9; 9; 9; 9; 9; 9; 9; 0; 0; 0];
  [148; 2; 2; 2; 2; 2; 3; 3; 3; 3; 3; 3; 3; 3; 3; 3; 11; 11; 11; 11; 11; 11; 11; 0; 0; 0];
  [158; 2; 2; 2; 2; 2; 3; 3; 3; 3; 3; 3; 3; 3; 3; 3; 13; 13; 13; 13; 13; 13; 13; 0; 0; 0];
  [198; 2; 2; 2; 2; 2; 3; 3; 3; 3; 3; 3; 3; 3; 3; 3; 15; 15; 15; 15; 15; 15; 15; 0; 0; 0]].
Definition rt_amazing_att_increments : list (list Z) := [
  [0; 0; 0; 0; 0; 0; 1; 2; 3; 4; 5; 6; 8; 10; 12; 14];
  [80; 0; 0; 0; 0; 0; 2; 3; 4; 5; 6; 7; 9; 11; 13; 15];
  [90; 0; 0; 0; 0; 0; 3; 4; 5; 6; 7; 8; 10; 12; 14; 16];
  [100; 0; 0; 0; 0; 0; 4; 5; 6; 7; 8; 9; 11; 13; 15; 17];
  [110; 0; 0; 0; 0; 0; 5; 6; 7; 8; 9; 10; 12; 14; 16; 18];
  [120; 0; 0; 0; 0; 0; 6; 7; 8; 9; 10; 11; 13; 15; 17; 19];
  [130; 0; 0; 0; 0; 0; 7; 8; 9; 10; 11; 12; 14; 16; 18; 20];
  [140; 0; 0; 0; 0; 0; 8; 9; 10; 11; 12; 13; 15; 17; 19; 21];
  [150; 0; 0; 0; 0; 0; 9; 10; 11; 12; 13; 14; 16; 18; 20; 22]].
Definition rt_amazing_stat_increments : list (list Z) := [
  [0; 1; 2; 4; 7; 11; 0; 0; 0; 0; 0; 0; 0; 0; 0; 0];
  [80; 2; 3; 5; 8; 12; 0; 0; 0; 0; 0; 0; 0; 0; 0; 0];
  [85; 3; 4; 6; 9; 13; 0; 0; 0; 0; 0; 0; 0; 0; 0; 0];
  [90; 4; 5; 7; 10; 14; 0; 0; 0; 0; 0; 0; 0; 0; 0; 0];
  [95; 5; 6; 8; 11; 15; 0; 0; 0; 0; 0; 0; 0; 0; 0; 0];
  [100; 7; 8; 10; 13; 17; 0; 0; 0; 0; 0; 0; 0; 0; 0; 0];
  [105; 8; 9; 11; 14; 18; 0; 0; 0; 0; 0; 0; 0; 0; 0; 0];
  [110; 9; 10; 12; 15; 19; 0; 0; 0; 0; 0; 0; 0; 0; 0; 0];
  [115; 10; 11; 13; 16; 20; 0; 0; 0; 0; 0; 0; 0; 0; 0; 0];
  [120; 12; 13; 15; 18; 22; 0; 0; 0; 0; 0; 0; 0; 0; 0; 0];
  [125; 13; 14; 16; 19; 23; 0; 0; 0; 0; 0; 0; 0; 0; 0; 0];
  [130; 14; 15; 17; 20; 24; 0; 0; 0; 0; 0; 0; 0; 0; 0; 0];
  [135; 15; 16; 18; 21; 25; 0; 0; 0; 0; 0; 0; 0; 0; 0; 0];
  [140; 17; 18; 20; 23; 27; 0; 0; 0; 0; 0; 0; 0; 0; 0; 0];
  [145; 18; 19; 21; 24; 28; 0; 0; 0; 0; 0; 0; 0; 0; 0; 0];
  [150; 19; 20; 22; 25; 29; 0; 0; 0; 0; 0; 0; 0; 0; 0; 0]].
Definition rt_glove_bonus : list Z := [0; 0; 0; 0; 0; 1; 0; 1; 0; 1; 0; 1; 0; 1; 1; 1; 0; 0; 0; 0; 0; 0; 0; 0; 0; 0].
Definition rt_mhp_bonus : list Z := [0; 5; 5; 5; 10; 10; 15; 15; 20; 20; 25; 25; 25; 25; 25; 25; 0; 0; 0; 0; 0; 0; 0; 0; 0; 0].

(* the row of the highest level band whose lower bound is <= level (bands are ascending) *)
Fixpoint band_row (tbl : list (list Z)) (lvl : Z) (cur : option (list Z)) : option (list Z) :=
  match tbl with
  | [] => cur
  | r :: rest => band_row rest lvl (if hd 0 r <=? lvl then Some r else cur)
  end.
Definition r_lookup (tbl : list (list Z)) (lvl star : Z) : option Z :=
  match band_row tbl lvl None with None => None | Some r => zidx r star end.

(* (ordinary cap, superior cap) by required level *)
Definition r_caps (lvl : Z) : Z * Z :=
  if lvl <? 0 then (0, 0) else if lvl <? 95 then (5, 3) else if lvl <? 110 then (8, 5)
  else if lvl <? 120 then (10, 8) else if lvl <? 130 then (15, 10) else if lvl <? 140 then (20, 12) else (25, 15).

(* GearType.is_improved_as_weapon: one-handed 121..139 (katara 134 included), 1210..1219, two-handed 140..149, 152..159 *)
Definition r_weaponlike (t : Z) : bool :=
  ((121 <=? t) && (t <=? 139)) || (t / 10 =? 121) || ((140 <=? t) && (t <=? 149)) || ((152 <=? t) && (t <=? 159)).
Definition r_no_stars (t : Z) : bool := ((161 <=? t) && (t <=? 165)) || ((194 <=? t) && (t <=? 197)).
Definition r_is_glove (t : Z) : bool := t =? 108.
(* cap coat longcoat pants cape ring pendant belt shoulder_pad shield *)
Definition r_hp_armor (t : Z) : bool := existsb (Z.eqb t) [100; 104; 105; 106; 110; 111; 112; 113; 115; 109].

Definition r_max_star (m : Meta) : Z :=
  if m_tuc m <=? 0 then 0 else if r_no_stars (m_type m) then 0
  else let (a, b) := r_caps (m_req_level m) in if m_superior m then b else a.

Definition jbit (job : Z) (i : Z) : bool := Z.testbit job i.
(* job bits: 0 warrior (STR DEX), 1 magician (INT LUK), 2 archer (DEX STR), 3 thief (LUK DEX), 4 pirate (STR DEX) *)
Definition wants_STR (j : Z) := (j =? 0) || jbit j 0 || jbit j 2 || jbit j 4.
Definition wants_DEX (j : Z) := (j =? 0) || jbit j 0 || jbit j 2 || jbit j 3 || jbit j 4.
Definition wants_INT (j : Z) := (j =? 0) || jbit j 1.
Definition wants_LUK (j : Z) := (j =? 0) || jbit j 1 || jbit j 3.

Definition r_single (m : Meta) (ref : SStat) (star : Z) (cur : SStat) : option SStat :=
  if star >? r_max_star m then None else
  let g := sadd cur ref in
  let lvl := m_req_level m in
  let j := m_req_job m in
  let t := m_type m in
  if m_superior m then
    obind (r_lookup rt_superior_stat_increments lvl star) (fun s =>
    obind (r_lookup rt_superior_att_increments lvl star) (fun a =>
    Some (mkS (qz s) (qz s) (qz s) (qz s) (qz a) (qz a) 0 0)))
  else
    obind (r_lookup rt_starforce_stat_increments lvl star) (fun s =>
    obind (r_lookup (if r_weaponlike t then rt_starforce_weapon_att_increments else rt_starforce_att_increments) lvl star) (fun a =>
    obind (zidx rt_mhp_bonus star) (fun hp =>
    obind (if r_is_glove t then zidx rt_glove_bonus star else Some 0) (fun gb =>
    let statf (want : bool) (field : Q) : Q := if want || ((star >? 15) && qltb 0 field) then qz s else 0%Q in
    let use_mad := (j =? 0) || jbit j 1 || qltb 0 (sMAT g) in
    let att : Q := if r_weaponlike t then (if star >? 15 then qz a else (qfdiv (sATT g) (qz 50) + qz 1)%Q) else qz a in
    let mat : Q := if r_weaponlike t
                   then (if use_mad then (if star >? 15 then qz a else (qfdiv (sMAT g) (qz 50) + qz 1)%Q) else 0%Q)
                   else qz a in
    let gatt : Q := if r_is_glove t then (if (j =? 0) || negb (jbit j 1) then qz gb else 0%Q) else 0%Q in
    let gmat : Q := if r_is_glove t then (if (j =? 0) || jbit j 1 then qz gb else 0%Q) else 0%Q in
    let mhp : Q := if r_weaponlike t || r_hp_armor t then qz hp else 0%Q in
    let mmp : Q := if r_weaponlike t then qz hp else 0%Q in
    Some (mkS (statf (wants_STR j) (sSTR g)) (statf (wants_DEX j) (sDEX g)) (statf (wants_INT j) (sINT g))
              (statf (wants_LUK j) (sLUK g)) (att + gatt)%Q (mat + gmat)%Q mhp mmp))))).

Fixpoint r_calc_n (m : Meta) (ref : SStat) (n : nat) : option SStat :=
  match n with
  | O => Some szero
  | S k => obind (r_calc_n m ref k) (fun cur =>
           obind (r_single m ref (Z.of_nat (S k)) cur) (fun inc => Some (sadd cur inc)))
  end.
Definition r_calc (m : Meta) (ref : SStat) (star : Z) : option SStat := r_calc_n m ref (Z.to_nat star).
Definition r_cutoff (m : Meta) (star : Z) : Z := Z.min star (r_max_star m).
