(* The dispatch / store glue of simaple, between the component reducers (Model/Comp.v, Spec..v), the
   router (Model/Router.v) and play() (Model/Play.v).  Definitions only; proofs are in
   Proofs/Dispatch*.v, the closed statements in Props/C05_dispatch.v, C06_dispatch.v, C07_dispatch.v.

   Modelled code (line by line; oddities kept):
   simulate/base.py
   * `message_signature`: `name` when the method is the empty string, else `name.method`  [msig, sig_of]
   * `ConcreteStore.read_entity(name, default)`: `default is None` -> `dict.get`, raise ValueError when
     absent; otherwise `dict.setdefault(name, default)`, i.e. a READ THAT WRITES the default when the
     address is missing  [read_entity];  `set_entity` = dict assignment (position of an existing key
     is kept, a new key goes last)  [dset]
   * `AddressedStore._resolve_address`: `len(name.split(".")) == 1` (no '.' in the name) -> local:
     `current_address + "." + name`; otherwise the name IS the address  [resolve];
     `local(a)` = `current_address + "." + a`  [local_addr].  The root store has address "", so the
     entity `e` of component `n` lives at ".n.e" and play()'s `previous_callbacks` at ".previous_callbacks".
   * `TandemDispatcher` (base first; a base answer containing an event tagged REJECT is returned as it is, the
     addon followers are skipped), `ContextDispatcher` (component/base.py), `RouterDispatcher`: Model/Router.v,
     reused, instantiated with `ev_is_reject`; a component dispatcher / the timer is a `Prim`  [comp_disp, timer_disp, disp_of]
   * `_get_event_callbacks`: methods `<method>.emitted.<tag or ''>` / `<method>.done.<tag or ''>`
     [emitted_cb, done_cb]
   simulate/component/base.py
   * `StoreAdapter.__init__`: `binds.update(GlobalProperty.get_default_binds())`, i.e. the pair
     dynamics -> global.dynamics overrides / extends the component's binds  [binds_of];
     `_get_bound_names`: default-state names mapped to themselves, then `update(binds)`  [bound_names];
     `get_state`: reads EVERY bound name, in dict order, default = `default_state.get(name)`  [get_state];
     `set_state`: for every (field, entity) of the returned state, `if field in bound names` write it
     at the bound address  [set_state]
   * `ReducerMethodWrappingDispatcher._find_mapping_name`: exact key first; else the FIRST key in dict
     order whose first character is '$' and whose text with ALL '$' removed is a SUBSTRING of the
     signature; `mapping_name[0]` raises IndexError on an empty key  [find_mapping_keys: FRaise];
     `includes`; `__call__` (`if not mapping_name: raise ValueError` also fires for the empty key;
     `reducer is None or method_name is None` -> `[]` without touching the store; get_state; reducer;
     set_state; `regularize_returned_event`; `tag_events_by_method_name` incl. `tag or method_name`,
     `event.get("handler")`, and ACCEPT appended iff no RAW event is tagged REJECT or ACCEPT)  [call_comp]
   * `Component.get_method_mappings`: `<name>.<method>`, `*.<method>`, then `listening_actions`  [mappings_of]
   simulate/timer.py
   * guard `if action["method"] != "elapse" and action["name"] != "*": return []` (note the `and`:
     called directly, the timer also acts on `("*", anything)` and `(anything, "elapse")`; under the
     router it is reached only for the signature "*.elapse")  [timer_call];  `store.use_entity
     ("global.time", Clock())` = read_entity with a default (setdefault), `clock.spent(payload)`, set.

   Conventions.  Entities `Ent` and payloads `Pay` are abstract (type parameters; one type `Pay` for
   action payloads, event payloads and None).  A reducer (the `ComponentMethodWrapper` stored under one
   mapping key, including its `translate_payload`/static payload) is an arbitrary partial function of
   (payload, state) where a state is the list of (field name, entity) built by the state type constructor from the entities read;
   `None` = it raised.  Exceptions are `None`; Python's partial in-place effects before a raise (earlier
   `setdefault` writes of the same get_state) are not observable in the model because the store is
   dropped with the exception -- play() does not catch, the whole operation aborts.
   Strings are Coq `string`s = byte strings of the UTF-8 text; Python compares code points.  For valid
   UTF-8 the two notions of equality, prefix and substring coincide (UTF-8 is self-synchronising), '.'
   and '$' are single bytes.

   GHOST data (not in Python, used only to state C05): every action carries `a_addon : bool`, set by
   `comp_disp` on the defined action of an addon, and the instrumented store carries the list of
   reducer invocations (component, mapping key, method, payload, addon mark of the action).  Neither
   is read by any modelled decision. *)
From Coq Require Import List Bool Arith String Ascii ZArith.
From V.Model Require Import Router Play.
Import ListNotations.
Local Open Scope string_scope.

(* ------------------------------------------------------------------ Python str helpers *)
Fixpoint has_dot (s : string) : bool :=
  match s with EmptyString => false | String c r => Ascii.eqb c "."%char || has_dot r end.
Fixpoint remove_dollar (s : string) : string :=                (* s.replace("$", "") *)
  match s with
  | EmptyString => EmptyString
  | String c r => if Ascii.eqb c "$"%char then remove_dollar r else String c (remove_dollar r)
  end.
Fixpoint substringb (p s : string) : bool :=                    (* p in s *)
  String.prefix p s || match s with EmptyString => false | String _ r => substringb p r end.
(* `or`-truthiness of Optional[str] *)
Definition str_or (t : option string) (d : string) : string :=
  match t with Some (String c r) => String c r | _ => d end.

Definition REJECT := "global.reject".
Definition ACCEPT := "global.accept".
Definition clock_addr := "global.time".
Definition callbacks_addr := ".previous_callbacks".
Definition root_addr := "".
Definition default_binds : list (string * string) := [("dynamics", "global.dynamics")].

(* message_signature *)
Definition msig (name method : string) : string :=
  match method with EmptyString => name | _ => name ++ "." ++ method end.

(* AddressedStore *)
Definition resolve (cur name : string) : string := if has_dot name then name else cur ++ "." ++ name.
Definition local_addr (cur a : string) : string := cur ++ "." ++ a.

(* ------------------------------------------------------------------ dicts as ordered lists *)
Section Dict.
  Context {V : Type}.
  Fixpoint dget (d : list (string * V)) (k : string) : option V :=
    match d with [] => None | (k', v) :: r => if String.eqb k' k then Some v else dget r k end.
  Fixpoint dset (d : list (string * V)) (k : string) (v : V) : list (string * V) :=
    match d with
    | [] => [(k, v)]
    | (k', v') :: r => if String.eqb k' k then (k', v) :: r else (k', v') :: dset r k v
    end.
  Definition dupdate (d d2 : list (string * V)) : list (string * V) :=
    fold_left (fun acc kv => dset acc (fst kv) (snd kv)) d2 d.
  Definition dmem (d : list (string * V)) (k : string) : bool :=
    match dget d k with Some _ => true | None => false end.
End Dict.

(* _find_mapping_name over the ordered keys of reducer_mappings *)
Inductive fm := FFound (key : string) | FNone | FRaise.
Fixpoint find_dollar (keys : list string) (target : string) : fm :=
  match keys with
  | [] => FNone
  | k :: r =>
      match k with
      | EmptyString => FRaise                                   (* mapping_name[0] on "" *)
      | String c _ =>
          if Ascii.eqb c "$"%char && substringb (remove_dollar k) target then FFound k
          else find_dollar r target
      end
  end.
Definition find_mapping_keys (keys : list string) (target : string) : fm :=
  if existsb (String.eqb target) keys then FFound target else find_dollar keys target.

(* Component.get_method_mappings as data: ordered (key, method name) *)
Definition mappings_of (name : string) (methods : list string) (listening : list (string * string))
  : list (string * string) :=
  dupdate (dupdate (map (fun m => (name ++ "." ++ m, m)) methods)
                   (map (fun m => ("*" ++ "." ++ m, m)) methods)) listening.

Section Dispatch.
  Variables Ent Pay : Type.
  Variable empty_pay : Pay.                                    (* {} *)
  Variable clock0 : Ent.                                       (* Clock() *)
  Variable spent : Ent -> Pay -> option Ent.                   (* clock.spent(payload); None = TypeError *)

  Record event := { ev_name : string; ev_pay : Pay; ev_method : string;
                    ev_tag : option string; ev_handler : option string }.
  Record action := { a_name : string; a_method : string; a_pay : Pay; a_addon : bool (* ghost *) }.
  Definition sig_of (a : action) : string := msig (a_name a) (a_method a).

  (* ---------------------------------------------------------------- ConcreteStore *)
  Definition store := list (string * Ent).
  Definition read_entity (st : store) (addr : string) (default : option Ent) : option (store * Ent) :=
    match dget st addr, default with
    | Some v, _ => Some (st, v)
    | None, Some d => Some (dset st addr d, d)                 (* setdefault *)
    | None, None => None                                       (* ValueError *)
    end.

  (* ---------------------------------------------------------------- components *)
  Definition fields := list (string * Ent).
  Inductive maybe_events := RNone | ROne (e : event) | RList (l : list event).
  Definition reducer := Pay -> fields -> option (fields * maybe_events).
  Record mapping := { m_method : option string; m_red : option reducer }.
  Record addon := { ad_when : string; ad_action : action }.
  Record component := {
    c_name : string;
    c_maps : list (string * mapping);                          (* reducer_mappings / method_mappings, dict order *)
    c_default : list (string * Ent);                           (* get_default_state() *)
    c_binds : list (string * string);                          (* Component.binds as given *)
    c_addons : list addon }.

  Definition binds_of (c : component) : list (string * string) := dupdate (c_binds c) default_binds.
  Definition bound_names (c : component) : list (string * string) :=
    dupdate (dupdate [] (map (fun kv => (fst kv, fst kv)) (c_default c))) (binds_of c).
  Definition comp_addr (c : component) : string := local_addr root_addr (c_name c).
  Definition bound_addrs (c : component) : list string :=
    map (fun kv => resolve (comp_addr c) (snd kv)) (bound_names c).

  Fixpoint read_all (cur : string) (defaults : list (string * Ent)) (names : list (string * string))
           (st : store) : option (store * fields) :=
    match names with
    | [] => Some (st, [])
    | (n, a) :: r =>
        match read_entity st (resolve cur a) (dget defaults n) with
        | None => None
        | Some (st1, e) =>
            match read_all cur defaults r st1 with
            | None => None
            | Some (st2, fs) => Some (st2, (n, e) :: fs)
            end
        end
    end.
  Definition get_state (c : component) (st : store) : option (store * fields) :=
    read_all (comp_addr c) (c_default c) (bound_names c) st.

  Fixpoint write_all (cur : string) (names : list (string * string)) (out : fields) (st : store) : store :=
    match out with
    | [] => st
    | (n, e) :: r =>
        match dget names n with
        | Some a => write_all cur names r (dset st (resolve cur a) e)
        | None => write_all cur names r st
        end
    end.
  Definition set_state (c : component) (st : store) (out : fields) : store :=
    write_all (comp_addr c) (bound_names c) out st.

  Definition find_mapping (c : component) (target : string) : fm :=
    find_mapping_keys (map fst (c_maps c)) target.
  Definition includes_b (c : component) (s : string) : bool :=
    match find_mapping c s with FFound _ => true | _ => false end.

  Definition regularize (m : maybe_events) : list event :=
    match m with RNone => [] | ROne e => [e] | RList l => l end.
  Definition tag_event (method : string) (e : event) : event :=
    {| ev_name := ev_name e; ev_pay := ev_pay e; ev_method := method;
       ev_tag := Some (str_or (ev_tag e) method); ev_handler := ev_handler e |}.
  Definition is_rej_acc (e : event) : bool :=
    match ev_tag e with Some t => String.eqb t REJECT || String.eqb t ACCEPT | None => false end.
  Definition accept_event (name method : string) : event :=
    {| ev_name := name; ev_pay := empty_pay; ev_method := method; ev_tag := Some ACCEPT; ev_handler := None |}.
  (* what TandemDispatcher tests on the (already TAGGED) answer of the base dispatcher: event["tag"] == Tag.REJECT *)
  Definition ev_is_reject (e : event) : bool :=
    match ev_tag e with Some t => String.eqb t REJECT | None => false end.
  Definition tag_events (name method : string) (raw : list event) : list event :=
    (map (tag_event method) raw ++
     (if forallb (fun e => negb (is_rej_acc e)) raw then [accept_event name method] else []))%list.

  (* ghost: one record per reducer invocation *)
  Record invocation := { i_comp : string; i_key : string; i_method : string; i_pay : Pay; i_addon : bool }.
  Definition rst := (store * list invocation)%type.

  (* ReducerMethodWrappingDispatcher.__call__ (instrumented) *)
  Definition call_comp (c : component) (a : action) (s : rst) : option (rst * list event) :=
    let '(st, tr) := s in
    match find_mapping c (sig_of a) with
    | FFound EmptyString | FNone | FRaise => None
    | FFound key =>
        match dget (c_maps c) key with
        | None => None                                          (* KeyError *)
        | Some mp =>
            match m_red mp, m_method mp with
            | Some red, Some method =>
                match get_state c st with
                | None => None
                | Some (st1, fs) =>
                    match red (a_pay a) fs with
                    | None => None
                    | Some (out, me) =>
                        Some ((set_state c st1 out,
                               (tr ++ [{| i_comp := c_name c; i_key := key; i_method := method;
                                          i_pay := a_pay a; i_addon := a_addon a |}])%list),
                              tag_events (c_name c) method (regularize me))
                    end
                end
            | _, _ => Some ((st, tr), [])
            end
        end
    end.

  (* timer_delay_dispatcher, decorated by named_dispatcher("*.elapse") *)
  Definition timer_includes (s : string) : bool := String.eqb s "*.elapse".
  Definition timer_call (a : action) (s : rst) : option (rst * list event) :=
    let '(st, tr) := s in
    if negb (String.eqb (a_method a) "elapse") && negb (String.eqb (a_name a) "*") then Some ((st, tr), [])
    else
      match read_entity st (resolve root_addr clock_addr) (Some clock0) with
      | None => None
      | Some (st1, ck) =>
          match spent ck (a_pay a) with
          | None => None
          | Some ck' => Some ((dset st1 (resolve root_addr clock_addr) ck', tr), [])
          end
      end.

  (* ---------------------------------------------------------------- installed dispatchers *)
  Definition disp := Router.disp string action rst event.
  Definition mark (a : action) : action :=
    {| a_name := a_name a; a_method := a_method a; a_pay := a_pay a; a_addon := true |}.
  (* export_dispatcher().get_context_synced_dispatcher(router) *)
  Definition comp_disp (c : component) : disp :=
    Tandem (Prim (includes_b c) (call_comp c))
           (map (fun ad => Ctx (msig (c_name c) (ad_when ad)) (mark (ad_action ad))) (c_addons c)).
  Definition timer_disp : disp := Prim timer_includes timer_call.
  Inductive inst := IComp (c : component) | ITimer.
  Definition disp_of (i : inst) : disp := match i with IComp c => comp_disp c | ITimer => timer_disp end.
  Definition installed (sys : list inst) : list disp := map disp_of sys.
  (* kms.get_builder: the components in order, the timer last *)
  Definition shipped_system (cs : list component) : list inst := (map IComp cs ++ [ITimer])%list.

  Definition dispatch_c := Router.dispatch_c string action rst event String.eqb sig_of ev_is_reject.
  Definition dispatch_nc := Router.dispatch_nc string action rst event String.eqb sig_of ev_is_reject.

  (* statically: which addresses can one dispatch of signature `s` write (components that include it,
     transitively through their addons; the timer for "*.elapse") *)
  Definition inst_includes (i : inst) (s : string) : bool :=
    match i with IComp c => includes_b c s | ITimer => timer_includes s end.
  Fixpoint touched (fuel : nat) (sys : list inst) (s : string) : list string :=
    match fuel with
    | O => []
    | S n =>
        flat_map (fun i =>
          if inst_includes i s then
            match i with
            | ITimer => [resolve root_addr clock_addr]
            | IComp c =>
                (bound_addrs c ++
                 flat_map (fun ad => if String.eqb s (msig (c_name c) (ad_when ad))
                                     then touched n sys (sig_of (ad_action ad)) else []) (c_addons c))%list
            end
          else []) sys
    end.
  Definition all_bound (cs : list component) : list string := flat_map bound_addrs cs.
  Fixpoint comps_of (sys : list inst) : list component :=
    match sys with [] => [] | IComp c :: r => c :: comps_of r | ITimer :: r => comps_of r end.

  (* the direct (non-addon) invocation a component makes for an action *)
  Definition direct (a : action) (i : inst) : list invocation :=
    match i with
    | ITimer => []
    | IComp c =>
        match find_mapping c (sig_of a) with
        | FFound key =>
            match dget (c_maps c) key with
            | Some {| m_method := Some method; m_red := Some _ |} =>
                [{| i_comp := c_name c; i_key := key; i_method := method; i_pay := a_pay a; i_addon := a_addon a |}]
            | _ => []
            end
        | _ => []
        end
    end.
  Definition top_only (tr : list invocation) : list invocation := filter (fun i => negb (i_addon i)) tr.

  (* ---------------------------------------------------------------- _get_event_callbacks *)
  Definition emitted_cb (e : event) : action :=
    {| a_name := ev_name e; a_method := ev_method e ++ ".emitted." ++ str_or (ev_tag e) "";
       a_pay := ev_pay e; a_addon := false |}.
  Definition done_cb (e : event) : action :=
    {| a_name := ev_name e; a_method := ev_method e ++ ".done." ++ str_or (ev_tag e) "";
       a_pay := ev_pay e; a_addon := false |}.
  Definition event_callbacks (e : event) : action * action := (emitted_cb e, done_cb e).

  (* ---------------------------------------------------------------- play() over this router: Model/Play.v *)
  Variable pnone : Pay.                                        (* None *)
  Variable ptime : Z -> Pay.                                   (* a number *)
  Notation paction := (Play.action Pay string string (option string)).
  Notation pevent := (Play.event Pay string string (option string)).
  Definition act_of (a : paction) : action :=
    {| a_name := aname _ _ _ _ a;
       a_method := match am _ _ _ _ a with
                   | Direct _ _ m => m
                   | Emitted _ _ m t => m ++ ".emitted." ++ str_or t ""
                   | Done _ _ m t => m ++ ".done." ++ str_or t ""
                   end;
       a_pay := match ap _ _ _ _ a with PNone _ => pnone | PTime _ t => ptime t | PEvent _ p => p end;
       a_addon := false |}.
  Definition pev_of (e : event) : pevent :=
    {| ename := ev_name e; emeth := ev_method e; etag := ev_tag e; epay := ev_pay e |}.

  (* the router object as play() sees it: route cache, store, ghost trace, and a sticky flag that
     is cleared when a dispatch raised (play() does not catch: nothing after the raise happens) *)
  Record pst := { p_cache : Router.cache string; p_store : store; p_trace : list invocation; p_ok : bool }.
  Definition prouter (fuel : nat) (ds : list disp) (a : paction) (s : pst) : pst * list pevent :=
    if p_ok s then
      match dispatch_c fuel ds (p_cache s) (act_of a) (p_store s, p_trace s) with
      | (c', Some ((st', tr'), evs)) =>
          ({| p_cache := c'; p_store := st'; p_trace := tr'; p_ok := true |}, map pev_of evs)
      | (c', None) => ({| p_cache := c'; p_store := p_store s; p_trace := p_trace s; p_ok := false |}, [])
      end
    else (s, []).
  Definition pplay (fuel : nat) (ds : list disp) :=
    Play.play pst Pay string string (option string) (prouter fuel ds).
End Dispatch.

(* ------------------------------------------------------------------ boolean guards on a list of components
   (hypotheses of the C05/C06 theorems; evaluated by vm_compute on the components extracted from
   the tree under test, gen/DispatchData.v) *)
Section Guards.
  Variables Ent Pay : Type.
  Notation component := (component Ent Pay).
  Definition addr_unbound (a : string) (cs : list component) : bool :=
    forallb (fun c => negb (existsb (String.eqb a) (bound_addrs Ent Pay c))) cs.
  Definition clock_unbound (cs : list component) : bool := addr_unbound clock_addr cs.
  Definition addons_no_elapse (cs : list component) : bool :=
    forallb (fun c => forallb (fun ad => negb (String.eqb (sig_of Pay (ad_action Pay ad)) "*.elapse")) (c_addons Ent Pay c)) cs.
  Fixpoint distinctb (l : list string) : bool :=
    match l with [] => true | x :: r => negb (existsb (String.eqb x) r) && distinctb r end.
  Definition names_distinct (cs : list component) : bool := distinctb (map (c_name Ent Pay) cs).
  Definition keys_nonempty (cs : list component) : bool :=
    forallb (fun c => forallb (fun kv => negb (String.eqb (fst kv) "")) (c_maps Ent Pay c)) cs.
End Guards.

Arguments ev_name {Pay}. Arguments ev_pay {Pay}. Arguments ev_method {Pay}. Arguments ev_tag {Pay}.
Arguments ev_handler {Pay}. Arguments Build_event {Pay}.
Arguments a_name {Pay}. Arguments a_method {Pay}. Arguments a_pay {Pay}. Arguments a_addon {Pay}.
Arguments Build_action {Pay}.
Arguments sig_of {Pay}. Arguments ev_is_reject {Pay}.
Arguments RNone {Pay}. Arguments ROne {Pay}. Arguments RList {Pay}.
Arguments m_method {Ent Pay}. Arguments m_red {Ent Pay}. Arguments Build_mapping {Ent Pay}.
Arguments ad_when {Pay}. Arguments ad_action {Pay}. Arguments Build_addon {Pay}.
Arguments c_name {Ent Pay}. Arguments c_maps {Ent Pay}. Arguments c_default {Ent Pay}.
Arguments c_binds {Ent Pay}. Arguments c_addons {Ent Pay}. Arguments Build_component {Ent Pay}.
Arguments i_comp {Pay}. Arguments i_key {Pay}. Arguments i_method {Pay}. Arguments i_pay {Pay}.
Arguments i_addon {Pay}. Arguments Build_invocation {Pay}.
Arguments IComp {Ent Pay}. Arguments ITimer {Ent Pay}.
Arguments p_cache {Ent Pay}. Arguments p_store {Ent Pay}. Arguments p_trace {Ent Pay}. Arguments p_ok {Ent Pay}.
Arguments Build_pst {Ent Pay}.
