(* Executable model of simaple/simulate/component: entities (Model/E*.v), the traits of
   trait/impl.py and the stateful classes of component/common/*.py.

   Conventions (DESIGN section 3): times are Z ticks; damage/hit numbers are opaque Z codes
   (they are only copied); every value the Python code obtains from the Dynamics entity by a
   multiplication (calculate_cooldown(cooldown_duration), calculate_buff_duration(...)) is a
   PARAMETER of the component, computed by Python and passed in ("applied" values);
   reducers never change the Dynamics entity.  Inputs the real code rejects with an exception
   (Periodic.set_time_left with a non-positive time) are outside the model.

   One universal state record serves every class: a class only touches its own slots. *)
From Coq Require Import ZArith List Bool.
From V.Model Require EPeriodic EConsumable EKeydown EDot.
Import ListNotations.
Open Scope Z_scope.

Module P := EPeriodic. Module C := EConsumable. Module K := EKeydown. Module D := EDot.

Record ust := mkU {
  u_cd  : Z;                 (* cooldown.time_left *)
  u_cd2 : Z;                 (* reforged_cooldown / trigger_cooldown .time_left *)
  u_ltl : Z; u_lad : Z;      (* lasting.time_left, lasting.assigned_duration *)
  u_cons : C.C;
  u_p1 : P.P; u_p2 : P.P; u_p3 : P.P;
  u_ic1 : option Z; u_ic2 : option Z; u_ic3 : option Z;   (* Periodic.initial_counter *)
  u_kd : K.K;
  u_stk : Z                  (* stack.stack *)
}.

Definition dh := (Z * Z)%type.      (* damage code, hit code *)

Record par := mkPar {
  p_disable : bool;          (* disable_validity *)
  p_dmg : dh;                (* damage, hit *)
  p_delay : Z;
  p_cdA : Z;                 (* calculate_cooldown(cooldown_duration) for the state's dynamics *)
  p_cdB : Z;                 (* applied second cooldown (reforge: calculate_cooldown; trigger: raw) *)
  p_last : Z;                (* lasting duration as applied (buff duration already multiplied in) *)
  p_lastraw : Z;             (* lasting_duration field (reported by some running views) *)
  p_multiple : nat;
  p_hits : list dh;          (* damage_and_hits *)
  p_pd1 : dh; p_pd2 : dh; p_pd3 : dh;   (* periodic damage/hit *)
  p_fin : dh; p_findelay : Z;           (* finish damage/hit, keydown_end_delay *)
  p_dmg2 : dh;               (* reforged / trigger damage *)
  p_maxkd : Z; p_prep : Z;
  p_maxcount : Z;
  p_maxstack : Z;
  p_dot : Z * Z              (* dot damage code, dot lasting *)
}.

Inductive ev :=
| EReject | EDealt (d h : Z) | EDelay (t : Z) | EElapsed (t : Z) | EKeydownEnd | EMobDot (d l : Z).

Definition is_reject (e : ev) : bool := match e with EReject => true | _ => false end.
Definition is_dealt (e : ev) : bool := match e with EDealt _ _ => true | _ => false end.
Definition rejected (es : list ev) : bool := existsb is_reject es.
Definition dealt (x : dh) : ev := EDealt (fst x) (snd x).

(* ---- field updates *)
Definition set_cd (s : ust) v := mkU v (u_cd2 s) (u_ltl s) (u_lad s) (u_cons s) (u_p1 s) (u_p2 s) (u_p3 s) (u_ic1 s) (u_ic2 s) (u_ic3 s) (u_kd s) (u_stk s).
Definition set_cd2 (s : ust) v := mkU (u_cd s) v (u_ltl s) (u_lad s) (u_cons s) (u_p1 s) (u_p2 s) (u_p3 s) (u_ic1 s) (u_ic2 s) (u_ic3 s) (u_kd s) (u_stk s).
Definition set_las (s : ust) tl ad := mkU (u_cd s) (u_cd2 s) tl ad (u_cons s) (u_p1 s) (u_p2 s) (u_p3 s) (u_ic1 s) (u_ic2 s) (u_ic3 s) (u_kd s) (u_stk s).
Definition set_cons (s : ust) v := mkU (u_cd s) (u_cd2 s) (u_ltl s) (u_lad s) v (u_p1 s) (u_p2 s) (u_p3 s) (u_ic1 s) (u_ic2 s) (u_ic3 s) (u_kd s) (u_stk s).
Definition set_p1 (s : ust) v := mkU (u_cd s) (u_cd2 s) (u_ltl s) (u_lad s) (u_cons s) v (u_p2 s) (u_p3 s) (u_ic1 s) (u_ic2 s) (u_ic3 s) (u_kd s) (u_stk s).
Definition set_p2 (s : ust) v := mkU (u_cd s) (u_cd2 s) (u_ltl s) (u_lad s) (u_cons s) (u_p1 s) v (u_p3 s) (u_ic1 s) (u_ic2 s) (u_ic3 s) (u_kd s) (u_stk s).
Definition set_p3 (s : ust) v := mkU (u_cd s) (u_cd2 s) (u_ltl s) (u_lad s) (u_cons s) (u_p1 s) (u_p2 s) v (u_ic1 s) (u_ic2 s) (u_ic3 s) (u_kd s) (u_stk s).
Definition set_kd (s : ust) v := mkU (u_cd s) (u_cd2 s) (u_ltl s) (u_lad s) (u_cons s) (u_p1 s) (u_p2 s) (u_p3 s) (u_ic1 s) (u_ic2 s) (u_ic3 s) v (u_stk s).
Definition set_stk (s : ust) v := mkU (u_cd s) (u_cd2 s) (u_ltl s) (u_lad s) (u_cons s) (u_p1 s) (u_p2 s) (u_p3 s) (u_ic1 s) (u_ic2 s) (u_ic3 s) (u_kd s) v.

(* Cooldown.available: time_left <= 0 ; Lasting.enabled: time_left > 0 *)
Definition avail (s : ust) : bool := u_cd s <=? 0.
Definition avail2 (s : ust) : bool := u_cd2 s <=? 0.
Definition las_on (s : ust) : bool := 0 <? u_ltl s.

Definition res := (ust * list ev)%type.

(* =============================== traits (trait/impl.py) =============================== *)
(* UseSimpleAttackTrait *)
Definition use_simple_attack (p : par) (s : ust) : res :=
  if negb (avail s) then (s, [EReject])
  else (set_cd s (p_cdA p), [dealt (p_dmg p); EDelay (p_delay p)]).
Definition elapse_simple_attack (t : Z) (s : ust) : res :=
  (set_cd s (u_cd s - t), [EElapsed t]).
Definition use_multiple_damage (p : par) (s : ust) : res :=
  if negb (avail s) then (s, [EReject])
  else (set_cd s (p_cdA p), repeat (dealt (p_dmg p)) (p_multiple p) ++ [EDelay (p_delay p)]).

(* BuffTrait *)
Definition use_buff_trait (p : par) (s : ust) : res :=
  if negb (avail s) then (s, [EReject])
  else (set_las (set_cd s (p_cdA p)) (p_last p) (p_last p), [EDelay (p_delay p)]).
Definition elapse_buff_trait (t : Z) (s : ust) : res :=
  (set_las (set_cd s (u_cd s - t)) (u_ltl s - t) (u_lad s), [EElapsed t]).

(* ConsumableBuffTrait *)
Definition use_consumable_buff_trait (p : par) (s : ust) : res :=
  if negb (C.available (u_cons s)) then (s, [EReject])
  else (set_las (set_cons s (C.consume (u_cons s))) (p_last p) (p_last p), [EDelay (p_delay p)]).
Definition elapse_consumable_buff_trait (t : Z) (s : ust) : res :=
  (set_las (set_cons s (C.elapse (u_cons s) t)) (u_ltl s - t) (u_lad s), [EElapsed t]).

(* PeriodicElapseTrait; the tick count is count after - count before.
   The executable periodic elapse is partial in its fuel: None never stands for a value. *)
Definition ticks (before after : P.P) : nat := Z.to_nat (P.cnt after - P.cnt before).
Definition elapse_periodic_with (pe : P.P -> Z -> P.P) (p : par) (t : Z) (s : ust) : res :=
  let q := pe (u_p1 s) t in
  (set_p1 (set_cd s (u_cd s - t)) q, EElapsed t :: repeat (dealt (p_pd1 p)) (ticks (u_p1 s) q)).

(* PeriodicWithSimpleDamageTrait.use / UsePeriodicDamageTrait.use *)
Definition use_periodic_with_simple (p : par) (s : ust) : res :=
  if negb (avail s) then (s, [EReject])
  else (set_p1 (set_cd s (p_cdA p)) (P.set_time_left (u_p1 s) (u_ic1 s) (p_last p)),
        [dealt (p_dmg p); EDelay (p_delay p)]).
Definition use_periodic (p : par) (s : ust) : res :=
  if negb (avail s) then (s, [EReject])
  else (set_p1 (set_cd s (p_cdA p)) (P.set_time_left (u_p1 s) (u_ic1 s) (p_last p)),
        [EDelay (p_delay p)]).

(* KeydownSkillTrait *)
Definition use_keydown_trait (p : par) (s : ust) : res :=
  if negb (avail s) || K.running (u_kd s) then (s, [EReject])
  else (set_kd (set_cd s (p_cdA p)) (K.start (u_kd s) (p_maxkd p) (p_prep p)), [EDelay (p_prep p)]).
Definition elapse_keydown_trait (p : par) (t : Z) (s : ust) : res :=
  let was := K.running (u_kd s) in
  let '(k', n) := K.resolving (u_kd s) t in
  let ended := was && negb (K.running k') in
  let hits := repeat (dealt (p_dmg p)) (Z.to_nat n) ++ (if ended then [dealt (p_fin p)] else []) in
  let delay := if ended then Z.max (p_findelay p + K.tl k') 0 else K.next_delay k' in
  (set_kd (set_cd s (u_cd s - t)) k',
   hits ++ [EDelay delay; EElapsed t] ++ (if ended then [EKeydownEnd] else [])).
Definition stop_keydown_trait (p : par) (s : ust) : res :=
  if negb (K.running (u_kd s)) then (s, [EReject])
  else (set_kd s (K.stop (u_kd s)), [dealt (p_fin p); EDelay (p_findelay p); EKeydownEnd]).

Definition ignore_rejected (r : res) : res := (fst r, filter (fun e => negb (is_reject e)) (snd r)).

(* =============================== components (common/*.py) =============================== *)
Inductive comp :=
| AttackSkill | BuffSkill | ConsumableBuffSkill | DOTEmittingAttackSkill | HitLimitedPeriodic
| KeydownSkill | MultipleAttackSkill | MultipleHitHexa | PeriodicAttack | PeriodicHexa
| PeriodicWithFinish | StackableBuff | Synergy | TemporalEnhancing | TriggableBuff | TriplePeriodic.

Inductive meth := MUse | MElapse | MUseIgnoreReject | MResetCooldown | MStop | MTrigger.

(* HitLimitedPeriodicDamageComponent.elapse: the resolve loop with the max_count break *)
Fixpoint hit_limited_loop (fuel : nat) (mx : Z) (q : P.P) (t prev : Z) (acc : nat) : option (P.P * nat) :=
  if t <=? 0 then Some (q, acc) else
  match fuel with
  | O => None
  | S f => let '(q', t') := P.step q t in
           if mx <=? P.cnt q' then Some (q', acc)
           else if prev <? P.cnt q' then hit_limited_loop f mx q' t' (P.cnt q') (S acc)
           else hit_limited_loop f mx q' t' prev acc
  end.
Definition hit_limited_elapse (p : par) (t : Z) (s : ust) : option res :=
  match hit_limited_loop (P.exec_fuel (u_p1 s) t) (p_maxcount p) (u_p1 s) t (P.cnt (u_p1 s)) O with
  | None => None
  | Some (q, n) =>
      let q' := if p_maxcount p <=? P.cnt q then P.disable q else q in
      Some (set_p1 (set_cd s (u_cd s - t)) q', EElapsed t :: repeat (dealt (p_pd1 p)) n)
  end.

Definition triple_elapse (pe : P.P -> Z -> P.P) (p : par) (t : Z) (s : ust) : res :=
  let q1 := pe (u_p1 s) t in let q2 := pe (u_p2 s) t in let q3 := pe (u_p3 s) t in
  (set_p3 (set_p2 (set_p1 (set_cd s (u_cd s - t)) q1) q2) q3,
   EElapsed t :: repeat (dealt (p_pd1 p)) (ticks (u_p1 s) q1)
              ++ repeat (dealt (p_pd2 p)) (ticks (u_p2 s) q2)
              ++ repeat (dealt (p_pd3 p)) (ticks (u_p3 s) q3)).

(* `reduce pe hl c m p t s`: pe = the Periodic.elapse to use (specification version in the
   theorems, executable version in correspondence runs), hl likewise for the hit-limited loop.
   None = this class has no such reducer. *)
Definition reduce (pe : P.P -> Z -> P.P) (hl : par -> Z -> ust -> res)
                  (c : comp) (m : meth) (p : par) (t : Z) (s : ust) : option res :=
  match c, m with
  | AttackSkill, MUse => Some (use_simple_attack p s)
  | AttackSkill, MElapse => Some (elapse_simple_attack t s)
  | AttackSkill, MUseIgnoreReject => Some (ignore_rejected (use_simple_attack p s))
  | AttackSkill, MResetCooldown => Some (set_cd s 0, [])
  | BuffSkill, MUse => Some (use_buff_trait p s)
  | BuffSkill, MElapse => Some (elapse_buff_trait t s)
  | ConsumableBuffSkill, MUse => Some (use_consumable_buff_trait p s)
  | ConsumableBuffSkill, MElapse => Some (elapse_consumable_buff_trait t s)
  | DOTEmittingAttackSkill, MUse =>
      let r := use_simple_attack p s in
      Some (if rejected (snd r) then r else (fst r, snd r ++ [EMobDot (fst (p_dot p)) (snd (p_dot p))]))
  | DOTEmittingAttackSkill, MElapse => Some (elapse_simple_attack t s)
  | DOTEmittingAttackSkill, MResetCooldown => Some (set_cd s 0, [])
  | HitLimitedPeriodic, MUse => Some (use_periodic p s)
  | HitLimitedPeriodic, MElapse => Some (hl p t s)
  | KeydownSkill, MUse => Some (use_keydown_trait p s)
  | KeydownSkill, MElapse => Some (elapse_keydown_trait p t s)
  | KeydownSkill, MStop => Some (stop_keydown_trait p s)
  | MultipleAttackSkill, MUse => Some (use_multiple_damage p s)
  | MultipleAttackSkill, MElapse => Some (elapse_simple_attack t s)
  | MultipleAttackSkill, MResetCooldown => Some (set_cd s 0, [])
  | MultipleHitHexa, MUse =>
      Some (if negb (avail s) then (s, [EReject])
            else (set_cd s (p_cdA p), map dealt (p_hits p) ++ [EDelay (p_delay p)]))
  | MultipleHitHexa, MElapse => Some (elapse_simple_attack t s)
  | PeriodicAttack, MUse => Some (use_periodic_with_simple p s)
  | PeriodicAttack, MElapse => Some (elapse_periodic_with pe p t s)
  | PeriodicHexa, MUse =>
      Some (if negb (avail s) then (s, [EReject])
            else (set_p1 (set_cd s (p_cdA p)) (P.set_time_left (u_p1 s) (u_ic1 s) (p_last p)),
                  map dealt (p_hits p) ++ [EDelay (p_delay p)]))
  | PeriodicHexa, MElapse => Some (elapse_periodic_with pe p t s)
  | PeriodicWithFinish, MUse => Some (use_periodic p s)
  | PeriodicWithFinish, MElapse =>
      let r := elapse_periodic_with pe p t s in
      Some (if P.enabled (u_p1 s) && negb (P.enabled (u_p1 (fst r)))
            then (fst r, snd r ++ [dealt (p_fin p)]) else r)
  | StackableBuff, MUse =>
      (* the stack is bumped BEFORE the availability test (as coded) *)
      let s0 := if u_ltl s <=? 0 then set_stk s 0 else s in
      let s1 := set_stk s0 (Z.min (p_maxstack p) (u_stk s0 + 1)) in
      Some (use_buff_trait p s1)
  | StackableBuff, MElapse => Some (elapse_buff_trait t s)
  | Synergy, MUse =>
      Some (if negb (avail s) then (s, [EReject])
            else (set_las (set_cd s (p_cdA p)) (p_last p) (p_last p), [dealt (p_dmg p); EDelay (p_delay p)]))
  | Synergy, MElapse => Some (elapse_buff_trait t s)
  | TemporalEnhancing, MUse =>
      Some (if negb (avail s) then (s, [EReject])
            else let s1 := set_cd s (p_cdA p) in
                 if avail2 s1
                 then (set_cd2 s1 (p_cdB p), repeat (dealt (p_dmg2 p)) (p_multiple p) ++ [EDelay (p_delay p)])
                 else (s1, [dealt (p_dmg p); EDelay (p_delay p)]))
  | TemporalEnhancing, MElapse => Some (set_cd2 (set_cd s (u_cd s - t)) (u_cd2 s - t), [EElapsed t])
  | TriggableBuff, MUse => Some (use_buff_trait p s)
  | TriggableBuff, MElapse =>
      Some (set_cd2 (set_las (set_cd s (u_cd s - t)) (u_ltl s - t) (u_lad s)) (u_cd2 s - t), [EElapsed t])
  | TriggableBuff, MTrigger =>
      Some (if negb (las_on s && avail2 s) then (s, [])
            else (set_cd2 s (p_cdB p), [dealt (p_dmg2 p)]))
  | TriplePeriodic, MUse =>
      Some (if negb (avail s) then (s, [EReject])
            else (set_p3 (set_p2 (set_p1 (set_cd s (p_cdA p))
                     (P.set_time_left (u_p1 s) (u_ic1 s) (p_last p)))
                     (P.set_time_left (u_p2 s) (u_ic2 s) (p_last p)))
                     (P.set_time_left (u_p3 s) (u_ic3 s) (p_last p)),
                  map dealt (p_hits p) ++ [EDelay (p_delay p)]))
  | TriplePeriodic, MElapse => Some (triple_elapse pe p t s)
  | _, _ => None
  end.

(* specification instance (total; used by the theorems) *)
Definition hl_spec (p : par) (t : Z) (s : ust) : res :=
  match hit_limited_loop (P.fuel_of t) (p_maxcount p) (u_p1 s) t (P.cnt (u_p1 s)) O with
  | Some (q, n) =>
      let q' := if p_maxcount p <=? P.cnt q then P.disable q else q in
      (set_p1 (set_cd s (u_cd s - t)) q', EElapsed t :: repeat (dealt (p_pd1 p)) n)
  | None => (s, [])
  end.
Definition reduce_spec := reduce P.elapse hl_spec.

(* executable instance: every fuelled loop may answer None (fuel exhausted) *)
Definition pe_exec_ok (s : ust) (t : Z) : bool :=
  match P.elapse_exec (u_p1 s) t, P.elapse_exec (u_p2 s) t, P.elapse_exec (u_p3 s) t with
  | Some _, Some _, Some _ => true | _, _, _ => false end.
Definition pe_exec (q : P.P) (t : Z) : P.P := match P.elapse_exec q t with Some r => r | None => q end.
Definition reduce_exec (c : comp) (m : meth) (p : par) (t : Z) (s : ust) : option res :=
  if negb (pe_exec_ok s t) then None else
  match c, m with
  | HitLimitedPeriodic, MElapse => hit_limited_elapse p t s
  | _, _ => reduce pe_exec (fun _ _ s => (s, [])) c m p t s
  end.

(* =============================== views =============================== *)
Record validity := mkV { v_valid : bool; v_time_left : Z; v_stack : option Z }.
Record running := mkR { r_time_left : Z; r_duration : Z; r_stack : option Z }.

Definition cd_validity (p : par) (invalidatable : bool) (s : ust) : validity :=
  mkV (if invalidatable && p_disable p then false else avail s) (Z.max 0 (u_cd s)) None.

Definition view_validity (c : comp) (p : par) (s : ust) : validity :=
  match c with
  | ConsumableBuffSkill =>
      mkV (C.available (u_cons s)) (Z.max 0 (C.tl (u_cons s))) (Some (C.stack (u_cons s)))
  | KeydownSkill =>   (* validity_in_keydown_trait: off cooldown and not already running *)
      mkV (avail s && negb (K.running (u_kd s))) (Z.max 0 (u_cd s)) None
  | HitLimitedPeriodic | PeriodicWithFinish => cd_validity p false s
  | _ => cd_validity p true s
  end.

Definition view_running (c : comp) (p : par) (s : ust) : option running :=
  match c with
  | BuffSkill | Synergy | TriggableBuff => Some (mkR (u_ltl s) (u_lad s) None)
  | ConsumableBuffSkill => Some (mkR (u_ltl s) (p_lastraw p) None)
  | StackableBuff => Some (mkR (u_ltl s) (u_lad s) (Some (if 0 <? u_ltl s then u_stk s else 0)))
  | PeriodicAttack | PeriodicHexa | PeriodicWithFinish | TriplePeriodic =>
      Some (mkR (P.tl (u_p1 s)) (p_lastraw p) None)
  | _ => None
  end.

(* buff view: None = no buff view / returns None; Some n = the configured stat stacked n times
   (Synergy returns the empty block when off: Some 0) *)
Definition view_buff (c : comp) (s : ust) : option Z :=
  match c with
  | BuffSkill | ConsumableBuffSkill | TriggableBuff => if las_on s then Some 1 else None
  | StackableBuff => if las_on s then Some (u_stk s) else None
  | Synergy => if las_on s then Some 1 else Some 0
  | TriplePeriodic => Some 1
  | _ => None
  end.

Definition view_keydown (c : comp) (s : ust) : option (bool * Z) :=
  match c with KeydownSkill => Some (K.running (u_kd s), K.tl (u_kd s)) | _ => None end.

(* =============================== the mob's DOT tracker (common/mob.py) =============================== *)
Definition mob_add_dot (s : D.D) (n : N) (dm l : Z) : D.D := D.new s n dm l.
(* emits: dict (name, damage) -> count, in first-occurrence order *)
Fixpoint bump (k : D.ev) (acc : list (D.ev * Z)) : list (D.ev * Z) :=
  match acc with
  | [] => [(k, 1)]
  | (k', n) :: r => if (N.eqb (fst k) (fst k') && (snd k =? snd k')) then (k', n + 1) :: r else (k', n) :: bump k r
  end.
Definition aggregate (es : list D.ev) : list (D.ev * Z) := fold_left (fun acc k => bump k acc) es [].
Definition mob_elapse_exec (s : D.D) (t : Z) : option (D.D * list (D.ev * Z)) :=
  match D.elapse_exec s t with Some (s', es) => Some (s', aggregate es) | None => None end.
