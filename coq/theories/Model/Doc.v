(* Nested specification documents, DFSTraversePatch._apply as coded NOW (simaple/spec/patch.py, with the
   patch_key hook of commit e5276b7), the property's reading of it, and Spec.interpret.  DEFINITIONS ONLY.

   Python                                         model
   ------                                         -----
   int / float / bool scalar                      LNum q          (compared by value: 1 == 1.0 == True)
   str that does not match  ^\s*{{(.+)}}\s*$      LStr id None    (id = the text, interned by the harness)
   str that matches it                            LStr id (Some ts)   ts = the tokens of group(1)
   list                                           DList           dict  DDict (insertion-ordered association list)
   an exception anywhere (ZeroDivisionError, undefined variable, syntax error,
   "exclude" that is not a list)                  None

   def _apply(self, raw, origin):
       if isinstance(raw, list):  return [self._apply(arg, origin) for arg in raw]
       if isinstance(raw, (int, float, str)):
           patch = self.patch_value(raw, origin);  return raw if patch is None else patch      # = ev raw
       interpreted = {}
       excluded_keys = raw.get("exclude", []) + ["exclude"]
       for k, v in raw.items():
           if k in excluded_keys:  continue
           if isinstance(v, (dict, list)):  interpreted[self.patch_key(k, origin)] = self._apply(v, origin)   # hook evk
           else:  interpreted.update(self.patch_dict(k, v, origin))                            # {ev k: ev v}
       return interpreted
   The model is generic in the two hooks: `ev` (patch_value, and both components of patch_dict) and `evk` (patch_key:
   the identity for every DFSTraversePatch except ArithmeticPatch, which evaluates the key).
   YAML null is outside the model (a null list element makes _apply raise AttributeError). *)
From Coq Require Import QArith List Bool ZArith NArith String.
From V.Model Require Import Expr ExprParse.
Import ListNotations.

Section Doc.
  Variable Leaf : Type.
  Variable leaf_eqb : Leaf -> Leaf -> bool.        (* Python == on hashable scalars *)
  Variable ev : Leaf -> option Leaf.               (* patch_value / the two halves of patch_dict *)
  Variable evk : Leaf -> option Leaf.              (* patch_key: key of an entry whose value is a dict or a list *)
  Variable exclude_key : Leaf.                     (* the string "exclude" *)

  Inductive doc := DLeaf (l : Leaf) | DList (ds : list doc) | DDict (kvs : list (Leaf * doc)).

  Definition is_container (d : doc) : bool := match d with DLeaf _ => false | _ => true end.
  Fixpoint lookup (k : Leaf) (kvs : list (Leaf * doc)) : option doc :=
    match kvs with [] => None | (k', v) :: r => if leaf_eqb k' k then Some v else lookup k r end.
  (* d[k] = v on an insertion-ordered dict: an existing key keeps its place (and its key object) *)
  Fixpoint set (kvs : list (Leaf * doc)) (k : Leaf) (v : doc) : list (Leaf * doc) :=
    match kvs with
    | [] => [(k, v)]
    | (k', v') :: r => if leaf_eqb k' k then (k', v) :: r else (k', v') :: set r k v
    end.
  Definition mem (k : Leaf) (l : list Leaf) : bool := existsb (leaf_eqb k) l.
  (* raw.get("exclude", []) + ["exclude"]: a list value (containers in it never equal a key), no value, or TypeError *)
  Definition excluded (kvs : list (Leaf * doc)) : option (list Leaf) :=
    match lookup exclude_key kvs with
    | None => Some [exclude_key]
    | Some (DList ds) => Some (flat_map (fun d => match d with DLeaf l => [l] | _ => [] end) ds ++ [exclude_key])
    | Some _ => None
    end.

  (* ---- the code *)
  Fixpoint apply (d : doc) : option doc :=
    match d with
    | DLeaf l => match ev l with Some l' => Some (DLeaf l') | None => None end
    | DList ds =>
        match (fix go (l : list doc) : option (list doc) :=
                 match l with
                 | [] => Some []
                 | x :: r => match apply x with
                             | Some x' => match go r with Some r' => Some (x' :: r') | None => None end
                             | None => None
                             end
                 end) ds with
        | Some ds' => Some (DList ds') | None => None end
    | DDict kvs =>
        match excluded kvs with
        | None => None
        | Some ex =>
            match (fix go (l : list (Leaf * doc)) (acc : list (Leaf * doc)) : option (list (Leaf * doc)) :=
                     match l with
                     | [] => Some acc
                     | (k, v) :: r =>
                         if mem k ex then go r acc else
                         match v with
                         | DLeaf x => match ev k, ev x with
                                      | Some k', Some x' => go r (set acc k' (DLeaf x'))
                                      | _, _ => None
                                      end
                         | _ => match evk k, apply v with
                                | Some k', Some v' => go r (set acc k' v')
                                | _, _ => None
                                end
                         end
                     end) kvs [] with
            | Some acc => Some (DDict acc) | None => None end
        end
    end.

  (* ---- specifications: "map over the entries that are not excluded, then build the dict".
     keyc = what happens to the key of a dict-/list-valued entry; mk = how the result dict is built from the mapped
     entries: dict_of (Python dict semantics: a later equal key overwrites the value of the earlier one, which keeps
     its place) or the identity (plain map). *)
  Definition dict_of (l : list (Leaf * doc)) : list (Leaf * doc) :=
    fold_left (fun acc kv => set acc (fst kv) (snd kv)) l [].

  Fixpoint reading (keyc : Leaf -> option Leaf) (mk : list (Leaf * doc) -> list (Leaf * doc)) (d : doc) : option doc :=
    match d with
    | DLeaf l => match ev l with Some l' => Some (DLeaf l') | None => None end
    | DList ds =>
        match (fix go (l : list doc) : option (list doc) :=
                 match l with
                 | [] => Some []
                 | x :: r => match reading keyc mk x with
                             | Some x' => match go r with Some r' => Some (x' :: r') | None => None end
                             | None => None
                             end
                 end) ds with
        | Some ds' => Some (DList ds') | None => None end
    | DDict kvs =>
        match excluded kvs with
        | None => None
        | Some ex =>
            match (fix go (l : list (Leaf * doc)) : option (list (Leaf * doc)) :=
                     match l with
                     | [] => Some []
                     | (k, v) :: r =>
                         if mem k ex then go r else
                         match (if is_container v then keyc k else ev k), reading keyc mk v with
                         | Some k', Some v' => match go r with Some r' => Some ((k', v') :: r') | None => None end
                         | _, _ => None
                         end
                     end) kvs with
            | Some es => Some (DDict (mk es)) | None => None end
        end
    end.
  (* the property's statement: EVERY key, value and list element is interpreted (keyc = ev) *)
  Definition ideal := reading ev dict_of.
  (* the same as a plain map, no dict building: what "replaced" means when no two interpreted keys coincide *)
  Definition plain := reading ev (fun es => es).
  (* what _apply computes for an arbitrary patch_key hook *)
  Definition hooked := reading evk dict_of.

  (* pairwise different keys (by Python equality) in one dict / in every dict of a document *)
  Fixpoint distinct_keys (l : list (Leaf * doc)) : bool :=
    match l with [] => true | (k, _) :: r => negb (existsb (fun kv => leaf_eqb k (fst kv)) r) && distinct_keys r end.
  Fixpoint distinct_all (d : doc) : bool :=
    match d with
    | DLeaf _ => true
    | DList ds => forallb distinct_all ds
    | DDict kvs => distinct_keys kvs && forallb (fun kv => distinct_all (snd kv)) kvs
    end.

  (* ---- Spec.interpret:  data = self.data.copy();  for patch in patches: data = patch.apply(data);  return data
     The stored document is a value of an immutable type here, so "copy" is the identity and the store cannot be
     altered by construction; that interpretation does not MUTATE the stored Python objects is what the
     correspondence harness checks (deep dump of the repository before / after, interpreting twice). *)
  Definition patch := doc -> option doc.
  Definition interpret (ps : list patch) (stored : doc) : option doc :=
    fold_left (fun acc p => match acc with Some d => p d | None => None end) ps (Some stored).
  Definition store := list doc.
  Definition interpret_in (s : store) (i : nat) (ps : list patch) : store * option doc :=
    (s, match nth_error s i with Some d => interpret ps d | None => None end).
End Doc.

Arguments DLeaf {Leaf}. Arguments DList {Leaf}. Arguments DDict {Leaf}.

(* ------------------------------------------------------------------------------------------------ the instance *)
Inductive leaf := LNum (q : Q) | LStr (id : N) (e : option (list tok)).

Definition leaf_eqb (a b : leaf) : bool :=
  match a, b with
  | LNum x, LNum y => Qeq_bool x y
  | LStr i _, LStr j _ => N.eqb i j
  | _, _ => false
  end.
Definition exclude_id : N := 0%N.                      (* the harness interns "exclude" as 0 *)
Definition exclude_key : leaf := LStr exclude_id None.

(* ArithmeticPatch.evaluate with variables r *)
Definition ev (r : env) (l : leaf) : option leaf :=
  match l with
  | LStr _ (Some ts) => match evalp r ts with Some q => Some (LNum q) | None => None end
  | _ => Some l
  end.

Definition sdoc := doc leaf.
(* ArithmeticPatch: patch_value = patch_key = evaluate, patch_dict = {evaluate k: evaluate v} *)
Definition arith_apply (r : env) : sdoc -> option sdoc := apply leaf leaf_eqb (ev r) (ev r) exclude_key.
Definition arith_ideal (r : env) : sdoc -> option sdoc := ideal leaf leaf_eqb (ev r) exclude_key.
Definition arith_plain (r : env) : sdoc -> option sdoc := plain leaf leaf_eqb (ev r) exclude_key.
