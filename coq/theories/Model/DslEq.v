(* Boolean equality on tokens and commands; used only by correspondence shards (never by a theorem). *)
From Coq Require Import List NArith ZArith Bool.
Import ListNotations.
From V.Model Require Import Dsl.

Fixpoint list_eqb {A} (e : A -> A -> bool) (a b : list A) : bool :=
  match a, b with
  | [], [] => true
  | x :: a', y :: b' => e x y && list_eqb e a' b'
  | _, _ => false
  end.
Definition opt_eqb {A} (e : A -> A -> bool) (a b : option A) : bool :=
  match a, b with Some x, Some y => e x y | None, None => true | _, _ => false end.
Definition text_eqb : text -> text -> bool := list_eqb N.eqb.

Definition tok_eqb (a b : tok) : bool :=
  match a, b with
  | TW x, TW y => text_eqb x y
  | TS x, TS y => text_eqb x y
  | TN x, TN y => Z.eqb x y
  | TX x, TX y => Z.eqb x y
  | THeader x, THeader y => text_eqb x y
  | TDebug, TDebug | TNL, TNL | TSp, TSp | TTab, TTab | TCom, TCom | TBad, TBad => true
  | _, _ => false
  end.
Definition toks_eqb := list_eqb tok_eqb.

Definition op_eqb (a b : op) : bool :=
  match a, b with
  | Full c n t, Full c' n' t' => text_eqb c c' && text_eqb n n' && Z.eqb t t'
  | TimeOp c t, TimeOp c' t' => text_eqb c c' && Z.eqb t t'
  | SkillOp c n, SkillOp c' n' => text_eqb c c' && text_eqb n n'
  | _, _ => false
  end.
Definition cmd_eqb (a b : cmd) : bool :=
  match a, b with
  | Op x, Op y => op_eqb x y
  | Console x, Console y => text_eqb x y
  | _, _ => false
  end.
Definition cmds_eqb := list_eqb cmd_eqb.
Definition ocmds_eqb := opt_eqb cmds_eqb.
Definition osim_eqb : option (option text * list cmd) -> option (option text * list cmd) -> bool :=
  opt_eqb (fun a b => opt_eqb text_eqb (fst a) (fst b) && cmds_eqb (snd a) (snd b)).
