(* C17 -- blueprint composition over abstract stat blocks.  Executable definitions only.
   S is any type of stat blocks with an addition `add` and a neutral block `zero` (the theorems
   quantify over every such structure satisfying the commutative-monoid laws up to an
   equivalence; Proofs/SfBlueprintProofs.v instantiates it with the generated 27-field Stat).
   Every improvement object (spell trace, scroll, bonus, exceptional part) stands for the block
   its calculate_improvement(meta) returns; star force is the oracle sf : S -> option S applied
   to the reference stat (None = it raised). *)
From Coq Require Import List.
Import ListNotations.

(* Python: sum(list, Stat())  =  ((zero + x1) + x2) + ... *)
Definition msum {S : Type} (add : S -> S -> S) (zero : S) (l : list S) : S := fold_left add l zero.

Definition opt_list {S : Type} (o : option S) : list S := match o with Some e => [e] | None => [] end.

(* the stat the star-force call must see: base + spell traces + scrolls *)
Definition scrolled {S : Type} (add : S -> S -> S) (zero : S) (base : S) (traces scrolls : list S) : S :=
  add base (add (msum add zero traces) (msum add zero scrolls)).

(* SPECIFICATION of a built gear's stat (the property text): every part exactly once,
   star force computed on the scrolled stat. *)
Definition spec_build {S : Type} (add : S -> S -> S) (zero : S) (sf : S -> option S)
    (base : S) (traces scrolls bonuses : list S) (exc : option S) : option S :=
  match sf (scrolled add zero base traces scrolls) with
  | None => None
  | Some s => Some (msum add zero (base :: traces ++ scrolls ++ s :: bonuses ++ opt_list exc))
  end.
