(* C19 -- clone() of an optimizer target, as data (definitions only).

   tools/tr_fields.py reads every DiscreteTarget subclass of simaple/optimizer/*.py and emits one
   target_desc per class (gen/CloneFields.v).  An object is a map attribute -> value; the
   constructor stores parameter p in attribute a for every (a, p) of t_assigns; clone() calls the
   constructor with parameter p := self.a for every (p, a) of t_clone_kwargs, a parameter that is
   not passed takes its default (this is how `armor` was lost before commit 28b8030).  The state
   is the pseudo parameter "<state>" (assigned by set_state, forwarded by target.set_state(self.state)). *)
From Coq Require Import List String Bool.
Import ListNotations.
Open Scope string_scope.

Record target_desc : Type := {
  t_name : string;
  t_params : list string;                    (* __init__ parameters without self, plus "<state>" *)
  t_assigns : list (string * string);        (* (attribute, parameter): self.attribute = parameter *)
  t_clone_kwargs : list (string * string);   (* (parameter, attribute): Cls(parameter=self.attribute) in clone() *)
  t_reads : list string                      (* attributes read by get_value / get_cost / get_result *)
}.

Fixpoint lookup (k : string) (l : list (string * string)) : option string :=
  match l with
  | [] => None
  | (k', v) :: r => if String.eqb k k' then Some v else lookup k r
  end.

(* attribute a is assigned from a parameter that clone() forwards from a itself *)
Definition attr_forwarded (d : target_desc) (a : string) : bool :=
  match lookup a (t_assigns d) with
  | Some p => match lookup p (t_clone_kwargs d) with
              | Some a' => String.eqb a' a
              | None => false
              end
  | None => false
  end.

Definition param_passed (d : target_desc) (p : string) : bool :=
  existsb (fun kv => String.eqb (fst kv) p) (t_clone_kwargs d).

Definition clone_ok (d : target_desc) : bool :=
  forallb (attr_forwarded d) (t_reads d) && forallb (param_passed d) (t_params d).

Definition reads_attr (a : string) (d : target_desc) : bool := existsb (String.eqb a) (t_reads d).

Definition expected_targets : list string :=
  ["HyperstatTarget"; "UnionSquadTarget"; "UnionOccupationTarget"; "LinkSkillTarget"].

Definition covers_expected (ds : list target_desc) : bool :=
  forallb (fun n => existsb (fun d => String.eqb n (t_name d)) ds) expected_targets.

Section Semantics.
  Variable V : Type.
  Variable dflt : string -> V.          (* default of a parameter that is not passed / of an attribute never assigned *)
  Definition obj : Type := string -> V. (* attribute -> value *)

  Definition init (d : target_desc) (args : string -> V) : obj :=
    fun a => match lookup a (t_assigns d) with Some p => args p | None => dflt a end.

  Definition clone_args (d : target_desc) (t : obj) : string -> V :=
    fun p => match lookup p (t_clone_kwargs d) with Some a => t a | None => dflt p end.

  Definition clone (d : target_desc) (t : obj) : obj := init d (clone_args d t).
End Semantics.
