(* C20 -- model of simaple/container/memoizer.py + the memo interface of
   simaple/container/environment_provider.py.  DEFINITIONS ONLY (proofs: Proofs/MemoCoherent.v).

   A provider is a tagged finite map  field -> value  (`kind` = the provider class).
     key p        = h (name?, proj (K kind) p)      _compute_memo_key: sha256 of the JSON of
                                                    {"name": get_name(), "setting": get_memoization_key()},
                                                    get_memoization_key = dump of the fields not excluded
     memo_part p  = G kind (proj (R kind) p)        get_memoizable_environment (R = the fields it reads)
     indep_part p = H kind (proj (I kind) p)        get_memoization_independent_environment
     direct p     = combine (indep_part p) (memo_part p)      get_simulation_environment
   The memoizer is an association list  key -> serialised CharacterProviderMemo  in insertion order
   (a Python dict; entries are only ever added on a miss, so no key occurs twice).
   `memoize` is InMemoryMemoizer.memoize, `memoize_file` is PersistentStorageMemoizer.memoize (the whole
   file is read on every call and written back on a miss).  Everything the code delegates to pydantic /
   json / hashlib is a field of `sig`; what the theorems need of it is the record `hyps`. *)
From Coq Require Import List Bool.
Import ListNotations.

Record sig : Type := Sig {
  Field : Type;  Val : Type;  Kind : Type;
  Hash : Type;  MemoEnv : Type;  IndepEnv : Type;  Env : Type;
  Ser : Type;            (* one serialised CharacterProviderMemo (a JSON string) *)
  Exported : Type;       (* what export() hands out and a later InMemoryMemoizer(saved_memos) takes in *)
  FileC : Type;          (* content of the .simaple.memo file *)
  feqb : Field -> Field -> bool;
  heqb : Hash -> Hash -> bool;
  K : Kind -> list Field;       (* fields that enter the memo key: all fields minus the excluded ones *)
  R : Kind -> list Field;       (* fields the memoizable computation reads *)
  I : Kind -> list Field;       (* fields the independent computation reads *)
  named : bool;                 (* does the hashed object contain the provider's class name? *)
  h : option Kind * list (Field * option Val) -> Hash;
  G : Kind -> list (Field * option Val) -> MemoEnv;
  H : Kind -> list (Field * option Val) -> IndepEnv;
  combine : IndepEnv -> MemoEnv -> Env;
  ser : MemoEnv * IndepEnv -> Ser;
  de : Ser -> MemoEnv * IndepEnv;
  xser : list (Hash * Ser) -> Exported;
  xde : Exported -> list (Hash * Ser);
  fser : list (Hash * Ser) -> FileC;
  fde : FileC -> list (Hash * Ser)
}.

Section Model.
  Variable M : sig.

  Definition fmap := list (Field M * Val M).
  Fixpoint get (f : Field M) (m : fmap) : option (Val M) :=
    match m with
    | [] => None
    | (g, v) :: r => if feqb M g f then Some v else get f r
    end.

  Record prov := Prov { kind : Kind M; fields : fmap }.

  Definition proj (S : list (Field M)) (p : prov) : list (Field M * option (Val M)) :=
    map (fun f => (f, get f (fields p))) S.

  Definition key (p : prov) : Hash M :=
    h M ((if named M then Some (kind p) else None), proj (K M (kind p)) p).
  Definition memo_part (p : prov) : MemoEnv M := G M (kind p) (proj (R M (kind p)) p).
  Definition indep_part (p : prov) : IndepEnv M := H M (kind p) (proj (I M (kind p)) p).
  (* the CharacterProviderMemo built from a provider: (memoizable_environment, independent_environment) *)
  Definition parts (p : prov) : MemoEnv M * IndepEnv M := (memo_part p, indep_part p).
  (* get_simulation_environment: the independent dict updated with the memoizable dict, validated *)
  Definition environment (c : MemoEnv M * IndepEnv M) : Env M := combine M (snd c) (fst c).
  Definition direct (p : prov) : Env M := environment (parts p).

  Definition store := list (Hash M * Ser M).

  (* `memo_key in memos` / `memos[memo_key]`, also reporting the position of the entry *)
  Fixpoint lookup_from (i : nat) (s : store) (k : Hash M) : option (nat * Ser M) :=
    match s with
    | [] => None
    | (k', e) :: r => if heqb M k' k then Some (i, e) else lookup_from (S i) r k
    end.
  Definition lookup := lookup_from 0.

  (* InMemoryMemoizer.memoize : new store, returned CharacterProviderMemo, Some j = hit served by entry j.
     hit : memoizable part from the stored entry, independent part recomputed from the CURRENT request;
     miss: both computed from the request, the pair serialised and stored under the key. *)
  Definition memoize (s : store) (p : prov) : store * (MemoEnv M * IndepEnv M) * option nat :=
    match lookup s (key p) with
    | Some (j, e) => (s, (fst (de M e), indep_part p), Some j)
    | None => (s ++ [(key p, ser M (parts p))], parts p, None)
    end.

  (* PersistentStorageMemoizer.memoize : json.load the file, same two branches, json.dump on a miss *)
  Definition memoize_file (f : FileC M) (p : prov) : FileC M * (MemoEnv M * IndepEnv M) * option nat :=
    let s := fde M f in
    match lookup s (key p) with
    | Some (j, e) => (f, (fst (de M e), indep_part p), Some j)
    | None => (fser M (s ++ [(key p, ser M (parts p))]), parts p, None)
    end.
  (* PersistentStorageMemoizer.__init__ on a path that does not exist yet *)
  Definition new_file : FileC M := fser M [].

  (* a history: requests, interleaved with "reopen" = for the in-memory memoizer
     `m = InMemoryMemoizer(import(m.export()))`, for the file-backed one a new
     PersistentStorageMemoizer object (a process restart) on the same path *)
  Inductive op := Req (p : prov) | Reopen.
  Fixpoint requests (ops : list op) : list prov :=
    match ops with
    | [] => []
    | Req p :: r => p :: requests r
    | Reopen :: r => requests r
    end.

  Definition result := ((MemoEnv M * IndepEnv M) * option nat)%type.

  Fixpoint run_mem (s : store) (ops : list op) : list result :=
    match ops with
    | [] => []
    | Req p :: r => let '(s', c, hit) := memoize s p in (c, hit) :: run_mem s' r
    | Reopen :: r => run_mem (xde M (xser M s)) r
    end.

  Fixpoint run_file (f : FileC M) (ops : list op) : list result :=
    match ops with
    | [] => []
    | Req p :: r => let '(f', c, hit) := memoize_file f p in (c, hit) :: run_file f' r
    | Reopen :: r => run_file f r
    end.

  (* final store (used by the correspondence to compare the number of entries) *)
  Fixpoint final_mem (s : store) (ops : list op) : store :=
    match ops with
    | [] => s
    | Req p :: r => final_mem (fst (fst (memoize s p))) r
    | Reopen :: r => final_mem (xde M (xser M s)) r
    end.

  Fixpoint final_file (f : FileC M) (ops : list op) : FileC M :=
    match ops with
    | [] => f
    | Req p :: r => final_file (fst (fst (memoize_file f p))) r
    | Reopen :: r => final_file f r
    end.

  (* ghost bookkeeping for "who stored the entry that served this request":
     os = the requests that created the entries of s, in order.  Outcome per request:
     None = miss, Some None = hit on an entry of unknown origin, Some (Some q) = hit on q's entry. *)
  Fixpoint run_owned (s : store) (os : list prov) (ps : list prov) : list (prov * option (option prov)) :=
    match ps with
    | [] => []
    | p :: r =>
        let '(s', _, hit) := memoize s p in
        match hit with
        | Some j => (p, Some (nth_error os j)) :: run_owned s' os r
        | None => (p, None) :: run_owned s' (os ++ [p]) r
        end
    end.

  (* what the theorems assume about the parts that are not modelled (pydantic, json, sha256) *)
  Record hyps : Prop := Hyps {
    heqb_spec : forall a b, heqb M a b = true <-> a = b;
    h_inj : forall a b, h M a = h M b -> a = b;          (* sha256 of canonical JSON: trusted *)
    named_true : named M = true;                          (* generated from _compute_memo_key *)
    R_sub_K : forall k f, In f (R M k) -> In f (K M k);  (* generated from the provider classes *)
    de_ser : forall c, de M (ser M c) = c;
    xde_xser : forall s, xde M (xser M s) = s;
    fde_fser : forall s, fde M (fser M s) = s
  }.

  (* every stored entry is the serialised direct computation of some provider with that key *)
  Definition Inv (s : store) : Prop :=
    forall k j e, lookup s k = Some (j, e) -> exists q, key q = k /\ e = ser M (parts q).

  Definition served_ok (ps : list prov) (x : prov * option (option prov)) : Prop :=
    match snd x with
    | None => True
    | Some None => False
    | Some (Some q) =>
        In q ps /\ kind q = kind (fst x) /\
        proj (K M (kind (fst x))) q = proj (K M (kind (fst x))) (fst x) /\
        memo_part q = memo_part (fst x)
    end.
End Model.
