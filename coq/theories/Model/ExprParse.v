(* Token-level model of the Lark grammar of simaple/spec/_math.py.  DEFINITIONS ONLY.

   Lark's lexer is not modelled: an expression is a list of tokens
     NUMBER            TNum q        (q = exact value of the literal text)
     SEPERATED_NUMBER  TSep l        (digits and '_' as written; value = the digits read in base 10)
     VARIABLE          TVar v
     "+" "-" "*" "/" "//" ">" "<"    TOp o    (unary minus shares the "-" token)
     "(" ")" ","       TLP TRP TComma
     "ceil(" "floor(" "apply_attack_speed("  TF1 f        "min(" "max("  TF2 g
   (WS_INLINE is ignored by the grammar, so it never reaches the token list.)

   Contents: the printer `p` (minimal parentheses), the fuelled recursive-descent parser `P` with
   accumulator loops for the two left-recursive levels, `parse`, `evalp`; the production table
   `model_productions`/`model_terminals` that the parser implements, a generic derivation relation `der`
   over such a table, and the semantic-action table `model_optable` (alias -> Python expression of
   CalcTransformer) with its denotation `pyden`.  tools/tr_mathgrammar.py regenerates the same two tables
   from the source (gen/MathGrammar.v) and Proofs/MathGrammarTie.v proves them equal. *)
From Coq Require Import QArith Qround Qminmax List Bool ZArith String Arith.
From V.Model Require Import Expr.
Import ListNotations.

Inductive sepch := SDig (d : nat) | SUnd.
Inductive tok :=
| TNum (q : Q) | TSep (l : list sepch) | TVar (v : var) | TOp (o : bop)
| TLP | TRP | TComma | TF1 (f : fn1) | TF2 (g : fn2).

Definition sepval (l : list sepch) : Q :=
  inject_Z (fold_left (fun acc c => match c with SDig d => (acc * 10 + Z.of_nat d)%Z | SUnd => acc end) l 0%Z).
Definition has_digit (l : list sepch) : bool :=
  existsb (fun c => match c with SDig _ => true | SUnd => false end) l.

(* precedence level of a binary operator: 0 = expr ("+" "-"), 1 = term ("*" "/" "//" ">" "<") *)
Definition lvl (o : bop) : nat := match o with Add | Sub => 0 | _ => 1 end.

(* printer: p l e prints e in a context of level l (0 expr, 1 term, 2 factor) with minimal parentheses *)
Fixpoint p (l : nat) (e : expr) : list tok :=
  match e with
  | Num q => [TNum q]
  | Var v => [TVar v]
  | Bin o a b => let k := lvl o in
                 let body := p k a ++ TOp o :: p (S k) b in
                 if k <? l then TLP :: body ++ [TRP] else body
  | Neg a => TOp Sub :: p 2 a
  | Fn1 f a => TF1 f :: p 0 a ++ [TRP]
  | Fn2 g a b => TF2 g :: p 0 a ++ TComma :: p 0 b ++ [TRP]
  end.
Definition print (e : expr) : list tok := p 0 e.

(* trees decorated with REDUNDANT parentheses: DParen may wrap any subexpression any number of times;
   dp prints them (plus the necessary ones, as p does), erase forgets them *)
Inductive dexpr :=
| DNum (q : Q) | DVar (v : var) | DBin (o : bop) (a b : dexpr) | DNeg (a : dexpr)
| DFn1 (f : fn1) (a : dexpr) | DFn2 (g : fn2) (a b : dexpr) | DParen (a : dexpr).
Fixpoint erase (d : dexpr) : expr :=
  match d with
  | DNum q => Num q | DVar v => Var v | DBin o a b => Bin o (erase a) (erase b) | DNeg a => Neg (erase a)
  | DFn1 f a => Fn1 f (erase a) | DFn2 g a b => Fn2 g (erase a) (erase b) | DParen a => erase a
  end.
Fixpoint dp (l : nat) (d : dexpr) : list tok :=
  match d with
  | DNum q => [TNum q]
  | DVar v => [TVar v]
  | DBin o a b => let k := lvl o in
                  let body := dp k a ++ TOp o :: dp (S k) b in
                  if k <? l then TLP :: body ++ [TRP] else body
  | DNeg a => TOp Sub :: dp 2 a
  | DFn1 f a => TF1 f :: dp 0 a ++ [TRP]
  | DFn2 g a b => TF2 g :: dp 0 a ++ TComma :: dp 0 b ++ [TRP]
  | DParen a => TLP :: dp 0 a ++ [TRP]
  end.
Fixpoint inj (e : expr) : dexpr :=
  match e with
  | Num q => DNum q | Var v => DVar v | Bin o a b => DBin o (inj a) (inj b) | Neg a => DNeg (inj a)
  | Fn1 f a => DFn1 f (inj a) | Fn2 g a b => DFn2 g (inj a) (inj b)
  end.

Inductive mode := MF | MT | ME | MLoopT (acc : expr) | MLoopE (acc : expr).

Fixpoint P (fuel : nat) (m : mode) (ts : list tok) : option (expr * list tok) :=
  match fuel with
  | O => None
  | S f =>
    match m with
    | MF => match ts with
            | TNum q :: r => Some (Num q, r)
            | TSep l :: r => if has_digit l then Some (Num (sepval l), r) else None
            | TVar v :: r => Some (Var v, r)
            | TOp Sub :: r => match P f MF r with Some (a, r') => Some (Neg a, r') | None => None end
            | TLP :: r => match P f ME r with Some (a, TRP :: r') => Some (a, r') | _ => None end
            | TF1 g :: r => match P f ME r with Some (a, TRP :: r') => Some (Fn1 g a, r') | _ => None end
            | TF2 g :: r => match P f ME r with
                            | Some (a, TComma :: r') =>
                                match P f ME r' with Some (b, TRP :: r'') => Some (Fn2 g a b, r'') | _ => None end
                            | _ => None end
            | _ => None
            end
    | MT => match P f MF ts with Some (a, r) => P f (MLoopT a) r | None => None end
    | MLoopT acc => match ts with
                    | TOp o :: r => if lvl o =? 1
                                    then match P f MF r with Some (b, r') => P f (MLoopT (Bin o acc b)) r' | None => None end
                                    else Some (acc, ts)
                    | _ => Some (acc, ts)
                    end
    | ME => match P f MT ts with Some (a, r) => P f (MLoopE a) r | None => None end
    | MLoopE acc => match ts with
                    | TOp o :: r => if lvl o =? 0
                                    then match P f MT r with Some (b, r') => P f (MLoopE (Bin o acc b)) r' | None => None end
                                    else Some (acc, ts)
                    | _ => Some (acc, ts)
                    end
    end
  end.

Definition rank (m : mode) : nat := match m with MF => 1 | MT => 2 | ME => 3 | MLoopT _ => 1 | MLoopE _ => 1 end.
Definition fuel_for (m : mode) (ts : list tok) : nat := 3 * List.length ts + rank m.

(* the whole token list must be one expression *)
Definition parse (ts : list tok) : option expr :=
  match P (fuel_for ME ts) ME ts with Some (e, []) => Some e | _ => None end.

Definition evalp (r : env) (ts : list tok) : option Q :=
  match parse ts with Some e => eval r e | None => None end.

(* digit separators: a well-formed SEPERATED_NUMBER token means the NUMBER token of its value *)
Definition norm_tok (t : tok) : tok :=
  match t with TSep l => if has_digit l then TNum (sepval l) else t | _ => t end.

(* ------------------------------------------------------------------------------------------------
   The grammar as a table. *)
Inductive sym := NT (s : string) | TM (s : string) | Lit (s : string).
Definition production := (string * list sym * string)%type.      (* lhs, rhs, alias ("" = none) *)

Open Scope string_scope.
Definition model_productions : list production := [
  ("start",  [NT "expr"], "");
  ("expr",   [NT "expr"; Lit "+"; NT "term"], "add");
  ("expr",   [NT "expr"; Lit "-"; NT "term"], "sub");
  ("expr",   [NT "term"], "");
  ("term",   [NT "term"; Lit "*"; NT "factor"], "mul");
  ("term",   [NT "term"; Lit "/"; NT "factor"], "div");
  ("term",   [NT "term"; Lit "//"; NT "factor"], "int_div");
  ("term",   [NT "term"; Lit ">"; NT "factor"], "gt");
  ("term",   [NT "term"; Lit "<"; NT "factor"], "lt");
  ("term",   [NT "factor"], "");
  ("factor", [TM "NUMBER"], "number");
  ("factor", [TM "SEPERATED_NUMBER"], "seperated_number");
  ("factor", [Lit "ceil("; NT "expr"; Lit ")"], "ceil");
  ("factor", [Lit "floor("; NT "expr"; Lit ")"], "floor");
  ("factor", [Lit "min("; NT "expr"; Lit ","; NT "expr"; Lit ")"], "min");
  ("factor", [Lit "max("; NT "expr"; Lit ","; NT "expr"; Lit ")"], "max");
  ("factor", [Lit "apply_attack_speed("; NT "expr"; Lit ")"], "apply_attack_speed");
  ("factor", [TM "VARIABLE"], "variable");
  ("factor", [Lit "-"; NT "factor"], "neg");
  ("factor", [Lit "("; NT "expr"; Lit ")"], "")
].
(* every rule is written with Lark's '?' (a node with a single child and no alias is inlined) *)
Definition model_inlined_rules : list string := ["start"; "expr"; "term"; "factor"].
(* terminals defined by a regular expression, imported terminals, ignored terminals *)
Definition model_terminals : list (string * string) :=
  [("SEPERATED_NUMBER", "[0-9_]+"); ("VARIABLE", "[a-zA-Z_\.]+")].
Definition model_imports : list string := ["common.NUMBER"; "common.WS_INLINE"].
Definition model_ignored : list string := ["WS_INLINE"].
(* how the parser object is built: Lark(__grammar) with default options (start symbol "start") *)
Definition model_lark_call : list string := ["Lark"; "__grammar"].

Definition lit_tok (s : string) : option tok :=
  if s =? "+" then Some (TOp Add) else if s =? "-" then Some (TOp Sub) else
  if s =? "*" then Some (TOp Mul) else if s =? "/" then Some (TOp Div) else
  if s =? "//" then Some (TOp IDiv) else if s =? ">" then Some (TOp Gt) else
  if s =? "<" then Some (TOp Lt) else if s =? "(" then Some TLP else
  if s =? ")" then Some TRP else if s =? "," then Some TComma else
  if s =? "ceil(" then Some (TF1 Ceil) else if s =? "floor(" then Some (TF1 Floor) else
  if s =? "apply_attack_speed(" then Some (TF1 AtkSpd) else
  if s =? "min(" then Some (TF2 Min) else if s =? "max(" then Some (TF2 Max) else None.

(* a named terminal matches exactly one token and hands the semantic action a leaf *)
Definition term_tok (s : string) (t : tok) : option expr :=
  match t with
  | TNum q => if s =? "NUMBER" then Some (Num q) else None
  | TSep l => if (s =? "SEPERATED_NUMBER") && has_digit l then Some (Num (sepval l)) else None
  | TVar v => if s =? "VARIABLE" then Some (Var v) else None
  | _ => None
  end.

(* the tree a semantic action builds from the values of its children (literal tokens are filtered out
   by Lark; "" = inlined rule with one child) *)
Definition build (alias : string) (es : list expr) : option expr :=
  match es with
  | [a] =>
      if (alias =? "") || (alias =? "number") || (alias =? "seperated_number") || (alias =? "variable") then Some a else
      if alias =? "neg" then Some (Neg a) else
      if alias =? "ceil" then Some (Fn1 Ceil a) else
      if alias =? "floor" then Some (Fn1 Floor a) else
      if alias =? "apply_attack_speed" then Some (Fn1 AtkSpd a) else None
  | [a; b] =>
      if alias =? "add" then Some (Bin Add a b) else if alias =? "sub" then Some (Bin Sub a b) else
      if alias =? "mul" then Some (Bin Mul a b) else if alias =? "div" then Some (Bin Div a b) else
      if alias =? "int_div" then Some (Bin IDiv a b) else if alias =? "gt" then Some (Bin Gt a b) else
      if alias =? "lt" then Some (Bin Lt a b) else
      if alias =? "min" then Some (Fn2 Min a b) else if alias =? "max" then Some (Fn2 Max a b) else None
  | _ => None
  end.

(* derivations of a production table: der G s ts e = "token list ts is an s with semantic value e" *)
Inductive der (G : list production) : string -> list tok -> expr -> Prop :=
| der_prod nt rhs alias ts es e :
    In (nt, rhs, alias) G -> ders G rhs ts es -> build alias es = Some e -> der G nt ts e
with ders (G : list production) : list sym -> list tok -> list expr -> Prop :=
| ders_nil : ders G [] [] []
| ders_nt s rest ts1 e ts2 es : der G s ts1 e -> ders G rest ts2 es -> ders G (NT s :: rest) (ts1 ++ ts2) (e :: es)
| ders_tm s rest t e ts es : term_tok s t = Some e -> ders G rest ts es -> ders G (TM s :: rest) (t :: ts) (e :: es)
| ders_lit s rest t ts es : lit_tok s = Some t -> ders G rest ts es -> ders G (Lit s :: rest) (t :: ts) es.

(* ------------------------------------------------------------------------------------------------
   The semantic actions: body of each CalcTransformer method as a tiny Python expression tree. *)
Inductive pyexpr :=
| PItem (n : nat)                         (* items[n] *)
| PInt (z : Z)                            (* integer literal *)
| PBinop (op : string) (a b : pyexpr)     (* a op b,  op in + - * / // *)
| PCmp (op : string) (a b : pyexpr)       (* a > b, a < b *)
| PNeg (a : pyexpr)
| PCall1 (f : string) (a : pyexpr)        (* math.ceil, math.floor *)
| PCall2 (f : string) (a b : pyexpr)      (* min, max *)
| PTokFloat (strip_underscores : bool)    (* float(token[0]) / float(token[0].replace("_", "")) *)
| PVarLookup.                             (* assert token[0].value in self.variables; self.variables[token[0].value] *)

Definition model_optable : list (string * pyexpr) := [
  ("variable", PVarLookup);
  ("number", PTokFloat false);
  ("seperated_number", PTokFloat true);
  ("add", PBinop "+" (PItem 0) (PItem 1));
  ("sub", PBinop "-" (PItem 0) (PItem 1));
  ("mul", PBinop "*" (PItem 0) (PItem 1));
  ("div", PBinop "/" (PItem 0) (PItem 1));
  ("int_div", PBinop "//" (PItem 0) (PItem 1));
  ("min", PCall2 "min" (PItem 0) (PItem 1));
  ("max", PCall2 "max" (PItem 0) (PItem 1));
  ("neg", PNeg (PItem 0));
  ("ceil", PCall1 "math.ceil" (PItem 0));
  ("floor", PCall1 "math.floor" (PItem 0));
  ("gt", PCmp ">" (PItem 0) (PItem 1));
  ("lt", PCmp "<" (PItem 0) (PItem 1));
  ("apply_attack_speed",
     PBinop "*" (PInt 30)
       (PCall1 "math.ceil"
          (PBinop "/" (PBinop "*" (PItem 0) (PBinop "/" (PBinop "-" (PInt 16) (PInt 4)) (PInt 16))) (PInt 30))))
].
(* how evaluate_expression combines the two: transform(parse(expression)) with the given variables *)
Definition model_entry : list string := ["CalcTransformer"; "variables"; "transform"; "__arithmetic_parser"; "parse"; "expression"].

(* ordinary-arithmetic reading of such a Python expression over exact rationals; vs = values of the children
   (for the three token rules: the value of the token) *)
Fixpoint pyden (e : pyexpr) (vs : list Q) : option Q :=
  match e with
  | PItem n => nth_error vs n
  | PInt z => Some (inject_Z z)
  | PBinop op a b =>
      match pyden a vs, pyden b vs with
      | Some x, Some y =>
          if op =? "+" then Some (x + y) else if op =? "-" then Some (x - y) else
          if op =? "*" then Some (x * y) else
          if op =? "/" then (if Qeq_bool y 0 then None else Some (x / y)) else
          if op =? "//" then (if Qeq_bool y 0 then None else Some (qfloor (x / y))) else None
      | _, _ => None
      end
  | PCmp op a b =>
      match pyden a vs, pyden b vs with
      | Some x, Some y =>
          if op =? ">" then Some (qbool (negb (Qle_bool x y))) else
          if op =? "<" then Some (qbool (negb (Qle_bool y x))) else None
      | _, _ => None
      end
  | PNeg a => match pyden a vs with Some x => Some (- x) | None => None end
  | PCall1 f a =>
      match pyden a vs with
      | Some x => if f =? "math.ceil" then Some (qceil x) else if f =? "math.floor" then Some (qfloor x) else None
      | None => None
      end
  | PCall2 f a b =>
      match pyden a vs, pyden b vs with
      | Some x, Some y => if f =? "min" then Some (Qmin x y) else if f =? "max" then Some (Qmax x y) else None
      | _, _ => None
      end
  | PTokFloat _ => nth_error vs 0
  | PVarLookup => nth_error vs 0
  end.
Close Scope string_scope.
