(* Executable instance of Model/Dispatch.v used by the correspondence shards of H-dispatch
   (tools/lib/h_dispatch.py), never by a theorem.  Entities and payloads are interned numbers (the
   id of the canonical JSON of the Python value; 0 = None / {} as stated per use); strings are the
   UTF-8 bytes of the Python strings.  Reducers and `Clock.spent` are TABLES recorded from the real
   objects: a lookup miss is `None` (the model asked for something the implementation never did),
   which shows up as a difference. *)
From Coq Require Import List Bool Arith String Ascii ZArith NArith.
From V.Model Require Import Router Play Dispatch DispatchViews.
Import ListNotations.
Local Open Scope string_scope.

Definition XEnt := N.
Definition XPay := N.
Notation xevent := (Dispatch.event XPay).
Notation xaction := (Dispatch.action XPay).
Notation xcomponent := (Dispatch.component XEnt XPay).
Notation xinvocation := (Dispatch.invocation XPay).

(* ---- comparators *)
Fixpoint leqb {A B} (e : A -> B -> bool) (a : list A) (b : list B) : bool :=
  match a, b with
  | [], [] => true
  | x :: a', y :: b' => e x y && leqb e a' b'
  | _, _ => false
  end.
Definition oeqb {A} (e : A -> A -> bool) (a b : option A) : bool :=
  match a, b with Some x, Some y => e x y | None, None => true | _, _ => false end.
Definition fm_eqb (a b : fm) : bool :=
  match a, b with
  | FFound x, FFound y => String.eqb x y
  | FNone, FNone => true
  | FRaise, FRaise => true
  | _, _ => false
  end.
Definition ev_eqb (a b : xevent) : bool :=
  String.eqb (ev_name a) (ev_name b) && N.eqb (ev_pay a) (ev_pay b) && String.eqb (ev_method a) (ev_method b) &&
  oeqb String.eqb (ev_tag a) (ev_tag b) && oeqb String.eqb (ev_handler a) (ev_handler b).
Definition act_eqb (a b : xaction) : bool :=
  String.eqb (a_name a) (a_name b) && String.eqb (a_method a) (a_method b) && N.eqb (a_pay a) (a_pay b).
Definition sn_eqb (a b : string * N) : bool := String.eqb (fst a) (fst b) && N.eqb (snd a) (snd b).
Definition mems (x : string) (l : list string) : bool := existsb (String.eqb x) l.

Definition E (name : string) (p : N) (method : string) (tag handler : option string) : xevent :=
  {| ev_name := name; ev_pay := p; ev_method := method; ev_tag := tag; ev_handler := handler |}.
Definition Ac (name method : string) (p : N) : xaction :=
  {| a_name := name; a_method := method; a_pay := p; a_addon := false |}.

(* ---- (a) _find_mapping_name / includes: (index of a key list, signature, expected) *)
Definition fm_case (keysets : list (list string)) (c : nat * string * fm) : bool :=
  let '(i, s, expected) := c in fm_eqb (find_mapping_keys (nth i keysets []) s) expected.

(* ---- (b) tag_events_by_method_name (payload {} of the ACCEPT event is id 1; None is id 0) *)
Definition tag_case (c : string * string * list xevent * list xevent) : bool :=
  let '(name, method, raw, expected) := c in leqb ev_eqb (tag_events XPay 1%N name method raw) expected.

(* ---- (c) bound names: a component given by (name, default-state names, binds as passed to the
        StoreAdapter); expected resolved bound addresses in order; observed written addresses *)
Definition static_comp (name : string) (defaults : list string) (binds : list (string * string)) : xcomponent :=
  {| c_name := name; c_maps := []; c_default := map (fun n => (n, 0%N)) defaults; c_binds := binds; c_addons := [] |}.
Definition bound_case (c : string * list string * list (string * string) * list string) : bool :=
  let '(name, defaults, binds, expected) := c in
  leqb String.eqb (bound_addrs XEnt XPay (static_comp name defaults binds)) expected.
Definition write_case (c : string * list string * list (string * string) * list string) : bool :=
  let '(name, defaults, binds, written) := c in
  forallb (fun a => mems a (bound_addrs XEnt XPay (static_comp name defaults binds))) written.

(* ---- (d) _resolve_address, local, message_signature, _get_event_callbacks *)
Definition resolve_case (c : string * string * string) : bool :=
  let '(cur, name, expected) := c in String.eqb (resolve cur name) expected.
Definition local_case (c : string * string * string) : bool :=
  let '(cur, a, expected) := c in String.eqb (local_addr cur a) expected.
Definition msig_case (c : string * string * string) : bool :=
  let '(name, method, expected) := c in String.eqb (msig name method) expected.
Definition cb_case (c : xevent * xaction * xaction) : bool :=
  let '(e, em, dn) := c in act_eqb (emitted_cb XPay e) em && act_eqb (done_cb XPay e) dn.
(* ConcreteStore.read_entity / set_entity called directly: (store, address, default, expected (store afterwards, value) or raise) *)
Definition read_case (c : list (string * N) * string * option N * option (list (string * N) * N)) : bool :=
  let '(st, addr, d, expected) := c in
  oeqb (fun a b => leqb sn_eqb (fst a) (fst b) && N.eqb (snd a) (snd b)) (read_entity XEnt st addr d) expected.
Definition set_case (c : list (string * N) * string * N * list (string * N)) : bool :=
  let '(st, addr, v, expected) := c in leqb sn_eqb (dset st addr v) expected.
(* timer_delay_dispatcher called directly (not through the router): did it move the clock?  spent = +payload *)
Definition timer_case (c : string * string * bool * bool) : bool :=
  let '(name, method, has_clock, moved) := c in
  let st := if has_clock then [("global.time", 10%N)] else [] in
  match timer_call XEnt XPay 3%N (fun ck p => Some (ck + p)%N) (Ac name method 5%N) (st, []) with
  | Some ((st', _), evs) =>
      Bool.eqb moved (negb (oeqb N.eqb (dget st' "global.time") (dget st "global.time"))) &&
      (if moved then oeqb N.eqb (dget st' "global.time") (Some (if has_clock then 15%N else 8%N)) else true) &&
      match evs with [] => true | _ => false end
  | None => false
  end.
(* Component.get_method_mappings: keys and method names in dict order *)
Definition maps_case (c : string * list string * list (string * string) * list (string * string)) : bool :=
  let '(name, methods, listening, expected) := c in
  leqb (fun a b => String.eqb (fst a) (fst b) && String.eqb (snd a) (snd b)) (mappings_of name methods listening) expected.

(* ---- C10: children of an aggregation view (registered names in order, kind, expected children);
        addresses of the initial store in dict order: (components as (name, default-state names), expected) *)
Definition children_case (c : list string * string * list string) : bool :=
  let '(names, kind, expected) := c in leqb String.eqb (agg_children names kind) expected.
Definition init_case (c : list (string * list string) * list string) : bool :=
  let '(comps, expected) := c in
  leqb String.eqb
       (map fst (initial_store XEnt XPay 0%N 0%N (map (fun nd => static_comp (fst nd) (snd nd) []) comps))) expected.

(* a view called on a store given by its addresses: Some (addresses afterwards) -- a defaulted entity that is
   absent is created (setdefault) -- or None = ValueError *)
Definition viewcall_case (c : string * list string * list (string * string) * list string * option (list string)) : bool :=
  let '(name, defaults, binds, addrs, expected) := c in
  oeqb (leqb String.eqb)
       (option_map (fun r => map fst (fst r))
                   (view_call XEnt XPay unit (static_comp name defaults binds) (fun _ => tt) (map (fun a => (a, 0%N)) addrs)))
       expected.

(* ---- (e) whole plays, trace-driven *)
(* a reducer = table  (payload id, entity ids of the input state in field order) -> (output fields, raw events) *)
Definition rtable := list (N * list N * (list (string * N) * maybe_events XPay)).
Fixpoint rlookup (t : rtable) (p : N) (fs : list N) : option (list (string * N) * maybe_events XPay) :=
  match t with
  | [] => None
  | (p', fs', out) :: r => if N.eqb p p' && leqb N.eqb fs fs' then Some out else rlookup r p fs
  end.
(* the state type keeps only its own fields of the entities read (pydantic ignores the others): `names` *)
Definition table_reducer (names : list string) (t : rtable) : reducer XEnt XPay :=
  fun p fs => rlookup t p (map snd (filter (fun nf => mems (fst nf) names) fs)).
Definition M (method : string) (names : list string) (t : rtable) : mapping XEnt XPay :=
  {| m_method := Some method; m_red := Some (table_reducer names t) |}.
(* Clock.spent as a table (clock id, payload id) -> clock id *)
Definition stable := list (N * N * N).
Fixpoint slookup (t : stable) (ck : N) (p : N) : option N :=
  match t with
  | [] => None
  | (c', p', o) :: r => if N.eqb ck c' && N.eqb p p' then Some o else slookup r ck p
  end.

Notation xpaction := (Play.action XPay string string (option string)).
Notation xpevent := (Play.event XPay string string (option string)).
Definition PAct (name method : string) (p : N) : xpaction :=
  {| aname := name; am := Direct string (option string) method; ap := PEvent XPay p |}.

Definition xinv := (string * string * string * N * bool)%type.      (* component, key, method, payload, addon mark *)
Definition inv_out (i : xinvocation) : xinv := (i_comp i, i_key i, i_method i, i_pay i, i_addon i).
Definition xinv_eqb (a b : xinv) : bool :=
  let '(c1, k1, m1, p1, d1) := a in let '(c2, k2, m2, p2, d2) := b in
  String.eqb c1 c2 && String.eqb k1 k2 && String.eqb m1 m2 && N.eqb p1 p2 && Bool.eqb d1 d2.
Definition pev_eqb (a : xpevent) (b : string * string * option string * N) : bool :=
  let '(n, m, t, p) := b in
  String.eqb (ename _ _ _ _ a) n && String.eqb (emeth _ _ _ _ a) m && oeqb String.eqb (etag _ _ _ _ a) t && N.eqb (epay _ _ _ _ a) p.

(* expected per play: dispatched signatures, events (name, method, tag, payload), invocations, store afterwards *)
Definition play_exp := (list string * list (string * string * option string * N) * list xinv * list (string * N))%type.

Section Run.
  Variable cs : list xcomponent.
  Variable clock0 : N.
  Variable sp : stable.
  Variable fuel : nat.
  Definition xds := installed XEnt XPay 1%N clock0 (slookup sp) (shipped_system XEnt XPay cs).

  Fixpoint run_plays (st : Play.store (pst XEnt XPay) XPay string string (option string))
           (plays : list (xpaction * play_exp)) : list bool :=
    match plays with
    | [] => []
    | (a, (sigs, evs, invs, after)) :: r =>
        let n0 := List.length (p_trace (ent _ _ _ _ _ st)) in
        let '(st1, E1, q) := pplay XEnt XPay 0%N (fun _ => 0%N) fuel xds st a in
        let s1 := ent _ _ _ _ _ st1 in
        (p_ok s1 &&
         leqb String.eqb (map (fun x => sig_of (act_of XPay 0%N (fun _ => 0%N) x)) q) sigs &&
         leqb pev_eqb E1 evs &&
         leqb xinv_eqb (map inv_out (skipn n0 (p_trace s1))) invs &&
         leqb sn_eqb (p_store s1) after) :: run_plays st1 r
    end.
  Definition check_plays (st0 : list (string * N)) (plays : list (xpaction * play_exp)) : list bool :=
    run_plays {| ent := {| p_cache := []; p_store := st0; p_trace := []; p_ok := true |}; cbs := [] |} plays.
End Run.
