(* C02 -- executable instance of Model/Router.v used by the correspondence shards of H-iso
   (never by a theorem): signatures and actions are interned numbers (routing only looks at the
   signature of an action), the store is the trace of primitive dispatcher calls, newest first,
   and every primitive call emits one event naming itself.  Recorded from the implementation:
   the includes-table of every installed dispatcher, the (when, defined action) pairs of its
   ContextDispatchers, the operations (install / dispatch), and per dispatch: was the signature
   in `_route_cache`, which primitive dispatchers ran in which order, the events returned;
   finally the content of `_route_cache`.
   Rejections (TandemDispatcher returns a base answer containing an event tagged REJECT as it is, the
   followers do not run): whether a primitive's answer was a rejection depends on the entity state,
   which this instance does not model; it is RECORDED: every dispatch carries the list of
   (primitive id, k) such that the k-th call (from 0) of that primitive within this top-level dispatch
   answered with a rejection.  The event of such a call is (id, 0) -- signature ids start at 1. *)
From Coq Require Import List Bool NArith Arith.
From V.Model Require Import Router.
Import ListNotations.

Definition TTrace := list (N * N).                 (* (dispatcher id, signature of the action it got) *)
Definition TOracle := list (N * nat).              (* recorded rejections: (dispatcher id, occurrence) *)
Definition TSt := (TTrace * TOracle)%type.
Definition TDisp := disp N N TSt (N * N).
Definition TOp := rop N N TSt (N * N).
Definition is_rej (e : N * N) : bool := N.eqb (snd e) 0.

Definition memN (s : N) (l : list N) : bool := existsb (N.eqb s) l.

(* primitive dispatcher `i`: includes exactly `incl`; raises on the signatures in `fails` *)
Definition occ (i : N) (tr : TTrace) : nat := List.length (filter (fun p => N.eqb (fst p) i) tr).
Definition P (i : N) (incl fails : list N) : TDisp :=
  Prim (fun s => memN s incl)
       (fun a st =>
          if memN a fails then None
          else let '(tr, orc) := st in
               let k := occ i tr in
               let r := existsb (fun p => N.eqb (fst p) i && Nat.eqb (snd p) k) orc in
               Some (((i, a) :: tr, orc), [(i, if r then 0%N else a)])).
Definition C (w a : N) : TDisp := Ctx w a.
Definition T (b : TDisp) (nx : list TDisp) : TDisp := Tandem b nx.
Definition I (d : TDisp) : TOp := Install d.
Definition D (a : N) (rejs : TOracle) : TOp := Dispatch a ([], rejs).

Definition sgN (a : N) : N := a.

(* one observation per dispatch: cache hit?, Some (calls in order, events) or None = raised *)
Definition TObs := (bool * option (TTrace * list (N * N)))%type.

Fixpoint observe (fuel : nat) (r : router N N TSt (N * N)) (ops : list TOp)
  : router N N TSt (N * N) * list TObs :=
  match ops with
  | [] => (r, [])
  | Install d :: t => observe fuel (install N N TSt (N * N) r d) t
  | Dispatch a st :: t =>
      let hit := match lookup N N.eqb (rc r) (sgN a) with Some _ => true | None => false end in
      let '(r', o) := dispatch N N TSt (N * N) N.eqb sgN is_rej fuel r a st in
      let o' := match o with Some ((tr, _), evs) => Some (rev tr, evs) | None => None end in
      let '(r'', os) := observe fuel r' t in (r'', (hit, o') :: os)
  end.

(* ---- comparators *)
Definition pair_eqb (a b : N * N) : bool := N.eqb (fst a) (fst b) && N.eqb (snd a) (snd b).
Fixpoint list_eqb {A B} (e : A -> B -> bool) (a : list A) (b : list B) : bool :=
  match a, b with
  | [], [] => true
  | x :: a', y :: b' => e x y && list_eqb e a' b'
  | _, _ => false
  end.
Definition opt_eqb {A} (e : A -> A -> bool) (a b : option A) : bool :=
  match a, b with Some x, Some y => e x y | None, None => true | _, _ => false end.

(* expected observation: hit, Some (trace, Some events | None = events not comparable) | None *)
Definition TExp := (bool * option (TTrace * option (list (N * N))))%type.
Definition obs_ok (o : TObs) (e : TExp) : bool :=
  Bool.eqb (fst o) (fst e) &&
  match snd o, snd e with
  | Some (tr, evs), Some (tr', evs') =>
      list_eqb pair_eqb tr tr' &&
      match evs' with Some ev' => list_eqb pair_eqb evs ev' | None => true end
  | None, None => true
  | _, _ => false
  end.

Definition cache_ok (c : cache N) (universe : list N) (expected : list (option (list nat))) : bool :=
  list_eqb (opt_eqb (list_eqb Nat.eqb)) (map (lookup N N.eqb c) universe) expected.

(* the cache-free router on the same operations (only comparable when nothing is installed late) *)
Definition nc_ok (fuel : nat) (ops : list TOp) (obs : list TObs) : bool :=
  list_eqb (opt_eqb (fun a b => list_eqb pair_eqb (rev (fst a)) (fst b) && list_eqb pair_eqb (snd a) (snd b)))
           (map (fun o : option (TSt * list (N * N)) => match o with Some ((tr, _), evs) => Some (tr, evs) | None => None end)
                (serve_nc N N TSt (N * N) N.eqb sgN is_rej fuel [] ops))
           (map snd obs).

Definition check (fuel : nat) (ops : list TOp) (late : bool) (universe : list N)
           (expected : list TExp) (expected_cache : list (option (list nat))) : bool :=
  let '(r, obs) := observe fuel (new_router N N TSt (N * N)) ops in
  list_eqb obs_ok obs expected && cache_ok (rc r) universe expected_cache &&
  (late || nc_ok fuel ops obs).
