(* C02 -- executable instance of Model/Router.v used by the correspondence shards of H-iso
   (never by a theorem): signatures and actions are interned numbers (routing only looks at the
   signature of an action), the store is the trace of primitive dispatcher calls, newest first,
   and every primitive call emits one event naming itself.  Recorded from the implementation:
   the includes-table of every installed dispatcher, the (when, defined action) pairs of its
   ContextDispatchers, the operations (install / dispatch), and per dispatch: was the signature
   in `_route_cache`, which primitive dispatchers ran in which order, the events returned;
   finally the content of `_route_cache`. *)
From Coq Require Import List Bool NArith Arith.
From V.Model Require Import Router.
Import ListNotations.

Definition TTrace := list (N * N).                 (* (dispatcher id, signature of the action it got) *)
Definition TDisp := disp N N TTrace (N * N).
Definition TOp := rop N N TTrace (N * N).

Definition memN (s : N) (l : list N) : bool := existsb (N.eqb s) l.

(* primitive dispatcher `i`: includes exactly `incl`; raises on the signatures in `fails` *)
Definition P (i : N) (incl fails : list N) : TDisp :=
  Prim (fun s => memN s incl)
       (fun a st => if memN a fails then None else Some ((i, a) :: st, [(i, a)])).
Definition C (w a : N) : TDisp := Ctx w a.
Definition T (b : TDisp) (nx : list TDisp) : TDisp := Tandem b nx.
Definition I (d : TDisp) : TOp := Install d.
Definition D (a : N) : TOp := Dispatch a [].

Definition sgN (a : N) : N := a.

(* one observation per dispatch: cache hit?, Some (calls in order, events) or None = raised *)
Definition TObs := (bool * option (TTrace * list (N * N)))%type.

Fixpoint observe (fuel : nat) (r : router N N TTrace (N * N)) (ops : list TOp)
  : router N N TTrace (N * N) * list TObs :=
  match ops with
  | [] => (r, [])
  | Install d :: t => observe fuel (install N N TTrace (N * N) r d) t
  | Dispatch a st :: t =>
      let hit := match lookup N N.eqb (rc r) (sgN a) with Some _ => true | None => false end in
      let '(r', o) := dispatch N N TTrace (N * N) N.eqb sgN fuel r a st in
      let o' := match o with Some (tr, evs) => Some (rev tr, evs) | None => None end in
      let '(r'', os) := observe fuel r' t in (r'', (hit, o') :: os)
  end.

(* ---- comparators *)
Definition pair_eqb (a b : N * N) : bool := N.eqb (fst a) (fst b) && N.eqb (snd a) (snd b).
Fixpoint list_eqb {A B} (e : A -> B -> bool) (a : list A) (b : list B) : bool :=
  match a, b with
  | [], [] => true
  | x :: a', y :: b' => e x y && list_eqb e a' b'
  | _, _ => false
  end.
Definition opt_eqb {A} (e : A -> A -> bool) (a b : option A) : bool :=
  match a, b with Some x, Some y => e x y | None, None => true | _, _ => false end.

(* expected observation: hit, Some (trace, Some events | None = events not comparable) | None *)
Definition TExp := (bool * option (TTrace * option (list (N * N))))%type.
Definition obs_ok (o : TObs) (e : TExp) : bool :=
  Bool.eqb (fst o) (fst e) &&
  match snd o, snd e with
  | Some (tr, evs), Some (tr', evs') =>
      list_eqb pair_eqb tr tr' &&
      match evs' with Some ev' => list_eqb pair_eqb evs ev' | None => true end
  | None, None => true
  | _, _ => false
  end.

Definition cache_ok (c : cache N) (universe : list N) (expected : list (option (list nat))) : bool :=
  list_eqb (opt_eqb (list_eqb Nat.eqb)) (map (lookup N N.eqb c) universe) expected.

(* the cache-free router on the same operations (only comparable when nothing is installed late) *)
Definition nc_ok (fuel : nat) (ops : list TOp) (obs : list TObs) : bool :=
  list_eqb (opt_eqb (fun a b => list_eqb pair_eqb (rev (fst a)) (fst b) && list_eqb pair_eqb (snd a) (snd b)))
           (serve_nc N N TTrace (N * N) N.eqb sgN fuel [] ops) (map snd obs).

Definition check (fuel : nat) (ops : list TOp) (late : bool) (universe : list N)
           (expected : list TExp) (expected_cache : list (option (list nat))) : bool :=
  let '(r, obs) := observe fuel (new_router N N TTrace (N * N)) ops in
  list_eqb obs_ok obs expected && cache_ok (rc r) universe expected_cache &&
  (late || nc_ok fuel ops obs).
