(* DOT tracker with the repaired ageing (lasting time decreases in both branches of step) and name-ordered ticks. *)
From Coq Require Import ZArith List Lia Bool.
Import ListNotations.
Open Scope Z_scope.

Definition dot := (N * Z * Z)%type.      (* name, damage, lasting *)
Record D := mkD { cur : list dot; pl : Z; period : Z }.
Definition ev := (N * Z)%type.

Definition age (t : Z) (d : dot) : dot := let '(n, dm, l) := d in (n, dm, l - t).
Definition alive (t : Z) (d : dot) : bool := let '(_, _, l) := d in 0 <=? l - t.
Definition name_dmg (d : dot) : ev := let '(n, dm, _) := d in (n, dm).

(* `sorted(new_current.items())`: the ticks of one period are reported in the order of the names (unique keys of the dict), not in
   the dict's insertion order - a checkpoint that travelled as JSON may come back with its members in another order *)
Fixpoint ins (d : dot) (l : list dot) : list dot :=
  match l with
  | [] => [d]
  | x :: r => if (fst (fst d) <=? fst (fst x))%N then d :: l else x :: ins d r
  end.
Definition sortn (l : list dot) : list dot := fold_right ins [] l.

(* one step: returns new state, time left, tick events *)
Definition step (s : D) (t : Z) : D * Z * list ev :=
  if t <? pl s then (mkD (map (age t) (cur s)) (pl s - t) (period s), 0, [])
  else let lapse := pl s in
       let nc := map (age lapse) (filter (alive lapse) (cur s)) in
       (mkD nc (period s) (period s), t - lapse, map name_dmg (sortn nc)).

Fixpoint run (fuel : nat) (s : D) (t : Z) : D * list ev :=
  match fuel with
  | O => (s, [])
  | S f => if t <=? 0 then (s, []) else
           let '(s', t', e) := step s t in let '(s'', e') := run f s' t' in (s'', e ++ e')
  end.

Definition wf (s : D) := 0 < pl s /\ 0 < period s.
Definition fuel_of (t : Z) : nat := S (Z.to_nat t).
Definition elapse (s : D) (t : Z) := run (fuel_of t) s t.


Fixpoint runo (fuel : nat) (s : D) (t : Z) : option (D * list ev) :=
  match fuel with
  | O => if t <=? 0 then Some (s, []) else None
  | S f => if t <=? 0 then Some (s, []) else
           let '(s', t', e) := step s t in
           match runo f s' t' with Some (s'', e') => Some (s'', e ++ e') | None => None end
  end.
Definition exec_fuel (s : D) (t : Z) : nat := Z.to_nat (t / period s + 4).
Definition elapse_exec (s : D) (t : Z) : option (D * list ev) := runo (exec_fuel s t) s t.
(* DOT.new: dict assignment = replace the entry of that name in place, else append *)
Fixpoint put (n : N) (dm l : Z) (c : list dot) : list dot :=
  match c with
  | [] => [(n, dm, l)]
  | (n', dm', l') :: r => if N.eqb n n' then (n, dm, l) :: r else (n', dm', l') :: put n dm l r
  end.
Definition new (s : D) (n : N) (dm l : Z) : D := mkD (put n dm l (cur s)) (pl s) (period s).
