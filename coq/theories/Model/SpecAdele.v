(* Extension `adele` of the component model (Model/Comp.v): executable models of the job-specific
   classes of simaple/simulate/component/specific/{common_v,thief,pirate,flora,cygnus,adele}.py and of the
   view-only class component/common/always_enabled.py.

   Conventions as in Comp.v: times are Z ticks; damage numbers are opaque Z codes (they are only copied);
   hit numbers are opaque codes EXCEPT for AdeleStormComponent, whose periodic hit is `periodic_hit *
   stack.stack`: there the hit slot of p_pd1 is the number periodic_hit (in units chosen by the harness)
   and the model multiplies.  Every value the Python code obtains by a float multiplication from the
   Dynamics entity or from RestoreLasting.ether_multiplier (calculate_cooldown, calculate_buff_duration,
   int(stack_per_trigger * get_gain_rate())) is a PARAMETER computed by Python.  Constant fields of
   entities (EtherGauge.maximum_stack/creation_step/order_consume, OrderSword.interval,
   ProgrammedPeriodic.intervals is kept in the entity) are parameters too; the harness checks that the
   real reducers return them unchanged.

   A class that reads or writes an entity of ANOTHER component through `binds` (ether gauge, order
   swords, restore lasting) receives that entity in its state record: what is modelled is the reducer as
   a function (payload, state) -> (state, events).  One universal record `xst` serves every class. *)
From Coq Require Import ZArith List Bool.
From V.Model Require Import Comp.
Import ListNotations.
Open Scope Z_scope.

(* ====================== ProgrammedPeriodic (specific/common_v.py) ====================== *)
Module PG.
Record T := mk { ic : Z; ivs : list Z; tl : Z; cnt : Z }.
(* self.intervals[self.count % len(self.intervals)] *)
Definition nth_iv (l : list Z) (c : Z) : Z := nth (Z.to_nat (c mod Z.of_nat (length l))) l 0.
(* the generator's while loop after `interval_counter -= time`; n = yields so far; None = out of fuel *)
Fixpoint loop (fuel : nat) (l : list Z) (i t c : Z) (n : nat) : option (Z * Z * Z * nat) :=
  if (i <=? 0) && (0 <? t) then
    match fuel with
    | O => None
    | S f => let iv := nth_iv l c in loop f l (i + iv) (t - iv) (c + 1) (S n)
    end
  else Some (i, t, c, n).
Definition resolving_fuel (fuel : nat) (s : T) (time : Z) : option (T * nat) :=
  match loop fuel (ivs s) (ic s - time) (tl s) (cnt s) O with
  | Some (i, t, c, n) => Some (mk i (ivs s) t c, n)
  | None => None
  end.
(* specification fuel: every yield takes at least one tick off time_left *)
Definition fuel_of (s : T) : nat := S (Z.to_nat (tl s)).
Definition resolving (s : T) (time : Z) : T * nat :=
  match resolving_fuel (fuel_of s) s time with Some r => r | None => (s, O) end.
(* executable fuel: time_left / smallest interval, plus slack *)
Definition minl (l : list Z) : Z := fold_right Z.min (hd 1 l) l.
Definition exec_fuel (s : T) : nat := Z.to_nat (Z.max 0 (tl s) / Z.max 1 (minl (ivs s)) + 2).
Definition resolving_exec (s : T) (time : Z) : option (T * nat) := resolving_fuel (exec_fuel s) s time.
Definition set_time_left (s : T) (t : Z) : T := mk (ic s) (ivs s) t 0.
Definition enabled (s : T) : bool := 0 <? tl s.
Definition wf (s : T) : Prop := ivs s <> [] /\ Forall (fun x => 0 < x) (ivs s).
End PG.

(* ====================== OrderSword (specific/adele.py) ====================== *)
Definition sword := (Z * Z)%type.          (* (counter, time_left) *)
(* the loop of OrderSword.resolving after `time_left -= time; counter -= time` (l = the new time_left):
   `while counter <= 0 and counter < time_left: counter += interval; yield 1`  -- a sword ticks while it is
   alive; n = yields; None = out of fuel *)
Fixpoint sw_loop (fuel : nat) (I c l : Z) : option (Z * nat) :=
  if (c <=? 0) && (c <? l) then
    match fuel with
    | O => None
    | S f => match sw_loop f I (c + I) l with Some (c', n) => Some (c', S n) | None => None end
    end
  else Some (c, O).
(* the body runs for counter = c, c + I, c + 2I, ... <= 0: at most (-c) / I + 1 times when the interval is
   positive (Proofs/SpecAdeleOrder.v sw_enough); with an interval <= 0 the Python loop need not terminate: no fuel *)
Definition sw_fuel (I c : Z) : nat := if 0 <? I then Z.to_nat ((- c) / I + 2) else O.
Definition sw_one_ok (I t : Z) (x : sword) : bool :=
  let '(c, l) := x in match sw_loop (sw_fuel I (c - t)) I (c - t) (l - t) with Some _ => true | None => false end.
Definition sw_one (I t : Z) (x : sword) : sword * nat :=
  let '(c, l) := x in
  match sw_loop (sw_fuel I (c - t)) I (c - t) (l - t) with Some (c', n) => ((c', l - t), n) | None => ((c - t, l - t), O) end.
(* the for loop: `if time_left > 0: result.append((counter, time_left))` *)
Fixpoint sw_map (I t : Z) (l : list sword) : list sword * nat :=
  match l with
  | [] => ([], O)
  | x :: r => let '(y, n) := sw_one I t x in let '(r', m) := sw_map I t r in
              ((if 0 <? snd y then [y] else []) ++ r', (n + m)%nat)
  end.
(* _set_running_swords: drop from the front while 2 * len > max_sword_count *)
Fixpoint sw_trunc (mx : Z) (l : list sword) : list sword :=
  match l with
  | [] => []
  | x :: r => if mx <? 2 * Z.of_nat (length l) then sw_trunc mx r else l
  end.
(* resolving(time, max_sword_count): the swords beyond the capacity leave BEFORE the others tick, the survivors
   are stored through _set_running_swords again *)
Definition sw_resolve (mx I t : Z) (l : list sword) : list sword * nat :=
  let '(r, n) := sw_map I t (sw_trunc mx l) in (sw_trunc mx r, n).
(* no loop of the call runs out of fuel *)
Definition sw_resolve_ok (mx I t : Z) (l : list sword) : bool := forallb (sw_one_ok I t) (sw_trunc mx l).
Definition sw_time_left (l : list sword) : Z := snd (last l (0, 0)).

(* ====================== universal state and parameters ====================== *)
Record xst := mkX {
  x_u : ust;                 (* cooldown, lasting, consumable, periodic(s), stack: as in Comp.v *)
  x_pg : PG.T;               (* programmed_periodic *)
  x_gauge : Z;               (* ether_gauge.stack *)
  x_rl : Z; x_rlad : Z;      (* restore lasting: time_left, assigned_duration *)
  x_sw : list sword          (* order_sword.running_swords *)
}.

Record xpar := mkXP {
  xp : par;
  xp_gmax : Z; xp_cstep : Z; xp_ocons : Z;              (* EtherGauge: maximum_stack, creation_step, order_consume *)
  xp_sper : Z; xp_strig : Z; xp_strig_r : Z; xp_sres : Z;
        (* stack_per_period, int(stack_per_trigger * gain) without / with restore, stack_per_resonance *)
  xp_swi : Z;                                           (* OrderSword.interval *)
  xp_maxsw : Z; xp_maxsw_r : Z;                         (* maximum_stack, restore_maximum_stack *)
  xp_dmgx : dh;                                         (* Blossom: (damage with the exceeded modifier, hit) *)
  xp_last2 : Z;                                         (* Ruin: lasting_duration_second *)
  xp_inf : Z;                                           (* 999_999_999 in ticks *)
  xp_bint : Z; xp_bdef : Z; xp_binc : Z; xp_bmax : Z    (* Cygnus: increase_interval; default, increment, maximum damage *)
}.

Definition setu (s : xst) (u : ust) : xst := mkX u (x_pg s) (x_gauge s) (x_rl s) (x_rlad s) (x_sw s).
Definition setpg (s : xst) v : xst := mkX (x_u s) v (x_gauge s) (x_rl s) (x_rlad s) (x_sw s).
Definition setgauge (s : xst) v : xst := mkX (x_u s) (x_pg s) v (x_rl s) (x_rlad s) (x_sw s).
Definition setrl (s : xst) t a : xst := mkX (x_u s) (x_pg s) (x_gauge s) t a (x_sw s).
Definition setsw (s : xst) v : xst := mkX (x_u s) (x_pg s) (x_gauge s) (x_rl s) (x_rlad s) v.

Definition xres := (xst * list ev)%type.
Definition lift (s : xst) (r : res) : xres := (setu s (fst r), snd r).

Definition sword_count (s : xst) : Z := 2 * Z.of_nat (length (x_sw s)).
Definition rl_on (s : xst) : bool := 0 <? x_rl s.
Definition gauge_inc (p : xpar) (s : xst) (v : Z) : xst := setgauge s (Z.min (xp_gmax p) (x_gauge s + v)).
Definition order_valid (p : xpar) (s : xst) : bool := xp_ocons p <=? x_gauge s.
Definition creation_count (p : xpar) (s : xst) : Z := Z.min (x_gauge s / xp_cstep p) 3 * 2.
Definition max_sw (p : xpar) (s : xst) : Z := if rl_on s then xp_maxsw_r p else xp_maxsw p.

(* AdeleOrderComponent.elapse: cooldown.elapse(time); one dealt event per yield of order_sword.resolving *)
Definition order_elapse (p : xpar) (t : Z) (s : xst) : xres :=
  let '(sw, n) := sw_resolve (max_sw p s) (xp_swi p) t (x_sw s) in
  (setsw (setu s (set_cd (x_u s) (u_cd (x_u s) - t))) sw, EElapsed t :: repeat (dealt (p_pd1 (xp p))) n).

Inductive xcomp :=
| ProgrammedPeriodic | DarkSight | PenalizedBuff | FullDrive | CygnusBlessing
| Ether | Creation | Order | Gathering | Blossom | Ruin | Restore | Storm | AlwaysEnabled.
Inductive xmeth := XUse | XElapse | XTrigger | XResonance | XOrder.

(* use_multiple_damage(state, multiple) with a state-dependent multiple *)
Definition use_multiple (p : par) (n : Z) (u : ust) : res :=
  if negb (avail u) then (u, [EReject])
  else (set_cd u (p_cdA p), repeat (dealt (p_dmg p)) (Z.to_nat n) ++ [EDelay (p_delay p)]).

Definition storm_tick (p : par) (u : ust) : ev := EDealt (fst (p_pd1 p)) (snd (p_pd1 p) * u_stk u).

(* `xreduce pe pg c m p t s`: pe = the Periodic.elapse to use, pg = the ProgrammedPeriodic.resolving to use
   (specification versions in the theorems, executable versions in correspondence runs).
   None = the class has no such reducer. *)
Definition xreduce (pe : P.P -> Z -> P.P) (pg : PG.T -> Z -> PG.T * nat)
                   (c : xcomp) (m : xmeth) (p : xpar) (t : Z) (s : xst) : option xres :=
  let u := x_u s in let q := xp p in
  match c, m with
  (* ---- common_v.py *)
  | ProgrammedPeriodic, XUse =>
      Some (if negb (avail u) then (s, [EReject])
            else (setpg (setu s (set_cd u (p_cdA q))) (PG.set_time_left (x_pg s) (p_lastraw q)),
                  [dealt (p_dmg q); EDelay (p_delay q)]))
  | ProgrammedPeriodic, XElapse =>
      let '(g, n) := pg (x_pg s) t in
      Some (setpg (setu s (set_cd u (u_cd u - t))) g, EElapsed t :: repeat (dealt (p_pd1 q)) n)
  (* ---- thief.py, pirate.py: BuffTrait *)
  | DarkSight, XUse | PenalizedBuff, XUse => Some (lift s (use_buff_trait q u))
  | DarkSight, XElapse | PenalizedBuff, XElapse => Some (lift s (elapse_buff_trait t u))
  (* ---- flora.py: PeriodicWithSimpleDamageTrait *)
  | FullDrive, XUse => Some (lift s (use_periodic_with_simple q u))
  | FullDrive, XElapse => Some (lift s (elapse_periodic_with pe q t u))
  (* ---- cygnus.py: ConsumableBuffTrait *)
  | CygnusBlessing, XUse => Some (lift s (use_consumable_buff_trait q u))
  | CygnusBlessing, XElapse => Some (lift s (elapse_consumable_buff_trait t u))
  (* ---- adele.py *)
  | Ether, XElapse =>
      let r := pe (u_p1 u) t in
      Some (gauge_inc p (setu s (set_p1 u r)) (Z.of_nat (ticks (u_p1 u) r) * xp_sper p), [EElapsed t])
  | Ether, XTrigger => Some (gauge_inc p s (if rl_on s then xp_strig_r p else xp_strig p), [])
  | Ether, XResonance => Some (gauge_inc p s (xp_sres p), [])
  | Ether, XOrder => Some (setgauge s (x_gauge s - xp_ocons p), [])
  | Creation, XElapse => Some (lift s (elapse_simple_attack t u))
  | Creation, XTrigger => Some (lift s (ignore_rejected (use_multiple q (creation_count p s) u)))
  | Order, XElapse => Some (order_elapse p t s)
  | Order, XUse =>
      Some (if negb (order_valid p s && avail u) then (s, [EReject])
            else (setsw (setu s (set_cd u (p_cdA q))) (sw_trunc (max_sw p s) (x_sw s ++ [(0, p_lastraw q)])),
                  [dealt (p_pd1 q); EDelay (p_delay q)]))
  | Gathering, XUse => Some (lift s (use_multiple q (sword_count s) u))
  | Gathering, XElapse => Some (lift s (elapse_simple_attack t u))
  | Blossom, XUse =>
      Some (if negb (avail u && (0 <? sword_count s)) then (s, [EReject])
            else (setu s (set_cd u (p_cdA q)),
                  [dealt (p_dmg q)] ++ repeat (dealt (xp_dmgx p)) (Z.to_nat (sword_count s - 1)) ++ [EDelay (p_delay q)]))
  | Blossom, XElapse => Some (lift s (elapse_simple_attack t u))
  | Ruin, XUse =>
      Some (if negb (avail u) then (s, [EReject])
            else (setu s (set_p2 (set_p1 (set_cd u (p_cdA q))
                                   (P.set_time_left (u_p1 u) (u_ic1 u) (p_lastraw q)))
                                   (P.set_time_left (u_p2 u) (u_ic2 u) (p_lastraw q + xp_last2 p))),
                  [EDelay (p_delay q)]))
  | Ruin, XElapse =>
      let r1 := pe (u_p1 u) t in let r2 := pe (u_p2 u) t in
      Some (setu s (set_p2 (set_p1 (set_cd u (u_cd u - t)) r1) r2),
            EElapsed t :: repeat (dealt (p_pd1 q)) (ticks (u_p1 u) r1) ++ repeat (dealt (p_pd2 q)) (ticks (u_p2 u) r2))
  | Restore, XUse => Some (setrl s (p_last q) (p_last q), [EDelay (p_delay q)])
  | Restore, XElapse => Some (setrl s (x_rl s - t) (x_rlad s), [EElapsed t])
  | Storm, XUse =>
      Some (if sword_count s <=? 0 then (s, [EReject])
            else let r := use_periodic_with_simple q u in
                 if rejected (snd r) then (s, snd r) else (setu s (set_stk (fst r) (sword_count s)), snd r))
  | Storm, XElapse =>
      let r := pe (u_p1 u) t in
      Some (setu s (set_p1 (set_cd u (u_cd u - t)) r), EElapsed t :: repeat (storm_tick q u) (ticks (u_p1 u) r))
  | _, _ => None
  end.

(* specification instance (total; used by the theorems) *)
Definition xreduce_spec := xreduce P.elapse PG.resolving.

(* executable instance: every fuelled loop may answer None (fuel exhausted, never a value) *)
Definition pg_exec (g : PG.T) (t : Z) : PG.T * nat := match PG.resolving_exec g t with Some r => r | None => (g, O) end.
Definition xexec_ok (s : xst) (t : Z) : bool :=
  pe_exec_ok (x_u s) t && match PG.resolving_exec (x_pg s) t with Some _ => true | None => false end.
Definition sw_exec_ok (c : xcomp) (m : xmeth) (p : xpar) (t : Z) (s : xst) : bool :=
  match c, m with Order, XElapse => sw_resolve_ok (max_sw p s) (xp_swi p) t (x_sw s) | _, _ => true end.
Definition xreduce_exec (c : xcomp) (m : xmeth) (p : xpar) (t : Z) (s : xst) : option xres :=
  if negb (xexec_ok s t && sw_exec_ok c m p t s) then None else xreduce pe_exec pg_exec c m p t s.

(* ====================== views ====================== *)
Definition xview_validity (c : xcomp) (p : xpar) (s : xst) : option validity :=
  let u := x_u s in
  match c with
  | ProgrammedPeriodic | Creation => Some (cd_validity (xp p) true u)
  | DarkSight | PenalizedBuff | FullDrive | Ruin => Some (cd_validity (xp p) false u)
  | CygnusBlessing => Some (mkV (C.available (u_cons u)) (Z.max 0 (C.tl (u_cons u))) (Some (C.stack (u_cons u))))
  | Order => Some (mkV (avail u && order_valid p s) (Z.max 0 (u_cd u)) None)
  | Gathering | Blossom | Storm => Some (mkV (avail u && (0 <? sword_count s)) (Z.max 0 (u_cd u)) None)
  | Ether | Restore | AlwaysEnabled => None
  end.

Definition xview_running (c : xcomp) (p : xpar) (s : xst) : option running :=
  let u := x_u s in
  match c with
  | ProgrammedPeriodic => Some (mkR (PG.tl (x_pg s)) (p_lastraw (xp p)) None)
  | DarkSight | PenalizedBuff | CygnusBlessing => Some (mkR (u_ltl u) (u_lad u) None)
  | FullDrive => Some (mkR (P.tl (u_p1 u)) (p_lastraw (xp p)) None)
  | Ether => Some (mkR (xp_inf p) (xp_inf p) (Some (x_gauge s)))
  | Order => Some (mkR (sw_time_left (x_sw s)) (p_lastraw (xp p)) (Some (sword_count s)))
  | Ruin => Some (mkR (P.tl (u_p2 u)) (p_lastraw (xp p) + xp_last2 p) None)
  | Restore => Some (mkR (x_rl s) (x_rlad s) None)
  | Storm => Some (mkR (P.tl (u_p1 u)) (p_lastraw (xp p)) (Some (u_stk u)))
  | AlwaysEnabled => Some (mkR (xp_inf p) (xp_inf p) None)
  | Creation | Gathering | Blossom => None
  end.

(* buff view: None = no buff view / returns None; Some 1 = the configured stat (DarkSight: the sum of the two
   multipliers; PenalizedBuff: advantage), Some 2 = PenalizedBuff's disadvantage; CygnusBlessing: the damage
   multiplier itself (a number, in the units of xp_bdef/xp_binc/xp_bmax) *)
Definition xview_buff (c : xcomp) (p : xpar) (s : xst) : option Z :=
  let u := x_u s in
  match c with
  | DarkSight => if las_on u then Some 1 else None
  | PenalizedBuff => if las_on u then Some 1 else if negb (las_on u || avail u) then Some 2 else None
  | FullDrive => if P.enabled (u_p1 u) then Some 1 else None
  | CygnusBlessing =>
      if las_on u then Some (Z.min (xp_bdef p + xp_binc p * ((u_lad u - u_ltl u) / xp_bint p)) (xp_bmax p)) else None
  | Restore => if rl_on s then Some 1 else None
  | AlwaysEnabled => Some 1
  | _ => None
  end.
