(* C02 -- model of simaple/simulate/base.py `RouterDispatcher` (with `_route_cache`), of the dispatcher
   classes that can be installed into it (`TandemDispatcher`, `ContextDispatcher` of
   simulate/component/base.py, and any primitive dispatcher such as `ReducerMethodWrappingDispatcher`
   or a `named_dispatcher`), and of `EngineBuilder.add_dispatcher` = `install`.
   Definitions only; the proofs are in Proofs/RouterCache.v.

   Faithfulness notes (each line of RouterDispatcher.__call__ has its counterpart here):
   * `_dispatchers` is a Python list that only grows (`install` = append); `_route_cache` is a dict
     signature -> list of dispatcher objects.  The model keeps the list of dispatchers and, in the
     cache, the POSITIONS of the cached dispatchers in that list (object identity = position, since
     nothing is ever removed or reordered).  A dict assignment is modelled by consing a binding
     that shadows older ones (`lookup` returns the newest).
   * `install` does NOT touch `_route_cache` (base.py:205-206), so neither does the model.
   * hit:  `for dispatcher in self._route_cache[signature]: events += dispatcher(action, store)`;
     miss: scan `_dispatchers` in order, `if dispatcher.includes(signature)` append it to the local
     list `cache` and call it; only AFTER the loop `self._route_cache[signature] = cache`.  An
     exception inside the loop therefore leaves the signature uncached (result `None` here) while
     entries written by nested dispatches stay.
   * `TandemDispatcher.__call__`: the base dispatcher first; if its answer contains an event tagged
     REJECT the answer is returned as it is, otherwise the followers run in order on the same action.
   * A `ContextDispatcher` holds a reference to the router it was created for and calls it
     re-entrantly with its `defined_action` (component addons).  The model makes that explicit:
     dispatchers are interpreted relative to a `router` function, the router passes ITSELF with one
     unit of fuel less.  Fuel = bound on the nesting depth (CPython: RecursionError); out of fuel
     is an exception (`None`).
   * The store is mutated in place in Python and threaded as a value here; events are
     concatenated in call order (`events += ...`).  A primitive dispatcher is an arbitrary
     partial function of (action, store) -- `None` = it raised.
   * `RouterDispatcher.includes` (true iff the signature is already cached) is only meaningful
     when a router is installed inside another router; no code path of simaple does that and the
     model has no such constructor. *)
From Coq Require Import List Bool Arith.
Import ListNotations.

Section Router.
  Variables Sig Act St Ev : Type.
  Variable sig_eqb : Sig -> Sig -> bool.          (* equality of dict keys (Python str ==) *)
  Variable sig_of : Act -> Sig.                   (* message_signature *)
  Variable is_reject : Ev -> bool.                (* event["tag"] == Tag.REJECT *)

  Inductive disp : Type :=
  | Prim (inc : Sig -> bool) (call : Act -> St -> option (St * list Ev))
  | Ctx (when : Sig) (defined : Act)              (* ContextDispatcher(context = the enclosing router) *)
  | Tandem (base : disp) (next : list disp).      (* TandemDispatcher *)

  Fixpoint includes (d : disp) (s : Sig) : bool :=
    match d with
    | Prim inc _ => inc s
    | Ctx w _ => sig_eqb s w
    | Tandem b _ => includes b s
    end.

  Definition result := option (St * list Ev).

  (* any client of a router: asks, looks at the answer, asks again ... and finally returns *)
  Inductive client (R : Type) : Type :=
  | Ret (r : R)
  | Ask (a : Act) (st : St) (k : result -> client R).

  (* ---- dispatchers interpreted relative to a router with hidden state X (X = cache, or unit) *)
  Section Call.
    Variable X : Type.
    Variable router : X -> Act -> St -> X * result.

    (* `for dispatcher in self._next_dispatchers: events += dispatcher(action, store)` *)
    Section Next.
      Variable f : disp -> X -> St -> X * result.
      Fixpoint run_next (l : list disp) (x : X) (st : St) (acc : list Ev) {struct l} : X * result :=
        match l with
        | [] => (x, Some (st, acc))
        | d' :: l' =>
            match f d' x st with
            | (x', Some (st', ev')) => run_next l' x' st' (acc ++ ev')
            | (x', None) => (x', None)
            end
        end.
    End Next.

    Fixpoint call_d (d : disp) (x : X) (a : Act) (st : St) {struct d} : X * result :=
      match d with
      | Prim _ f => (x, f a st)
      | Ctx w defined =>
          if sig_eqb (sig_of a) w then router x defined st else (x, Some (st, []))
      | Tandem b nx =>
          match call_d b x a st with
          | (x1, Some (st1, ev1)) =>
              (* `if any(event["tag"] == Tag.REJECT for event in events): return events` (repair of the
                 C07 audit finding F2): a rejected action is reported alone, the followers do not run *)
              if existsb is_reject ev1 then (x1, Some (st1, ev1))
              else run_next (fun d' x' st' => call_d d' x' a st') nx x1 st1 ev1
          | (x1, None) => (x1, None)
          end
      end.

    (* the hit branch: run the dispatchers at the cached positions, in the cached order *)
    Fixpoint run_idx (ds : list disp) (idx : list nat) (x : X) (a : Act) (st : St) (acc : list Ev)
      : X * result :=
      match idx with
      | [] => (x, Some (st, acc))
      | i :: r =>
          match nth_error ds i with
          | None => (x, None)
          | Some d =>
              match call_d d x a st with
              | (x', Some (st', ev')) => run_idx ds r x' a st' (acc ++ ev')
              | (x', None) => (x', None)
              end
          end
      end.

    (* the miss branch: scan the dispatchers from position i on, test `includes`, call, and
       collect the positions of the ones called (the local list `cache`) *)
    Fixpoint run_scan (ds : list disp) (i : nat) (s : Sig) (x : X) (a : Act) (st : St)
             (acc : list Ev) (hit : list nat) : X * option (St * list Ev * list nat) :=
      match ds with
      | [] => (x, Some (st, acc, hit))
      | d :: r =>
          if includes d s then
            match call_d d x a st with
            | (x', Some (st', ev')) => run_scan r (S i) s x' a st' (acc ++ ev') (hit ++ [i])
            | (x', None) => (x', None)
            end
          else run_scan r (S i) s x a st acc hit
      end.

    Fixpoint run_client {R} (cl : client R) (x : X) : X * R :=
      match cl with
      | Ret _ r => (x, r)
      | Ask _ a st k => let '(x', o) := router x a st in run_client (k o) x'
      end.
  End Call.

  (* ---- the route cache *)
  Definition cache := list (Sig * list nat).
  Fixpoint lookup (c : cache) (s : Sig) : option (list nat) :=
    match c with
    | [] => None
    | (s', v) :: r => if sig_eqb s' s then Some v else lookup r s
    end.
  Definition put (c : cache) (s : Sig) (v : list nat) : cache := (s, v) :: c.

  (* RouterDispatcher.__call__ *)
  Fixpoint dispatch_c (fuel : nat) (ds : list disp) (c : cache) (a : Act) (st : St) : cache * result :=
    match fuel with
    | O => (c, None)
    | S n =>
        let s := sig_of a in
        match lookup c s with
        | Some idx => run_idx cache (dispatch_c n ds) ds idx c a st []
        | None =>
            match run_scan cache (dispatch_c n ds) ds 0 s c a st [] [] with
            | (c', Some (st', evs, hit)) => (put c' s hit, Some (st', evs))
            | (c', None) => (c', None)
            end
        end
    end.

  (* the same router without `_route_cache`: filter on every call *)
  Fixpoint dispatch_nc (fuel : nat) (ds : list disp) (u : unit) (a : Act) (st : St) : unit * result :=
    match fuel with
    | O => (tt, None)
    | S n =>
        match run_scan unit (dispatch_nc n ds) ds 0 (sig_of a) tt a st [] [] with
        | (_, Some (st', evs, _)) => (tt, Some (st', evs))
        | (_, None) => (tt, None)
        end
    end.
  Definition answer_nc (fuel : nat) (ds : list disp) (a : Act) (st : St) : result :=
    snd (dispatch_nc fuel ds tt a st).

  (* positions of the dispatchers that include a signature *)
  Fixpoint filter_from (i : nat) (ds : list disp) (s : Sig) : list nat :=
    match ds with
    | [] => []
    | d :: r => if includes d s then i :: filter_from (S i) r s else filter_from (S i) r s
    end.
  Definition filter_idx (ds : list disp) (s : Sig) : list nat := filter_from 0 ds s.

  (* ---- the router object and sequences of operations on it *)
  Record router := { dsp : list disp; rc : cache }.
  Definition new_router : router := {| dsp := []; rc := [] |}.
  Definition install (r : router) (d : disp) : router := {| dsp := dsp r ++ [d]; rc := rc r |}.
  Definition dispatch (fuel : nat) (r : router) (a : Act) (st : St) : router * result :=
    let '(c, o) := dispatch_c fuel (dsp r) (rc r) a st in ({| dsp := dsp r; rc := c |}, o).

  Inductive rop := Install (d : disp) | Dispatch (a : Act) (st : St).

  Fixpoint run_ops (fuel : nat) (r : router) (ops : list rop) : router * list result :=
    match ops with
    | [] => (r, [])
    | Install d :: t => run_ops fuel (install r d) t
    | Dispatch a st :: t =>
        let '(r', o) := dispatch fuel r a st in
        let '(r'', os) := run_ops fuel r' t in (r'', o :: os)
    end.
  Definition serve_c (fuel : nat) (r : router) (ops : list rop) : list result := snd (run_ops fuel r ops).

  Fixpoint serve_nc (fuel : nat) (ds : list disp) (ops : list rop) : list result :=
    match ops with
    | [] => []
    | Install d :: t => serve_nc fuel (ds ++ [d]) t
    | Dispatch a st :: t => answer_nc fuel ds a st :: serve_nc fuel ds t
    end.

  Definition built (ds : list disp) : router := fold_left install ds new_router.
  Definition calls (l : list (Act * St)) : list rop := map (fun p => Dispatch (fst p) (snd p)) l.

  (* what the code guarantees about a cache entry: it is the filter over the dispatchers that
     were installed when the signature was first dispatched, i.e. over some prefix *)
  Definition Coh (ds : list disp) (c : cache) : Prop :=
    forall s idx, lookup c s = Some idx -> idx = filter_idx ds s.
  Definition CohPrefix (ds : list disp) (c : cache) : Prop :=
    forall s idx, lookup c s = Some idx -> exists k, k <= length ds /\ idx = filter_idx (firstn k ds) s.
End Router.

Arguments Prim {Sig Act St Ev}.
Arguments Ctx {Sig Act St Ev}.
Arguments Tandem {Sig Act St Ev}.
Arguments Ret {Act St Ev R}.
Arguments Ask {Act St Ev R}.
Arguments Install {Sig Act St Ev}.
Arguments Dispatch {Sig Act St Ev}.
Arguments dsp {Sig Act St Ev}.
Arguments rc {Sig Act St Ev}.
