(* simulate/base.py play(): pending callbacks kept in the store, queue construction,
   relay of every event exactly once before and once after the next action (C05);
   the timer dispatcher and the clock (C06).  Model and proofs (hand-written, static). *)
From Coq Require Import List ZArith Lia Bool.
Import ListNotations.

Section Play.
  Variables S Pay Name Meth Tag : Type.
  Record event := { ename : Name; emeth : Meth; etag : Tag; epay : Pay }.
  Inductive ameth := Direct (m : Meth) | Emitted (m : Meth) (t : Tag) | Done (m : Meth) (t : Tag).
  Inductive apay := PNone | PTime (t : Z) | PEvent (p : Pay).
  Record action := { aname : Name; am : ameth; ap : apay }.

  Variable router : action -> S -> S * list event.

  Definition emitted (e : event) : action := {| aname := ename e; am := Emitted (emeth e) (etag e); ap := PEvent (epay e) |}.
  Definition done (e : event) : action := {| aname := ename e; am := Done (emeth e) (etag e); ap := PEvent (epay e) |}.
  Definition callbacks (e : event) : action * action := (emitted e, done e).

  Record store := { ent : S; cbs : list (action * action) }.

  (* for emitted, done in previous: queue = [emitted] + queue + [done] *)
  Definition queue (cb : list (action * action)) (a : action) : list action :=
    fold_left (fun q c => fst c :: q ++ [snd c]) cb [a].

  Fixpoint run_queue (q : list action) (s : S) : S * list event * list action :=
    match q with
    | [] => (s, [], [])
    | a :: r => let '(s1, e1) := router a s in let '(s2, e2, tr) := run_queue r s1 in (s2, e1 ++ e2, a :: tr)
    end.

  (* returns new store, events, and the trace of actions handed to the router *)
  Definition play (st : store) (a : action) : store * list event * list action :=
    let '(s', ev, tr) := run_queue (queue (cbs st) a) (ent st) in
    ({| ent := s'; cbs := map callbacks ev |}, ev, tr).

  Lemma queue_gen : forall (cb : list (action * action)) (q : list action),
    fold_left (fun q c => fst c :: q ++ [snd c]) cb q = rev (map fst cb) ++ q ++ map snd cb.
  Proof.
    induction cb as [|c cb IH]; intros q; cbn; [rewrite app_nil_r; reflexivity|].
    rewrite IH. rewrite <- !app_assoc. cbn. rewrite <- app_assoc. reflexivity.
  Qed.
  Lemma queue_spec cb a : queue cb a = rev (map fst cb) ++ [a] ++ map snd cb.
  Proof. apply queue_gen. Qed.

  Lemma run_queue_trace q s : snd (run_queue q s) = q.
  Proof. revert s. induction q as [|a r IH]; intros s; cbn; [reflexivity|]. destruct (router a s) as [s1 e1]. specialize (IH s1). destruct (run_queue r s1) as [[s2 e2] tr]. cbn in *. congruence. Qed.

  (* C05: the actions dispatched at step 2 are exactly: emitted callbacks of step 1's events (reversed), the action, done callbacks *)
  Theorem C05_relay st a1 a2 :
    let '(st1, E1, _) := play st a1 in
    let '(_, _, tr2) := play st1 a2 in
    tr2 = rev (map emitted E1) ++ [a2] ++ map done E1.
  Proof.
    unfold play. destruct (run_queue (queue (cbs st) a1) (ent st)) as [[s1 E1] tr1]. cbn [cbs ent].
    pose proof (run_queue_trace (queue (map callbacks E1) a2) s1) as T.
    destruct (run_queue (queue (map callbacks E1) a2) s1) as [[s2 E2] tr2]. cbn in T. subst tr2.
    rewrite queue_spec, !map_map. reflexivity.
  Qed.

  (* nothing of step 1 survives step 2 *)
  Theorem C05_no_replay st a1 a2 :
    let '(st1, _, _) := play st a1 in
    let '(st2, E2, _) := play st1 a2 in cbs st2 = map callbacks E2.
  Proof.
    unfold play. destruct (run_queue _ (ent st)) as [[s1 E1] tr1]. cbn [cbs ent].
    destruct (run_queue _ s1) as [[s2 E2] tr2]. reflexivity.
  Qed.


  (* each event of step 1 is offered exactly once in each role at step 2, never again at step 3 *)
  Lemma emitted_inj e1 e2 : emitted e1 = emitted e2 -> e1 = e2.
  Proof. destruct e1, e2; unfold emitted; cbn. intros X; inversion X; reflexivity. Qed.
  Lemma done_inj e1 e2 : done e1 = done e2 -> e1 = e2.
  Proof. destruct e1, e2; unfold done; cbn. intros X; inversion X; reflexivity. Qed.

  Theorem C05_trace_is_queue st a :
    let '(_, _, tr) := play st a in tr = rev (map fst (cbs st)) ++ [a] ++ map snd (cbs st).
  Proof.
    unfold play. pose proof (run_queue_trace (queue (cbs st) a) (ent st)) as T.
    destruct (run_queue (queue (cbs st) a) (ent st)) as [[s1 E1] tr1]. cbn in T. subst tr1. apply queue_spec.
  Qed.

  (* checkpoint / restore in between changes nothing: play only reads the store *)
  Variables Ck : Type.
  Variable save : store -> Ck.
  Variable restore : Ck -> store.
  Hypothesis restore_save : forall s, restore (save s) = s.
  Theorem C05_ckpt st1 a2 : play (restore (save st1)) a2 = play st1 a2.
  Proof. rewrite restore_save. reflexivity. Qed.

End Play.

Section Clock.
  Variables S Pay Name Meth Tag : Type.
  Notation event := (event Pay Name Meth Tag).
  Notation action := (action Pay Name Meth Tag).
  Variable clock : S -> Z.
  Variable set_clock : S -> Z -> S.
  Hypothesis clock_set : forall s t, clock (set_clock s t) = t.
  Variable comp : action -> S -> S * list event.            (* all component dispatchers *)
  Hypothesis Hframe : forall a s, clock (fst (comp a s)) = clock s.
  Variable is_star : Name -> bool.
  Variable is_elapse : Meth -> bool.

  Definition elapse_time (a : action) : Z :=
    match am _ _ _ _ a, ap _ _ _ _ a with
    | Direct _ _ m, PTime _ t => if is_star (aname _ _ _ _ a) && is_elapse m then t else 0
    | _, _ => 0
    end.
  Definition router (a : action) (s : S) : S * list event :=
    let '(s1, ev) := comp a s in (set_clock s1 (clock s1 + elapse_time a), ev).

  Lemma run_queue_clock q : forall s, clock (fst (fst (run_queue S Pay Name Meth Tag router q s))) = (clock s + fold_right (fun a acc => elapse_time a + acc) 0 q)%Z.
  Proof.
    induction q as [|a r IH]; intros s; cbn; [lia|].
    unfold router at 1. pose proof (Hframe a s) as F. destruct (comp a s) as [s1 e1]. cbn in F.
    specialize (IH (set_clock s1 (clock s1 + elapse_time a))).
    destruct (run_queue S Pay Name Meth Tag router r (set_clock s1 (clock s1 + elapse_time a))) as [[s2 e2] tr]. cbn in *.
    rewrite IH, clock_set, F. lia.
  Qed.

  Lemma callbacks_no_time (cb : list event) :
    fold_right (fun a acc => elapse_time a + acc)%Z 0%Z (map (emitted Pay Name Meth Tag) cb) = 0%Z /\
    fold_right (fun a acc => elapse_time a + acc)%Z 0%Z (map (done Pay Name Meth Tag) cb) = 0%Z.
  Proof. induction cb as [|e cb [IH1 IH2]]; cbn; [auto|]. rewrite IH1, IH2. auto. Qed.

  Lemma sum_app (l1 l2 : list action) : fold_right (fun a acc => elapse_time a + acc)%Z 0%Z (l1 ++ l2) =
     (fold_right (fun a acc => elapse_time a + acc) 0 l1 + fold_right (fun a acc => elapse_time a + acc) 0 l2)%Z.
  Proof. induction l1; cbn; lia. Qed.
  Lemma sum_rev (l : list action) : fold_right (fun a acc => elapse_time a + acc)%Z 0%Z (rev l) = fold_right (fun a acc => elapse_time a + acc)%Z 0%Z l.
  Proof. induction l; cbn; [reflexivity|]. rewrite sum_app. cbn. lia. Qed.

  (* C06: one play advances the clock by exactly the time of the elapse it was asked for; relayed callbacks add nothing *)
  Theorem C06_play_clock (st : store S Pay Name Meth Tag) (a : action) (E0 : list event) :
    cbs _ _ _ _ _ st = map (callbacks Pay Name Meth Tag) E0 ->
    clock (ent _ _ _ _ _ (fst (fst (play S Pay Name Meth Tag router st a)))) = (clock (ent _ _ _ _ _ st) + elapse_time a)%Z.
  Proof.
    intros Hcb. unfold play.
    pose proof (run_queue_clock (queue Pay Name Meth Tag (cbs _ _ _ _ _ st) a) (ent _ _ _ _ _ st)) as X.
    destruct (run_queue S Pay Name Meth Tag router _ (ent _ _ _ _ _ st)) as [[s' ev] tr]. cbn in *.
    rewrite X, queue_spec, Hcb.
    replace (map fst (map (callbacks Pay Name Meth Tag) E0)) with (map (emitted Pay Name Meth Tag) E0) by (rewrite map_map; reflexivity).
    replace (map snd (map (callbacks Pay Name Meth Tag) E0)) with (map (done Pay Name Meth Tag) E0) by (rewrite map_map; reflexivity).
    rewrite !sum_app, sum_rev.
    destruct (callbacks_no_time E0) as [A B]. rewrite A, B. cbn. lia.
  Qed.
End Clock.
