(* C14 -- character level of the plan DSL: what is inside one ESCAPED_STRING, WORD,
   SIGNED_NUMBER token, and the header separator line.  Definitions only.
   Characters are unicode code points (N).  Each function is the longest/first match Python's
   `re` finds for the terminal's regular expression as Lark compiles it
     ESCAPED_STRING  ".*?(?<!\\)(\\\\)*?"        WORD  [A-Za-z]+
     SIGNED_NUMBER   [+-]?(D+[eE][+-]?D+ | (D+\.D* | \.D+)([eE][+-]?D+)? | D+)
   (tools/lib/h_dsl.py compares them with `re` on generated strings on every run). *)
From Coq Require Import List NArith Bool.
Import ListNotations.
Open Scope N_scope.

Definition chars := list N.
Definition c_quote := 34.  Definition c_bslash := 92.  Definition c_lf := 10.
Definition c_dot := 46.    Definition c_plus := 43.    Definition c_minus := 45.

Definition cons_fst (c : N) (r : option (chars * chars)) : option (chars * chars) :=
  match r with Some (b, t) => Some (c :: b, t) | None => None end.

(* ---- ESCAPED_STRING, after the opening quote: the body runs to the first quote that is
   preceded by an even number of backslashes; `.` does not match a newline *)
Fixpoint scan_str (esc : bool) (s : chars) : option (chars * chars) :=
  match s with
  | [] => None
  | c :: r =>
    if c =? c_lf then None
    else if c =? c_quote then (if esc then cons_fst c (scan_str false r) else Some ([], r))
    else if c =? c_bslash then cons_fst c (scan_str (negb esc) r)
    else cons_fst c (scan_str false r)
  end.
Definition lex_string (s : chars) : option (chars * chars) :=
  match s with c :: r => if c =? c_quote then scan_str false r else None | [] => None end.

(* the names that can stand between two quotes *)
Fixpoint name_ok_from (esc : bool) (s : chars) : bool :=
  match s with
  | [] => negb esc
  | c :: r =>
    if c =? c_lf then false
    else if c =? c_quote then esc && name_ok_from false r
    else if c =? c_bslash then name_ok_from (negb esc) r
    else name_ok_from false r
  end.
Definition name_ok := name_ok_from false.
Definition print_string (n : chars) : chars := c_quote :: n ++ [c_quote].

(* ---- WORD *)
Definition is_letter (c : N) : bool := ((65 <=? c) && (c <=? 90)) || ((97 <=? c) && (c <=? 122)).
Fixpoint spanc (p : N -> bool) (s : chars) : chars * chars :=
  match s with
  | c :: r => if p c then let (a, b) := spanc p r in (c :: a, b) else ([], s)
  | [] => ([], [])
  end.
Definition lex_word (s : chars) : option (chars * chars) :=
  match spanc is_letter s with ([], _) => None | (w, r) => Some (w, r) end.

(* ---- SIGNED_NUMBER *)
Definition is_digit (c : N) : bool := (48 <=? c) && (c <=? 57).
Definition is_sign (c : N) : bool := (c =? c_plus) || (c =? c_minus).
Definition is_e (c : N) : bool := (c =? 101) || (c =? 69).
Definition digits := spanc is_digit.

Definition lex_exp (s : chars) : option (chars * chars) :=       (* [eE][+-]?D+ *)
  match s with
  | c :: r =>
    if is_e c then
      let (sg, r1) := match r with d :: r' => if is_sign d then ([d], r') else ([], r) | [] => ([], r) end in
      match digits r1 with
      | ([], _) => None
      | (ds, r2) => Some (c :: sg ++ ds, r2)
      end
    else None
  | [] => None
  end.
Definition opt_exp (pre : chars) (s : chars) : chars * chars :=
  match lex_exp s with Some (e, r) => (pre ++ e, r) | None => (pre, s) end.
Definition lex_unsigned (s : chars) : option (chars * chars) :=
  let (ip, r) := digits s in
  match ip with
  | [] =>
    match r with
    | c :: r1 => if c =? c_dot then
                   match digits r1 with ([], _) => None | (fp, r2) => Some (opt_exp (c :: fp) r2) end
                 else None
    | [] => None
    end
  | _ :: _ =>
    match r with
    | c :: r1 => if c =? c_dot then let (fp, r2) := digits r1 in Some (opt_exp (ip ++ c :: fp) r2)
                 else match lex_exp r with Some (e, r2) => Some (ip ++ e, r2) | None => Some (ip, r) end
    | [] => Some (ip, [])
    end
  end.
Definition lex_num (s : chars) : option (chars * chars) :=
  match s with
  | c :: r => if is_sign c then cons_fst c (lex_unsigned r) else lex_unsigned s
  | [] => None
  end.

(* the two shapes of repr(float) for a finite float *)
Definition repr_fixed (neg : bool) (ip fp : chars) : chars :=
  (if neg then [c_minus] else []) ++ ip ++ c_dot :: fp.
Definition repr_sci (neg : bool) (d : N) (fp : chars) (eneg : bool) (ed : chars) : chars :=
  (if neg then [c_minus] else []) ++ d :: (match fp with [] => [] | _ => c_dot :: fp end)
  ++ 101 :: (if eneg then c_minus else c_plus) :: ed.
Definition all_digits (s : chars) : bool := forallb is_digit s.
(* the character after a number token in a plan: anything that cannot continue it *)
Definition stops (rest : chars) : Prop :=
  match rest with c :: _ => is_digit c = false /\ c <> c_dot /\ is_e c = false | [] => True end.

(* ---- header: lines, and the line that starts with '---' *)
Definition is_sep_line (l : chars) : bool :=
  match l with a :: b :: c :: _ => (a =? c_minus) && (b =? c_minus) && (c =? c_minus) | _ => false end.
(* the first line can never be the separator (the regex needs "\n---"); lines after it: *)
Fixpoint split_first (ls : list chars) : option (list chars * chars * list chars) :=
  match ls with
  | [] => None
  | l :: r => if is_sep_line l then Some ([], l, r)
              else match split_first r with Some (a, s, b) => Some (l :: a, s, b) | None => None end
  end.
Fixpoint split_last (ls : list chars) : option (list chars * chars * list chars) :=
  match ls with
  | [] => None
  | l :: r => match split_last r with
              | Some (a, s, b) => Some (l :: a, s, b)
              | None => if is_sep_line l then Some ([], l, r) else None
              end
  end.
(* Lark's header regex (first line, any lines, newline, three dashes) is greedy: it ends at the
   LAST line that starts with three dashes; simaple/api/base.py splits the plan at the FIRST one *)
Definition lark_header (first : chars) (ls : list chars) := split_last ls.
Definition api_header (first : chars) (ls : list chars) := split_first ls.
