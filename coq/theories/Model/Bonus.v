(* Model of simaple's bonus-option inference (property C18). DEFINITIONS ONLY.

   Source modelled (statement by statement, names kept):
     simaple/gear/compute/bonus.py      SDIL, SDILTableBuilder, CachedBonusTypeTable,
                                        StatBonusCalculator, BonusCalculator
     simaple/gear/bonus_factory.py      BonusType (17 kinds)
     simaple/gear/improvements/bonus.py per-kind improvement formulas

   Stats are integer valued (Z); only the 11 stat fields the inference reads are modelled
   (STR DEX INT LUK MHP MMP attack_power magic_attack boss_damage_multiplier
   damage_multiplier STR_multiplier).  Exceptions are error values of [result].
   A gear is (req_level, boss_reward, attack table); the attack table [atk] (AttackTypeBonus
   value per grade, the only float computation) is a parameter of the theorems, and
   [atk_formula] below is its exact-rational reading used by the tie. *)
From Coq Require Import ZArith List Bool.
Import ListNotations.
Open Scope Z_scope.

(* ------------------------------------------------------------------ 4-vectors (class SDIL) *)
Definition vec := (Z * Z * Z * Z)%type.
Definition vzero : vec := (0, 0, 0, 0).
Definition vadd (a b : vec) : vec :=
  let '(a1,a2,a3,a4) := a in let '(b1,b2,b3,b4) := b in (a1+b1, a2+b2, a3+b3, a4+b4).
Definition vsub (a b : vec) : vec :=
  let '(a1,a2,a3,a4) := a in let '(b1,b2,b3,b4) := b in (a1-b1, a2-b2, a3-b3, a4-b4).
Definition is_zero (a : vec) : bool :=
  let '(a1,a2,a3,a4) := a in (a1 =? 0) && (a2 =? 0) && (a3 =? 0) && (a4 =? 0).
Definition has_neg (a : vec) : bool :=
  let '(a1,a2,a3,a4) := a in (a1 <? 0) || (a2 <? 0) || (a3 <? 0) || (a4 <? 0).

Fixpoint find_some {A B} (f : A -> option B) (l : list A) : option B :=
  match l with
  | [] => None
  | x :: r => match f x with Some y => Some y | None => find_some f r end
  end.

(* ------------------------------------------------------------------ kinds and stat fields *)
Inductive kind :=
| KSTR | KDEX | KINT | KLUK
| KSTR_DEX | KSTR_INT | KSTR_LUK | KDEX_INT | KDEX_LUK | KINT_LUK
| KMHP | KMMP | KATT | KMATT | KBOSS | KDMG | KALL.

Definition kind_idx (k : kind) : Z :=
  match k with
  | KSTR => 0 | KDEX => 1 | KINT => 2 | KLUK => 3
  | KSTR_DEX => 4 | KSTR_INT => 5 | KSTR_LUK => 6 | KDEX_INT => 7 | KDEX_LUK => 8 | KINT_LUK => 9
  | KMHP => 10 | KMMP => 11 | KATT => 12 | KMATT => 13 | KBOSS => 14 | KDMG => 15 | KALL => 16
  end.
Definition keqb (a b : kind) : bool := kind_idx a =? kind_idx b.
Definition all_kinds : list kind :=
  [KSTR; KDEX; KINT; KLUK; KSTR_DEX; KSTR_INT; KSTR_LUK; KDEX_INT; KDEX_LUK; KINT_LUK;
   KMHP; KMMP; KATT; KMATT; KBOSS; KDMG; KALL].

Inductive coord := cSTR | cDEX | cINT | cLUK | cMHP | cMMP | cATT | cMATT | cBOSS | cDMG | cALL.
Definition coord_idx (c : coord) : Z :=
  match c with
  | cSTR => 0 | cDEX => 1 | cINT => 2 | cLUK => 3 | cMHP => 4 | cMMP => 5 | cATT => 6
  | cMATT => 7 | cBOSS => 8 | cDMG => 9 | cALL => 10
  end.
Definition ceqb (a b : coord) : bool := coord_idx a =? coord_idx b.
Definition all_coords : list coord :=
  [cSTR; cDEX; cINT; cLUK; cMHP; cMMP; cATT; cMATT; cBOSS; cDMG; cALL].

Definition stat := coord -> Z.
Definition vec_of (s : stat) : vec := (s cSTR, s cDEX, s cINT, s cLUK).

(* ------------------------------------------------------------------ gears and improvements *)
Record gear := { req_level : Z; boss : bool; atk : Z -> Z }.

(* SingleStatBonus.calculate_basis / DualStatBonus.calculate_basis *)
Definition single_basis (ge : gear) : Z := req_level ge / 20 + 1.
Definition dual_basis (ge : gear) : Z := req_level ge / 40 + 1.

Definition on1 (c0 : coord) (v : Z) : stat := fun c => if ceqb c c0 then v else 0.
Definition on2 (c0 c1 : coord) (v : Z) : stat := fun c => if ceqb c c0 || ceqb c c1 then v else 0.

(* <Kind>Bonus.calculate_improvement(meta) at grade g, read on the 11 fields *)
Definition impr (ge : gear) (k : kind) (g : Z) : stat :=
  match k with
  | KSTR => on1 cSTR (single_basis ge * g)
  | KDEX => on1 cDEX (single_basis ge * g)
  | KINT => on1 cINT (single_basis ge * g)
  | KLUK => on1 cLUK (single_basis ge * g)
  | KSTR_DEX => on2 cSTR cDEX (dual_basis ge * g)
  | KSTR_INT => on2 cSTR cINT (dual_basis ge * g)
  | KSTR_LUK => on2 cSTR cLUK (dual_basis ge * g)
  | KDEX_INT => on2 cDEX cINT (dual_basis ge * g)
  | KDEX_LUK => on2 cDEX cLUK (dual_basis ge * g)
  | KINT_LUK => on2 cINT cLUK (dual_basis ge * g)
  | KMHP => on1 cMHP (req_level ge / 10 * 30 * g)
  | KMMP => on1 cMMP (req_level ge / 10 * 30 * g)
  | KATT => on1 cATT (atk ge g)
  | KMATT => on1 cMATT (atk ge g)
  | KBOSS => on1 cBOSS (g * 2)
  | KDMG => on1 cDMG g
  | KALL => on1 cALL g
  end.

(* the three grade lists of compute/bonus.py, each as written there *)
Definition grades_single (ge : gear) : list Z :=      (* BonusCalculator.compute: grades *)
  if boss ge then [5;4;6;3;7] else [5;4;6;3;2;1;7].
Definition grades_sdil (ge : gear) : list Z :=        (* StatBonusCalculator.compute: _grades *)
  if boss ge then [5;4;6;3;7] else [5;4;6;3;2;1;7].
Definition grade_range (ge : gear) : list Z :=        (* SDILTableBuilder.build: grade_range *)
  if boss ge then [3;4;5;6;7] else [1;2;3;4;5;6;7].

Definition memZ (x : Z) (l : list Z) : bool := existsb (Z.eqb x) l.
Definition memK (k : kind) (l : list kind) : bool := existsb (keqb k) l.

(* SDILTableBuilder.build(gear)[k][g] *)
Definition sd (ge : gear) (k : kind) (g : Z) : vec :=
  if memZ g (grade_range ge) then vec_of (impr ge k g) else (-1, -1, -1, -1).

Definition stat_types : list kind :=                  (* _stat_types *)
  [KSTR; KDEX; KINT; KLUK; KSTR_DEX; KSTR_INT; KSTR_LUK; KDEX_INT; KDEX_LUK; KINT_LUK].
Definition sdil_table (ge : gear) : list (list vec) :=
  map (fun k => map (sd ge k) [0;1;2;3;4;5;6;7]) stat_types.

(* ------------------------------------------------------------------ candidate table *)
(* SDIL.get_index: bit p set iff value[p] is non-zero, p in range(4) *)
Definition get_index (v : vec) : Z :=
  let '(a,b,c,d) := v in
  (if a =? 0 then 0 else 1) + (if b =? 0 then 0 else 2) + (if c =? 0 then 0 else 4) + (if d =? 0 then 0 else 8).

(* BonusType values in the order of their string names (sorted(..., key=lambda x: x.value)) *)
Definition kinds_by_name : list kind :=
  [KDEX; KDEX_INT; KDEX_LUK; KINT; KINT_LUK; KLUK; KSTR; KSTR_DEX; KSTR_INT; KSTR_LUK].
Definition bit_kinds (p : Z) : list kind :=
  if p =? 0 then [KSTR; KSTR_DEX; KSTR_INT; KSTR_LUK]
  else if p =? 1 then [KDEX; KSTR_DEX; KDEX_INT; KDEX_LUK]
  else if p =? 2 then [KINT; KSTR_INT; KDEX_INT; KINT_LUK]
  else [KLUK; KSTR_LUK; KDEX_LUK; KINT_LUK].
(* CachedBonusTypeTable._get_bonus_types(i) *)
Definition bonus_types_of (i : Z) : list kind :=
  let s := flat_map (fun p => if Z.testbit i p then bit_kinds p else []) [0;1;2;3] in
  filter (fun k => memK k s) kinds_by_name.
Definition lookup_table : list (list kind) :=
  map bonus_types_of [0;1;2;3;4;5;6;7;8;9;10;11;12;13;14;15].
(* CachedBonusTypeTable.get_types(sdil) *)
Definition cands (v : vec) : list kind := nth (Z.to_nat (get_index v)) lookup_table [].

(* ------------------------------------------------------------------ recursive search *)
Section Search.
  Variable K : Type.
  Variable keq : K -> K -> bool.
  Variable sdK : K -> Z -> vec.
  Variable grades : list Z.
  Variable candsK : vec -> list K.

  Definition memG (k : K) (l : list K) : bool := existsb (keq k) l.

  (* StatBonusCalculator._search_bonus_recursive(remaining_sdil, left, forbidden_bonus_types) *)
  Fixpoint rec (left : nat) (rem : vec) (forb : list K) : option (list (K * Z)) :=
    if is_zero rem then Some [] else
    match left with
    | O => None
    | S l' =>
      if has_neg rem then None else
      find_some (fun k =>
        if memG k forb then None else
        find_some (fun g =>
          match rec l' (vsub rem (sdK k g)) (k :: forb) with
          | Some r => Some (r ++ [(k, g)])
          | None => None
          end) grades)
        (candsK rem)
    end.
End Search.

Definition rec_ge (ge : gear) : nat -> vec -> list kind -> option (list (kind * Z)) :=
  rec kind keqb (sd ge) (grades_sdil ge) cands.

(* ------------------------------------------------------------------ heuristic first phase *)
Definition max_value (v : vec) : Z := let '(a,b,c,d) := v in Z.max (Z.max a b) (Z.max c d).
(* value.index(max(value)) : the first maximal coordinate *)
Definition max_kind (v : vec) : kind :=
  let '(a,b,c,d) := v in
  let m := max_value v in
  if a =? m then KSTR else if b =? m then KDEX else if c =? m then KINT else KLUK.

Definition sumZ (l : list Z) : Z := fold_right Z.add 0 l.

(* itertools.product(grades, repeat=n), in its order *)
Fixpoint tuples (grades : list Z) (n : nat) : list (list Z) :=
  match n with
  | O => [[]]
  | S n' => flat_map (fun g => map (cons g) (tuples grades n')) grades
  end.

(* itertools.combinations(l, n), in its order *)
Fixpoint combs {A} (l : list A) (n : nat) : list (list A) :=
  match n with
  | O => [[]]
  | S n' => match l with
            | [] => []
            | x :: r => map (cons x) (combs r n') ++ combs r (S n')
            end
  end.

(* SDIL.decompose_into_grades, the generator written out as the list of what it yields *)
Definition decompose (grades : list Z) (left : nat) (sb db maxv : Z) : list (Z * option (list Z)) :=
  flat_map (fun count : nat =>
    flat_map (fun sg =>
      let lv := maxv - sg * sb in
      (if lv =? 0 then [(sg, None)] else []) ++
      (if lv mod db =? 0
       then map (fun t => (sg, Some t)) (filter (fun t => sumZ t =? lv / db) (tuples grades (count - 1)))
       else []))
      grades)
    (seq 1 left).

Definition dual_types (k : kind) : list kind :=       (* _dual_bonus_types *)
  match k with
  | KSTR => [KSTR_DEX; KSTR_INT; KSTR_LUK]
  | KDEX => [KSTR_DEX; KDEX_INT; KDEX_LUK]
  | KINT => [KSTR_INT; KDEX_INT; KINT_LUK]
  | KLUK => [KSTR_LUK; KDEX_LUK; KINT_LUK]
  | _ => []
  end.

(* StatBonusCalculator._calculate_sdil *)
Definition calc_sdil (ge : gear) (ts : list kind) (gs : list Z) : vec :=
  fold_left (fun acc kg => vadd acc (sd ge (fst kg) (snd kg))) (combine ts gs) vzero.

(* the loop over combinations; [rem] is the loop-carried remaining_sdil (decremented
   cumulatively, as coded) *)
Fixpoint combos_loop (ge : gear) (lc : nat) (mk : kind) (sg : Z) (dgs : list Z)
         (rem : vec) (cs : list (list kind)) : option (list (kind * Z)) :=
  match cs with
  | [] => None
  | dt :: cs' =>
    let rem' := vsub rem (calc_sdil ge dt dgs) in
    match rec_ge ge lc rem' (mk :: dt) with
    | Some r => Some (r ++ [(mk, sg)] ++ combine dt dgs)
    | None => combos_loop ge lc mk sg dgs rem' cs'
    end
  end.

(* body of the loop over the decompositions *)
Definition try_decomp (ge : gear) (left : nat) (target : vec) (mk : kind)
           (d : Z * option (list Z)) : option (list (kind * Z)) :=
  let '(sg, odg) := d in
  let rem0 := vsub target (sd ge mk sg) in
  match odg with
  | None =>
    match rec_ge ge (left - 1) rem0 [mk] with
    | Some r => Some (r ++ [(mk, sg)])
    | None => None
    end
  | Some dgs =>
    combos_loop ge (left - (1 + length dgs)) mk sg dgs rem0 (combs (dual_types mk) (length dgs))
  end.

(* StatBonusCalculator._search_bonus(target_sdil, gear, left) *)
Definition search_bonus (ge : gear) (target : vec) (left : nat) : option (list (kind * Z)) :=
  if is_zero target then Some [] else
  match find_some (try_decomp ge left target (max_kind target))
                  (decompose (grades_sdil ge) left (single_basis ge) (dual_basis ge) (max_value target)) with
  | Some r => Some r
  | None => rec_ge ge left target []
  end.

(* ------------------------------------------------------------------ single-valued options *)
Definition single_props : list (coord * kind) :=
  [(cMHP, KMHP); (cMMP, KMMP); (cATT, KATT); (cMATT, KMATT); (cBOSS, KBOSS); (cDMG, KDMG); (cALL, KALL)].

Definition find_grade (ge : gear) (obs : stat) (c : coord) (k : kind) : option Z :=
  find (fun g => impr ge k g c =? obs c) (grades_single ge).

Fixpoint singles (ge : gear) (obs : stat) (props : list (coord * kind)) : list (kind * Z) + kind :=
  match props with
  | [] => inl []
  | (c, k) :: r =>
    if 0 <? obs c then
      match find_grade ge obs c k with
      | Some g => match singles ge obs r with inl l => inl ((k, g) :: l) | inr e => inr e end
      | None => inr k
      end
    else singles ge obs r
  end.

Inductive result :=
| Ok (l : list (kind * Z))
| ErrInvalidAt (k : kind)      (* "gear stat has invalid bonus at <kind>" *)
| ErrTooMany                   (* "gear stat has too many bonus values" *)
| ErrSdil.                     (* "gear stat has invalid bonus value or has too many bonus values" *)

Definition max_bonus : Z := 4.                        (* _MAX_BONUS *)

(* BonusCalculator.compute(stat, gear), up to the final sort *)
Definition compute (ge : gear) (obs : stat) : result :=
  match singles ge obs single_props with
  | inr k => ErrInvalidAt k
  | inl sl =>
    let left := max_bonus - Z.of_nat (length sl) in
    if left <? 0 then ErrTooMany else
    match search_bonus ge (vec_of obs) (Z.to_nat left) with
    | None => ErrSdil
    | Some l => Ok (sl ++ l)
    end
  end.

(* sum of the improvements of a list of options, per field *)
Definition ssum (ge : gear) (l : list (kind * Z)) : stat :=
  fun c => fold_right (fun kg acc => impr ge (fst kg) (snd kg) c + acc) 0 l.

(* ------------------------------------------------------------------ AttackTypeBonus value *)
Inductive wclass := WArmor | WWeapon | WZeroB | WZeroL.

(* grade_multiplier x 10000 *)
Definition gm_boss : list Z := [0; 0; 10000; 14666; 20166; 26630; 34166].
Definition gm_normal : list Z := [10000; 22220; 36300; 53250; 73200; 87770; 102500].
Definition zl_basis (b : Z) : Z :=
  if b =? 100 then 102 else if b =? 103 then 105 else if b =? 105 then 107 else if b =? 112 then 114
  else if b =? 117 then 121 else if b =? 135 then 139 else if b =? 169 then 173 else if b =? 203 then 207
  else if b =? 293 then 297 else if b =? 337 then 342 else b.
Definition level_multiplier (w : wclass) (bo : bool) (lvl : Z) : Z :=
  match w with
  | WZeroB | WZeroL => if 180 <? lvl then 6 else if 160 <? lvl then 5 else if 110 <? lvl then 4 else 3
  | _ => if bo then (if 160 <? lvl then 18 else if 150 <? lvl then 15 else if 110 <? lvl then 12 else 9)
         else (if 110 <? lvl then 4 else 3)
  end.
(* ceil(basis * grade_multiplier[g-1] * level_multiplier / 100), exact *)
Definition atk_formula (w : wclass) (bo : bool) (lvl basis : Z) (g : Z) : Z :=
  match w with
  | WArmor => g
  | _ =>
    let b := match w with WZeroL => zl_basis basis | _ => basis end in
    let m := nth (Z.to_nat (g - 1)) (if bo then gm_boss else gm_normal) 0 in
    - ((- (b * m * level_multiplier w bo lvl)) / 1000000)
  end.

Definition mk_gear (w : wclass) (bo : bool) (lvl basis : Z) : gear :=
  {| req_level := lvl; boss := bo; atk := atk_formula w bo lvl basis |}.

(* ------------------------------------------------------------------ helpers of the correspondence shards *)
Definition mk_obs (l : list Z) : stat := fun c => nth (Z.to_nat (coord_idx c)) l 0.
Definition stat_list (s : stat) : list Z := map s all_coords.

Fixpoint insertZ (x : Z) (l : list Z) : list Z :=
  match l with [] => [x] | y :: r => if x <=? y then x :: l else y :: insertZ x r end.
Definition sortZ (l : list Z) : list Z := fold_right insertZ [] l.
Definition code (kg : kind * Z) : Z := kind_idx (fst kg) * 10 + snd kg.

(* canonical form of a result: -1 :: sorted codes | error code *)
Definition canon (r : result) : list Z :=
  match r with
  | Ok l => (-1) :: sortZ (map code l)
  | ErrInvalidAt k => [-2; kind_idx k]
  | ErrTooMany => [-3]
  | ErrSdil => [-4]
  end.
Fixpoint eqlZ (a b : list Z) : bool :=
  match a, b with
  | [], [] => true
  | x :: a', y :: b' => (x =? y) && eqlZ a' b'
  | _, _ => false
  end.
