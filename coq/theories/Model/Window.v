(* C13, best dealing window.  Hand-written executable model of
     simaple/simulate/report/feature.py  MaximumDealingIntervalFeature
       ._compute_dealing                 -> compute_dealing
       ._find_maximum_dealing_interval   -> step / find_maximum_dealing_interval
       .find_maximum_dealing_interval    -> feature_of_entries
   statement by statement, plus the naive specification it is proved equal to
   (Proofs/Window.v).  Definitions only.

   Numbers.  Clocks, damages and the requested length are Z: the code touches them only with
   + - and comparisons, so any finite set of binary64/dyadic values can be scaled by one
   power of two to integers without changing any branch (float rounding of the running sum
   is outside the model).  Indices are nat: they start at 0 and are only incremented.

   damage_seq : list (clock, damage).
   Subscripts out of range raise IndexError in Python: nth_error ... = None -> Raise.
   `while True` runs on nat fuel 2*len+2 (Proofs/Window.v: never exhausted, for any input).

   gen/WindowSrc.v is the same function regenerated from the current source by
   tools/tr_window.py; Proofs/WindowTie.v proves the two equal. *)
From Coq Require Import ZArith List Bool Arith.
From V.Lib Require Import PyLoop.
Import ListNotations.
Open Scope Z_scope.

Definition damage_seq_t := list (Z * Z).

(* damage_seq[s:e] summed left to right from 0.0 (the for loop of _compute_dealing) *)
Definition slice_sum (l : damage_seq_t) (s e : nat) : Z :=
  fold_left (fun (acc : Z) (it : Z * Z) => acc + snd it) (slice l s e) 0.

(*  start_clk = damage_seq[start][0]; end_clk = damage_seq[end][0]
    interval = end_clk - start_clk
    if interval == 0: return 0, 0
    total_damage = 0.0; for clk, damage in damage_seq[start:end]: total_damage += damage
    return interval, total_damage                                                        *)
Definition compute_dealing (l : damage_seq_t) (s e : nat) : option (Z * Z) :=
  match nth_error l s with
  | None => None
  | Some a =>
    match nth_error l e with
    | None => None
    | Some b =>
      let interval := fst b - fst a in
      if interval =? 0 then Some (0, 0) else Some (interval, slice_sum l s e)
    end
  end.

(* loop state: (start, end, best_dealing, best_start, best_end) *)
Definition st := (nat * nat * Z * nat * nat)%type.
Definition st_start (x : st) : nat := let '(s, _, _, _, _) := x in s.
Definition st_end (x : st) : nat := let '(_, e, _, _, _) := x in e.
Definition st_best (x : st) : Z * nat * nat := let '(_, _, b, bs, be) := x in (b, bs, be).

(* one pass through the body of `while True:` *)
Definition step (L : Z) (l : damage_seq_t) (x : st) : outcome st :=
  let '(s, e, best, bs, be) := x in
  (* if end >= len(damage_seq): break *)
  if (length l <=? e)%nat then Break (s, e, best, bs, be) else
  (* the rest of the body after the equal-clock test *)
  let rest :=
    (* interval, dealing = self._compute_dealing(damage_seq, start, end) *)
    match compute_dealing l s e with
    | None => Raise
    | Some (interval, dealing) =>
      (* if interval < self.interval: end += 1; continue *)
      if interval <? L then Continue (s, (e + 1)%nat, best, bs, be) else
      (* if dealing > best_dealing: best_dealing, best_start, best_end = dealing, start, end *)
      if best <? dealing then Continue ((s + 1)%nat, e, dealing, s, e)
      (* start += 1 *)
      else Continue ((s + 1)%nat, e, best, bs, be)
    end in
  (* if end + 1 < len(damage_seq) and damage_seq[end + 1][0] == damage_seq[start][0]:
         end += 1; continue                                                          *)
  if (e + 1 <? length l)%nat then
    match nth_error l (e + 1) with
    | None => Raise
    | Some a =>
      match nth_error l s with
      | None => Raise
      | Some b => if fst a =? fst b then Continue (s, (e + 1)%nat, best, bs, be) else rest
      end
    end
  else rest.

Definition init : st := (0%nat, 0%nat, 0, 0%nat, 0%nat).
Definition fuel_of (l : damage_seq_t) : nat := 2 * length l + 2.

(* _find_maximum_dealing_interval(damage_seq) with self.interval = L:
   returns (best_dealing, best_start, best_end) *)
Definition find_maximum_dealing_interval (L : Z) (l : damage_seq_t) : result (Z * nat * nat) :=
  match while_true (step L l) (fuel_of l) init with
  | Ok x => Ok (st_best x)
  | IndexError => IndexError
  | OutOfFuel => OutOfFuel
  end.

(* find_maximum_dealing_interval(entries, calculator): damage_seq.append((entry.clock,
   calculator.calculate_damage(entry))) for every entry; an entry is (clock, damages of its logs) *)
Definition entry_damage (logs : list Z) : Z := fold_left Z.add logs 0.
Definition feature_of_entries (L : Z) (es : list (Z * list Z)) : result (Z * nat * nat) :=
  find_maximum_dealing_interval L (map (fun e => (fst e, entry_damage (snd e))) es).

(* ---------------------------------------------------------------- specification *)
Definition clk (l : damage_seq_t) (i : nat) : Z := fst (nth i l (0, 0)).

(* least e in e0, e0+1, ..., e0+k-1 with clk e - clk s >= L *)
Fixpoint find_end (L : Z) (l : damage_seq_t) (s e0 k : nat) : option nat :=
  match k with
  | O => None
  | S k' => if L <=? clk l e0 - clk l s then Some e0 else find_end L l s (S e0) k'
  end.
Definition e_of (L : Z) (l : damage_seq_t) (s : nat) : option nat := find_end L l s s (length l - s).

(* keep the first strict maximum *)
Definition upd (L : Z) (l : damage_seq_t) (b : Z * nat * nat) (s : nat) : Z * nat * nat :=
  match e_of L l s with
  | None => b
  | Some e => let w := slice_sum l s e in let '(bw, _, _) := b in if bw <? w then (w, s, e) else b
  end.
(* starts s0, s0+1, ..., s0+k-1 *)
Fixpoint naive_from (L : Z) (l : damage_seq_t) (b : Z * nat * nat) (s0 k : nat) : Z * nat * nat :=
  match k with
  | O => b
  | S k' => naive_from L l (upd L l b s0) (S s0) k'
  end.
(* exhaustive search: for every start index the shortest window whose clock span reaches L *)
Definition naive (L : Z) (l : damage_seq_t) : Z * nat * nat := naive_from L l (0, 0%nat, 0%nat) 0 (length l).

(* executable forms of the theorems' hypotheses (used by the correspondence shards to confirm
   that a generated case lies inside the theorems' domain; soundness in Proofs/WindowSpec.v) *)
Fixpoint sortedb (l : damage_seq_t) : bool :=
  match l with
  | [] => true
  | a :: t => match t with [] => true | b :: _ => (fst a <=? fst b) && sortedb t end
  end.
Definition nonnegb (l : damage_seq_t) : bool := forallb (fun it => 0 <=? snd it) l.
