(* C18: boolean comparisons "the table the hand-written model computes = the table the real
   code builds" (gen/BonusTbl.v is regenerated from /repo on every run by tools/tr_bonus.py), and
   "the real candidate table is complete".  DEFINITIONS ONLY, so that the check can evaluate each
   of them separately when Proofs/BonusTie.v no longer compiles. *)
From Coq Require Import ZArith List Bool.
From V.Model Require Import Bonus.
From G Require Import BonusTbl.
Import ListNotations.
Open Scope Z_scope.

Definition kl_eqb (a b : list kind) : bool := eqlZ (map kind_idx a) (map kind_idx b).
Definition vec_eqb (a b : vec) : bool :=
  let '(a1,a2,a3,a4) := a in let '(b1,b2,b3,b4) := b in (a1 =? b1) && (a2 =? b2) && (a3 =? b3) && (a4 =? b4).
Fixpoint list_eqb {A} (e : A -> A -> bool) (a b : list A) : bool :=
  match a, b with
  | [], [] => true
  | x :: a', y :: b' => e x y && list_eqb e a' b'
  | _, _ => false
  end.
Definition pair_eqb (a b : Z * Z) : bool := (fst a =? fst b) && (snd a =? snd b).

(* literals of compute/bonus.py *)
Definition constants_ok : bool :=
  (max_bonus =? real_max_bonus) && (real_table_rows =? 8) &&
  kl_eqb stat_types real_stat_types &&
  forallb (fun b : bool =>
    let ge := {| req_level := 0; boss := b; atk := fun g => g |} in
    eqlZ (grades_single ge) (if b then real_grades_single_boss else real_grades_single_normal) &&
    eqlZ (grades_sdil ge) (if b then real_grades_sdil_boss else real_grades_sdil_normal) &&
    eqlZ (grade_range ge) (if b then real_grade_range_boss else real_grade_range_normal)) [true; false] &&
  list_eqb (fun a b => keqb (fst a) (fst b) && kl_eqb (snd a) (snd b))
           (map (fun k => (k, dual_types k)) [KSTR; KDEX; KINT; KLUK]) real_dual_types &&
  list_eqb (fun a b => ceqb (fst a) (fst b) && keqb (snd a) (snd b)) single_props real_single_props.

(* CachedBonusTypeTable().lookup and SDIL.get_index *)
Definition lookup_ok : bool := list_eqb kl_eqb lookup_table real_lookup.
Definition index_ok : bool := forallb (fun vi => get_index (fst vi) =? snd vi) real_index.

(* SDILTableBuilder().build(gear) for every listed level (both ends of each 10-level band), boss and non-boss *)
Definition sdil_tables_ok : bool :=
  forallb (fun e => let '(lvl, b, t) := e in
                    list_eqb (list_eqb vec_eqb) (sdil_table (mk_gear WArmor b lvl 0)) t) real_sdil_tables.

(* <Kind>Bonus.calculate_improvement for the listed gears, kinds, every valid grade *)
Definition sparse (s : stat) : list (Z * Z) :=
  filter (fun cv => negb (snd cv =? 0)) (map (fun c => (coord_idx c, s c)) all_coords).
Definition impr_ok : bool :=
  forallb (fun e => let '((w, b, lvl, basis), ks) := e in
    let ge := mk_gear w b lvl basis in
    forallb (fun kr => let '(k, rows) := kr in
      list_eqb (list_eqb pair_eqb) (map (fun g => sparse (impr ge k g)) (grade_range ge)) rows) ks) real_impr.

(* the REAL candidate table offers every kind whose table entry is non-zero only where the
   remainder is non-zero (support read off the real level-160 table, grade 5) *)
Definition support_le (v rem : vec) : bool :=
  let '(a1,a2,a3,a4) := v in let '(b1,b2,b3,b4) := rem in
  ((a1 =? 0) || negb (b1 =? 0)) && ((a2 =? 0) || negb (b2 =? 0)) &&
  ((a3 =? 0) || negb (b3 =? 0)) && ((a4 =? 0) || negb (b4 =? 0)).
Definition real_cands_ok : bool :=
  match find (fun e => let '(lvl, b, _) := e in (lvl =? 160) && negb b) real_sdil_tables with
  | None => false
  | Some (_, _, t) =>
    forallb (fun vi => let '(rem, i) := vi in
      forallb (fun kr => let '(k, row) := kr in
        implb (support_le (nth 5 row vzero) rem) (memK k (nth (Z.to_nat i) real_lookup [])))
        (combine real_stat_types t)) real_index
  end.
