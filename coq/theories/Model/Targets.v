(* C19 (real targets) -- glue between the GENERATED objectives (gen/Targets.v, regenerated from simaple/system/*.py,
   simaple/optimizer/*_optimizer.py and the shipped data on every run) and the optimizer model Model/Greedy.v.
   Definitions only, no proofs.

   * `logic`: the five damage logics of gen/CoreQ.v (each its own record there) under one type; `logic_df L` is what
     `damage_logic.get_damage_factor(stat, armor=...)` computes.
   * `T_value` / `T_cost` for T in hyper / squad / occ / link: the REAL target object built by the generated constructor
     `<T>Target_init`, put into the state `st` by the generated `set_state`, read by the generated `get_value` / `get_cost`;
     made total with 0 where the Python call would raise (wrong state length, a level outside a table).
   * boolean table checks (`chain_ok`, `costs_ok`, ...) that Proofs/Targets*.v run by vm_compute on the generated tables. *)
From Coq Require Import List ZArith QArith Bool String.
From V.Model Require Import Greedy TargetsRt.
From V.Model Require Export TargetsLogic.
From G Require Import CoreQ Targets.
Import ListNotations.
Close Scope Q_scope.
Open Scope Z_scope.

(* the optimizer's state (Model/Greedy.v: list nat) as the Python list of ints *)
Definition zs (st : state) : list Z := map Z.of_nat st.

Definition qz (z : Z) : Q := inject_Z z.

(* ------------------------------------------------------------------ hyper stat *)
Definition hyper_target (df : Stat -> Q -> Q) (default : Stat) (armor : Q) (proto : Hyperstat) (st : state) : HyperstatTarget :=
  HyperstatTarget_set_state (HyperstatTarget_init default df proto armor) (zs st).

Definition hyper_value_opt (L : logic) (default : Stat) (armor : Q) (st : state) : option Q :=
  HyperstatTarget_get_value (hyper_target (logic_df L) default armor get_kms_hyperstat st).
Definition hyper_cost_opt (st : state) : option Z :=
  HyperstatTarget_get_cost (hyper_target (fun _ _ => 0%Q) Stat_zero 0%Q get_kms_hyperstat st).

Definition hyper_value (L : logic) (default : Stat) (armor : Q) (st : state) : Q := odflt 0%Q (hyper_value_opt L default armor st).
Definition hyper_cost (st : state) : Q := qz (odflt 0 (hyper_cost_opt st)).
(* the maximum step the constructor configures (NO_MAXIMUM_STEP), kept symbolic: never evaluated in unary *)
Definition hyper_M : nat :=
  Z.to_nat (HyperstatTarget_maximum_step (HyperstatTarget_init Stat_zero (fun _ _ => 0%Q) get_kms_hyperstat 0%Q)).
(* per-slot cap of the tables: the last level an option list holds *)
Definition hyper_caps : list nat := map (fun o => List.length (snd o) - 1)%nat (Hyperstat_options get_kms_hyperstat).
(* the cheapest state that leaves a table costs this much *)
Definition hyper_cost_beyond_tables : Z :=
  Hyperstat_get_cost_for_level get_kms_hyperstat (Z.of_nat (S (fold_right Nat.max 0%nat hyper_caps))).

Fixpoint within (caps : list nat) (st : state) : Prop :=
  match caps, st with
  | [], [] => True
  | c :: caps', x :: st' => (x <= c)%nat /\ within caps' st'
  | _, _ => False
  end.
Fixpoint within_b (caps : list nat) (st : state) : bool :=
  match caps, st with
  | [], [] => true
  | c :: caps', x :: st' => (x <=? c)%nat && within_b caps' st'
  | _, _ => false
  end.

(* ------------------------------------------------------------------ union squad *)
(* any squad over the shipped blocks: `sizes` is UnionSquad.block_size *)
Definition squad_of (sizes : list Z) : UnionSquad := mkUnionSquad sizes data_all_blocks.

Definition squad_target (df : Stat -> Q -> Q) (default : Stat) (armor : Q) (squad : UnionSquad) (st : state)
  : option UnionSquadTarget :=
  match UnionSquadTarget_init default df squad [] armor with
  | Some t => Some (UnionSquadTarget_set_state t (zs st))
  | None => None
  end.

Definition squad_value_opt (L : logic) (default : Stat) (armor : Q) (sizes : list Z) (st : state) : option Q :=
  match squad_target (logic_df L) default armor (squad_of sizes) st with
  | Some t => UnionSquadTarget_get_value t
  | None => None
  end.
Definition squad_cost_opt (sizes : list Z) (st : state) : option Z :=
  match squad_target (fun _ _ => 0%Q) Stat_zero 0%Q (squad_of sizes) st with
  | Some t => Some (UnionSquadTarget_get_cost t)
  | None => None
  end.
Definition squad_value (L : logic) (default : Stat) (armor : Q) (sizes : list Z) (st : state) : Q :=
  odflt 0%Q (squad_value_opt L default armor sizes st).
Definition squad_cost (sizes : list Z) (st : state) : Q := qz (odflt 0 (squad_cost_opt sizes st)).
Definition squad_M (sizes : list Z) : nat :=
  match UnionSquadTarget_init Stat_zero (fun _ _ => 0%Q) (squad_of sizes) [] 0%Q with
  | Some t => Z.to_nat (UnionSquadTarget_maximum_step t)
  | None => 0%nat
  end.
(* block sizes for which every block's get_stat is defined: 0 .. number of options *)
Definition sizes_ok (sizes : list Z) : bool :=
  forallb (fun bs => (0 <=? snd bs) && (snd bs <=? py_len (UnionBlock_options (fst bs)))) (combine data_all_blocks sizes).

(* ------------------------------------------------------------------ union occupation *)
Definition occ_proto : UnionOccupation := mkUnionOccupation get_empty_union_occupation_state data_union_occupation_values.

Definition occ_target (df : Stat -> Q -> Q) (default : Stat) (armor : Q) (st : state) : UnionOccupationTarget :=
  UnionOccupationTarget_set_state (UnionOccupationTarget_init default df occ_proto armor) (zs st).
Definition occ_value_opt (L : logic) (default : Stat) (armor : Q) (st : state) : option Q :=
  UnionOccupationTarget_get_value (occ_target (logic_df L) default armor st).
Definition occ_value (L : logic) (default : Stat) (armor : Q) (st : state) : Q := odflt 0%Q (occ_value_opt L default armor st).
Definition occ_cost (st : state) : Q := qz (UnionOccupationTarget_get_cost (occ_target (fun _ _ => 0%Q) Stat_zero 0%Q st)).
Definition occ_M : nat := Z.to_nat (UnionOccupationTarget_maximum_step (UnionOccupationTarget_init Stat_zero (fun _ _ => 0%Q) occ_proto 0%Q)).
Definition occ_caps : list nat := map (fun row => List.length row - 1)%nat data_union_occupation_values.

(* ------------------------------------------------------------------ link skills *)
Definition linkset_of (levels : list Z) : LinkSkillset := mkLinkSkillset levels data_all_linkskills.

Definition link_target (df : Stat -> Q -> Q) (default : Stat) (armor : Q) (ls : LinkSkillset) (st : state)
  : option LinkSkillTarget :=
  match LinkSkillTarget_init default df ls [] armor with
  | Some t => Some (LinkSkillTarget_set_state t (zs st))
  | None => None
  end.
Definition link_value_opt (L : logic) (default : Stat) (armor : Q) (levels : list Z) (st : state) : option Q :=
  match link_target (logic_df L) default armor (linkset_of levels) st with
  | Some t => LinkSkillTarget_get_value t
  | None => None
  end.
Definition link_cost_opt (levels : list Z) (st : state) : option Z :=
  match link_target (fun _ _ => 0%Q) Stat_zero 0%Q (linkset_of levels) st with
  | Some t => Some (LinkSkillTarget_get_cost t)
  | None => None
  end.
Definition link_value (L : logic) (default : Stat) (armor : Q) (levels : list Z) (st : state) : Q :=
  odflt 0%Q (link_value_opt L default armor levels st).
Definition link_cost (levels : list Z) (st : state) : Q := qz (odflt 0 (link_cost_opt levels st)).
Definition link_M (levels : list Z) : nat :=
  match LinkSkillTarget_init Stat_zero (fun _ _ => 0%Q) (linkset_of levels) [] 0%Q with
  | Some t => Z.to_nat (LinkSkillTarget_maximum_step t)
  | None => 0%nat
  end.
Definition levels_ok (levels : list Z) : bool :=
  forallb (fun ll => (0 <=? snd ll) && (snd ll <=? py_len (LinkSkill_options (fst ll)))) (combine data_all_linkskills levels).

(* ------------------------------------------------------------------ boolean table checks *)
Definition qle (a b : Q) : bool := Qle_bool a b.

(* every field >= 0 and ignored defence <= 100 (the region in which Stat.__add__ is monotone) *)
Definition good_b (x : Stat) : bool :=
  forallb (fun f : Stat -> Q => qle 0%Q (f x)) Stat_fields && qle (Stat_ignored_defence x) 100%Q.
Definition stat_leb (x y : Stat) : bool := forallb (fun f : Stat -> Q => qle (f x) (f y)) Stat_fields.

(* a table by level / size: every entry good, each entry <= the next in every field *)
Fixpoint chain_ok (l : list Stat) : bool :=
  match l with
  | [] => true
  | x :: r => good_b x && match r with [] => true | y :: _ => stat_leb x y end && chain_ok r
  end.

Definition costs_ok (cost : list Z) : bool := forallb (fun c => 0 <=? c) cost.

Fixpoint nodup_b (l : list string) : bool :=
  match l with
  | [] => true
  | x :: r => negb (existsb (String.eqb x) r) && nodup_b r
  end.

Definition hyper_tables_ok : bool :=
  forallb (fun o => chain_ok (snd o) && negb (Nat.eqb (List.length (snd o)) 0)) (Hyperstat_options get_kms_hyperstat)
  && costs_ok (Hyperstat_cost get_kms_hyperstat).
Definition squad_tables_ok : bool :=
  forallb (fun b => chain_ok (UnionBlock_options b)) data_all_blocks && nodup_b (map UnionBlock_job data_all_blocks).
Definition occ_tables_ok : bool :=
  forallb (fun row => chain_ok (map fst row) && negb (Nat.eqb (List.length row) 0)) data_union_occupation_values.
Definition link_tables_ok : bool := forallb (fun l => chain_ok (LinkSkill_options l)) data_all_linkskills.

(* Hyperstat.get_maximum_cost_from_level over character levels 0..n *)
Definition max_budget_upto (n : nat) : Z :=
  fold_right Z.max 0 (map (fun k => Hyperstat_get_maximum_cost_from_level (Z.of_nat k)) (seq 0 (S n))).

(* ------------------------------------------------------------------ the contribution terms, and a fast evaluation *)
(* [x for enabled, x in zip(mask, xs) if enabled] *)
Fixpoint sel {A : Type} (mask : list Z) (xs : list A) : list A :=
  match mask, xs with
  | e :: m, x :: r => if py_truthy_Z e then x :: sel m r else sel m r
  | _, _ => []
  end.

Definition hyper_opts := Hyperstat_options get_kms_hyperstat.
Definition hyper_term (ol : (string * list Stat) * Z) : option Stat := py_index (snd (fst ol)) (snd ol).
Definition occ_rows := data_union_occupation_values.
Definition occ_term (rl : list (Stat * ActionStat) * Z) : option Stat :=
  match py_index (fst rl) (snd rl) with Some t => Some (fst t) | None => None end.
Definition block_gs (bs : UnionBlock * Z) : option Stat := UnionBlock_get_stat (fst bs) (snd bs).
Definition link_gs (ll : LinkSkill * Z) : option Stat := LinkSkill_get_stat (fst ll) (snd ll).

(* The generated Stat_add never reduces a fraction: the denominator of final_damage_multiplier squares with every addition
   (100^(2^k) after k additions), so evaluating the generated get_value inside coqc is slow for 10 addends and hopeless
   for 47.  `*_value_fast` is the same sum with every field brought to lowest terms after each addition; Proofs/TargetsFast.v
   proves it == the generated get_value for ALL inputs, and the correspondence shards evaluate it. *)
Definition sum_red (add : Stat -> Stat -> Stat) (ts : list (option Stat)) (acc : Stat) : option Stat :=
  py_foldM (fun a t => match t with Some x => Some (stat_red (add a x)) | None => None end) ts acc.
Definition objective (L : logic) (default : Stat) (armor : Q) (o : option Stat) : option Q :=
  match o with Some t => Some (logic_df L (Stat_add default t) armor) | None => None end.

Definition hyper_value_fast (L : logic) (default : Stat) (armor : Q) (st : state) : option Q :=
  if (List.length st =? List.length hyper_opts)%nat
  then objective L default armor (sum_red Stat_add (map hyper_term (combine hyper_opts (zs st))) Stat_zero) else None.
Definition occ_value_fast (L : logic) (default : Stat) (armor : Q) (st : state) : option Q :=
  if (List.length st =? List.length occ_rows)%nat
  then objective L default armor (sum_red Stat_add (map occ_term (combine occ_rows (zs st))) Stat_zero) else None.
Definition squad_value_fast (L : logic) (default : Stat) (armor : Q) (sizes : list Z) (st : state) : option Q :=
  objective L default armor (sum_red Stat_iadd (map block_gs (sel (zs st) (combine data_all_blocks sizes))) Stat_zero).
Definition link_value_fast (L : logic) (default : Stat) (armor : Q) (levels : list Z) (st : state) : option Q :=
  objective L default armor (sum_red Stat_iadd (map link_gs (sel (zs st) (combine data_all_linkskills levels))) Stat_zero).

Definition oqeq (a b : option Q) : Prop :=
  match a, b with Some x, Some y => (x == y)%Q | None, None => True | _, _ => False end.

(* ------------------------------------------------------------------ correspondence helpers (shards only) *)
Definition oq_close (a b : option Q) (cmp : Q -> Q -> bool) : bool :=
  match a, b with Some x, Some y => cmp x y | None, None => true | _, _ => false end.
Definition oz_eq (a b : option Z) : bool :=
  match a, b with Some x, Some y => x =? y | None, None => true | _, _ => false end.
