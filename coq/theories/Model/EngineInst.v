(* Executable instance of Model/Engine.v used by the engine correspondence (H-engine):
   stores are checkpoint ids, `play` is the table recorded from the implementation,
   everything else (handlers, history, reload, rollback, extraction, hint runner) is the
   model's own code.  Strings are interned to N by the harness; times are exact rationals. *)
From Coq Require Import List NArith QArith Bool.
From Coq Require Import Qabs Qminmax.
From V.Model Require Import Engine Play.
Import ListNotations.

Definition IEv := (N * N * option Q)%type.          (* event id, skill-name id, DELAY time *)
Definition IAct := (N * N * option Q)%type.         (* name id, method id, numeric payload *)
Definition m_use : N := 1%N.
Definition m_elapse : N := 2%N.
Definition m_stop : N := 3%N.
Definition star_id : N := 0%N.
Definition err_store : N := 0%N.                    (* reserved: "the model asked for a play the implementation never made" *)

Definition oq_eqb (a b : option Q) : bool :=
  match a, b with Some x, Some y => Qeq_bool x y | None, None => true | _, _ => false end.
Definition act_eqb (a b : IAct) : bool :=
  let '(n1, m1, p1) := a in let '(n2, m2, p2) := b in N.eqb n1 n2 && N.eqb m1 m2 && oq_eqb p1 p2.

Definition I_mk_act (n : N) (m : meth) (t : option Q) : IAct :=
  (n, match m with MUse => m_use | MElapse => m_elapse | MStop => m_stop end, t).
Definition I_ev_name (e : IEv) : N := snd (fst e).
Definition I_ev_delay (e : IEv) : option Q := snd e.
Definition I_tpos (t : Q) : bool := negb (Qle_bool t 0).
Definition I_tis0 (t : Q) : bool := Qeq_bool t 0.

Definition Icmd := cmd Q N.
Definition op_eqb (a b : op Q N) : bool :=
  match a, b with
  | CAST _ _ n, CAST _ _ m | USE _ _ n, USE _ _ m | KEYDOWNSTOP _ _ n, KEYDOWNSTOP _ _ m | RESOLVE _ _ n, RESOLVE _ _ m => N.eqb n m
  | ELAPSE _ _ t, ELAPSE _ _ u => Qeq_bool t u
  | _, _ => false
  end.
Definition I_cmd_eqb (a b : Icmd) : bool :=
  match a, b with
  | Op _ _ o x, Op _ _ p y => op_eqb o p && N.eqb x y
  | Console _ _ t, Console _ _ u => N.eqb t u
  | _, _ => false
  end.

Section Inst.
  Variable tbl : list (N * IAct * (N * list IEv)).    (* (store, action) |-> (store', events) *)
  Variable clk : list (N * Q).                          (* store |-> clock *)
  Variable insp : list (N * N * N).                     (* (console text, store) |-> description id *)
  Variable vw : list (N * N).                           (* store |-> digest of every view / damage field of a response *)

  Fixpoint lookup_play (l : list (N * IAct * (N * list IEv))) (s : N) (a : IAct) : N * list IEv :=
    match l with
    | [] => (err_store, [])
    | (s', a', r) :: l' => if N.eqb s s' && act_eqb a a' then r else lookup_play l' s a
    end.
  Definition I_play (s : N) (a : IAct) : N * list IEv := lookup_play tbl s a.
  Fixpoint lookup_clk (l : list (N * Q)) (s : N) : Q :=
    match l with [] => (-1)%Q | (s', q) :: l' => if N.eqb s s' then q else lookup_clk l' s end.
  Definition I_clock (s : N) : Q := lookup_clk clk s.
  Fixpoint lookup_insp (l : list (N * N * N)) (t s : N) : N :=
    match l with [] => 0%N | (t', s', d) :: l' => if N.eqb t t' && N.eqb s s' then d else lookup_insp l' t s end.
  Definition I_inspect (t s : N) : N := lookup_insp insp t s.

  (* the model's "hash" is structural and injective: the list of everything hashed so far;
     the implementation's sha1 chain is compared with it by the harness through interning *)
  Inductive IH := HNil | HCons (prev : IH) (c : Icmd) (pls : list (Q * IAct * list IEv)).
  Definition I_hashf (p : IH) (c : Icmd) (pls : list (Q * IAct * list IEv)) : IH := HCons p c pls.

  Definition Ieng := eng N IEv IAct N IH Q N N.
  Definition Ilog := oplog IEv IAct N IH Q N N.

  Definition mk_pl (c : Q) (a : IAct) (e : list IEv) (k : N) : playlog IEv IAct N Q :=
    {| pclock := c; pact := a; pevents := e; pck := k |}.
  Definition mk_log (c : Icmd) (pls : list (playlog IEv IAct N Q)) (d : option N) : Ilog :=
    {| lcmd := c; lplogs := pls; ldesc := d; lprev := HNil |}.

  Definition I_exec : Ieng -> Icmd -> option Ieng :=
    exec N IEv IAct N IH Q N N I_play (fun s => s) (fun c => c) I_clock I_inspect I_mk_act star_id
         I_ev_name I_ev_delay N.eqb 0%Q I_tpos I_tis0 HNil I_hashf.
  Definition I_reload : list Ilog -> Ieng := reload N IEv IAct N IH Q N N.
  Definition I_rollback : Ieng -> nat -> Ieng := rollback N IEv IAct N IH Q N N.

  (* scenario steps *)
  Inductive step := SExec (c : Icmd) | SRollback (i : nat) | SReload.   (* SReload: fresh engine from the current logs *)
  Fixpoint I_steps (e : Ieng) (ss : list step) : option Ieng :=
    match ss with
    | [] => Some e
    | SExec c :: r => match I_exec e c with Some e' => I_steps e' r | None => None end
    | SRollback i :: r => I_steps (I_rollback e i) r
    | SReload :: r => I_steps (I_reload (logs _ _ _ _ _ _ _ _ e)) r
    end.

  (* observable summary of a log: command, play logs (clock, action, event ids, checkpoint id), description *)
  Definition obs_pl (p : playlog IEv IAct N Q) : Q * IAct * list N * N :=
    (pclock _ _ _ _ p, pact _ _ _ _ p, map (fun e => fst (fst e)) (pevents _ _ _ _ p), pck _ _ _ _ p).
  Definition obs_log (l : Ilog) : Icmd * list (Q * IAct * list N * N) * option N :=
    (lcmd _ _ _ _ _ _ _ l, map obs_pl (lplogs _ _ _ _ _ _ _ l), ldesc _ _ _ _ _ _ _ l).

  Definition ln_eqb (a b : list N) : bool := (fix go a b := match a, b with [] , [] => true | x :: a', y :: b' => N.eqb x y && go a' b' | _, _ => false end) a b.
  Definition opl_eqb (a b : Q * IAct * list N * N) : bool :=
    let '(c1, a1, e1, k1) := a in let '(c2, a2, e2, k2) := b in
    Qeq_bool c1 c2 && act_eqb a1 a2 && ln_eqb e1 e2 && N.eqb k1 k2.
  Fixpoint list_eqb {A} (f : A -> A -> bool) (a b : list A) : bool :=
    match a, b with [], [] => true | x :: a', y :: b' => f x y && list_eqb f a' b' | _, _ => false end.
  Definition on_eqb (a b : option N) : bool :=
    match a, b with Some x, Some y => N.eqb x y | None, None => true | _, _ => false end.
  Definition olog_eqb (a b : Icmd * list (Q * IAct * list N * N) * option N) : bool :=
    let '(c1, p1, d1) := a in let '(c2, p2, d2) := b in I_cmd_eqb c1 c2 && list_eqb opl_eqb p1 p2 && on_eqb d1 d2.

  (* index of the first log that differs from the expectation (None = all equal) *)
  Fixpoint first_diff (i : N) (a b : list (Icmd * list (Q * IAct * list N * N) * option N)) : option N :=
    match a, b with
    | [], [] => None
    | x :: a', y :: b' => if olog_eqb x y then first_diff (N.succ i) a' b' else Some i
    | _, _ => Some i
    end.

  (* the hash chain of a history, as positions: every log's previous-hash must be the
     hash of its predecessor (HNil for the first) *)
  Fixpoint IH_eqb (a b : IH) : bool :=
    match a, b with
    | HNil, HNil => true
    | HCons p c l, HCons p' c' l' =>
        IH_eqb p p' && I_cmd_eqb c c' &&
        list_eqb (fun x y => let '(c1, a1, e1) := x in let '(c2, a2, e2) := y in
                             Qeq_bool c1 c2 && act_eqb a1 a2 && ln_eqb (map (fun e => fst (fst e)) e1) (map (fun e => fst (fst e)) e2)) l l'
    | _, _ => false
    end.
  Fixpoint chain_ok_b (prev : IH) (ls : list Ilog) : bool :=
    match ls with
    | [] => true
    | l :: r => IH_eqb (lprev _ _ _ _ _ _ _ l) prev && chain_ok_b (lhash IEv IAct N IH Q N N I_hashf l) r
    end.

  (* result of a scenario: Some (first differing log index option, chain ok) or None when the model got stuck *)
  Definition run_scenario (init : list Ilog) (ss : list step)
             (expected : list (Icmd * list (Q * IAct * list N * N) * option N)) : option (option N * bool) :=
    match I_steps (I_reload init) ss with
    | None => None
    | Some e => let ls := logs _ _ _ _ _ _ _ _ e in
                Some (first_diff 0 (map obs_log ls) expected, chain_ok_b HNil ls)
    end.

  (* ---- incremental runner ---- *)
  Definition Iresp := resp IEv IAct N IH Q N N N.
  Fixpoint lookup_vw (l : list (N * N)) (s : N) : N :=
    match l with [] => 0%N | (s', d) :: l' => if N.eqb s s' then d else lookup_vw l' s end.
  Definition I_view (s : N) : N := lookup_vw vw s.   (* everything a response shows besides events/clock/action is a function of the checkpoint *)
  Definition I_extract (e : Ieng) (start : nat) : list Iresp :=
    extract N IEv IAct N IH Q N N (fun c => c) I_hashf N I_view e start.
  Definition resp0 : Iresp :=
    {| ridx := 0; rcmd := Console _ _ 0%N; rpl := []; rhash := HNil; rprev := HNil; rdesc := None |}.
  Definition I_run_hint (pcs : list Icmd) (ph : list Iresp) (cs : list Icmd) : option (list Iresp) :=
    run_hint N IEv IAct N IH Q N N I_play (fun s => s) (fun c => c) I_clock I_inspect I_mk_act star_id
             I_ev_name I_ev_delay N.eqb 0%Q I_tpos I_tis0 HNil I_hashf N I_view err_store I_cmd_eqb resp0 pcs ph cs.
  Fixpoint I_run (e : Ieng) (cs : list Icmd) : option Ieng :=
    match cs with [] => Some e | c :: r => match I_exec e c with Some e' => I_run e' r | None => None end end.

  (* observable summary of a response: index, command, per play (clock, action, events, view id, checkpoint kept?) , description *)
  Definition obs_resp (r : Iresp) : nat * Icmd * list (Q * IAct * list N * N * option N) * option N :=
    (ridx _ _ _ _ _ _ _ _ r, rcmd _ _ _ _ _ _ _ _ r,
     map (fun q => let '(c, a, ev) := rp _ _ _ _ _ q in (c, a, map (fun e => fst (fst e)) ev, rview _ _ _ _ _ q, rck _ _ _ _ _ q))
         (rpl _ _ _ _ _ _ _ _ r),
     rdesc _ _ _ _ _ _ _ _ r).
  Definition oresp_eqb (a b : nat * Icmd * list (Q * IAct * list N * N * option N) * option N) : bool :=
    let '(i1, c1, p1, d1) := a in let '(i2, c2, p2, d2) := b in
    Nat.eqb i1 i2 && I_cmd_eqb c1 c2 &&
    list_eqb (fun x y => let '(k1, a1, e1, v1, o1) := x in let '(k2, a2, e2, v2, o2) := y in
                         Qeq_bool k1 k2 && act_eqb a1 a2 && ln_eqb e1 e2 && N.eqb v1 v2 && on_eqb o1 o2) p1 p2 &&
    on_eqb d1 d2.
  Fixpoint first_rdiff (i : N) (a b : list (nat * Icmd * list (Q * IAct * list N * N * option N) * option N)) : option N :=
    match a, b with
    | [], [] => None
    | x :: a', y :: b' => if oresp_eqb x y then first_rdiff (N.succ i) a' b' else Some i
    | _, _ => Some i
    end.

  (* hint scenario: previous commands from the initial log, hint = extract of that run
     (first hop) or the output of a previous hop; returns per hop the first difference *)
  Fixpoint hint_chain (init : list Ilog) (pcs : list Icmd) (ph : list Iresp)
           (hops : list (list Icmd * list (nat * Icmd * list (Q * IAct * list N * N * option N) * option N)))
    : list (option (option N)) :=
    match hops with
    | [] => []
    | (cs, expected) :: r =>
        match I_run_hint pcs ph cs with
        | None => [None]
        | Some out => Some (first_rdiff 0 (map obs_resp out) expected) :: hint_chain init cs out r
        end
    end.
  Definition hint_scenario (init : list Ilog) (pcs : list Icmd)
             (hops : list (list Icmd * list (nat * Icmd * list (Q * IAct * list N * N * option N) * option N)))
    : option (list (option (option N))) :=
    match I_run (I_reload init) pcs with
    | None => None
    | Some ep => Some (hint_chain init pcs (I_extract ep 0) hops)
    end.
End Inst.

(* ---------------------------------------------------------------- C06: documented clock advance *)
Definition I_advance (o : op Q N) (b e1 : list IEv) : Q :=
  advance IEv Q N I_ev_name I_ev_delay N.eqb 0%Q I_tpos o b e1.
Definition qnear (a b : Q) : bool := Qle_bool (Qabs (a - b)) ((1#1000000000) * Qmax 1 (Qabs b)).
Definition last_pl (ls : list Ilog) : option (playlog IEv IAct N Q) := last_plog IEv IAct N IH Q N N ls.
(* indices of logs whose clock advance is not the documented one *)
Fixpoint advance_bad (i : N) (seen : list Ilog) (rest : list Ilog) : list N :=
  match rest with
  | [] => []
  | l :: r =>
      let bad :=
        match lcmd _ _ _ _ _ _ _ l, last_pl seen with
        | Op _ _ o _, Some p0 =>
            let before := pclock _ _ _ _ p0 in
            let after := match last_pl [l] with Some p => pclock _ _ _ _ p | None => before end in
            let e1 := match lplogs _ _ _ _ _ _ _ l with p :: _ => pevents _ _ _ _ p | [] => [] end in
            negb (qnear after (before + I_advance o (pevents _ _ _ _ p0) e1))
        | Console _ _ _, _ => negb (match lplogs _ _ _ _ _ _ _ l with [] => true | _ => false end)
        | _, None => true
        end in
      (if bad then [i] else []) ++ advance_bad (N.succ i) (seen ++ [l]) r
  end.

(* ---------------------------------------------------------------- C05: the dispatch queue of a play *)
Definition QEv := Play.event N N N N.          (* payload id, name id, method id, tag id *)
Definition QAct := Play.action N N N N.
Definition qam_eqb (a b : Play.ameth N N) : bool :=
  match a, b with
  | Direct _ _ m, Direct _ _ n => N.eqb m n
  | Emitted _ _ m t, Emitted _ _ n u | Done _ _ m t, Done _ _ n u => N.eqb m n && N.eqb t u
  | _, _ => false
  end.
Definition qap_eqb (a b : Play.apay N) : bool :=
  match a, b with
  | PNone _, PNone _ => true
  | PTime _ t, PTime _ u => Z.eqb t u
  | PEvent _ p, PEvent _ q => N.eqb p q
  | _, _ => false
  end.
Definition qact_eqb (a b : QAct) : bool :=
  N.eqb (aname _ _ _ _ a) (aname _ _ _ _ b) && qam_eqb (am _ _ _ _ a) (am _ _ _ _ b) && qap_eqb (ap _ _ _ _ a) (ap _ _ _ _ b).
Definition model_queue (prev_events : list QEv) (a : QAct) : list QAct :=
  Play.queue N N N N (map (Play.callbacks N N N N) prev_events) a.
(* one recorded play: events of the previous play, the action, the actions the router actually received *)
Definition queue_ok (c : list QEv * QAct * list QAct) : bool :=
  let '(pe, a, tr) := c in
  (fix go x y := match x, y with [], [] => true | u :: x', v :: y' => qact_eqb u v && go x' y' | _, _ => false end) (model_queue pe a) tr.
Fixpoint queue_bad (i : N) (cs : list (list QEv * QAct * list QAct)) : list N :=
  match cs with [] => [] | c :: r => (if queue_ok c then [] else [i]) ++ queue_bad (N.succ i) r end.
