(* Comparators used by the correspondence shards of tools/lib/ext_mech.py (never by a theorem). *)
From Coq Require Import ZArith List Bool.
From V.Model Require Import Comp SpecMech.
From V.Lib Require Import Corr.
Import ListNotations.
Open Scope Z_scope.

Definition ev_eqb (a b : ev) : bool :=
  match a, b with
  | EReject, EReject => true
  | EDealt d h, EDealt d' h' => (d =? d') && (h =? h')
  | EDelay t, EDelay t' => t =? t'
  | EElapsed t, EElapsed t' => t =? t'
  | EKeydownEnd, EKeydownEnd => true
  | EMobDot d l, EMobDot d' l' => (d =? d') && (l =? l')
  | _, _ => false
  end.
Definition oz_eqb (a b : option Z) := match a, b with Some x, Some y => x =? y | None, None => true | _, _ => false end.
Definition zz_eqb (a b : Z * Z) := (fst a =? fst b) && (snd a =? snd b).
Definition p_eqb (a b : P.P) := (P.interval a =? P.interval b) && (P.counter a =? P.counter b) && (P.tl a =? P.tl b) && (P.cnt a =? P.cnt b).
Definition k_eqb (a b : K.K) := (K.itv a =? K.itv b) && (K.cnt a =? K.cnt b) && (K.tl a =? K.tl b).
Definition ust_eqb (a b : ust) : bool :=
  (u_cd a =? u_cd b) && (u_cd2 a =? u_cd2 b) && (u_ltl a =? u_ltl b) && (u_lad a =? u_lad b)
  && (C.maxs (u_cons a) =? C.maxs (u_cons b)) && (C.stack (u_cons a) =? C.stack (u_cons b))
  && (C.cd (u_cons a) =? C.cd (u_cons b)) && (C.tl (u_cons a) =? C.tl (u_cons b))
  && p_eqb (u_p1 a) (u_p1 b) && p_eqb (u_p2 a) (u_p2 b) && p_eqb (u_p3 a) (u_p3 b)
  && oz_eqb (u_ic1 a) (u_ic1 b) && oz_eqb (u_ic2 a) (u_ic2 b) && oz_eqb (u_ic3 a) (u_ic3 b)
  && k_eqb (u_kd a) (u_kd b) && (u_stk a =? u_stk b).
Definition ls_eqb (a b : LS.T) := (LS.stack a =? LS.stack b) && (LS.maxs a =? LS.maxs b) && (LS.dur a =? LS.dur b) && (LS.tl a =? LS.tl b).
Definition dp_eqb (a b : DP.D) :=
  (DP.ic a =? DP.ic b) && (DP.itv a =? DP.itv b) && (DP.tl a =? DP.tl b) && (DP.cnt a =? DP.cnt b)
  && (DP.pen a =? DP.pen b) && (DP.mx a =? DP.mx b).
Definition xst_eqb (a b : xst) : bool :=
  ust_eqb (x_u a) (x_u b) && zz_eqb (x_rm a) (x_rm b) && zz_eqb (x_l2 a) (x_l2 b) && zz_eqb (x_l3 a) (x_l3 b)
  && k_eqb (x_k2 a) (x_k2 b) && ls_eqb (x_ls a) (x_ls b) && zz_eqb (x_cyc a) (x_cyc b) && (x_int a =? x_int b)
  && dp_eqb (x_dp a) (x_dp b).

Definition xchk (c : xcomp) (m : xmeth) (p : xpar) (t : Z) (s s' : xst) (es : list ev) : bool :=
  match xreduce_exec c m p t s with Some (r, e) => xst_eqb r s' && lclose ev_eqb e es | None => false end.

Definition v_eqb (a b : option validity) :=
  match a, b with
  | Some a, Some b => Bool.eqb (v_valid a) (v_valid b) && (v_time_left a =? v_time_left b) && oz_eqb (v_stack a) (v_stack b)
  | None, None => true | _, _ => false end.
Definition r_eqb (a b : option running) :=
  match a, b with
  | Some x, Some y => (r_time_left x =? r_time_left y) && (r_duration x =? r_duration y) && oz_eqb (r_stack x) (r_stack y)
  | None, None => true | _, _ => false end.
Definition kv_eqb (a b : option (bool * Z)) :=
  match a, b with Some (x, y), Some (x', y') => Bool.eqb x x' && (y =? y') | None, None => true | _, _ => false end.
Definition xchkv (c : xcomp) (p : xpar) (s : xst) (e : option validity * option running * option Z * option (bool * Z)) : bool :=
  let '(v, r, b, k) := e in
  v_eqb (xview_validity c p s) v && r_eqb (xview_running c p s) r && oz_eqb (xview_buff c s) b && kv_eqb (xview_keydown c s) k.
