(* C02 -- the REVIEWED side of the isolation obligations.  tools/tr_isolation.py regenerates
   gen/Isolation.v from simaple's source on every run (imports, uses of dual-use modules and of
   watched builtins, process-wide state, shapes of the spec repository hand-out); the checkers
   below decide, by vm_compute in Proofs/IsolationP.v, whether what was found is what was
   reviewed here.  Definitions only.

   Adding a process-wide cache / singleton / mutable class attribute, importing an entropy
   source or changing what the repository hands out changes the generated lists and breaks an
   obligation; the check then runs the isolation search with an extended budget.  If the new
   state is harmless the review is recorded by extending the list here. *)
From Coq Require Import List String Bool Ascii.
Import ListNotations.
Open Scope string_scope.

Definition mem (s : string) (l : list string) : bool := existsb (String.eqb s) l.

(* text before the first "." *)
Definition head_of (s : string) : string :=
  match index 0 "." s with Some n => substring 0 n s | None => s end.

(* ------------------------------------------------------------------ (a) entropy sources *)
(* modules whose mere import into the simulation path is refused *)
Definition entropy_modules : list string :=
  [ "random"; "secrets"; "uuid"; "time"; "datetime"; "calendar"; "zoneinfo";
    "threading"; "_thread"; "multiprocessing"; "concurrent"; "asyncio"; "queue"; "signal";
    "socket"; "ssl"; "select"; "selectors"; "urllib"; "http"; "requests"; "httpx";
    "tempfile"; "getpass"; "platform"; "subprocess"; "resource"; "gc"; "weakref"; "atexit";
    "ctypes"; "mmap"; "numpy"; "scipy"; "torch"; "pickle"; "shelve"; "sqlite3"; "dbm" ].
(* dotted names refused although their module is allowed *)
Definition entropy_names : list string :=
  [ "os.urandom"; "os.getrandom"; "os.getpid"; "os.getppid"; "os.times"; "os.environ"; "os.getenv";
    "os.putenv"; "os.getcwd"; "os.chdir"; "os.listdir"; "os.scandir"; "os.walk"; "os.stat";
    "os.cpu_count"; "os.getloadavg"; "os.uname"; "os.fork"; "os.system"; "os.popen";
    "sys.argv"; "sys.stdin"; "sys.getrefcount"; "sys.getsizeof"; "sys.hash_info"; "sys.flags"; "sys.modules";
    "sys.setrecursionlimit"; "sys.getrecursionlimit"; "sys.path"; "sys.platform";
    "hashlib.blake2b"; "hashlib.blake2s"; "hashlib.scrypt"; "hashlib.pbkdf2_hmac";
    "inspect.currentframe"; "inspect.stack"; "inspect.getmodule";
    "functools.lru_cache"; "functools.cache"; "functools.cached_property";
    "pathlib.Path.home"; "pathlib.Path.cwd" ].

Definition entropy_import (i : string) : bool :=
  mem (head_of i) entropy_modules || mem i entropy_names.

(* the only uses of `os` that were reviewed *)
Definition os_reviewed : list string := [ "os.path" ].
(* calls of watched builtins (hash id input open eval exec globals vars __import__ compile breakpoint):
   open = the two YAML loaders read their data files; eval = the `!debug` console evaluates the
   user's expression against the read-only viewer (deterministic in the store, no write access) *)
Definition builtin_reviewed : list (string * string) :=
  [ ("simaple.gear.blueprint.potential_blueprint", "builtin:open");
    ("simaple.spec.repository", "builtin:open");
    ("simaple.simulate.profile", "builtin:eval") ].

Definition pair_mem (p : string * string) (l : list (string * string)) : bool :=
  existsb (fun q => String.eqb (fst p) (fst q) && String.eqb (snd p) (snd q)) l.

Definition use_ok (mu : string * string) : bool :=
  let u := snd mu in
  if prefix "builtin:" u then pair_mem mu builtin_reviewed
  else negb (entropy_import u) && (negb (String.eqb (head_of u) "os") || mem u os_reviewed).

(* the scan must keep covering the files the property is anchored in *)
Definition required_modules : list string :=
  [ "simaple.simulate.base"; "simaple.simulate.engine"; "simaple.simulate.builder"; "simaple.simulate.component.base";
    "simaple.simulate.component.specific.archmagetc"; "simaple.simulate.policy.parser";
    "simaple.spec._math"; "simaple.spec.repository"; "simaple.spec.spec"; "simaple.spec.patch"; "simaple.spec.loadable";
    "simaple.spec.loader"; "simaple.data.jobs.builtin"; "simaple.data.jobs.patch";
    "simaple.gear.blueprint.potential_blueprint"; "simaple.container.simulation"; "simaple.api.base"; "simaple.api.dev" ].

(* ------------------------------------------------------------------ (b) process-wide state *)
(* constructors reviewed as producing immutable descriptors (pydantic copies field defaults per
   instance; ConfigDict/TypeVar are never written) -- entries of these kinds are not listed *)
Definition benign_kinds : list string :=
  [ "call:TypeVar"; "call:typing.TypeVar"; "call:Field"; "call:pydantic.Field"; "call:ConfigDict"; "call:pydantic.ConfigDict";
    "call:PrivateAttr"; "call:pydantic.PrivateAttr" ].

Definition State := (string * string * string)%type.     (* module, qualified name, kind *)
Definition nonbenign (l : list State) : list State := filter (fun e => negb (mem (snd e) benign_kinds)) l.

(* THE REVIEWED LIST.  R = read-only after import; P = pydantic field default (copied per instance);
   S = lazily filled singleton whose content is a function of files shipped with the package;
   each S/R object is digested before and after every H-iso batch. *)
Definition reviewed_state : list State :=
  [ ("simaple.api.dev", "app", "call:FastAPI");                                                     (* R: the ASGI app; handlers keep no state *)
    ("simaple.api.dev", "<stmt>", "import-time-call:app.add_middleware");
    ("simaple.container.simulation", "SimulationEnvironment.skill_levels", "dict");                  (* P *)
    ("simaple.container.simulation", "SimulationEnvironment.hexa_improvement_levels", "dict");       (* P *)
    ("simaple.data.jobs", "__all__", "list");                                                         (* R *)
    ("simaple.data.jobs.builtin", "get_kms_jobs_repository", "global:_BUILTIN_KMS_SKILL_REPOSITORY"); (* S: parsed YAML specs *)
    ("simaple.data.jobs.definitions", "__all__", "list");                                             (* R *)
    ("simaple.data.jobs.patch", "SkillLevelPatch.default_skill_levels", "dict");                      (* P *)
    ("simaple.gear.blueprint.potential_blueprint", "__potential_db_table", "call:PotentialTierTable");              (* S: db.yaml *)
    ("simaple.gear.blueprint.potential_blueprint", "_global_load_kms_potential_table", "global:__potential_db_table");
    ("simaple.gear.blueprint.potential_blueprint", "PotentialTemplate.options", "list");              (* P *)
    ("simaple.simulate.base", "<stmt>", "import-time-call:setattr");                                  (* Action.__pydantic_config__ *)
    ("simaple.simulate.base", "<stmt>", "import-time-call:setattr");                                  (* Event.__pydantic_config__ *)
    ("simaple.simulate.component.specific.adele", "AdeleEtherComponent.binds", "dict");               (* P, as all `binds` below *)
    ("simaple.simulate.component.specific.adele", "AdeleCreationComponent.binds", "dict");
    ("simaple.simulate.component.specific.adele", "OrderSword.running_swords", "list");               (* P (Entity) *)
    ("simaple.simulate.component.specific.adele", "AdeleOrderComponent.binds", "dict");
    ("simaple.simulate.component.specific.adele", "AdeleGatheringComponent.binds", "dict");
    ("simaple.simulate.component.specific.adele", "AdeleBlossomComponent.binds", "dict");
    ("simaple.simulate.component.specific.adele", "AdeleStormComponent.binds", "dict");
    ("simaple.simulate.component.specific.archmagetc", "JupyterThunder.binds", "dict");
    ("simaple.simulate.component.specific.archmagetc", "ThunderAttackSkillComponent.binds", "dict");
    ("simaple.simulate.component.specific.archmagetc", "CurrentField.field_periodics", "list");       (* P (Entity) *)
    ("simaple.simulate.component.specific.archmagetc", "ChainLightningVIComponent.binds", "dict");
    ("simaple.simulate.component.specific.archmagetc", "ThunderBreak.binds", "dict");
    ("simaple.simulate.component.specific.bishop", "DivineAttackSkillComponent.binds", "dict");
    ("simaple.simulate.component.specific.bishop", "HexaAngelRayComponent.binds", "dict");
    ("simaple.simulate.component.specific.mechanic", "RobotSetupBuff.binds", "dict");
    ("simaple.simulate.component.specific.mechanic", "RobotSummonSkill.binds", "dict");
    ("simaple.simulate.component.specific.mechanic", "HommingMissile.binds", "dict");
    ("simaple.simulate.component.specific.mechanic", "MultipleOptionComponent.binds", "dict");
    ("simaple.simulate.component.specific.mechanic", "MecaCarrier.binds", "dict");
    ("simaple.simulate.engine", "<stmt>", "import-time-stmt:Assert");                                 (* protocol conformance assert *)
    ("simaple.simulate.policy", "__all__", "list");                                                   (* R *)
    ("simaple.simulate.policy.parser", "__PARSER", "call:Lark");                                      (* R: shared Earley parser *)
    ("simaple.simulate.policy.parser", "__OperationTreeTransformer", "call:TreeToOperation");         (* R: transformer without fields *)
    ("simaple.simulate.profile", "_utility_methods", "dict");                                         (* R *)
    ("simaple.simulate.strategy.default", "normal_default_ordered_policy", "call:interpret_dsl_generator"); (* R: a function *)
    ("simaple.spec._math", "__arithmetic_parser", "call:Lark");                                       (* R: shared parser; the transformer is per call *)
    ("simaple.spec.loadable", "_LAYER_NAMESPACE", "call:NamespaceRepository")                         (* S: class registry filled at import *)
  ].

Definition state_eqb (a b : State) : bool :=
  String.eqb (fst (fst a)) (fst (fst b)) && String.eqb (snd (fst a)) (snd (fst b)) && String.eqb (snd a) (snd b).
Fixpoint states_eqb (a b : list State) : bool :=
  match a, b with
  | [], [] => true
  | x :: a', y :: b' => state_eqb x y && states_eqb a' b'
  | _, _ => false
  end.

(* ------------------------------------------------------------------ (c) the repository hands out copies *)
(* items are (op, subject, shape) as documented in tools/tr_isolation.py `method_shape` *)
Definition Item := (string * string * string)%type.
Definition op_of (i : Item) := fst (fst i).
Definition subj_of (i : Item) := snd (fst i).
Definition shape_of (i : Item) := snd i.
Definition is_op (o : string) (i : Item) : bool := String.eqb (op_of i) o.

(* never assigns / deletes through an attribute or subscript, and calls in-place container
   methods only on containers created in the method itself *)
Definition no_write (i : Item) : bool :=
  negb (is_op "write" i) && (negb (is_op "mutate" i) || prefix "fresh:" (subj_of i)).

(* `get`: returns None or a copy made by the call *)
Definition get_item_ok (i : Item) : bool :=
  no_write i &&
  (negb (is_op "return" i) || String.eqb (shape_of i) "none" || prefix "copy:" (shape_of i)).

(* `get_all`: returns a list created in the method, to which only copies are appended *)
Definition get_all_item_ok (i : Item) : bool :=
  no_write i &&
  (negb (is_op "return" i) || prefix "fresh:" (shape_of i)) &&
  (negb (is_op "mutate" i) || prefix "copy:" (shape_of i)).

(* `Spec.interpret`: `data` is a copy of self.data or the result of patch.apply on it, and only
   such a value is returned; the helper methods reached through self only compute *)
Definition interpret_item_ok (i : Item) : bool :=
  no_write i &&
  (negb (is_op "bind" i && String.eqb (subj_of i) "data") ||
   prefix "copy:" (shape_of i) || prefix "apply:" (shape_of i)) &&
  (negb (is_op "return" i) || prefix "fresh:" (shape_of i)).
(* and the copy of the stored dict is really taken from self.data *)
Definition interpret_copies_self_data (l : list Item) : bool :=
  existsb (fun i => is_op "bind" i && String.eqb (subj_of i) "data" && prefix "copy:" (shape_of i)
                    && (String.eqb (shape_of i) "copy:shallow-copy(self.data)" ||
                        String.eqb (shape_of i) "copy:deepcopy(self.data)" ||
                        String.eqb (shape_of i) "copy:dict-copy(self.data)")) l.
Definition has_return (l : list Item) : bool := existsb (is_op "return") l.

(* Directory enumerations (rglob / glob / iterdir / listdir / scandir / walk) whose result is NOT directly wrapped in sorted(...):
   their order is the file system's, and it would reach component order, event order and log hashes (repair dc5ff5b sorted the one
   the specification repository had).  Reviewed list: none in the simulation path. *)
Definition reviewed_unsorted_enumerations : list (string * string) := [].
Definition pair_eqb (a b : string * string) : bool := String.eqb (fst a) (fst b) && String.eqb (snd a) (snd b).
Fixpoint pairs_eqb (a b : list (string * string)) : bool :=
  match a, b with
  | [], [] => true
  | x :: a', y :: b' => pair_eqb x y && pairs_eqb a' b'
  | _, _ => false
  end.
