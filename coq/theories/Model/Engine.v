(* The operation engine (simulate/engine.py, policy/base.py, policy/handlers.py) and the
   response extraction / incremental runner (api/base.py), over an abstract `play`.
   Definitions are executable once the section variables are instantiated; the lemmas
   below them prove C01, C03, C04 for every instantiation. *)
From Coq Require Import List Arith Lia Bool.
Import ListNotations.

Section Engine.
  (* abstract carriers *)
  Variables St Ev Act Ck H T D Name : Type.
  Variable play : St -> Act -> St * list Ev.       (* simulate/base.py play(), incl. pending callbacks kept in St *)
  Variable save : St -> Ck.
  Variable restore : Ck -> St.
  Hypothesis restore_save : forall s, restore (save s) = s.
  Variable clock : St -> T.
  Variable inspect : Name -> St -> D.              (* console evaluation, read-only *)

  Inductive op := CAST (n : Name) | USE (n : Name) | ELAPSE (t : T) | KEYDOWNSTOP (n : Name) | RESOLVE (n : Name).
  (* an Operation also carries its textual form `expr`, which takes part in equality *)
  Inductive cmd := Op (o : op) (expr : Name) | Console (txt : Name).

  (* what the operation handlers (simulate/policy/handlers.py) read from events and how
     they build actions *)
  Inductive meth := MUse | MElapse | MStop.
  Variable mk_act : Name -> meth -> option T -> Act.
  Variable star : Name.                              (* the name "*" *)
  Variable ev_name : Ev -> Name.
  Variable ev_delay : Ev -> option T.                (* Some t iff the tag is DELAY, t = payload time *)
  Variable name_eqb : Name -> Name -> bool.
  Variable tzero : T.
  Variable tpos : T -> bool.                         (* t > 0 *)
  Variable tis0 : T -> bool.                         (* t == 0 *)

  (* get_next_elapse_time: the first positive DELAY, else 0 *)
  Fixpoint next_elapse (evs : list Ev) : T :=
    match evs with
    | [] => tzero
    | e :: r => match ev_delay e with
                | Some t => if tpos t then t else next_elapse r
                | None => next_elapse r
                end
    end.

  (* behaviour scripts: first action from the buffered events, optional second from the
     events of the first play (exec_cast / exec_use / exec_elapse / exec_keydownstop / exec_resolve) *)
  Definition first_action (o : op) (b : list Ev) : Act :=
    match o with
    | CAST n => mk_act n MUse None
    | USE n => mk_act n MUse None
    | ELAPSE t => mk_act star MElapse (Some t)
    | KEYDOWNSTOP n => mk_act n MStop None
    | RESOLVE n => mk_act star MElapse (Some (next_elapse (filter (fun e => name_eqb (ev_name e) n) b)))
    end.
  Definition second_action (o : op) (e1 : list Ev) : option Act :=
    match o with
    | CAST _ => let t := next_elapse e1 in if tis0 t then None else Some (mk_act star MElapse (Some t))
    | _ => None
    end.

  (* the documented clock advance of each operation: ELAPSE t by t; CAST by the first positive
     delay its own `use` play announces; RESOLVE by the pending delay of the named skill among
     the buffered events; USE and KEYDOWNSTOP by nothing *)
  Definition advance (o : op) (buffered first_events : list Ev) : T :=
    match o with
    | ELAPSE t => t
    | CAST _ => next_elapse first_events
    | RESOLVE n => next_elapse (filter (fun e => name_eqb (ev_name e) n) buffered)
    | USE _ | KEYDOWNSTOP _ => tzero
    end.

  Record playlog := { pclock : T; pact : Act; pevents : list Ev; pck : Ck }.
  Record oplog := { lcmd : cmd; lplogs : list playlog; ldesc : option D; lprev : H }.
  Variable H0 : H.
  Variable hashf : H -> cmd -> list (T * Act * list Ev) -> H.
  Definition strip (p : playlog) := (pclock p, pact p, pevents p).
  Definition lhash (l : oplog) : H := hashf (lprev l) (lcmd l) (map strip (lplogs l)).

  Record eng := { logs : list oplog; cache : option St; buf : list Ev }.

  Definition mkpl (st : St) (a : Act) (ev : list Ev) : playlog :=
    {| pclock := clock st; pact := a; pevents := ev; pck := save st |}.

  Definition exec_op (o : op) (st : St) (b : list Ev) : St * list playlog * list Ev :=
    let a1 := first_action o b in
    let '(st1, e1) := play st a1 in
    match second_action o e1 with
    | None => (st1, [mkpl st1 a1 e1], e1)
    | Some a2 => let '(st2, e2) := play st1 a2 in (st2, [mkpl st1 a1 e1; mkpl st2 a2 e2], e2)
    end.

  (* last playlog over the whole history, skipping logs without playlogs (the repaired behaviour) *)
  Definition all_plogs (ls : list oplog) : list playlog := concat (map lplogs ls).
  Definition last_plog (ls : list oplog) : option playlog := last (map Some (all_plogs ls)) None.
  Definition last_events (ls : list oplog) : list Ev :=
    match last_plog ls with Some p => pevents p | None => [] end.
  Definition last_hash (ls : list oplog) : H := match last (map Some ls) None with Some l => lhash l | None => H0 end.

  Definition current_store (e : eng) : option St :=
    match cache e with
    | Some s => Some s
    | None => match last_plog (logs e) with Some p => Some (restore (pck p)) | None => None end
    end.

  Definition exec (e : eng) (c : cmd) : option eng :=
    match current_store e with
    | None => None
    | Some st =>
      match c with
      | Op o _ => let '(st', pls, b') := exec_op o st (buf e) in
                Some {| logs := logs e ++ [{| lcmd := c; lplogs := pls; ldesc := None; lprev := last_hash (logs e) |}];
                        cache := Some st'; buf := b' |}
      | Console t =>
                Some {| logs := logs e ++ [{| lcmd := c; lplogs := []; ldesc := Some (inspect t st); lprev := last_hash (logs e) |}];
                        cache := Some st; buf := buf e |}
      end
    end.

  Definition of_logs (ls : list oplog) : eng := {| logs := ls; cache := None; buf := last_events ls |}.
  Definition reload := of_logs.
  Definition rollback (e : eng) (i : nat) : eng := of_logs (firstn (S i) (logs e)).

  Fixpoint run (e : eng) (cs : list cmd) : option eng :=
    match cs with [] => Some e | c :: cs' => match exec e c with Some e' => run e' cs' | None => None end end.

  (* observational equivalence: same logs, same current store, same buffered events *)
  Definition sim (e1 e2 : eng) := logs e1 = logs e2 /\ current_store e1 = current_store e2 /\ buf e1 = buf e2.

  Definition Coh (e : eng) := sim e (of_logs (logs e)) /\ current_store e <> None.

  Lemma sim_refl e : sim e e. Proof. repeat split. Qed.
  Lemma sim_sym a b : sim a b -> sim b a. Proof. intros (?&?&?); repeat split; auto. Qed.
  Lemma sim_trans a b c : sim a b -> sim b c -> sim a c.
  Proof. intros (?&?&?) (?&?&?); repeat split; congruence. Qed.

  Lemma exec_sim e1 e2 c : sim e1 e2 ->
    match exec e1 c, exec e2 c with
    | Some a, Some b => sim a b /\ cache a = cache b
    | None, None => True
    | _, _ => False
    end.
  Proof.
    intros (Hl & Hs & Hb). unfold exec. rewrite Hs. destruct (current_store e2) as [st|]; [|exact I].
    destruct c as [o x|t].
    - rewrite Hb, Hl. destruct (exec_op o st (buf e2)) as [[st' pls] b']. split; [|reflexivity].
      repeat split; cbn. 
    - rewrite Hb, Hl. split; [|reflexivity]. repeat split.
  Qed.

  Lemma all_plogs_app a b : all_plogs (a ++ b) = all_plogs a ++ all_plogs b.
  Proof. unfold all_plogs. rewrite map_app, concat_app. reflexivity. Qed.

  Lemma last_some {A} (l : list A) x : last (map Some (l ++ [x])) None = Some x.
  Proof. rewrite map_app. cbn. rewrite last_last. reflexivity. Qed.

  Lemma last_plog_snoc_nonempty ls l p ps : lplogs l = ps ++ [p] -> last_plog (ls ++ [l]) = Some p.
  Proof.
    intros E. unfold last_plog. rewrite all_plogs_app. unfold all_plogs at 2. cbn. rewrite app_nil_r, E, app_assoc.
    apply last_some.
  Qed.

  Lemma last_plog_snoc_empty ls l : lplogs l = [] -> last_plog (ls ++ [l]) = last_plog ls.
  Proof.
    intros E. unfold last_plog. rewrite all_plogs_app. unfold all_plogs at 2. cbn. rewrite E. cbn. rewrite app_nil_r. reflexivity.
  Qed.

  (* exec preserves coherence *)
  Lemma cs_of_logs ls : current_store (of_logs ls) = match last_plog ls with Some p => Some (restore (pck p)) | None => None end.
  Proof. reflexivity. Qed.

  Lemma coh_intro e st : cache e = Some st ->
     last_plog (logs e) <> None ->
     (forall p, last_plog (logs e) = Some p -> restore (pck p) = st /\ pevents p = buf e) -> Coh e.
  Proof.
    intros Hc Hn Hp. destruct (last_plog (logs e)) as [p|] eqn:E; [|congruence].
    destruct (Hp p eq_refl) as [R B].
    split; [|unfold current_store; rewrite Hc; congruence].
    split; [reflexivity|]. split.
    - rewrite cs_of_logs. cbn [logs of_logs]. rewrite E. unfold current_store. rewrite Hc, R. reflexivity.
    - cbn [buf of_logs]. unfold last_events. rewrite E. auto.
  Qed.

  Lemma exec_coh e c e' : Coh e -> exec e c = Some e' -> Coh e'.
  Proof.
    intros [(_ & Hs & Hb) Hne] Hx. unfold exec in Hx.
    destruct (current_store e) as [st|] eqn:Ecs; [|congruence].
    destruct c as [o x|t].
    - unfold exec_op in Hx.
      destruct (play st (first_action o (buf e))) as [st1 e1] eqn:P1.
      destruct (second_action o e1) as [a2|].
      + destruct (play st1 a2) as [st2 e2] eqn:P2. inversion Hx; subst e'; clear Hx.
        apply coh_intro with (st := st2); cbn [logs cache buf]; [reflexivity| |].
        * erewrite (last_plog_snoc_nonempty _ _ (mkpl st2 a2 e2) [mkpl st1 (first_action o (buf e)) e1]) by reflexivity. congruence.
        * intros p. erewrite (last_plog_snoc_nonempty _ _ (mkpl st2 a2 e2) [mkpl st1 (first_action o (buf e)) e1]) by reflexivity.
          intros X; inversion X; subst p; cbn. rewrite restore_save. auto.
      + inversion Hx; subst e'; clear Hx.
        apply coh_intro with (st := st1); cbn [logs cache buf]; [reflexivity| |].
        * erewrite (last_plog_snoc_nonempty _ _ (mkpl st1 (first_action o (buf e)) e1) []) by reflexivity. congruence.
        * intros p. erewrite (last_plog_snoc_nonempty _ _ (mkpl st1 (first_action o (buf e)) e1) []) by reflexivity.
          intros X; inversion X; subst p; cbn. rewrite restore_save. auto.
    - inversion Hx; subst e'; clear Hx.
      rewrite cs_of_logs in Hs. cbn [buf of_logs] in Hb. unfold last_events in Hb.
      destruct (last_plog (logs e)) as [p0|] eqn:E0; [|congruence].
      apply coh_intro with (st := st); cbn [logs cache buf]; [reflexivity| |].
      * rewrite last_plog_snoc_empty by reflexivity. congruence.
      * intros p. rewrite last_plog_snoc_empty by reflexivity. rewrite E0. intros X; inversion X; subst p.
        split; congruence.
  Qed.

  Lemma run_coh cs : forall e e', Coh e -> run e cs = Some e' -> Coh e'.
  Proof.
    induction cs as [|c cs IH]; intros e e' Hc Hr; cbn in Hr.
    - inversion Hr; subst; auto.
    - destruct (exec e c) as [e1|] eqn:Ex; [|congruence]. apply (IH e1 e'); [eapply exec_coh; eauto|exact Hr].
  Qed.

  Lemma run_sim cs : forall e1 e2, sim e1 e2 ->
    match run e1 cs, run e2 cs with
    | Some a, Some b => sim a b
    | None, None => True
    | _, _ => False
    end.
  Proof.
    induction cs as [|c cs IH]; intros e1 e2 Hs; cbn; [exact Hs|].
    pose proof (exec_sim e1 e2 c Hs) as X.
    destruct (exec e1 c) as [a|], (exec e2 c) as [b|]; try contradiction; auto.
    apply IH. apply X.
  Qed.

  Lemma run_app cs1 cs2 : forall e, run e (cs1 ++ cs2) = match run e cs1 with Some e' => run e' cs2 | None => None end.
  Proof. induction cs1 as [|c cs1 IH]; intros e; cbn; [reflexivity|]. destruct (exec e c); auto. Qed.

  (* ---------- C01: resume from the recorded logs at any cut ---------- *)
  Theorem C01_resume_eq : forall e0 cs k e_full e_cut,
    Coh e0 ->
    run e0 cs = Some e_full ->
    run e0 (firstn k cs) = Some e_cut ->
    exists e_res, run (reload (logs e_cut)) (skipn k cs) = Some e_res /\ sim e_res e_full.
  Proof.
    intros e0 cs k e_full e_cut C0 Hfull Hcut.
    rewrite <- (firstn_skipn k cs) in Hfull. rewrite run_app, Hcut in Hfull.
    pose proof (run_coh _ _ _ C0 Hcut) as [Csim _].
    pose proof (run_sim (skipn k cs) _ _ (sim_sym _ _ Csim)) as X. unfold reload.
    rewrite Hfull in X. destruct (run (of_logs (logs e_cut)) (skipn k cs)) as [r|]; [|contradiction].
    exists r. split; auto.
  Qed.

  Lemma coh_of_logs ls : last_plog ls <> None -> Coh (of_logs ls).
  Proof.
    intros Hn. split; [apply sim_refl|]. rewrite cs_of_logs. destruct (last_plog ls); congruence.
  Qed.

  (* nothing outside the logs matters: coherent engines with equal logs are indistinguishable *)
  Lemma coh_logs_sim e1 e2 : Coh e1 -> Coh e2 -> logs e1 = logs e2 -> sim e1 e2.
  Proof.
    intros [S1 _] [S2 _] HL. eapply sim_trans; [exact S1|]. rewrite HL. apply sim_sym. exact S2.
  Qed.
  Theorem C01_state_in_log e1 e2 cs : Coh e1 -> Coh e2 -> logs e1 = logs e2 ->
    match run e1 cs, run e2 cs with
    | Some a, Some b => logs a = logs b /\ sim a b
    | None, None => True
    | _, _ => False
    end.
  Proof.
    intros C1 C2 HL. pose proof (run_sim cs e1 e2 (coh_logs_sim e1 e2 C1 C2 HL)) as X.
    destruct (run e1 cs), (run e2 cs); auto. split; [apply X|exact X].
  Qed.

  Lemma run_prefix_some cs i e0 e : run e0 cs = Some e -> exists ei, run e0 (firstn i cs) = Some ei.
  Proof.
    intros Hr. rewrite <- (firstn_skipn i cs), run_app in Hr.
    destruct (run e0 (firstn i cs)) as [ei|]; [eauto|congruence].
  Qed.

  (* the property as stated: a fresh engine (history = the initial log), any plan, any cut *)
  Theorem C01_fresh : forall init cs k e_full,
    last_plog [init] <> None ->
    run (of_logs [init]) cs = Some e_full ->
    exists e_cut e_res,
      run (of_logs [init]) (firstn k cs) = Some e_cut /\
      run (reload (logs e_cut)) (skipn k cs) = Some e_res /\
      logs e_res = logs e_full /\ sim e_res e_full.
  Proof.
    intros init cs k e_full Hi Hf.
    destruct (run_prefix_some cs k _ _ Hf) as [e_cut Hc].
    destruct (C01_resume_eq _ cs k e_full e_cut (coh_of_logs _ Hi) Hf Hc) as [e_res [Hr Hs]].
    exists e_cut, e_res. repeat split; auto; apply Hs.
  Qed.

  (* ---------- C03: rollback and continue ---------- *)
  Inductive stepk := SExec (c : cmd) | SRoll (i : nat).
  Fixpoint steps (e : eng) (ss : list stepk) : option eng :=
    match ss with
    | [] => Some e
    | SExec c :: r => match exec e c with Some e' => steps e' r | None => None end
    | SRoll i :: r => steps (rollback e i) r
    end.
  Fixpoint surv (acc : list cmd) (ss : list stepk) : list cmd :=
    match ss with
    | [] => acc
    | SExec c :: r => surv (acc ++ [c]) r
    | SRoll i :: r => surv (firstn i acc) r
    end.

  Lemma exec_logs e c e' : exec e c = Some e' -> exists l, logs e' = logs e ++ [l].
  Proof.
    unfold exec. destruct (current_store e); [|congruence]. destruct c.
    - destruct (exec_op o s (buf e)) as [[? ?] ?]. intros X; inversion X; cbn; eauto.
    - intros X; inversion X; cbn; eauto.
  Qed.

  Lemma run_logs cs : forall e e', run e cs = Some e' -> exists L, logs e' = logs e ++ L /\ length L = length cs.
  Proof.
    induction cs as [|c cs IH]; intros e e' Hr; cbn in Hr.
    - inversion Hr; subst. exists []. rewrite app_nil_r. auto.
    - destruct (exec e c) as [e1|] eqn:Ex; [|congruence]. destruct (exec_logs _ _ _ Ex) as [l El].
      destruct (IH _ _ Hr) as [L [EL HL]]. exists (l :: L). rewrite EL, El, <- app_assoc. cbn. auto.
  Qed.

  Lemma run_prefix cs i e0 e : run e0 cs = Some e -> exists ei, run e0 (firstn i cs) = Some ei /\ logs ei = firstn (length (logs e0) + i) (logs e).
  Proof.
    intros Hr. rewrite <- (firstn_skipn i cs), run_app in Hr.
    destruct (run e0 (firstn i cs)) as [ei|] eqn:Ei; [|congruence]. exists ei. split; auto.
    destruct (run_logs _ _ _ Ei) as [L1 [E1 H1]]. destruct (run_logs _ _ _ Hr) as [L2 [E2 H2]].
    rewrite E2, E1. rewrite firstn_length in H1.
    destruct (le_lt_dec i (length cs)) as [Hle|Hgt].
    - rewrite Nat.min_l in H1 by auto. rewrite <- H1, <- app_length.
      rewrite firstn_app, Nat.sub_diag, firstn_all. cbn. rewrite app_nil_r. reflexivity.
    - rewrite Nat.min_r in H1 by lia. rewrite skipn_all2 in H2 by lia. destruct L2; [|discriminate].
      rewrite app_nil_r. rewrite firstn_all2; [reflexivity|]. rewrite app_length. lia.
  Qed.

  Theorem C03_rollback_eq : forall ss e0 acc e_acc e,
    Coh e0 -> length (logs e0) = 1 ->
    run e0 acc = Some e_acc -> 
    forall e_cur, sim e_cur e_acc -> steps e_cur ss = Some e ->
    exists e', run e0 (surv acc ss) = Some e' /\ sim e e'.
  Proof.
    induction ss as [|[c|i] ss IH]; intros e0 acc e_acc e C0 L0 Hacc e_cur Hsim Hst; cbn in Hst |- *.
    - inversion Hst; subst. eauto.
    - destruct (exec e_cur c) as [e1|] eqn:Ex; [|congruence].
      pose proof (exec_sim _ _ c Hsim) as X. rewrite Ex in X.
      destruct (exec e_acc c) as [e2|] eqn:Ex2; [|contradiction].
      apply (IH e0 (acc ++ [c]) e2 e C0 L0) with (e_cur := e1); [rewrite run_app, Hacc; cbn; rewrite Ex2; reflexivity| |exact Hst].
      apply X.
    - destruct (run_prefix acc i e0 e_acc Hacc) as [ei [Ei Li]].
      apply (IH e0 (firstn i acc) ei e C0 L0 Ei (rollback e_cur i)); [|exact Hst].
      unfold rollback. destruct Hsim as (Hl & _ & _). rewrite Hl. rewrite L0 in Li. change (1 + i) with (S i) in Li. rewrite <- Li.
      apply sim_sym. apply (run_coh _ _ _ C0 Ei).
  Qed.

  Theorem C03_fresh : forall init ss e,
    last_plog [init] <> None ->
    steps (of_logs [init]) ss = Some e ->
    exists e', run (of_logs [init]) (surv [] ss) = Some e' /\ logs e = logs e' /\ sim e e'.
  Proof.
    intros init ss e Hi Hs.
    destruct (C03_rollback_eq ss (of_logs [init]) [] (of_logs [init]) e (coh_of_logs _ Hi) eq_refl eq_refl
                (of_logs [init]) (sim_refl _) Hs) as [e' [Hr Hsim]].
    exists e'. repeat split; auto; apply Hsim.
  Qed.

  (* ---------- hash chain ---------- *)
  Fixpoint chain_from (prev : H) (ls : list oplog) : Prop :=
    match ls with [] => True | l :: r => lprev l = prev /\ chain_from (lhash l) r end.

  Lemma last_some_cons {A} (x : A) (ls : list A) :
    last (map Some (x :: ls)) None = match last (map Some ls) None with Some y => Some y | None => Some x end.
  Proof.
    revert x. induction ls as [|y ls IH]; intros x; [reflexivity|].
    change (last (map Some (x :: y :: ls)) None) with (last (map Some (y :: ls)) None).
    rewrite IH. destruct (last (map Some ls) None); reflexivity.
  Qed.
  Lemma chain_snoc ls : forall prev l, chain_from prev ls ->
    lprev l = match last (map Some ls) None with Some x => lhash x | None => prev end ->
    chain_from prev (ls ++ [l]).
  Proof.
    induction ls as [|x ls IH]; intros prev l Hc Hl.
    - cbn in *. auto.
    - destruct Hc as [Hp Hc]. cbn [app chain_from]. split; [exact Hp|]. apply IH; [exact Hc|].
      rewrite last_some_cons in Hl. destruct (last (map Some ls) None); exact Hl.
  Qed.
  Lemma chain_firstn n : forall prev ls, chain_from prev ls -> chain_from prev (firstn n ls).
  Proof.
    induction n as [|n IH]; intros prev [|x ls] Hc; cbn; auto.
    destruct Hc as [Hp Hc]. split; auto.
  Qed.
  Lemma exec_chain e c e' : chain_from H0 (logs e) -> exec e c = Some e' -> chain_from H0 (logs e').
  Proof.
    intros Hc Hx. unfold exec in Hx. destruct (current_store e) as [st|]; [|congruence].
    destruct c as [o x|t].
    - destruct (exec_op o st (buf e)) as [[st' pls] b']. inversion Hx; subst e'; cbn [logs].
      apply chain_snoc; [exact Hc|]. cbn [lprev]. unfold last_hash. reflexivity.
    - inversion Hx; subst e'; cbn [logs]. apply chain_snoc; [exact Hc|]. cbn [lprev]. unfold last_hash. reflexivity.
  Qed.
  (* in every history reachable by exec / rollback each log's previous-hash is the hash
     of the log before it (and the first one's is the empty hash) *)
  Theorem C03_chain : forall ss e e', chain_from H0 (logs e) -> steps e ss = Some e' -> chain_from H0 (logs e').
  Proof.
    induction ss as [|[c|i] ss IH]; intros e e' Hc Hs; cbn in Hs.
    - inversion Hs; subst; exact Hc.
    - destruct (exec e c) as [e1|] eqn:Ex; [|congruence]. apply (IH e1); [eapply exec_chain; eauto|exact Hs].
    - apply (IH (rollback e i)); [|exact Hs]. unfold rollback, of_logs; cbn [logs]. apply chain_firstn, Hc.
  Qed.
  (* the hash of a log is a function of its previous-hash, command and play logs without checkpoints *)
  Theorem C03_hash_fun : forall l l', lprev l = lprev l' -> lcmd l = lcmd l' ->
    map strip (lplogs l) = map strip (lplogs l') -> lhash l = lhash l'.
  Proof. intros l l' A B C. unfold lhash. rewrite A, B, C. reflexivity. Qed.

  (* ================= C04: incremental runner ================= *)
  Definition core (e : eng) := (current_store e, buf e, last_hash (logs e)).

  Lemma last_hash_snoc ls l : last_hash (ls ++ [l]) = lhash l.
  Proof. unfold last_hash. rewrite last_some. reflexivity. Qed.

  Lemma exec_core e1 e2 c : core e1 = core e2 ->
    match exec e1 c, exec e2 c with
    | Some a, Some b => (exists l, logs a = logs e1 ++ [l] /\ logs b = logs e2 ++ [l]) /\ core a = core b
    | None, None => True
    | _, _ => False
    end.
  Proof.
    unfold core. intros X. inversion X as [[Hs Hb Hh]]. unfold exec. rewrite Hs.
    destruct (current_store e2) as [st|]; [|exact I]. destruct c as [o x|t].
    - rewrite Hb, Hh. destruct (exec_op o st (buf e2)) as [[st' pls] b'].
      split; [eexists; split; reflexivity|]. unfold core, current_store; cbn [logs cache buf].
      rewrite !last_hash_snoc. reflexivity.
    - rewrite Hb, Hh. split; [eexists; split; reflexivity|]. unfold core, current_store; cbn [logs cache buf].
      rewrite !last_hash_snoc. reflexivity.
  Qed.

  Lemma run_core cs : forall e1 e2, core e1 = core e2 ->
    match run e1 cs, run e2 cs with
    | Some a, Some b => exists N, logs a = logs e1 ++ N /\ logs b = logs e2 ++ N
    | None, None => True
    | _, _ => False
    end.
  Proof.
    induction cs as [|c cs IH]; intros e1 e2 Hc; cbn.
    - exists []. rewrite !app_nil_r. auto.
    - pose proof (exec_core e1 e2 c Hc) as X.
      destruct (exec e1 c) as [a|], (exec e2 c) as [b|]; try contradiction; auto.
      destruct X as [[l [La Lb]] Hc']. specialize (IH a b Hc').
      destruct (run a cs) as [a'|], (run b cs) as [b'|]; try contradiction; auto.
      destruct IH as [N [Na Nb]]. exists (l :: N). rewrite Na, Nb, La, Lb, <- !app_assoc. auto.
  Qed.

  Lemma sim_core e1 e2 : sim e1 e2 -> core e1 = core e2.
  Proof. intros (Hl & Hs & Hb). unfold core. rewrite Hl, Hs, Hb. reflexivity. Qed.

  (* responses *)
  Variable V : Type.
  Variable view : St -> V.
  Variable dummy : Ck.
  Record rplog := { rp : T * Act * list Ev; rview : V; rck : option Ck }.
  Record resp := { ridx : nat; rcmd : cmd; rpl : list rplog; rhash : H; rprev : H; rdesc : option D }.

  Definition keep (idx : nat) : bool := (idx mod 10 =? 0)%nat.
  Definition ext_plog (idx : nat) (p : playlog) : rplog :=
    {| rp := strip p; rview := view (restore (pck p)); rck := if keep idx then Some (pck p) else None |}.
  Definition ext_log (idx : nat) (l : oplog) : resp :=
    {| ridx := idx; rcmd := lcmd l; rpl := map (ext_plog idx) (lplogs l); rhash := lhash l; rprev := lprev l; rdesc := ldesc l |}.
  Fixpoint ext_from (idx : nat) (ls : list oplog) : list resp :=
    match ls with [] => [] | l :: r => ext_log idx l :: ext_from (S idx) r end.
  Definition extract (e : eng) (start : nat) : list resp := skipn start (ext_from 0 (logs e)).

  Definition unstrip (x : T * Act * list Ev) (c : Ck) : playlog :=
    let '(t, a, ev) := x in {| pclock := t; pact := a; pevents := ev; pck := c |}.
  Definition restore_plog (q : rplog) : playlog := unstrip (rp q) (match rck q with Some c => c | None => dummy end).
  Definition restore_log (r : resp) : oplog :=
    {| lcmd := rcmd r; lplogs := map restore_plog (rpl r); ldesc := rdesc r; lprev := rprev r |}.
  Definition has_ckpt (r : resp) : bool :=
    forallb (fun q => match rck q with Some _ => true | None => false end) (rpl r) && negb (Nat.eqb (length (rpl r)) 0).

  Variable cmd_eqb : cmd -> cmd -> bool.
  Hypothesis cmd_eqb_spec : forall a b, cmd_eqb a b = true <-> a = b.

  Fixpoint common (cs pcs : list cmd) (hm : list resp) : nat :=
    match cs, pcs, hm with
    | c :: cs', pc :: pcs', h :: hm' => if cmd_eqb pc (rcmd h) && cmd_eqb c pc then S (common cs' pcs' hm') else O
    | _, _, _ => O
    end.
  Variable resp0 : resp.
  Fixpoint stepback (k : nat) (hist : list resp) : nat :=
    match k with O => O | S k' => if has_ckpt (nth k hist resp0) then k else stepback k' hist end.

  Definition run_hint (pcs : list cmd) (ph : list resp) (cs : list cmd) : option (list resp) :=
    let k := stepback (common cs pcs (tl ph)) ph in
    match run (reload (map restore_log (firstn (S k) ph))) (skipn k cs) with
    | Some e' => Some (firstn (S k) ph ++ extract e' (S k))
    | None => None
    end.

  (* --- lemmas --- *)
  Lemma strip_unstrip x c : strip (unstrip x c) = x.
  Proof. destruct x as [[t a] ev]. reflexivity. Qed.

  Lemma strip_restore idx p : strip (restore_plog (ext_plog idx p)) = strip p.
  Proof. unfold restore_plog, ext_plog; cbn [rp rck]. apply strip_unstrip. Qed.

  Lemma lhash_restore idx l : lhash (restore_log (ext_log idx l)) = lhash l.
  Proof.
    unfold lhash, restore_log, ext_log; cbn [lcmd lplogs lprev rcmd rpl rprev].
    rewrite !map_map. rewrite (map_ext _ strip) by (intros p; apply strip_restore). reflexivity.
  Qed.

  Lemma restore_exact_plog idx p : keep idx = true -> restore_plog (ext_plog idx p) = p.
  Proof. intros K. unfold restore_plog, ext_plog; cbn [rp rck]. rewrite K. destruct p; reflexivity. Qed.

  Lemma restore_exact idx l : keep idx = true -> restore_log (ext_log idx l) = l.
  Proof.
    intros K. unfold restore_log, ext_log; cbn [rcmd rpl rdesc rprev]. rewrite map_map.
    rewrite (map_ext _ (fun p => p)) by (intros; apply restore_exact_plog; auto). rewrite map_id. destruct l; reflexivity.
  Qed.

  Lemma has_ckpt_keep idx l : has_ckpt (ext_log idx l) = true -> keep idx = true /\ lplogs l <> [].
  Proof.
    unfold has_ckpt, ext_log; cbn [rpl]. rewrite map_length. intros X. apply andb_true_iff in X. destruct X as [A B].
    destruct (lplogs l) as [|p ps] eqn:E.
    - cbn in B. discriminate B.
    - split; [|intro Z; discriminate Z].
      cbn [map forallb] in A. apply andb_true_iff in A. destruct A as [A _].
      unfold ext_plog in A; cbn [rck] in A. destruct (keep idx); [reflexivity|discriminate A].
  Qed.

  Lemma ext_from_app i a b : ext_from i (a ++ b) = ext_from i a ++ ext_from (i + length a) b.
  Proof.
    revert i. induction a as [|x a IH]; intros i; cbn.
    - rewrite Nat.add_0_r. reflexivity.
    - rewrite IH. replace (S i + length a) with (i + S (length a)) by lia. reflexivity.
  Qed.
  Lemma ext_from_length i a : length (ext_from i a) = length a.
  Proof. revert i; induction a; intros; cbn; auto. Qed.
  Lemma ext_from_firstn i k a : firstn k (ext_from i a) = ext_from i (firstn k a).
  Proof. revert i k. induction a as [|x a IH]; intros i [|k]; cbn; auto. rewrite IH. reflexivity. Qed.
  Lemma ext_from_nth i k a d dl : k < length a -> nth k (ext_from i a) d = ext_log (i + k) (nth k a dl).
  Proof.
    revert i k. induction a as [|x a IH]; intros i [|k] Hk; cbn in *; try lia.
    - rewrite Nat.add_0_r. reflexivity.
    - rewrite IH by lia. replace (S i + k) with (i + S k) by lia. reflexivity.
  Qed.

  Lemma common_spec cs pcs hm : let k := common cs pcs hm in firstn k cs = firstn k pcs /\ k <= length cs /\ k <= length pcs /\ k <= length hm.
  Proof.
    revert pcs hm. induction cs as [|c cs IH]; intros [|pc pcs] [|h hm]; cbn; try (repeat split; lia).
    destruct (cmd_eqb pc (rcmd h) && cmd_eqb c pc) eqn:E; cbn; [|repeat split; lia].
    apply andb_true_iff in E. destruct E as [_ E]. apply cmd_eqb_spec in E. subst pc.
    destruct (IH pcs hm) as (A & B & C & D0). repeat split; try lia. f_equal. exact A.
  Qed.
  Lemma stepback_le k h : stepback k h <= k.
  Proof. induction k; cbn; [lia|]. destruct (has_ckpt _); lia. Qed.
  Lemma stepback_ok k h : stepback k h = 0 \/ has_ckpt (nth (stepback k h) h resp0) = true.
  Proof. induction k; cbn; [auto|]. destruct (has_ckpt (nth (S k) h resp0)) eqn:E; auto. Qed.

  Lemma last_plog_last ls l : lplogs l <> [] -> last_plog (ls ++ [l]) = last (map Some (lplogs l)) None.
  Proof.
    intros Hn. destruct (exists_last Hn) as [ps [p E]]. rewrite (last_plog_snoc_nonempty ls l p ps E).
    rewrite E, last_some. reflexivity.
  Qed.


  Lemma nth_firstn_lt {A} (l : list A) k m d : k < m -> nth k (firstn m l) d = nth k l d.
  Proof.
    revert k m. induction l as [|x l IH]; intros k m Hk.
    - rewrite firstn_nil. reflexivity.
    - destruct m; [lia|]. destruct k; cbn; [reflexivity|]. apply IH. lia.
  Qed.

  Lemma core_reload_exact pre lk rl :
    lhash rl = lhash lk -> lplogs rl = lplogs lk -> lplogs lk <> [] ->
    forall pre', core (reload (pre' ++ [rl])) = core (of_logs (pre ++ [lk])).
  Proof.
    intros Hh Hp Hn pre'. unfold core, reload, of_logs, current_store, last_events; cbn [logs cache buf].
    rewrite !last_hash_snoc, Hh.
    rewrite (last_plog_last pre' rl) by (rewrite Hp; exact Hn). rewrite (last_plog_last pre lk Hn). rewrite Hp. reflexivity.
  Qed.

  Theorem C04_hint_eq : forall e0 pcs cs ep ef,
    Coh e0 -> length (logs e0) = 1 ->
    (forall l, logs e0 = [l] -> lplogs l <> []) ->
    run e0 pcs = Some ep -> run e0 cs = Some ef ->
    run_hint pcs (extract ep 0) cs = Some (extract ef 0).
  Proof.
    intros e0 pcs cs ep ef C0 L0 Hinit Hp Hf. unfold run_hint, extract. rewrite !skipn_O.
    set (ph := ext_from 0 (logs ep)).
    set (cc := common cs pcs (tl ph)).
    set (k := stepback cc ph).
    pose proof (common_spec cs pcs (tl ph)) as (Cf & Cc & Cp & _). cbn zeta in Cf, Cc, Cp. fold cc in Cf, Cc, Cp.
    pose proof (stepback_le cc ph) as Kle. fold k in Kle.
    assert (Kcs : k <= length cs) by lia. assert (Kpcs : k <= length pcs) by lia.
    assert (Fk : firstn k cs = firstn k pcs).
    { assert (X : firstn k (firstn cc cs) = firstn k (firstn cc pcs)) by (rewrite Cf; reflexivity).
      rewrite !firstn_firstn in X. replace (Init.Nat.min k cc) with k in X by lia. exact X. }
    destruct (run_prefix cs k e0 ef Hf) as [ek [Ek Lk]].
    destruct (run_prefix pcs k e0 ep Hp) as [ek' [Ek' Lk']].
    rewrite <- Fk, Ek in Ek'. inversion Ek'; subst ek'; clear Ek'.
    rewrite L0 in Lk, Lk'. change (1 + k) with (S k) in Lk, Lk'.
    pose proof (run_coh _ _ _ C0 Ek) as Cohk.
    destruct (run_logs _ _ _ Ek) as [Lx [ELx HLx]]. rewrite firstn_length, Nat.min_l in HLx by lia.
    assert (Lenk : length (logs ek) = S k) by (rewrite ELx, app_length, L0, HLx; reflexivity).
    assert (Pph : firstn (S k) ph = ext_from 0 (logs ek)).
    { unfold ph. rewrite ext_from_firstn, <- Lk'. reflexivity. }
    assert (Hne : logs ek <> []) by (intro X; rewrite X in Lenk; discriminate).
    destruct (exists_last Hne) as [pre [lk Epre]].
    assert (Lpre : length pre = k) by (rewrite Epre, app_length in Lenk; cbn in Lenk; lia).
    assert (Hnth : nth k ph resp0 = ext_log k lk).
    { rewrite <- (nth_firstn_lt ph k (S k) resp0) by lia. rewrite Pph, Epre.
      rewrite (ext_from_nth 0 k (pre ++ [lk]) resp0 lk) by (rewrite app_length; cbn; lia).
      cbn [Nat.add]. rewrite app_nth2 by lia. rewrite Lpre, Nat.sub_diag. reflexivity. }
    assert (Hk : keep k = true /\ lplogs lk <> []).
    { destruct (stepback_ok cc ph) as [Z|Hc].
      - fold k in Z. assert (Lp0 : length pre = 0) by lia. destruct pre; [|discriminate]. cbn in Epre.
        rewrite Z. split; [reflexivity|]. apply Hinit. rewrite Z in HLx. destruct Lx; [|discriminate]. rewrite app_nil_r in ELx. congruence.
      - fold k in Hc. rewrite Hnth in Hc. apply has_ckpt_keep in Hc. exact Hc. }
    destruct Hk as [Kk Nk].
    assert (Hcore : core (reload (map restore_log (firstn (S k) ph))) = core ek).
    { rewrite (sim_core _ _ (proj1 Cohk)). rewrite Pph, Epre.
      rewrite ext_from_app, map_app. cbn [ext_from map Nat.add]. rewrite Lpre.
      apply core_reload_exact; auto.
      - apply lhash_restore.
      - rewrite (restore_exact k lk Kk). reflexivity. }
    (* run the remaining commands from both *)
    rewrite <- (firstn_skipn k cs) in Hf. rewrite run_app, Ek in Hf.
    pose proof (run_core (skipn k cs) _ _ Hcore) as X. rewrite Hf in X.
    destruct (run (reload (map restore_log (firstn (S k) ph))) (skipn k cs)) as [er|]; [|contradiction].
    destruct X as [N [Nr Nf]]. f_equal.
    rewrite Nr, Nf. unfold reload, of_logs; cbn [logs].
    rewrite !ext_from_app. rewrite map_length, firstn_length.
    assert (Lph : S k <= length ph).
    { unfold ph. rewrite ext_from_length. destruct (run_logs _ _ _ Hp) as [Lp [ELp HLp]]. rewrite ELp, app_length, L0, HLp. lia. }
    rewrite Nat.min_l by lia.
    rewrite skipn_app, ext_from_length, map_length, firstn_length, Nat.min_l by lia.
    rewrite skipn_all2 by (rewrite ext_from_length, map_length, firstn_length, Nat.min_l; lia).
    rewrite Nat.sub_diag, skipn_O. cbn [app]. rewrite Pph, Lenk. reflexivity.
  Qed.
  (* the property as stated: previous result = full run of the previous plan *)
  Theorem C04_fresh : forall init pcs cs ep ef,
    lplogs init <> [] ->
    run (of_logs [init]) pcs = Some ep -> run (of_logs [init]) cs = Some ef ->
    run_hint pcs (extract ep 0) cs = Some (extract ef 0).
  Proof.
    intros init pcs cs ep ef Hi Hp Hf.
    assert (Hl : last_plog [init] <> None).
    { destruct (exists_last Hi) as [ps [p E]]. change [init] with ([] ++ [init]). rewrite (last_plog_snoc_nonempty [] init p ps E). discriminate. }
    apply (C04_hint_eq (of_logs [init]) pcs cs ep ef (coh_of_logs _ Hl) eq_refl); auto.
    intros l X. cbn in X. inversion X; subst. exact Hi.
  Qed.
  (* chains: the hint may itself be the output of an incremental run *)
  Theorem C04_chain : forall init pcs0 pcs cs ep0 ep ef,
    lplogs init <> [] ->
    run (of_logs [init]) pcs0 = Some ep0 -> run (of_logs [init]) pcs = Some ep -> run (of_logs [init]) cs = Some ef ->
    match run_hint pcs0 (extract ep0 0) pcs with
    | Some h1 => run_hint pcs h1 cs = Some (extract ef 0)
    | None => False
    end.
  Proof.
    intros init pcs0 pcs cs ep0 ep ef Hi H0' Hp Hf.
    rewrite (C04_fresh init pcs0 pcs ep0 ep Hi H0' Hp). apply (C04_fresh init pcs cs ep ef Hi Hp Hf).
  Qed.

End Engine.
