From Coq Require Import ZArith Lia Bool.
Open Scope Z_scope.
Ltac Zify.zify_post_hook ::= Z.to_euclidean_division_equations.

Record C := mkC { maxs : Z; stack : Z; cd : Z; tl : Z }.

Fixpoint loop (fuel : nat) (mx cdv : Z) (t s : Z) : Z * Z :=
  match fuel with
  | O => (t, s)
  | S f => if t <=? 0 then loop f mx cdv (t + cdv) (Z.min (s + 1) mx) else (t, s)
  end.

Definition elapse (c : C) (time : Z) : C :=
  let t0 := tl c - time in
  let fuel := S (Z.to_nat ((time - tl c) / cd c + 1)) in
  let '(t1, s1) := loop fuel (maxs c) (cd c) t0 (stack c) in
  mkC (maxs c) s1 (cd c) (if s1 =? maxs c then cd c else t1).

Definition wf (c : C) := 0 < cd c /\ 0 <= stack c <= maxs c /\ 0 < tl c <= cd c /\ (stack c = maxs c -> tl c = cd c).
(* accumulated charge, capped *)
Definition absn (c : C) : Z := stack c * cd c + (cd c - tl c).
Definition cap (c : C) : Z := maxs c * cd c.

Definition available (c : C) : bool := 0 <? stack c.
Definition consume (c : C) : C := mkC (maxs c) (stack c - 1) (cd c) (tl c).
