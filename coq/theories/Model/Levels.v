(* C16: skill specifications, level configurations and the name filter of build_skills.  DEFINITIONS ONLY.

   This file holds the record types that tools/tr_yaml.py fills (gen/Formulas.v, gen/Profiles.v) and the generic
   executable functions over them; nothing here mentions a generated constant (Model/LevelsBuilt.v instantiates them).

   formula   one '{{ ... }}' string of one specification: its expression (Model/Expr.v), its tokens (Model/ExprParse.v),
             the inputs SkillLevelPatch.get_skill_level reads from the specification, and the hull [f_lo, f_hi] of the
             effective levels the documented configuration space can produce for it:
               base level 0..30 when some shipped profile lists the skill as v-skill / hexa skill / hexa mastery
               (the provider then puts it into skill_levels), else the specification's default_skill_level (0 if absent);
               + 0..2 when passive_skill_enabled, + 0..2 when combat_orders_enabled.
   figure    one scalar field of one built component of one job: a formula or a constant, followed by the operations of
             PassiveHyperskillPatch (add / multiply by a constant) and SkillImprovementPatch (add the integer value of
             another specification's formula).
   sblock    one Stat-valued field (modifier, stat) of one built component with the Stat additions made by
             VSkillImprovementPatch, HexaSkillImprovementPatch and PassiveHyperskillPatch, in chain order.
   profile   one SkillProfile plus the component names of its groups in build order. *)
From Coq Require Import QArith Qround ZArith List String Bool.
From V.Model Require Import Expr ExprParse.
Import ListNotations.

(* documented ranges of the level axes (properties.jsonl, C16) *)
Definition max_skill_level : Z := 30.          (* v-skill, hexa skill, hexa mastery: 0..30 *)
Definition max_offset : Z := 2.                (* combat orders 0..2, passive level 0..2 *)
Definition max_v_improvement : Z := 60.        (* v-enhancement 0..60 *)
Definition max_hexa_improvement : Z := 30.     (* hexa-enhancement 0..30 *)

Record formula := mkF {
  f_id : nat; f_file : string; f_kind : string; f_group : string; f_skill : string; f_path : list string;
  f_expr : expr; f_toks : list tok; f_vars : list string;
  f_named : bool; f_default : option Z; f_passive : bool; f_co : bool;
  f_mapped : bool;
  f_lo : Z; f_hi : Z;
  f_damage : bool }.

Inductive base := BF (fid : nat) | BC (q : Q).
Inductive postop := PAdd (q : Q) | PMul (q : Q) | PAddF (fid : nat).
Record figure := mkFig {
  g_id : nat; g_job : string; g_skill : string; g_path : list string; g_base : base; g_post : list postop; g_damage : bool }.

Inductive step :=
| SV (scale : Q) (listed : bool)        (* VSkillImprovementPatch; listed = the representative name is a v_improvement_name *)
| SH (listed : bool)                    (* HexaSkillImprovementPatch; listed = ... is a hexa_improvement_name *)
| SS (inc : list (string * Q)).         (* StatIncreasePassiveHyperskill *)
Record sblock := mkBlk {
  b_id : nat; b_job : string; b_skill : string; b_key : string; b_base : list (string * base); b_steps : list step }.

Inductive tier := TLow | THigh.
Inductive cmp := CGt | CGe | CLt | CLe | CEq | CNe.
Record excl_cfg := mkExcl { x_lookup : tier; x_cmp : cmp; x_const : Z; x_default : Z; x_drop : tier }.

Record profile := mkProfile {
  p_job : string; p_groups : list string; p_components : list string;
  p_v_skills : list string; p_hexa_skills : list string; p_mastery : list (string * string);
  p_v_improvements : list string; p_hexa_improvements : list string }.

(* ------------------------------------------------------------------------------------------------ small helpers *)
Definition lookup {A} (k : string) (l : list (string * A)) : option A :=
  match find (fun p => String.eqb (fst p) k) l with Some p => Some (snd p) | None => None end.
Definition sget (k : string) (l : list (string * Q)) : Q := match lookup k l with Some q => q | None => 0 end.
Definition mem (k : string) (l : list string) : bool := existsb (String.eqb k) l.
Fixpoint nodupb (l : list string) : bool := match l with [] => true | x :: r => negb (mem x r) && nodupb r end.

Fixpoint zrange (lo : Z) (n : nat) : list Z := match n with O => [] | S k => lo :: zrange (lo + 1) k end.
Definition zspan (lo hi : Z) : list Z := zrange lo (Z.to_nat (hi - lo)).          (* lo, lo+1, ..., hi-1 *)

Definition no_env : env := fun _ => None.
Definition at_level (r : env) (x : var) (l : Z) : env := upd r x (inject_Z l).

(* ------------------------------------------------------------------------------------------------ formula checks *)
(* every variable of e is x *)
Fixpoint only_var (x : var) (e : expr) : bool :=
  match e with
  | Num _ => true
  | Var v => String.eqb v x
  | Bin _ a b | Fn2 _ a b => only_var x a && only_var x b
  | Neg a | Fn1 _ a => only_var x a
  end.

Definition step_ok (r : env) (x : var) (e : expr) (l : Z) : bool :=
  match eval (at_level r x l) e, eval (at_level r x (l + 1)) e with
  | Some a, Some b => Qle_bool a b
  | _, _ => false
  end.
Definition defined_at (r : env) (x : var) (e : expr) (l : Z) : bool :=
  match eval (at_level r x l) e with Some _ => true | None => false end.
(* defined at lo and non-decreasing (and defined) on every step lo -> lo+1 -> ... -> hi *)
Definition sweep_ok (x : var) (e : expr) (lo hi : Z) : bool :=
  defined_at no_env x e lo && forallb (step_ok no_env x e) (zspan lo hi).

(* what is checked for one formula and one level variable x:
     x does not occur                      -> nothing to show
     no other variable occurs              -> sweep of the documented range (vm_compute)
     otherwise                             -> syntactic monotonicity over non-negative environments, from level >= 0 *)
Definition level_ok (x : var) (f : formula) : bool :=
  if const_in x (f_expr f) then true
  else if only_var x (f_expr f) then sweep_ok x (f_expr f) (f_lo f) (f_hi f)
  else mono x (f_expr f) && (0 <=? f_lo f)%Z.
Definition range_ok (f : formula) : bool := (0 <=? f_lo f)%Z && (f_lo f <=? f_hi f)%Z.

(* structural equality of expressions (numbers compared as written: numerator and denominator) *)
Definition q_same (a b : Q) : bool := (Qnum a =? Qnum b)%Z && (Qden a =? Qden b)%positive.
Definition bop_eqb (a b : bop) : bool :=
  match a, b with Add, Add | Sub, Sub | Mul, Mul | Div, Div | IDiv, IDiv | Gt, Gt | Lt, Lt => true | _, _ => false end.
Definition fn1_eqb (a b : fn1) : bool := match a, b with Ceil, Ceil | Floor, Floor | AtkSpd, AtkSpd => true | _, _ => false end.
Definition fn2_eqb (a b : fn2) : bool := match a, b with Min, Min | Max, Max => true | _, _ => false end.
Fixpoint expr_eqb (a b : expr) : bool :=
  match a, b with
  | Num p, Num q => q_same p q
  | Var v, Var w => String.eqb v w
  | Bin o a1 a2, Bin o' b1 b2 => bop_eqb o o' && expr_eqb a1 b1 && expr_eqb a2 b2
  | Neg a1, Neg b1 => expr_eqb a1 b1
  | Fn1 f a1, Fn1 f' b1 => fn1_eqb f f' && expr_eqb a1 b1
  | Fn2 g a1 a2, Fn2 g' b1 b2 => fn2_eqb g g' && expr_eqb a1 b1 && expr_eqb a2 b2
  | _, _ => false
  end.
Definition parses_to (f : formula) : bool :=
  match parse (f_toks f) with Some e => expr_eqb e (f_expr f) | None => false end.

(* SkillLevelPatch.translate on tokens: the level variable becomes the NUMBER token of the level (str(level), level >= 0) *)
Definition subst_tok (x : var) (l : Z) (t : tok) : tok :=
  match t with TVar v => if String.eqb v x then TNum (inject_Z l) else t | _ => t end.
Definition subst_toks (x : var) (l : Z) (ts : list tok) : list tok := map (subst_tok x l) ts.
Fixpoint subst (x : var) (q : Q) (e : expr) : expr :=
  match e with
  | Num _ => e
  | Var v => if String.eqb v x then Num q else e
  | Bin o a b => Bin o (subst x q a) (subst x q b)
  | Neg a => Neg (subst x q a)
  | Fn1 f a => Fn1 f (subst x q a)
  | Fn2 g a b => Fn2 g (subst x q a) (subst x q b)
  end.

(* ------------------------------------------------------------------------------------------------ figures *)
Definition int_valued (q : Q) : bool := Qeq_bool q (inject_Z (Qfloor q)).       (* pydantic int field: 46.0 -> 46, 46.5 refused *)
Definition apply_post (fval : nat -> option Q) (v : option Q) (o : postop) : option Q :=
  match v with
  | None => None
  | Some x =>
    match o with
    | PAdd q => Some (x + q)
    | PMul q => Some (x * q)
    | PAddF fid => match fval fid with Some y => if int_valued y then Some (x + y) else None | None => None end
    end
  end.
Definition base_value (fval : nat -> option Q) (b : base) : option Q := match b with BF fid => fval fid | BC q => Some q end.
Definition fig_value (fval : nat -> option Q) (g : figure) : option Q :=
  fold_left (apply_post fval) (g_post g) (base_value fval (g_base g)).
Definition post_nonneg (o : postop) : bool := match o with PMul q => Qle_bool 0 q | _ => true end.

Fixpoint base_fields (fval : nat -> option Q) (l : list (string * base)) : option (list (string * Q)) :=
  match l with
  | [] => Some []
  | (k, b) :: r => match base_value fval b, base_fields fval r with Some q, Some r' => Some ((k, q) :: r') | _, _ => None end
  end.

(* ------------------------------------------------------------------------------------------------ name filter *)
Definition cmp_z (c : cmp) (a b : Z) : bool :=
  match c with CGt => (a >? b)%Z | CGe => (a >=? b)%Z | CLt => (a <? b)%Z | CLe => (a <=? b)%Z
             | CEq => (a =? b)%Z | CNe => negb (a =? b)%Z end.
Definition level_of (levels : list (string * Z)) (d : Z) (k : string) : Z := match lookup k levels with Some v => v | None => d end.
Definition pick (t : tier) (low high : string) : string := match t with TLow => low | THigh => high end.
Definition excluded_by (cfg : excl_cfg) (levels : list (string * Z)) (pr : string * string) : list string :=
  if cmp_z (x_cmp cfg) (level_of levels (x_default cfg) (pick (x_lookup cfg) (fst pr) (snd pr))) (x_const cfg)
  then [pick (x_drop cfg) (fst pr) (snd pr)] else [].
Definition to_exclude (cfg : excl_cfg) (repl : list (string * string)) (levels : list (string * Z)) : list string :=
  flat_map (excluded_by cfg levels) repl.
(* _exclude_hexa_skill on names: repl = hexa_replacements.items() (low tier -> 6th-job replacement), levels = skill_levels *)
Definition exclude_hexa (cfg : excl_cfg) (names : list string) (repl : list (string * string)) (levels : list (string * Z)) : list string :=
  filter (fun n => negb (mem n (to_exclude cfg repl levels))) names.

(* SkillProfile.get_skill_levels as an association list read first-match (= the dict after its three updates:
   v names, then hexa names, then hexa mastery values; a later update wins) *)
Definition skill_levels_of (p : profile) (v h m : Z) : list (string * Z) :=
  map (fun n => (n, m)) (map snd (p_mastery p)) ++ map (fun n => (n, h)) (p_hexa_skills p) ++ map (fun n => (n, v)) (p_v_skills p).
