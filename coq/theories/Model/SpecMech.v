(* Extension `mech` of Model/Comp.v: executable model of the job-specific component classes of
   simaple/simulate/component/specific/mechanic.py, soulmaster.py, dualblade.py, windbreaker.py
   and thief.py (UltimateDarkSightComponent).

   Same conventions as Model/Comp.v: times are Z ticks; values the Python code obtains by a float
   multiplication (calculate_cooldown, lasting_duration * summon multiplier, damage * decrement)
   are PARAMETERS computed by Python; damage numbers are opaque codes -- here a damage code stands
   for the PAIR (damage, total modifier of the event), so that a reducer choosing the wrong
   modifier is a different event; hit numbers are opaque codes except where the class computes
   with them (HommingMissile, CosmicBurst: integer hits).

   A bound entity (`binds`) is part of the class's state record: the reducer receives it in its
   state and returns it; what is modelled is the reducer as a function (payload, state) -> (state, events).

   One universal state record `xst` = the common slots of Comp.ust + the slots only these classes have. *)
From Coq Require Import ZArith List Bool.
From V.Model Require Import Comp.
Import ListNotations.
Open Scope Z_scope.

(* =============================== entities Comp.v lacks =============================== *)
(* entity.py LastingStack *)
Module LS.
  Record T := mk { stack : Z; maxs : Z; dur : Z; tl : Z }.
  Definition reset (s : T) : T := mk 0 (maxs s) (dur s) 0.
  Definition enabled (s : T) : bool := 0 <? tl s.
  Definition increase (s : T) (v : Z) : T := mk (Z.min (maxs s) (stack s + v)) (maxs s) (dur s) (dur s).
  Definition decrease (s : T) (v : Z) : T := mk (stack s - v) (maxs s) (dur s) (tl s).
  Definition elapse (s : T) (time : Z) : T :=
    let s' := mk (stack s) (maxs s) (dur s) (tl s - time) in if tl s' <? 0 then reset s' else s'.
  Definition is_maximum (s : T) : bool := stack s =? maxs s.
  Definition regulate (s : T) (v : Z) : T := mk (Z.min v (stack s)) (maxs s) (dur s) (tl s).
End LS.

(* mechanic.py DynamicIntervalPeriodic *)
Module DP.
  Record D := mkD { ic : Z; itv : Z; tl : Z; cnt : Z; pen : Z; mx : Z }.
  Definition set_time_left (s : D) (time count : Z) : D := mkD 0 (itv s) time count (pen s) (mx s).
  (* the generator's while loop on (interval_counter, count): returns the final pair and the yielded counts *)
  Fixpoint loop (fuel : nat) (I pn m : Z) (c n : Z) : option (Z * Z * list Z) :=
    if 0 <? c then Some (c, n, []) else
    match fuel with
    | O => None
    | S f => match loop f I pn m (c + (I + n * pn)) (Z.min m (n + 1)) with
             | Some (c', n', l) => Some (c', n', n :: l)
             | None => None
             end
    end.
  Definition resolving_with (fuel : nat) (s : D) (time : Z) : option (D * list Z) :=
    match loop fuel (itv s) (pen s) (mx s) (ic s - Z.min time (tl s)) (cnt s) with
    | Some (c', n', l) => Some (mkD c' (itv s) (tl s - time) n' (pen s) (mx s), l)
    | None => None
    end.
  (* specification fuel: every iteration adds at least one tick to the counter when wf *)
  Definition fuel_of (s : D) (time : Z) : nat := S (Z.to_nat (- (ic s - Z.min time (tl s)))).
  Definition resolving (s : D) (time : Z) : D * list Z :=
    match resolving_with (fuel_of s time) s time with Some r => r | None => (s, []) end.
  (* executable fuel: None = exhausted (never a value) *)
  Definition exec_fuel (s : D) (time : Z) : nat := Z.to_nat ((- (ic s - Z.min time (tl s))) / itv s + 3).
  Definition resolving_exec (s : D) (time : Z) : option (D * list Z) := resolving_with (exec_fuel s time) s time.
  Definition wf (s : D) : Prop := 0 < itv s /\ 0 <= pen s /\ 0 <= cnt s /\ 0 <= mx s /\ (tl s < 0 -> 0 < ic s).
  (* once the schedule is over and the counter positive, counter and count are never read again
     (use resets both) *)
  Definition norm (s : D) : D :=
    if (tl s <=? 0) && (0 <? ic s) then mkD 1 (itv s) (tl s) 0 (pen s) (mx s) else s.
End DP.

(* =============================== state and parameters =============================== *)
Record xst := mkX {
  x_u : ust;                 (* cooldown, second cooldown, lasting, consumable, periodic, keydown (own entities) *)
  x_rm : Z * Z;              (* bound RobotMastery (codes of summon_increment, robot_damage_increment) *)
  x_l2 : Z * Z;              (* a second Lasting (time_left, assigned_duration): FullMetalBarrage.penalty_lasting,
                                bound bomber_time / cosmic_forge_lasting / elysion_lasting *)
  x_l3 : Z * Z;              (* bound full_barrage_penalty_lasting *)
  x_k2 : K.K;                (* bound full_barrage_keydown *)
  x_ls : LS.T;               (* LastingStack: orb / Elysion.stack / KarmaBlade.lasting_stack *)
  x_cyc : Z * Z;             (* Cycle (tick, period) *)
  x_int : Z;                 (* Integer.value (HowlingGale.consumed) *)
  x_dp : DP.D                (* DynamicIntervalPeriodic *)
}.

Definition set_u (s : xst) v := mkX v (x_rm s) (x_l2 s) (x_l3 s) (x_k2 s) (x_ls s) (x_cyc s) (x_int s) (x_dp s).
Definition set_l2 (s : xst) v := mkX (x_u s) (x_rm s) v (x_l3 s) (x_k2 s) (x_ls s) (x_cyc s) (x_int s) (x_dp s).
Definition set_ls (s : xst) v := mkX (x_u s) (x_rm s) (x_l2 s) (x_l3 s) (x_k2 s) v (x_cyc s) (x_int s) (x_dp s).
Definition set_cyc (s : xst) v := mkX (x_u s) (x_rm s) (x_l2 s) (x_l3 s) (x_k2 s) (x_ls s) v (x_int s) (x_dp s).
Definition set_int (s : xst) v := mkX (x_u s) (x_rm s) (x_l2 s) (x_l3 s) (x_k2 s) (x_ls s) (x_cyc s) v (x_dp s).
Definition set_dp (s : xst) v := mkX (x_u s) (x_rm s) (x_l2 s) (x_l3 s) (x_k2 s) (x_ls s) (x_cyc s) (x_int s) v.

Record xpar := mkXP {
  xp : par;                  (* the common parameters (Comp.par) *)
  xp_d2 : dh;                (* a second damage/hit pair: homing during barrage (damage code only) /
                                CosmicBurst second hit (damage code only) / gatling / Elysion crack / BladeStorm prepare *)
  xp_n1 : Z;                 (* integer: homing base hit / missile_count / start_intercepter /
                                default_max_stack / triggable_count / CosmicBurst hit *)
  xp_t1 : Z;                 (* time: homing_penalty_duration / crack_cooldown / cooltime_reduce_per_orb /
                                duration_increase_per_orb / periodic_interval_decrement_per_orb / stance reduce *)
  xp_t2 : Z;                 (* time: Cosmos.periodic_interval / styx reduce *)
  xp_num : Z; xp_den : Z;    (* FinalCut: 1 - sudden_raid_cooltime_reduce * 0.01 as a fraction *)
  xp_rows : list (list dh)   (* HowlingGale: zip(periodic_damage[i], periodic_hit[i]) *)
}.

Definition xres := (xst * list ev)%type.
Definition lift (s : xst) (r : res) : xres := (set_u s (fst r), snd r).
Definition l_on (l : Z * Z) : bool := 0 <? fst l.            (* Lasting.enabled *)
Definition is_kdend (e : ev) : bool := match e with EKeydownEnd => true | _ => false end.
Definition kd_ended (es : list ev) : bool := existsb is_kdend es.

(* =============================== mechanic.py =============================== *)
(* RobotSummonSkill: PeriodicWithSimpleDamageTrait.use (p_last = lasting_duration * summon multiplier, computed by
   Python); elapse = periodic elapse whose tick events carry the robot modifier (inside the code p_pd1) *)
Definition rs_use (p : xpar) (s : xst) : xres := lift s (use_periodic_with_simple (xp p) (x_u s)).
Definition rs_elapse pe (p : xpar) (t : Z) (s : xst) : xres := lift s (elapse_periodic_with pe (xp p) t (x_u s)).

(* RobotSetupBuff / UltimateDarkSightComponent: BuffTrait with apply_buff_duration = False *)
Definition bf_use (p : xpar) (s : xst) : xres := lift s (use_buff_trait (xp p) (x_u s)).
Definition bf_elapse (t : Z) (s : xst) : xres := lift s (elapse_buff_trait t (x_u s)).

(* HommingMissile *)
Definition hm_hit (p : xpar) (s : xst) : Z :=
  let h0 := xp_n1 p in
  let h1 := if l_on (x_l2 s) then h0 + 6 else h0 in
  let h2 := if K.running (x_k2 s) then h1 + 7 else h1 in
  if l_on (x_l3 s) then 0 else h2.
Definition hm_dmg (p : xpar) (s : xst) : Z := if K.running (x_k2 s) then fst (xp_d2 p) else fst (p_pd1 (xp p)).
Definition hm_use (p : xpar) (s : xst) : xres := lift s (use_periodic (xp p) (x_u s)).
Definition hm_elapse (pe : P.P -> Z -> P.P) (p : xpar) (t : Z) (s : xst) : xres :=
  let u := x_u s in let q := pe (u_p1 u) t in
  (set_u s (set_p1 (set_cd u (u_cd u - t)) q),
   EElapsed t :: repeat (EDealt (hm_dmg p s) (hm_hit p s)) (ticks (u_p1 u) q)).
Definition hm_pause (t : Z) (s : xst) : xres :=
  let u := x_u s in let q := u_p1 u in
  (set_u s (set_p1 u (P.mkP (P.interval q) t (P.tl q) (P.cnt q))), []).

(* FullMetalBarrageComponent: key-down traits + the penalty lasting *)
Definition fmb_penalize (p : xpar) (r : xres) : xres :=
  if kd_ended (snd r) then (set_l2 (fst r) (xp_t1 p, xp_t1 p), snd r) else r.
Definition fmb_use (p : xpar) (s : xst) : xres := lift s (use_keydown_trait (xp p) (x_u s)).
(* elapse, after the repair f0eb2ac: the penalty armed when the key-down runs out is aged by the time that
   passed since it ran out (set_time_left(duration); elapse(-keydown.time_left), time_left <= 0 there) *)
Definition fmb_penalize_elapse (p : xpar) (r : xres) : xres :=
  if kd_ended (snd r) then (set_l2 (fst r) (xp_t1 p + K.tl (u_kd (x_u (fst r))), xp_t1 p), snd r) else r.
Definition fmb_elapse (p : xpar) (t : Z) (s : xst) : xres :=
  let s0 := set_l2 s (fst (x_l2 s) - t, snd (x_l2 s)) in
  fmb_penalize_elapse p (lift s0 (elapse_keydown_trait (xp p) t (x_u s))).
Definition fmb_stop (p : xpar) (s : xst) : xres := fmb_penalize p (lift s (stop_keydown_trait (xp p) (x_u s))).

(* MultipleOptionComponent *)
Definition cyc_step (c : Z * Z) : Z * Z := ((fst c + 1) mod (snd c), snd c).
Fixpoint mo_events (p : xpar) (n : nat) (c : Z * Z) : list ev * (Z * Z) :=
  match n with
  | O => ([], c)
  | S n' => let e := if fst c <? xp_n1 p then dealt (p_dmg2 (xp p)) else dealt (xp_d2 p) in
            let '(l, c') := mo_events p n' (cyc_step c) in (e :: l, c')
  end.
Definition mo_elapse (pe : P.P -> Z -> P.P) (p : xpar) (t : Z) (s : xst) : xres :=
  let u := x_u s in let q := pe (u_p1 u) t in
  let '(l, c') := mo_events p (ticks (u_p1 u) q) (x_cyc s) in
  (set_cyc (set_u s (set_p1 (set_cd u (u_cd u - t)) q)) c', EElapsed t :: l).
Definition mo_use (p : xpar) (s : xst) : xres :=
  let u := x_u s in
  if negb (avail u) then (s, [EReject])
  else (set_cyc (set_u s (set_p1 (set_cd u (p_cdA (xp p))) (P.set_time_left (u_p1 u) (u_ic1 u) (p_last (xp p))))) (0, snd (x_cyc s)),
        [EDelay (p_delay (xp p))]).

(* MecaCarrier *)
Definition mc_events (p : xpar) (l : list Z) : list ev :=
  flat_map (fun n => repeat (dealt (p_pd1 (xp p))) (Z.to_nat n)) l.
Definition mc_elapse (dr : DP.D -> Z -> DP.D * list Z) (p : xpar) (t : Z) (s : xst) : xres :=
  let u := x_u s in let '(d', l) := dr (x_dp s) t in
  (set_dp (set_u s (set_cd u (u_cd u - t))) d', EElapsed t :: mc_events p l).
Definition mc_use (p : xpar) (s : xst) : xres :=
  let u := x_u s in
  if negb (avail u) then (s, [EReject])
  else (set_dp (set_u s (set_cd u (p_cdA (xp p)))) (DP.set_time_left (x_dp s) (p_last (xp p)) (xp_n1 p)),
        [EDelay (p_delay (xp p))]).

(* =============================== soulmaster.py =============================== *)
(* CosmicOrb (orb = x_ls, bound cosmic_forge_lasting = x_l2) *)
Definition orb_regulate (p : xpar) (s : xst) : xst :=
  if l_on (x_l2 s) then s else set_ls s (LS.regulate (x_ls s) (xp_n1 p)).
Definition orb_increase (p : xpar) (s : xst) : xres :=
  let o1 := LS.increase (x_ls s) 1 in
  let o2 := if l_on (x_l2 s) then o1 else LS.increase o1 1 in
  (orb_regulate p (set_ls s o2), []).
Definition orb_maximize (p : xpar) (s : xst) : xres :=
  (orb_regulate p (set_ls s (LS.increase (x_ls s) 10)), []).

(* Elysion (stack = x_ls, crack_cooldown = u_cd2) *)
Definition ely_crack (p : xpar) (s : xst) : xres :=
  let u := x_u s in
  if negb (las_on u) || negb (avail2 u) then (s, [])
  else let k := LS.increase (x_ls s) 1 in
       if LS.is_maximum k then (set_ls (set_u s (set_cd2 u (xp_t1 p))) (LS.reset k), [dealt (xp_d2 p)])
       else (set_ls s k, []).
Definition ely_elapse (t : Z) (s : xst) : xres :=
  let u := x_u s in
  (set_ls (set_u s (set_cd2 (set_las (set_cd u (u_cd u - t)) (u_ltl u - t) (u_lad u)) (u_cd2 u - t))) (LS.elapse (x_ls s) t),
   [EElapsed t]).

(* CrossTheStyx (bound elysion_lasting = x_l2) *)
Definition styx_use (p : xpar) (s : xst) : xres :=
  if negb (l_on (x_l2 s)) then (s, [EReject]) else (s, [dealt (p_dmg (xp p)); EDelay (p_delay (xp p))]).

(* CosmicBurst (bound orb = x_ls); hit is an integer here *)
Definition cb_elapse (t : Z) (s : xst) : xres := lift s (elapse_simple_attack t (x_u s)).
Definition cb_trigger (p : xpar) (s : xst) : xres :=
  let u := x_u s in let orbs := LS.stack (x_ls s) in
  if negb (avail u) || (orbs =? 0) then (s, [EReject])
  else (set_ls (set_u s (set_cd u (p_cdA (xp p) - orbs * xp_t1 p))) (LS.reset (x_ls s)),
        [EDealt (fst (p_dmg (xp p))) (xp_n1 p); EDealt (fst (xp_d2 p)) (xp_n1 p * (orbs - 1))]).

(* CosmicShower / Cosmos (bound orb = x_ls) *)
Definition orb_gate (s : xst) : bool := negb (avail (x_u s)) || (LS.stack (x_ls s) =? 0).
Definition cs_use (p : xpar) (s : xst) : xres :=
  let u := x_u s in let orbs := LS.stack (x_ls s) in
  if orb_gate s then (s, [EReject])
  else (set_ls (set_u s (set_p1 (set_cd u (p_cdA (xp p))) (P.set_time_left (u_p1 u) (u_ic1 u) (p_last (xp p) + orbs * xp_t1 p))))
               (LS.reset (x_ls s)),
        [EDelay (p_delay (xp p))]).
Definition cm_use (p : xpar) (s : xst) : xres :=
  let u := x_u s in let orbs := LS.stack (x_ls s) in
  if orb_gate s then (s, [EReject])
  else let q := u_p1 u in
       let q1 := P.mkP (xp_t2 p - orbs * xp_t1 p) (P.counter q) (P.tl q) (P.cnt q) in
       (set_ls (set_u s (set_p1 (set_cd u (p_cdA (xp p))) (P.set_time_left q1 (u_ic1 u) (p_last (xp p))))) (LS.reset (x_ls s)),
        [EDelay (p_delay (xp p))]).

(* FlareSlash: the cooldown is reduced BEFORE the availability test of use_simple_attack (as coded); after
   the repair 5aadaec the two triggers are @ignore_rejected: while cooling down they shorten the cooldown
   silently *)
Definition fs_trigger (r : Z) (p : xpar) (s : xst) : xres :=
  let u := x_u s in let s1 := set_u s (set_cd u (u_cd u - r)) in
  lift s1 (ignore_rejected (use_simple_attack (xp p) (x_u s1))).

(* =============================== dualblade.py =============================== *)
Definition fc_use (p : xpar) (s : xst) : xres := lift s (use_simple_attack (xp p) (x_u s)).
Definition fc_sudden_raid (p : xpar) (s : xst) : xres :=
  let u := x_u s in (set_u s (set_cd u (u_cd u * xp_num p / xp_den p)), []).

Definition bs_use (p : xpar) (s : xst) : xres :=
  let r := use_keydown_trait (xp p) (x_u s) in
  if rejected (snd r) then lift s r else (set_u s (fst r), snd r ++ [dealt (xp_d2 p)]).
Definition bs_elapse (p : xpar) (t : Z) (s : xst) : xres := lift s (elapse_keydown_trait (xp p) t (x_u s)).
Definition bs_stop (p : xpar) (s : xst) : xres := lift s (stop_keydown_trait (xp p) (x_u s)).

(* KarmaBladeTriggerComponent (lasting_stack = x_ls); elapse emits no elapsed notification *)
Definition kb_elapse (p : xpar) (t : Z) (s : xst) : xres :=
  let u := x_u s in let s1 := set_u s (set_cd u (u_cd u - t)) in
  let k := LS.elapse (x_ls s) t in
  if LS.enabled (x_ls s) && negb (LS.enabled k) then (set_ls s1 (LS.reset k), [dealt (p_fin (xp p))])
  else (set_ls s1 k, []).
Definition kb_use (p : xpar) (s : xst) : xres := (set_ls s (LS.increase (LS.reset (x_ls s)) (xp_n1 p)), []).
Definition kb_trigger (p : xpar) (s : xst) : xres :=
  let u := x_u s in
  if negb (LS.enabled (x_ls s)) then (s, [])
  else if negb (avail u) then (s, [])
  else let k := LS.decrease (x_ls s) 1 in
       let s1 := set_u s (set_cd u (p_cdB (xp p))) in
       if LS.stack k <=? 0 then (set_ls s1 (LS.reset k), [dealt (p_dmg (xp p)); dealt (p_fin (xp p))])
       else (set_ls s1 k, [dealt (p_dmg (xp p))]).

(* =============================== windbreaker.py =============================== *)
(* HowlingGaleComponent: Python list indexing periodic_damage[consumed - 1] (index -1 = last row) *)
Definition hg_row (p : xpar) (consumed : Z) : list dh :=
  let i := consumed - 1 in let n := Z.of_nat (length (xp_rows p)) in
  nth (Z.to_nat (if i <? 0 then i + n else i)) (xp_rows p) [].
Fixpoint hg_events (row : list ev) (n : nat) : list ev :=
  match n with O => [] | S n' => row ++ hg_events row n' end.
Definition hg_elapse (pe : P.P -> Z -> P.P) (p : xpar) (t : Z) (s : xst) : xres :=
  let u := x_u s in let q := pe (u_p1 u) t in
  (set_u s (set_p1 (set_cons u (C.elapse (u_cons u) t)) q),
   EElapsed t :: hg_events (map dealt (hg_row p (x_int s))) (ticks (u_p1 u) q)).
Definition hg_use (p : xpar) (s : xst) : xres :=
  let u := x_u s in let c := u_cons u in
  if negb (C.available c) then (s, [EReject])
  else let consumed := Z.min (C.stack c) (Z.of_nat (length (xp_rows p))) in
       (set_int (set_u s (set_p1 (set_cons u (C.mkC (C.maxs c) (C.stack c - consumed) (C.cd c) (C.tl c)))
                                 (P.set_time_left (u_p1 u) (u_ic1 u) (p_last (xp p))))) consumed,
        [EDelay (p_delay (xp p))]).

(* =============================== dispatch =============================== *)
Inductive xcomp :=
| RobotSummon | RobotSetupBuff | HommingMissile | FullMetalBarrage | MultipleOption | MecaCarrier
| CosmicOrb | Elysion | CrossTheStyx | CosmicBurst | CosmicShower | Cosmos | FlareSlash
| FinalCut | BladeStorm | UltimateDarkSight | KarmaBlade | HowlingGale.

Inductive xmeth :=
| XUse | XElapse | XStop | XPause | XIncrease | XMaximize | XCrack | XTrigger | XChangeStance | XStyx | XSuddenRaid.

(* pe / dr: the Periodic.elapse and DynamicIntervalPeriodic.resolving to use (specification versions in the theorems,
   fuel-checked executable versions in correspondence runs).  None = the class has no such reducer. *)
Definition xreduce (pe : P.P -> Z -> P.P) (dr : DP.D -> Z -> DP.D * list Z)
                   (c : xcomp) (m : xmeth) (p : xpar) (t : Z) (s : xst) : option xres :=
  match c, m with
  | RobotSummon, XUse => Some (rs_use p s)
  | RobotSummon, XElapse => Some (rs_elapse pe p t s)
  | RobotSetupBuff, XUse | UltimateDarkSight, XUse => Some (bf_use p s)
  | RobotSetupBuff, XElapse | UltimateDarkSight, XElapse => Some (bf_elapse t s)
  | HommingMissile, XUse => Some (hm_use p s)
  | HommingMissile, XElapse => Some (hm_elapse pe p t s)
  | HommingMissile, XPause => Some (hm_pause t s)
  | FullMetalBarrage, XUse => Some (fmb_use p s)
  | FullMetalBarrage, XElapse => Some (fmb_elapse p t s)
  | FullMetalBarrage, XStop => Some (fmb_stop p s)
  | MultipleOption, XUse => Some (mo_use p s)
  | MultipleOption, XElapse => Some (mo_elapse pe p t s)
  | MecaCarrier, XUse => Some (mc_use p s)
  | MecaCarrier, XElapse => Some (mc_elapse dr p t s)
  | CosmicOrb, XIncrease => Some (orb_increase p s)
  | CosmicOrb, XMaximize => Some (orb_maximize p s)
  | Elysion, XUse => Some (bf_use p s)
  | Elysion, XElapse => Some (ely_elapse t s)
  | Elysion, XCrack => Some (ely_crack p s)
  | CrossTheStyx, XUse => Some (styx_use p s)
  | CosmicBurst, XElapse => Some (cb_elapse t s)
  | CosmicBurst, XTrigger => Some (cb_trigger p s)
  | CosmicShower, XUse => Some (cs_use p s)
  | CosmicShower, XElapse | Cosmos, XElapse => Some (rs_elapse pe p t s)
  | Cosmos, XUse => Some (cm_use p s)
  | FlareSlash, XElapse => Some (cb_elapse t s)
  | FlareSlash, XChangeStance => Some (fs_trigger (xp_t1 p) p s)
  | FlareSlash, XStyx => Some (fs_trigger (xp_t2 p) p s)
  | FinalCut, XUse => Some (fc_use p s)
  | FinalCut, XElapse => Some (cb_elapse t s)
  | FinalCut, XSuddenRaid => Some (fc_sudden_raid p s)
  | BladeStorm, XUse => Some (bs_use p s)
  | BladeStorm, XElapse => Some (bs_elapse p t s)
  | BladeStorm, XStop => Some (bs_stop p s)
  | KarmaBlade, XUse => Some (kb_use p s)
  | KarmaBlade, XElapse => Some (kb_elapse p t s)
  | KarmaBlade, XTrigger => Some (kb_trigger p s)
  | HowlingGale, XUse => Some (hg_use p s)
  | HowlingGale, XElapse => Some (hg_elapse pe p t s)
  | _, _ => None
  end.

Definition xreduce_spec := xreduce P.elapse DP.resolving.

(* executable instance: a fuelled loop that runs out of fuel makes the whole result None *)
Definition dr_exec (d : DP.D) (t : Z) : DP.D * list Z :=
  match DP.resolving_exec d t with Some r => r | None => (d, []) end.
Definition xreduce_exec (c : xcomp) (m : xmeth) (p : xpar) (t : Z) (s : xst) : option xres :=
  if negb (pe_exec_ok (x_u s) t) then None else
  match c, m, DP.resolving_exec (x_dp s) t with
  | MecaCarrier, XElapse, None => None
  | _, _, _ => xreduce pe_exec dr_exec c m p t s
  end.

(* =============================== views =============================== *)
Definition xview_validity (c : xcomp) (p : xpar) (s : xst) : option validity :=
  let u := x_u s in
  match c with
  | CosmicOrb | CosmicBurst => None
  | FullMetalBarrage | BladeStorm => Some (mkV (avail u && negb (K.running (u_kd u))) (Z.max 0 (u_cd u)) None)
  | CrossTheStyx => Some (mkV (l_on (x_l2 s)) 0 None)
  | CosmicShower | Cosmos => Some (mkV (avail u && (0 <? LS.stack (x_ls s))) (Z.max 0 (u_cd u)) None)
  | FlareSlash => Some (mkV false (Z.max 0 (u_cd u)) None)
  | HowlingGale => Some (mkV (C.available (u_cons u)) (Z.max 0 (C.tl (u_cons u))) (Some (C.stack (u_cons u))))
  | _ => Some (mkV (avail u) (Z.max 0 (u_cd u)) None)
  end.

Definition xview_running (c : xcomp) (p : xpar) (s : xst) : option running :=
  let u := x_u s in
  match c with
  | RobotSetupBuff | UltimateDarkSight | Elysion => Some (mkR (u_ltl u) (u_lad u) None)
  | RobotSummon | HommingMissile | MultipleOption | CosmicShower | Cosmos | HowlingGale =>
      Some (mkR (P.tl (u_p1 u)) (p_lastraw (xp p)) None)
  | MecaCarrier =>
      Some (mkR (DP.tl (x_dp s)) (p_lastraw (xp p)) (Some (if 0 <? DP.tl (x_dp s) then DP.cnt (x_dp s) else 0)))
  | KarmaBlade => Some (mkR (LS.tl (x_ls s)) (p_lastraw (xp p)) (Some (LS.stack (x_ls s))))
  | _ => None
  end.

(* Some 1 = the class's buff stat, None = no buff view or the view returns None *)
Definition xview_buff (c : xcomp) (s : xst) : option Z :=
  match c with
  | RobotSetupBuff | UltimateDarkSight => if las_on (x_u s) then Some 1 else None
  | CosmicOrb => if 0 <? LS.stack (x_ls s) then Some 1 else None
  | _ => None
  end.

Definition xview_keydown (c : xcomp) (s : xst) : option (bool * Z) :=
  match c with
  | FullMetalBarrage | BladeStorm => Some (K.running (u_kd (x_u s)), K.tl (u_kd (x_u s)))
  | _ => None
  end.
