(* Dispatcher code (simulate/base.py TandemDispatcher / RouterDispatcher, component/base.py ContextDispatcher) is written against two
   pieces of mutable state - the router's hidden state X (its route cache) and the store St, both mutated in place - and may raise.
   M A is that computation as a value; tools/tr_dispatch.py translates the three __call__ methods into M-terms (gen/DispatchSrc.v) and
   Proofs/DispatchTie.v proves them equal to call_d / dispatch_c of Model/Router.v. *)
From Coq Require Import List.
Import ListNotations.

Section M.
  Variables X St : Type.
  Definition M (A : Type) := X -> St -> X * option (St * A).
  Definition retM {A} (a : A) : M A := fun x st => (x, Some (st, a)).
  Definition failM {A} : M A := fun x st => (x, None).                       (* raises *)
  Definition bindM {A B} (m : M A) (f : A -> M B) : M B :=
    fun x st => match m x st with (x', Some (st', a)) => f a x' st' | (x', None) => (x', None) end.
  Definition getX : M X := fun x st => (x, Some (st, x)).
  Definition modX (f : X -> X) : M unit := fun x st => (f x, Some (st, tt)).

  (* for b in l: acc += f b *)
  Fixpoint for_acc {B E} (l : list B) (f : B -> M (list E)) (acc : list E) : M (list E) :=
    match l with
    | [] => retM acc
    | b :: r => bindM (f b) (fun ev => for_acc r f (acc ++ ev))
    end.
  (* for b in l: s = f b s *)
  Fixpoint for_st {B S} (l : list B) (f : B -> S -> M S) (s : S) : M S :=
    match l with
    | [] => retM s
    | b :: r => bindM (f b s) (fun s' => for_st r f s')
    end.
  Fixpoint enum_from {B} (i : nat) (l : list B) : list (nat * B) :=
    match l with [] => [] | b :: r => (i, b) :: enum_from (S i) r end.
End M.
Arguments retM {X St A} a.
Arguments failM {X St A}.
Arguments bindM {X St A B} m f.
Arguments getX {X St}.
Arguments modX {X St} f.
Arguments for_acc {X St B E} l f acc.
Arguments for_st {X St B S} l f s.
