(* Comparators used by generated correspondence shards (never by a theorem). *)
From Coq Require Import QArith Qabs Qminmax ZArith NArith List Bool PrimFloat.
Import ListNotations.

Definition feq (a b : float) : bool :=
  (PrimFloat.eqb a b) || (PrimFloat.is_nan a && PrimFloat.is_nan b).

(* |a-b| <= 1e-9 * max 1 |b|  -- the "rounding-noise" rule for values that went through
   binary64 multiplications/divisions on the Python side *)
Definition qclose (a b : Q) : bool :=
  Qle_bool (Qabs (a - b)) ((1#1000000000) * Qmax 1 (Qabs b)).
Definition qexact (a b : Q) : bool := Qeq_bool a b.

Definition oclose {A} (c : A -> A -> bool) (a b : option A) : bool :=
  match a, b with Some x, Some y => c x y | None, None => true | _, _ => false end.

Fixpoint lclose {A} (c : A -> A -> bool) (a b : list A) : bool :=
  match a, b with
  | [], [] => true
  | x :: a', y :: b' => c x y && lclose c a' b'
  | _, _ => false
  end.

Fixpoint bad_from (i : N) (l : list bool) : list N :=
  match l with
  | [] => []
  | true :: l' => bad_from (N.succ i) l'
  | false :: l' => i :: bad_from (N.succ i) l'
  end.
Definition bad (l : list bool) : list N := bad_from 0 l.
