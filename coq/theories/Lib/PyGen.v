(* A Python generator that yields actions and is sent event lists (simulate/policy/handlers.py: `events = yield action`), and the
   loop that drives it (simulate/engine.py BasicOperationEngine._exec_operation with BehaviorStrategy.__call__: the first call hands
   the buffered events to the generator function, every later call sends the events of the play just made; a finished generator
   ends the loop).  tools/tr_handlers.py translates the five operation handlers into values of `gen`; Proofs/HandlersTie.v proves
   that driving them is Model/Engine.v's exec_op. *)
From Coq Require Import List.
Import ListNotations.

Section Gen.
  Variables Ev Act : Type.
  Inductive gen := Done | Yield (a : Act) (k : list Ev -> gen).

  (* for x in xs: if <f x gives a value>: return it ; return dflt *)
  Fixpoint for_first {A R} (f : A -> option R) (xs : list A) (dflt : R) : R :=
    match xs with [] => dflt | x :: r => match f x with Some v => v | None => for_first f r dflt end end.

  Variables St PL : Type.
  Variable play : St -> Act -> St * list Ev.
  Variable mkpl : St -> Act -> list Ev -> PL.
  Fixpoint exec_gen (g : gen) (st : St) (b : list Ev) : St * list PL * list Ev :=
    match g with
    | Done => (st, [], b)
    | Yield a k => let '(st1, e1) := play st a in
                   let '(st2, pls, b2) := exec_gen (k e1) st1 e1 in
                   (st2, mkpl st1 a e1 :: pls, b2)
    end.
End Gen.
Arguments Done {Ev Act}.
Arguments Yield {Ev Act} a k.
