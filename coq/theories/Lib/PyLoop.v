(* Python control-flow and list primitives shared by the C13 window model (hand-written,
   Model/Window.v) and its regenerated twin (gen/WindowSrc.v, written by tools/tr_window.py).
   Definitions only.

   outcome    : what one pass through the body of a `while True:` loop does
   result     : what the whole function does (IndexError = a subscript out of range;
                OutOfFuel = the nat fuel ran out, excluded by Proofs/Window.v fuel_enough)
   slice      : l[s:e] for 0 <= s, 0 <= e (clipped to the list like Python's)            *)
From Coq Require Import List.
Import ListNotations.

Inductive outcome (S : Type) : Type :=
| Continue (s : S)
| Break (s : S)
| Raise.
Arguments Continue {S} s.
Arguments Break {S} s.
Arguments Raise {S}.

Inductive result (R : Type) : Type :=
| Ok (r : R)
| IndexError
| OutOfFuel.
Arguments Ok {R} r.
Arguments IndexError {R}.
Arguments OutOfFuel {R}.

Fixpoint while_true {S : Type} (step : S -> outcome S) (fuel : nat) (x : S) : result S :=
  match fuel with
  | O => OutOfFuel
  | Datatypes.S f =>
    match step x with
    | Continue y => while_true step f y
    | Break y => Ok y
    | Raise => IndexError
    end
  end.

Definition slice {A : Type} (l : list A) (s e : nat) : list A := firstn (e - s) (skipn s l).
