(* The handful of Python list idioms the methods of SimulationHistory / OperationLog (simulate/policy/base.py) are written in,
   as total Gallina functions in the option monad (None = the Python code raises: IndexError of xs[-1] on an empty list, an explicit
   `raise`).  tools/tr_history.py translates the methods into terms over these combinators (gen/HistorySrc.v); Proofs/HistoryTie.v
   proves those terms equal to the definitions of Model/Engine.v. *)
From Coq Require Import List ZArith Bool.
Import ListNotations.

Definition bind {A B} (x : option A) (f : A -> option B) : option B := match x with Some a => f a | None => None end.

(* xs[-1] *)
Definition py_last {A} (xs : list A) : option A := last (map Some xs) None.
(* truth value of a list *)
Definition py_truthy {A} (xs : list A) : bool := match xs with [] => false | _ :: _ => true end.
(* xs[:k] *)
Definition py_slice_to {A} (xs : list A) (k : Z) : list A :=
  if (0 <=? k)%Z then firstn (Z.to_nat k) xs else firstn (length xs - Z.to_nat (- k)) xs.
(* enumerate(xs) *)
Fixpoint py_enumerate_from {A} (i : Z) (xs : list A) : list (Z * A) :=
  match xs with [] => [] | x :: r => (i, x) :: py_enumerate_from (i + 1)%Z r end.
Definition py_enumerate {A} (xs : list A) := py_enumerate_from 0%Z xs.
Definition py_len {A} (xs : list A) : Z := Z.of_nat (length xs).

(* for x in xs: BODY ; REST     where BODY either raises (None), goes on (Some None) or returns v (Some (Some v)) *)
Fixpoint py_for {A R} (body : A -> option (option R)) (xs : list A) (rest : option R) : option R :=
  match xs with
  | [] => rest
  | x :: r => match body x with
              | None => None
              | Some (Some v) => Some v
              | Some None => py_for body r rest
              end
  end.

Lemma py_last_app {A} (xs : list A) (x : A) : py_last (xs ++ [x]) = Some x.
Proof.
  unfold py_last. induction xs as [|y ys IH]; [reflexivity|].
  cbn [app map]. destruct (ys ++ [x]) eqn:E; [destruct ys; discriminate|]. cbn [map] in *. exact IH.
Qed.

Lemma py_last_nil_iff {A} (xs : list A) : py_last xs = None <-> xs = [].
Proof.
  split; [|intros ->; reflexivity].
  destruct xs as [|x xs] using rev_ind; [reflexivity|]. rewrite py_last_app. discriminate.
Qed.

(* xs[k:] *)
Definition py_slice_from {A} (xs : list A) (k : Z) : list A :=
  if (0 <=? k)%Z then skipn (Z.to_nat k) xs else skipn (length xs - Z.to_nat (- k)) xs.
(* xs[i] for a non-negative index (negative indices are translated by py_last only) *)
Definition py_index {A} (xs : list A) (i : Z) : option A := if (0 <=? i)%Z then nth_error xs (Z.to_nat i) else None.

(* for x in xs: BODY   where BODY updates a state and either goes on (true: fell through or `continue`) or leaves the loop
   (false: `break`); None = raised *)
Fixpoint py_for_state {A S} (body : A -> S -> option (S * bool)) (xs : list A) (s : S) : option S :=
  match xs with
  | [] => Some s
  | x :: r => match body x s with
              | None => None
              | Some (s', true) => py_for_state body r s'
              | Some (s', false) => Some s'
              end
  end.

(* while TEST: s = STEP s   with explicit fuel (None when the fuel runs out: excluded by the tie theorems) *)
Fixpoint py_while {S} (fuel : nat) (test : S -> option bool) (step : S -> S) (s : S) : option S :=
  match fuel with
  | O => None
  | Datatypes.S f => match test s with
                     | None => None
                     | Some false => Some s
                     | Some true => py_while f test step (step s)
                     end
  end.
