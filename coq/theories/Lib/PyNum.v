(* Helpers shared by every translator-generated file: Python list indexing (negative
   indices wrap, out of range fails) over rational indices. *)
From Coq Require Import QArith Qround ZArith List.
Import ListNotations.

Definition py_index {A} (l : list A) (i : Q) : option A :=
  let z := Qfloor i in
  let n := Z.of_nat (length l) in
  if (z <? 0)%Z then
    (if (n + z <? 0)%Z then None else nth_error l (Z.to_nat (n + z)))
  else nth_error l (Z.to_nat z).
