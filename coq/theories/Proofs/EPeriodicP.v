From Coq Require Import ZArith Lia Bool List.
Import ListNotations.
Open Scope Z_scope.
From V.Model Require Export EPeriodic.

Lemma step_wf s t : wf s -> 0 < t -> wf (fst (step s t)).
Proof.
  unfold wf, step. intros [Hi Hc] Ht.
  destruct (tl s <=? 0) eqn:E1; cbn; [auto|].
  destruct (tl s - Z.min (counter s) (Z.min (tl s) t) =? 0) eqn:E2; cbn; [auto|].
  destruct (counter s - Z.min (counter s) (Z.min (tl s) t) =? 0) eqn:E3; cbn; lia.
Qed.

Lemma step_time s t : wf s -> 0 < t -> 0 <= snd (step s t) < t.
Proof.
  unfold wf, step. intros [Hi Hc] Ht.
  destruct (tl s <=? 0) eqn:E1; cbn; [lia|].
  destruct (tl s - Z.min (counter s) (Z.min (tl s) t) =? 0) eqn:E2; cbn; [lia|].
  destruct (counter s - Z.min (counter s) (Z.min (tl s) t) =? 0) eqn:E3; cbn; lia.
Qed.

(* run with enough fuel is fuel independent *)
Lemma run_fuel_mono : forall f1 f2 s t, wf s -> (Z.to_nat t < f1)%nat -> (Z.to_nat t < f2)%nat -> run f1 s t = run f2 s t.
Proof.
  induction f1 as [|f1 IH]; intros f2 s t Hwf H1 H2; [lia|].
  destruct f2 as [|f2]; [lia|]. cbn [run].
  destruct (t <=? 0) eqn:Et; [reflexivity|].
  assert (0 < t) by lia.
  pose proof (step_time s t Hwf H) as Hst. pose proof (step_wf s t Hwf H) as Hw'.
  destruct (step s t) as [s' t'] eqn:Es. cbn in *.
  apply IH; auto; lia.
Qed.


(* dead states stay *)
Lemma run_dead f s t : tl s <= 0 -> run f s t = s.
Proof.
  revert s t. induction f as [|f IH]; intros s t Hd; cbn [run]; [reflexivity|].
  destruct (t <=? 0); [reflexivity|].
  unfold step. destruct (tl s <=? 0) eqn:E; [|lia]. apply IH; auto.
Qed.

(* key split lemma: one step over time a+b where a is strictly inside *)

Lemma run_obs_eq : forall f s1 s2 t, wf s1 -> wf s2 -> obs_eq s1 s2 -> obs_eq (run f s1 t) (run f s2 t).
Proof.
  induction f as [|f IH]; intros s1 s2 t W1 W2 [Ho Hi]; cbn [run]; [split; auto|].
  destruct (t <=? 0) eqn:Et; [split; auto|].
  assert (Ht: 0 < t) by lia.
  unfold obs in Ho.
  destruct (0 <? tl s1) eqn:L1; destruct (0 <? tl s2) eqn:L2; inversion Ho; try lia.
  - (* both live, all equal *)
    assert (s1 = s2) by (destruct s1, s2; cbn in *; congruence). subst s2.
    destruct (step s1 t) as [s' t'] eqn:Es.
    apply IH; try (split; reflexivity).
    all: (pose proof (step_wf s1 t W1 Ht) as X; rewrite Es in X; exact X).
  - (* both dead *)
    unfold step. destruct (tl s1 <=? 0) eqn:D1; [|lia]. destruct (tl s2 <=? 0) eqn:D2; [|lia].
    rewrite !run_dead by lia. split; [unfold obs; rewrite L1, L2; congruence | auto].
Qed.

(* shifting a live state by a < min(counter, tl) *)
Definition shift (s : P) (a : Z) : P := mkP (interval s) (counter s - a) (tl s - a) (cnt s).

Lemma obs_eq_refl s : obs_eq s s. Proof. split; reflexivity. Qed.

Lemma obs_eq_trans a b c : obs_eq a b -> obs_eq b c -> obs_eq a c.
Proof. intros [A1 A2] [B1 B2]; split; congruence. Qed.

Lemma obs_eq_wf_dead s1 s2 : tl s1 = 0 -> tl s2 = 0 -> cnt s1 = cnt s2 -> interval s1 = interval s2 -> obs_eq s1 s2.
Proof. intros. split; auto. unfold obs. rewrite H, H0, H1. reflexivity. Qed.

(* step on shifted state vs step on original with a more time *)
Lemma step_shift s a b : wf s -> 0 < a -> a < counter s -> a < tl s -> 0 < b ->
  let '(s1, t1) := step (shift s a) b in
  let '(s2, t2) := step s (a + b) in
  t1 = t2 /\ obs_eq s1 s2 /\ wf s1 /\ wf s2.
Proof.
  intros [Hi Hc] Ha Hac Hat Hb. unfold step, shift; cbn [tl counter interval cnt].
  destruct (tl s - a <=? 0) eqn:E1; [lia|]. destruct (tl s <=? 0) eqn:E2; [lia|].
  replace (Z.min (counter s) (Z.min (tl s) (a + b))) with (a + Z.min (counter s - a) (Z.min (tl s - a) b)) by lia.
  set (m := Z.min (counter s - a) (Z.min (tl s - a) b)).
  replace (tl s - a - m) with (tl s - (a + m)) by lia.
  replace (counter s - a - m) with (counter s - (a + m)) by lia.
  destruct (tl s - (a + m) =? 0) eqn:E3.
  - split; [reflexivity|]. split; [apply obs_eq_wf_dead; reflexivity|]. unfold wf; cbn; lia.
  - destruct (counter s - (a + m) =? 0) eqn:E4; (split; [lia|]); (split; [apply obs_eq_refl|]); unfold wf; cbn; subst m; lia.
Qed.

Lemma run_shift : forall f1 f2 s a b, wf s -> 0 < a -> a < counter s -> a < tl s -> 0 <= b ->
  (Z.to_nat b < f1)%nat -> (Z.to_nat (a + b) < f2)%nat ->
  obs_eq (run f1 (shift s a) b) (run f2 s (a + b)).
Proof.
  intros f1 f2 s a b W Ha Hac Hat Hb F1 F2.
  destruct f1 as [|f1]; [lia|]. destruct f2 as [|f2]; [lia|]. cbn [run].
  destruct (a + b <=? 0) eqn:E0; [lia|].
  destruct (b <=? 0) eqn:Eb.
  - (* b = 0 : rhs takes one step consuming exactly a *)
    assert (b = 0) by lia. subst b. replace (a + 0) with a by lia.
    unfold step. destruct W as [Hi Hc]. destruct (tl s <=? 0) eqn:E2; [lia|].
    replace (Z.min (counter s) (Z.min (tl s) a)) with a by lia.
    destruct (tl s - a =? 0) eqn:E3; [lia|]. destruct (counter s - a =? 0) eqn:E4; [lia|].
    replace (a - a) with 0 by lia.
    destruct f2; cbn [run]; unfold shift; apply obs_eq_refl.
  - assert (Hb' : 0 < b) by lia.
    pose proof (step_shift s a b W Ha Hac Hat Hb') as X.
    pose proof (step_time (shift s a) b) as T1.
    destruct (step (shift s a) b) as [s1 t1]. destruct (step s (a + b)) as [s2 t2].
    destruct X as [Et [Ho [W1 W2]]]. subst t2.
    assert (Wsh : wf (shift s a)) by (destruct W; unfold wf, shift; cbn; lia).
    specialize (T1 Wsh Hb'). cbn in T1.
    apply obs_eq_trans with (run f1 s2 t1); [apply run_obs_eq; auto|].
    rewrite (run_fuel_mono f1 f2 s2 t1) by (auto; lia). apply obs_eq_refl.
Qed.


Lemma run_S f s t : 0 < t -> run (S f) s t = run f (fst (step s t)) (snd (step s t)).
Proof. intros H. cbn [run]. destruct (t <=? 0) eqn:E; [lia|]. destruct (step s t); reflexivity. Qed.

Lemma run_0 f s : run f s 0 = s. Proof. destruct f; reflexivity. Qed.

Lemma elapse_inside s a : wf s -> 0 < a -> a < counter s -> a < tl s -> elapse s a = shift s a.
Proof.
  intros [Hi Hc] Ha H1 H2. unfold elapse, fuel_of. rewrite run_S by lia.
  unfold step. destruct (tl s <=? 0) eqn:E; [lia|].
  replace (Z.min (counter s) (Z.min (tl s) a)) with a by lia.
  destruct (tl s - a =? 0) eqn:E3; [lia|]. destruct (counter s - a =? 0) eqn:E4; [lia|].
  cbn [fst snd]. replace (a - a) with 0 by lia. rewrite run_0. reflexivity.
Qed.

(* the state after the first complete segment, m = min counter tl *)
Definition next (s : P) : P :=
  let m := Z.min (counter s) (tl s) in
  if tl s - m =? 0 then mkP (interval s) (counter s) 0 (cnt s)
  else if counter s - m =? 0 then mkP (interval s) (counter s - m + interval s) (tl s - m) (cnt s + 1)
  else mkP (interval s) (counter s - m) (tl s - m) (cnt s).

Lemma step_outside s t : wf s -> 0 < tl s -> Z.min (counter s) (tl s) <= t ->
  fst (step s t) = next s /\ (tl (next s) <= 0 \/ snd (step s t) = t - Z.min (counter s) (tl s)).
Proof.
  intros [Hi Hc] Hl Hm. unfold step, next. destruct (tl s <=? 0) eqn:E; [lia|].
  replace (Z.min (counter s) (Z.min (tl s) t)) with (Z.min (counter s) (tl s)) by lia.
  destruct (tl s - Z.min (counter s) (tl s) =? 0); cbn; [split; auto; left; lia|].
  destruct (counter s - Z.min (counter s) (tl s) =? 0); cbn; split; auto.
Qed.

Lemma next_wf s : wf s -> 0 < tl s -> wf (next s).
Proof. intros [Hi Hc] Hl. unfold next, wf.
  destruct (tl s - Z.min (counter s) (tl s) =? 0) eqn:E1; cbn; [lia|].
  destruct (counter s - Z.min (counter s) (tl s) =? 0) eqn:E2; cbn; lia. Qed.

Lemma elapse_outside s t : wf s -> 0 < tl s -> 0 < t -> Z.min (counter s) (tl s) <= t ->
  elapse s t = elapse (next s) (t - Z.min (counter s) (tl s)).
Proof.
  intros W Hl Ht Hm. unfold elapse at 1. unfold fuel_of. rewrite run_S by lia.
  destruct (step_outside s t W Hl Hm) as [E1 [Hd|E2]].
  - rewrite E1. rewrite run_dead by lia. unfold elapse. rewrite run_dead by lia. reflexivity.
  - rewrite E1, E2. unfold elapse. apply run_fuel_mono; [apply next_wf; auto| |unfold fuel_of; lia].
    destruct W as [Hi Hc]. lia.
Qed.

Theorem elapse_additive : forall s a b, wf s -> 0 <= a -> 0 <= b ->
  obs_eq (elapse (elapse s a) b) (elapse s (a + b)).
Proof.
  intros s a. revert s.
  remember (Z.to_nat a) as n eqn:En. revert a En.
  induction n as [n IH] using lt_wf_ind. intros a En s b W Ha Hb.
  destruct (Z.eq_dec a 0) as [->|Hne].
  { unfold elapse at 2. rewrite run_0. replace (0 + b) with b by lia. apply obs_eq_refl. }
  assert (Ha' : 0 < a) by lia.
  destruct (Z_le_gt_dec (tl s) 0) as [Hd|Hl].
  { unfold elapse. rewrite (run_dead _ s a) by lia. rewrite (run_dead _ s b) by lia.
    rewrite (run_dead _ s (a + b)) by lia. apply obs_eq_refl. }
  destruct (Z_lt_le_dec a (Z.min (counter s) (tl s))) as [Hin|Hout].
  - rewrite (elapse_inside s a); try assumption; try lia. unfold elapse, fuel_of.
    apply run_shift; try assumption; try lia.
  - rewrite (elapse_outside s a); try assumption; try lia.
    rewrite (elapse_outside s (a + b)); try assumption; try lia.
    destruct W as [Hi Hc].
    replace (a + b - Z.min (counter s) (tl s)) with ((a - Z.min (counter s) (tl s)) + b) by lia.
    apply (IH (Z.to_nat (a - Z.min (counter s) (tl s)))); try lia.
    apply next_wf; [split; auto | lia].
Qed.
