(* C14 -- proofs about the layout-token model of the plan DSL (Model/Dsl.v). *)
From Coq Require Import List NArith ZArith Bool Lia.
Import ListNotations.
From V.Model Require Import Dsl.
Open Scope Z_scope.

(* ------------------------------------------------------------------ span / take_gap *)
Definition headless (p : tok -> bool) (r : list tok) : Prop :=
  match r with x :: _ => p x = false | [] => True end.

Lemma span_app p g r : forallb p g = true -> headless p r -> span p (g ++ r) = (g, r).
Proof.
  induction g as [|x g IH]; intros Hg Hr.
  - destruct r as [|y r]; [reflexivity|]. cbn in *. rewrite Hr. reflexivity.
  - cbn in Hg. apply andb_true_iff in Hg as [Hx Hg]. cbn. rewrite Hx, (IH Hg Hr). reflexivity.
Qed.

Lemma span_all p g : forallb p g = true -> span p g = (g, []).
Proof. intros H. rewrite <- (app_nil_r g) at 1. apply span_app; [exact H|exact I]. Qed.

Definition gap (g : list tok) : Prop := forallb is_layout g = true.

Lemma take_gap_app g r : gap g -> headless is_layout r -> take_gap (g ++ r) = (g, r).
Proof. apply span_app. Qed.
Lemma take_gap_all g : gap g -> take_gap g = (g, []).
Proof. apply span_all. Qed.

Lemma gap_app a b : gap a -> gap b -> gap (a ++ b).
Proof. unfold gap. intros. rewrite forallb_app. now rewrite H, H0. Qed.
Lemma gap_repeat t n : is_layout t = true -> gap (repeat t n).
Proof. intros H. unfold gap. induction n; cbn; [reflexivity|]. now rewrite H. Qed.

(* ------------------------------------------------------------------ gmatch *)
Lemma gmatch_ign_unfold es g :
  gmatch (EIgn :: es) g = gmatch es g || match g with t :: g' => is_ign t && gmatch (EIgn :: es) g' | [] => false end.
Proof. destruct g; reflexivity. Qed.

Lemma gmatch_ign_here es g : gmatch es g = true -> gmatch (EIgn :: es) g = true.
Proof. intros H. rewrite gmatch_ign_unfold, H. reflexivity. Qed.

Lemma gmatch_ign_skip es t g : is_ign t = true -> gmatch (EIgn :: es) g = true -> gmatch (EIgn :: es) (t :: g) = true.
Proof. intros Ht H. rewrite gmatch_ign_unfold, Ht, H. apply orb_true_r. Qed.

Lemma gmatch_ign_skips es a g : forallb is_ign a = true -> gmatch (EIgn :: es) g = true -> gmatch (EIgn :: es) (a ++ g) = true.
Proof.
  induction a as [|t a IH]; intros Ha H; [exact H|].
  cbn in Ha. apply andb_true_iff in Ha as [Ht Ha]. cbn [app]. apply gmatch_ign_skip; auto.
Qed.

Lemma run_app p k a r : a <> [] -> forallb p a = true -> headless p r -> run p k (a ++ r) = k r.
Proof.
  intros Hne Ha Hr. unfold run. rewrite (span_app p a r Ha Hr). destruct a; [congruence|reflexivity].
Qed.

Lemma gmatch_ws_run es a r : a <> [] -> forallb is_ws a = true -> headless is_ws r -> gmatch es r = true -> gmatch (EWs :: es) (a ++ r) = true.
Proof. intros. cbn [gmatch]. rewrite run_app; auto. Qed.
Lemma gmatch_wsopt_run es a r : a <> [] -> forallb is_ws a = true -> headless is_ws r -> gmatch es r = true -> gmatch (EWsOpt :: es) (a ++ r) = true.
Proof. intros. cbn [gmatch]. rewrite run_app; auto. rewrite H2. apply orb_true_r. Qed.
Lemma gmatch_wsopt_none es g : gmatch es g = true -> gmatch (EWsOpt :: es) g = true.
Proof. intros H. cbn [gmatch]. rewrite H. reflexivity. Qed.
Lemma gmatch_nl_run es a r : a <> [] -> forallb is_nl a = true -> headless is_nl r -> gmatch es r = true -> gmatch (ENl :: es) (a ++ r) = true.
Proof. intros. cbn [gmatch]. rewrite run_app; auto. Qed.

(* ------------------------------------------------------------------ well-formed layouts *)
Definition op_finite (o : op) : Prop :=
  match o with Full _ _ t | TimeOp _ t => num_finite t = true | SkillOp _ _ => True end.
Definition cmd_finite (c : cmd) : Prop := match c with Op o => op_finite o | Console _ => True end.

Definition lay_ok (l : lay) : Prop :=
  gap (l_g1 l) /\ gmatch g_ws (l_g1 l) = true /\
  match l_cmd l with Op (Full _ _ _) => gap (l_g2 l) /\ gmatch g_ws (l_g2 l) = true | _ => True end /\
  cmd_finite (l_cmd l) /\
  match l_mult l with Some (_, g) => gap g /\ gmatch g_optws g = true /\ is_op (l_cmd l) = true | None => True end.

(* what follows an item must not continue it: the next solid token is not a number *)
Definition next_ok (rest : list tok) : Prop :=
  match snd (take_gap rest) with TN _ :: _ => False | _ => True end.

Lemma print_num_finite t : num_finite t = true -> print_num t = [TN t].
Proof. intros H. unfold print_num. rewrite H. reflexivity. Qed.

Ltac napp := repeat (first [rewrite <- app_assoc | progress cbn [app]]).

Lemma parse_op_render g1 g2 o rest :
  gap g1 -> gmatch g_ws g1 = true ->
  match o with Full _ _ _ => gap g2 /\ gmatch g_ws g2 = true | _ => True end ->
  op_finite o -> next_ok rest ->
  parse_op (render_cmd g1 g2 (Op o) ++ rest) = Some (o, rest).
Proof.
  intros G1 M1 H2 Hf Hn. destruct o as [c n t|c t|c n]; cbn [render_cmd op_finite] in *.
  - destruct H2 as [G2 M2]. rewrite (print_num_finite _ Hf).
    cbn [parse_op app]; napp.
    rewrite (take_gap_app g1 (TS n :: g2 ++ TN t :: rest) G1 eq_refl), M1.
    rewrite (take_gap_app g2 (TN t :: rest) G2 eq_refl), M2. reflexivity.
  - rewrite (print_num_finite _ Hf). cbn [parse_op app]; napp.
    rewrite (take_gap_app g1 (TN t :: rest) G1 eq_refl), M1. reflexivity.
  - cbn [parse_op app]; napp.
    rewrite (take_gap_app g1 (TS n :: rest) G1 eq_refl), M1.
    unfold next_ok in Hn. destruct (take_gap rest) as [g' r3]. cbn [snd] in Hn.
    destruct r3 as [|x r3]; [reflexivity|]. destruct x; try reflexivity. destruct Hn.
Qed.

Lemma parse_item_render l rest :
  lay_ok l -> next_ok rest -> parse_item (render_lay l ++ rest) = Some (denote_lay l, rest).
Proof.
  intros (G1 & M1 & H2 & Hf & Hm) Hn. unfold render_lay, denote_lay.
  destruct (l_mult l) as [[z g]|].
  - destruct Hm as (Gg & Mg & Hop). destruct (l_cmd l) as [o|s]; [|discriminate].
    cbn [app parse_item]; napp.
    assert (Hh : headless is_layout (render_cmd (l_g1 l) (l_g2 l) (Op o) ++ rest)) by (destruct o; reflexivity).
    rewrite (take_gap_app g _ Gg Hh), Mg.
    rewrite (parse_op_render (l_g1 l) (l_g2 l) o rest G1 M1 H2 Hf Hn). reflexivity.
  - cbn [app]. destruct (l_cmd l) as [o|s].
    + pose proof (parse_op_render (l_g1 l) (l_g2 l) o rest G1 M1 H2 Hf Hn) as P.
      destruct o as [c n t|c t|c n]; cbn [render_cmd app parse_item] in *; rewrite P; reflexivity.
    + cbn [render_cmd app parse_item]; napp.
      rewrite (take_gap_app (l_g1 l) (TS s :: rest) G1 eq_refl), M1. reflexivity.
Qed.

(* the first token of a rendered item *)
Lemma render_lay_head l x : lay_ok l ->
  exists t r, render_lay l ++ x = t :: r /\ is_layout t = false /\ is_plain t = lay_plain l /\
              match t with TN _ => False | _ => True end.
Proof.
  intros (_ & _ & _ & _ & Hm). unfold render_lay, lay_plain. destruct (l_mult l) as [[z g]|].
  - eexists _, _. cbn [app]. split; [reflexivity|]. now destruct (l_cmd l).
  - destruct (l_cmd l) as [[c n t|c t|c n]|s]; eexists _, _; cbn [app render_cmd]; (split; [reflexivity|auto]).
Qed.

Lemma next_ok_gap g : gap g -> next_ok g.
Proof. intros H. unfold next_ok. rewrite (take_gap_all g H). exact I. Qed.
Lemma next_ok_item g l x : gap g -> lay_ok l -> next_ok (g ++ render_lay l ++ x).
Proof.
  intros Hg Hl. destruct (render_lay_head l x Hl) as (t & r & E & Ht & _ & Hn). rewrite E.
  unfold next_ok. rewrite (take_gap_app g (t :: r) Hg Ht). cbn [snd]. destruct t; auto.
Qed.

Definition sep_ok (p : list tok * lay) : Prop :=
  gap (fst p) /\ gmatch (g_sep (lay_plain (snd p))) (fst p) = true /\ lay_ok (snd p).

Lemma render_doc_unfold it rest trail :
  render_doc it rest trail = render_lay it ++ match rest with [] => trail | (g, it') :: r => g ++ render_doc it' r trail end.
Proof. destruct rest; reflexivity. Qed.

(* The general statement: any plan laid out with gaps the gap grammar accepts parses to the
   commands it denotes. *)
Theorem parse_items_layout_gen : forall rest it spec lead trail fuel,
  gap lead -> gmatch (spec (lay_plain it)) lead = true -> lay_ok it ->
  Forall sep_ok rest -> gap trail -> (length rest < fuel)%nat ->
  parse_items fuel spec (lead ++ render_doc it rest trail)
  = if gmatch g_ign trail then Some (denote_lay it ++ flat_map (fun p => denote_lay (snd p)) rest) else None.
Proof.
  induction rest as [|[g it'] rest IH]; intros it spec lead trail fuel Gl Ml Hit Hrest Gt Hf;
    (destruct fuel as [|f]; [lia|]); rewrite render_doc_unfold; cbn [parse_items].
  - destruct (render_lay_head it trail Hit) as (t & r & E & Ht & Hp & _).
    rewrite E, (take_gap_app lead (t :: r) Gl Ht), Hp, Ml, <- E.
    rewrite (parse_item_render it trail Hit (next_ok_gap trail Gt)).
    rewrite (take_gap_all trail Gt). cbn [flat_map]. rewrite app_nil_r. reflexivity.
  - inversion Hrest as [|? ? (Gg & Mg & Hit') Hrest']; subst. cbn [fst snd] in *.
    set (tailx := g ++ render_doc it' rest trail).
    destruct (render_lay_head it tailx Hit) as (t & r & E & Ht & Hp & _).
    rewrite E, (take_gap_app lead (t :: r) Gl Ht), Hp, Ml, <- E.
    assert (Hn : next_ok tailx).
    { unfold tailx. rewrite render_doc_unfold. apply next_ok_item; assumption. }
    rewrite (parse_item_render it tailx Hit Hn).
    assert (Hne : exists t' r', take_gap tailx = (g, t' :: r')).
    { unfold tailx. rewrite render_doc_unfold.
      destruct (render_lay_head it' (match rest with [] => trail | (g0, it'0) :: r0 => g0 ++ render_doc it'0 r0 trail end) Hit')
        as (t' & r' & E' & Ht' & _). rewrite E'. exists t', r'. apply take_gap_app; assumption. }
    destruct Hne as (t' & r' & E'). rewrite E'.
    unfold tailx. rewrite (IH it' g_sep g trail f Gg Mg Hit' Hrest' Gt ltac:(cbn in Hf; lia)).
    cbn [flat_map snd]. destruct (gmatch g_ign trail); reflexivity.
Qed.

(* The general statement: any plan laid out with gaps the gap grammar accepts parses to the
   commands it denotes. *)
Theorem parse_items_layout rest it spec lead trail fuel :
  gap lead -> gmatch (spec (lay_plain it)) lead = true -> lay_ok it ->
  Forall sep_ok rest -> gap trail -> gmatch g_ign trail = true -> (length rest < fuel)%nat ->
  parse_items fuel spec (lead ++ render_doc it rest trail)
  = Some (denote_lay it ++ flat_map (fun p => denote_lay (snd p)) rest).
Proof. intros. rewrite parse_items_layout_gen by assumption. now rewrite H4. Qed.

Lemma render_doc_length it rest trail : lay_ok it -> Forall sep_ok rest -> (length rest < length (render_doc it rest trail))%nat.
Proof.
  revert it. induction rest as [|[g it'] rest IH]; intros it Hit Hr; rewrite render_doc_unfold.
  - destruct (render_lay_head it trail Hit) as (t & r & E & _). rewrite E. cbn. lia.
  - inversion Hr as [|? ? (_ & _ & Hit') Hr']; subst.
    destruct (render_lay_head it (g ++ render_doc it' rest trail) Hit) as (t & r & E & _).
    pose proof (IH it' Hit' Hr') as L.
    assert (length (render_lay it ++ g ++ render_doc it' rest trail) >= 1 + length (render_doc it' rest trail))%nat.
    { rewrite !app_length. destruct (render_lay it) eqn:R; [|cbn; lia]. cbn in E.
      unfold render_lay in R. destruct (l_mult it) as [[? ?]|]; [discriminate|]. cbn in R.
      destruct (l_cmd it) as [[| |]|]; discriminate. }
    cbn [length]. lia.
Qed.

Theorem parse_body_layout it rest lead trail :
  gap lead -> gmatch (g_lead (lay_plain it)) lead = true -> lay_ok it ->
  Forall sep_ok rest -> gap trail -> gmatch g_ign trail = true ->
  parse_body (lead ++ render_doc it rest trail) = Some (denote_lay it ++ flat_map (fun p => denote_lay (snd p)) rest).
Proof.
  intros. unfold parse_body. apply parse_items_layout; auto.
  rewrite app_length. pose proof (render_doc_length it rest trail H1 H2). lia.
Qed.

(* ... and whatever follows the last command decides alone whether the text is accepted *)
Theorem parse_body_trail it rest lead trail :
  gap lead -> gmatch (g_lead (lay_plain it)) lead = true -> lay_ok it -> Forall sep_ok rest -> gap trail ->
  parse_body (lead ++ render_doc it rest trail)
  = if gmatch g_ign trail then Some (denote_lay it ++ flat_map (fun p => denote_lay (snd p)) rest) else None.
Proof.
  intros. unfold parse_body. apply parse_items_layout_gen; auto.
  rewrite app_length. pose proof (render_doc_length it rest trail H1 H2). lia.
Qed.

(* ------------------------------------------------------------------ parse (print cs) = Some cs *)
Lemma print_op_render o : print_op o = render_cmd [TSp] [TSp] (Op o).
Proof. destruct o; cbn; try reflexivity; rewrite ?app_nil_r; reflexivity. Qed.
Lemma print_cmd_render c : print_cmd c = render_lay (canon c).
Proof. destruct c; [apply print_op_render|reflexivity]. Qed.

Lemma canon_ok c : cmd_finite c -> lay_ok (canon c).
Proof. intros H. unfold lay_ok, canon. cbn [l_mult l_g1 l_g2 l_cmd]. repeat split; auto; destruct c as [[| |]|]; cbn; auto; split; reflexivity. Qed.
Lemma canon_plain c : lay_plain (canon c) = is_op c.
Proof. destruct c; reflexivity. Qed.

Lemma print_render c cs :
  print (c :: cs) = render_doc (canon c) (map (fun c' => ([TNL], canon c')) cs) [].
Proof.
  revert c. induction cs as [|c2 cs IH]; intros c.
  - cbn [print map render_doc]. rewrite app_nil_r. apply print_cmd_render.
  - change (print (c :: c2 :: cs)) with (print_cmd c ++ TNL :: print (c2 :: cs)).
    rewrite IH, print_cmd_render. reflexivity.
Qed.

Lemma denote_canon cs : flat_map (fun p : list tok * lay => denote_lay (snd p)) (map (fun c' => ([TNL], canon c')) cs) = cs.
Proof. induction cs as [|c cs IH]; [reflexivity|]. cbn. now rewrite IH. Qed.

Theorem parse_print cs : cs <> [] -> Forall cmd_finite cs -> parse_body (print cs) = Some cs.
Proof.
  destruct cs as [|c cs]; [congruence|]. intros _ Hf. rewrite print_render.
  inversion Hf as [|? ? Hc Hcs]; subst.
  rewrite <- (app_nil_l (render_doc _ _ _)).
  rewrite parse_body_layout; try reflexivity.
  - rewrite denote_canon. reflexivity.
  - rewrite canon_plain. destruct c; reflexivity.
  - apply canon_ok; assumption.
  - clear Hf Hc. induction cs as [|c2 cs IH]; [constructor|]. inversion Hcs; subst. cbn [map]. constructor; auto.
    unfold sep_ok. cbn [fst snd]. split; [reflexivity|]. split; [|apply canon_ok; assumption].
    rewrite canon_plain. destruct c2; reflexivity.
Qed.

Theorem parse_ops_print cs :
  cs <> [] -> Forall cmd_finite cs -> forallb is_op cs = true -> parse_ops (print cs) = Some cs.
Proof. intros. unfold parse_ops. rewrite parse_print by assumption. now rewrite H1. Qed.

(* ------------------------------------------------------------------ the time that does not print *)
Example inf_is_parsed : parse_body [TW [69;76;65;80;83;69]%N; TSp; TN pinf] = Some [Op (TimeOp [69;76;65;80;83;69]%N pinf)].
Proof. reflexivity. Qed.
Theorem parse_print_refuted : exists c, parse_body (print [c]) <> Some [c].
Proof. exists (Op (TimeOp [69;76;65;80;83;69]%N pinf)). vm_compute. discriminate. Qed.
Theorem parse_print_nonfinite c t : num_finite t = false -> parse_body (print [Op (TimeOp c t)]) = None.
Proof.
  intros H. cbn [print print_cmd print_op tmpl_toks tmpl_time flat_map inst app]. unfold print_num. rewrite H.
  destruct (t =? pinf); [reflexivity|]. destruct (t =? ninf); reflexivity.
Qed.

(* ------------------------------------------------------------------ xN <op> = N copies *)
Theorem multiplier_replicates z g o :
  gap g -> gmatch g_optws g = true -> op_finite o ->
  parse_body (TX z :: g ++ print_op o) = Some (repeat (Op o) (Z.to_nat z)).
Proof.
  intros Gg Mg Hf.
  pose (l := {| l_mult := Some (z, g); l_g1 := [TSp]; l_g2 := [TSp]; l_cmd := Op o |}).
  assert (E : TX z :: g ++ print_op o = [] ++ render_doc l [] []).
  { cbn [render_doc app]. rewrite app_nil_r. unfold render_lay, l. cbn [l_mult l_g1 l_g2 l_cmd app].
    rewrite print_op_render. reflexivity. }
  rewrite E, parse_body_layout; try reflexivity.
  - cbn. rewrite app_nil_r. reflexivity.
  - unfold lay_ok, l. cbn [l_mult l_g1 l_g2 l_cmd]. repeat split; auto. destruct o; cbn; auto; split; reflexivity.
  - constructor.
Qed.
Corollary multiplier_replicates_nat n o :
  op_finite o -> parse_body (TX (Z.of_nat n) :: TSp :: print_op o) = Some (repeat (Op o) n).
Proof. intros H. rewrite <- (Nat2Z.id n) at 2. apply (multiplier_replicates (Z.of_nat n) [TSp] o); auto; reflexivity. Qed.
Corollary multiplier_nonpositive z o :
  z <= 0 -> op_finite o -> parse_body (TX z :: TSp :: print_op o) = Some [].
Proof.
  intros Hz H. change (TX z :: TSp :: print_op o) with (TX z :: [TSp] ++ print_op o).
  rewrite (multiplier_replicates z [TSp] o); auto; try reflexivity. destruct z; try reflexivity. lia.
Qed.
