(* C19 (real targets) -- the two targets whose state is a 0/1 mask over a list: UnionSquadTarget and LinkSkillTarget.
   About the GENERATED UnionSquad_get_masked / UnionSquad_get_stat (with its per-job dict) / UnionBlock_get_stat,
   LinkSkillset_get_masked / LinkSkillset_get_stat / LinkSkill_get_stat and the generated tables of gen/Targets.v. *)
From Coq Require Import List ZArith QArith Qminmax Bool String Lia Lqa Arith.
From V.Model Require Import Greedy TargetsRt Targets.
From V.Proofs Require Import DamageMono StatLaws TargetsGen GreedyP GreedyCoded.
From G Require Import CoreQ Targets.
Import ListNotations.
Open Scope Q_scope.

(* ------------------------------------------------------------------ masks *)
Lemma masked_sel {A} : forall (mask : list Z) (xs : list A),
  map (fun '(enabled, x) => x) (filter (fun '(enabled, x) => py_truthy_Z enabled) (combine mask xs)) = sel mask xs.
Proof.
  induction mask as [|e m IH]; intros [|x r]; cbn [combine filter map sel]; try reflexivity.
  destruct (py_truthy_Z e); cbn [map]; rewrite IH; reflexivity.
Qed.

Lemma combine_nil_r {A B} (l : list A) : combine l (@nil B) = [].
Proof. destruct l; reflexivity. Qed.

Lemma sel_combine {A B} : forall (mask : list Z) (xs : list A) (ys : list B),
  combine (sel mask xs) (sel mask ys) = sel mask (combine xs ys).
Proof.
  induction mask as [|e m IH]; intros [|x xs] [|y ys]; cbn [sel combine]; try reflexivity.
  - apply combine_nil_r.
  - destruct (py_truthy_Z e); cbn [combine]; rewrite IH; reflexivity.
Qed.

Lemma sel_In {A} : forall (mask : list Z) (xs : list A) y, In y (sel mask xs) -> In y xs.
Proof.
  induction mask as [|e m IH]; intros [|x r] y H; cbn [sel] in H; try (exfalso; exact H).
  destruct (py_truthy_Z e); [destruct H as [->|H]|]; [left; reflexivity| |]; right; apply (IH r y H).
Qed.

Lemma sel_NoDup {A B} (g : A -> B) : forall (mask : list Z) (xs : list A),
  NoDup (map g xs) -> NoDup (map g (sel mask xs)).
Proof.
  induction mask as [|e m IH]; intros [|x r] H; cbn [sel]; try apply NoDup_nil.
  cbn [map] in H. inversion H as [|? ? N H']; subst. destruct (py_truthy_Z e); [|apply IH, H'].
  cbn [map]. constructor; [|apply IH, H']. intros I. apply N. apply in_map_iff in I. destruct I as (y & E & I).
  apply in_map_iff. exists y. split; [exact E|]. eapply sel_In. exact I.
Qed.

Lemma truthy_of_nat n : py_truthy_Z (Z.of_nat n) = negb (n =? 0)%nat.
Proof. unfold py_truthy_Z. destruct n; reflexivity. Qed.

(* raising a mask: every selected entry stays selected, new ones are good *)
Lemma sel_terms_le {A} (gs : A -> option Stat) : forall (ps : list A),
  Forall (fun p => exists x, gs p = Some x /\ good x) ps ->
  forall st st', List.length st = List.length st' -> (forall i, (nth i st 0 <= nth i st' 0)%nat) ->
  terms_le (map gs (sel (zs st) ps)) (map gs (sel (zs st') ps)).
Proof.
  induction ps as [|p ps IH]; intros F st st' L H.
  - destruct st, st'; cbn; constructor.
  - destruct st as [|x st]; destruct st' as [|y st']; try (cbn in L; discriminate L); [cbn; constructor|].
    inversion F as [|? ? (u & Eu & Gu) F']; subst.
    assert (T : terms_le (map gs (sel (zs st) ps)) (map gs (sel (zs st') ps))).
    { apply IH; [exact F'|cbn in L; lia|]. intros i. apply (H (S i)). }
    assert (Hxy : (x <= y)%nat) by apply (H 0%nat).
    unfold zs in *. cbn [map sel]. rewrite !truthy_of_nat.
    destruct x as [|x]; destruct y as [|y]; cbn [Nat.eqb negb map]; try lia.
    + exact T.
    + rewrite Eu. apply tl_skip; assumption.
    + rewrite Eu. apply tl_both; try assumption. apply Stat_le_refl.
Qed.

(* ------------------------------------------------------------------ dict lemmas (keys are strings) *)
Lemma dict_mem_false {V} : forall (d : py_dict string V) k, ~ In k (map fst d) -> py_dict_mem String.eqb k d = false.
Proof.
  induction d as [|[k' v] d IH]; intros k N; [reflexivity|]. unfold py_dict_mem in *. cbn [existsb fst map In] in *.
  destruct (String.eqb_spec k k') as [->|_]; [exfalso; apply N; left; reflexivity|]. apply IH. tauto.
Qed.

Lemma dict_set_new {V} : forall (d : py_dict string V) k v, ~ In k (map fst d) -> py_dict_set String.eqb d k v = d ++ [(k, v)].
Proof.
  induction d as [|[k' v'] d IH]; intros k v N; [reflexivity|]. cbn [py_dict_set map fst In app] in *.
  destruct (String.eqb_spec k k') as [->|_]; [exfalso; apply N; left; reflexivity|]. rewrite IH; [reflexivity|tauto].
Qed.

Lemma dict_get_last {V} : forall (d : py_dict string V) k v, ~ In k (map fst d) -> py_dict_get String.eqb (d ++ [(k, v)]) k = Some v.
Proof.
  induction d as [|[k' v'] d IH]; intros k v N; cbn [py_dict_get app map fst In] in *.
  - rewrite String.eqb_refl. reflexivity.
  - destruct (String.eqb_spec k k') as [->|_]; [exfalso; apply N; left; reflexivity|]. apply IH. tauto.
Qed.

(* a per-key "keep the larger" loop over pairs with pairwise different keys just lists the pairs in order *)
Section Dedupe.
  Context {P : Type}.
  Variable key : P -> string.
  Variable body : py_dict string P -> P -> option (py_dict string P).
  Hypothesis body_new : forall d p, ~ In (key p) (map fst d) -> body d p = Some (d ++ [(key p, p)]).

  Lemma dedupe_fold : forall ps d, NoDup (map fst d ++ map key ps) ->
    py_foldM body ps d = Some (d ++ map (fun p => (key p, p)) ps).
  Proof.
    induction ps as [|p ps IH]; intros d N; cbn [py_foldM map].
    - rewrite app_nil_r. reflexivity.
    - assert (Hk : ~ In (key p) (map fst d)).
      { intros I. apply NoDup_remove_2 in N. apply N. apply in_or_app. left. exact I. }
      rewrite (body_new d p Hk). rewrite IH.
      + rewrite <- app_assoc. reflexivity.
      + rewrite map_app. cbn [map fst]. rewrite <- app_assoc. cbn [app].
        cbn [map] in N. exact N.
  Qed.
End Dedupe.

(* ================================================================== union squad *)
(* the generated UnionSquad.get_stat on a squad whose blocks belong to pairwise different jobs *)
Lemma squad_get_stat_nodup sizes blocks :
  NoDup (map (fun bs : UnionBlock * Z => UnionBlock_job (fst bs)) (combine blocks sizes)) ->
  UnionSquad_get_stat (mkUnionSquad sizes blocks) = sumM Stat_iadd (map block_gs (combine blocks sizes)) Stat_zero.
Proof.
  intros N. unfold UnionSquad_get_stat. cbv zeta. cbn [UnionSquad_blocks UnionSquad_block_size].
  match goal with |- context [py_foldM ?f (combine blocks sizes) []] => set (body := f) end.
  assert (B : forall d p, ~ In (UnionBlock_job (fst p)) (map fst d) ->
                          body d p = Some (d ++ [(UnionBlock_job (fst p), p)])).
  { intros d [b s] Hk. cbn [fst] in Hk. subst body. cbv beta iota. cbn [fst snd].
    rewrite (dict_mem_false d _ Hk). cbn [negb]. rewrite (dict_set_new d _ (b, s) Hk).
    rewrite (dict_get_last d _ (b, s) Hk). cbn [snd].
    assert (E : (s >? s)%Z = false) by (rewrite Z.gtb_ltb; apply Z.ltb_irrefl). rewrite E. reflexivity. }
  rewrite (dedupe_fold (fun p : UnionBlock * Z => UnionBlock_job (fst p)) body B (combine blocks sizes) []) by exact N.
  cbn [app]. unfold py_dict_items. rewrite <- (foldM_sum block_gs Stat_iadd).
  clear N B. clear body.
  generalize Stat_zero. induction (combine blocks sizes) as [|[b s] ps IH]; intros acc; cbn [map py_foldM]; [reflexivity|].
  unfold block_gs at 1. cbn [fst snd]. destruct (UnionBlock_get_stat b s); [apply IH|reflexivity].
Qed.

Lemma combine_keys_NoDup {A B C} (g : A -> C) : forall (xs : list A) (ys : list B),
  NoDup (map g xs) -> NoDup (map (fun p : A * B => g (fst p)) (combine xs ys)).
Proof.
  induction xs as [|x xs IH]; intros [|y ys] H; cbn [combine map]; try apply NoDup_nil.
  cbn [map] in H. inversion H as [|? ? N H']; subst. cbn [fst]. constructor; [|apply IH, H'].
  intros I. apply N. apply in_map_iff in I. destruct I as ([a b] & E & I). cbn [fst] in E.
  apply in_map_iff. exists a. split; [exact E|]. eapply in_combine_l. exact I.
Qed.

Lemma squad_tables_ok_true : squad_tables_ok = true.
Proof. vm_compute. reflexivity. Qed.

Lemma squad_jobs_NoDup : NoDup (map UnionBlock_job data_all_blocks).
Proof.
  pose proof squad_tables_ok_true as H. unfold squad_tables_ok in H. apply andb_prop in H. apply nodup_b_sound, H.
Qed.

Lemma squad_tables : Forall (fun b => table_ok (UnionBlock_options b)) data_all_blocks.
Proof.
  pose proof squad_tables_ok_true as H. unfold squad_tables_ok in H. apply andb_prop in H. destruct H as [H _].
  apply Forall_forall. intros b Hb. rewrite forallb_forall in H. apply chain_ok_sound, H, Hb.
Qed.

(* block.get_stat(size) for 0 <= size <= len(options): defined and good *)
Lemma block_get_stat_good b s : table_ok (UnionBlock_options b) -> (0 <= s)%Z -> (s <= py_len (UnionBlock_options b))%Z ->
  exists x, UnionBlock_get_stat b s = Some x /\ good x.
Proof.
  intros T H0 H1. unfold UnionBlock_get_stat. destruct (Z.eqb_spec s 0) as [->|N].
  - exists Stat_zero. split; [reflexivity|apply good_zero].
  - replace (s - 1)%Z with (Z.of_nat (Z.to_nat (s - 1))) by lia. rewrite py_index_nat.
    rewrite py_len_length in H1.
    destruct (nth_error (UnionBlock_options b) (Z.to_nat (s - 1))) as [x|] eqn:E.
    + exists x. split; [reflexivity|]. eapply table_ok_good; eassumption.
    + apply nth_error_None in E. lia.
Qed.

Lemma squad_pairs_good sizes : sizes_ok sizes = true ->
  Forall (fun p => exists x, block_gs p = Some x /\ good x) (combine data_all_blocks sizes).
Proof.
  intros H. unfold sizes_ok in H. apply Forall_forall. intros [b s] Hp. rewrite forallb_forall in H.
  specialize (H (b, s) Hp). cbn [fst snd] in H. apply andb_prop in H. destruct H as [H0 H1].
  apply Z.leb_le in H0. apply Z.leb_le in H1. unfold block_gs. cbn [fst snd].
  apply block_get_stat_good; try assumption.
  pose proof squad_tables as T. rewrite Forall_forall in T. apply T. eapply in_combine_l. exact Hp.
Qed.

(* the generated get_value of the squad target, unfolded once *)
Lemma squad_value_opt_eq L default armor sizes st :
  squad_value_opt L default armor sizes st =
  match sumM Stat_iadd (map block_gs (sel (zs st) (combine data_all_blocks sizes))) Stat_zero with
  | Some t => Some (logic_df L (Stat_add default t) armor)
  | None => None
  end.
Proof.
  unfold squad_value_opt, squad_target, squad_of.
  cbv beta iota zeta delta [UnionSquadTarget_init py_foldM UnionSquadTarget_set_state UnionSquadTarget_with_state
    UnionSquadTarget_get_value UnionSquadTarget__union_squad UnionSquadTarget_state UnionSquadTarget_default_stat
    UnionSquadTarget_damage_logic UnionSquadTarget_armor UnionSquad_get_masked].
  cbn [UnionSquad_blocks UnionSquad_block_size].
  rewrite !masked_sel. rewrite squad_get_stat_nodup.
  - rewrite sel_combine. destruct (sumM Stat_iadd _ Stat_zero); reflexivity.
  - rewrite sel_combine. apply (sel_NoDup (fun bs : UnionBlock * Z => UnionBlock_job (fst bs))).
    apply combine_keys_NoDup. apply squad_jobs_NoDup.
Qed.

Lemma squad_value_mono L default armor sizes st st' :
  logic_wf L -> good default -> 0 <= armor -> 0 <= logic_armor_factor L default armor ->
  sizes_ok sizes = true -> le_state st st' ->
  exists v v', squad_value_opt L default armor sizes st = Some v /\ squad_value_opt L default armor sizes st' = Some v' /\
               0 <= v /\ v <= v'.
Proof.
  intros Hw Gd Ha Hf Hs [Ll Hl]. rewrite !squad_value_opt_eq.
  pose proof (sel_terms_le block_gs _ (squad_pairs_good sizes Hs) st st' Ll Hl) as TL.
  destruct (sumM_iadd_le _ _ TL Stat_zero Stat_zero good_zero good_zero (Stat_le_refl _)) as (r & r' & E & E' & G & G' & Hr).
  rewrite E, E'. eexists. eexists. split; [reflexivity|]. split; [reflexivity|].
  apply objective_le; assumption.
Qed.

Lemma squad_M_eq sizes : squad_M sizes = 1%nat.
Proof. reflexivity. Qed.

Lemma squad_cost_eq sizes st : squad_cost sizes st = qz (py_sum_Z (zs st)).
Proof. reflexivity. Qed.

Theorem squad_never_worse L default armor sizes budget step_size max_iter st st' k :
  logic_wf L -> good default -> 0 <= armor -> 0 <= logic_armor_factor L default armor -> sizes_ok sizes = true ->
  optimize_coded (squad_value L default armor sizes) (squad_cost sizes) (squad_M sizes) budget step_size max_iter st = Done st' k ->
  squad_value L default armor sizes st <= squad_value L default armor sizes st'.
Proof.
  intros Hw Gd Ha Hf Hs R.
  eapply (coded_never_worse (squad_value L default armor sizes) (squad_cost sizes) (squad_M sizes) budget step_size max_iter);
    [|exact R].
  intros s inc s' Hst. pose proof (stepped_le _ _ _ _ Hst) as Hle.
  destruct (squad_value_mono L default armor sizes s s' Hw Gd Ha Hf Hs Hle) as (v & v' & E1 & E2 & _ & Hv).
  unfold squad_value. rewrite E1, E2. exact Hv.
Qed.

(* what PresetOptimizer builds: 4 cells per block, 5 for the listed jobs *)
Lemma preset_sizes_ok jobs : sizes_ok (UnionSquad_block_size (create_with_some_large_blocks jobs 4 5)) = true.
Proof.
  unfold create_with_some_large_blocks. cbv zeta. cbn [UnionSquad_block_size]. unfold sizes_ok.
  apply forallb_forall. intros [b s] Hp. cbn [fst snd].
  assert (Hs : s = 4%Z \/ s = 5%Z).
  { apply in_combine_r in Hp. apply in_map_iff in Hp. destruct Hp as (b' & E & _).
    destruct (py_in String.eqb (UnionBlock_job b') jobs); [right|left]; congruence. }
  assert (Hb : (5 <=? py_len (UnionBlock_options b))%Z = true).
  { apply in_combine_l in Hp.
    assert (A : forallb (fun b => (5 <=? py_len (UnionBlock_options b))%Z) data_all_blocks = true) by (vm_compute; reflexivity).
    rewrite forallb_forall in A. apply A, Hp. }
  apply Z.leb_le in Hb. apply andb_true_iff. split; apply Z.leb_le; lia.
Qed.

Lemma preset_squad_eq jobs :
  create_with_some_large_blocks jobs 4 5 = squad_of (UnionSquad_block_size (create_with_some_large_blocks jobs 4 5)).
Proof. reflexivity. Qed.

(* ================================================================== link skills *)
Lemma opt_eta {A} (o : option A) : match o with Some x => Some x | None => None end = o.
Proof. destruct o; reflexivity. Qed.

Lemma link_get_stat_eq levels links :
  LinkSkillset_get_stat (mkLinkSkillset levels links) = sumM Stat_iadd (map link_gs (combine links levels)) Stat_zero.
Proof.
  unfold LinkSkillset_get_stat. cbv zeta. cbn [LinkSkillset_links LinkSkillset_link_levels].
  rewrite opt_eta. rewrite <- (foldM_sum link_gs Stat_iadd).
  apply py_foldM_ext. intros a [b s]. unfold link_gs. cbn [fst snd]. reflexivity.
Qed.

Lemma link_tables_ok_true : link_tables_ok = true.
Proof. vm_compute. reflexivity. Qed.

Lemma link_tables : Forall (fun l => table_ok (LinkSkill_options l)) data_all_linkskills.
Proof.
  pose proof link_tables_ok_true as H. unfold link_tables_ok in H.
  apply Forall_forall. intros b Hb. rewrite forallb_forall in H. apply chain_ok_sound, H, Hb.
Qed.

Lemma link_get_stat_good b s : table_ok (LinkSkill_options b) -> (0 <= s)%Z -> (s <= py_len (LinkSkill_options b))%Z ->
  exists x, LinkSkill_get_stat b s = Some x /\ good x.
Proof.
  intros T H0 H1. unfold LinkSkill_get_stat. destruct (Z.eqb_spec s 0) as [->|N].
  - exists Stat_zero. split; [reflexivity|apply good_zero].
  - replace (s - 1)%Z with (Z.of_nat (Z.to_nat (s - 1))) by lia. rewrite py_index_nat.
    rewrite py_len_length in H1.
    destruct (nth_error (LinkSkill_options b) (Z.to_nat (s - 1))) as [x|] eqn:E.
    + exists x. split; [reflexivity|]. eapply table_ok_good; eassumption.
    + apply nth_error_None in E. lia.
Qed.

Lemma link_pairs_good levels : levels_ok levels = true ->
  Forall (fun p => exists x, link_gs p = Some x /\ good x) (combine data_all_linkskills levels).
Proof.
  intros H. unfold levels_ok in H. apply Forall_forall. intros [b s] Hp. rewrite forallb_forall in H.
  specialize (H (b, s) Hp). cbn [fst snd] in H. apply andb_prop in H. destruct H as [H0 H1].
  apply Z.leb_le in H0. apply Z.leb_le in H1. unfold link_gs. cbn [fst snd].
  apply link_get_stat_good; try assumption.
  pose proof link_tables as T. rewrite Forall_forall in T. apply T. eapply in_combine_l. exact Hp.
Qed.

Lemma link_value_opt_eq L default armor levels st :
  link_value_opt L default armor levels st =
  match sumM Stat_iadd (map link_gs (sel (zs st) (combine data_all_linkskills levels))) Stat_zero with
  | Some t => Some (logic_df L (Stat_add default t) armor)
  | None => None
  end.
Proof.
  unfold link_value_opt, link_target, linkset_of.
  cbv beta iota zeta delta [LinkSkillTarget_init py_foldM LinkSkillTarget_set_state LinkSkillTarget_with_state
    LinkSkillTarget_get_value LinkSkillTarget__link_skillset LinkSkillTarget_state LinkSkillTarget_default_stat
    LinkSkillTarget_damage_logic LinkSkillTarget_armor LinkSkillset_get_masked].
  cbn [LinkSkillset_links LinkSkillset_link_levels].
  rewrite !masked_sel. rewrite link_get_stat_eq. rewrite sel_combine.
  destruct (sumM Stat_iadd _ Stat_zero); reflexivity.
Qed.

Lemma link_value_mono L default armor levels st st' :
  logic_wf L -> good default -> 0 <= armor -> 0 <= logic_armor_factor L default armor ->
  levels_ok levels = true -> le_state st st' ->
  exists v v', link_value_opt L default armor levels st = Some v /\ link_value_opt L default armor levels st' = Some v' /\
               0 <= v /\ v <= v'.
Proof.
  intros Hw Gd Ha Hf Hs [Ll Hl]. rewrite !link_value_opt_eq.
  pose proof (sel_terms_le link_gs _ (link_pairs_good levels Hs) st st' Ll Hl) as TL.
  destruct (sumM_iadd_le _ _ TL Stat_zero Stat_zero good_zero good_zero (Stat_le_refl _)) as (r & r' & E & E' & G & G' & Hr).
  rewrite E, E'. eexists. eexists. split; [reflexivity|]. split; [reflexivity|].
  apply objective_le; assumption.
Qed.

Lemma link_M_eq levels : link_M levels = 1%nat.
Proof. reflexivity. Qed.

Lemma link_cost_eq levels st : link_cost levels st = qz (py_sum_Z (zs st)).
Proof. reflexivity. Qed.

Theorem link_never_worse L default armor levels budget step_size max_iter st st' k :
  logic_wf L -> good default -> 0 <= armor -> 0 <= logic_armor_factor L default armor -> levels_ok levels = true ->
  optimize_coded (link_value L default armor levels) (link_cost levels) (link_M levels) budget step_size max_iter st = Done st' k ->
  link_value L default armor levels st <= link_value L default armor levels st'.
Proof.
  intros Hw Gd Ha Hf Hs R.
  eapply (coded_never_worse (link_value L default armor levels) (link_cost levels) (link_M levels) budget step_size max_iter);
    [|exact R].
  intros s inc s' Hst. pose proof (stepped_le _ _ _ _ Hst) as Hle.
  destruct (link_value_mono L default armor levels s s' Hw Gd Ha Hf Hs Hle) as (v & v' & E1 & E2 & _ & Hv).
  unfold link_value. rewrite E1, E2. exact Hv.
Qed.

(* the shipped link skill set: every link at its maximum level *)
Lemma kms_levels_ok : levels_ok (LinkSkillset_link_levels get_kms_link_skill_set) = true.
Proof. vm_compute. reflexivity. Qed.

Lemma kms_linkset_eq : get_kms_link_skill_set = linkset_of (LinkSkillset_link_levels get_kms_link_skill_set).
Proof. reflexivity. Qed.
