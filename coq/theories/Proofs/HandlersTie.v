(* The operation handlers as GENERATED from simaple/simulate/policy/handlers.py (gen/HandlersSrc.v, by tools/tr_handlers.py),
   driven by the engine's loop (Lib/PyGen.v exec_gen), are exec_op of Model/Engine.v; the generated get_next_elapse_time is
   next_elapse. *)
From Coq Require Import List.
Import ListNotations.
From V Require Import Lib.PyGen Model.Engine.
From G Require Import HandlersSrc.

Section Tie.
  Variables St Ev Act Ck T Name : Type.
  Variable play : St -> Act -> St * list Ev.
  Variable save : St -> Ck.
  Variable clock : St -> T.
  Variable mk_act : Name -> meth -> option T -> Act.
  Variable star : Name.
  Variable ev_name : Ev -> Name.
  Variable ev_delay : Ev -> option T.
  Variable name_eqb : Name -> Name -> bool.
  Variable tzero : T.
  Variables tpos tis0 : T -> bool.

  Theorem src_next_elapse_is_next_elapse (evs : list Ev) :
    src_get_next_elapse_time Ev T ev_delay tzero tpos evs = next_elapse Ev T ev_delay tzero tpos evs.
  Proof.
    unfold src_get_next_elapse_time. induction evs as [|e r IH]; [reflexivity|].
    cbn [for_first next_elapse]. destruct (ev_delay e) as [t|]; [destruct (tpos t); [reflexivity|exact IH]|exact IH].
  Qed.

  (* the full specification of the generated get_next_elapse_time: the delay of the FIRST event that carries a positive delay,
     and zero exactly when no event does *)
  Definition no_positive_delay (l : list Ev) : Prop := forall e t, In e l -> ev_delay e = Some t -> tpos t = false.
  Theorem src_next_elapse_spec (evs : list Ev) :
    (no_positive_delay evs /\ src_get_next_elapse_time Ev T ev_delay tzero tpos evs = tzero) \/
    (exists pre e post t, evs = pre ++ e :: post /\ no_positive_delay pre /\ ev_delay e = Some t /\ tpos t = true /\
                          src_get_next_elapse_time Ev T ev_delay tzero tpos evs = t).
  Proof.
    rewrite src_next_elapse_is_next_elapse. induction evs as [|e r IH].
    - left. split; [intros e t []|reflexivity].
    - cbn [next_elapse]. destruct (ev_delay e) as [t|] eqn:Ed.
      + destruct (tpos t) eqn:Ep.
        * right. exists [], e, r, t. repeat split; auto. intros e' t' [].
        * destruct IH as [[Hn Hz]|[pre [e0 [post [t0 [Er [Hn [Hd [Hp Hv]]]]]]]]].
          -- left. split; [|exact Hz]. intros e' t' [<-|Hi] Hd'; [congruence|eapply Hn; eauto].
          -- right. exists (e :: pre), e0, post, t0. repeat split; auto; [rewrite Er; reflexivity|].
             intros e' t' [<-|Hi] Hd'; [congruence|eapply Hn; eauto].
      + destruct IH as [[Hn Hz]|[pre [e0 [post [t0 [Er [Hn [Hd [Hp Hv]]]]]]]]].
        * left. split; [|exact Hz]. intros e' t' [<-|Hi] Hd'; [congruence|eapply Hn; eauto].
        * right. exists (e :: pre), e0, post, t0. repeat split; auto; [rewrite Er; reflexivity|].
          intros e' t' [<-|Hi] Hd'; [congruence|eapply Hn; eauto].
  Qed.

  Theorem handlers_drive_exec_op (o : op T Name) (st : St) (b : list Ev) :
    exec_gen Ev Act St (playlog Ev Act Ck T) play (mkpl St Ev Act Ck T save clock)
      (src_handler Ev Act T Name mk_act star ev_name ev_delay name_eqb tzero tpos tis0 o b) st b
    = exec_op St Ev Act Ck T Name play save clock mk_act star ev_name ev_delay name_eqb tzero tpos tis0 o st b.
  Proof.
    unfold exec_op, src_handler. destruct o as [n|n|t|n|n]; cbn [first_action second_action].
    - unfold src_exec_cast. cbn [exec_gen]. destruct (play st (mk_act n MUse None)) as [st1 e1].
      rewrite src_next_elapse_is_next_elapse. destruct (tis0 (next_elapse Ev T ev_delay tzero tpos e1)); cbn [exec_gen]; [reflexivity|].
      destruct (play st1 _) as [st2 e2]. reflexivity.
    - unfold src_exec_use. cbn [exec_gen]. destruct (play st _) as [st1 e1]. reflexivity.
    - unfold src_exec_elapse. cbn [exec_gen]. destruct (play st _) as [st1 e1]. reflexivity.
    - unfold src_exec_keydownstop. cbn [exec_gen]. destruct (play st _) as [st1 e1]. reflexivity.
    - unfold src_exec_resolve. cbn zeta. cbn [exec_gen]. rewrite src_next_elapse_is_next_elapse.
      destruct (play st _) as [st1 e1]. reflexivity.
  Qed.
End Tie.
