(* C13 tie: the functions regenerated from the CURRENT simaple/simulate/report/feature.py
   (gen/WindowSrc.v, tools/tr_window.py) are the hand-written model Model/Window.v.
   The proofs are by computation/case analysis only, so any change of the source that changes a
   comparison, an offset, an update, a slice bound, an initial value or the returned tuple makes
   this file fail to compile (fail closed), and the check then searches the implementation. *)
From Coq Require Import ZArith List Bool Arith.
From V.Lib Require Import PyLoop.
From V.Model Require Import Window.
From G Require WindowSrc.
Import ListNotations.
Open Scope Z_scope.

Lemma src_compute_dealing l s e : WindowSrc.compute_dealing l s e = compute_dealing l s e.
Proof. reflexivity. Qed.

Lemma src_step L l x : WindowSrc.find_maximum_dealing_interval_step L l x = step L l x.
Proof. reflexivity. Qed.

Lemma src_while L l fuel x :
  while_true (WindowSrc.find_maximum_dealing_interval_step L l) fuel x = while_true (step L l) fuel x.
Proof.
  revert x. induction fuel as [|f IH]; intros x; cbn [while_true]; [reflexivity|].
  rewrite src_step. destruct (step L l x); auto.
Qed.

Theorem src_find_maximum_dealing_interval L l :
  WindowSrc.find_maximum_dealing_interval L l = find_maximum_dealing_interval L l.
Proof.
  unfold WindowSrc.find_maximum_dealing_interval, find_maximum_dealing_interval. cbv zeta.
  rewrite src_while. change (0%nat, 0%nat, 0, 0%nat, 0%nat) with init.
  change (2 * length l + 2)%nat with (fuel_of l).
  destruct (while_true (step L l) (fuel_of l) init) as [[[[[s e] b] bs] be]| |]; reflexivity.
Qed.

(* the public method: damage_seq = [(entry.clock, calculator.calculate_damage(entry)) ...] *)
Theorem src_feature (L : Z) (es : list (Z * list Z)) :
  WindowSrc.feature_find_maximum_dealing_interval (fun e => fst e) (fun e => entry_damage (snd e)) L es =
  feature_of_entries L es.
Proof.
  unfold WindowSrc.feature_find_maximum_dealing_interval, feature_of_entries. cbv zeta.
  rewrite src_find_maximum_dealing_interval.
  destruct (find_maximum_dealing_interval L _) as [[[b bs] be]| |]; reflexivity.
Qed.

Theorem src_feature_generic {Entry : Type} (clock damage : Entry -> Z) (L : Z) (es : list Entry) :
  WindowSrc.feature_find_maximum_dealing_interval clock damage L es =
  find_maximum_dealing_interval L (map (fun e => (clock e, damage e)) es).
Proof.
  unfold WindowSrc.feature_find_maximum_dealing_interval. cbv zeta.
  rewrite src_find_maximum_dealing_interval.
  destruct (find_maximum_dealing_interval L _) as [[[b bs] be]| |]; reflexivity.
Qed.

(* ---------------------------------------------------------------- the C13 window statements,
   about the function regenerated from the source *)
From Coq Require Import Lia.
From V.Proofs Require Import Window WindowSpec.

Theorem window_two_pointer_eq_naive L l : 0 < L -> sorted l ->
  WindowSrc.find_maximum_dealing_interval L l = Ok (naive L l).
Proof. intros HL Hs. rewrite src_find_maximum_dealing_interval. apply two_pointer_eq_naive; assumption. Qed.

Theorem window_indices_reproduce L l w bs be : 0 < L -> sorted l ->
  WindowSrc.find_maximum_dealing_interval L l = Ok (w, bs, be) -> slice_sum l bs be = w.
Proof.
  intros HL Hs. rewrite window_two_pointer_eq_naive by assumption. intros X.
  pose proof (naive_reproduces L l) as R. inversion X as [E]. rewrite E in R. exact R.
Qed.

Theorem window_is_maximum L l w bs be : 0 < L -> sorted l ->
  WindowSrc.find_maximum_dealing_interval L l = Ok (w, bs, be) ->
  0 <= w /\
  (forall s e, shortest L l s e -> slice_sum l s e <= w) /\
  ((w = 0 /\ bs = 0%nat /\ be = 0%nat) \/
   (shortest L l bs be /\ 0 < w /\ forall s e, (s < bs)%nat -> shortest L l s e -> slice_sum l s e < w)).
Proof.
  intros HL Hs. rewrite window_two_pointer_eq_naive by assumption. intros X.
  pose proof (naive_is_maximum L l) as R. inversion X as [E]. rewrite E in R. exact R.
Qed.

Theorem window_nonpositive_length_raises L l : L <= 0 -> sorted l -> l <> [] ->
  WindowSrc.find_maximum_dealing_interval L l = IndexError.
Proof. intros. rewrite src_find_maximum_dealing_interval. apply nonpositive_length_raises; assumption. Qed.

Theorem window_empty_run L : WindowSrc.find_maximum_dealing_interval L [] = Ok (0, 0%nat, 0%nat).
Proof. reflexivity. Qed.

Theorem window_fuel_enough L l : WindowSrc.find_maximum_dealing_interval L l <> OutOfFuel.
Proof. rewrite src_find_maximum_dealing_interval. apply fuel_enough. Qed.

Theorem window_feature (Entry : Type) (clock damage : Entry -> Z) L (es : list Entry) :
  WindowSrc.feature_find_maximum_dealing_interval clock damage L es =
  WindowSrc.find_maximum_dealing_interval L (map (fun e => (clock e, damage e)) es).
Proof. rewrite src_feature_generic, src_find_maximum_dealing_interval. reflexivity. Qed.

Theorem window_literal_reading_differs :
  exists L l s e w bs be,
    0 < L /\ sorted l /\ nonneg l /\ reaches L l s e /\
    WindowSrc.find_maximum_dealing_interval L l = Ok (w, bs, be) /\ w < slice_sum l s e.
Proof.
  destruct literal_all_windows_reading_differs as (L & l & s & e & w & bs & be & A & B & C & D & E & F).
  exists L, l, s, e, w, bs, be. rewrite src_find_maximum_dealing_interval. auto 10.
Qed.
