(* C01 at the store level: the hypothesis `restore (save s) = s` of the engine theorems follows, for the concrete store of
   simulate/base.py (ConcreteStore.save / load, Checkpoint.create / restore), from the round trip of ONE entity.

   ConcreteStore._entities is an insertion-ordered dict address -> Entity (Model/Dispatch.v `store`).
     save()        = {k: {"cls": type(v).__name__, "payload": v.model_dump()} for k, v in self._entities.items()}
     load(saved)   : self._entities = {k: get_class(cls).model_validate(payload) for k, v in saved.items()}
   so with  dump : Ent -> D  (class name + model_dump) and  parse : D -> Ent  (class lookup + model_validate):
     save_store s  = map (fun kv => (fst kv, dump (snd kv))) s        restore_store c = map (fun kv => (fst kv, parse (snd kv))) c
   Keys and their order are untouched.  What remains a (tested) hypothesis is exactly `parse (dump e) = e` for every entity that
   occurs -- pydantic's model_dump / model_validate on the 24 entity classes, exercised on every reachable store by the C01 harness
   (checkpoint transport fix-point on live objects). *)
From Coq Require Import List String.
From V.Model Require Import Engine Dispatch.
Import ListNotations.

Section StoreRoundtrip.
  Variables Ent D : Type.
  Variable dump : Ent -> D.
  Variable parse : D -> Ent.

  Definition save_store (s : store Ent) : list (string * D) := map (fun kv => (fst kv, dump (snd kv))) s.
  Definition restore_store (c : list (string * D)) : store Ent := map (fun kv => (fst kv, parse (snd kv))) c.

  Lemma restore_save : (forall e, parse (dump e) = e) -> forall s, restore_store (save_store s) = s.
  Proof.
    intros H s. unfold restore_store, save_store. rewrite map_map. cbn [fst snd].
    induction s as [|[k e] s IH]; cbn [map fst snd]; [reflexivity|]. rewrite H, IH. reflexivity.
  Qed.

  (* the converse: if the store round trip holds for every store, every entity round-trips (so the entity-level hypothesis is
     not stronger than what the engine theorems need) *)
  Lemma restore_save_only_if : (forall s, restore_store (save_store s) = s) -> forall e, parse (dump e) = e.
  Proof.
    intros H e. specialize (H [(EmptyString, e)]). unfold restore_store, save_store in H. cbn in H.
    injection H as H. exact H.
  Qed.

  (* addresses and their order survive the transport *)
  Lemma save_keys s : map fst (save_store s) = map fst s.
  Proof. unfold save_store. rewrite map_map. reflexivity. Qed.
  Lemma restore_keys c : map fst (restore_store c) = map fst c.
  Proof. unfold restore_store. rewrite map_map. reflexivity. Qed.

  Lemma keys_survive s : map fst (restore_store (save_store s)) = map fst s.
  Proof. rewrite restore_keys, save_keys. reflexivity. Qed.

  (* one lossy entity is enough to break the store round trip at its address (what a rounding serialiser does) *)
  Lemma lossy_entity_breaks k e s : parse (dump e) <> e -> restore_store (save_store ((k, e) :: s)) <> (k, e) :: s.
  Proof. intros H E. unfold restore_store, save_store in E. cbn in E. injection E as E _. exact (H E). Qed.
End StoreRoundtrip.

(* C01_fresh (Model/Engine.v) instantiated with the concrete store: the only hypothesis left is the ENTITY-level round trip *)
Lemma resume_concrete_store (Ent D Ev Act H T Dv Name : Type) (dump : Ent -> D) (parse : D -> Ent) :
    (forall e : Ent, parse (dump e) = e) ->
    forall (play : store Ent -> Act -> store Ent * list Ev)
      (clock : store Ent -> T) (inspect : Name -> store Ent -> Dv)
      (mk_act : Name -> meth -> option T -> Act) (star : Name) (ev_name : Ev -> Name)
      (ev_delay : Ev -> option T) (name_eqb : Name -> Name -> bool)
      (tzero : T) (tpos tis0 : T -> bool) (H0 : H)
      (hashf : H -> cmd T Name -> list (T * Act * list Ev) -> H)
      (init : oplog Ev Act (list (string * D)) H T Dv Name) (cs : list (cmd T Name)) (k : nat)
      (e_full : eng (store Ent) Ev Act (list (string * D)) H T Dv Name),
    last_plog Ev Act (list (string * D)) H T Dv Name (init :: nil) <> None ->
    run (store Ent) Ev Act (list (string * D)) H T Dv Name play (save_store Ent D dump) (restore_store Ent D parse)
      clock inspect mk_act star ev_name ev_delay name_eqb tzero tpos tis0 H0 hashf
      (of_logs (store Ent) Ev Act (list (string * D)) H T Dv Name (init :: nil)) cs = Some e_full ->
    exists e_cut e_res : eng (store Ent) Ev Act (list (string * D)) H T Dv Name,
      run (store Ent) Ev Act (list (string * D)) H T Dv Name play (save_store Ent D dump) (restore_store Ent D parse)
        clock inspect mk_act star ev_name ev_delay name_eqb tzero tpos tis0 H0 hashf
        (of_logs (store Ent) Ev Act (list (string * D)) H T Dv Name (init :: nil)) (List.firstn k cs) = Some e_cut /\
      run (store Ent) Ev Act (list (string * D)) H T Dv Name play (save_store Ent D dump) (restore_store Ent D parse)
        clock inspect mk_act star ev_name ev_delay name_eqb tzero tpos tis0 H0 hashf
        (reload (store Ent) Ev Act (list (string * D)) H T Dv Name
           (logs (store Ent) Ev Act (list (string * D)) H T Dv Name e_cut)) (List.skipn k cs) = Some e_res /\
      logs (store Ent) Ev Act (list (string * D)) H T Dv Name e_res = logs (store Ent) Ev Act (list (string * D)) H T Dv Name e_full /\
      sim (store Ent) Ev Act (list (string * D)) H T Dv Name (restore_store Ent D parse) e_res e_full.
Proof.
  intros Hrt play clock inspect mk_act star ev_name ev_delay name_eqb tzero tpos tis0 H0 hashf init cs k e_full.
  exact (@C01_fresh (store Ent) Ev Act (list (string * D)) H T Dv Name play
           (save_store Ent D dump) (restore_store Ent D parse) (restore_save Ent D dump parse Hrt)
           clock inspect mk_act star ev_name ev_delay name_eqb tzero tpos tis0 H0 hashf init cs k e_full).
Qed.
