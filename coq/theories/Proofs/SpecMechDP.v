(* Entity lemmas for Model/SpecMech.v: DynamicIntervalPeriodic (DP) and LastingStack (LS) under chunked elapse. *)
From Coq Require Import ZArith List Bool Lia.
From V.Model Require Import Comp SpecMech.
Import ListNotations.
Open Scope Z_scope.

(* ------------------------------------------------------------ LastingStack *)
Lemma ls_elapse_additive s a b : 0 <= a -> 0 <= b -> LS.elapse (LS.elapse s a) b = LS.elapse s (a + b).
Proof.
  intros Ha Hb. unfold LS.elapse. cbn [LS.tl LS.stack LS.maxs LS.dur].
  destruct (LS.tl s - a <? 0) eqn:E1; cbn [LS.reset LS.tl LS.stack LS.maxs LS.dur].
  - apply Z.ltb_lt in E1. replace (LS.tl s - (a + b) <? 0) with true by (symmetry; apply Z.ltb_lt; lia).
    destruct (0 - b <? 0) eqn:E2; unfold LS.reset; cbn [LS.tl LS.stack LS.maxs LS.dur]; [reflexivity|].
    apply Z.ltb_ge in E2. replace (0 - b) with 0 by lia. reflexivity.
  - replace (LS.tl s - a - b) with (LS.tl s - (a + b)) by lia. reflexivity.
Qed.

(* ------------------------------------------------------------ DynamicIntervalPeriodic *)
Section Loop.
Variables I pn m : Z.

Inductive runs : Z -> Z -> Z * Z * list Z -> Prop :=
| runs_stop c n : 0 < c -> runs c n (c, n, [])
| runs_step c n c' n' l : c <= 0 -> runs (c + (I + n * pn)) (Z.min m (n + 1)) (c', n', l) -> runs c n (c', n', n :: l).

Lemma runs_det c n r1 : runs c n r1 -> forall r2, runs c n r2 -> r1 = r2.
Proof.
  induction 1 as [c n Hc|c n c' n' l Hc H IH]; intros r2 H2.
  - inversion H2; subst; [reflexivity|lia].
  - inversion H2 as [|? ? c2 n2 l2 Hc2 H2']; subst; [lia|]. specialize (IH _ H2'). injection IH as -> -> ->. reflexivity.
Qed.

Lemma runs_pos c n c' n' l : runs c n (c', n', l) -> 0 < c'.
Proof. intros H. remember (c', n', l) as r. revert c' n' l Heqr. induction H; intros; injection Heqr as <- <- <-; eauto. Qed.

Lemma runs_cnt c n c' n' l : 0 <= m -> 0 <= n -> runs c n (c', n', l) -> 0 <= n'.
Proof.
  intros Hm Hn H. remember (c', n', l) as r. revert c' n' l Heqr Hn. induction H; intros; injection Heqr as <- <- <-; [lia|].
  eapply IHruns; [reflexivity|lia].
Qed.

Lemma loop_runs : forall fuel c n r, DP.loop fuel I pn m c n = Some r -> runs c n r.
Proof.
  induction fuel as [|f IH]; intros c n r H; cbn [DP.loop] in H.
  - destruct (0 <? c) eqn:E; [|discriminate]. injection H as <-. apply runs_stop. apply Z.ltb_lt. exact E.
  - destruct (0 <? c) eqn:E. { injection H as <-. apply runs_stop. apply Z.ltb_lt. exact E. }
    destruct (DP.loop f I pn m (c + (I + n * pn)) (Z.min m (n + 1))) as [[[c' n'] l]|] eqn:L; [|discriminate].
    injection H as <-. apply runs_step; [apply Z.ltb_ge in E; lia|]. apply IH. exact L.
Qed.

Lemma loop_total : 0 < I -> 0 <= pn -> 0 <= m ->
  forall fuel c n, 0 <= n -> (Z.to_nat (1 - c) <= fuel)%nat -> exists r, DP.loop fuel I pn m c n = Some r.
Proof.
  intros HI Hp Hm. induction fuel as [|f IH]; intros c n Hn Hf; cbn [DP.loop].
  - destruct (0 <? c) eqn:E; [eexists; reflexivity|]. apply Z.ltb_ge in E. lia.
  - destruct (0 <? c) eqn:E; [eexists; reflexivity|]. apply Z.ltb_ge in E.
    destruct (IH (c + (I + n * pn)) (Z.min m (n + 1)) ltac:(lia) ltac:(nia)) as [[[c' n'] l] ->]. eexists. reflexivity.
Qed.

(* the chunk lemma of the loop: decrementing the counter by d >= 0 after a first run *)
Lemma runs_chunk c n c1 n1 l1 : runs c n (c1, n1, l1) ->
  forall d c2 n2 l2, 0 <= d -> runs (c1 - d) n1 (c2, n2, l2) -> runs (c - d) n (c2, n2, l1 ++ l2).
Proof.
  intros H. remember (c1, n1, l1) as r. revert c1 n1 l1 Heqr.
  induction H as [c n Hc|c n c' n' l Hc H IH]; intros c1 n1 l1 Heqr d c2 n2 l2 Hd H2; injection Heqr as <- <- <-.
  - exact H2.
  - cbn [app]. apply runs_step; [lia|]. replace (c - d + (I + n * pn)) with (c + (I + n * pn) - d) by lia.
    eapply IH; [reflexivity|exact Hd|exact H2].
Qed.
End Loop.

Lemma resolving_spec s t : DP.wf s ->
  exists c' n' l, runs (DP.itv s) (DP.pen s) (DP.mx s) (DP.ic s - Z.min t (DP.tl s)) (DP.cnt s) (c', n', l) /\
                  DP.resolving s t = (DP.mkD c' (DP.itv s) (DP.tl s - t) n' (DP.pen s) (DP.mx s), l).
Proof.
  intros (HI & Hp & Hc & Hm & _). unfold DP.resolving, DP.resolving_with, DP.fuel_of.
  destruct (loop_total (DP.itv s) (DP.pen s) (DP.mx s) HI Hp Hm (S (Z.to_nat (- (DP.ic s - Z.min t (DP.tl s)))))
              (DP.ic s - Z.min t (DP.tl s)) (DP.cnt s) Hc ltac:(lia)) as [[[c' n'] l] E].
  rewrite E. exists c', n', l. split; [|reflexivity]. eapply loop_runs. exact E.
Qed.

Lemma resolving_wf s t : DP.wf s -> DP.wf (fst (DP.resolving s t)).
Proof.
  intros W. destruct (resolving_spec s t W) as (c' & n' & l & R & ->). destruct W as (HI & Hp & Hc & Hm & _).
  cbn [fst]. unfold DP.wf. cbn. repeat split; try assumption.
  - exact (runs_cnt _ _ _ _ _ _ _ _ Hm Hc R).
  - intros _. exact (runs_pos _ _ _ _ _ _ _ _ R).
Qed.

Lemma norm_dead c1 c2 I t n1 n2 p m : t <= 0 -> 0 < c1 -> 0 < c2 ->
  DP.norm (DP.mkD c1 I t n1 p m) = DP.norm (DP.mkD c2 I t n2 p m).
Proof.
  intros Ht H1 H2. unfold DP.norm. cbn.
  replace (t <=? 0) with true by (symmetry; apply Z.leb_le; lia).
  replace (0 <? c1) with true by (symmetry; apply Z.ltb_lt; lia).
  replace (0 <? c2) with true by (symmetry; apply Z.ltb_lt; lia). reflexivity.
Qed.

Theorem resolving_additive s a b : DP.wf s -> 0 <= a -> 0 <= b ->
  DP.norm (fst (DP.resolving (fst (DP.resolving s a)) b)) = DP.norm (fst (DP.resolving s (a + b))) /\
  snd (DP.resolving s a) ++ snd (DP.resolving (fst (DP.resolving s a)) b) = snd (DP.resolving s (a + b)) /\
  DP.tl (fst (DP.resolving (fst (DP.resolving s a)) b)) = DP.tl (fst (DP.resolving s (a + b))).
Proof.
  intros W Ha Hb. pose proof (resolving_wf s a W) as W1.
  destruct (resolving_spec s a W) as (c1 & n1 & l1 & R1 & E1). rewrite E1 in *. cbn [fst snd] in *.
  destruct (resolving_spec _ b W1) as (c2 & n2 & l2 & R2 & E2). rewrite E2. cbn [fst snd DP.itv DP.pen DP.mx DP.ic DP.tl DP.cnt] in *.
  destruct (resolving_spec s (a + b) W) as (c3 & n3 & l3 & R3 & E3). rewrite E3. cbn [fst snd DP.tl].
  destruct W as (HI & Hp & Hc & Hm & Hdead).
  destruct (Z_le_gt_dec a (DP.tl s)) as [Hle|Hgt].
  - (* the schedule is still alive after a *)
    rewrite Z.min_l in R1 by lia.
    assert (X : runs (DP.itv s) (DP.pen s) (DP.mx s) (DP.ic s - a - Z.min b (DP.tl s - a)) (DP.cnt s) (c2, n2, l1 ++ l2)).
    { eapply runs_chunk; [exact R1| |exact R2]. lia. }
    replace (DP.ic s - a - Z.min b (DP.tl s - a)) with (DP.ic s - Z.min (a + b) (DP.tl s)) in X by lia.
    pose proof (runs_det _ _ _ _ _ _ X _ R3) as Eq. injection Eq as -> -> ->.
    replace (DP.tl s - a - b) with (DP.tl s - (a + b)) by lia. repeat split; reflexivity.
  - (* it ended within a: the second chunk only pushes the dead counter up *)
    rewrite Z.min_r in R1 by lia. rewrite Z.min_r in R3 by lia.
    pose proof (runs_det _ _ _ _ _ _ R1 _ R3) as Eq. injection Eq as <- <- <-.
    pose proof (runs_pos _ _ _ _ _ _ _ _ R1) as P1.
    rewrite Z.min_r in R2 by lia.
    assert (X : runs (DP.itv s) (DP.pen s) (DP.mx s) (c1 - (DP.tl s - a)) n1 (c1 - (DP.tl s - a), n1, [])) by (apply runs_stop; lia).
    pose proof (runs_det _ _ _ _ _ _ R2 _ X) as Eq. injection Eq as -> -> ->.
    replace (DP.tl s - a - b) with (DP.tl s - (a + b)) by lia. rewrite app_nil_r. repeat split; try reflexivity.
    apply norm_dead; lia.
Qed.

Lemma set_time_left_wf s time count : DP.wf s -> 0 <= time -> 0 <= count -> DP.wf (DP.set_time_left s time count).
Proof. intros (HI & Hp & Hc & Hm & _) Ht Hcnt. unfold DP.wf, DP.set_time_left. cbn. repeat split; try assumption. lia. Qed.

(* views read the normalised entity only *)
Lemma norm_tl d : DP.tl (DP.norm d) = DP.tl d.
Proof. unfold DP.norm. destruct (_ && _); reflexivity. Qed.
Lemma norm_stack d : (if 0 <? DP.tl (DP.norm d) then DP.cnt (DP.norm d) else 0) = (if 0 <? DP.tl d then DP.cnt d else 0).
Proof.
  unfold DP.norm. destruct (DP.tl d <=? 0) eqn:E; cbn [andb]; [|reflexivity].
  apply Z.leb_le in E. destruct (0 <? DP.ic d); cbn [DP.tl DP.cnt]; [|reflexivity].
  replace (0 <? DP.tl d) with false by (symmetry; apply Z.ltb_ge; lia). reflexivity.
Qed.
