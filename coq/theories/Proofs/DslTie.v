(* C14 -- the data extracted from /repo (gen/DslGrammar.v) is what Model/Dsl.v implements.
   Everything here is decided by computation on closed terms: when parser.py (grammar, a
   template, a transformer method, an entry point), handlers.py, strategy/default.py or
   api/base.py changes, either tools/tr_grammar.py rejects the source or one of these
   equalities stops being provable and Props/C14.v no longer builds. *)
From Coq Require Import List NArith Bool.
Import ListNotations.
From V.Model Require Import Dsl DslEq DslLex DslSpec.
From G Require DslGrammar.

Lemma grammar_is_modelled :
  DslGrammar.rules = model_rules /\ DslGrammar.terminals = model_terminals /\
  DslGrammar.imports = model_imports /\ DslGrammar.ignores = model_ignores /\ DslGrammar.starts = model_starts.
Proof. repeat split; vm_compute; reflexivity. Qed.

Lemma transformer_is_modelled :
  DslGrammar.transform = model_transform /\ DslGrammar.op_kinds = model_op_kinds /\
  DslGrammar.entries = model_entries /\ kinds_follow_rules DslGrammar.rules DslGrammar.op_kinds = true.
Proof. repeat split; vm_compute; reflexivity. Qed.

(* the printer of the model is the three extracted templates, token for token *)
Lemma printer_is_templates :
  map (fun k => snd (snd k)) DslGrammar.op_kinds = [tmpl_full; tmpl_time; tmpl_skill] /\
  (forall c n t, print_op (Full c n t) = [TW c; TSp; TS n; TSp] ++ print_num t) /\
  (forall c t, print_op (TimeOp c t) = [TW c; TSp] ++ print_num t) /\
  (forall c n, print_op (SkillOp c n) = [TW c; TSp; TS n]).
Proof.
  split; [vm_compute; reflexivity|]. repeat split; intros; cbn; rewrite ?app_nil_r; reflexivity.
Qed.

Lemma words_and_strategy :
  forallb word_ok DslGrammar.command_words = true /\
  forallb (strategy_ok DslGrammar.command_words) DslGrammar.strategy_templates = true /\
  DslGrammar.strategy_templates <> [].
Proof. repeat split; try (vm_compute; reflexivity). discriminate. Qed.

Lemma api_is_modelled :
  forallb (text_eqb model_api_separator) DslGrammar.api_separators = true /\ DslGrammar.api_separators <> [] /\
  forallb (list_eqb rpart_eqb model_api_render) DslGrammar.api_renders = true /\ DslGrammar.api_renders <> [].
Proof. repeat split; try (vm_compute; reflexivity); discriminate. Qed.
