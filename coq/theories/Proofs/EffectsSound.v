(* Soundness of the ownership checker of Model/Effects.v: a skeleton accepted by the checker
   never reaches [Violation], for every heap, every branch outcome, every iteration count. *)
From Coq Require Import List Bool Arith Lia PeanoNat.
From V.Model Require Import Effects.
Import ListNotations.

Scheme step_ind2 := Minimality for step Sort Prop
with steps_ind2 := Minimality for steps Sort Prop.
Combined Scheme step_steps_ind from step_ind2, steps_ind2.

(* ------------------------------------------------------------------ finite sets *)
Lemma mem_spec x s : mem x s = true <-> In x s.
Proof.
  unfold mem. rewrite existsb_exists. split.
  - intros [y [H E]]. apply Nat.eqb_eq in E. subst. auto.
  - intros H. exists x. split; auto. apply Nat.eqb_refl.
Qed.
Lemma mem_cons z x l : mem z (x :: l) = Nat.eqb z x || mem z l.
Proof. reflexivity. Qed.
Lemma mem_inter x a b : mem x (inter a b) = true <-> mem x a = true /\ mem x b = true.
Proof. rewrite !mem_spec. unfold inter. rewrite filter_In, mem_spec. tauto. Qed.
Lemma mem_remove x y s : mem y (remove x s) = true <-> mem y s = true /\ y <> x.
Proof. rewrite !mem_spec. unfold remove. rewrite filter_In, negb_true_iff, Nat.eqb_neq. tauto. Qed.
Lemma mem_remove_all xs y s : mem y (remove_all xs s) = true <-> mem y s = true /\ mem y xs = false.
Proof. rewrite !mem_spec. unfold remove_all. rewrite filter_In, negb_true_iff. tauto. Qed.
Lemma subset_spec a b : subset a b = true <-> forall x, mem x a = true -> mem x b = true.
Proof.
  unfold subset. rewrite forallb_forall. split; intros H x Hx.
  - apply H, mem_spec, Hx.
  - apply H, mem_spec, Hx.
Qed.
Lemma subset_refl a : subset a a = true.
Proof. apply subset_spec. auto. Qed.
Lemma subset_trans a b c : subset a b = true -> subset b c = true -> subset a c = true.
Proof. rewrite !subset_spec. auto. Qed.
Lemma subset_inter_l a b : subset (inter a b) a = true.
Proof. apply subset_spec. intros x H. apply mem_inter in H. tauto. Qed.
Lemma subset_inter_r a b : subset (inter a b) b = true.
Proof. apply subset_spec. intros x H. apply mem_inter in H. tauto. Qed.
Lemma forallb_mem ys s : forallb (fun y => mem y s) ys = true -> forall y, In y ys -> mem y s = true.
Proof. rewrite forallb_forall. auto. Qed.
Lemma mem_false_notin y xs : mem y xs = false -> ~ In y xs.
Proof. intros H I. apply mem_spec in I. congruence. Qed.

(* ------------------------------------------------------------------ order on sigma *)
Lemma le_refl a : le a a = true.
Proof. destruct a; cbn; auto. rewrite !subset_refl. reflexivity. Qed.
Lemma le_trans a b c : le a b = true -> le b c = true -> le a c = true.
Proof.
  destruct c; [destruct a; reflexivity|]. destruct b; [destruct a; cbn; discriminate|].
  destruct a; [cbn; discriminate|]. cbn. rewrite !andb_true_iff.
  intros [[A1 A2] A3] [[B1 B2] B3]. repeat split; eapply subset_trans; eauto.
Qed.
Lemma meet_le_l a b : le (meet a b) a = true.
Proof.
  destruct a, b; cbn; auto.
  - rewrite !subset_refl. reflexivity.
  - rewrite !subset_inter_l. reflexivity.
Qed.
Lemma meet_le_r a b : le (meet a b) b = true.
Proof.
  destruct a, b; cbn; auto.
  - rewrite !subset_refl. reflexivity.
  - rewrite !subset_inter_r. reflexivity.
Qed.

Lemma iter_spec chk body n s inv : iter_with chk body n s = Some inv ->
  le inv s = true /\ exists out, checks_with chk body inv = Some out /\ le inv out = true.
Proof.
  revert s. induction n as [|n IH]; intros s; cbn; [discriminate|].
  destruct (checks_with chk body s) as [out|] eqn:E; [|discriminate].
  destruct (le s out) eqn:Sb.
  - intros X; inversion X; subst. split; [apply le_refl|]. exists out. auto.
  - intros X. destruct (IH _ X) as [A B]. split; [|exact B]. eapply le_trans; [exact A|apply meet_le_l].
Qed.
Lemma iter_stable chk body n inv out :
  checks_with chk body inv = Some out -> le inv out = true -> iter_with chk body (S n) inv = Some inv.
Proof. intros E Sb. cbn. rewrite E, Sb. reflexivity. Qed.

(* ------------------------------------------------------------------ reachability *)
Lemma reach_trans h a b c : reach h a b -> reach h b c -> reach h a c.
Proof. induction 1; auto. intros. eapply reach_step; eauto. Qed.
Lemma reach_kid h a o c : reach h a o -> In c (kids h o) -> reach h a c.
Proof. intros R I. eapply reach_trans; [exact R|]. eapply reach_step; [exact I|apply reach_refl]. Qed.
Lemma reach_lt h : wfh h -> forall o t, reach h o t -> o < next h -> t < next h.
Proof. intros W o t R. induction R; auto. intros _. apply IHR. apply (W _ _ H). Qed.

Section Heap.
  Variable base : nat.

  Lemma ext_mutext h h' A : ext h h' A -> mutext base h h' A.
  Proof. intros [E1 [E2 E3]]. split; [exact E1|]. split; [|exact E3]. intros o Ho. left. auto. Qed.

  Lemma mutext_wf h h' A : wfh h -> mutext base h h' A -> wfh h'.
  Proof.
    intros W [E1 [E2 E3]] o c I. destruct (Nat.lt_ge_cases o (next h)) as [Lo|Lo].
    - destruct (E2 o Lo) as [Eq|[_ [_ K]]].
      + rewrite Eq in I. destruct (W _ _ I). lia.
      + destruct (K c I). lia.
    - destruct (E3 o c Lo I) as [? [? _]]. lia.
  Qed.

  (* after a mutation inside A: everything reachable was reachable before, or is new, or is in A *)
  Lemma mutext_closed h h' (A R : obj -> Prop) :
    wfh h -> mutext base h h' A ->
    (forall a c, A a -> In c (kids h a) -> A c) ->
    (forall a c, R a -> In c (kids h a) -> R c) ->
    forall o t, reach h' o t -> (R o \/ next h <= o \/ A o) -> (R t \/ next h <= t \/ A t).
  Proof.
    intros W [E1 [E2 E3]] CA CR o t Rch. induction Rch as [o|o c t I _ IH]; auto.
    intros Q. apply IH. destruct (Nat.lt_ge_cases o (next h)) as [Lo|Lo].
    - destruct (E2 o Lo) as [Eq|[_ [_ K]]].
      + rewrite Eq in I. destruct Q as [Q|[Q|Q]]; [left; eauto|lia|right; right; eauto].
      + destruct (K c I) as [_ [N|N]]; auto.
    - destruct (E3 o c Lo I) as [_ [_ [N|N]]]; auto.
  Qed.

  Lemma ext_reach_old h h' A : wfh h -> ext h h' A -> forall o t, reach h' o t -> o < next h -> reach h o t.
  Proof.
    intros W [E1 [E2 E3]] o t R. induction R as [o|o c t I _ IH]; [intros; apply reach_refl|].
    intros Lo. rewrite (E2 o Lo) in I. eapply reach_step; [exact I|]. apply IH. apply (W _ _ I).
  Qed.

  Lemma set_kids_wf h ox oy l : wfh h -> ox < next h -> oy < next h -> incl l (oy :: kids h ox) -> wfh (set_kids h ox l).
  Proof.
    intros W Lx Ly Inc o c I. cbn in *. destruct (Nat.eqb o ox) eqn:E.
    - apply Nat.eqb_eq in E. subst. destruct (Inc _ I) as [<-|K]; [auto|]. destruct (W _ _ K). auto.
    - apply (W _ _ I).
  Qed.

  Lemma set_kids_reach h ox oy l : incl l (oy :: kids h ox) ->
    forall o t, reach (set_kids h ox l) o t ->
    forall z, (reach h z o \/ (reach h z ox /\ reach h oy o)) -> (reach h z t \/ (reach h z ox /\ reach h oy t)).
  Proof.
    intros Inc o t R. induction R as [o|o c t I _ IH]; auto.
    intros z Q. apply IH. cbn in I. destruct (Nat.eqb o ox) eqn:E.
    - apply Nat.eqb_eq in E. subst o. destruct (Inc _ I) as [<-|K].
      + right. split; [|apply reach_refl]. destruct Q as [Q|[Q _]]; exact Q.
      + destruct Q as [Q|[Q1 Q2]]; [left|right; split; auto]; eapply reach_kid; eauto.
    - destruct Q as [Q|[Q1 Q2]]; [left|right; split; auto]; eapply reach_kid; eauto.
  Qed.
End Heap.

(* ------------------------------------------------------------------ what sigma means *)
Definition agree (base : nat) (s : sigma) (d : dstate) : Prop :=
  match s with
  | Dead => False
  | Live sd ss iso =>
      (forall x, mem x sd = true -> dfresh base d x) /\
      (forall x, mem x ss = true -> base <= env d x) /\
      (forall x z, mem x iso = true -> mem z sd = true -> z <> x -> ~ reach (hp d) (env d z) (env d x))
  end.

Lemma agree_le base a b d : le a b = true -> agree base b d -> agree base a d.
Proof.
  destruct b; [intros _ []|]. destruct a; [cbn; discriminate|]. cbn. rewrite !andb_true_iff, !subset_spec.
  intros [[S1 S2] S3] [A1 [A2 A3]]. repeat split; auto.
Qed.

Definition goodr (base : nat) (retok : list var -> sigma -> bool) (s' : sigma) (r : outcome) : Prop :=
  match r with
  | Violation => False
  | Ok d' => wfd base d' /\ agree base s' d'
  | Ret d' rs => exists sr, retok rs sr = true /\ wfd base d' /\ agree base sr d'
  end.

Lemma goodr_le base retok a b r : le a b = true -> goodr base retok b r -> goodr base retok a r.
Proof. destruct r; cbn; auto. intros L [W A]. split; auto. eapply agree_le; eauto. Qed.

Section Sound.
  Variable base : nat.
  Variable retok : list var -> sigma -> bool.
  Variable pinned : list var.

  Lemma reachv_closed d ys a c : reachv d ys a -> In c (kids (hp d) a) -> reachv d ys c.
  Proof. intros [y [I R]] K. exists y. split; auto. eapply reach_kid; eauto. Qed.
  Lemma reachv_lt d ys a : wfd base d -> reachv d ys a -> a < next (hp d).
  Proof. intros [W [E _]] [y [_ R]]. eapply reach_lt; eauto. Qed.

  Lemma reach_after_ext d ys h' o t :
    wfd base d -> ext (hp d) h' (reachv d ys) -> reach h' o t ->
    (next (hp d) <= o \/ reachv d ys o) -> (next (hp d) <= t \/ reachv d ys t).
  Proof.
    intros Wd Ex R Q. destruct Wd as [W ?].
    destruct (mutext_closed base (hp d) h' (reachv d ys) (fun _ => False) W (ext_mutext base _ _ _ Ex)
                (reachv_closed d ys) (fun a c F _ => F) o t R) as [[]|Q']; tauto.
  Qed.

  Lemma sound_alias d x y sd ss iso :
    wfd base d -> agree base (Live sd ss iso) d ->
    let d' := upd d x (env d y) (hp d) in
    wfd base d' /\ agree base (bind_tr x (SAlias y) sd ss iso) d'.
  Proof.
    intros Wd [A1 [A2 A3]] d'. assert (Wd' : wfd base d').
    { destruct Wd as [W [E B]]. split; [exact W|]. split; [|exact B]. intros v. cbn. destruct (Nat.eqb v x); auto. }
    split; [exact Wd'|]. cbn [bind_tr]. destruct (Nat.eqb y x) eqn:Eyx.
    - apply Nat.eqb_eq in Eyx. subst y.
      assert (Ev : forall v, env d' v = env d v).
      { intros v. cbn. destruct (Nat.eqb v x) eqn:E; auto. apply Nat.eqb_eq in E. subst. reflexivity. }
      cbn [agree]. repeat split.
      + intros z Hz t. unfold dfresh in *. rewrite Ev. apply A1, Hz.
      + intros z Hz. rewrite Ev. apply A2, Hz.
      + intros w z Hw Hz Ne. rewrite !Ev. apply A3; auto.
    - apply Nat.eqb_neq in Eyx.
      assert (Eo : forall v, v <> x -> env d' v = env d v).
      { intros v Hv. cbn. apply Nat.eqb_neq in Hv. rewrite Hv. reflexivity. }
      assert (Ex : env d' x = env d y) by (cbn; rewrite Nat.eqb_refl; reflexivity).
      cbn [agree]. repeat split.
      + intros z Hz. destruct (Nat.eq_dec z x) as [->|Nz].
        * destruct (mem y sd) eqn:My.
          -- intros t. unfold dfresh. rewrite Ex. apply (A1 y My).
          -- apply mem_remove in Hz. tauto.
        * assert (Hz' : mem z sd = true).
          { destruct (mem y sd); [rewrite mem_cons in Hz; apply orb_true_iff in Hz; destruct Hz as [Hz|Hz];
              [apply Nat.eqb_eq in Hz; contradiction|]|]; apply mem_remove in Hz; tauto. }
          intros t. unfold dfresh. rewrite (Eo z Nz). apply (A1 z Hz').
      + intros z Hz. destruct (Nat.eq_dec z x) as [->|Nz].
        * destruct (mem y ss) eqn:My.
          -- rewrite Ex. apply (A2 y My).
          -- apply mem_remove in Hz. tauto.
        * assert (Hz' : mem z ss = true).
          { destruct (mem y ss); [rewrite mem_cons in Hz; apply orb_true_iff in Hz; destruct Hz as [Hz|Hz];
              [apply Nat.eqb_eq in Hz; contradiction|]|]; apply mem_remove in Hz; tauto. }
          rewrite (Eo z Nz). apply (A2 z Hz').
      + intros w z Hw Hz Ne. apply mem_remove in Hw. destruct Hw as [Hw Nwy]. apply mem_remove in Hw. destruct Hw as [Hw Nwx].
        rewrite (Eo w Nwx). destruct (Nat.eq_dec z x) as [->|Nz].
        * destruct (mem y sd) eqn:My.
          -- rewrite Ex. apply A3; auto.
          -- apply mem_remove in Hz. tauto.
        * assert (Hz' : mem z sd = true).
          { destruct (mem y sd); [rewrite mem_cons in Hz; apply orb_true_iff in Hz; destruct Hz as [Hz|Hz];
              [apply Nat.eqb_eq in Hz; contradiction|]|]; apply mem_remove in Hz; tauto. }
          rewrite (Eo z Nz). apply A3; auto.
  Qed.

  (* the part shared by SFrom and SNew: existing variables keep what was known of them *)
  Lemma old_kept d x ys o h' sd ss iso :
    wfd base d -> agree base (Live sd ss iso) d -> ext (hp d) h' (reachv d ys) -> o < next h' ->
    let d' := upd d x o h' in
    wfd base d' /\
    (forall z, z <> x -> mem z sd = true -> dfresh base d' z) /\
    (forall z, z <> x -> mem z ss = true -> base <= env d' z) /\
    (forall w z, w <> x -> z <> x -> mem w iso = true -> mem z sd = true -> z <> w -> ~ reach (hp d') (env d' z) (env d' w)).
  Proof.
    intros Wd [A1 [A2 A3]] Ex Lo d'. pose proof Wd as [W [E B]]. pose proof Ex as [E1 [E2 E3]].
    assert (Eo : forall v, v <> x -> env d' v = env d v).
    { intros v Hv. cbn. apply Nat.eqb_neq in Hv. rewrite Hv. reflexivity. }
    split; [|split; [|split]].
    - split; [apply (mutext_wf base _ _ _ W (ext_mutext base _ _ _ Ex))|]. split; [|cbn; lia].
      intros v. cbn. destruct (Nat.eqb v x); [exact Lo|]. specialize (E v). lia.
    - intros z Nz Hz t. unfold dfresh. rewrite (Eo z Nz). cbn [hp d' upd]. intros R.
      apply (A1 z Hz). eapply ext_reach_old; eauto.
    - intros z Nz Hz. rewrite (Eo z Nz). auto.
    - intros w z Nw Nz Hw Hz Ne. rewrite (Eo z Nz), (Eo w Nw). cbn [hp d' upd]. intros R.
      apply (A3 w z Hw Hz Ne). eapply ext_reach_old; eauto.
  Qed.

  Lemma new_reach d ys o h' sd ss iso :
    wfd base d -> agree base (Live sd ss iso) d -> ext (hp d) h' (reachv d ys) ->
    (next (hp d) <= o \/ reachv d ys o) ->
    forallb (fun y => mem y sd) ys = true ->
    (forall t, reach h' o t -> base <= t) /\
    (forall w, mem w iso = true -> mem w ys = false -> env d w < next (hp d) -> ~ reach h' o (env d w)).
  Proof.
    intros Wd [A1 [A2 A3]] Ex Q All. pose proof Wd as [W [E B]]. split.
    - intros t R. destruct (reach_after_ext d ys h' o t Wd Ex R Q) as [N|[y [Iy Ry]]]; [lia|].
      apply (A1 y (forallb_mem _ _ All y Iy)). exact Ry.
    - intros w Hw Nw Lw R. destruct (reach_after_ext d ys h' o _ Wd Ex R Q) as [N|[y [Iy Ry]]]; [lia|].
      apply (A3 w y Hw (forallb_mem _ _ All y Iy)); [|exact Ry].
      intros ->. apply mem_false_notin in Nw. contradiction.
  Qed.

  Lemma mem_cons_inv z x l : mem z (x :: l) = true -> z <> x -> mem z l = true.
  Proof. rewrite mem_cons. intros H N. apply orb_true_iff in H. destruct H as [H|H]; auto. apply Nat.eqb_eq in H. contradiction. Qed.

  Lemma sound_from d x ys o h' sd ss iso :
    wfd base d -> agree base (Live sd ss iso) d -> ext (hp d) h' (reachv d ys) ->
    (next (hp d) <= o < next h' \/ reachv d ys o) ->
    let d' := upd d x o h' in
    wfd base d' /\ agree base (bind_tr x (SFrom ys) sd ss iso) d'.
  Proof.
    intros Wd Ag Ex Ho d'. pose proof Wd as [W [E B]]. pose proof Ex as [E1 _].
    assert (Lo : o < next h') by (destruct Ho as [?|R]; [lia|]; pose proof (reachv_lt _ _ _ Wd R); lia).
    assert (Q : next (hp d) <= o \/ reachv d ys o) by (destruct Ho; [left; lia|right; auto]).
    destruct (old_kept d x ys o h' sd ss iso Wd Ag Ex Lo) as [Wd' [K1 [K2 K3]]]. fold d' in Wd', K1, K2, K3.
    split; [exact Wd'|]. cbn [bind_tr].
    assert (Exo : env d' x = o) by (cbn; rewrite Nat.eqb_refl; reflexivity).
    assert (Eo : forall v, v <> x -> env d' v = env d v).
    { intros v Hv. cbn. apply Nat.eqb_neq in Hv. rewrite Hv. reflexivity. }
    destruct (forallb (fun y => mem y sd) ys) eqn:All.
    - destruct (new_reach d ys o h' sd ss iso Wd Ag Ex Q All) as [N1 N2]. cbn [agree]. repeat split.
      + intros z Hz. destruct (Nat.eq_dec z x) as [->|Nz].
        * intros t. unfold dfresh. rewrite Exo. apply N1.
        * apply K1; auto. apply mem_cons_inv in Hz; auto. apply mem_remove in Hz. tauto.
      + intros z Hz. destruct (Nat.eq_dec z x) as [->|Nz].
        * rewrite Exo. apply N1, reach_refl.
        * apply K2; auto. apply mem_cons_inv in Hz; auto. apply mem_remove in Hz. tauto.
      + intros w z Hw Hz Ne. apply mem_remove_all in Hw. destruct Hw as [Hw Nys]. apply mem_remove in Hw. destruct Hw as [Hw Nwx].
        destruct (Nat.eq_dec z x) as [->|Nz].
        * rewrite Exo, (Eo w Nwx). apply N2; auto.
        * apply K3; auto. apply mem_cons_inv in Hz; auto. apply mem_remove in Hz. tauto.
    - cbn [agree]. repeat split.
      + intros z Hz. apply mem_remove in Hz. destruct Hz. apply K1; auto.
      + intros z Hz. apply mem_remove in Hz. destruct Hz. apply K2; auto.
      + intros w z Hw Hz Ne. apply mem_remove in Hw. apply mem_remove in Hz. destruct Hw, Hz. apply K3; auto.
  Qed.

  Lemma sound_new d x ys o h' sd ss iso :
    wfd base d -> agree base (Live sd ss iso) d -> ext (hp d) h' (reachv d ys) ->
    next (hp d) <= o < next h' ->
    let d' := upd d x o h' in
    wfd base d' /\ agree base (bind_tr x (SNew ys) sd ss iso) d'.
  Proof.
    intros Wd Ag Ex Ho d'. pose proof Wd as [W [E B]]. pose proof Ex as [E1 _].
    assert (Lo : o < next h') by lia.
    assert (Q : next (hp d) <= o \/ reachv d ys o) by (left; lia).
    destruct (old_kept d x ys o h' sd ss iso Wd Ag Ex Lo) as [Wd' [K1 [K2 K3]]]. fold d' in Wd', K1, K2, K3.
    split; [exact Wd'|]. cbn [bind_tr].
    assert (Exo : env d' x = o) by (cbn; rewrite Nat.eqb_refl; reflexivity).
    assert (Eo : forall v, v <> x -> env d' v = env d v).
    { intros v Hv. cbn. apply Nat.eqb_neq in Hv. rewrite Hv. reflexivity. }
    (* nobody that existed reaches the new top object *)
    assert (Top : forall z, z <> x -> ~ reach (hp d') (env d' z) (env d' x)).
    { intros z Nz R. rewrite Exo, (Eo z Nz) in R. cbn [hp d' upd] in R.
      pose proof (ext_reach_old (hp d) h' _ W Ex _ _ R (E z)) as R'.
      pose proof (reach_lt _ W _ _ R' (E z)). lia. }
    destruct (forallb (fun y => mem y sd) ys) eqn:All.
    - destruct (new_reach d ys o h' sd ss iso Wd Ag Ex Q All) as [N1 N2]. cbn [agree]. repeat split.
      + intros z Hz. destruct (Nat.eq_dec z x) as [->|Nz].
        * intros t. unfold dfresh. rewrite Exo. apply N1.
        * apply K1; auto. apply mem_cons_inv in Hz; auto. apply mem_remove in Hz. tauto.
      + intros z Hz. destruct (Nat.eq_dec z x) as [->|Nz].
        * rewrite Exo. apply N1, reach_refl.
        * apply K2; auto. apply mem_cons_inv in Hz; auto. apply mem_remove in Hz. tauto.
      + intros w z Hw Hz Ne. destruct (Nat.eq_dec w x) as [->|Nwx].
        * apply Top. auto.
        * apply mem_cons_inv in Hw; auto. apply mem_remove_all in Hw. destruct Hw as [Hw Nys]. apply mem_remove in Hw. destruct Hw as [Hw _].
          destruct (Nat.eq_dec z x) as [->|Nz].
          -- rewrite Exo, (Eo w Nwx). apply N2; auto.
          -- apply K3; auto. apply mem_cons_inv in Hz; auto. apply mem_remove in Hz. tauto.
    - cbn [agree]. repeat split.
      + intros z Hz. apply mem_remove in Hz. destruct Hz. apply K1; auto.
      + intros z Hz. destruct (Nat.eq_dec z x) as [->|Nz].
        * rewrite Exo. lia.
        * apply K2; auto. apply mem_cons_inv in Hz; auto. apply mem_remove in Hz. tauto.
      + intros w z Hw Hz Ne. apply mem_remove in Hz. destruct Hz as [Hz Nz]. destruct (Nat.eq_dec w x) as [->|Nwx].
        * apply Top. auto.
        * apply mem_cons_inv in Hw; auto. apply mem_remove in Hw. destruct Hw. apply K3; auto.
  Qed.

  Lemma sound_mut d xs h' sd ss iso :
    wfd base d -> agree base (Live sd ss iso) d -> forallb (fun x => mem x sd) xs = true ->
    mutext base (hp d) h' (reachv d xs) ->
    let d' := {| env := env d; hp := h' |} in
    wfd base d' /\ agree base (Live sd ss (remove_all xs iso)) d'.
  Proof.
    intros Wd [A1 [A2 A3]] All Mx d'. pose proof Wd as [W [E B]]. pose proof Mx as [E1 _].
    assert (Cl : forall z o t, reach h' o t -> (reach (hp d) z o \/ next (hp d) <= o \/ reachv d xs o) ->
                 (reach (hp d) z t \/ next (hp d) <= t \/ reachv d xs t)).
    { intros z. apply (mutext_closed base (hp d) h' (reachv d xs) (reach (hp d) z) W Mx (reachv_closed d xs)).
      intros a c Ra I. eapply reach_kid; eauto. }
    split.
    - split; [eapply mutext_wf; eauto|]. split; [|cbn; lia]. intros v. cbn. specialize (E v). lia.
    - cbn [agree]. repeat split.
      + intros z Hz t R. cbn in R. destruct (Cl (env d z) _ _ R (or_introl (reach_refl _ _))) as [R'|[N|[x [Ix Rx]]]].
        * apply (A1 z Hz _ R').
        * lia.
        * apply (A1 x (forallb_mem _ _ All x Ix) _ Rx).
      + exact A2.
      + intros w z Hw Hz Ne R. cbn in R. apply mem_remove_all in Hw. destruct Hw as [Hw Nxs].
        destruct (Cl (env d z) _ _ R (or_introl (reach_refl _ _))) as [R'|[N|[x [Ix Rx]]]].
        * apply (A3 w z Hw Hz Ne R').
        * specialize (E w). lia.
        * apply (A3 w x Hw (forallb_mem _ _ All x Ix)); [|exact Rx]. intros ->. apply mem_false_notin in Nxs. contradiction.
  Qed.

  Lemma sound_store d x y l sd ss iso :
    wfd base d -> agree base (Live sd ss iso) d ->
    incl l (env d y :: kids (hp d) (env d x)) ->
    let d' := {| env := env d; hp := set_kids (hp d) (env d x) l |} in
    wfd base d' /\
    agree base (if mem y sd then Live sd ss (remove y iso) else Live (if mem x iso then remove x sd else []) ss iso) d'.
  Proof.
    intros Wd [A1 [A2 A3]] Inc d'. pose proof Wd as [W [E B]].
    assert (Rs : forall z t, reach (hp d') (env d z) t ->
                 reach (hp d) (env d z) t \/ (reach (hp d) (env d z) (env d x) /\ reach (hp d) (env d y) t)).
    { intros z t R. apply (set_kids_reach (hp d) (env d x) (env d y) l Inc _ _ R). left. apply reach_refl. }
    split.
    - split; [apply (set_kids_wf (hp d) (env d x) (env d y) l W (E x) (E y) Inc)|]. split; [exact E|exact B].
    - destruct (mem y sd) eqn:My.
      + cbn [agree]. repeat split.
        * intros z Hz t R. destruct (Rs z t R) as [R'|[_ R']]; [apply (A1 z Hz _ R')|apply (A1 y My _ R')].
        * exact A2.
        * intros w z Hw Hz Ne R. apply mem_remove in Hw. destruct Hw as [Hw Nwy].
          destruct (Rs z _ R) as [R'|[_ R']]; [apply (A3 w z Hw Hz Ne R')|].
          apply (A3 w y Hw My); auto.
      + destruct (mem x iso) eqn:Mx.
        * cbn [agree]. repeat split.
          -- intros z Hz t R. apply mem_remove in Hz. destruct Hz as [Hz Nz].
             destruct (Rs z t R) as [R'|[R' _]]; [apply (A1 z Hz _ R')|]. exfalso. apply (A3 x z Mx Hz Nz R').
          -- exact A2.
          -- intros w z Hw Hz Ne R. apply mem_remove in Hz. destruct Hz as [Hz Nz].
             destruct (Rs z _ R) as [R'|[R' _]]; [apply (A3 w z Hw Hz Ne R')|]. apply (A3 x z Mx Hz Nz R').
        * cbn [agree]. repeat split.
          -- intros z Hz. discriminate.
          -- exact A2.
          -- intros w z _ Hz. discriminate.
  Qed.

  Theorem check_sound :
    (forall d st r, step base d st r -> forall fuel s s',
        check retok pinned fuel st s = Some s' -> wfd base d -> agree base s d -> goodr base retok s' r) /\
    (forall d l r, steps base d l r -> forall fuel s s',
        checks_with (check retok pinned fuel) l s = Some s' -> wfd base d -> agree base s d -> goodr base retok s' r).
  Proof.
    apply step_steps_ind.
    - (* alias *) intros d x y fuel s s' Hc Wd A. destruct s as [|sd ss iso]; [destruct A|]. destruct fuel as [|f]; [discriminate|].
      cbn in Hc. destruct (mem x pinned); [discriminate|]. inversion Hc; subst. apply sound_alias; auto.
    - (* from *) intros d x ys o h' Ex Ho fuel s s' Hc Wd A. destruct s as [|sd ss iso]; [destruct A|]. destruct fuel as [|f]; [discriminate|].
      cbn in Hc. destruct (mem x pinned); [discriminate|]. inversion Hc; subst. apply sound_from; auto.
    - (* new *) intros d x ys o h' Ex Ho fuel s s' Hc Wd A. destruct s as [|sd ss iso]; [destruct A|]. destruct fuel as [|f]; [discriminate|].
      cbn in Hc. destruct (mem x pinned); [discriminate|]. inversion Hc; subst. apply sound_new; auto.
    - (* mut bad *) intros d xs t [x [Ix R]] Lt fuel s s' Hc Wd A. destruct s as [|sd ss iso]; [destruct A|]. destruct fuel as [|f]; [discriminate|].
      cbn in Hc. destruct (forallb (fun x => mem x sd) xs) eqn:All; [|discriminate].
      destruct A as [A1 _]. pose proof (A1 x (forallb_mem _ _ All x Ix) t R). cbn. lia.
    - (* mut ok *) intros d xs h' Mx fuel s s' Hc Wd A. destruct s as [|sd ss iso]; [destruct A|]. destruct fuel as [|f]; [discriminate|].
      cbn in Hc. destruct (forallb (fun x => mem x sd) xs) eqn:All; [|discriminate]. inversion Hc; subst. apply sound_mut; auto.
    - (* store bad *) intros d x y Lt fuel s s' Hc Wd A. destruct s as [|sd ss iso]; [destruct A|]. destruct fuel as [|f]; [discriminate|].
      cbn in Hc. destruct (mem x ss) eqn:Mx; [|discriminate]. destruct A as [_ [A2 _]]. pose proof (A2 x Mx). cbn. lia.
    - (* store ok *) intros d x y l Ge Inc fuel s s' Hc Wd A. destruct s as [|sd ss iso]; [destruct A|]. destruct fuel as [|f]; [discriminate|].
      cbn in Hc. destruct (mem x ss) eqn:Mx; [|discriminate]. inversion Hc; subst. apply sound_store; auto.
    - (* self *) intros d fuel s s' Hc Wd A. destruct s; [destruct A|]. destruct fuel; discriminate.
    - (* impure *) intros d fuel s s' Hc Wd A. destruct s; [destruct A|]. destruct fuel; discriminate.
    - (* if a *) intros d a b r _ IH fuel s s' Hc Wd A. destruct s as [|sd ss iso]; [destruct A|]. destruct fuel as [|f]; [discriminate|].
      cbn in Hc. destruct (checks_with (check retok pinned f) a (Live sd ss iso)) as [sa|] eqn:Ea; [|discriminate].
      destruct (checks_with (check retok pinned f) b (Live sd ss iso)) as [sb|]; [|discriminate]. inversion Hc; subst.
      eapply goodr_le; [apply meet_le_l|]. eapply IH; eauto.
    - (* if b *) intros d a b r _ IH fuel s s' Hc Wd A. destruct s as [|sd ss iso]; [destruct A|]. destruct fuel as [|f]; [discriminate|].
      cbn in Hc. destruct (checks_with (check retok pinned f) a (Live sd ss iso)) as [sa|]; [|discriminate].
      destruct (checks_with (check retok pinned f) b (Live sd ss iso)) as [sb|] eqn:Eb; [|discriminate]. inversion Hc; subst.
      eapply goodr_le; [apply meet_le_r|]. eapply IH; eauto.
    - (* loop 0 *) intros d body fuel s s' Hc Wd A. destruct s as [|sd ss iso]; [destruct A|]. destruct fuel as [|f]; [discriminate|].
      change (iter_with (check retok pinned f) body (S (size (Live sd ss iso))) (Live sd ss iso) = Some s') in Hc.
      apply iter_spec in Hc. destruct Hc as [Sub _]. split; [exact Wd|]. exact (agree_le base _ _ _ Sub A).
    - (* loop S *) intros d body d' r _ IHbody _ IHloop fuel s s' Hc Wd A. destruct s as [|sd ss iso]; [destruct A|]. destruct fuel as [|f]; [discriminate|].
      change (iter_with (check retok pinned f) body (S (size (Live sd ss iso))) (Live sd ss iso) = Some s') in Hc.
      pose proof (iter_spec _ _ _ _ _ Hc) as [Sub [out [Eo Sb]]].
      assert (Ainv : agree base s' d) by exact (agree_le base _ _ _ Sub A).
      destruct (IHbody f s' out Eo Wd Ainv) as [Wd' G].
      assert (Ainv' : agree base s' d') by exact (agree_le base _ _ _ Sb G).
      destruct s' as [|sd' ss' iso']; [destruct Ainv|].
      apply (IHloop (S f) (Live sd' ss' iso') (Live sd' ss' iso')); auto.
      change (iter_with (check retok pinned f) body (S (size (Live sd' ss' iso'))) (Live sd' ss' iso') = Some (Live sd' ss' iso')).
      eapply iter_stable; eauto.
    - (* loop stop *) intros d body r _ IHbody Hn fuel s s' Hc Wd A. destruct s as [|sd ss iso]; [destruct A|]. destruct fuel as [|f]; [discriminate|].
      change (iter_with (check retok pinned f) body (S (size (Live sd ss iso))) (Live sd ss iso) = Some s') in Hc.
      pose proof (iter_spec _ _ _ _ _ Hc) as [Sub [out [Eo Sb]]].
      assert (Ainv : agree base s' d) by exact (agree_le base _ _ _ Sub A).
      pose proof (IHbody f s' out Eo Wd Ainv) as G. destruct r as [d'| |]; [exfalso; eapply Hn; eauto|exact G|exact G].
    - (* return *) intros d rs fuel s s' Hc Wd A. destruct s as [|sd ss iso]; [destruct A|]. destruct fuel as [|f]; [discriminate|].
      cbn in Hc. destruct (retok rs (Live sd ss iso)) eqn:Ok; [|discriminate]. cbn. exists (Live sd ss iso). auto.
    - (* nil *) intros d fuel s s' Hc Wd A. cbn in Hc. inversion Hc; subst. split; auto.
    - (* cons ok *) intros d st d' rest r _ IH1 _ IH2 fuel s s' Hc Wd A. cbn in Hc.
      destruct (check retok pinned fuel st s) as [s1|] eqn:E1; [|discriminate].
      destruct (IH1 fuel s s1 E1 Wd A) as [Wd' G]. apply (IH2 fuel s1 s' Hc Wd' G).
    - (* cons stop *) intros d st rest r _ IH1 Hn fuel s s' Hc Wd A. cbn in Hc.
      destruct (check retok pinned fuel st s) as [s1|] eqn:E1; [|discriminate].
      pose proof (IH1 fuel s s1 E1 Wd A) as G. destruct r as [d'| |]; [exfalso; eapply Hn; eauto|exact G|exact G].
  Qed.
End Sound.

(* ------------------------------------------------------------------ corollaries *)
Theorem safe_sound p : safe p = true ->
  forall base d r, wfd base d -> steps base d p r -> r <> Violation.
Proof.
  unfold safe. intros S base d r Wd St.
  destruct (checks any_ret [] (fuel_of p) p (Live [] [] [])) as [s'|] eqn:E; [|discriminate].
  destruct (check_sound base any_ret []) as [_ H].
  assert (A : agree base (Live [] [] []) d) by (cbn; repeat split; intros; discriminate).
  pose proof (H d p r St _ _ _ E Wd A) as G. intros ->. exact G.
Qed.

Definition sfresh (base : nat) (d : dstate) (x : var) : Prop := base <= env d x.

Lemma agree_params base m t d :
  (forall x, In x m -> dfresh base d x) -> (forall x, In x t -> sfresh base d x) -> agree base (Live m (m ++ t) []) d.
Proof.
  intros H Ht. cbn. repeat split.
  - intros x Hx. apply H, mem_spec, Hx.
  - intros x Hx. apply mem_spec, in_app_or in Hx. destruct Hx as [Hx|Hx].
    + apply (H x Hx). apply reach_refl.
    + apply Ht, Hx.
  - intros x z Hx. discriminate.
Qed.

Lemma all_deep_spec base xs s d : all_deep xs s = true -> agree base s d -> forall x, In x xs -> dfresh base d x.
Proof.
  intros H A x Ix. destruct s as [|sd ss iso]; [destruct A|]. unfold all_deep in H. rewrite forallb_forall in H.
  destruct A as [A1 _]. apply A1. apply (H x Ix).
Qed.

Lemma leaves_ok_nth p m t rets : forall k0 k S, leaves_ok p m t k0 rets = true -> nth_error rets k = Some (Some S) ->
  check_from (ret_leaf m (k0 + k)) (m ++ t) (m ++ S) t p = true.
Proof.
  induction rets as [|r rest IH]; intros k0 k S H N; [destruct k; discriminate|].
  destruct k as [|k].
  - cbn in N. inversion N; subst. cbn in H. apply andb_true_iff in H. rewrite Nat.add_0_r. tauto.
  - cbn in N. rewrite <- Nat.add_succ_comm. apply IH; auto.
    destruct r; cbn in H; [apply andb_true_iff in H; tauto|exact H].
Qed.

(* what a justified summary guarantees of every execution of the callee *)
Theorem justified_sound p sm : justified p sm = true ->
  forall base d r, wfd base d ->
    (forall x, In x (s_mut sm) -> dfresh base d x) -> (forall x, In x (s_top sm) -> sfresh base d x) ->
    steps base d p r ->
    (* (1) effects *)
    r <> Violation /\
    (forall d' rs, r = Ret d' rs -> forall x, In x (s_mut sm) -> dfresh base d' x) /\
    (* (2) stored sources *)
    ((forall x, In x (s_top sm ++ s_src sm) -> dfresh base d x) ->
       forall d' rs, r = Ret d' rs -> forall x, In x (s_mut sm ++ s_top sm) -> dfresh base d' x) /\
    (* (3) leaves *)
    (forall k S, nth_error (s_rets sm) k = Some (Some S) -> (forall x, In x S -> dfresh base d x) ->
       forall d' rs, r = Ret d' rs -> rs = [] \/ exists v, nth_error rs k = Some v /\ dfresh base d' v).
Proof.
  unfold justified. intros J base d r Wd Hm Ht St. apply andb_true_iff in J. destruct J as [J J3].
  apply andb_true_iff in J. destruct J as [J1 J2].
  split; [|split; [|split]].
  - unfold check_from in J1. destruct (checks _ _ _ p _) as [s'|] eqn:E; [|discriminate].
    destruct (check_sound base (ret_deep (s_mut sm)) (s_mut sm ++ s_top sm)) as [_ H].
    pose proof (H d p r St _ _ _ E Wd (agree_params base _ _ d Hm Ht)) as G. intros ->. exact G.
  - intros d' rs -> x Ix. unfold check_from in J1. destruct (checks _ _ _ p _) as [s'|] eqn:E; [|discriminate].
    destruct (check_sound base (ret_deep (s_mut sm)) (s_mut sm ++ s_top sm)) as [_ H].
    destruct (H d p _ St _ _ _ E Wd (agree_params base _ _ d Hm Ht)) as [sr [Ok [_ A]]].
    eapply all_deep_spec; eauto.
  - intros Hs d' rs -> x Ix. unfold check_from in J2. destruct (checks _ _ _ p _) as [s'|] eqn:E; [|discriminate].
    destruct (check_sound base (ret_deep (s_mut sm ++ s_top sm)) (s_mut sm ++ s_top sm)) as [_ H].
    assert (A0 : agree base (Live (s_mut sm ++ s_top sm ++ s_src sm) ((s_mut sm ++ s_top sm ++ s_src sm) ++ []) []) d).
    { apply agree_params; [|intros y []]. intros y Iy. apply in_app_or in Iy. destruct Iy; auto. }
    destruct (H d p _ St _ _ _ E Wd A0) as [sr [Ok [_ A]]].
    eapply all_deep_spec; eauto.
  - intros k S N HS d' rs ->. pose proof (leaves_ok_nth p _ _ _ 0 k S J3 N) as C. cbn in C.
    unfold check_from in C. destruct (checks _ _ _ p _) as [s'|] eqn:E; [|discriminate].
    destruct (check_sound base (ret_leaf (s_mut sm) k) (s_mut sm ++ s_top sm)) as [_ H].
    assert (A0 : agree base (Live (s_mut sm ++ S) ((s_mut sm ++ S) ++ s_top sm) []) d).
    { apply agree_params; auto. intros x Ix. apply in_app_or in Ix. destruct Ix; auto. }
    destruct (H d p _ St _ _ _ E Wd A0) as [sr [Ok [_ A]]].
    unfold ret_leaf in Ok. apply andb_true_iff in Ok. destruct Ok as [_ Ok].
    destruct rs as [|r0 rs']; [left; reflexivity|right].
    destruct (nth_error (r0 :: rs') k) as [v|]; [|discriminate]. exists v. split; [reflexivity|].
    destruct sr as [|sd ss iso]; [destruct A|]. destruct A as [A1 _]. apply A1. exact Ok.
Qed.

(* ------------------------------------------------------------------ non-vacuity *)
(* heap: object 0 = the input state, object 1 = an entity it holds; base = 2 *)
Definition h0 : heap := {| next := 2; kids := fun o => match o with 0 => [1] | _ => [] end |}.
Definition d0 : dstate := {| env := fun _ => 0; hp := h0 |}.
Definition h1 : heap := {| next := 4; kids := fun o => match o with 0 => [1] | 2 => [3] | _ => [] end |}.

(* state.entity.elapse(t) on the INPUT: rejected by the checker, and the semantics can indeed go wrong *)
Definition prog_bad : list stmt := [Bind 1 (SFrom [0]); Mut [1]; Return [0]].
(* state = state.deepcopy(); state.entity.elapse(t); return state *)
Definition prog_good : list stmt := [Bind 0 (SNew []); Bind 1 (SFrom [0]); Mut [1]; Return [0]].

Lemma wfd_d0 : wfd 2 d0.
Proof.
  split; [|split; cbn; auto].
  intros o c I. cbn in *. destruct o as [|[|o]]; cbn in I; try contradiction. destruct I as [<-|[]]. lia.
Qed.

Example bad_rejected : safe prog_bad = false.
Proof. reflexivity. Qed.
Example good_accepted : safe prog_good = true.
Proof. reflexivity. Qed.

Example bad_can_go_wrong : steps 2 d0 prog_bad Violation.
Proof.
  eapply ss_cons_ok.
  - apply (st_bind_from 2 d0 1 [0] 1 h0).
    + split; [cbn; lia|]. split; [auto|]. intros o c Ho I. cbn in *. destruct o as [|[|o]]; try lia. contradiction.
    + right. exists 0. split; [left; reflexivity|]. cbn. eapply reach_step; [|apply reach_refl]. cbn. auto.
  - apply ss_cons_stop; [|discriminate]. apply (st_mut_bad 2 _ [1] 1); [|lia].
    exists 1. split; [left; reflexivity|]. cbn. apply reach_refl.
Qed.

Example good_runs : exists d' rs, steps 2 d0 prog_good (Ret d' rs).
Proof.
  eexists. eexists. eapply ss_cons_ok.
  - apply (st_bind_new 2 d0 0 [] 2 h1); [|cbn; lia].
    split; [cbn; lia|]. split.
    + intros o Ho. cbn in *. destruct o as [|[|o]]; try lia; reflexivity.
    + intros o c Ho I. cbn in *. destruct o as [|[|[|[|o]]]]; try lia; cbn in I; try contradiction.
      destruct I as [<-|[]]. lia.
  - eapply ss_cons_ok.
    + apply (st_bind_from 2 _ 1 [0] 3 h1);
        [|right; exists 0; split; [left; reflexivity|]; cbn; eapply reach_step; [|apply reach_refl]; cbn; auto].
      split; [cbn; lia|]. split; [auto|]. intros o c Ho I. cbn in *. destruct o as [|[|[|[|o]]]]; try lia; contradiction.
    + eapply ss_cons_ok.
      * apply (st_mut_ok 2 _ [1] h1). split; [cbn; lia|]. split; [intros; left; reflexivity|].
        intros o c Ho I. cbn in *. destruct o as [|[|[|[|o]]]]; try lia; contradiction.
      * apply ss_cons_stop; [apply st_ret|discriminate].
Qed.
