(* C19 (real targets) -- get_damage_factor of every damage logic depends on a stat block only through the VALUES of its
   fields (fieldwise == blocks give == results).  About gen/CoreQ.v alone. *)
From Coq Require Import List ZArith QArith Qminmax Bool Lqa Setoid Morphisms.
From V.Model Require Import TargetsLogic.
From V.Proofs Require Import DamageMono StatLaws.
From G Require Import CoreQ.
Import ListNotations.
Open Scope Q_scope.

#[local] Instance Qmin_proper : Proper (Qeq ==> Qeq ==> Qeq) Qmin.
Proof. intros a a' Ha b b' Hb. apply Q.min_compat; assumption. Qed.

(* get_damage_factor of every logic depends on the block only through the values of its fields *)
Lemma logic_df_proper L a b armor : Stat_seq a b -> logic_df L a armor == logic_df L b armor.
Proof.
  unfold Stat_seq. intros H. repeat match goal with H : _ /\ _ |- _ => destruct H end.
  destruct L; cbn [logic_df];
  [ unfold STRBasedDamageLogic_get_damage_factor; unf_STR
  | unfold INTBasedDamageLogic_get_damage_factor; unf_INT
  | unfold DEXBasedDamageLogic_get_damage_factor; unf_DEX
  | unfold LUKBasedDamageLogic_get_damage_factor; unf_LUK
  | unfold LUKBasedDualSubDamageLogic_get_damage_factor; unf_Dual ];
  repeat match goal with H : _ == _ |- _ => rewrite H; clear H end; reflexivity.
Qed.

