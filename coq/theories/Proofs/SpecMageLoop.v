(* C09 for JupyterThunder and ThunderBreak: their elapse runs the Periodic resolve loop itself,
   breaks when the tick count reaches a bound B (JupyterThunder: count >= max_count, so B =
   max_count and the tick reaching the cap emits nothing; ThunderBreak: count > max_count, so
   B = max_count + 1), threads the bound frost stack through the emitted damage events, and
   disables the schedule once count >= max_count.

   Both loops are instances of one generic loop `gloop B emit`; it is characterised by the plain
   schedule R = P.elapse q t:
     the events are those of the counts cnt q + 1 .. min (cnt R) (B - 1), in order (gevs);
     cnt R <  max_count: the written-back schedule is R;
     cnt R >= max_count: the written-back schedule is disabled.
   Chunk additivity follows from PP.elapse_additive. *)
From Coq Require Import ZArith List Bool Lia.
From V.Model Require Import Comp SpecMage.
From V.Proofs Require Import CompChunk CompChunkHL SpecMageReject SpecMageChunk.
From V.Proofs Require EPeriodicP.
Import ListNotations.
Open Scope Z_scope.

Arguments P.elapse : simpl never.
Arguments ticks : simpl never.
Arguments P.enabled : simpl never.

(* one elapse of the class: loop, then disable at the threshold *)
Definition gfin (mx : Z) (q : P.P) : P.P := cap_disable mx q.
Lemma gfin_wf mx q : P.wf q -> P.wf (gfin mx q).
Proof. unfold gfin, cap_disable. destruct (mx <=? P.cnt q); auto. Qed.
Lemma gfin_inv mx q : mx <= P.cnt (gfin mx q) -> P.tl (gfin mx q) <= 0.
Proof. unfold gfin, cap_disable. destruct (mx <=? P.cnt q) eqn:E; cbn; lia. Qed.
Lemma gfin_tl mx q : 0 <= P.tl q -> 0 <= P.tl (gfin mx q).
Proof. unfold gfin, cap_disable. destruct (mx <=? P.cnt q); cbn; lia. Qed.
Lemma gfin_interval mx q : P.interval (gfin mx q) = P.interval q.
Proof. unfold gfin, cap_disable. destruct (mx <=? P.cnt q); reflexivity. Qed.


Section Generic.
Variable B : Z.
Variable emit : Z -> stk -> stk * xev.      (* count of the tick, frost stack -> new frost stack, event *)

Fixpoint gloop (fuel : nat) (q : P.P) (t prev : Z) (f : stk) (acc : list xev) : option (P.P * stk * list xev) :=
  if t <=? 0 then Some (q, f, acc) else
  match fuel with
  | O => None
  | S fl => let '(q', t') := P.step q t in
            if B <=? P.cnt q' then Some (q', f, acc)
            else if P.cnt q' =? prev then gloop fl q' t' prev f acc
            else let '(f', e) := emit (P.cnt q') f in gloop fl q' t' (P.cnt q') f' (acc ++ [e])
  end.

(* the events of the counts c+1 .. c+n *)
Fixpoint gevs (n : nat) (c : Z) (f : stk) : list xev * stk :=
  match n with
  | O => ([], f)
  | S k => let '(f', e) := emit (c + 1) f in let '(es, f'') := gevs k (c + 1) f' in (e :: es, f'')
  end.

Lemma gevs_add : forall n1 n2 c f,
  gevs (n1 + n2) c f =
  let '(e1, f1) := gevs n1 c f in let '(e2, f2) := gevs n2 (c + Z.of_nat n1) f1 in (e1 ++ e2, f2).
Proof.
  induction n1 as [|n1 IH]; intros n2 c f.
  - cbn [gevs Nat.add]. rewrite Z.add_0_r. destruct (gevs n2 c f); reflexivity.
  - cbn [gevs Nat.add]. destruct (emit (c + 1) f) as [f' e]. rewrite IH.
    destruct (gevs n1 (c + 1) f') as [e1 f1].
    replace (c + 1 + Z.of_nat n1) with (c + Z.of_nat (S n1)) by lia.
    destruct (gevs n2 (c + Z.of_nat (S n1)) f1) as [e2 f2]. reflexivity.
Qed.

Lemma gloop_S fl q t prev f acc :
  gloop (S fl) q t prev f acc =
  if t <=? 0 then Some (q, f, acc) else
  let '(q', t') := P.step q t in
  if B <=? P.cnt q' then Some (q', f, acc)
  else if P.cnt q' =? prev then gloop fl q' t' prev f acc
  else let '(f', e) := emit (P.cnt q') f in gloop fl q' t' (P.cnt q') f' (acc ++ [e]).
Proof. reflexivity. Qed.
Lemma gloop_O q t prev f acc : gloop O q t prev f acc = if t <=? 0 then Some (q, f, acc) else None.
Proof. reflexivity. Qed.
Arguments gloop : simpl never.

Lemma gloop_wf : forall fuel q t prev f acc q' f' es,
  P.wf q -> gloop fuel q t prev f acc = Some (q', f', es) -> P.wf q'.
Proof.
  induction fuel as [|fl IH]; intros q t prev f acc q' f' es W H.
  - rewrite gloop_O in H. destruct (t <=? 0); [|discriminate]. injection H as <- _ _. exact W.
  - rewrite gloop_S in H. destruct (t <=? 0) eqn:Et; [injection H as <- _ _; exact W|].
    pose proof (PP.step_wf q t W ltac:(lia)) as W'. destruct (P.step q t) as [q1 t1]. cbn [fst] in W'.
    destruct (B <=? P.cnt q1); [injection H as <- _ _; exact W'|].
    destruct (P.cnt q1 =? prev); [eapply IH; eauto|].
    destruct (emit (P.cnt q1) f) as [f1 e]. eapply IH; eauto.
Qed.

Lemma gloop_some : forall fuel q t prev f acc,
  P.wf q -> (Z.to_nat t < fuel)%nat -> gloop fuel q t prev f acc <> None.
Proof.
  induction fuel as [|fl IH]; intros q t prev f acc W F; [lia|].
  rewrite gloop_S. destruct (t <=? 0) eqn:Et; [discriminate|].
  assert (Ht : 0 < t) by lia.
  pose proof (PP.step_wf q t W Ht) as W'. pose proof (PP.step_time q t W Ht) as T.
  destruct (P.step q t) as [q1 t1]. cbn [fst snd] in W', T.
  destruct (B <=? P.cnt q1); [discriminate|].
  destruct (P.cnt q1 =? prev); [apply IH; auto; lia|].
  destruct (emit (P.cnt q1) f) as [f1 e]. apply IH; auto; lia.
Qed.

(* (1) the bound is not reached: the loop is the plain schedule *)
Lemma gloop_nocap : forall fuel q t f acc,
  P.wf q -> (Z.to_nat t < fuel)%nat -> P.cnt (P.run fuel q t) < B ->
  gloop fuel q t (P.cnt q) f acc
  = let '(es, f') := gevs (Z.to_nat (P.cnt (P.run fuel q t) - P.cnt q)) (P.cnt q) f in
    Some (P.run fuel q t, f', acc ++ es).
Proof.
  induction fuel as [|fl IH]; intros q t f acc W F C; [lia|].
  rewrite gloop_S. cbn [P.run] in *. destruct (t <=? 0) eqn:Et.
  { rewrite Z.sub_diag. cbn. rewrite app_nil_r. reflexivity. }
  assert (Ht : 0 < t) by lia.
  pose proof (PP.step_wf q t W Ht) as W'. pose proof (PP.step_time q t W Ht) as T.
  pose proof (step_cnt q t) as C1. pose proof (step_cnt_le q t) as C2.
  destruct (P.step q t) as [q1 t1]. cbn [fst snd] in *.
  pose proof (run_cnt fl q1 t1) as C3.
  destruct (B <=? P.cnt q1) eqn:E1; [lia|].
  destruct (P.cnt q1 =? P.cnt q) eqn:E2.
  - apply Z.eqb_eq in E2. rewrite <- E2. rewrite IH; auto; try lia.
  - apply Z.eqb_neq in E2. assert (Eq : P.cnt q1 = P.cnt q + 1) by lia.
    replace (Z.to_nat (P.cnt (P.run fl q1 t1) - P.cnt q)) with (S (Z.to_nat (P.cnt (P.run fl q1 t1) - P.cnt q1))) by lia.
    cbn [gevs]. rewrite <- Eq. destruct (emit (P.cnt q1) f) as [f1 e]. rewrite IH; auto; try lia.
    destruct (gevs _ (P.cnt q1) f1) as [es f2]. rewrite <- app_assoc. reflexivity.
Qed.

(* (2) the bound is reached: the loop stops right after the tick that reaches B *)
Lemma gloop_cap : forall fuel q t f acc,
  P.cnt q < B -> B <= P.cnt (P.run fuel q t) ->
  exists q', gloop fuel q t (P.cnt q) f acc
             = (let '(es, f') := gevs (Z.to_nat (B - 1 - P.cnt q)) (P.cnt q) f in Some (q', f', acc ++ es))
          /\ P.cnt q' = B /\ P.interval q' = P.interval q.
Proof.
  induction fuel as [|fl IH]; intros q t f acc C0 C; cbn [P.run] in C; [lia|].
  rewrite gloop_S. destruct (t <=? 0) eqn:Et; [lia|].
  pose proof (step_cnt q t) as C1. pose proof (step_cnt_le q t) as C2. pose proof (step_interval q t) as I1.
  destruct (P.step q t) as [q1 t1]. cbn [fst snd] in *.
  destruct (B <=? P.cnt q1) eqn:E1.
  - exists q1. split; [|split; [lia|exact I1]].
    replace (Z.to_nat (B - 1 - P.cnt q)) with O by lia. cbn. rewrite app_nil_r. reflexivity.
  - destruct (P.cnt q1 =? P.cnt q) eqn:E2.
    + apply Z.eqb_eq in E2. rewrite <- E2.
      destruct (IH q1 t1 f acc ltac:(lia) C) as (q' & H & Hc & Hi). exists q'. split; [exact H|]. split; [exact Hc|congruence].
    + apply Z.eqb_neq in E2. assert (Eq : P.cnt q1 = P.cnt q + 1) by lia.
      replace (Z.to_nat (B - 1 - P.cnt q)) with (S (Z.to_nat (B - 1 - P.cnt q1))) by lia.
      cbn [gevs]. rewrite <- Eq. destruct (emit (P.cnt q1) f) as [f1 e].
      destruct (IH q1 t1 f1 (acc ++ [e]) ltac:(lia) C) as (q' & H & Hc & Hi).
      exists q'. split; [|split; [exact Hc|congruence]]. rewrite H.
      destruct (gevs _ (P.cnt q1) f1) as [es f2]. rewrite <- app_assoc. reflexivity.
Qed.

(* (3) a schedule that is over: nothing happens *)
Lemma gloop_dead fl q t f acc : P.tl q <= 0 -> gloop (S fl) q t (P.cnt q) f acc = Some (q, f, acc).
Proof.
  intros D. rewrite gloop_S. destruct (t <=? 0); [reflexivity|].
  unfold P.step. destruct (P.tl q <=? 0) eqn:E; [|lia].
  destruct (B <=? P.cnt q); [reflexivity|]. rewrite Z.eqb_refl.
  destruct fl; [rewrite gloop_O|rewrite gloop_S]; reflexivity.
Qed.

(* the three cases together; mx is the disabling threshold, mx <= B <= mx + 1 *)
Lemma gloop_char mx q t f :
  (B = mx \/ B = mx + 1) -> P.wf q -> 0 <= t -> (mx <= P.cnt q -> P.tl q <= 0) ->
  let R := P.elapse q t in
  let n := Z.to_nat (Z.min (P.cnt R) (B - 1) - P.cnt q) in
  exists q1, gloop (P.fuel_of t) q t (P.cnt q) f [] = Some (q1, snd (gevs n (P.cnt q) f), fst (gevs n (P.cnt q) f))
    /\ P.wf q1 /\ P.interval q1 = P.interval q
    /\ ((P.cnt R < mx /\ q1 = R) \/ (mx <= P.cnt R /\ mx <= P.cnt q1)).
Proof.
  intros HB W Ht D R n.
  assert (X : exists q1, gloop (P.fuel_of t) q t (P.cnt q) f [] = Some (q1, snd (gevs n (P.cnt q) f), fst (gevs n (P.cnt q) f))
              /\ P.interval q1 = P.interval q /\ ((P.cnt R < mx /\ q1 = R) \/ (mx <= P.cnt R /\ mx <= P.cnt q1))).
  { destruct (Z_le_gt_dec (P.tl q) 0) as [Dd|Lv].
    - (* over *)
      assert (ER : R = q) by (apply elapse_dead; exact Dd).
      exists q. unfold P.fuel_of. rewrite gloop_dead by exact Dd.
      assert (n = O) by (unfold n; rewrite ER; lia). rewrite H. cbn. split; [reflexivity|]. split; [reflexivity|].
      rewrite ER. destruct (Z_lt_le_dec (P.cnt q) mx); [left|right]; auto.
    - assert (C0 : P.cnt q < B) by lia.
      destruct (Z_lt_le_dec (P.cnt R) B) as [C|C].
      + exists R. unfold R, P.elapse in *. rewrite (gloop_nocap (P.fuel_of t) q t f [] W); [| unfold P.fuel_of; lia | exact C].
        replace n with (Z.to_nat (P.cnt (P.run (P.fuel_of t) q t) - P.cnt q)) by (unfold n, R, P.elapse; lia).
        destruct (gevs _ (P.cnt q) f) as [es f']. cbn [fst snd]. split; [reflexivity|]. split; [apply run_interval|].
        destruct (Z_lt_le_dec (P.cnt (P.run (P.fuel_of t) q t)) mx); [left|right]; auto.
      + unfold R, P.elapse in C. destruct (gloop_cap (P.fuel_of t) q t f [] C0 C) as (q' & H & Hc & Hi).
        exists q'. rewrite H. replace n with (Z.to_nat (B - 1 - P.cnt q)) by (unfold n, R, P.elapse; lia).
        destruct (gevs _ (P.cnt q) f) as [es f']. cbn [fst snd]. split; [reflexivity|]. split; [exact Hi|]. right. unfold R, P.elapse. lia. }
  destruct X as (q1 & H & Hi & K). exists q1. split; [exact H|]. split; [|split; [exact Hi|exact K]].
  eapply gloop_wf; eauto.
Qed.

(* chunk additivity of loop + disable, for the schedule, the frost stack and the events *)
Lemma gchunk mx q a b f q1 f1 e1 q2 f2 e2 q3 f3 e3 :
  (B = mx \/ B = mx + 1) -> P.wf q -> 0 <= a -> 0 <= b -> (mx <= P.cnt q -> P.tl q <= 0) ->
  gloop (P.fuel_of a) q a (P.cnt q) f [] = Some (q1, f1, e1) ->
  gloop (P.fuel_of b) (gfin mx q1) b (P.cnt (gfin mx q1)) f1 [] = Some (q2, f2, e2) ->
  gloop (P.fuel_of (a + b)) q (a + b) (P.cnt q) f [] = Some (q3, f3, e3) ->
  dnorm (gfin mx q2) = dnorm (gfin mx q3) /\ f2 = f3 /\ e1 ++ e2 = e3.
Proof.
  intros HB W Ha Hb D L1 L2 L3.
  destruct (gloop_char mx q a f HB W Ha D) as (q1' & G1 & W1 & I1 & K1). rewrite G1 in L1. injection L1 as -> <- <-.
  destruct (gloop_char mx q (a + b) f HB W ltac:(lia) D) as (q3' & G3 & W3 & I3 & K3). rewrite G3 in L3. injection L3 as -> <- <-.
  pose proof (gfin_wf mx q1 W1) as Wf1. pose proof (gfin_inv mx q1) as Df1.
  destruct (gloop_char mx (gfin mx q1) b (snd (gevs (Z.to_nat (Z.min (P.cnt (P.elapse q a)) (B - 1) - P.cnt q)) (P.cnt q) f))
              HB Wf1 Hb Df1) as (q2' & G2 & W2 & I2 & K2).
  rewrite G2 in L2. injection L2 as -> <- <-.
  pose proof (PP.elapse_additive q a b W Ha Hb) as ADD.
  pose proof (obs_eq_norm _ _ ADD) as NRM. apply norm_dnorm in NRM.
  assert (CNT : P.cnt (P.elapse (P.elapse q a) b) = P.cnt (P.elapse q (a + b))).
  { destruct ADD as [E _]. unfold P.obs in E. injection E as _ E _. exact E. }
  pose proof (elapse_cnt q a) as CA. pose proof (elapse_cnt (P.elapse q a) b) as CB.
  rewrite gfin_interval in I2.
  set (n1 := Z.to_nat (Z.min (P.cnt (P.elapse q a)) (B - 1) - P.cnt q)) in *.
  set (n3 := Z.to_nat (Z.min (P.cnt (P.elapse q (a + b))) (B - 1) - P.cnt q)) in *.
  (* events and frost: n1 + n2 = n3 with the second run starting at count cnt q + n1 *)
  assert (EV : forall n2 c2, (n1 + n2 = n3)%nat -> (n2 = O \/ c2 = P.cnt q + Z.of_nat n1) ->
               snd (gevs n2 c2 (snd (gevs n1 (P.cnt q) f))) = snd (gevs n3 (P.cnt q) f) /\
               fst (gevs n1 (P.cnt q) f) ++ fst (gevs n2 c2 (snd (gevs n1 (P.cnt q) f))) = fst (gevs n3 (P.cnt q) f)).
  { intros n2 c2 S [Z0 | Ec].
    - subst n2. rewrite Nat.add_0_r in S. rewrite <- S. cbn. rewrite app_nil_r. split; reflexivity.
    - rewrite <- S, gevs_add, <- Ec. destruct (gevs n1 (P.cnt q) f) as [x1 y1]. cbn [fst snd].
      destruct (gevs n2 c2 y1) as [x2 y2]. split; reflexivity. }
  destruct K1 as [(C1 & E1) | (C1 & M1)].
  - (* the first chunk stays below the threshold *)
    assert (F1 : gfin mx q1 = P.elapse q a).
    { unfold gfin, cap_disable. rewrite E1. destruct (mx <=? P.cnt (P.elapse q a)) eqn:E; [lia|reflexivity]. }
    rewrite F1 in *.
    destruct (EV (Z.to_nat (Z.min (P.cnt (P.elapse (P.elapse q a) b)) (B - 1) - P.cnt (P.elapse q a))) (P.cnt (P.elapse q a)))
      as [EVf EVe]; [unfold n1, n3; lia | right; unfold n1; lia |].
    split; [|split; [exact EVf|exact EVe]].
    destruct K3 as [(C3 & E3) | (C3 & M3)].
    + destruct K2 as [(C2 & E2) | (C2 & M2)]; [|lia]. subst q2 q3.
      unfold gfin, cap_disable.
      destruct (mx <=? P.cnt (P.elapse (P.elapse q a) b)) eqn:X2; [lia|].
      destruct (mx <=? P.cnt (P.elapse q (a + b))) eqn:X3; [lia|]. exact NRM.
    + destruct K2 as [(C2 & E2) | (C2 & M2)]; [lia|].
      unfold gfin, cap_disable.
      destruct (mx <=? P.cnt q2) eqn:X2; [|lia]. destruct (mx <=? P.cnt q3) eqn:X3; [|lia].
      apply dnorm_disable. congruence.
  - (* the threshold is reached in the first chunk: the rest is over *)
    assert (F1 : gfin mx q1 = P.disable q1).
    { unfold gfin, cap_disable. destruct (mx <=? P.cnt q1) eqn:E; [reflexivity|lia]. }
    rewrite F1 in *.
    assert (R2 : P.elapse (P.disable q1) b = P.disable q1) by (apply elapse_dead; cbn; lia).
    rewrite R2 in *. cbn [P.cnt P.disable] in *.
    destruct (EV (Z.to_nat (Z.min (P.cnt q1) (B - 1) - P.cnt q1)) (P.cnt q1)) as [EVf EVe]; [unfold n1, n3; lia | left; lia |].
    split; [|split; [exact EVf|exact EVe]].
    destruct K3 as [(C3 & E3) | (C3 & M3)]; [lia|].
    destruct K2 as [(C2 & E2) | (C2 & M2)]; [lia|].
    unfold gfin, cap_disable.
    destruct (mx <=? P.cnt q2) eqn:X2; [|lia]. destruct (mx <=? P.cnt q3) eqn:X3; [|lia].
    apply dnorm_disable. congruence.
Qed.
End Generic.

Arguments gloop : simpl never.

(* ------------------------------------------------------------ the two classes as instances *)
Definition jt_emit (pd : dh) (c : Z) (f : stk) : stk * xev :=
  let '(f', m) := if (c + 1) mod 5 =? 0 then use_frost f else (f, sk f) in (f', XDealtM (fst pd) (snd pd) m 0).
Definition tb_emit (tbl : list Z) (h shock : Z) (c : Z) (f : stk) : stk * xev :=
  let '(f', m) := use_frost f in (f', XDealtM (nth (Z.to_nat c) tbl 0) h m shock).

Lemma jt_loop_gloop mx pd : forall fuel q t prev f acc,
  jt_loop fuel mx pd q t prev f acc = gloop mx (jt_emit pd) fuel q t prev f acc.
Proof.
  induction fuel as [|fl IH]; intros q t prev f acc.
  - rewrite gloop_O. reflexivity.
  - rewrite gloop_S. cbn [jt_loop]. destruct (t <=? 0); [reflexivity|].
    destruct (P.step q t) as [q1 t1]. destruct (mx <=? P.cnt q1); [reflexivity|].
    destruct (P.cnt q1 =? prev); [apply IH|].
    unfold jt_emit. destruct (if (P.cnt q1 + 1) mod 5 =? 0 then use_frost f else (f, sk f)) as [f' m]. apply IH.
Qed.
Lemma tb_loop_gloop mx tbl h shock : forall fuel q t prev f acc,
  tb_loop fuel mx tbl h shock q t prev f acc = gloop (mx + 1) (tb_emit tbl h shock) fuel q t prev f acc.
Proof.
  induction fuel as [|fl IH]; intros q t prev f acc.
  - rewrite gloop_O. reflexivity.
  - rewrite gloop_S. cbn [tb_loop]. destruct (t <=? 0); [reflexivity|].
    destruct (P.step q t) as [q1 t1].
    replace (mx + 1 <=? P.cnt q1) with (mx <? P.cnt q1) by (destruct (mx <? P.cnt q1) eqn:A; destruct (mx + 1 <=? P.cnt q1) eqn:A'; lia).
    destruct (mx <? P.cnt q1); [reflexivity|].
    rewrite (Z.eqb_sym prev). destruct (P.cnt q1 =? prev); [apply IH|].
    unfold tb_emit. destruct (use_frost f) as [f' m]. apply IH.
Qed.

Definition xcapped (c : xcomp) : bool := match c with JupyterThunder | ThunderBreak => true | _ => false end.

(* the elapse reducer of the two classes through the generic loop *)
Definition cap_B (c : xcomp) (p : xpar) : Z :=
  match c with ThunderBreak => p_maxcount (xp p) + 1 | _ => p_maxcount (xp p) end.
Definition cap_emit (c : xcomp) (p : xpar) (s : xst) : Z -> stk -> stk * xev :=
  match c with
  | ThunderBreak => tb_emit (xp_tbl p) (snd (p_pd1 (xp p))) (b2z (P.enabled (x_shock s)))
  | _ => jt_emit (p_pd1 (xp p))
  end.
Lemma xcapped_elapse c p t s :
  xcapped c = true ->
  xreduce_spec c XElapse p t s =
  match gloop (cap_B c p) (cap_emit c p s) (P.fuel_of t) (u_p1 (x_u s)) t (P.cnt (u_p1 (x_u s))) (x_frost s) [] with
  | None => None
  | Some (q1, f, es) =>
      Some (xset_frost (xset_u s (set_p1 (set_cd (x_u s) (u_cd (x_u s) - t)) (gfin (p_maxcount (xp p)) q1))) f,
            XE (EElapsed t) :: es)
  end.
Proof.
  intros C. destruct c; try discriminate; unfold xreduce_spec; cbn [xreduce cap_B cap_emit];
    rewrite ?jt_loop_gloop, ?tb_loop_gloop; reflexivity.
Qed.

(* the specification never runs out of fuel *)
Lemma xcapped_total c p t s :
  xcapped c = true -> P.wf (u_p1 (x_u s)) -> 0 <= t -> xreduce_spec c XElapse p t s <> None.
Proof.
  intros C W Ht. rewrite xcapped_elapse by exact C.
  pose proof (gloop_some (cap_B c p) (cap_emit c p s) (P.fuel_of t) (u_p1 (x_u s)) t (P.cnt (u_p1 (x_u s))) (x_frost s) [] W) as F.
  destruct (gloop _ _ _ _ _ _ _ _) as [[[q1 f] es]|]; [discriminate|]. exfalso. apply F; [unfold P.fuel_of; lia|reflexivity].
Qed.

Lemma xdealts_elapsed t es : xdealts (XE (EElapsed t) :: es) = xdealts es.
Proof. reflexivity. Qed.

Theorem xchunk_capped c p a b s s1 e1 s2 e2 s3 e3 :
  xcapped c = true -> xwf s -> xinv c p s -> 0 <= a -> 0 <= b ->
  xreduce_spec c XElapse p a s = Some (s1, e1) -> xreduce_spec c XElapse p b s1 = Some (s2, e2) ->
  xreduce_spec c XElapse p (a + b) s = Some (s3, e3) ->
  xnorm s2 = xnorm s3 /\ xdealts (e1 ++ e2) = xdealts e3.
Proof.
  intros C (W & _) I Ha Hb H1 H2 H3.
  assert (I' : 0 < p_maxcount (xp p) /\ (p_maxcount (xp p) <= P.cnt (u_p1 (x_u s)) -> P.tl (u_p1 (x_u s)) <= 0))
    by (destruct c; try discriminate; exact I).
  destruct I' as [M D]. clear I.
  rewrite xcapped_elapse in H1, H2, H3 by exact C.
  set (mx := p_maxcount (xp p)) in *. set (q := u_p1 (x_u s)) in *.
  assert (HB : cap_B c p = mx \/ cap_B c p = mx + 1) by (destruct c; try discriminate; cbn; auto).
  destruct (gloop (cap_B c p) (cap_emit c p s) (P.fuel_of a) q a (P.cnt q) (x_frost s) []) as [[[q1 f1] l1]|] eqn:L1; [|discriminate].
  injection H1 as <- <-.
  cbn [x_u x_frost xset_frost xset_u u_p1 set_p1 set_cd u_cd] in H2.
  assert (EM : cap_emit c p (xset_frost (xset_u s (set_p1 (set_cd (x_u s) (u_cd (x_u s) - a)) (gfin mx q1))) f1) = cap_emit c p s)
    by (destruct c; reflexivity).
  rewrite EM in H2. clear EM.
  destruct (gloop (cap_B c p) (cap_emit c p s) (P.fuel_of b) (gfin mx q1) b (P.cnt (gfin mx q1)) f1 []) as [[[q2 f2] l2]|] eqn:L2; [|discriminate].
  injection H2 as <- <-.
  destruct (gloop (cap_B c p) (cap_emit c p s) (P.fuel_of (a + b)) q (a + b) (P.cnt q) (x_frost s) []) as [[[q3 f3] l3]|] eqn:L3; [|discriminate].
  injection H3 as <- <-.
  destruct (gchunk (cap_B c p) (cap_emit c p s) mx q a b (x_frost s) q1 f1 l1 q2 f2 l2 q3 f3 l3 HB W Ha Hb D L1 L2 L3) as (N & F & E).
  split.
  - apply xst_ext; xsimpl; try reflexivity; [|exact F].
    apply ust_ext; usimpl; rewrite ?N; try reflexivity; lia.
  - change (XE (EElapsed a) :: l1) with ([XE (EElapsed a)] ++ l1). rewrite <- app_assoc, xdealts_app. cbn [xdealts filter xis_dealt app].
    change (filter xis_dealt (l1 ++ XE (EElapsed b) :: l2)) with (xdealts (l1 ++ [XE (EElapsed b)] ++ l2)).
    rewrite !xdealts_app. cbn [xdealts filter xis_dealt app].
    change (filter xis_dealt l1 ++ filter xis_dealt l2 = filter xis_dealt l3) with (xdealts l1 ++ xdealts l2 = xdealts l3).
    rewrite <- xdealts_app, E. reflexivity.
Qed.

(* the invariant: an accepted use establishes it, every reducer of the class keeps it *)
Lemma xinv_preserved c m p t s s' es :
  xcapped c = true -> xinv c p s -> xreduce_spec c m p t s = Some (s', es) -> xinv c p s'.
Proof.
  intros C I H.
  assert (I' : 0 < p_maxcount (xp p) /\ (p_maxcount (xp p) <= P.cnt (u_p1 (x_u s)) -> P.tl (u_p1 (x_u s)) <= 0))
    by (destruct c; try discriminate; exact I).
  cut (0 < p_maxcount (xp p) /\ (p_maxcount (xp p) <= P.cnt (u_p1 (x_u s')) -> P.tl (u_p1 (x_u s')) <= 0)).
  { destruct c; try discriminate; auto. }
  destruct I' as [M D]. split; [exact M|].
  destruct m; try (destruct c; try discriminate C; cbn in H; discriminate H).
  - (* use *)
    assert (U : xreduce_spec c XUse p t s = Some (lift s (use_periodic (xp p) (x_u s)))) by (destruct c; try discriminate; reflexivity).
    rewrite U in H. unfold lift, use_periodic in H. destruct (negb (avail (x_u s))); injection H as <- _; xsimpl; [exact D|].
    unfold P.set_time_left. cbn [P.cnt]. lia.
  - (* elapse *)
    rewrite xcapped_elapse in H by exact C.
    destruct (gloop _ _ _ _ _ _ _ _) as [[[q1 f1] l1]|]; [|discriminate]. injection H as <- _. xsimpl. apply gfin_inv.
Qed.
Lemma xinv_use_established c p t s s' es :
  xcapped c = true -> 0 < p_maxcount (xp p) ->
  xreduce_spec c XUse p t s = Some (s', es) -> xrejected es = false -> xinv c p s'.
Proof.
  intros C M H R.
  assert (U : xreduce_spec c XUse p t s = Some (lift s (use_periodic (xp p) (x_u s)))) by (destruct c; try discriminate; reflexivity).
  rewrite U in H. unfold lift, use_periodic in H.
  cut (0 < p_maxcount (xp p) /\ (p_maxcount (xp p) <= P.cnt (u_p1 (x_u s')) -> P.tl (u_p1 (x_u s')) <= 0)).
  { destruct c; try discriminate; auto. }
  destruct (negb (avail (x_u s))); injection H as <- <-; [discriminate|].
  split; [exact M|]. xsimpl. unfold P.set_time_left. cbn [P.cnt]. lia.
Qed.

(* ------------------------------------------------------------ non-vacuity *)
(* JupyterThunder, interval 10, 100 ticks of life, cap 7, frost 2: elapsing 55 emits the ticks of
   counts 1..5 (count 4 consumes a frost stack: (4+1) mod 5 = 0), the cap is reached at 70 *)
Definition jt_par : xpar :=
  mkXP (mkPar false (0, 0) 0 0 0 100 100 0 [] (7, 1) (0, 0) (0, 0) (0, 0) 0 (0, 0) 0 0 7 0 (0, 0))
       0 false [] 0 0 0 1 1 0 0 0.
Definition jt_st : xst := xset_u x0 (set_p1 (x_u x0) (P.mkP 10 10 100 0)).
Definition st_of (r : option xres) : xst := match r with Some (s, _) => s | None => x0 end.
Definition evs_of (r : option xres) : list xev := match r with Some (_, e) => e | None => [] end.
Example jt_nonvacuous :
  xwf jt_st /\ xinv JupyterThunder jt_par jt_st /\
  let r1 := xreduce_spec JupyterThunder XElapse jt_par 55 jt_st in
  let r2 := xreduce_spec JupyterThunder XElapse jt_par 30 (st_of r1) in
  let r3 := xreduce_spec JupyterThunder XElapse jt_par 85 jt_st in
  evs_of r1 = [XE (EElapsed 55); XDealtM 7 1 2 0; XDealtM 7 1 2 0; XDealtM 7 1 2 0; XDealtM 7 1 2 0; XDealtM 7 1 1 0] /\
  evs_of r2 = [XE (EElapsed 30); XDealtM 7 1 1 0] /\
  evs_of r3 = [XE (EElapsed 85); XDealtM 7 1 2 0; XDealtM 7 1 2 0; XDealtM 7 1 2 0; XDealtM 7 1 2 0; XDealtM 7 1 1 0; XDealtM 7 1 1 0] /\
  xnorm (st_of r2) = xnorm (st_of r3) /\ sk (x_frost (st_of r3)) = 1 /\ P.tl (u_p1 (x_u (st_of r3))) = 0.
Proof.
  split; [|split].
  - unfold xwf, P.wf. cbn. repeat split; try lia. constructor.
  - cbn. lia.
  - vm_compute. repeat split.
Qed.
