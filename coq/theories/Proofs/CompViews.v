(* C10 for the modelled classes: validity never reports a negative remaining time, and a
   skill advertised as usable is accepted when used. *)
From Coq Require Import ZArith List Bool Lia.
From V.Model Require Import Comp.
From V.Proofs Require Import CompReject.
Import ListNotations.
Open Scope Z_scope.

Lemma validity_time_left_nonneg c p s : 0 <= v_time_left (view_validity c p s).
Proof. destruct c; cbn; unfold cd_validity; cbn; lia. Qed.

Lemma running_stack_nonneg_when_off c p s r :
  view_running c p s = Some r -> u_ltl s <= 0 -> r_stack r = None \/ r_stack r = Some 0.
Proof.
  destruct c; cbn; intros H Hl; try discriminate; injection H as <-; cbn; auto.
  right. replace (0 <? u_ltl s) with false by (symmetry; apply Z.ltb_ge; lia). reflexivity.
Qed.

(* valid -> accepted, every class but the key-down one *)
Lemma valid_accepts c p t s s' es :
  c <> KeydownSkill ->
  v_valid (view_validity c p s) = true ->
  reduce_spec c MUse p t s = Some (s', es) -> rejected es = false.
Proof.
  intros Hk V H.
  destruct (match c with ConsumableBuffSkill => true | _ => false end) eqn:Ec.
  - destruct c; try discriminate. cbn in V, H. unfold use_consumable_buff_trait in H. rewrite V in H.
    cbn in H. injection H as <- <-. reflexivity.
  - assert (A : avail s = true).
    { destruct c; try discriminate; try congruence; cbn in V; unfold cd_validity in V; cbn in V;
        try (destruct (p_disable p); [discriminate|]); exact V. }
    clear V. destruct c; try discriminate; try congruence; cbn in H;
      unfold use_simple_attack, use_multiple_damage, use_buff_trait, use_periodic_with_simple, use_periodic in H;
      rewrite ?A in H; cbn [negb] in H; cbn iota in H;
      try (injection H as <- <-; norej).
    + (* stackable: the availability test is on the unchanged cooldown *)
      match type of H with context [avail ?x] => assert (A1 : avail x = true) end.
      { unfold avail in *. destruct (u_ltl s <=? 0); cbn; exact A. }
      rewrite A1 in H. cbn in H. injection H as <- <-. reflexivity.
    + (* temporal enhancing *)
      destruct (avail2 (set_cd s (p_cdA p))); injection H as <- <-; norej.
Qed.

(* the key-down class: valid -> accepted holds on states where a running key-down implies a
   running cooldown; that invariant is preserved when the applied cooldown is at least the
   maximum key-down time, and fails otherwise (witness below). *)
Definition kd_inv (s : ust) : Prop := 0 < K.tl (u_kd s) -> K.tl (u_kd s) <= u_cd s.

Lemma keydown_valid_accepts p t s s' es :
  kd_inv s -> v_valid (view_validity KeydownSkill p s) = true ->
  reduce_spec KeydownSkill MUse p t s = Some (s', es) -> rejected es = false.
Proof.
  unfold kd_inv. cbn. unfold cd_validity, use_keydown_trait, avail, K.running. cbn. intros I V H.
  rewrite V in H. cbn in H.
  destruct (0 <? K.tl (u_kd s)) eqn:E.
  - apply Z.ltb_lt in E. apply Z.leb_le in V. specialize (I E). lia.
  - injection H as <- <-. reflexivity.
Qed.

Lemma kd_inv_preserved m p t s s' es :
  p_maxkd p <= p_cdA p -> 0 <= t -> kd_inv s ->
  reduce_spec KeydownSkill m p t s = Some (s', es) -> kd_inv s'.
Proof.
  unfold kd_inv. intros Hp Ht I H.
  destruct m; cbn in H; try discriminate.
  - unfold use_keydown_trait in H. destruct (negb (avail s) || K.running (u_kd s)); injection H as <- <-; cbn; auto.
  - unfold elapse_keydown_trait, K.resolving in H.
    destruct (K.loop _ _ _ _ _) as [k c']. injection H as <- _. cbn. lia.
  - unfold stop_keydown_trait in H. destruct (negb (K.running (u_kd s))); injection H as <- <-; cbn; auto. lia.
Qed.

Definition kd0_par : par :=
  mkPar false (1,1) 120 0 0 0 0 0%nat [] (0,0) (0,0) (0,0) (2,1) 0 (0,0) 1000 0 0 0 (0,0).
Definition kd0_state : ust :=
  mkU 0 0 0 0 (C.mkC 1 1 1 1) (P.mkP 1 1 0 0) (P.mkP 1 1 0 0) (P.mkP 1 1 0 0) None None None (K.mkK 120 0 (-1)) 0.
(* a cooldown-free key-down skill: after one use it is advertised as usable while running,
   and using it is rejected *)
Lemma keydown_valid_accepts_refuted :
  exists p s s1 e1 s2 e2,
    reduce_spec KeydownSkill MUse p 0 s = Some (s1, e1) /\ rejected e1 = false /\
    v_valid (view_validity KeydownSkill p s1) = true /\
    reduce_spec KeydownSkill MUse p 0 s1 = Some (s2, e2) /\ rejected e2 = true.
Proof.
  exists kd0_par, kd0_state. do 4 eexists. repeat split; vm_compute; reflexivity.
Qed.

Example valid_state_exists :
  v_valid (view_validity AttackSkill kd0_par kd0_state) = true /\ kd_inv kd0_state.
Proof. split; [reflexivity|]. unfold kd_inv. cbn. lia. Qed.
