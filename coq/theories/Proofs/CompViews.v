(* C10 for the modelled classes: validity never reports a negative remaining time, and a
   skill advertised as usable is accepted when used. *)
From Coq Require Import ZArith List Bool Lia.
From V.Model Require Import Comp.
From V.Proofs Require Import CompReject.
Import ListNotations.
Open Scope Z_scope.

Lemma validity_time_left_nonneg c p s : 0 <= v_time_left (view_validity c p s).
Proof. destruct c; cbn; unfold cd_validity; cbn; lia. Qed.

Lemma running_stack_nonneg_when_off c p s r :
  view_running c p s = Some r -> u_ltl s <= 0 -> r_stack r = None \/ r_stack r = Some 0.
Proof.
  destruct c; cbn; intros H Hl; try discriminate; injection H as <-; cbn; auto.
  right. replace (0 <? u_ltl s) with false by (symmetry; apply Z.ltb_ge; lia). reflexivity.
Qed.

(* valid -> accepted, every modelled class *)
Lemma valid_accepts c p t s s' es :
  v_valid (view_validity c p s) = true ->
  reduce_spec c MUse p t s = Some (s', es) -> rejected es = false.
Proof.
  intros V H.
  destruct (match c with ConsumableBuffSkill => true | _ => false end) eqn:Ec.
  - destruct c; try discriminate. cbn in V, H. unfold use_consumable_buff_trait in H. rewrite V in H.
    cbn in H. injection H as <- <-. reflexivity.
  - destruct (match c with KeydownSkill => true | _ => false end) eqn:Ek.
    + destruct c; try discriminate. cbn in V, H. apply andb_prop in V. destruct V as [A R].
      unfold use_keydown_trait in H. rewrite A in H. apply negb_true_iff in R. rewrite R in H.
      cbn in H. injection H as <- <-. reflexivity.
    + assert (A : avail s = true).
      { destruct c; try discriminate; cbn in V; unfold cd_validity in V; cbn in V;
          try (destruct (p_disable p); [discriminate|]); exact V. }
      clear V. destruct c; try discriminate; cbn in H;
        unfold use_simple_attack, use_multiple_damage, use_buff_trait, use_periodic_with_simple, use_periodic in H;
        rewrite ?A in H; cbn [negb] in H; cbn iota in H;
        try (injection H as <- <-; norej).
      * (* stackable: the availability test is on the unchanged cooldown *)
        match type of H with context [avail ?x] => assert (A1 : avail x = true) end.
        { unfold avail in *. destruct (u_ltl s <=? 0); cbn; exact A. }
        rewrite A1 in H. cbn in H. injection H as <- <-. reflexivity.
      * (* temporal enhancing *)
        destruct (avail2 (set_cd s (p_cdA p))); injection H as <- <-; norej.
Qed.

(* the converse for key-down skills: validity hides the skill exactly while use would reject it *)
Lemma keydown_validity_mirrors_use p s :
  v_valid (view_validity KeydownSkill p s) = negb (rejected (snd (use_keydown_trait p s))).
Proof.
  cbn. unfold use_keydown_trait. destruct (avail s); destruct (K.running (u_kd s)); reflexivity.
Qed.

Definition kd0_par : par :=
  mkPar false (1,1) 120 0 0 0 0 0%nat [] (0,0) (0,0) (0,0) (2,1) 0 (0,0) 1000 0 0 0 (0,0).
Definition kd0_state : ust :=
  mkU 0 0 0 0 (C.mkC 1 1 1 1) (P.mkP 1 1 0 0) (P.mkP 1 1 0 0) (P.mkP 1 1 0 0) None None None (K.mkK 120 0 (-1)) 0.
(* the cooldown-free key-down skill of the former finding: after one use it is running, and
   validity now says not usable *)
Example keydown_running_not_advertised :
  exists s1 e1, reduce_spec KeydownSkill MUse kd0_par 0 kd0_state = Some (s1, e1) /\ rejected e1 = false /\
    v_valid (view_validity KeydownSkill kd0_par s1) = false.
Proof. do 2 eexists. repeat split; vm_compute; reflexivity. Qed.

Example valid_state_exists :
  v_valid (view_validity AttackSkill kd0_par kd0_state) = true /\ v_valid (view_validity KeydownSkill kd0_par kd0_state) = true.
Proof. split; reflexivity. Qed.
