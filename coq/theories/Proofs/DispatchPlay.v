(* Dispatch / store glue at the level of the cached router and of play() (Model/Play.v reused):
   listeners are offered every event exactly once before and once after (C05), the clock frame
   hypothesis of C06 follows from the binds, write frame of a whole play. *)
From Coq Require Import List Bool Arith String Ascii ZArith Lia.
From V.Model Require Import Router Play Engine Dispatch.
From V.Proofs Require Import RouterCache DispatchStore DispatchRouter EngineClock.
Import ListNotations.
Local Open Scope string_scope.

Section PlayP.
  Variables Ent Pay : Type.
  Variable empty_pay : Pay.
  Variable clock0 : Ent.
  Variable spent : Ent -> Pay -> option Ent.
  Variable pnone : Pay.
  Variable ptime : Z -> Pay.

  Notation component := (Dispatch.component Ent Pay).
  Notation inst := (Dispatch.inst Ent Pay).
  Notation rst := (Dispatch.rst Ent Pay).
  Notation event := (Dispatch.event Pay).
  Notation action := (Dispatch.action Pay).
  Notation invocation := (Dispatch.invocation Pay).
  Notation installed := (Dispatch.installed Ent Pay empty_pay clock0 spent).
  Notation dispatch_c := (Dispatch.dispatch_c Ent Pay).
  Notation dispatch_nc := (Dispatch.dispatch_nc Ent Pay).
  Notation bound_addrs := (Dispatch.bound_addrs Ent Pay).
  Notation touched := (Dispatch.touched Ent Pay).
  Notation comps_of := (Dispatch.comps_of Ent Pay).
  Notation direct := (Dispatch.direct Ent Pay).
  Notation top_only := (Dispatch.top_only Pay).
  Notation agree_outside := (DispatchStore.agree_outside Ent).
  Notation Coh := (Router.Coh string action rst event String.eqb).
  Notation pst := (Dispatch.pst Ent Pay).
  Notation prouter := (Dispatch.prouter Ent Pay pnone ptime).
  Notation pplay := (Dispatch.pplay Ent Pay pnone ptime).
  Notation act_of := (Dispatch.act_of Pay pnone ptime).
  Notation paction := (Play.action Pay string string (option string)).
  Notation pevent := (Play.event Pay string string (option string)).
  Notation pstore := (Play.store pst Pay string string (option string)).
  Notation run_queue := (Play.run_queue pst Pay string string (option string)).
  Notation clk := (DispatchRouter.clk Ent Pay).
  Notation steps := (DispatchRouter.steps Ent Pay clock0 spent).
  Notation clock_unbound := (Dispatch.clock_unbound Ent Pay).
  Notation addons_no_elapse := (Dispatch.addons_no_elapse Ent Pay).
  Notation timers_for := (DispatchRouter.timers_for Ent Pay).
  Notation is_elapse_act := (DispatchRouter.is_elapse_act Pay).

  (* ---------------------------------------------------------------- the cached router *)
  Theorem router_trace (sys : list inst) fuel c a s c' s' evs :
    Coh (installed sys) c -> a_addon a = false ->
    dispatch_c fuel (installed sys) c a s = (c', Some (s', evs)) ->
    Coh (installed sys) c' /\ top_only (snd s') = (top_only (snd s) ++ flat_map (direct a) sys)%list.
  Proof.
    intros HC Ta H. apply c_to_nc in H; [|exact HC]. destruct H as [C1 E]. split; [exact C1|].
    destruct (dispatch_nc fuel (installed sys) tt a s) as [[] r] eqn:D. cbn in E. subst r.
    eapply nc_trace; eauto.
  Qed.

  Theorem router_clock (sys : list inst) fuel c a s c' s' evs :
    clock_unbound (comps_of sys) = true -> addons_no_elapse (comps_of sys) = true ->
    Coh (installed sys) c -> dispatch_c fuel (installed sys) c a s = (c', Some (s', evs)) ->
    Coh (installed sys) c' /\ steps a (List.length (flat_map (timers_for a) sys)) (clk s) (clk s').
  Proof.
    intros CU AN HC H. apply c_to_nc in H; [|exact HC]. destruct H as [C1 E]. split; [exact C1|].
    destruct (dispatch_nc fuel (installed sys) tt a s) as [[] r] eqn:D. cbn in E. subst r.
    eapply nc_clock; eauto.
  Qed.

  (* the shipped layout (kms.get_builder: components, then the timer): exactly one timer *)
  Lemma shipped_timers (cs : list component) (a : action) :
    flat_map (timers_for a) (shipped_system Ent Pay cs) = if is_elapse_act a then [tt] else [].
  Proof.
    unfold shipped_system. rewrite flat_map_app. cbn. rewrite app_nil_r.
    replace (flat_map (timers_for a) (map IComp cs)) with (@nil unit); [reflexivity|].
    induction cs; cbn; auto.
  Qed.
  Lemma shipped_comps (cs : list component) : comps_of (shipped_system Ent Pay cs) = cs.
  Proof. unfold shipped_system. induction cs; cbn; congruence. Qed.

  (* C06 at router level: with the clock address bound by no component and no addon re-dispatching
     "*.elapse", a dispatch of ("*", "elapse", t) moves the clock entity by exactly one `spent t`
     (starting from Clock() when the entity is missing: setdefault), every other dispatch leaves the
     clock entity as it was *)
  Theorem shipped_router_clock (cs : list component) fuel c a s c' s' evs :
    clock_unbound cs = true -> addons_no_elapse cs = true ->
    Coh (installed (shipped_system Ent Pay cs)) c ->
    dispatch_c fuel (installed (shipped_system Ent Pay cs)) c a s = (c', Some (s', evs)) ->
    if is_elapse_act a
    then exists ck', spent (clock_in Ent clock0 (clk s)) (a_pay a) = Some ck' /\ clk s' = Some ck'
    else clk s' = clk s.
  Proof.
    intros CU AN HC H. apply router_clock in H; try rewrite shipped_comps; auto. destruct H as [_ H].
    rewrite shipped_timers in H. destruct (is_elapse_act a); cbn in H.
    - destruct H as (o1 & (ck' & S1 & S2) & E). exists ck'. split; [exact S1|congruence].
    - exact H.
  Qed.

  (* ---------------------------------------------------------------- play() *)
  Section Sys.
    Variable sys : list inst.
    Variable fuel : nat.
    Let ds := installed sys.
    Definition wf (s : pst) : Prop := Coh ds (p_cache s).

    Lemma prouter_wf (a : paction) (s : pst) : wf s -> wf (fst (prouter fuel ds a s)).
    Proof.
      unfold wf, Dispatch.prouter. intros W. destruct (p_ok s); [|exact W].
      destruct (dispatch_c fuel ds (p_cache s) (act_of a) (p_store s, p_trace s)) as [c' r] eqn:D.
      apply c_to_nc in D; [|exact W]. destruct D as [C1 _].
      destruct r as [[[st' tr'] evs]|]; exact C1.
    Qed.
    Lemma prouter_ok (a : paction) (s : pst) : p_ok (fst (prouter fuel ds a s)) = true -> p_ok s = true.
    Proof.
      unfold Dispatch.prouter. destruct (p_ok s) eqn:O; [reflexivity|]. cbn. congruence.
    Qed.
    Lemma prouter_success (a : paction) (s s' : pst) evs : prouter fuel ds a s = (s', evs) -> p_ok s' = true ->
      exists evs0, dispatch_c fuel ds (p_cache s) (act_of a) (p_store s, p_trace s) =
                   (p_cache s', Some ((p_store s', p_trace s'), evs0)).
    Proof.
      unfold Dispatch.prouter. destruct (p_ok s) eqn:O.
      - destruct (dispatch_c fuel ds (p_cache s) (act_of a) (p_store s, p_trace s)) as [c' [[[st' tr'] evs0]|]];
          intros H; inversion H; subst; cbn; intros Ok; [|discriminate]. exists evs0. reflexivity.
      - intros H; inversion H; subst. congruence.
    Qed.

    Lemma run_queue_wf : forall q s, wf s -> wf (fst (fst (run_queue (prouter fuel ds) q s))).
    Proof.
      induction q as [|a r IH]; intros s W; cbn; [exact W|].
      pose proof (prouter_wf a s W) as W1. destruct (prouter fuel ds a s) as [s1 e1]. cbn in W1.
      specialize (IH s1 W1). destruct (run_queue (prouter fuel ds) r s1) as [[s2 e2] tr]. exact IH.
    Qed.
    Lemma run_queue_ok : forall q s, p_ok (fst (fst (run_queue (prouter fuel ds) q s))) = true -> p_ok s = true.
    Proof.
      induction q as [|a r IH]; intros s; cbn; [auto|].
      pose proof (prouter_ok a s) as O1. destruct (prouter fuel ds a s) as [s1 e1]. cbn in O1.
      specialize (IH s1). destruct (run_queue (prouter fuel ds) r s1) as [[s2 e2] tr]. cbn in *. auto.
    Qed.

    (* a graded relation that every successful dispatch satisfies holds, concatenated, for the queue *)
    Section Graded.
      Variable G : Type.
      Variable Q : list G -> pst -> pst -> Prop.
      Hypothesis Q0 : forall s, Q [] s s.
      Hypothesis Qapp : forall l1 l2 s s1 s2, Q l1 s s1 -> Q l2 s1 s2 -> Q (l1 ++ l2) s s2.
      Variable g : paction -> list G.
      Hypothesis Hstep : forall a s s' evs, wf s -> prouter fuel ds a s = (s', evs) -> p_ok s' = true -> Q (g a) s s'.

      Lemma run_queue_graded : forall q s, wf s ->
        p_ok (fst (fst (run_queue (prouter fuel ds) q s))) = true ->
        Q (flat_map g q) s (fst (fst (run_queue (prouter fuel ds) q s))).
      Proof.
        induction q as [|a r IH]; intros s W; cbn; [intros _; apply Q0|].
        pose proof (prouter_wf a s W) as W1. pose proof (Hstep a s) as HS.
        destruct (prouter fuel ds a s) as [s1 e1]. cbn in W1.
        specialize (IH s1 W1). pose proof (run_queue_ok r s1) as O1.
        destruct (run_queue (prouter fuel ds) r s1) as [[s2 e2] tr]. cbn in *. intros Ok.
        eapply Qapp; [eapply HS; eauto|apply IH; exact Ok].
      Qed.
    End Graded.

    Definition offered (q : paction) : list invocation := flat_map (direct (act_of q)) sys.

    Lemma queue_trace : forall q s, wf s -> p_ok (fst (fst (run_queue (prouter fuel ds) q s))) = true ->
      top_only (p_trace (fst (fst (run_queue (prouter fuel ds) q s)))) = (top_only (p_trace s) ++ flat_map offered q)%list.
    Proof.
      intros q s W Ok.
      apply (run_queue_graded invocation (fun l s s' => top_only (p_trace s') = (top_only (p_trace s) ++ l)%list)); auto.
      - intros s0. symmetry. apply app_nil_r.
      - intros l1 l2 s0 s1 s2 A B. rewrite B, A. symmetry. apply app_assoc.
      - intros a s0 s' evs W0 H Ok'. destruct (prouter_success _ _ _ _ H Ok') as (evs0 & D).
        apply router_trace in D; [|exact W0|reflexivity]. destruct D as [_ D]. exact D.
    Qed.

    Lemma queue_frame : forall q s, wf s -> p_ok (fst (fst (run_queue (prouter fuel ds) q s))) = true ->
      agree_outside (flat_map (fun a => touched fuel sys (sig_of (act_of a))) q) (p_store s)
                    (p_store (fst (fst (run_queue (prouter fuel ds) q s)))).
    Proof.
      intros q s W Ok.
      apply (run_queue_graded string (fun l s s' => agree_outside l (p_store s) (p_store s'))); auto.
      - intros s0. apply agree_refl.
      - intros l1 l2 s0 s1 s2 A B. eapply agree_trans.
        + eapply agree_weaken; [|exact A]. apply incl_appl, incl_refl.
        + eapply agree_weaken; [|exact B]. apply incl_appr, incl_refl.
      - intros a s0 s' evs W0 H Ok'. destruct (prouter_success _ _ _ _ H Ok') as (evs0 & D).
        apply router_frame_fine in D; [|exact W0]. destruct D as [_ D]. exact D.
    Qed.

    (* C05: listeners are offered every event of the previous play exactly once before the action and
       exactly once after it.  Statement: the unmarked part of the invocation trace that play k+1 adds
       is, in this order: for the emitted callback of every event of play k (newest first), one
       invocation per installed component whose `_find_mapping_name` is defined on the callback's
       signature (and that has a reducer there), with the event's payload; then the invocations of the
       played action itself; then the same for the done callbacks (oldest first).  Everything else in
       the trace carries the addon mark (re-entrant dispatch caused by an addon), and is counted apart. *)
    Theorem listeners_offered_once (st : pstore) (a1 a2 : paction) : wf (ent _ _ _ _ _ st) ->
      let '(st1, E1, _) := pplay fuel ds st a1 in
      let '(st2, E2, q2) := pplay fuel ds st1 a2 in
      p_ok (ent _ _ _ _ _ st2) = true ->
      q2 = (rev (map (emitted Pay string string (option string)) E1) ++ [a2] ++ map (done Pay string string (option string)) E1)%list /\
      top_only (p_trace (ent _ _ _ _ _ st2)) =
        (top_only (p_trace (ent _ _ _ _ _ st1)) ++
         flat_map offered (rev (map (emitted Pay string string (option string)) E1)) ++
         offered a2 ++
         flat_map offered (map (done Pay string string (option string)) E1))%list.
    Proof.
      intros W. unfold Dispatch.pplay, Play.play.
      pose proof (run_queue_wf (queue Pay string string (option string) (cbs _ _ _ _ _ st) a1) (ent _ _ _ _ _ st) W) as W1.
      destruct (run_queue (prouter fuel ds) (queue Pay string string (option string) (cbs _ _ _ _ _ st) a1) (ent _ _ _ _ _ st))
        as [[s1 E1] tr1]. cbn [fst] in W1. cbn [cbs ent].
      pose proof (queue_trace (queue Pay string string (option string) (map (callbacks Pay string string (option string)) E1) a2) s1 W1) as T.
      pose proof (run_queue_trace pst Pay string string (option string) (prouter fuel ds)
                    (queue Pay string string (option string) (map (callbacks Pay string string (option string)) E1) a2) s1) as TQ.
      destruct (run_queue (prouter fuel ds) (queue Pay string string (option string) (map (callbacks Pay string string (option string)) E1) a2) s1)
        as [[s2 E2] tr2]. cbn [fst snd] in T, TQ. cbn [ent]. intros Ok. specialize (T Ok).
      rewrite queue_spec, !map_map in T, TQ. cbn [fst snd callbacks] in T, TQ. split; [exact TQ|].
      rewrite T. rewrite !flat_map_app. cbn [flat_map]. rewrite app_nil_r. reflexivity.
    Qed.

    (* nothing of play k is offered in play k+2: what play k+2 offers is determined by the events of play
       k+1 and its own action (the pending callbacks after play k+1 are those of E2: C05_never_replayed) *)
    Theorem not_offered_later (st : pstore) (a1 a2 a3 : paction) : wf (ent _ _ _ _ _ st) ->
      let '(st1, E1, _) := pplay fuel ds st a1 in
      let '(st2, E2, _) := pplay fuel ds st1 a2 in
      let '(st3, E3, q3) := pplay fuel ds st2 a3 in
      p_ok (ent _ _ _ _ _ st3) = true ->
      q3 = (rev (map (emitted Pay string string (option string)) E2) ++ [a3] ++ map (done Pay string string (option string)) E2)%list /\
      top_only (p_trace (ent _ _ _ _ _ st3)) =
        (top_only (p_trace (ent _ _ _ _ _ st2)) ++
         flat_map offered (rev (map (emitted Pay string string (option string)) E2)) ++
         offered a3 ++
         flat_map offered (map (done Pay string string (option string)) E2))%list.
    Proof.
      intros W.
      assert (W1 : wf (ent _ _ _ _ _ (fst (fst (pplay fuel ds st a1))))).
      { unfold Dispatch.pplay, Play.play.
        pose proof (run_queue_wf (queue Pay string string (option string) (cbs _ _ _ _ _ st) a1) (ent _ _ _ _ _ st) W) as X.
        destruct (run_queue (prouter fuel ds) (queue Pay string string (option string) (cbs _ _ _ _ _ st) a1) (ent _ _ _ _ _ st))
          as [[s1 E1] tr1]. exact X. }
      destruct (pplay fuel ds st a1) as [[st1 E1] q1]. cbn [fst] in W1.
      exact (listeners_offered_once st1 a2 a3 W1).
    Qed.

    (* write frame of a whole play: only the addresses touched by the actions of its queue *)
    Theorem play_frame (st : pstore) (a : paction) : wf (ent _ _ _ _ _ st) ->
      let '(st1, _, q) := pplay fuel ds st a in
      p_ok (ent _ _ _ _ _ st1) = true ->
      agree_outside (flat_map (fun x => touched fuel sys (sig_of (act_of x))) q)
                    (p_store (ent _ _ _ _ _ st)) (p_store (ent _ _ _ _ _ st1)).
    Proof.
      intros W. unfold Dispatch.pplay, Play.play.
      pose proof (queue_frame (queue Pay string string (option string) (cbs _ _ _ _ _ st) a) (ent _ _ _ _ _ st) W) as F.
      pose proof (run_queue_trace pst Pay string string (option string) (prouter fuel ds)
                    (queue Pay string string (option string) (cbs _ _ _ _ _ st) a) (ent _ _ _ _ _ st)) as TQ.
      destruct (run_queue (prouter fuel ds) (queue Pay string string (option string) (cbs _ _ _ _ _ st) a) (ent _ _ _ _ _ st))
        as [[s1 E1] tr1]. cbn [fst snd] in F, TQ. cbn [ent]. subst tr1. exact F.
    Qed.
  End Sys.

  (* exactly one: with pairwise distinct component names, the invocation of a listening component
     occurs once among what is offered for one callback *)
  Definition exactly_one {A} (P : A -> Prop) (x : A) (l : list A) : Prop :=
    exists l1 l2, l = (l1 ++ x :: l2)%list /\ Forall (fun y => ~ P y) l1 /\ Forall (fun y => ~ P y) l2.

  Lemma direct_name (a : action) (c : component) (i : invocation) : In i (direct a (IComp c)) -> i_comp i = c_name c.
  Proof.
    unfold Dispatch.direct. destruct (find_mapping Ent Pay c (sig_of a)) as [key| |]; [|intros []|intros []].
    destruct (dget (c_maps c) key) as [mp|]; [|intros []]. destruct mp as [[m|] [r|]]; [|intros []|intros []|intros []].
    intros [E|[]]. subst i. reflexivity.
  Qed.

  Lemma others_not_named (a : action) (n : string) (sys : list inst) :
    ~ In n (map (fun c => c_name c) (comps_of sys)) ->
    Forall (fun y => ~ i_comp y = n) (flat_map (direct a) sys).
  Proof.
    intros N. apply Forall_forall. intros i I. apply in_flat_map in I. destruct I as (j & Ij & I).
    destruct j as [c|]; [|destruct I]. apply direct_name in I. intros E. apply N.
    apply in_map_iff. exists c. split; [congruence|apply (proj2 (comps_of_in Ent Pay sys c)); exact Ij].
  Qed.

  Theorem one_invocation_per_listener (sys : list inst) (q : paction) (c : component) (i : invocation) :
    NoDup (map (fun c => c_name c) (comps_of sys)) -> In (IComp c) sys ->
    direct (act_of q) (IComp c) = [i] ->
    exactly_one (fun y => i_comp y = c_name c) i (offered sys q).
  Proof.
    intros ND Ic D. apply in_split in Ic. destruct Ic as (s1 & s2 & E). subst sys.
    unfold offered. rewrite flat_map_app. cbn [flat_map]. rewrite D. cbn [app].
    exists (flat_map (direct (act_of q)) s1), (flat_map (direct (act_of q)) s2). split; [reflexivity|].
    assert (X : comps_of (s1 ++ IComp c :: s2) = (comps_of s1 ++ c :: comps_of s2)%list).
    { clear. induction s1 as [|[c'|] r IH]; cbn; [reflexivity|rewrite IH; reflexivity|exact IH]. }
    rewrite X, map_app in ND. cbn [map] in ND. apply NoDup_remove_2 in ND.
    split; apply others_not_named; intros I; apply ND; apply in_or_app; [left|right]; exact I.
  Qed.

  Lemma distinctb_nodup (l : list string) : distinctb l = true -> NoDup l.
  Proof.
    induction l as [|x r IH]; cbn; [constructor|]. intros H. apply andb_true_iff in H. destruct H as [H1 H2].
    constructor; [|auto]. intros I. apply negb_true_iff in H1.
    assert (X : existsb (String.eqb x) r = true) by (apply existsb_exists; exists x; split; [exact I|apply String.eqb_refl]).
    congruence.
  Qed.
  (* the same with the boolean guard that gen/DispatchData.v evaluates *)
  Theorem one_invocation_per_listener_b (cs : list component) (q : paction) (c : component) (i : invocation) :
    names_distinct Ent Pay cs = true -> In c cs ->
    direct (act_of q) (IComp c) = [i] ->
    exactly_one (fun y => i_comp y = c_name c) i (offered (shipped_system Ent Pay cs) q).
  Proof.
    intros ND Ic D. apply one_invocation_per_listener; [| |exact D].
    - rewrite shipped_comps. apply distinctb_nodup. exact ND.
    - unfold shipped_system. apply in_or_app. left. apply in_map. exact Ic.
  Qed.

  (* _get_event_callbacks, as play() of Model/Play.v sees it through act_of *)
  Lemma callbacks_agree (e : event) :
    act_of (emitted Pay string string (option string) (pev_of Pay e)) = emitted_cb Pay e /\
    act_of (done Pay string string (option string) (pev_of Pay e)) = done_cb Pay e.
  Proof. split; reflexivity. Qed.

  (* a relayed callback is never the timer's action *)
  Lemma callback_not_elapse (e : pevent) :
    is_elapse_act (act_of (emitted Pay string string (option string) e)) = false /\
    is_elapse_act (act_of (done Pay string string (option string) e)) = false.
  Proof.
    unfold DispatchRouter.is_elapse_act. split; apply andb_false_iff; right; cbn; apply String.eqb_neq; intros H.
    - apply (f_equal String.length) in H. rewrite !append_length in H. cbn in H. lia.
    - destruct (emeth Pay string string (option string) e) as [|c0 m']; cbn in H; [discriminate|].
      apply (f_equal String.length) in H. cbn in H. rewrite !append_length in H. cbn in H. lia.
  Qed.

  (* ---------------------------------------------------------------- C06: Hframe follows from the binds *)
  Section Clock.
    Variable tm : option Ent -> Z.                   (* current_time of the entity at the clock address *)
    Variable mk : Z -> Ent.                          (* Clock(current_time = t) *)
    Hypothesis tm_mk : forall t, tm (Some (mk t)) = t.
    Variable cs : list component.
    Hypothesis CU : clock_unbound cs = true.
    Variable fuel : nat.

    Definition pclock (s : pst) : Z := tm (dget (p_store s) clock_addr).
    Definition pset_clock (s : pst) (t : Z) : pst :=
      {| p_cache := p_cache s; p_store := dset (p_store s) clock_addr (mk t); p_trace := p_trace s; p_ok := p_ok s |}.
    Definition comp_router := prouter fuel (installed (map IComp cs)).

    Lemma pclock_set s t : pclock (pset_clock s t) = t.
    Proof. unfold pclock, pset_clock. cbn. rewrite dget_dset_same. apply tm_mk. Qed.

    (* the hypothesis Hframe of Props/C06.v, for every router built from components that do not bind
       the clock address: ANY action, ANY state (any route cache, also after a raise) *)
    Theorem frame_from_binds : forall (a : paction) (s : pst), pclock (fst (comp_router a s)) = pclock s.
    Proof.
      intros a s. unfold comp_router, Dispatch.prouter, pclock. destruct (p_ok s); [|reflexivity].
      destruct (dispatch_c fuel (installed (map IComp cs)) (p_cache s) (act_of a) (p_store s, p_trace s))
        as [c' [[[st' tr'] evs]|]] eqn:D; [|reflexivity].
      apply comps_keep_clock in D; [|exact CU]. unfold DispatchRouter.clk in D. cbn in D. cbn. rewrite D. reflexivity.
    Qed.

    Definition star_b (n : string) : bool := String.eqb n "*".
    Definition elapse_b (m : string) : bool := String.eqb m "elapse".

    Theorem play_clock_from_binds (st : pstore) (a : paction) (E0 : list pevent) :
      cbs _ _ _ _ _ st = map (callbacks Pay string string (option string)) E0 ->
      pclock (ent _ _ _ _ _ (fst (fst (Play.play pst Pay string string (option string)
                 (Play.router pst Pay string string (option string) pclock pset_clock comp_router star_b elapse_b) st a)))) =
      (pclock (ent _ _ _ _ _ st) + elapse_time Pay string string (option string) star_b elapse_b a)%Z.
    Proof.
      apply (C06_play_clock pst Pay string string (option string) pclock pset_clock pclock_set comp_router frame_from_binds).
    Qed.

    (* the per-command theorems of Props/C06.v (C06_command, C06_monotone) with Hframe discharged *)
    Definition command_clock_from_binds (Ck : Type) (m_use m_stop : string) (name_eqb : string -> string -> bool)
               (is_delay : option string -> bool) (time_of : Pay -> Z) (save : pstore -> Ck) :=
      C06_exec_op pst Pay string string (option string) Ck pclock pset_clock pclock_set comp_router frame_from_binds
                  star_b elapse_b "*" eq_refl m_use "elapse" m_stop eq_refl name_eqb is_delay time_of save.
    Definition monotone_from_binds (Ck : Type) (m_use m_stop : string) (name_eqb : string -> string -> bool)
               (is_delay : option string -> bool) (time_of : Pay -> Z) (save : pstore -> Ck) :=
      C06_monotone pst Pay string string (option string) Ck pclock pset_clock pclock_set comp_router frame_from_binds
                   star_b elapse_b "*" eq_refl m_use "elapse" m_stop eq_refl name_eqb is_delay time_of save.
  End Clock.

  (* ---------------------------------------------------------------- the concrete play: components + timer *)
  (* play() over the shipped layout (the timer installed as a dispatcher, re-entrant dispatch included):
     the clock entity after the play is one `spent payload` of the played action when that action is
     ("*", "elapse"), and untouched otherwise -- relayed callbacks never move it.  This is the clock
     function of Play.router (components, then "clock + elapse_time") read on the concrete system. *)
  Section Shipped.
    Variable cs : list component.
    Hypothesis CU : clock_unbound cs = true.
    Hypothesis AN : addons_no_elapse cs = true.
    Variable fuel : nat.
    Let sys := shipped_system Ent Pay cs.
    Let ds := installed sys.

    Fixpoint steps_l (l : list action) (o o' : option Ent) : Prop :=
      match l with [] => o' = o | a :: r => exists o1, DispatchRouter.tstep Ent Pay clock0 spent a o o1 /\ steps_l r o1 o' end.
    Lemma steps_l_app l1 : forall l2 o o1 o2, steps_l l1 o o1 -> steps_l l2 o1 o2 -> steps_l (l1 ++ l2) o o2.
    Proof.
      induction l1 as [|a r IH]; intros l2 o o1 o2 H1 H2; cbn in *.
      - subst o1. exact H2.
      - destruct H1 as (o' & T & H1). exists o'. split; [exact T|eapply IH; eauto].
    Qed.
    Definition elapses (q : paction) : list action := if is_elapse_act (act_of q) then [act_of q] else [].
    Definition sclk (s : pst) : option Ent := dget (p_store s) clock_addr.

    Lemma queue_clock : forall q s, wf sys s -> p_ok (fst (fst (run_queue (prouter fuel ds) q s))) = true ->
      steps_l (flat_map elapses q) (sclk s) (sclk (fst (fst (run_queue (prouter fuel ds) q s)))).
    Proof.
      intros q s W Ok.
      apply (run_queue_graded sys fuel action (fun l s s' => steps_l l (sclk s) (sclk s'))); auto.
      - intros s0. reflexivity.
      - intros l1 l2 s0 s1 s2 A B. eapply steps_l_app; eauto.
      - intros a s0 s' evs W0 H Ok'. destruct (prouter_success sys fuel _ _ _ _ H Ok') as (evs0 & D).
        apply shipped_router_clock in D; auto. unfold elapses. destruct (is_elapse_act (act_of a)).
        + destruct D as (ck' & S1 & S2). cbn. exists (Some ck'). split; [exists ck'; split; [exact S1|reflexivity]|exact S2].
        + exact D.
    Qed.

    Lemma callbacks_no_elapse (E0 : list pevent) :
      flat_map elapses (map (emitted Pay string string (option string)) E0) = [] /\
      flat_map elapses (map (done Pay string string (option string)) E0) = [].
    Proof.
      induction E0 as [|e r [I1 I2]]; cbn; [auto|]. unfold elapses at 1 3.
      destruct (callback_not_elapse e) as [A B]. rewrite A, B. cbn. auto.
    Qed.
    Lemma flat_map_rev_nil {A B} (f : A -> list B) (l : list A) : flat_map f l = [] -> flat_map f (rev l) = [].
    Proof.
      induction l as [|x l IH]; cbn; [auto|]. intros H. apply app_eq_nil in H. destruct H as [H1 H2].
      rewrite flat_map_app. cbn. rewrite IH, H1; auto.
    Qed.

    Theorem shipped_play_clock (st : pstore) (a : paction) (E0 : list pevent) : wf sys (ent _ _ _ _ _ st) ->
      cbs _ _ _ _ _ st = map (callbacks Pay string string (option string)) E0 ->
      let '(st1, _, _) := pplay fuel ds st a in
      p_ok (ent _ _ _ _ _ st1) = true ->
      if is_elapse_act (act_of a)
      then exists ck', spent (clock_in Ent clock0 (sclk (ent _ _ _ _ _ st))) (a_pay (act_of a)) = Some ck' /\
                       sclk (ent _ _ _ _ _ st1) = Some ck'
      else sclk (ent _ _ _ _ _ st1) = sclk (ent _ _ _ _ _ st).
    Proof.
      intros W HE. unfold Dispatch.pplay, Play.play.
      pose proof (queue_clock (queue Pay string string (option string) (cbs _ _ _ _ _ st) a) (ent _ _ _ _ _ st) W) as F.
      destruct (run_queue (prouter fuel ds) (queue Pay string string (option string) (cbs _ _ _ _ _ st) a) (ent _ _ _ _ _ st))
        as [[s1 E1] tr1]. cbn [fst snd] in F. cbn [ent]. intros Ok. specialize (F Ok).
      assert (M1 : map fst (map (callbacks Pay string string (option string)) E0) = map (emitted Pay string string (option string)) E0)
        by (rewrite map_map; reflexivity).
      assert (M2 : map snd (map (callbacks Pay string string (option string)) E0) = map (done Pay string string (option string)) E0)
        by (rewrite map_map; reflexivity).
      rewrite queue_spec, HE, M1, M2 in F.
      destruct (callbacks_no_elapse E0) as [A B].
      rewrite !flat_map_app, (flat_map_rev_nil _ _ A), B in F. cbn in F. rewrite app_nil_r in F.
      unfold elapses in F. destruct (is_elapse_act (act_of a)); cbn in F.
      - destruct F as (o1 & (ck' & S1 & S2) & E). exists ck'. split; [exact S1|congruence].
      - exact F.
    Qed.
  End Shipped.
End PlayP.
