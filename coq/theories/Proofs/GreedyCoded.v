(* C19 -- the optimizer as configured in the code: one maximum step M for all slots and the increments
   of Iterator.cumulated_iterator(len(state), step_size).  Legality and result of an increment do not
   depend on the order of its raises, so "every increment of the iterator" means "every multiset of at
   most min(step_size, 4) raises".  Examples: a non-trivial run satisfying all hypotheses, and a run on
   which the value falls (the objective is not monotone there). *)
From Coq Require Import List QArith Bool Arith ZArith Lia Permutation.
From V.Model Require Import Greedy GreedyInst.
From V.Proofs Require Import GreedyP GreedyIter.
Import ListNotations.
Close Scope Q_scope.
Open Scope nat_scope.

(* ------------------------------------------------------------------ order of the raises is irrelevant *)
Fixpoint bumps (st : state) (inc : list nat) : state :=
  match inc with
  | [] => st
  | i :: r => bumps (bump st i) r
  end.

Lemma bumps_length : forall inc st, length (bumps st inc) = length st.
Proof. induction inc as [|i r IH]; intros st; cbn [bumps]; [reflexivity|]. rewrite IH. apply bump_length. Qed.

Lemma bumps_nth_notin : forall inc st j, ~ In j inc -> nth j (bumps st inc) 0 = nth j st 0.
Proof.
  induction inc as [|i r IH]; intros st j N; cbn [bumps]; [reflexivity|].
  rewrite IH; [|intros X; apply N; right; exact X]. apply bump_nth_other. intros ->. apply N. left; reflexivity.
Qed.

Lemma bumps_nth_ge : forall inc st j, nth j st 0 <= nth j (bumps st inc) 0.
Proof. induction inc as [|i r IH]; intros st j; cbn [bumps]; [lia|]. eapply Nat.le_trans; [apply bump_nth_le|apply IH]. Qed.

Lemma bump_comm st i j : bump (bump st i) j = bump (bump st j) i.
Proof.
  revert i j; induction st as [|x r IH]; intros [|i] [|j]; cbn; try reflexivity. f_equal. apply IH.
Qed.

Lemma bumps_bump : forall inc st i, bumps (bump st i) inc = bump (bumps st inc) i.
Proof. induction inc as [|j r IH]; intros st i; cbn [bumps]; [reflexivity|]. rewrite bump_comm. apply IH. Qed.

Lemma bumps_perm : forall a b, Permutation a b -> forall st, bumps st a = bumps st b.
Proof.
  induction 1 as [|x a b P IH|x y a|a b c P1 IH1 P2 IH2]; intros st; cbn [bumps].
  - reflexivity.
  - apply IH.
  - rewrite bump_comm. reflexivity.
  - rewrite IH1. apply IH2.
Qed.

Section Order.
  Variable mx : nat -> nat.

  Definition legal_final (st : state) (inc : list nat) : bool :=
    forallb (fun i => nth i (bumps st inc) 0 <=? mx i) inc.

  Lemma stepped_char : forall inc st,
    stepped mx st inc = if legal_final st inc then Some (bumps st inc) else None.
  Proof.
    induction inc as [|i r IH]; intros st; [reflexivity|].
    cbn [stepped]. unfold legal_final. cbn [forallb]. change (bumps st (i :: r)) with (bumps (bump st i) r).
    destruct (mx i <? nth i (bump st i) 0) eqn:E.
    - apply Nat.ltb_lt in E. assert (G := bumps_nth_ge r (bump st i) i).
      replace (nth i (bumps (bump st i) r) 0 <=? mx i) with false; [reflexivity|].
      symmetry. apply Nat.leb_gt. lia.
    - apply Nat.ltb_ge in E. rewrite IH. unfold legal_final.
      destruct (forallb (fun i0 => nth i0 (bumps (bump st i) r) 0 <=? mx i0) r) eqn:F; [|rewrite andb_false_r; reflexivity].
      replace (nth i (bumps (bump st i) r) 0 <=? mx i) with true; [reflexivity|]. symmetry. apply Nat.leb_le.
      destruct (in_dec Nat.eq_dec i r) as [I|N].
      + rewrite forallb_forall in F. apply Nat.leb_le, (F i I).
      + rewrite bumps_nth_notin; assumption.
  Qed.

  Lemma legal_final_perm a b st : Permutation a b -> legal_final st a = legal_final st b.
  Proof.
    intros P. unfold legal_final. rewrite (bumps_perm a b P st).
    destruct (forallb (fun i => nth i (bumps st b) 0 <=? mx i) a) eqn:A, (forallb (fun i => nth i (bumps st b) 0 <=? mx i) b) eqn:B; try reflexivity.
    - rewrite forallb_forall in A. assert (X : forallb (fun i => nth i (bumps st b) 0 <=? mx i) b = true).
      { apply forallb_forall. intros x I. apply A. eapply Permutation_in; [apply Permutation_sym, P|exact I]. } congruence.
    - rewrite forallb_forall in B. assert (X : forallb (fun i => nth i (bumps st b) 0 <=? mx i) a = true).
      { apply forallb_forall. intros x I. apply B. eapply Permutation_in; [exact P|exact I]. } congruence.
  Qed.

  Theorem stepped_perm a b st : Permutation a b -> stepped mx st a = stepped mx st b.
  Proof. intros P. rewrite !stepped_char, (legal_final_perm a b st P), (bumps_perm a b P st). reflexivity. Qed.
End Order.

(* ------------------------------------------------------------------ the coded configuration *)
Lemma coded_in_range n d : in_range (cumulated n d) n.
Proof. intros inc I. apply (cumulated_sound n d inc I). Qed.

(* how many raises the single maximum M still allows *)
Definition room (M : nat) (st : state) : nat := fold_right (fun x a => (M - x) + a) 0 st.

Lemma pot_const M : forall st off, pot (fun _ => M) off st = room M st.
Proof. induction st as [|x r IH]; intros off; cbn; [reflexivity|]. rewrite IH. reflexivity. Qed.

Section Coded.
  Variables value cost : state -> Q.
  Variable M : nat.
  Variable budget : Q.
  Variables step_size max_iter : nat.

  Notation opt := (optimize_coded value cost M budget step_size max_iter).

  (* a multiset of raises the optimizer could make in one iteration *)
  Definition candidate (st : state) (m : list nat) : Prop :=
    m <> [] /\ length m <= Nat.min step_size 4 /\ Forall (fun i => i < length st) m.

  Theorem coded_terminates st : room M st <= max_iter -> opt st <> IterExceeded.
  Proof.
    intros H. unfold optimize_coded. apply run_fuel_enough; [apply coded_in_range|]. rewrite pot_const. exact H.
  Qed.

  (* termination without a useful maximum step (hyper stat: M = 999999): an integer cost that rises with every
     legal increment bounds the number of iterations by the budget left *)
  Theorem coded_terminates_by_cost (c : state -> Z) (B : Z) :
    (forall s, (cost s == inject_Z (c s))%Q) -> (budget == inject_Z B)%Q ->
    (forall s inc s', inc <> [] -> stepped (fun _ => M) s inc = Some s' -> (c s < c s')%Z) ->
    forall st, Z.to_nat (B - c st) <= max_iter -> opt st <> IterExceeded.
  Proof.
    intros Hc Hb Hinc st H. unfold optimize_coded.
    apply (run_fuel_enough_measure _ _ _ _ _ (fun s => Z.to_nat (B - c s))); [|exact H].
    intros s inc s' (_ & N & S & C & _).
    assert (L := Hinc _ _ _ N S). rewrite (Hc s'), Hb in C. rewrite <- Zle_Qle in C. lia.
  Qed.

  Theorem coded_never_type_error st : opt st <> Impossible.
  Proof. apply run_not_impossible. Qed.

  Theorem coded_steps_bound st st' k : opt st = Done st' k -> k + room M st' <= room M st.
  Proof.
    intros R. apply run_steps_bound in R; [|apply coded_in_range]. rewrite !pot_const in R. lia.
  Qed.

  Theorem coded_result st st' k : opt st = Done st' k ->
    le_state st st' /\
    (forall j, nth j st' 0 <= Nat.max (nth j st 0) M) /\
    ((st' = st /\ k = 0) \/ (0 < k /\ (cost st' <= budget)%Q)).
  Proof. intros R. destruct (run_result _ _ _ _ _ _ _ _ _ _ R) as (A & B & C & _). auto. Qed.

  (* local optimality over multisets: no candidate multiset of raises that is legal, affordable and
     costs more keeps the value (for a positive value) *)
  Theorem coded_locally_optimal st st' k : opt st = Done st' k -> (0 < value st')%Q ->
    forall m s2, candidate st' m -> stepped (fun _ => M) st' m = Some s2 ->
                 (cost s2 <= budget)%Q -> (cost st' < cost s2)%Q ->
    (value s2 <= value st' * (1 - (cost s2 - cost st')))%Q /\ (value s2 < value st')%Q.
  Proof.
    intros R Hv m s2 (N & L & F) S C D.
    destruct (run_result _ _ _ _ _ _ _ _ _ _ R) as ([Len _] & _ & _ & A).
    rewrite <- Len in F.
    destruct (cumulated_complete (length st) step_size m N L F) as (t & I & P).
    rewrite <- (stepped_perm _ t m st' P) in S.
    eapply rejected_no_gain; eauto.
  Qed.

  (* with an objective that never falls along a legal increment: the result is at least as good as the start *)
  Theorem coded_never_worse :
    (forall s inc s', stepped (fun _ => M) s inc = Some s' -> (value s <= value s')%Q) ->
    forall st st' k, opt st = Done st' k -> (value st <= value st')%Q.
  Proof.
    intros H st st' k R. eapply run_never_worse; [|exact R].
    intros s inc s' (_ & _ & S & _). eapply H; eauto.
  Qed.

  (* ... and then the loop only stops when nothing legal is affordable any more (it spends the budget) *)
  Theorem coded_exhausts :
    (forall s, (0 < value s)%Q) ->
    (forall s inc s', stepped (fun _ => M) s inc = Some s' -> (value s <= value s')%Q) ->
    (forall s inc s', inc <> [] -> stepped (fun _ => M) s inc = Some s' -> (cost s < cost s')%Q) ->
    forall st st' k, opt st = Done st' k ->
    forall m s2, candidate st' m -> stepped (fun _ => M) st' m = Some s2 -> (budget < cost s2)%Q.
  Proof.
    intros Hp Hm Hc st st' k R m s2 Cd S. apply Qnot_le_lt. intros C.
    assert (N : m <> []) by apply Cd.
    destruct (coded_locally_optimal st st' k R (Hp st') m s2 Cd S C (Hc _ _ _ N S)) as [_ L].
    revert L. apply Qle_not_lt. eapply Hm; eauto.
  Qed.

  Theorem coded_total :
    (forall s, ~ (value s == 0)%Q) ->
    (forall s inc s', inc <> [] -> stepped (fun _ => M) s inc = Some s' -> ~ (cost s' - cost s == 0)%Q) ->
    forall st, room M st <= max_iter -> exists st' k, opt st = Done st' k.
  Proof.
    intros Hv Hc st H. unfold optimize_coded. apply run_total; auto.
    - intros s inc s' I. apply Hc. apply (cumulated_sound _ _ _ I).
    - apply coded_in_range.
    - rewrite pot_const. exact H.
  Qed.
End Coded.

(* ------------------------------------------------------------------ examples *)
(* two slots, maximum 3, unit costs, concave gains, budget 4, step size 2: a non-trivial run
   (four iterations, the budget binds) that satisfies the hypotheses of all theorems above *)
Definition ex_value : fn := FSum 100 [[0; 5; 9; 12]; [0; 4; 6; 7]]%Q.
Definition ex_cost : fn := FSum 0 [[0; 1; 2; 3]; [0; 1; 2; 3]]%Q.

Example ex_run :
  optimize_coded (eval_fn ex_value) (eval_fn ex_cost) 3 4 2 999 [0; 0] = Done [3; 1] 4
  /\ trace_coded (eval_fn ex_value) (eval_fn ex_cost) 3 4 2 999 [0; 0] = [[1; 0]; [2; 0]; [2; 1]; [3; 1]].
Proof. vm_compute. split; reflexivity. Qed.

(* never-worse is NOT unconditional: the loop accepts any increment whose reward exceeds -1.  With
   positive values 100, 90, 80 and unit costs the optimizer walks down to the worst state. *)
Definition bad_value : fn := FSum 100 [[0; (-10) # 1; (-20) # 1]]%Q.
Definition bad_cost : fn := FSum 0 [[0; 1; 2]]%Q.

Example never_worse_needs_monotone :
  exists value cost M budget step_size max_iter st st' k,
    (forall s, (0 < value s)%Q) /\
    optimize_coded value cost M budget step_size max_iter st = Done st' k /\ (value st' < value st)%Q.
Proof.
  exists (eval_fn bad_value), (eval_fn bad_cost), 2, 2%Q, 1, 999, [0], [2], 2.
  split; [|split].
  - intros [|[|[|[|[|x]]]] r]; reflexivity.
  - vm_compute. reflexivity.
  - reflexivity.
Qed.
