(* Non-vacuity of the dispatch theorems: a concrete system evaluated by vm_compute.
   Entities and payloads are integers.  Three components:
     atk   default state {cooldown}; reducers use / elapse / after; listens "$.done.global.damage" -> after
     buff  default state {stack}; bind target_cd -> ".atk.cooldown" (another component's entity);
           reducers trigger / elapse; listens "$.emitted.global.damage" -> trigger  (a '$' listener)
     combo default state {}; reducer use; addon: when "use" -> dispatch ("buff", "trigger", 7)
   installed as kms.get_builder does: components in order, the timer last. *)
From Coq Require Import List Bool Arith String Ascii ZArith Lia.
From V.Model Require Import Router Play Dispatch.
From V.Proofs Require Import RouterCache DispatchStore DispatchRouter DispatchPlay.
Import ListNotations.
Local Open Scope string_scope.
Local Open Scope Z_scope.

Definition Ent := Z.
Definition Pay := Z.
Definition xspent (ck : Ent) (p : Pay) : option Ent := Some (ck + p).
Notation ev := (Dispatch.event Pay).
Notation act := (Dispatch.action Pay).

Definition fget (fs : list (string * Ent)) (k : string) : Z := match dget fs k with Some v => v | None => 0 end.
Definition mkev (name : string) (tag : option string) (p : Pay) : ev :=
  {| ev_name := name; ev_pay := p; ev_method := ""; ev_tag := tag; ev_handler := None |}.

(* atk *)
Definition atk_use : reducer Ent Pay := fun _ fs =>
  if 0 <? fget fs "cooldown" then Some (fs, RList [mkev "atk" (Some REJECT) 0])
  else Some (dset fs "cooldown" 5, RList [mkev "atk" (Some "global.damage") 40; mkev "atk" (Some "global.delay") 3]).
Definition atk_elapse : reducer Ent Pay := fun t fs =>
  Some (dset fs "cooldown" (Z.max 0 (fget fs "cooldown" - t)), ROne (mkev "atk" (Some "global.elapsed") t)).
Definition atk_after : reducer Ent Pay := fun _ fs => Some (fs, RNone).
Definition mp (m : string) (r : reducer Ent Pay) : mapping Ent Pay := {| m_method := Some m; m_red := Some r |}.
Definition atk : component Ent Pay :=
  {| c_name := "atk";
     c_maps := [("atk.use", mp "use" atk_use); ("atk.elapse", mp "elapse" atk_elapse); ("atk.after", mp "after" atk_after);
                ("*.use", mp "use" atk_use); ("*.elapse", mp "elapse" atk_elapse); ("*.after", mp "after" atk_after);
                ("$.done.global.damage", mp "after" atk_after)];
     c_default := [("cooldown", 0)]; c_binds := []; c_addons := [] |}.
(* buff *)
Definition buff_trigger : reducer Ent Pay := fun p fs =>
  Some (dset fs "stack" (fget fs "stack" + 1), RNone).
Definition buff_elapse : reducer Ent Pay := fun t fs => Some (fs, ROne (mkev "buff" (Some "global.elapsed") t)).
Definition buff : component Ent Pay :=
  {| c_name := "buff";
     c_maps := [("buff.trigger", mp "trigger" buff_trigger); ("buff.elapse", mp "elapse" buff_elapse);
                ("*.trigger", mp "trigger" buff_trigger); ("*.elapse", mp "elapse" buff_elapse);
                ("$.emitted.global.damage", mp "trigger" buff_trigger)];
     c_default := [("stack", 0)]; c_binds := [("target_cd", ".atk.cooldown")]; c_addons := [] |}.
(* combo *)
Definition combo_use : reducer Ent Pay := fun _ fs => Some (fs, RNone).
Definition combo : component Ent Pay :=
  {| c_name := "combo"; c_maps := [("combo.use", mp "use" combo_use); ("*.use", mp "use" combo_use)];
     c_default := []; c_binds := [];
     c_addons := [{| ad_when := "use"; ad_action := {| a_name := "buff"; a_method := "trigger"; a_pay := 7; a_addon := false |} |}] |}.

Definition comps := [atk; buff; combo].
Definition sys := shipped_system Ent Pay comps.
Definition ds := installed Ent Pay 0 0 xspent sys.
(* bare_store + init_store of every component *)
Definition st0 : Dispatch.store Ent :=
  [("global.dynamics", 100); ("global.time", 0); (".atk.cooldown", 0); (".buff.stack", 0)].
Definition A (n m : string) (p : Pay) : act := {| a_name := n; a_method := m; a_pay := p; a_addon := false |}.
Definition run (a : act) (st : Dispatch.store Ent) :=
  snd (Dispatch.dispatch_c Ent Pay 5 ds [] a (st, [])).

(* bound names: defaults, the component's bind, and GlobalProperty's dynamics bind; resolved addresses *)
Example bound_of_buff : bound_addrs Ent Pay buff = [".buff.stack"; ".atk.cooldown"; "global.dynamics"].
Proof. vm_compute. reflexivity. Qed.
Example guards_hold : clock_unbound Ent Pay comps = true /\ addons_no_elapse Ent Pay comps = true.
Proof. split; vm_compute; reflexivity. Qed.

(* _find_mapping_name: exact key first, then the first '$' key whose remainder is a substring *)
Example find_exact : find_mapping Ent Pay atk "atk.use" = FFound "atk.use".
Proof. vm_compute. reflexivity. Qed.
Example find_dollar_listener : find_mapping Ent Pay buff "atk.use.emitted.global.damage" = FFound "$.emitted.global.damage".
Proof. vm_compute. reflexivity. Qed.
Example find_dollar_is_substring_not_suffix :
  find_mapping Ent Pay buff "x.y.emitted.global.damage.z" = FFound "$.emitted.global.damage".
Proof. vm_compute. reflexivity. Qed.
Example find_none : find_mapping Ent Pay buff "atk.use.done.global.damage" = FNone.
Proof. vm_compute. reflexivity. Qed.
Example find_empty_key_raises : find_mapping_keys ["a.b"; ""; "$x"] "zzz" = FRaise.
Proof. vm_compute. reflexivity. Qed.

(* an accepted use: events tagged with the method, ACCEPT appended, only ".atk.cooldown" written *)
Example accepted_use :
  run (A "atk" "use" 0) st0 =
  Some (([("global.dynamics", 100); ("global.time", 0); (".atk.cooldown", 5); (".buff.stack", 0)],
         [{| i_comp := "atk"; i_key := "atk.use"; i_method := "use"; i_pay := 0; i_addon := false |}]),
        [{| ev_name := "atk"; ev_pay := 40; ev_method := "use"; ev_tag := Some "global.damage"; ev_handler := None |};
         {| ev_name := "atk"; ev_pay := 3; ev_method := "use"; ev_tag := Some "global.delay"; ev_handler := None |};
         {| ev_name := "atk"; ev_pay := 0; ev_method := "use"; ev_tag := Some ACCEPT; ev_handler := None |}]).
Proof. vm_compute. reflexivity. Qed.

(* C07: the same action while cooling down: one event, tagged REJECT, no ACCEPT, store unchanged *)
Definition st_cd : Dispatch.store Ent :=
  [("global.dynamics", 100); ("global.time", 0); (".atk.cooldown", 5); (".buff.stack", 0)].
Example rejected_use :
  run (A "atk" "use" 0) st_cd =
  Some ((st_cd, [{| i_comp := "atk"; i_key := "atk.use"; i_method := "use"; i_pay := 0; i_addon := false |}]),
        [{| ev_name := "atk"; ev_pay := 0; ev_method := "use"; ev_tag := Some REJECT; ev_handler := None |}]).
Proof. vm_compute. reflexivity. Qed.
(* the hypotheses of store_unchanged_on_reject are satisfiable: this is an instance of it *)
Example rejected_use_by_theorem :
  exists st', call_comp Ent Pay 0 atk (A "atk" "use" 0) (st_cd, []) =
    Some ((st', [{| i_comp := "atk"; i_key := "atk.use"; i_method := "use"; i_pay := 0; i_addon := false |}]),
          [{| ev_name := "atk"; ev_pay := 0; ev_method := "use"; ev_tag := Some REJECT; ev_handler := None |}]) /\
    ext_eq Ent st_cd st'.
Proof.
  eapply (store_unchanged_on_reject Ent Pay 0 atk (A "atk" "use" 0) st_cd [] "atk.use" atk_use "use" st_cd
            [("cooldown", 5); ("dynamics", 100)] (RList [mkev "atk" (Some REJECT) 0]) (mkev "atk" (Some REJECT) 0)).
  - vm_compute. reflexivity.
  - discriminate.
  - vm_compute. reflexivity.
  - intros x I. vm_compute in I. unfold present.
    destruct I as [E|[E|[]]]; subst x; vm_compute; discriminate.
  - vm_compute. reflexivity.
  - vm_compute. reflexivity.
  - reflexivity.
  - reflexivity.
Qed.

(* the guard "every bound address is present" is needed: read_entity with a default is setdefault, so a
   REJECTED dispatch on a store that lacks a defaulted entity CREATES it (reachable only for a store
   that was not initialised by EngineBuilder.add_component / not restored from a checkpoint) *)
Definition st_missing : Dispatch.store Ent := [("global.dynamics", 100); ("global.time", 0)].
Definition always_reject : reducer Ent Pay := fun _ fs => Some (fs, ROne (mkev "r" (Some REJECT) 0)).
Definition rcomp : component Ent Pay :=
  {| c_name := "r"; c_maps := [("r.use", mp "use" always_reject)]; c_default := [("cooldown", 9)]; c_binds := []; c_addons := [] |}.
Example reject_creates_missing_default :
  exists st' tr' e, call_comp Ent Pay 0 rcomp (A "r" "use" 0) (st_missing, []) = Some ((st', tr'), [e]) /\
                    ev_tag e = Some REJECT /\ dget st_missing ".r.cooldown" = None /\ dget st' ".r.cooldown" = Some 9.
Proof. eexists; eexists; eexists. vm_compute. repeat split; reflexivity. Qed.

(* a silent answer (no events) is acknowledged *)
Example silent_gets_accept :
  snd (match run (A "combo" "use" 0) st0 with Some r => r | None => ((st0, []), []) end) =
  [{| ev_name := "combo"; ev_pay := 0; ev_method := "use"; ev_tag := Some ACCEPT; ev_handler := None |};
   {| ev_name := "buff"; ev_pay := 0; ev_method := "trigger"; ev_tag := Some ACCEPT; ev_handler := None |}].
Proof. vm_compute. reflexivity. Qed.
(* ... and the invocation its addon caused carries the mark, so it is not counted as a direct one *)
Example addon_invocation_marked :
  match run (A "combo" "use" 0) st0 with
  | Some ((_, tr), _) =>
      tr = [{| i_comp := "combo"; i_key := "combo.use"; i_method := "use"; i_pay := 0; i_addon := false |};
            {| i_comp := "buff"; i_key := "buff.trigger"; i_method := "trigger"; i_pay := 7; i_addon := true |}] /\
      top_only Pay tr = flat_map (direct Ent Pay (A "combo" "use" 0)) sys
  | None => False
  end.
Proof. vm_compute. split; reflexivity. Qed.

(* statically touched addresses: "combo.use" reaches buff's entities through the addon *)
Example touched_combo :
  touched Ent Pay 5 sys "combo.use" = ["global.dynamics"; ".buff.stack"; ".atk.cooldown"; "global.dynamics"].
Proof. vm_compute. reflexivity. Qed.
Example touched_elapse_has_clock : existsb (String.eqb clock_addr) (touched Ent Pay 5 sys "*.elapse") = true.
Proof. vm_compute. reflexivity. Qed.

(* C05 / C06 on two plays: use, then elapse 2 *)
Notation pact := (Play.action Pay string string (option string)).
Definition PA (n m : string) (p : Play.apay Pay) : pact :=
  {| aname := n; am := Direct string (option string) m; ap := p |}.
Definition pst0 : Play.store (pst Ent Pay) Pay string string (option string) :=
  {| ent := {| p_cache := []; p_store := st0; p_trace := []; p_ok := true |}; cbs := [] |}.
Definition two_plays :=
  let '(st1, E1, q1) := pplay Ent Pay 0 (fun t => t) 5 ds pst0 (PA "atk" "use" (PNone Pay)) in
  let '(st2, E2, q2) := pplay Ent Pay 0 (fun t => t) 5 ds st1 (PA "*" "elapse" (PTime Pay 2)) in
  (List.length E1, p_trace (ent _ _ _ _ _ st1), p_trace (ent _ _ _ _ _ st2), p_store (ent _ _ _ _ _ st2), p_ok (ent _ _ _ _ _ st2)).

Example two_plays_trace :
  two_plays =
  (3%nat,
   [{| i_comp := "atk"; i_key := "atk.use"; i_method := "use"; i_pay := 0; i_addon := false |}],
   [{| i_comp := "atk"; i_key := "atk.use"; i_method := "use"; i_pay := 0; i_addon := false |};
    (* before: the emitted callback of the DAMAGE event, offered once to the '$' listener of buff *)
    {| i_comp := "buff"; i_key := "$.emitted.global.damage"; i_method := "trigger"; i_pay := 40; i_addon := false |};
    (* the played action itself *)
    {| i_comp := "atk"; i_key := "*.elapse"; i_method := "elapse"; i_pay := 2; i_addon := false |};
    {| i_comp := "buff"; i_key := "*.elapse"; i_method := "elapse"; i_pay := 2; i_addon := false |};
    (* after: the done callback, offered once to the '$' listener of atk *)
    {| i_comp := "atk"; i_key := "$.done.global.damage"; i_method := "after"; i_pay := 40; i_addon := false |}],
   [("global.dynamics", 100); ("global.time", 2); (".atk.cooldown", 3); (".buff.stack", 1)],
   true).
Proof. vm_compute. reflexivity. Qed.

Example cache_starts_coherent : Router.Coh string act (rst Ent Pay) ev String.eqb ds [].
Proof. apply coh_nil. Qed.
