(* C18: soundness and completeness of the whole bonus-option inference of Model/Bonus.v
   (single-valued greedy + heuristic first phase + recursive search), for every gear with a
   non-negative required level and every attack table. *)
From Coq Require Import ZArith List Lia Bool.
From V.Model Require Import Bonus.
From V.Proofs Require Import BonusRec.
Import ListNotations.
Open Scope Z_scope.

(* ------------------------------------------------------------------ list helpers *)
Lemma NoDup_app_intro {A} (a b : list A) :
  NoDup a -> NoDup b -> (forall x, In x a -> ~ In x b) -> NoDup (a ++ b).
Proof.
  induction a as [|x a IH]; cbn; intros Ha Hb Hd; [exact Hb|].
  inversion Ha; subst. constructor.
  - intro Hin. apply in_app_or in Hin. destruct Hin as [Hin|Hin]; [contradiction|].
    apply (Hd x); auto.
  - apply IH; auto.
Qed.
Lemma NoDup_map_filter {A B} (f : A -> B) (p : A -> bool) l :
  NoDup (map f l) -> NoDup (map f (filter p l)).
Proof.
  induction l as [|x l IH]; cbn; intros H; [constructor|]. inversion H; subst.
  destruct (p x); cbn; [constructor|]; auto.
  intro Hin. apply H2. apply in_map_iff in Hin. destruct Hin as [y [E Hy]].
  apply filter_In in Hy. apply in_map_iff. exists y; tauto.
Qed.
Lemma filter_split_length {A} (p : A -> bool) l :
  (length (filter p l) + length (filter (fun x => negb (p x)) l) = length l)%nat.
Proof. induction l as [|x l IH]; cbn; [reflexivity|]. destruct (p x); cbn; lia. Qed.
Lemma map_fst_combine {A B} (a : list A) (b : list B) :
  length a = length b -> map fst (combine a b) = a.
Proof.
  revert b. induction a as [|x a IH]; intros [|y b]; cbn; intros H; try reflexivity; try discriminate.
  f_equal. apply IH. lia.
Qed.
Lemma find_not_none {A} (f : A -> bool) l x : In x l -> f x = true -> find f l <> None.
Proof. intros Hin Hf E. apply (find_none _ _ E) in Hin. congruence. Qed.

(* ------------------------------------------------------------------ kinds, coordinates, grades *)
Lemma keqb_spec a b : keqb a b = true <-> a = b.
Proof. destruct a, b; cbn; split; intro H; try reflexivity; discriminate. Qed.
Lemma ceqb_spec a b : ceqb a b = true <-> a = b.
Proof. destruct a, b; cbn; split; intro H; try reflexivity; discriminate. Qed.
Lemma memK_spec k l : memK k l = true <-> In k l.
Proof. exact (memG_spec kind keqb keqb_spec k l). Qed.
Lemma memZ_spec x l : memZ x l = true <-> In x l.
Proof.
  unfold memZ. rewrite existsb_exists. split.
  - intros [y [Hy E]]. apply Z.eqb_eq in E. subst; auto.
  - intros H. exists x. split; auto. apply Z.eqb_refl.
Qed.

Definition is_sdil (k : kind) : bool := kind_idx k <? 10.
Definition is_base (k : kind) : Prop := k = KSTR \/ k = KDEX \/ k = KINT \/ k = KLUK.
Definition valid_grade (ge : gear) (g : Z) : Prop := In g (grade_range ge).

Lemma valid_grade_iff ge g : valid_grade ge g <-> (if boss ge then 3 else 1) <= g <= 7.
Proof.
  unfold valid_grade, grade_range. destruct (boss ge); cbn; split; intro H.
  - intuition lia.
  - assert (g = 3 \/ g = 4 \/ g = 5 \/ g = 6 \/ g = 7) by lia. intuition.
  - intuition lia.
  - assert (g = 1 \/ g = 2 \/ g = 3 \/ g = 4 \/ g = 5 \/ g = 6 \/ g = 7) by lia. intuition.
Qed.
Lemma grades_sdil_valid ge g : In g (grades_sdil ge) <-> valid_grade ge g.
Proof. unfold valid_grade, grades_sdil, grade_range. destruct (boss ge); cbn; intuition. Qed.
Lemma grades_single_valid ge g : In g (grades_single ge) <-> valid_grade ge g.
Proof. unfold valid_grade, grades_single, grade_range. destruct (boss ge); cbn; intuition. Qed.
Lemma valid_grade_pos ge g : valid_grade ge g -> 1 <= g.
Proof. intros H. apply valid_grade_iff in H. destruct (boss ge); lia. Qed.

Lemma single_basis_pos ge : 0 <= req_level ge -> 1 <= single_basis ge.
Proof. intros H. unfold single_basis. pose proof (Z.div_pos (req_level ge) 20 H ltac:(lia)). lia. Qed.
Lemma dual_basis_pos ge : 0 <= req_level ge -> 1 <= dual_basis ge.
Proof. intros H. unfold dual_basis. pose proof (Z.div_pos (req_level ge) 40 H ltac:(lia)). lia. Qed.
Lemma mul_ge1 b g : 1 <= b -> 1 <= g -> 1 <= b * g.
Proof. intros. nia. Qed.

(* ------------------------------------------------------------------ table = improvements *)
Lemma sd_valid ge k g : valid_grade ge g -> sd ge k g = vec_of (impr ge k g).
Proof. intros H. unfold sd. apply memZ_spec in H. rewrite H. reflexivity. Qed.

Notation vsumG ge := (vsum kind (sd ge)).

Lemma vsum_ssum ge l : (forall kg, In kg l -> valid_grade ge (snd kg)) ->
  vsumG ge l = vec_of (ssum ge l).
Proof.
  induction l as [|x l IH]; intros Hg; [reflexivity|].
  rewrite vsum_cons, IH by (intros kg H; apply Hg; right; exact H).
  rewrite sd_valid by (apply Hg; left; reflexivity).
  reflexivity.
Qed.

Lemma ssum_app ge a b c : ssum ge (a ++ b) c = ssum ge a c + ssum ge b c.
Proof. unfold ssum. induction a as [|x a IH]; cbn; [reflexivity|]. rewrite IH. lia. Qed.

(* projections on the coordinate of a base kind *)
Definition proj (k : kind) (v : vec) : Z :=
  let '(a,b,c,d) := v in
  match k with KSTR => a | KDEX => b | KINT => c | KLUK => d | _ => 0 end.
Lemma proj_vsub k a b : proj k (vsub a b) = proj k a - proj k b.
Proof. destruct a as [[[? ?] ?] ?], b as [[[? ?] ?] ?], k; cbn; lia. Qed.
Lemma proj_vadd k a b : proj k (vadd a b) = proj k a + proj k b.
Proof. destruct a as [[[? ?] ?] ?], b as [[[? ?] ?] ?], k; cbn; lia. Qed.
Lemma proj_neg k v : proj k v < 0 -> has_neg v = true.
Proof.
  destruct v as [[[a b] c] d]. unfold has_neg. rewrite !orb_true_iff, !Z.ltb_lt.
  destruct k; cbn; lia.
Qed.
Lemma max_kind_base t : is_base (max_kind t).
Proof.
  destruct t as [[[a b] c] d]. unfold max_kind, is_base.
  destruct (a =? _); [auto|]. destruct (b =? _); [auto|]. destruct (c =? _); auto.
Qed.
Lemma proj_max t : proj (max_kind t) t = max_value t.
Proof.
  destruct t as [[[a b] c] d]. unfold max_kind, max_value.
  destruct (a =? _) eqn:Ea; [apply Z.eqb_eq in Ea; cbn; lia|].
  destruct (b =? _) eqn:Eb; [apply Z.eqb_eq in Eb; cbn; lia|].
  destruct (c =? _) eqn:Ec; [apply Z.eqb_eq in Ec; cbn; lia|].
  apply Z.eqb_neq in Ea, Eb, Ec. cbn. lia.
Qed.

Lemma proj_sd_self ge mk g : is_base mk -> valid_grade ge g ->
  proj mk (sd ge mk g) = single_basis ge * g.
Proof. intros Hb Hg. rewrite sd_valid by exact Hg. destruct Hb as [-> | [-> | [-> | ->]]]; reflexivity. Qed.
Lemma proj_sd_dual ge mk dk g : is_base mk -> In dk (dual_types mk) -> valid_grade ge g ->
  proj mk (sd ge dk g) = dual_basis ge * g.
Proof.
  intros Hb Hd Hg. rewrite sd_valid by exact Hg.
  destruct Hb as [-> | [-> | [-> | ->]]]; cbn in Hd; destruct Hd as [<-|[<-|[<-|[]]]]; reflexivity.
Qed.
Lemma base_not_dual mk : is_base mk -> ~ In mk (dual_types mk).
Proof. intros [-> | [-> | [-> | ->]]]; cbn; intuition discriminate. Qed.
Lemma base_sdil mk : is_base mk -> is_sdil mk = true.
Proof. intros [-> | [-> | [-> | ->]]]; reflexivity. Qed.
Lemma dual_sdil mk dk : In dk (dual_types mk) -> is_sdil dk = true.
Proof. destruct mk; cbn; intuition (subst; reflexivity). Qed.
Lemma dual_types_nodup mk : NoDup (dual_types mk).
Proof.
  destruct mk; cbn; repeat (constructor; [cbn; intuition discriminate|]); constructor.
Qed.
Lemma cands_sdil rem k : In k (cands rem) -> is_sdil k = true.
Proof.
  unfold cands. destruct rem as [[[a b] c] d]. unfold get_index.
  destruct (a =? 0), (b =? 0), (c =? 0), (d =? 0); vm_compute; intuition (subst; reflexivity).
Qed.

(* ------------------------------------------------------------------ the generators *)
Lemma tuples_spec grades n t : In t (tuples grades n) ->
  length t = n /\ forall g, In g t -> In g grades.
Proof.
  revert t. induction n as [|n IH]; cbn; intros t H.
  - destruct H as [<-|[]]. split; [reflexivity|intros ? []].
  - apply in_flat_map in H. destruct H as [g [Hg H]]. apply in_map_iff in H.
    destruct H as [t' [<- Ht']]. destruct (IH _ Ht') as [L G]. split; [cbn; lia|].
    intros x [<-|Hx]; auto.
Qed.

Lemma combs_spec {A} (l : list A) : forall n c, In c (combs l n) ->
  length c = n /\ (forall x, In x c -> In x l) /\ (NoDup l -> NoDup c).
Proof.
  induction l as [|x r IH]; intros [|n] c H; cbn in H.
  - destruct H as [<-|[]]. repeat split; [intros ? []|constructor].
  - destruct H.
  - destruct H as [<-|[]]. repeat split; [intros ? []|constructor].
  - apply in_app_or in H. destruct H as [H|H].
    + apply in_map_iff in H. destruct H as [c' [<- Hc']]. destruct (IH _ _ Hc') as (L & S & N).
      split; [cbn; lia|]. split.
      * intros y [<-|Hy]; [left; reflexivity|right; auto].
      * intros Hn. inversion Hn; subst. constructor; auto.
    + destruct (IH _ _ H) as (L & S & N). split; [exact L|]. split.
      * intros y Hy. right; auto.
      * intros Hn. inversion Hn; subst. auto.
Qed.

Lemma decompose_spec grades left sb db mv sg odg : db <> 0 ->
  In (sg, odg) (decompose grades left sb db mv) ->
  In sg grades /\ (1 <= left)%nat /\
  match odg with
  | None => mv - sg * sb = 0
  | Some dgs => (forall g, In g dgs -> In g grades) /\ (length dgs < left)%nat /\
                mv - sg * sb = db * sumZ dgs
  end.
Proof.
  intros Hdb H. unfold decompose in H.
  apply in_flat_map in H. destruct H as [count [Hc H]]. apply in_seq in Hc.
  apply in_flat_map in H. destruct H as [sg' [Hsg H]]. apply in_app_or in H.
  destruct H as [H|H].
  - destruct (mv - sg' * sb =? 0) eqn:E; [|destruct H]. destruct H as [H|[]].
    inversion H; subst. apply Z.eqb_eq in E. split; [exact Hsg|]. split; [lia|exact E].
  - destruct ((mv - sg' * sb) mod db =? 0) eqn:E; [|destruct H].
    apply in_map_iff in H. destruct H as [t [X Ht]]. inversion X; subst. clear X.
    apply filter_In in Ht. destruct Ht as [Ht Es]. apply tuples_spec in Ht. destruct Ht as [L G].
    apply Z.eqb_eq in E, Es. split; [exact Hsg|]. split; [lia|]. split; [exact G|]. split; [lia|].
    pose proof (Z.div_mod (mv - sg * sb) db Hdb). rewrite Es. lia.
Qed.

(* ------------------------------------------------------------------ heuristic first phase *)
Lemma calc_sdil_vsum ge ts gs : calc_sdil ge ts gs = vsumG ge (combine ts gs).
Proof.
  unfold calc_sdil.
  assert (G : forall l acc, fold_left (fun acc kg => vadd acc (sd ge (fst kg) (snd kg))) l acc
                            = vadd acc (vsumG ge l)).
  { induction l as [|x l IH]; intros acc; cbn [fold_left].
    - change (vsumG ge []) with vzero. rewrite vadd_0_r. reflexivity.
    - rewrite IH, vsum_cons, vadd_assoc. reflexivity. }
  rewrite G, vadd_0_l. reflexivity.
Qed.

Lemma proj_calc ge mk : is_base mk -> forall dt dgs, length dt = length dgs ->
  (forall k, In k dt -> In k (dual_types mk)) -> (forall g, In g dgs -> valid_grade ge g) ->
  proj mk (calc_sdil ge dt dgs) = dual_basis ge * sumZ dgs.
Proof.
  intros Hb dt dgs. rewrite calc_sdil_vsum. revert dgs.
  induction dt as [|k dt IH]; intros [|g dgs] L Hk Hg; try discriminate.
  - cbn. destruct mk; cbn; lia.
  - cbn [combine]. rewrite vsum_cons, proj_vadd. cbn [fst snd sumZ fold_right].
    rewrite (proj_sd_dual ge mk k g Hb) by (try apply Hk; try apply Hg; left; reflexivity).
    fold (sumZ dgs). rewrite IH; [lia|cbn in L; lia| |]; intros; [apply Hk|apply Hg]; right; auto.
Qed.

Lemma sumZ_pos l : (forall g, In g l -> 1 <= g) -> l <> [] -> 1 <= sumZ l.
Proof.
  induction l as [|g l IH]; intros Hp Hne; [congruence|]. cbn.
  pose proof (Hp g (or_introl eq_refl)). destruct l as [|g' l'].
  - cbn. lia.
  - assert (1 <= sumZ (g' :: l')) by (apply IH; [intros; apply Hp; right; auto|discriminate]).
    fold (sumZ (g' :: l')). lia.
Qed.

(* what a successful answer for the target means, on the table level *)
Definition sound_for (ge : gear) (target : vec) (left : nat) (l : list (kind * Z)) : Prop :=
  vsumG ge l = target /\ NoDup (map fst l) /\ (length l <= left)%nat /\
  (forall kg, In kg l -> valid_grade ge (snd kg)) /\ (forall kg, In kg l -> is_sdil (fst kg) = true).

Lemma rec_ge_sound ge left rem forb l : rec_ge ge left rem forb = Some l ->
  vsumG ge l = rem /\ NoDup (map fst l) /\ (forall k, In k (map fst l) -> ~ In k forb) /\
  (length l <= left)%nat /\ (forall kg, In kg l -> valid_grade ge (snd kg)) /\
  (forall kg, In kg l -> is_sdil (fst kg) = true).
Proof.
  intros H. pose proof (rec_sound kind keqb keqb_spec _ _ _ _ _ _ _ H) as (S1 & S2 & S3 & S4 & S5).
  repeat split; auto.
  - intros kg Hin. apply grades_sdil_valid. auto.
  - apply (rec_kinds kind keqb (sd ge) (grades_sdil ge) cands (fun k => is_sdil k = true) cands_sdil _ _ _ _ H).
Qed.

Section Phase1.
  Variable ge : gear.
  Hypothesis Hlvl : 0 <= req_level ge.
  Variable mk : kind.
  Hypothesis Hmk : is_base mk.
  Variable sg : Z.
  Hypothesis Hsg : valid_grade ge sg.
  Variable dgs : list Z.
  Hypothesis Hdgs : forall g, In g dgs -> valid_grade ge g.
  Variable lc : nat.

  Definition wf_combo (dt : list kind) : Prop :=
    length dt = length dgs /\ NoDup dt /\ forall k, In k dt -> In k (dual_types mk).

  (* from the second combination on the maximal coordinate is negative: nothing is returned *)
  Lemma combos_loop_dead : dgs <> [] -> forall cs rem, (forall dt, In dt cs -> wf_combo dt) ->
    proj mk rem <= 0 -> combos_loop ge lc mk sg dgs rem cs = None.
  Proof.
    intros Hne. induction cs as [|dt cs IH]; intros rem Hwf Hp; cbn [combos_loop]; [reflexivity|].
    destruct (Hwf dt (or_introl eq_refl)) as (L & N & S).
    assert (Hneg : proj mk (vsub rem (calc_sdil ge dt dgs)) < 0).
    { rewrite proj_vsub, (proj_calc ge mk Hmk dt dgs L S Hdgs).
      pose proof (dual_basis_pos ge Hlvl).
      assert (1 <= sumZ dgs) by (apply sumZ_pos; [intros g Hg; apply (valid_grade_pos ge); auto|exact Hne]).
      nia. }
    unfold rec_ge at 1. rewrite rec_neg_none by (apply keqb_spec || (eapply proj_neg; exact Hneg)).
    apply IH; [intros; apply Hwf; right; auto|lia].
  Qed.

  Lemma combos_loop_sound cs rem l : (forall dt, In dt cs -> wf_combo dt) ->
    (dgs = [] -> (length cs <= 1)%nat) ->
    proj mk rem = dual_basis ge * sumZ dgs ->
    combos_loop ge lc mk sg dgs rem cs = Some l ->
    vsumG ge l = vadd (sd ge mk sg) rem /\ NoDup (map fst l) /\
    (length l <= lc + 1 + length dgs)%nat /\
    (forall kg, In kg l -> valid_grade ge (snd kg)) /\ (forall kg, In kg l -> is_sdil (fst kg) = true).
  Proof.
    intros Hwf H1 Hp H. destruct cs as [|dt cs]; [discriminate|]. cbn [combos_loop] in H.
    destruct (Hwf dt (or_introl eq_refl)) as (L & N & S).
    destruct (rec_ge ge lc (vsub rem (calc_sdil ge dt dgs)) (mk :: dt)) as [r|] eqn:Er.
    - inversion H; subst l; clear H.
      destruct (rec_ge_sound _ _ _ _ _ Er) as (S1 & S2 & S3 & S4 & S5 & S6).
      assert (Hfst : map fst (combine dt dgs) = dt) by (apply map_fst_combine; exact L).
      split; [|split; [|split; [|split]]].
      + rewrite !vsum_app, S1, vsum_cons, <- calc_sdil_vsum. cbn [fst snd].
        destruct rem as [[[? ?] ?] ?], (calc_sdil ge dt dgs) as [[[? ?] ?] ?], (sd ge mk sg) as [[[? ?] ?] ?].
        cbn. f_equal; [f_equal; [f_equal|]|]; lia.
      + rewrite map_app. cbn [map fst]. rewrite Hfst. apply NoDup_app_intro; [exact S2| |].
        * constructor; [|exact N]. intro Hin. apply (base_not_dual mk Hmk). auto.
        * intros k Hk. apply S3. exact Hk.
      + rewrite app_length. cbn [length]. rewrite combine_length. lia.
      + intros kg Hin. apply in_app_or in Hin. destruct Hin as [Hin|[<-|Hin]]; [auto|exact Hsg|].
        destruct kg as [k g]. apply in_combine_r in Hin. cbn. auto.
      + intros kg Hin. apply in_app_or in Hin.
        destruct Hin as [Hin|[<-|Hin]]; [auto|apply base_sdil; exact Hmk|].
        destruct kg as [k g]. apply in_combine_l in Hin. cbn. eapply dual_sdil. apply S. exact Hin.
    - exfalso. destruct dgs as [|g0 dgs'] eqn:Ed.
      + specialize (H1 eq_refl). destruct cs; [discriminate|cbn in H1; lia].
      + rewrite <- Ed in *. rewrite combos_loop_dead in H; [discriminate|rewrite Ed; discriminate| |].
        * intros; apply Hwf; right; auto.
        * rewrite proj_vsub, (proj_calc ge mk Hmk dt dgs L S Hdgs). lia.
  Qed.
End Phase1.

Lemma try_decomp_sound ge left target d l : 0 <= req_level ge ->
  In d (decompose (grades_sdil ge) left (single_basis ge) (dual_basis ge) (max_value target)) ->
  try_decomp ge left target (max_kind target) d = Some l -> sound_for ge target left l.
Proof.
  intros Hlvl Hd H. destruct d as [sg odg].
  pose proof (dual_basis_pos ge Hlvl) as Hdb.
  apply decompose_spec in Hd; [|lia]. destruct Hd as (Hsg & Hleft & Hod).
  apply grades_sdil_valid in Hsg.
  pose proof (max_kind_base target) as Hmk. set (mk := max_kind target) in *.
  unfold try_decomp in H. destruct odg as [dgs|].
  - destruct Hod as (Hg & Hlen & Hmv).
    assert (Hdgs : forall g, In g dgs -> valid_grade ge g) by (intros; apply grades_sdil_valid; auto).
    apply (combos_loop_sound ge Hlvl mk Hmk sg Hsg dgs Hdgs) in H.
    + destruct H as (S1 & S2 & S3 & S4 & S5). repeat split; auto.
      * rewrite S1. destruct target as [[[? ?] ?] ?], (sd ge mk sg) as [[[? ?] ?] ?]. cbn.
        f_equal; [f_equal; [f_equal|]|]; lia.
      * lia.
    + intros dt Hdt. apply combs_spec in Hdt. destruct Hdt as (L & S & N).
      split; [exact L|]. split; [apply N; apply dual_types_nodup|exact S].
    + intros ->. cbn [length]. destruct (dual_types mk); cbn; lia.
    + rewrite proj_vsub. unfold mk at 1. rewrite proj_max. rewrite (proj_sd_self ge mk sg Hmk Hsg). lia.
  - destruct (rec_ge ge (left - 1) (vsub target (sd ge mk sg)) [mk]) as [r|] eqn:Er; [|discriminate].
    inversion H; subst l; clear H.
    destruct (rec_ge_sound _ _ _ _ _ Er) as (S1 & S2 & S3 & S4 & S5 & S6).
    repeat split.
    + rewrite vsum_app, S1. cbn [vsumG vsum fold_right fst snd].
      destruct target as [[[? ?] ?] ?], (sd ge mk sg) as [[[? ?] ?] ?]. cbn.
      f_equal; [f_equal; [f_equal|]|]; lia.
    + rewrite map_app. cbn. apply NoDup_snoc; auto. intro Hin. apply (S3 mk Hin). left; reflexivity.
    + rewrite app_length. cbn. lia.
    + intros kg Hin. apply in_app_or in Hin. destruct Hin as [Hin|[<-|[]]]; auto.
    + intros kg Hin. apply in_app_or in Hin. destruct Hin as [Hin|[<-|[]]]; auto. apply base_sdil; exact Hmk.
Qed.

Theorem search_bonus_sound ge target left l : 0 <= req_level ge ->
  search_bonus ge target left = Some l -> sound_for ge target left l.
Proof.
  intros Hlvl H. unfold search_bonus in H.
  destruct (is_zero target) eqn:Z0.
  - inversion H; subst. apply is_zero_spec in Z0. subst target.
    repeat split; [constructor|cbn; lia|intros ? []|intros ? []].
  - destruct (find_some _ _) as [r|] eqn:F.
    + inversion H; subst r; clear H. apply find_some_some in F. destruct F as [d [Hd Hr]].
      eapply try_decomp_sound; eauto.
    + destruct (rec_ge_sound _ _ _ _ _ H) as (S1 & S2 & S3 & S4 & S5 & S6). repeat split; auto.
Qed.

(* ------------------------------------------------------------------ single-valued options *)
Definition touch_only (ge : gear) (c : coord) (k : kind) : Prop :=
  forall g c', c' <> c -> impr ge k g c' = 0.
Definition memC (c : coord) (l : list coord) : bool := existsb (ceqb c) l.
Lemma memC_spec c l : memC c l = true <-> In c l.
Proof.
  unfold memC. rewrite existsb_exists. split.
  - intros [y [Hy E]]. apply ceqb_spec in E. subst; auto.
  - intros H. exists c. split; auto. apply ceqb_spec. reflexivity.
Qed.

Lemma single_props_touch ge p : In p single_props -> touch_only ge (fst p) (snd p).
Proof.
  intros H g c' Hc. cbn in H.
  repeat (destruct H as [<-|H]; [destruct c'; try reflexivity; cbn in Hc; congruence|]). destruct H.
Qed.

Definition pos_props (obs : stat) (props : list (coord * kind)) : list (coord * kind) :=
  filter (fun p => 0 <? obs (fst p)) props.

Lemma singles_spec ge obs props sl : singles ge obs props = inl sl ->
  map fst sl = map snd (pos_props obs props) /\
  (forall kg, In kg sl -> In (snd kg) (grades_single ge)) /\
  Forall2 (fun kg p => fst kg = snd p /\ impr ge (fst kg) (snd kg) (fst p) = obs (fst p)) sl (pos_props obs props).
Proof.
  revert sl. induction props as [|[c k] r IH]; intros sl H; cbn in H.
  - inversion H; subst. repeat split; [intros ? []|constructor].
  - unfold pos_props. cbn [filter fst]. fold (pos_props obs r).
    destruct (0 <? obs c) eqn:P.
    + destruct (find_grade ge obs c k) as [g|] eqn:F; [|discriminate].
      destruct (singles ge obs r) as [l|e] eqn:E; [|discriminate]. inversion H; subst sl; clear H.
      destruct (IH l eq_refl) as (M & G & A). unfold find_grade in F. apply List.find_some in F.
      destruct F as [Fi Fe]. apply Z.eqb_eq in Fe.
      split; [cbn; f_equal; exact M|]. split.
      * intros kg [<-|Hin]; [exact Fi|auto].
      * constructor; [cbn; auto|exact A].
    + apply IH. exact H.
Qed.

(* the sum of the single-valued options found, per field *)
Lemma singles_sum ge obs props : (forall p, In p props -> touch_only ge (fst p) (snd p)) ->
  NoDup (map fst props) -> forall sl, singles ge obs props = inl sl ->
  forall c, ssum ge sl c = if memC c (map fst props) && (0 <? obs c) then obs c else 0.
Proof.
  induction props as [|[c0 k0] r IH]; intros Ht Hn sl H c; cbn in H.
  - inversion H; subst. reflexivity.
  - inversion Hn; subst. cbn [map fst memC existsb].
    assert (Ht' : forall p, In p r -> touch_only ge (fst p) (snd p)) by (intros; apply Ht; right; auto).
    destruct (0 <? obs c0) eqn:P.
    + destruct (find_grade ge obs c0 k0) as [g|] eqn:F; [|discriminate].
      destruct (singles ge obs r) as [l|e] eqn:E; [|discriminate]. inversion H; subst sl; clear H.
      unfold find_grade in F. apply List.find_some in F. destruct F as [_ Fe]. apply Z.eqb_eq in Fe.
      unfold ssum. cbn [fold_right fst snd]. fold (ssum ge l c). rewrite (IH Ht' H3 l eq_refl c).
      destruct (ceqb c c0) eqn:Ec.
      * apply ceqb_spec in Ec. subst c0. rewrite Fe, P. cbn [orb andb].
        assert (memC c (map fst r) = false) as ->.
        { destruct (memC c (map fst r)) eqn:M; auto. apply memC_spec in M. contradiction. }
        cbn. lia.
      * assert (c <> c0) by (intro; subst; rewrite (proj2 (ceqb_spec c0 c0) eq_refl) in Ec; discriminate).
        pose proof (Ht (c0, k0) (or_introl eq_refl) g c H) as Hz. cbn [fst snd] in Hz. rewrite Hz.
        cbn [orb]. unfold memC. lia.
    + rewrite (IH Ht' H3 sl H c). destruct (ceqb c c0) eqn:Ec; [|reflexivity].
      apply ceqb_spec in Ec. subst c0. rewrite P.
      cbn [orb]. rewrite !andb_false_r. reflexivity.
Qed.

Lemma single_coord_sdil_zero ge k g c : is_sdil k = true -> In c (map fst single_props) ->
  impr ge k g c = 0.
Proof.
  intros Hk Hc. cbn in Hc.
  destruct k; try discriminate; repeat (destruct Hc as [<-|Hc]; [reflexivity|]); destruct Hc.
Qed.
Lemma sdil_coord_single_zero ge k g c : is_sdil k = false -> ~ In c (map fst single_props) ->
  impr ge k g c = 0.
Proof.
  intros Hk Hc. destruct k; try discriminate; destruct c; try reflexivity; exfalso; apply Hc; cbn; tauto.
Qed.
Lemma ssum_zero ge l c : (forall kg, In kg l -> impr ge (fst kg) (snd kg) c = 0) -> ssum ge l c = 0.
Proof.
  unfold ssum. induction l as [|x l IH]; intros H; cbn; [reflexivity|].
  rewrite (H x (or_introl eq_refl)), IH; [reflexivity|]. intros; apply H; right; auto.
Qed.
Lemma vec_of_ext (a b : stat) : (forall c, ~ In c (map fst single_props) -> a c = b c) -> vec_of a = vec_of b.
Proof.
  intros H. unfold vec_of.
  rewrite (H cSTR), (H cDEX), (H cINT), (H cLUK); [reflexivity| | | |]; cbn; intuition discriminate.
Qed.
Lemma vec_of_inj_sdil (a b : stat) c : vec_of a = vec_of b -> ~ In c (map fst single_props) -> a c = b c.
Proof.
  unfold vec_of. intros E Hc. inversion E.
  destruct c; try assumption; exfalso; apply Hc; cbn; tauto.
Qed.

(* ------------------------------------------------------------------ C18, first sentence *)
Theorem search_sound : forall ge obs l,
  0 <= req_level ge ->
  (forall p, In p single_props -> 0 <= obs (fst p)) ->
  compute ge obs = Ok l ->
  (length l <= 4)%nat /\ NoDup (map fst l) /\ (forall kg, In kg l -> valid_grade ge (snd kg)) /\
  (forall c, ssum ge l c = obs c).
Proof.
  intros ge obs l Hlvl Hpos H. unfold compute in H.
  destruct (singles ge obs single_props) as [sl|e] eqn:Es; [|discriminate].
  set (left := max_bonus - Z.of_nat (length sl)) in *.
  destruct (left <? 0) eqn:El; [discriminate|]. apply Z.ltb_ge in El.
  destruct (search_bonus ge (vec_of obs) (Z.to_nat left)) as [l2|] eqn:E2; [|discriminate].
  inversion H; subst l; clear H.
  destruct (search_bonus_sound _ _ _ _ Hlvl E2) as (S1 & S2 & S3 & S4 & S5).
  destruct (singles_spec _ _ _ _ Es) as (M & G & A).
  assert (Hsl_single : forall k, In k (map fst sl) -> is_sdil k = false).
  { intros k Hk. rewrite M in Hk. apply in_map_iff in Hk. destruct Hk as [p [<- Hp]].
    apply filter_In in Hp. destruct Hp as [Hp _]. cbn in Hp.
    repeat (destruct Hp as [<-|Hp]; [reflexivity|]). destruct Hp. }
  split; [|split; [|split]].
  - rewrite app_length. unfold left, max_bonus in *. lia.
  - rewrite map_app. apply NoDup_app_intro; [| exact S2 |].
    + rewrite M. apply NoDup_map_filter. cbn. repeat (constructor; [cbn; intuition discriminate|]). constructor.
    + intros k Hk Hk2. apply Hsl_single in Hk. apply in_map_iff in Hk2. destruct Hk2 as [kg [<- Hkg]].
      rewrite (S5 kg Hkg) in Hk. discriminate.
  - intros kg Hin. apply in_app_or in Hin. destruct Hin as [Hin|Hin]; [|auto].
    apply grades_single_valid. auto.
  - intros c. rewrite ssum_app.
    rewrite (singles_sum ge obs single_props (single_props_touch ge)
               ltac:(cbn; repeat (constructor; [cbn; intuition discriminate|]); constructor) sl Es c).
    destruct (memC c (map fst single_props)) eqn:Mc.
    + apply memC_spec in Mc. rewrite ssum_zero by (intros; apply single_coord_sdil_zero; auto).
      assert (0 <= obs c).
      { apply in_map_iff in Mc. destruct Mc as [p [<- Hp]]. auto. }
      cbn [andb]. destruct (0 <? obs c) eqn:P; [lia|]. apply Z.ltb_ge in P. lia.
    + assert (Hc : ~ In c (map fst single_props)) by (intro X; apply memC_spec in X; congruence).
      cbn [andb]. rewrite (vsum_ssum ge l2 S4) in S1. rewrite (vec_of_inj_sdil _ _ c S1 Hc). lia.
Qed.

(* ------------------------------------------------------------------ the candidate table is complete *)
Lemma sd_nonneg_ge ge : 0 <= req_level ge -> forall k g, In g (grades_sdil ge) -> vnonneg (sd ge k g).
Proof.
  intros Hlvl k g Hg. apply grades_sdil_valid in Hg. rewrite sd_valid by exact Hg.
  pose proof (single_basis_pos ge Hlvl). pose proof (dual_basis_pos ge Hlvl).
  pose proof (valid_grade_pos ge g Hg).
  destruct k; cbn; repeat split; try lia; nia.
Qed.

Lemma cands_complete_ge ge : 0 <= req_level ge -> forall rem k g, In g (grades_sdil ge) ->
  vle (sd ge k g) rem -> sd ge k g <> vzero -> In k (cands rem).
Proof.
  intros Hlvl rem k g Hg Hle Hnz. apply grades_sdil_valid in Hg. rewrite sd_valid in Hle, Hnz by exact Hg.
  pose proof (mul_ge1 _ _ (single_basis_pos ge Hlvl) (valid_grade_pos ge g Hg)) as Bs.
  pose proof (mul_ge1 _ _ (dual_basis_pos ge Hlvl) (valid_grade_pos ge g Hg)) as Bd.
  destruct rem as [[[a b] c] d]. unfold cands, get_index.
  destruct k; cbn in Hle, Hnz; try (exfalso; apply Hnz; reflexivity);
    destruct (a =? 0) eqn:Ea, (b =? 0) eqn:Eb, (c =? 0) eqn:Ec, (d =? 0) eqn:Ed;
    rewrite ?Z.eqb_eq in *; try (exfalso; lia); vm_compute; tauto.
Qed.

Lemma sd_nonzero ge k g : 0 <= req_level ge -> is_sdil k = true -> valid_grade ge g -> sd ge k g <> vzero.
Proof.
  intros Hlvl Hk Hg. rewrite sd_valid by exact Hg.
  pose proof (mul_ge1 _ _ (single_basis_pos ge Hlvl) (valid_grade_pos ge g Hg)) as Bs.
  pose proof (mul_ge1 _ _ (dual_basis_pos ge Hlvl) (valid_grade_pos ge g Hg)) as Bd.
  destruct k; try discriminate; unfold vec_of, impr, on1, on2; cbn; intro X; inversion X; lia.
Qed.

Theorem search_bonus_complete ge target left l : 0 <= req_level ge ->
  NoDup (map fst l) -> (length l <= left)%nat -> (forall kg, In kg l -> valid_grade ge (snd kg)) ->
  (forall kg, In kg l -> is_sdil (fst kg) = true) -> vsumG ge l = target ->
  search_bonus ge target left <> None.
Proof.
  intros Hlvl Hn Hlen Hg Hk Hs. unfold search_bonus.
  destruct (is_zero target); [discriminate|]. destruct (find_some _ _); [discriminate|].
  unfold rec_ge.
  apply (rec_complete kind keqb keqb_spec (sd ge) (grades_sdil ge) cands (sd_nonneg_ge ge Hlvl)
                      (cands_complete_ge ge Hlvl) left target [] l).
  - repeat split; auto. intros kg Hin. apply grades_sdil_valid. auto.
  - exact Hs.
  - intros kg Hin. apply sd_nonzero; auto.
Qed.

(* ------------------------------------------------------------------ C18, second sentence *)
Lemma ssum_only ge c k l : (forall k' g, k' <> k -> impr ge k' g c = 0) -> NoDup (map fst l) ->
  ssum ge l c = 0 \/ exists g, In (k, g) l /\ ssum ge l c = impr ge k g c.
Proof.
  intros Ho. induction l as [|[k1 g1] l IH]; intros Hn; [left; reflexivity|].
  inversion Hn; subst. unfold ssum. cbn [fold_right fst snd]. fold (ssum ge l c).
  destruct (keqb k1 k) eqn:E.
  - apply keqb_spec in E. subst k1. right. exists g1. split; [left; reflexivity|].
    rewrite ssum_zero; [lia|]. intros [k2 g2] Hin. cbn. apply Ho. intro; subst. apply H1.
    apply in_map_iff. exists (k, g2). auto.
  - assert (k1 <> k) by (intro; subst; rewrite (proj2 (keqb_spec k k) eq_refl) in E; discriminate).
    rewrite (Ho k1 g1 H). destruct (IH H2) as [Z|[g [Hin Eg]]]; [left; lia|].
    right. exists g. split; [right; exact Hin|lia].
Qed.

Lemma single_props_only ge p : In p single_props ->
  forall k' g, k' <> snd p -> impr ge k' g (fst p) = 0.
Proof.
  intros H k' g Hk. cbn in H.
  repeat (destruct H as [<-|H]; [destruct k'; try reflexivity; cbn in Hk; congruence|]). destruct H.
Qed.

Lemma singles_complete ge obs props :
  (forall p, In p props -> 0 < obs (fst p) ->
             exists g, In g (grades_single ge) /\ impr ge (snd p) g (fst p) = obs (fst p)) ->
  exists sl, singles ge obs props = inl sl.
Proof.
  induction props as [|[c k] r IH]; intros H; cbn; [eauto|].
  destruct (IH (fun p Hp => H p (or_intror Hp))) as [sl Es]. rewrite Es.
  destruct (0 <? obs c) eqn:P; [|eauto]. apply Z.ltb_lt in P.
  destruct (H (c, k) (or_introl eq_refl) P) as [g [Hg Eg]]. cbn in Eg.
  destruct (find_grade ge obs c k) as [g'|] eqn:F; [eauto|].
  exfalso. unfold find_grade in F. apply (find_not_none _ _ g Hg) in F; [exact F|]. apply Z.eqb_eq. exact Eg.
Qed.

Theorem search_complete : forall ge obs l,
  0 <= req_level ge ->
  (length l <= 4)%nat -> NoDup (map fst l) -> (forall kg, In kg l -> valid_grade ge (snd kg)) ->
  (forall c, obs c = ssum ge l c) ->
  exists r, compute ge obs = Ok r.
Proof.
  intros ge obs l Hlvl Hlen Hn Hg Hobs.
  (* every positive single-valued field is explained by the option of its kind in l *)
  assert (Hex : forall p, In p single_props -> 0 < obs (fst p) ->
                exists g, In (snd p, g) l /\ impr ge (snd p) g (fst p) = obs (fst p)).
  { intros p Hp Pos. rewrite Hobs in Pos |- *.
    destruct (ssum_only ge (fst p) (snd p) l (single_props_only ge p Hp) Hn) as [Z|[g [Hin Eg]]]; [lia|].
    exists g. split; [exact Hin|lia]. }
  destruct (singles_complete ge obs single_props) as [sl Es].
  { intros p Hp Pos. destruct (Hex p Hp Pos) as [g [Hin Eg]]. exists g. split; [|exact Eg].
    apply grades_single_valid. apply (Hg (snd p, g) Hin). }
  unfold compute. rewrite Es.
  destruct (singles_spec _ _ _ _ Es) as (M & _ & _).
  (* counting: the single-valued options found are at most the single-valued options of l *)
  set (l1 := filter (fun k => negb (is_sdil k)) (map fst l)).
  set (l2 := filter (fun kg => is_sdil (fst kg)) l).
  assert (Hcount : (length sl <= length l1)%nat).
  { rewrite <- (map_length fst sl), M. apply NoDup_incl_length.
    - apply NoDup_map_filter. cbn. repeat (constructor; [cbn; intuition discriminate|]). constructor.
    - intros k Hk. apply in_map_iff in Hk. destruct Hk as [p [<- Hp]]. apply filter_In in Hp.
      destruct Hp as [Hp Pos]. apply Z.ltb_lt in Pos. destruct (Hex p Hp Pos) as [g [Hin _]].
      apply filter_In. split; [apply in_map_iff; exists (snd p, g); auto|].
      cbn in Hp. repeat (destruct Hp as [<-|Hp]; [reflexivity|]). destruct Hp. }
  assert (Hl2 : (length l2 + length l1 = length l)%nat).
  { unfold l1, l2. clear. induction l as [|x l IH]; cbn; [reflexivity|].
    destruct (is_sdil (fst x)); cbn; lia. }
  set (left := max_bonus - Z.of_nat (length sl)).
  assert (Hleft : 0 <= left) by (unfold left, max_bonus; lia).
  destruct (left <? 0) eqn:El; [apply Z.ltb_lt in El; lia|].
  assert (Hsb : search_bonus ge (vec_of obs) (Z.to_nat left) <> None).
  { apply (search_bonus_complete ge (vec_of obs) (Z.to_nat left) l2 Hlvl).
    - unfold l2. apply NoDup_map_filter. exact Hn.
    - unfold left, max_bonus. lia.
    - intros kg Hin. apply filter_In in Hin. apply Hg. tauto.
    - intros kg Hin. apply filter_In in Hin. tauto.
    - rewrite vsum_ssum by (intros kg Hin; apply filter_In in Hin; apply Hg; tauto).
      apply vec_of_ext. intros c Hc. rewrite Hobs. clear - Hc.
      induction l as [|x l IH]; [reflexivity|]. unfold l2 in *. cbn [filter].
      unfold ssum in *. destruct (is_sdil (fst x)) eqn:Ex; cbn [fold_right]; rewrite IH; [reflexivity|].
      rewrite (sdil_coord_single_zero ge (fst x) (snd x) c Ex Hc). lia. }
  destruct (search_bonus ge (vec_of obs) (Z.to_nat left)) as [r|]; [eauto|congruence].
Qed.

(* ------------------------------------------------------------------ non-vacuity *)
(* level-160 non-boss armour; STR g7 + LUK g5 (the pair the shipped candidate index lost before the
   repair) + STR_LUK g3 + all-stat g5: accepted, and the answer is that very set *)
Definition ex_gear : gear := mk_gear WArmor false 160 0.
Definition ex_set : list (kind * Z) := [(KSTR, 7); (KLUK, 5); (KSTR_LUK, 3); (KALL, 5)].
Example ex_accepts :
  canon (compute ex_gear (ssum ex_gear ex_set)) = canon (Ok ex_set).
Proof. vm_compute. reflexivity. Qed.
Example ex_hypotheses :
  0 <= req_level ex_gear /\ (length ex_set <= 4)%nat /\ NoDup (map fst ex_set) /\
  (forall kg, In kg ex_set -> valid_grade ex_gear (snd kg)) /\
  (forall p, In p single_props -> 0 <= ssum ex_gear ex_set (fst p)).
Proof.
  split; [cbn; lia|]. split; [cbn; lia|]. split.
  - cbn. repeat (constructor; [cbn; intuition discriminate|]). constructor.
  - split.
    + intros kg H. cbn in H. apply valid_grade_iff. cbn. intuition (subst; cbn; lia).
    + intros p H. cbn in H. repeat (destruct H as [<-|H]; [vm_compute; discriminate|]). destruct H.
Qed.
(* five options that cannot be re-expressed with four are rejected *)
Example ex_rejects :
  compute ex_gear (ssum ex_gear [(KMHP, 5); (KMMP, 5); (KBOSS, 5); (KDMG, 4); (KALL, 5)]) = ErrTooMany.
Proof. vm_compute. reflexivity. Qed.
