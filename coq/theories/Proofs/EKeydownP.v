From Coq Require Import ZArith Lia Bool.
Open Scope Z_scope.
Ltac Zify.zify_post_hook ::= Z.to_euclidean_division_equations.
From V.Model Require Export EKeydown.
Lemma loop_spec : forall fuel I r c k0, 0 < I -> (Z.to_nat ((- c) / I + 1) < fuel)%nat ->
  let '(k, c') := loop fuel I r c k0 in count_ok I r c (k - k0) /\ c' = c + (k - k0) * I.
Proof.
  induction fuel as [|f IH]; intros I r c k0 HI Hf; [lia|]. cbn [loop].
  destruct ((0 <=? r) && (c <=? 0)) eqn:E.
  - apply andb_true_iff in E. destruct E as [E1 E2]. apply Z.leb_le in E1, E2.
    assert (Hf' : (Z.to_nat ((- (c + I)) / I + 1) < f)%nat).
    { assert (- (c + I) / I = - c / I - 1) by (replace (- (c + I)) with (- c + (-1) * I) by lia; rewrite Z.div_add by lia; lia).
      assert (0 <= - c / I) by (apply Z.div_pos; lia). lia. }
    specialize (IH I (r - I) (c + I) (k0 + 1) HI Hf').
    destruct (loop f I (r - I) (c + I) (k0 + 1)) as [k c'].
    destruct IH as [(A & B & C) D]. split; [|nia].
    split; [lia|]. split.
    + intros j Hj. destruct (Z.eq_dec j 0) as [->|]; [lia|].
      specialize (B (j - 1) ltac:(lia)). nia.
    + destruct C as [C|C]; [left|right]; nia.
  - split; [|lia]. replace (k0 - k0) with 0 by lia. split; [lia|]. split; [intros; lia|].
    apply andb_false_iff in E. destruct E as [E|E]; [apply Z.leb_gt in E; left|apply Z.leb_gt in E; right]; lia.
Qed.

Lemma count_unique I r c k k' : 0 < I -> count_ok I r c k -> count_ok I r c k' -> k = k'.
Proof.
  intros HI (A & B & C) (A' & B' & C').
  destruct (Z.lt_trichotomy k k') as [H|[H|H]]; auto; exfalso.
  - specialize (B' k ltac:(lia)). lia.
  - specialize (B k' ltac:(lia)). lia.
Qed.

Lemma resolving_spec s t : wf s -> 0 <= t ->
  let '(s', k) := resolving s t in
  count_ok (itv s) (tl s - Z.max 0 (cnt s)) (cnt s - t) k /\ s' = mkK (itv s) (cnt s - t + k * itv s) (tl s - t).
Proof.
  intros [HI Hinv] Ht. unfold resolving.
  pose proof (loop_spec (S (Z.to_nat (- (cnt s - t) / itv s + 1))) (itv s) (tl s - Z.max 0 (cnt s)) (cnt s - t) 0 HI ltac:(lia)) as X.
  destruct (loop _ (itv s) (tl s - Z.max 0 (cnt s)) (cnt s - t) 0) as [k c'].
  destruct X as [A B]. replace (k - 0) with k in * by lia. split; [exact A|]. rewrite B. reflexivity.
Qed.

Lemma resolving_wf s t : wf s -> 0 <= t -> wf (fst (resolving s t)).
Proof.
  intros W Ht. pose proof (resolving_spec s t W Ht) as X. destruct (resolving s t) as [s' k]. destruct X as [(A & B & C) ->].
  destruct W as [HI Hinv]. split; cbn; [exact HI|]. intros Hneg.
  destruct C as [C|C]; [|lia].
  destruct (Z_lt_le_dec (cnt s) 0) as [Hc|Hc]; [specialize (Hinv Hc); nia|].
  rewrite Z.max_r in C by lia. nia.
Qed.

Theorem resolving_additive s a b : wf s -> 0 <= a -> 0 <= b ->
  let '(s1, k1) := resolving s a in let '(s2, k2) := resolving s1 b in
  resolving s (a + b) = (s2, k1 + k2).
Proof.
  intros W Ha Hb.
  pose proof (resolving_spec s a W Ha) as X1. pose proof (resolving_wf s a W Ha) as W1.
  destruct (resolving s a) as [s1 k1]. cbn in W1. destruct X1 as [C1 E1].
  pose proof (resolving_spec s1 b W1 Hb) as X2. destruct (resolving s1 b) as [s2 k2]. destruct X2 as [C2 E2].
  pose proof (resolving_spec s (a + b) W ltac:(lia)) as X3. destruct (resolving s (a + b)) as [s3 k3]. destruct X3 as [C3 E3].
  destruct W as [HI Hinv].
  assert (Hk : k3 = k1 + k2).
  { apply (count_unique (itv s) (tl s - Z.max 0 (cnt s)) (cnt s - (a + b))); auto.
    subst s1. cbn [itv cnt tl] in C2. destruct C1 as (A1 & B1 & S1). destruct C2 as (A2 & B2 & S2).
    destruct (Z_lt_le_dec (cnt s) 0) as [Hc|Hc].
    - (* already ended: no yields at all *)
      specialize (Hinv Hc). rewrite Z.max_l in * by lia.
      assert (k1 = 0) by (destruct (Z.eq_dec k1 0); auto; specialize (B1 0 ltac:(lia)); lia).
      assert (k2 = 0).
      { destruct (Z.eq_dec k2 0); auto. specialize (B2 0 ltac:(lia)). subst k1.
        destruct (Z.max_spec 0 (cnt s - a + 0 * itv s)) as [[_ M]|[_ M]]; rewrite M in B2; lia. }
      subst. split; [lia|]. split; [intros; lia|]. left. lia.
    - rewrite Z.max_r in * by lia.
      split; [lia|]. split.
      + intros j Hj. destruct (Z_lt_le_dec j k1) as [Hlt|Hge].
        * specialize (B1 j ltac:(lia)). lia.
        * specialize (B2 (j - k1) ltac:(lia)).
          destruct (Z.max_spec 0 (cnt s - a + k1 * itv s)) as [[M0 M]|[M0 M]]; rewrite M in B2; [nia|].
          (* counter after chunk a is <= 0: chunk a stopped on r, so b yields nothing *)
          destruct S1 as [S1|S1]; [|lia]. nia.
      + destruct (Z.max_spec 0 (cnt s - a + k1 * itv s)) as [[M0 M]|[M0 M]]; rewrite M in S2.
        * destruct S2 as [S2|S2]; [left|right]; nia.
        * destruct S1 as [S1|S1]; [|lia].
          assert (k2 = 0) by (destruct (Z.eq_dec k2 0); auto; specialize (B2 0 ltac:(lia)); rewrite M in B2; nia).
          subst k2. left. nia. }
  subst k3. f_equal. rewrite E3, E2, E1. cbn [itv cnt tl]. f_equal; lia.
Qed.
