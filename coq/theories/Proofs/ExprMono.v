(* Soundness of the syntactic checks of Model/Expr.v (nonneg, const_in, mono). Used by C16. *)
From Coq Require Import QArith Qround Qminmax Lqa List Bool ZArith String.
From V.Model Require Import Expr.
Import ListNotations.

Lemma qfloor_mono a b : a <= b -> qfloor a <= qfloor b.
Proof. intros H. unfold qfloor. rewrite <- Zle_Qle. apply Qfloor_resp_le, H. Qed.
Lemma qceil_mono a b : a <= b -> qceil a <= qceil b.
Proof. intros H. unfold qceil. rewrite <- Zle_Qle. apply Qceiling_resp_le, H. Qed.
Lemma qfloor_nonneg a : 0 <= a -> 0 <= qfloor a.
Proof. intros H. change 0 with (qfloor 0). apply qfloor_mono, H. Qed.
Lemma qceil_nonneg a : 0 <= a -> 0 <= qceil a.
Proof. intros H. change 0 with (qceil 0). apply qceil_mono, H. Qed.

Lemma atkspd_mono a b : a <= b -> atkspd a <= atkspd b.
Proof.
  intros H. unfold atkspd.
  assert (qceil (a * ((16 - 4) / 16) / 30) <= qceil (b * ((16 - 4) / 16) / 30)).
  { apply qceil_mono. unfold Qdiv. change (/ 30) with (1#30). change ((16 - 4) * / 16) with (12#16). lra. }
  lra.
Qed.
Lemma atkspd_nonneg a : 0 <= a -> 0 <= atkspd a.
Proof.
  intros H. unfold atkspd.
  assert (0 <= qceil (a * ((16 - 4) / 16) / 30)).
  { apply qceil_nonneg. unfold Qdiv. change (/ 30) with (1#30). change ((16 - 4) * / 16) with (12#16). lra. }
  lra.
Qed.

Lemma fn1_mono f a b : a <= b -> fn1_sem f a <= fn1_sem f b.
Proof. destruct f; cbn [fn1_sem]; [apply qceil_mono|apply qfloor_mono|apply atkspd_mono]. Qed.
Lemma fn1_nonneg f a : 0 <= a -> 0 <= fn1_sem f a.
Proof. destruct f; cbn [fn1_sem]; [apply qceil_nonneg|apply qfloor_nonneg|apply atkspd_nonneg]. Qed.

Lemma qbool_nonneg b : 0 <= qbool b.
Proof. destruct b; cbn; lra. Qed.

Lemma Qeq_bool_false_pos y : 0 <= y -> Qeq_bool y 0 = false -> 0 < y.
Proof.
  intros H E. apply Qle_lteq in H. destruct H as [H|H]; [exact H|].
  exfalso. symmetry in H. apply Qeq_bool_iff in H. congruence.
Qed.

Lemma div_nonneg x y : 0 <= x -> 0 < y -> 0 <= x / y.
Proof. intros Hx Hy. apply Qle_shift_div_l; [exact Hy|]. lra. Qed.

Lemma div_mono x1 x2 y : x1 <= x2 -> 0 < y -> x1 / y <= x2 / y.
Proof. intros H Hy. unfold Qdiv. apply Qmult_le_compat_r; [exact H|]. apply Qinv_le_0_compat. lra. Qed.

Ltac split_andb :=
  repeat match goal with H : _ && _ = true |- _ => apply andb_true_iff in H; destruct H end.

(* eval inversion helpers *)
Lemma eval_bin_inv r o a b q : eval r (Bin o a b) = Some q ->
  exists x y, eval r a = Some x /\ eval r b = Some y /\ bin_sem o x y = Some q.
Proof. cbn [eval]. destruct (eval r a) as [x|]; [|discriminate]. destruct (eval r b) as [y|]; [|discriminate]. eauto. Qed.
Lemma eval_fn2_inv r g a b q : eval r (Fn2 g a b) = Some q ->
  exists x y, eval r a = Some x /\ eval r b = Some y /\ q = fn2_sem g x y.
Proof. cbn [eval]. destruct (eval r a) as [x|]; [|discriminate]. destruct (eval r b) as [y|]; [|discriminate]. intros [= <-]. eauto. Qed.
Lemma eval_fn1_inv r f a q : eval r (Fn1 f a) = Some q -> exists x, eval r a = Some x /\ q = fn1_sem f x.
Proof. cbn [eval]. destruct (eval r a) as [x|]; [|discriminate]. intros [= <-]. eauto. Qed.
Lemma eval_neg_inv r a q : eval r (Neg a) = Some q -> exists x, eval r a = Some x /\ q = - x.
Proof. cbn [eval]. destruct (eval r a) as [x|]; [|discriminate]. intros [= <-]. eauto. Qed.

Theorem nonneg_sound r e : env_nonneg r -> nonneg e = true -> forall q, eval r e = Some q -> 0 <= q.
Proof.
  intros Hr. induction e as [q0|v|o a IHa b IHb|a IHa|f a IHa|g a IHa b IHb]; cbn [nonneg]; intros H q E.
  - injection E as <-. apply Qle_bool_iff, H.
  - exact (Hr v q E).
  - apply eval_bin_inv in E. destruct E as (x & y & Ea & Eb & Eo).
    destruct o; cbn [bin_sem] in Eo; split_andb; try discriminate.
    + injection Eo as <-. specialize (IHa H x Ea). specialize (IHb H0 y Eb). lra.
    + injection Eo as <-. specialize (IHa H x Ea). specialize (IHb H0 y Eb). apply Qmult_le_0_compat; assumption.
    + destruct (Qeq_bool y 0) eqn:Ey; [discriminate|]. injection Eo as <-.
      apply div_nonneg; [exact (IHa H x Ea)|]. apply Qeq_bool_false_pos; [exact (IHb H0 y Eb)|exact Ey].
    + destruct (Qeq_bool y 0) eqn:Ey; [discriminate|]. injection Eo as <-.
      apply qfloor_nonneg, div_nonneg; [exact (IHa H x Ea)|]. apply Qeq_bool_false_pos; [exact (IHb H0 y Eb)|exact Ey].
    + injection Eo as <-. apply qbool_nonneg.
    + injection Eo as <-. apply qbool_nonneg.
  - discriminate.
  - apply eval_fn1_inv in E. destruct E as (x & Ea & ->). apply fn1_nonneg. exact (IHa H x Ea).
  - apply eval_fn2_inv in E. destruct E as (x & y & Ea & Eb & ->). destruct g; cbn [fn2_sem].
    + split_andb. apply Q.min_glb; [exact (IHa H x Ea)|exact (IHb H0 y Eb)].
    + apply orb_true_iff in H. destruct H as [H|H].
      * eapply Qle_trans; [exact (IHa H x Ea)|apply Q.le_max_l].
      * eapply Qle_trans; [exact (IHb H y Eb)|apply Q.le_max_r].
Qed.

(* an expression that does not mention x has the very same value whatever x is bound to *)
Theorem const_sound r x q e : const_in x e = true -> eval (upd r x q) e = eval r e.
Proof.
  induction e as [q0|v|o a IHa b IHb|a IHa|f a IHa|g a IHa b IHb]; cbn [const_in eval]; intros H; split_andb.
  - reflexivity.
  - unfold upd. apply negb_true_iff in H. rewrite H. reflexivity.
  - rewrite IHa, IHb by assumption. reflexivity.
  - rewrite IHa by assumption. reflexivity.
  - rewrite IHa by assumption. reflexivity.
  - rewrite IHa, IHb by assumption. reflexivity.
Qed.

Lemma upd_nonneg r x q : env_nonneg r -> 0 <= q -> env_nonneg (upd r x q).
Proof. intros Hr Hq v q'. unfold upd. destruct (String.eqb v x); [intros [= <-]; exact Hq|apply Hr]. Qed.

(* non-decreasing in x over non-negative environments *)
Theorem mono_sound x e : mono x e = true -> forall r q1 q2, env_nonneg r -> 0 <= q1 -> q1 <= q2 ->
  forall v1 v2, eval (upd r x q1) e = Some v1 -> eval (upd r x q2) e = Some v2 -> v1 <= v2.
Proof.
  induction e as [q0|v|o a IHa b IHb|a IHa|f a IHa|g a IHa b IHb]; cbn [mono]; intros H r q1 q2 Hr H1 H12 v1 v2 E1 E2.
  - cbn in E1, E2. injection E1 as <-. injection E2 as <-. apply Qle_refl.
  - cbn in E1, E2. unfold upd in E1, E2. destruct (String.eqb v x).
    + injection E1 as <-. injection E2 as <-. exact H12.
    + rewrite E1 in E2. injection E2 as <-. apply Qle_refl.
  - assert (Hr1 : env_nonneg (upd r x q1)) by (apply upd_nonneg; assumption).
    assert (Hr2 : env_nonneg (upd r x q2)) by (apply upd_nonneg; [assumption|lra]).
    apply eval_bin_inv in E1. destruct E1 as (x1 & y1 & Ea1 & Eb1 & Eo1).
    apply eval_bin_inv in E2. destruct E2 as (x2 & y2 & Ea2 & Eb2 & Eo2).
    destruct o; cbn [bin_sem] in Eo1, Eo2; split_andb; try discriminate.
    + injection Eo1 as <-. injection Eo2 as <-.
      specialize (IHa H r q1 q2 Hr H1 H12 x1 x2 Ea1 Ea2). specialize (IHb H0 r q1 q2 Hr H1 H12 y1 y2 Eb1 Eb2). lra.
    + injection Eo1 as <-. injection Eo2 as <-.
      specialize (IHa H r q1 q2 Hr H1 H12 x1 x2 Ea1 Ea2).
      rewrite (const_sound r x q1 b H0) in Eb1. rewrite (const_sound r x q2 b H0) in Eb2. rewrite Eb1 in Eb2. injection Eb2 as <-. lra.
    + injection Eo1 as <-. injection Eo2 as <-.
      specialize (IHa H r q1 q2 Hr H1 H12 x1 x2 Ea1 Ea2). specialize (IHb H3 r q1 q2 Hr H1 H12 y1 y2 Eb1 Eb2).
      pose proof (nonneg_sound _ _ Hr1 H2 x1 Ea1). pose proof (nonneg_sound _ _ Hr1 H0 y1 Eb1). nra.
    + destruct (Qeq_bool y1 0) eqn:Ey1; [discriminate|]. destruct (Qeq_bool y2 0) eqn:Ey2; [discriminate|].
      injection Eo1 as <-. injection Eo2 as <-.
      specialize (IHa H r q1 q2 Hr H1 H12 x1 x2 Ea1 Ea2).
      pose proof (nonneg_sound _ _ Hr1 H0 y1 Eb1) as Hy.
      rewrite (const_sound r x q1 b H2) in Eb1. rewrite (const_sound r x q2 b H2) in Eb2. rewrite Eb1 in Eb2. injection Eb2 as <-.
      apply div_mono; [exact IHa|]. apply Qeq_bool_false_pos; assumption.
    + destruct (Qeq_bool y1 0) eqn:Ey1; [discriminate|]. destruct (Qeq_bool y2 0) eqn:Ey2; [discriminate|].
      injection Eo1 as <-. injection Eo2 as <-.
      specialize (IHa H r q1 q2 Hr H1 H12 x1 x2 Ea1 Ea2).
      pose proof (nonneg_sound _ _ Hr1 H0 y1 Eb1) as Hy.
      rewrite (const_sound r x q1 b H2) in Eb1. rewrite (const_sound r x q2 b H2) in Eb2. rewrite Eb1 in Eb2. injection Eb2 as <-.
      apply qfloor_mono, div_mono; [exact IHa|]. apply Qeq_bool_false_pos; assumption.
  - apply eval_neg_inv in E1. destruct E1 as (x1 & Ea1 & ->). apply eval_neg_inv in E2. destruct E2 as (x2 & Ea2 & ->).
    rewrite (const_sound r x q1 a H) in Ea1. rewrite (const_sound r x q2 a H) in Ea2. rewrite Ea1 in Ea2. injection Ea2 as <-. apply Qle_refl.
  - apply eval_fn1_inv in E1. destruct E1 as (x1 & Ea1 & ->). apply eval_fn1_inv in E2. destruct E2 as (x2 & Ea2 & ->).
    apply fn1_mono. exact (IHa H r q1 q2 Hr H1 H12 x1 x2 Ea1 Ea2).
  - apply eval_fn2_inv in E1. destruct E1 as (x1 & y1 & Ea1 & Eb1 & ->).
    apply eval_fn2_inv in E2. destruct E2 as (x2 & y2 & Ea2 & Eb2 & ->). split_andb.
    specialize (IHa H r q1 q2 Hr H1 H12 x1 x2 Ea1 Ea2). specialize (IHb H0 r q1 q2 Hr H1 H12 y1 y2 Eb1 Eb2).
    destruct g; cbn [fn2_sem]; [apply Q.min_le_compat|apply Q.max_le_compat]; assumption.
Qed.

(* definedness does not depend on x either: a monotone formula defined at one level is defined at all *)
Theorem mono_defined x e : mono x e = true -> forall r q1 q2,
  eval (upd r x q1) e <> None -> eval (upd r x q2) e <> None.
Proof.
  induction e as [q0|v|o a IHa b IHb|a IHa|f a IHa|g a IHa b IHb]; cbn [mono]; intros H r q1 q2 D.
  - discriminate.
  - cbn in *. unfold upd in *. destruct (String.eqb v x); [discriminate|exact D].
  - cbn [eval] in *.
    destruct (eval (upd r x q1) a) as [x1|] eqn:Ea1; [|congruence].
    destruct (eval (upd r x q1) b) as [y1|] eqn:Eb1; [|congruence].
    assert (Ha : mono x a = true) by (destruct o; split_andb; try assumption; discriminate).
    specialize (IHa Ha r q1 q2). rewrite Ea1 in IHa.
    destruct (eval (upd r x q2) a) as [x2|]; [|apply IHa; discriminate].
    assert (Hb : mono x b = true \/ const_in x b = true).
    { destruct o; split_andb; try discriminate; auto. }
    destruct Hb as [Hb|Hb].
    + specialize (IHb Hb r q1 q2). rewrite Eb1 in IHb.
      destruct (eval (upd r x q2) b) as [y2|] eqn:Eb2; [|apply IHb; discriminate].
      destruct o; split_andb; try discriminate.
      * rewrite (const_sound r x q1 b) in Eb1 by assumption. rewrite (const_sound r x q2 b) in Eb2 by assumption.
        rewrite Eb1 in Eb2. injection Eb2 as <-. cbn [bin_sem] in *. destruct (Qeq_bool y1 0); [congruence|discriminate].
      * rewrite (const_sound r x q1 b) in Eb1 by assumption. rewrite (const_sound r x q2 b) in Eb2 by assumption.
        rewrite Eb1 in Eb2. injection Eb2 as <-. cbn [bin_sem] in *. destruct (Qeq_bool y1 0); [congruence|discriminate].
    + rewrite (const_sound r x q1 b Hb) in Eb1. rewrite (const_sound r x q2 b Hb), Eb1.
      destruct o; cbn [bin_sem] in *; try discriminate; destruct (Qeq_bool y1 0); congruence.
  - cbn [eval] in *. rewrite (const_sound r x q1 a H) in D. rewrite (const_sound r x q2 a H). exact D.
  - cbn [eval] in *. specialize (IHa H r q1 q2).
    destruct (eval (upd r x q1) a); [|congruence]. destruct (eval (upd r x q2) a); [discriminate|apply IHa; discriminate].
  - cbn [eval] in *. split_andb. specialize (IHa H r q1 q2). specialize (IHb H0 r q1 q2).
    destruct (eval (upd r x q1) a); [|congruence]. destruct (eval (upd r x q1) b); [|congruence].
    destruct (eval (upd r x q2) a); [|apply IHa; discriminate]. destruct (eval (upd r x q2) b); [discriminate|apply IHb; discriminate].
Qed.

(* non-vacuity:  floor((18 + 5*character_level) * 0.15) * (1 + 0.1*skill_level)  is accepted as monotone in skill_level *)
Example mono_example :
  mono "skill_level"%string
    (Bin Mul (Fn1 Floor (Bin Mul (Bin Add (Num 18) (Bin Mul (Num 5) (Var "character_level"%string))) (Num (15#100))))
             (Bin Add (Num 1) (Bin Mul (Num (1#10)) (Var "skill_level"%string)))) = true.
Proof. reflexivity. Qed.
