(* The well-formedness invariant xwf of Proofs/SpecMechChunk.v is preserved by every reducer of Model/SpecMech.v,
   so the chunk theorems apply in every reachable state.  Non-vacuity examples. *)
From Coq Require Import ZArith List Bool Lia Permutation.
From V.Model Require Import Comp SpecMech.
From V.Proofs Require EPeriodicP EConsumableP EKeydownP.
From V.Proofs Require Import CompReject CompChunk SpecMechReject SpecMechDP SpecMechChunk.
Import ListNotations.
Open Scope Z_scope.

(* hypotheses on the parameters / payload (what the Python constructors and callers guarantee) *)
Definition xwf_par (c : xcomp) (m : xmeth) (p : xpar) (t : Z) (s : xst) : Prop :=
  wf_par (xp p) (x_u s) /\ (match m with XPause => 0 < t | _ => 0 <= t end) /\
  match c, m with
  | Cosmos, XUse => 0 < xp_t2 p - LS.stack (x_ls s) * xp_t1 p      (* the shortened interval stays positive *)
  | MecaCarrier, XUse => 0 <= xp_n1 p /\ 0 <= p_last (xp p)
  | _, _ => True
  end.

Lemma wf_set_cd u v : wf_ust u -> wf_ust (set_cd u v). Proof. intros H; exact H. Qed.
Lemma wf_set_cd2 u v : wf_ust u -> wf_ust (set_cd2 u v). Proof. intros H; exact H. Qed.
Lemma wf_set_las u a b : wf_ust u -> wf_ust (set_las u a b). Proof. intros H; exact H. Qed.
Lemma wf_set_p1 u q : wf_ust u -> P.wf q -> wf_ust (set_p1 u q).
Proof. intros (_ & A & B & C0 & E) Q. apply wf_ust_intro; usimpl; assumption. Qed.
Lemma wf_set_cons u c : wf_ust u -> C.wf c -> wf_ust (set_cons u c).
Proof. intros (A & B & C0 & _ & E) Q. apply wf_ust_intro; usimpl; assumption. Qed.

Lemma lift_wf (cc : comp) (mm : meth) (f : ust -> res) q t s :
  chunk_proved cc = true -> reduce_spec cc mm q t (x_u s) = Some (f (x_u s)) ->
  xwf s -> wf_par q (x_u s) -> 0 <= t ->
  xwf (fst (lift s (f (x_u s)))) /\ u_ic1 (x_u (fst (lift s (f (x_u s))))) = u_ic1 (x_u s).
Proof.
  intros Cp Hf [W D] Wp Ht. destruct (f (x_u s)) as [u' e'] eqn:E.
  destruct (wf_preserved cc mm q t (x_u s) u' e' Cp W Wp Ht Hf) as (W' & I & _). split; [split; [exact W'|exact D]|exact I].
Qed.

Lemma penalize_wf p r (u : ust) :
  xwf (fst r) /\ u_ic1 (x_u (fst r)) = u_ic1 u ->
  xwf (fst (fmb_penalize p r)) /\ u_ic1 (x_u (fst (fmb_penalize p r))) = u_ic1 u.
Proof. unfold fmb_penalize. destruct (kd_ended (snd r)); intros H; exact H. Qed.
Lemma penalize_elapse_wf p r (u : ust) :
  xwf (fst r) /\ u_ic1 (x_u (fst r)) = u_ic1 u ->
  xwf (fst (fmb_penalize_elapse p r)) /\ u_ic1 (x_u (fst (fmb_penalize_elapse p r))) = u_ic1 u.
Proof. unfold fmb_penalize_elapse. destruct (kd_ended (snd r)); intros H; exact H. Qed.

Lemma xwf_preserved c m p t s s' es :
  xwf s -> xwf_par c m p t s -> xreduce_spec c m p t s = Some (s', es) ->
  xwf s' /\ u_ic1 (x_u s') = u_ic1 (x_u s).
Proof.
  intros W (Wp & Ht & Hc) H. pose proof W as [WU WD].
  destruct c, m; cbn in H; try discriminate; apply some_inj in H; apply pair_eq in H; destruct H as [-> _]; cbn in Ht.
  - apply (lift_wf PeriodicAttack MUse (use_periodic_with_simple (xp p)) (xp p) t s eq_refl eq_refl W Wp Ht).
  - apply (lift_wf PeriodicAttack MElapse (elapse_periodic_with P.elapse (xp p) t) (xp p) t s eq_refl eq_refl W Wp Ht).
  - apply (lift_wf BuffSkill MUse (use_buff_trait (xp p)) (xp p) t s eq_refl eq_refl W Wp Ht).
  - apply (lift_wf BuffSkill MElapse (elapse_buff_trait t) (xp p) t s eq_refl eq_refl W Wp Ht).
  - apply (lift_wf PeriodicWithFinish MUse (use_periodic (xp p)) (xp p) t s eq_refl eq_refl W Wp Ht).
  - (* homming elapse *)
    unfold hm_elapse. xsimpl. split; [|reflexivity]. split; [|exact WD].
    apply wf_set_p1; [exact WU|]. apply elapse_wf. apply WU.
  - (* homming pause *)
    unfold hm_pause. xsimpl. split; [|reflexivity]. split; [|exact WD].
    apply wf_set_p1; [exact WU|]. destruct WU as ((A & _) & _). split; cbn; assumption.
  - (* barrage use *)
    apply (lift_wf KeydownSkill MUse (use_keydown_trait (xp p)) (xp p) t s eq_refl eq_refl W Wp Ht).
  - (* barrage elapse *)
    unfold fmb_elapse. apply penalize_elapse_wf.
    apply (lift_wf KeydownSkill MElapse (elapse_keydown_trait (xp p) t) (xp p) t (set_l2 s (fst (x_l2 s) - t, snd (x_l2 s))) eq_refl eq_refl W Wp Ht).
  - (* barrage stop *)
    unfold fmb_stop. apply penalize_wf.
    apply (lift_wf KeydownSkill MStop (stop_keydown_trait (xp p)) (xp p) t s eq_refl eq_refl W Wp Ht).
  - (* multiple option use *)
    unfold mo_use. destruct (negb (avail (x_u s))); xsimpl; [split; [exact W|reflexivity]|].
    split; [|reflexivity]. split; [|exact WD]. apply wf_set_p1; [exact WU|].
    apply CompChunk.set_time_left_wf; [apply WU|apply Wp].
  - (* multiple option elapse *)
    unfold mo_elapse. destruct (mo_events _ _ _) as [l c']. xsimpl. split; [|reflexivity]. split; [|exact WD].
    apply wf_set_p1; [exact WU|]. apply elapse_wf. apply WU.
  - (* meca carrier use *)
    unfold mc_use. destruct (negb (avail (x_u s))); xsimpl; [split; [exact W|reflexivity]|].
    split; [|reflexivity]. split; [exact WU|]. destruct Hc as [H1 H2]. apply SpecMechDP.set_time_left_wf; assumption.
  - (* meca carrier elapse *)
    unfold mc_elapse. pose proof (resolving_wf (x_dp s) t WD) as X. destruct (DP.resolving (x_dp s) t) as [d' l]. xsimpl.
    split; [|reflexivity]. split; [exact WU|exact X].
  - (* cosmic orb *)
    unfold orb_increase, orb_regulate. xsimpl. destruct (l_on (x_l2 s)); xsimpl; split; try reflexivity; exact W.
  - unfold orb_maximize, orb_regulate. xsimpl. destruct (l_on (x_l2 s)); xsimpl; split; try reflexivity; exact W.
  - (* elysion use *)
    apply (lift_wf BuffSkill MUse (use_buff_trait (xp p)) (xp p) t s eq_refl eq_refl W Wp Ht).
  - (* elysion elapse *) unfold ely_elapse. xsimpl. split; [|reflexivity]. split; [exact WU|exact WD].
  - (* elysion crack *)
    unfold ely_crack. destruct (negb (las_on (x_u s)) || negb (avail2 (x_u s))); xsimpl; [split; [exact W|reflexivity]|].
    destruct (LS.is_maximum _); xsimpl; split; try reflexivity; split; assumption.
  - (* styx *)
    unfold styx_use. destruct (negb (l_on (x_l2 s))); xsimpl; split; try reflexivity; exact W.
  - (* cosmic burst elapse *)
    apply (lift_wf AttackSkill MElapse (elapse_simple_attack t) (xp p) t s eq_refl eq_refl W Wp Ht).
  - (* cosmic burst trigger *)
    unfold cb_trigger. destruct (negb (avail (x_u s)) || _); xsimpl; split; try reflexivity; exact W.
  - (* cosmic shower use *)
    unfold cs_use. destruct (orb_gate s); xsimpl; [split; [exact W|reflexivity]|].
    split; [|reflexivity]. split; [|exact WD]. apply wf_set_p1; [exact WU|]. apply CompChunk.set_time_left_wf; [apply WU|apply Wp].
  - apply (lift_wf PeriodicAttack MElapse (elapse_periodic_with P.elapse (xp p) t) (xp p) t s eq_refl eq_refl W Wp Ht).
  - (* cosmos use: the interval is replaced *)
    unfold cm_use. destruct (orb_gate s); xsimpl; [split; [exact W|reflexivity]|].
    split; [|reflexivity]. split; [|exact WD]. apply wf_set_p1; [exact WU|]. apply CompChunk.set_time_left_wf; [|apply Wp].
    destruct WU as ((_ & B) & _). split; cbn; assumption.
  - apply (lift_wf PeriodicAttack MElapse (elapse_periodic_with P.elapse (xp p) t) (xp p) t s eq_refl eq_refl W Wp Ht).
  - (* flare slash elapse *)
    apply (lift_wf AttackSkill MElapse (elapse_simple_attack t) (xp p) t s eq_refl eq_refl W Wp Ht).
  - (* flare slash triggers *)
    unfold fs_trigger, lift, use_simple_attack. xsimpl. destruct (negb (avail _)); xsimpl; split; try reflexivity; split; assumption.
  - unfold fs_trigger, lift, use_simple_attack. xsimpl. destruct (negb (avail _)); xsimpl; split; try reflexivity; split; assumption.
  - (* final cut *)
    apply (lift_wf AttackSkill MUse (use_simple_attack (xp p)) (xp p) t s eq_refl eq_refl W Wp Ht).
  - apply (lift_wf AttackSkill MElapse (elapse_simple_attack t) (xp p) t s eq_refl eq_refl W Wp Ht).
  - unfold fc_sudden_raid. xsimpl. split; [|reflexivity]. split; assumption.
  - (* blade storm use *)
    unfold bs_use. destruct (rejected _);
      apply (lift_wf KeydownSkill MUse (use_keydown_trait (xp p)) (xp p) t s eq_refl eq_refl W Wp Ht).
  - apply (lift_wf KeydownSkill MElapse (elapse_keydown_trait (xp p) t) (xp p) t s eq_refl eq_refl W Wp Ht).
  - apply (lift_wf KeydownSkill MStop (stop_keydown_trait (xp p)) (xp p) t s eq_refl eq_refl W Wp Ht).
  - (* ultimate dark sight *)
    apply (lift_wf BuffSkill MUse (use_buff_trait (xp p)) (xp p) t s eq_refl eq_refl W Wp Ht).
  - apply (lift_wf BuffSkill MElapse (elapse_buff_trait t) (xp p) t s eq_refl eq_refl W Wp Ht).
  - (* karma blade *)
    unfold kb_use. xsimpl. split; [exact W|reflexivity].
  - unfold kb_elapse. destruct (LS.enabled (x_ls s) && negb _); xsimpl; split; try reflexivity; split; assumption.
  - unfold kb_trigger. destruct (negb (LS.enabled (x_ls s))); [split; [exact W|reflexivity]|].
    destruct (negb (avail (x_u s))); [split; [exact W|reflexivity]|].
    destruct (LS.stack _ <=? 0); xsimpl; split; try reflexivity; split; assumption.
  - (* howling gale use *)
    unfold hg_use. destruct (negb (C.available (u_cons (x_u s)))) eqn:E; xsimpl; [split; [exact W|reflexivity]|].
    split; [|reflexivity]. split; [|exact WD]. apply wf_set_p1; [|apply CompChunk.set_time_left_wf; [apply WU|apply Wp]].
    apply wf_set_cons; [exact WU|]. destruct WU as (_ & _ & _ & (A & B & C0 & D) & _).
    apply negb_false_iff in E. unfold C.available in E. apply Z.ltb_lt in E.
    unfold C.wf. cbn [C.maxs C.stack C.cd C.tl]. repeat split; lia.
  - (* howling gale elapse *)
    unfold hg_elapse. xsimpl. split; [|reflexivity]. split; [|exact WD]. apply wf_set_p1; [|apply elapse_wf; apply WU].
    apply wf_set_cons; [exact WU|]. apply (EConsumableP.elapse_abs _ t); [apply WU|exact Ht].
Qed.

(* ------------------------------------------------------------ non-vacuity *)
(* a running MecaCarrier: 2 intercepters now, interval 10 + 2 per intercepter; 25 ticks then 20 = 45 ticks at once *)
Definition mc_par : xpar :=
  mkXP (mkPar false (0, 0) 0 0 0 100 100 0%nat [] (7, 1) (0, 0) (0, 0) (0, 0) 0 (0, 0) 0 0 0 0 (0, 0)) (0, 0) 2 0 0 1 1 [].
Definition mc_state : xst := set_dp x0 (DP.mkD 0 10 100 2 2 4).
Example meca_nonvacuous :
  xwf mc_state /\
  xreduce_spec MecaCarrier XElapse mc_par 25 mc_state =
    Some (set_dp (set_u x0 (set_cd u0 (-25))) (DP.mkD 5 10 75 4 2 4), [EElapsed 25; EDealt 7 1; EDealt 7 1; EDealt 7 1; EDealt 7 1; EDealt 7 1]) /\
  dealts (snd (mc_elapse DP.resolving mc_par 20 (fst (mc_elapse DP.resolving mc_par 25 mc_state)))) = repeat (EDealt 7 1) 4 /\
  dealts (snd (mc_elapse DP.resolving mc_par 45 mc_state)) = repeat (EDealt 7 1) 9.
Proof.
  split. { unfold xwf, wf_ust, P.wf, C.wf, K.wf, DP.wf. cbn. lia. }
  repeat split; vm_compute; reflexivity.
Qed.
