(* play() and _get_event_callbacks as GENERATED from simaple/simulate/base.py (gen/PlaySrc.v, by tools/tr_play.py) are play and
   callbacks of Model/Play.v, the functions the C05 theorems are about. *)
From Coq Require Import List ZArith.
Import ListNotations.
From V Require Import Model.Play.
From G Require Import PlaySrc.

Section Tie.
  Variables S Pay Name Meth Tag : Type.
  Notation event_ := (event Pay Name Meth Tag).
  Notation action_ := (action Pay Name Meth Tag).
  Notation store_ := (store S Pay Name Meth Tag).
  Variable router : action_ -> S -> S * list event_.

  Theorem src_callbacks_is_callbacks (e : event_) :
    src_get_event_callbacks Pay Name Meth Tag e = callbacks Pay Name Meth Tag e.
  Proof. reflexivity. Qed.

  Lemma dispatch_fold (q : list action_) : forall s evs tr,
    fold_left (fun '(s, evs, tr) a => let '(s', r) := router a s in (s', evs ++ r, tr ++ [a])) q (s, evs, tr)
    = let '(s2, e2, t2) := run_queue S Pay Name Meth Tag router q s in (s2, evs ++ e2, tr ++ t2).
  Proof.
    induction q as [|a q IH]; intros s evs tr; cbn [fold_left run_queue]; [rewrite !app_nil_r; reflexivity|].
    destruct (router a s) as [s1 r]. rewrite IH. destruct (run_queue S Pay Name Meth Tag router q s1) as [[s2 e2] t2].
    rewrite <- !app_assoc. reflexivity.
  Qed.

  Lemma queue_fold (cb : list (action_ * action_)) : forall q0,
    fold_left (fun q '(a, b) => [a] ++ q ++ [b]) cb q0 = fold_left (fun q c => fst c :: q ++ [snd c]) cb q0.
  Proof. induction cb as [|[a b] cb IH]; intros q0; [reflexivity|]. cbn [fold_left fst snd app]. apply IH. Qed.

  Theorem src_play_is_play (st : store_) (a : action_) :
    src_play S Pay Name Meth Tag router st a = play S Pay Name Meth Tag router st a.
  Proof.
    unfold src_play, play, queue. cbv zeta. rewrite queue_fold, dispatch_fold.
    destruct (run_queue S Pay Name Meth Tag router _ _) as [[s2 e2] t2]. cbn [app].
    reflexivity.
  Qed.

  (* C05 for the GENERATED play: what is handed to the router on the next action is every event of this action, once as
     `emitted` before the action and once as `done` after it, and nothing else *)
  Theorem src_relay_exactly_once (st : store_) (a1 a2 : action_) :
    let '(st1, E1, _) := src_play S Pay Name Meth Tag router st a1 in
    let '(_, _, tr2) := src_play S Pay Name Meth Tag router st1 a2 in
    tr2 = rev (map (emitted Pay Name Meth Tag) E1) ++ [a2] ++ map (done Pay Name Meth Tag) E1.
  Proof. rewrite src_play_is_play. pose proof (C05_relay S Pay Name Meth Tag router st a1 a2) as R.
    destruct (play S Pay Name Meth Tag router st a1) as [[st1 E1] t1]. rewrite src_play_is_play. exact R. Qed.

  Theorem src_never_replayed (st : store_) (a1 a2 : action_) :
    let '(st1, _, _) := src_play S Pay Name Meth Tag router st a1 in
    let '(st2, E2, _) := src_play S Pay Name Meth Tag router st1 a2 in
    cbs S Pay Name Meth Tag st2 = map (callbacks Pay Name Meth Tag) E2.
  Proof. rewrite src_play_is_play. pose proof (C05_no_replay S Pay Name Meth Tag router st a1 a2) as R.
    destruct (play S Pay Name Meth Tag router st a1) as [[st1 E1] t1]. rewrite src_play_is_play. exact R. Qed.
End Tie.
