(* C09 for the remaining class: HitLimitedPeriodicDamageComponent.  Its elapse runs the Periodic
   resolve loop itself, breaks as soon as the tick count reaches max_count (the tick that
   reaches the cap emits no damage event) and then disables the schedule.

   The capped loop is characterised by the plain schedule R t = P.elapse q t:
     - cnt (R t) < mx            : the loop never breaks and returns (R t, ticks q (R t));
     - cnt q < mx <= cnt (R t)   : the loop breaks at a state with cnt = mx after emitting
                                   mx - 1 - cnt q events, independently of the time left;
     - mx <= cnt q (and dead)    : nothing happens.
   Chunk additivity then follows from PP.elapse_additive. *)
From Coq Require Import ZArith List Bool Lia Permutation.
From V.Model Require Import Comp.
From V.Proofs Require Import CompChunk.
From V.Proofs Require EPeriodicP.
Import ListNotations.
Open Scope Z_scope.

Arguments P.elapse : simpl never.
Arguments P.norm : simpl never.
Arguments ticks : simpl never.
Arguments hit_limited_loop : simpl never.

(* ------------------------------------------------------------ the invariant *)
(* once the cap is reached the schedule is disabled *)
Definition hl_inv (p : par) (s : ust) : Prop :=
  0 < p_maxcount p /\ (p_maxcount p <= P.cnt (u_p1 s) -> P.tl (u_p1 s) <= 0).

(* the state written back after the loop *)
Definition hl_fin (mx : Z) (q : P.P) : P.P := if mx <=? P.cnt q then P.disable q else q.

Lemma reduce_hl_elapse p t s : reduce_spec HitLimitedPeriodic MElapse p t s = Some (hl_spec p t s).
Proof. reflexivity. Qed.
Lemma reduce_hl_use p t s : reduce_spec HitLimitedPeriodic MUse p t s = Some (use_periodic p s).
Proof. reflexivity. Qed.

Lemma hl_spec_unfold p t s :
  hl_spec p t s =
  match hit_limited_loop (P.fuel_of t) (p_maxcount p) (u_p1 s) t (P.cnt (u_p1 s)) O with
  | Some (q, n) => (set_p1 (set_cd s (u_cd s - t)) (hl_fin (p_maxcount p) q),
                    EElapsed t :: repeat (dealt (p_pd1 p)) n)
  | None => (s, [])
  end.
Proof. reflexivity. Qed.

(* ------------------------------------------------------------ steps of the schedule *)
Lemma step_cnt_le s t : P.cnt (fst (P.step s t)) <= P.cnt s + 1.
Proof.
  unfold P.step. destruct (P.tl s <=? 0); cbn; [lia|].
  destruct (_ =? 0); cbn; [lia|]. destruct (_ =? 0); cbn; lia.
Qed.
Lemma step_interval s t : P.interval (fst (P.step s t)) = P.interval s.
Proof.
  unfold P.step. destruct (P.tl s <=? 0); cbn; [reflexivity|].
  destruct (_ =? 0); cbn; [reflexivity|]. destruct (_ =? 0); cbn; reflexivity.
Qed.
Lemma run_interval : forall f s t, P.interval (P.run f s t) = P.interval s.
Proof.
  induction f as [|f IH]; intros s t; cbn [P.run]; [reflexivity|].
  destruct (t <=? 0); [reflexivity|]. pose proof (step_interval s t) as X.
  destruct (P.step s t) as [s' t']. cbn [fst] in X. rewrite IH. exact X.
Qed.
Lemma elapse_interval s t : P.interval (P.elapse s t) = P.interval s.
Proof. apply run_interval. Qed.

Lemma loop_S f mx q t prev acc :
  hit_limited_loop (S f) mx q t prev acc =
  if t <=? 0 then Some (q, acc) else
  let '(q', t') := P.step q t in
  if mx <=? P.cnt q' then Some (q', acc)
  else if prev <? P.cnt q' then hit_limited_loop f mx q' t' (P.cnt q') (S acc)
  else hit_limited_loop f mx q' t' prev acc.
Proof. reflexivity. Qed.
Lemma loop_O mx q t prev acc :
  hit_limited_loop O mx q t prev acc = if t <=? 0 then Some (q, acc) else None.
Proof. reflexivity. Qed.

(* ------------------------------------------------------------ the capped loop *)
(* wf is kept by the loop *)
Lemma loop_wf : forall f mx q t prev acc q' n,
  P.wf q -> hit_limited_loop f mx q t prev acc = Some (q', n) -> P.wf q'.
Proof.
  induction f as [|f IH]; intros mx q t prev acc q' n W H.
  - rewrite loop_O in H. destruct (t <=? 0); [|discriminate]. injection H as <- _. exact W.
  - rewrite loop_S in H. destruct (t <=? 0) eqn:Et; [injection H as <- _; exact W|].
    pose proof (PP.step_wf q t W ltac:(lia)) as W'.
    destruct (P.step q t) as [q1 t1]. cbn [fst] in W'.
    destruct (mx <=? P.cnt q1); [injection H as <- _; exact W'|].
    destruct (prev <? P.cnt q1); eapply IH; eauto.
Qed.

(* enough fuel: the loop terminates normally *)
Lemma loop_some : forall f mx q t prev acc,
  P.wf q -> (Z.to_nat t < f)%nat -> hit_limited_loop f mx q t prev acc <> None.
Proof.
  induction f as [|f IH]; intros mx q t prev acc W F; [lia|].
  rewrite loop_S. destruct (t <=? 0) eqn:Et; [discriminate|].
  assert (Ht : 0 < t) by lia.
  pose proof (PP.step_wf q t W Ht) as W'. pose proof (PP.step_time q t W Ht) as T.
  destruct (P.step q t) as [q1 t1]. cbn [fst snd] in W', T.
  destruct (mx <=? P.cnt q1); [discriminate|].
  destruct (prev <? P.cnt q1); apply IH; auto; lia.
Qed.

(* (1) the cap is not reached: the loop is the plain schedule *)
Lemma loop_nocap : forall f mx q t acc,
  P.wf q -> (Z.to_nat t < f)%nat -> P.cnt (P.run f q t) < mx ->
  hit_limited_loop f mx q t (P.cnt q) acc
  = Some (P.run f q t, (acc + Z.to_nat (P.cnt (P.run f q t) - P.cnt q))%nat).
Proof.
  induction f as [|f IH]; intros mx q t acc W F C; [lia|].
  rewrite loop_S. cbn [P.run] in *. destruct (t <=? 0) eqn:Et.
  { rewrite Z.sub_diag. cbn. rewrite Nat.add_0_r. reflexivity. }
  assert (Ht : 0 < t) by lia.
  pose proof (PP.step_wf q t W Ht) as W'. pose proof (PP.step_time q t W Ht) as T.
  pose proof (step_cnt q t) as C1. pose proof (step_cnt_le q t) as C2.
  destruct (P.step q t) as [q1 t1]. cbn [fst snd] in *.
  pose proof (run_cnt f q1 t1) as C3.
  destruct (mx <=? P.cnt q1) eqn:E1; [lia|].
  destruct (P.cnt q <? P.cnt q1) eqn:E2.
  - rewrite IH; auto; try lia.
    replace (S acc + Z.to_nat (P.cnt (P.run f q1 t1) - P.cnt q1))%nat
      with (acc + Z.to_nat (P.cnt (P.run f q1 t1) - P.cnt q))%nat by lia.
    reflexivity.
  - assert (Eq : P.cnt q1 = P.cnt q) by lia. rewrite <- Eq. rewrite IH; auto; lia.
Qed.

(* (2) the cap is reached: the loop stops right after the tick that reaches mx *)
Lemma loop_cap : forall f mx q t acc,
  P.cnt q < mx -> mx <= P.cnt (P.run f q t) ->
  exists q', hit_limited_loop f mx q t (P.cnt q) acc
             = Some (q', (acc + Z.to_nat (mx - 1 - P.cnt q))%nat)
          /\ P.cnt q' = mx /\ P.interval q' = P.interval q.
Proof.
  induction f as [|f IH]; intros mx q t acc C0 C; cbn [P.run] in C; [lia|].
  rewrite loop_S. destruct (t <=? 0) eqn:Et; [lia|].
  pose proof (step_cnt q t) as C1. pose proof (step_cnt_le q t) as C2.
  pose proof (step_interval q t) as I1.
  destruct (P.step q t) as [q1 t1]. cbn [fst snd] in *.
  destruct (mx <=? P.cnt q1) eqn:E1.
  - exists q1. split; [|split; [lia|exact I1]].
    replace (acc + Z.to_nat (mx - 1 - P.cnt q))%nat with acc by lia. reflexivity.
  - destruct (P.cnt q <? P.cnt q1) eqn:E2.
    + destruct (IH mx q1 t1 (S acc) ltac:(lia) C) as (q' & H & Hc & Hi).
      exists q'. split; [|split; [exact Hc|congruence]]. rewrite H.
      replace (S acc + Z.to_nat (mx - 1 - P.cnt q1))%nat with (acc + Z.to_nat (mx - 1 - P.cnt q))%nat by lia.
      reflexivity.
    + assert (Eq : P.cnt q1 = P.cnt q) by lia. rewrite <- Eq.
      destruct (IH mx q1 t1 acc ltac:(lia) C) as (q' & H & Hc & Hi).
      exists q'. split; [|split; [exact Hc|congruence]]. rewrite H, Eq. reflexivity.
Qed.

(* (3) already capped (hence dead): nothing happens *)
Lemma loop_capped f mx q t acc :
  mx <= P.cnt q -> P.tl q <= 0 ->
  hit_limited_loop (S f) mx q t (P.cnt q) acc = Some (q, acc).
Proof.
  intros C D. rewrite loop_S. destruct (t <=? 0); [reflexivity|].
  unfold P.step. destruct (P.tl q <=? 0) eqn:E; [|lia].
  destruct (mx <=? P.cnt q) eqn:E1; [reflexivity|lia].
Qed.

(* the three cases together *)
Definition hl_case (mx : Z) (q : P.P) (t : Z) (q' : P.P) (n : nat) : Prop :=
  (P.cnt (P.elapse q t) < mx /\ q' = P.elapse q t /\ n = ticks q q')
  \/ (P.cnt q < mx <= P.cnt (P.elapse q t) /\ P.cnt q' = mx /\ P.interval q' = P.interval q
      /\ n = Z.to_nat (mx - 1 - P.cnt q))
  \/ (mx <= P.cnt q /\ q' = q /\ n = 0%nat).

Lemma hl_char mx q t :
  P.wf q -> 0 <= t -> (mx <= P.cnt q -> P.tl q <= 0) ->
  exists q' n, hit_limited_loop (P.fuel_of t) mx q t (P.cnt q) O = Some (q', n)
               /\ P.wf q' /\ hl_case mx q t q' n.
Proof.
  intros W Ht D.
  assert (X : exists q' n, hit_limited_loop (P.fuel_of t) mx q t (P.cnt q) O = Some (q', n)
                           /\ hl_case mx q t q' n).
  { destruct (Z_lt_le_dec (P.cnt q) mx) as [C0|C0].
    - destruct (Z_lt_le_dec (P.cnt (P.elapse q t)) mx) as [C|C].
      + exists (P.elapse q t), (ticks q (P.elapse q t)). split; [|left; auto].
        unfold P.elapse in *. rewrite (loop_nocap (P.fuel_of t) mx q t O W); [reflexivity| |exact C].
        unfold P.fuel_of; lia.
      + unfold P.elapse in C. destruct (loop_cap (P.fuel_of t) mx q t O C0 C) as (q' & H & Hc & Hi).
        exists q', (Z.to_nat (mx - 1 - P.cnt q)). split; [exact H|].
        right; left. unfold P.elapse. auto.
    - exists q, O. split; [|right; right; auto].
      unfold P.fuel_of. apply loop_capped; auto. }
  destruct X as (q' & n & H & K). exists q', n. split; [exact H|]. split; [|exact K].
  eapply loop_wf; eauto.
Qed.

(* ------------------------------------------------------------ required side lemmas *)
Lemma hl_fuel_enough p t s :
  P.wf (u_p1 s) -> 0 <= t ->
  hit_limited_loop (P.fuel_of t) (p_maxcount p) (u_p1 s) t (P.cnt (u_p1 s)) O <> None.
Proof. intros W Ht. apply loop_some; [exact W|unfold P.fuel_of; lia]. Qed.

Lemma hl_spec_some p t s :
  P.wf (u_p1 s) -> 0 <= t ->
  exists q n, hit_limited_loop (P.fuel_of t) (p_maxcount p) (u_p1 s) t (P.cnt (u_p1 s)) O = Some (q, n)
    /\ P.wf q
    /\ hl_spec p t s = (set_p1 (set_cd s (u_cd s - t)) (hl_fin (p_maxcount p) q),
                        EElapsed t :: repeat (dealt (p_pd1 p)) n).
Proof.
  intros W Ht. pose proof (hl_fuel_enough p t s W Ht) as F. rewrite hl_spec_unfold.
  destruct (hit_limited_loop _ _ _ _ _ _) as [[q n]|] eqn:E; [|congruence].
  exists q, n. split; [reflexivity|]. split; [|reflexivity]. eapply loop_wf; eauto.
Qed.

Lemma hl_elapsed_carries_time p t s :
  P.wf (u_p1 s) -> 0 <= t -> elapsed_times (snd (hl_spec p t s)) = [t].
Proof.
  intros W Ht. destruct (hl_spec_some p t s W Ht) as (q & n & _ & _ & ->).
  cbn [snd]. change (EElapsed t :: ?l) with ([EElapsed t] ++ l).
  rewrite elapsed_times_app, elapsed_times_repeat. reflexivity.
Qed.

Lemma hl_fin_wf mx q : P.wf q -> P.wf (hl_fin mx q).
Proof. unfold hl_fin. destruct (mx <=? P.cnt q); auto. Qed.
Lemma hl_fin_inv mx q : mx <= P.cnt (hl_fin mx q) -> P.tl (hl_fin mx q) <= 0.
Proof. unfold hl_fin. destruct (mx <=? P.cnt q) eqn:E; cbn; lia. Qed.

(* the invariant: established by an accepted use, preserved by every reducer of the class *)
Lemma hl_inv_elapse p t s : hl_inv p s -> hl_inv p (fst (hl_spec p t s)).
Proof.
  intros [M D]. rewrite hl_spec_unfold.
  destruct (hit_limited_loop _ _ _ _ _ _) as [[q n]|]; cbn [fst]; [|split; assumption].
  split; [exact M|]. usimpl. apply hl_fin_inv.
Qed.

Lemma hl_inv_use_established p t s s' es :
  0 < p_maxcount p -> reduce_spec HitLimitedPeriodic MUse p t s = Some (s', es) ->
  rejected es = false -> hl_inv p s'.
Proof.
  intros M H R. rewrite reduce_hl_use in H. unfold use_periodic in H.
  destruct (negb (avail s)); injection H as <- <-; [discriminate|].
  split; [exact M|]. usimpl. unfold P.set_time_left. cbn [P.cnt]. lia.
Qed.

Lemma hl_inv_preserved m p t s s' es :
  hl_inv p s -> reduce_spec HitLimitedPeriodic m p t s = Some (s', es) -> hl_inv p s'.
Proof.
  intros I H. destruct m; try discriminate.
  - rewrite reduce_hl_use in H. unfold use_periodic in H.
    destruct (negb (avail s)); injection H as <- <-; [exact I|].
    destruct I as [M _]. split; [exact M|]. usimpl. unfold P.set_time_left. cbn [P.cnt]. lia.
  - rewrite reduce_hl_elapse in H. injection H as H. change s' with (fst (s', es)). rewrite <- H.
    apply hl_inv_elapse. exact I.
Qed.

(* wf is preserved by every reducer of the class (the counterpart of CompChunk.wf_preserved) *)
Lemma hl_wf_preserved m p t s s' es :
  wf_ust s -> wf_par p s -> 0 <= t ->
  reduce_spec HitLimitedPeriodic m p t s = Some (s', es) ->
  wf_ust s' /\ u_ic1 s' = u_ic1 s /\ u_ic2 s' = u_ic2 s /\ u_ic3 s' = u_ic3 s.
Proof.
  intros (W1 & W2 & W3 & WC & WK) (_ & I1 & _ & _) Ht H. destruct m; try discriminate.
  - rewrite reduce_hl_use in H. unfold use_periodic in H.
    destruct (negb (avail s)); injection H as <- <-;
      (split; [apply wf_ust_intro|repeat split]); usimpl; try assumption.
    apply set_time_left_wf; assumption.
  - rewrite reduce_hl_elapse in H. destruct (hl_spec_some p t s W1 Ht) as (q & n & _ & Wq & E).
    rewrite E in H. injection H as <- _.
    (split; [apply wf_ust_intro|repeat split]); usimpl; try assumption.
    apply hl_fin_wf. exact Wq.
Qed.

(* ------------------------------------------------------------ chunk additivity *)
Lemma norm_disable_eq q1 q2 :
  P.interval q1 = P.interval q2 -> P.cnt q1 = P.cnt q2 -> P.norm (P.disable q1) = P.norm (P.disable q2).
Proof. unfold P.norm, P.disable. cbn. intros -> ->. reflexivity. Qed.

Lemma hl_dealts t x n : dealts (EElapsed t :: repeat (dealt x) n) = repeat (dealt x) n.
Proof. change (EElapsed t :: ?l) with ([EElapsed t] ++ l). rewrite dealts_app, dealts_repeat. reflexivity. Qed.

Theorem chunk_hitlimited p a b s s1 e1 s2 e2 s3 e3 :
  wf_ust s -> hl_inv p s -> 0 <= a -> 0 <= b ->
  reduce_spec HitLimitedPeriodic MElapse p a s = Some (s1, e1) ->
  reduce_spec HitLimitedPeriodic MElapse p b s1 = Some (s2, e2) ->
  reduce_spec HitLimitedPeriodic MElapse p (a + b) s = Some (s3, e3) ->
  unorm s2 = unorm s3 /\ Permutation (dealts (e1 ++ e2)) (dealts e3).
Proof.
  intros (W & _) [M D] Ha Hb H1 H2 H3. rewrite reduce_hl_elapse in H1, H2, H3.
  rewrite hl_spec_unfold in H1, H3.
  set (mx := p_maxcount p) in *. set (q := u_p1 s) in *.
  destruct (hl_char mx q a W Ha D) as (q1 & n1 & L1 & W1 & K1).
  destruct (hl_char mx q (a + b) W ltac:(lia) D) as (q3 & n3 & L3 & W3 & K3).
  rewrite L1 in H1. rewrite L3 in H3. injection H1 as <- <-. injection H3 as <- <-.
  rewrite hl_spec_unfold in H2. usimpl. cbn [u_p1 set_p1 set_cd u_cd] in H2. fold mx in H2.
  pose proof (hl_fin_wf mx q1 W1) as Wf1. pose proof (hl_fin_inv mx q1) as Df1.
  destruct (hl_char mx (hl_fin mx q1) b Wf1 Hb Df1) as (q2 & n2 & L2 & W2 & K2).
  rewrite L2 in H2. injection H2 as <- <-.
  pose proof (PP.elapse_additive q a b W Ha Hb) as ADD.
  pose proof (obs_eq_norm _ _ ADD) as NRM.
  assert (CNT : P.cnt (P.elapse (P.elapse q a) b) = P.cnt (P.elapse q (a + b))).
  { destruct ADD as [E _]. unfold P.obs in E. injection E as _ E _. exact E. }
  pose proof (elapse_cnt q a) as CA. pose proof (elapse_cnt (P.elapse q a) b) as CB.
  pose proof (elapse_interval q a) as IA.
  rewrite dealts_app, !hl_dealts, repeat_add.
  (* it suffices to compare the written-back schedules and the tick numbers *)
  cut (P.norm (hl_fin mx q2) = P.norm (hl_fin mx q3) /\ (n1 + n2 = n3)%nat).
  { intros [N T]. split; [|rewrite T; reflexivity].
    apply ust_ext; usimpl; rewrite ?N; try reflexivity; lia. }
  unfold hl_case in K1, K2, K3.
  destruct K1 as [(C1 & -> & ->) | [(C1 & Q1 & I1 & ->) | (C1 & -> & ->)]].
  - (* first chunk below the cap *)
    assert (F1 : hl_fin mx (P.elapse q a) = P.elapse q a).
    { unfold hl_fin. destruct (mx <=? P.cnt (P.elapse q a)) eqn:E; [lia|reflexivity]. }
    rewrite F1 in *.
    destruct K2 as [(C2 & -> & ->) | [(C2 & Q2 & I2 & ->) | (C2 & _)]]; [| |lia].
    + (* second chunk below the cap too *)
      destruct K3 as [(C3 & -> & ->) | [(C3 & _) | (C3 & _)]]; [|lia|lia].
      unfold hl_fin.
      destruct (mx <=? P.cnt (P.elapse (P.elapse q a) b)) eqn:E2; [lia|].
      destruct (mx <=? P.cnt (P.elapse q (a + b))) eqn:E3; [lia|].
      split; [exact NRM|]. unfold ticks. lia.
    + (* the cap is reached in the second chunk *)
      destruct K3 as [(C3 & _) | [(C3 & Q3 & I3 & ->) | (C3 & _)]]; [lia| |lia].
      unfold hl_fin. rewrite Q2, Q3. destruct (mx <=? mx) eqn:E; [|lia].
      split; [apply norm_disable_eq; congruence|]. unfold ticks. lia.
  - (* the cap is reached in the first chunk *)
    assert (F1 : hl_fin mx q1 = P.disable q1).
    { unfold hl_fin. rewrite Q1. destruct (mx <=? mx) eqn:E; [reflexivity|lia]. }
    rewrite F1 in *.
    assert (CD : P.cnt (P.disable q1) = mx) by (cbn; exact Q1).
    pose proof (elapse_cnt (P.disable q1) b) as CB1.
    destruct K2 as [(C2 & _) | [(C2 & _) | (C2 & -> & ->)]]; [lia|lia|].
    destruct K3 as [(C3 & _) | [(C3 & Q3 & I3 & ->) | (C3 & _)]]; [lia| |lia].
    unfold hl_fin. rewrite CD, Q3. destruct (mx <=? mx) eqn:E; [|lia].
    split; [apply norm_disable_eq; cbn; congruence|lia].
  - (* capped from the start *)
    assert (F1 : hl_fin mx q = P.disable q).
    { unfold hl_fin. destruct (mx <=? P.cnt q) eqn:E; [reflexivity|lia]. }
    rewrite F1 in *.
    assert (CD : P.cnt (P.disable q) = P.cnt q) by reflexivity.
    pose proof (elapse_cnt (P.disable q) b) as CB1.
    destruct K2 as [(C2 & _) | [(C2 & _) | (C2 & -> & ->)]]; [lia|lia|].
    destruct K3 as [(C3 & _) | [(C3 & _) | (C3 & -> & ->)]]; [lia|lia|].
    rewrite F1. unfold hl_fin. rewrite CD. destruct (mx <=? P.cnt q) eqn:E; [|lia].
    split; [apply norm_disable_eq; reflexivity|reflexivity].
Qed.

(* the views of the class only read the normalised state, so they agree as well *)
Corollary chunk_hitlimited_views p a b s s1 e1 s2 e2 s3 e3 :
  wf_ust s -> hl_inv p s -> 0 <= a -> 0 <= b ->
  reduce_spec HitLimitedPeriodic MElapse p a s = Some (s1, e1) ->
  reduce_spec HitLimitedPeriodic MElapse p b s1 = Some (s2, e2) ->
  reduce_spec HitLimitedPeriodic MElapse p (a + b) s = Some (s3, e3) ->
  view_validity HitLimitedPeriodic p s2 = view_validity HitLimitedPeriodic p s3 /\
  view_running HitLimitedPeriodic p s2 = view_running HitLimitedPeriodic p s3 /\
  view_buff HitLimitedPeriodic s2 = view_buff HitLimitedPeriodic s3 /\
  view_keydown HitLimitedPeriodic s2 = view_keydown HitLimitedPeriodic s3.
Proof.
  intros W I Ha Hb H1 H2 H3.
  destruct (chunk_hitlimited p a b s s1 e1 s2 e2 s3 e3 W I Ha Hb H1 H2 H3) as [U _].
  destruct (views_unorm HitLimitedPeriodic p s2) as (A1 & A2 & A3 & A4).
  destruct (views_unorm HitLimitedPeriodic p s3) as (B1 & B2 & B3 & B4).
  rewrite <- A1, <- A2, <- A3, <- A4, <- B1, <- B2, <- B3, <- B4, U. repeat split.
Qed.

(* ------------------------------------------------------------ non-vacuity *)
(* interval 10, 100 ticks of life, cap 3: elapsing 50 reaches the cap at time 30 inside the
   first chunk (two damage events: the third tick is swallowed), the second chunk is dead. *)
Definition ex_par : par :=
  mkPar false (0, 0) 0 0 0 100 100 0 [] (7, 1) (0, 0) (0, 0) (0, 0) 0 (0, 0) 0 0 3 0 (0, 0).
Definition ex_st : ust :=
  mkU 0 0 0 0 (C.mkC 1 1 10 10) (P.mkP 10 10 100 0) (P.mkP 1 1 0 0) (P.mkP 1 1 0 0)
      None None None (K.mkK 1 0 0) 0.

Example hl_nonvacuous :
  wf_ust ex_st /\ hl_inv ex_par ex_st /\
  reduce_spec HitLimitedPeriodic MElapse ex_par 50 ex_st
    = Some (set_p1 (set_cd ex_st (-50)) (P.mkP 10 10 0 3), [EElapsed 50; EDealt 7 1; EDealt 7 1]) /\
  reduce_spec HitLimitedPeriodic MElapse ex_par 20 (set_p1 (set_cd ex_st (-50)) (P.mkP 10 10 0 3))
    = Some (set_p1 (set_cd ex_st (-70)) (P.mkP 10 10 0 3), [EElapsed 20]) /\
  reduce_spec HitLimitedPeriodic MElapse ex_par 70 ex_st
    = Some (set_p1 (set_cd ex_st (-70)) (P.mkP 10 10 0 3), [EElapsed 70; EDealt 7 1; EDealt 7 1]) /\
  (* the plain schedule would have ticked 5 and 7 times *)
  P.cnt (P.elapse (u_p1 ex_st) 50) = 5 /\ P.cnt (P.elapse (u_p1 ex_st) 70) = 7.
Proof.
  split; [|split].
  - unfold wf_ust, P.wf, C.wf, K.wf. cbn. lia.
  - unfold hl_inv. cbn. lia.
  - repeat split; vm_compute; reflexivity.
Qed.

Print Assumptions chunk_hitlimited.
Print Assumptions chunk_hitlimited_views.
Print Assumptions hl_inv_preserved.
Print Assumptions hl_inv_use_established.
Print Assumptions hl_wf_preserved.
Print Assumptions hl_fuel_enough.
Print Assumptions hl_elapsed_carries_time.
Print Assumptions hl_char.
Print Assumptions hl_nonvacuous.
