(* C09 for ChainLightningVIComponent: the electric-current fields (CurrentField) are a FIFO list
   of Periodic schedules; elapse advances each, drops the ones that are over and sums the ticks. *)
From Coq Require Import ZArith List Bool Lia.
From V.Model Require Import Comp SpecMage.
From V.Proofs Require Import CompChunk SpecMageReject SpecMageChunk.
From V.Proofs Require EPeriodicP.
Import ListNotations.
Open Scope Z_scope.

Arguments P.elapse : simpl never.
Arguments ticks : simpl never.
Arguments P.enabled : simpl never.

(* a live schedule is determined by its observation *)
Lemma obs_eq_live a b : P.obs_eq a b -> 0 < P.tl b -> a = b.
Proof.
  destruct a as [i c t n], b as [i' c' t' n']. unfold P.obs_eq, P.obs. cbn. intros [H I] L. subst i'.
  injection H as -> -> H. replace (0 <? t') with true in H by (symmetry; apply Z.ltb_lt; exact L). subst. reflexivity.
Qed.

Lemma field_chunk a b : 0 <= a -> 0 <= b -> forall l, Forall P.wf l ->
  filter P.enabled (map (fun q => P.elapse q b) (filter P.enabled (map (fun q => P.elapse q a) l)))
  = filter P.enabled (map (fun q => P.elapse q (a + b)) l)
  /\ (cf_tick_sum P.elapse a l + cf_tick_sum P.elapse b (filter P.enabled (map (fun q => P.elapse q a) l))
      = cf_tick_sum P.elapse (a + b) l)%nat.
Proof.
  intros Ha Hb. induction l as [|q l IH]; intros W; [split; reflexivity|].
  inversion W as [|? ? Wq Wl]; subst. destruct (IH Wl) as [IHf IHt]. clear IH.
  destruct (periodic_chunk q a b Wq Ha Hb) as [_ T _ TL].
  pose proof (PP.elapse_additive q a b Wq Ha Hb) as ADD.
  cbn [map filter cf_tick_sum fold_right].
  fold (cf_tick_sum P.elapse a l). fold (cf_tick_sum P.elapse (a + b) l).
  destruct (P.enabled (P.elapse q a)) eqn:E1.
  - cbn [map filter cf_tick_sum fold_right].
    fold (cf_tick_sum P.elapse b (filter P.enabled (map (fun q0 => P.elapse q0 a) l))).
    assert (E23 : P.enabled (P.elapse (P.elapse q a) b) = P.enabled (P.elapse q (a + b))) by (unfold P.enabled; rewrite TL; reflexivity).
    rewrite E23. destruct (P.enabled (P.elapse q (a + b))) eqn:E3.
    + rewrite IHf. split; [|lia]. f_equal. apply obs_eq_live; [exact ADD|]. unfold P.enabled in E3. apply Z.ltb_lt in E3. exact E3.
    + rewrite IHf. split; [reflexivity|lia].
  - (* over after the first chunk: dropped, and dropped in the single run too *)
    assert (D : P.tl (P.elapse q a) <= 0) by (unfold P.enabled in E1; apply Z.ltb_ge in E1; exact E1).
    assert (R2 : P.elapse (P.elapse q a) b = P.elapse q a) by (apply elapse_dead; exact D).
    assert (E3 : P.enabled (P.elapse q (a + b)) = false) by (unfold P.enabled; rewrite <- TL, R2; apply Z.ltb_ge; exact D).
    rewrite E3. split; [exact IHf|]. rewrite R2 in T. replace (ticks (P.elapse q a) (P.elapse q a)) with O in T by (unfold ticks; lia).
    fold (cf_tick_sum P.elapse b (filter P.enabled (map (fun q0 => P.elapse q0 a) l))). lia.
Qed.

Lemma xchunk_field p a b s s1 e1 s2 e2 s3 e3 :
  xwf s -> 0 <= a -> 0 <= b ->
  xreduce_spec ChainLightningVI XElapse p a s = Some (s1, e1) ->
  xreduce_spec ChainLightningVI XElapse p b s1 = Some (s2, e2) ->
  xreduce_spec ChainLightningVI XElapse p (a + b) s = Some (s3, e3) ->
  s2 = s3 /\ xdealts (e1 ++ e2) = xdealts e3.
Proof.
  intros (_ & _ & W & _) Ha Hb H1 H2 H3. cbn in H1, H2, H3.
  injection H1 as <- <-. cbn [x_cf x_u xset_cf xset_u cf_per cf_itv cf_dur cf_max cf_last cf_force cf_rng u_cd set_cd] in H2.
  injection H2 as <- <-. injection H3 as <- <-.
  destruct (field_chunk a b Ha Hb (cf_per (x_cf s)) W) as [F T]. split.
  - apply xst_ext; xsimpl; try reflexivity.
    + apply ust_ext; usimpl; try reflexivity; lia.
    + rewrite F. f_equal. lia.
  - change (XE (EElapsed ?t) :: ?l) with ([XE (EElapsed t)] ++ l). rewrite !xdealts_app, !xdealts_repeat.
    cbn [xdealts filter xis_dealt app]. rewrite repeat_add, T. reflexivity.
Qed.

(* the fields stay well-formed *)
Lemma lastn_Forall {A} (Q : A -> Prop) n l : Forall Q l -> Forall Q (lastn n l).
Proof.
  intros H. unfold lastn. destruct (n =? 0); [exact H|]. destruct (0 <? n).
  - rewrite <- (firstn_skipn (length l - Z.to_nat n) l) in H. apply Forall_app in H. apply H.
  - rewrite <- (firstn_skipn (Z.to_nat (- n)) l) in H. apply Forall_app in H. apply H.
Qed.
Lemma cf_stack_rng_wf one prob c :
  Forall P.wf (cf_per c) -> 0 < cf_itv c -> Forall P.wf (cf_per (cf_stack_rng one prob c)) /\ cf_itv (cf_stack_rng one prob c) = cf_itv c.
Proof.
  intros W I. unfold cf_stack_rng, cf_create.
  assert (N : Forall P.wf (cf_per c ++ [P.mkP (cf_itv c) (cf_itv c) (cf_dur c) 0])).
  { apply Forall_app. split; [exact W|]. constructor; [|constructor]. unfold P.wf. cbn. lia. }
  destruct (cf_force c <=? cf_last c); cbn; [split; [apply lastn_Forall; exact N|reflexivity]|].
  destruct (one <=? cf_rng c + prob); cbn; split; try reflexivity; try exact W. apply lastn_Forall; exact N.
Qed.
Lemma cf_elapse_wf t c :
  Forall P.wf (cf_per c) -> Forall P.wf (cf_per (fst (cf_elapse P.elapse t c))) /\ cf_itv (fst (cf_elapse P.elapse t c)) = cf_itv c.
Proof.
  intros W. cbn. split; [|reflexivity]. induction (cf_per c) as [|q l IH]; cbn; [constructor|].
  inversion W; subst. destruct (P.enabled (P.elapse q t)); [constructor; [apply elapse_wf; assumption|]|]; apply IH; assumption.
Qed.

(* non-vacuity: two fields, interval 1000; elapsing 1500 then 1500 ticks 3 + 3 times and drops the first field,
   like elapsing 3000 *)
Definition cl_st : xst := xset_cf x0 (mkCF [P.mkP 1000 400 2500 0; P.mkP 1000 1000 4000 0] 1000 4000 4 0 7000 0).
Example cl_nonvacuous :
  xwf cl_st /\
  exists s1 s2,
    xreduce_spec ChainLightningVI XElapse xp0 1500 cl_st = Some (s1, [XE (EElapsed 1500); XE (EDealt 8 1); XE (EDealt 8 1); XE (EDealt 8 1)]) /\
    xreduce_spec ChainLightningVI XElapse xp0 1500 s1 = Some (s2, [XE (EElapsed 1500); XE (EDealt 8 1); XE (EDealt 8 1); XE (EDealt 8 1)]) /\
    xreduce_spec ChainLightningVI XElapse xp0 3000 cl_st
      = Some (s2, [XE (EElapsed 3000); XE (EDealt 8 1); XE (EDealt 8 1); XE (EDealt 8 1); XE (EDealt 8 1); XE (EDealt 8 1); XE (EDealt 8 1)]) /\
    length (cf_per (x_cf s1)) = 2%nat /\ length (cf_per (x_cf s2)) = 1%nat.
Proof.
  split.
  - unfold xwf, P.wf. cbn. repeat split; try lia. repeat constructor; cbn; lia.
  - do 2 eexists. repeat split; vm_compute; reflexivity.
Qed.
