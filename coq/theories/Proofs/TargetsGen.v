(* C19 (real targets) -- generic lemmas: the region in which Stat addition is monotone, sums of optional contributions,
   soundness of the boolean table checks, Python list helpers of Model/TargetsRt.v. *)
From Coq Require Import List ZArith QArith Qminmax Bool String Lia Lqa Arith.
From V.Model Require Import Greedy TargetsRt Targets.
From V.Proofs Require Import DamageMono StatLaws.
From G Require Import CoreQ.
Import ListNotations.
Open Scope Q_scope.

(* ------------------------------------------------------------------ good blocks and Stat addition *)
(* every field >= 0 and ignored defence <= 100 % *)
Definition good (x : Stat) : Prop := Stat_nonneg x /\ Stat_ignored_defence x <= 100.

Ltac split_forall H :=
  repeat (let F := fresh "F" in pose proof (Forall_inv H) as F; cbn beta in F; apply Forall_inv_tail in H).

Lemma Stat_le_refl a : Stat_le a a.
Proof. unfold Stat_le. apply Forall_forall. intros g _. apply Qle_refl. Qed.

Lemma Stat_le_trans a b c : Stat_le a b -> Stat_le b c -> Stat_le a c.
Proof.
  unfold Stat_le. rewrite !Forall_forall. intros H1 H2 g Hg. eapply Qle_trans; [apply H1|apply H2]; exact Hg.
Qed.

Lemma field_in_ied : In Stat_ignored_defence Stat_fields.
Proof. unfold Stat_fields. cbn [In]. tauto. Qed.
Lemma field_in_fdm : In Stat_final_damage_multiplier Stat_fields.
Proof. unfold Stat_fields. cbn [In]. tauto. Qed.

Lemma nonneg_ied a : Stat_nonneg a -> 0 <= Stat_ignored_defence a.
Proof. unfold Stat_nonneg. rewrite Forall_forall. intros H. apply H, field_in_ied. Qed.
Lemma nonneg_fdm a : Stat_nonneg a -> 0 <= Stat_final_damage_multiplier a.
Proof. unfold Stat_nonneg. rewrite Forall_forall. intros H. apply H, field_in_fdm. Qed.
Lemma le_ied a b : Stat_le a b -> Stat_ignored_defence a <= Stat_ignored_defence b.
Proof. unfold Stat_le. rewrite Forall_forall. intros H. apply H, field_in_ied. Qed.
Lemma le_fdm a b : Stat_le a b -> Stat_final_damage_multiplier a <= Stat_final_damage_multiplier b.
Proof. unfold Stat_le. rewrite Forall_forall. intros H. apply H, field_in_fdm. Qed.

Lemma good_zero : good Stat_zero.
Proof.
  split.
  - unfold Stat_nonneg, Stat_fields, Stat_zero. repeat (apply Forall_cons; [cbn; discriminate|]). apply Forall_nil.
  - cbn. discriminate.
Qed.

(* Stat.__add__ keeps a good block good *)
Lemma add_good a b : good a -> good b -> good (Stat_add a b).
Proof.
  intros [Na Ia] [Nb Ib].
  pose proof (nonneg_ied _ Na) as Ia0. pose proof (nonneg_ied _ Nb) as Ib0.
  pose proof (nonneg_fdm _ Na) as Fa0. pose proof (nonneg_fdm _ Nb) as Fb0.
  assert (P1 : 0 <= Stat_final_damage_multiplier a * Stat_final_damage_multiplier b) by (apply Qmult_le_0_compat; assumption).
  assert (P2 : 0 <= (100 - Stat_ignored_defence a) * (100 - Stat_ignored_defence b)) by (apply Qmult_le_0_compat; lra).
  assert (P3 : 0 <= Stat_ignored_defence a * (100 - Stat_ignored_defence b)) by (apply Qmult_le_0_compat; lra).
  split.
  - unfold Stat_nonneg in *. unfold Stat_fields in *. split_forall Na. split_forall Nb.
    unfold Stat_add. repeat (apply Forall_cons; [cbn; lra|]). apply Forall_nil.
  - unfold Stat_add. cbn. lra.
Qed.

(* ... and is monotone in both arguments there *)
Lemma add_le a a' b b' : good a -> good a' -> good b -> good b' ->
  Stat_le a a' -> Stat_le b b' -> Stat_le (Stat_add a b) (Stat_add a' b').
Proof.
  intros [Na Ia] [Na' Ia'] [Nb Ib] [Nb' Ib'] Ha Hb.
  pose proof (le_fdm _ _ Ha) as Hfa. pose proof (le_fdm _ _ Hb) as Hfb.
  pose proof (le_ied _ _ Ha) as Hia. pose proof (le_ied _ _ Hb) as Hib.
  pose proof (nonneg_fdm _ Na) as Fa0. pose proof (nonneg_fdm _ Nb) as Fb0. pose proof (nonneg_fdm _ Na') as Fa0'.
  assert (P1 : 0 <= (Stat_final_damage_multiplier a' - Stat_final_damage_multiplier a) * (100 + Stat_final_damage_multiplier b)) by (apply Qmult_le_0_compat; lra).
  assert (P2 : 0 <= (Stat_final_damage_multiplier b' - Stat_final_damage_multiplier b) * (100 + Stat_final_damage_multiplier a')) by (apply Qmult_le_0_compat; lra).
  assert (P3 : 0 <= (Stat_ignored_defence a' - Stat_ignored_defence a) * (100 - Stat_ignored_defence b)) by (apply Qmult_le_0_compat; lra).
  assert (P4 : 0 <= (Stat_ignored_defence b' - Stat_ignored_defence b) * (100 - Stat_ignored_defence a')) by (apply Qmult_le_0_compat; lra).
  unfold Stat_le in *. unfold Stat_fields in *. split_forall Ha. split_forall Hb.
  unfold Stat_add. repeat (apply Forall_cons; [cbn; lra|]). apply Forall_nil.
Qed.

(* adding a good block never lowers a good block *)
Lemma add_ge a b : good a -> good b -> Stat_le a (Stat_add a b).
Proof.
  intros [Na Ia] [Nb Ib].
  pose proof (nonneg_ied _ Nb) as Ib0. pose proof (nonneg_fdm _ Na) as Fa0. pose proof (nonneg_fdm _ Nb) as Fb0.
  assert (P1 : 0 <= Stat_final_damage_multiplier a * Stat_final_damage_multiplier b) by (apply Qmult_le_0_compat; assumption).
  assert (P2 : 0 <= (100 - Stat_ignored_defence a) * Stat_ignored_defence b) by (apply Qmult_le_0_compat; lra).
  unfold Stat_nonneg in *. unfold Stat_fields in *. split_forall Na. split_forall Nb.
  unfold Stat_le, Stat_fields, Stat_add. repeat (apply Forall_cons; [cbn; lra|]). apply Forall_nil.
Qed.

(* fieldwise-equal blocks are interchangeable for <= and good *)
Lemma seq_fields a b : Stat_seq a b -> Forall (fun f : Stat -> Q => f a == f b) Stat_fields.
Proof.
  unfold Stat_seq. intros H. repeat match goal with H : _ /\ _ |- _ => destruct H end.
  unfold Stat_fields. repeat (apply Forall_cons; [assumption|]). apply Forall_nil.
Qed.

Lemma seq_le a b : Stat_seq a b -> Stat_le a b.
Proof.
  intros H. apply seq_fields in H. unfold Stat_le. rewrite Forall_forall in *. intros g Hg. rewrite (H g Hg). apply Qle_refl.
Qed.

Lemma seq_good a b : Stat_seq a b -> good a -> good b.
Proof.
  intros H [N I]. pose proof (seq_fields _ _ H) as F. rewrite Forall_forall in F. split.
  - unfold Stat_nonneg in *. rewrite Forall_forall in *. intros g Hg. rewrite <- (F g Hg). apply N, Hg.
  - rewrite <- (F _ field_in_ied). exact I.
Qed.

(* the same three facts for Stat.__iadd__ (`stat += x`) *)
Lemma iadd_good a b : good a -> good b -> good (Stat_iadd a b).
Proof. intros Ha Hb. eapply seq_good; [apply Stat_seq_sym, Stat_iadd_eq_add|]. apply add_good; assumption. Qed.
Lemma iadd_le a a' b b' : good a -> good a' -> good b -> good b' ->
  Stat_le a a' -> Stat_le b b' -> Stat_le (Stat_iadd a b) (Stat_iadd a' b').
Proof.
  intros. eapply Stat_le_trans; [apply seq_le, Stat_iadd_eq_add|].
  eapply Stat_le_trans; [apply (add_le a a' b b'); assumption|]. apply seq_le, Stat_seq_sym, Stat_iadd_eq_add.
Qed.
Lemma iadd_ge a b : good a -> good b -> Stat_le a (Stat_iadd a b).
Proof.
  intros. eapply Stat_le_trans; [apply (add_ge a b); assumption|]. apply seq_le, Stat_seq_sym, Stat_iadd_eq_add.
Qed.

(* ------------------------------------------------------------------ sums of optional contributions *)
(* `acc (+)= t` over a list of contributions each of which may have raised *)
Definition sumM (add : Stat -> Stat -> Stat) (ts : list (option Stat)) (acc : Stat) : option Stat :=
  py_foldM (fun a t => match t with Some x => Some (add a x) | None => None end) ts acc.

(* l' has everything l has, at least as large, plus possibly more good entries *)
Inductive terms_le : list (option Stat) -> list (option Stat) -> Prop :=
| tl_nil : terms_le [] []
| tl_both x x' l l' : good x -> good x' -> Stat_le x x' -> terms_le l l' -> terms_le (Some x :: l) (Some x' :: l')
| tl_skip x' l l' : good x' -> terms_le l l' -> terms_le l (Some x' :: l').

Section SumM.
  Variable add : Stat -> Stat -> Stat.
  Hypothesis add_good' : forall a b, good a -> good b -> good (add a b).
  Hypothesis add_le' : forall a a' b b', good a -> good a' -> good b -> good b' ->
    Stat_le a a' -> Stat_le b b' -> Stat_le (add a b) (add a' b').
  Hypothesis add_ge' : forall a b, good a -> good b -> Stat_le a (add a b).

  Lemma sumM_le l l' : terms_le l l' -> forall a a', good a -> good a' -> Stat_le a a' ->
    exists r r', sumM add l a = Some r /\ sumM add l' a' = Some r' /\ good r /\ good r' /\ Stat_le r r'.
  Proof.
    induction 1 as [|x x' l l' Gx Gx' Hx _ IH|x' l l' Gx' _ IH]; intros a a' Ga Ga' Ha.
    - exists a, a'. cbn. auto.
    - unfold sumM. cbn [py_foldM]. apply IH; auto.
    - unfold sumM. cbn [py_foldM]. fold (sumM add l' (add a' x')). apply IH; auto.
      eapply Stat_le_trans; [exact Ha|]. apply add_ge'; assumption.
  Qed.
End SumM.

Definition sumM_add_le := sumM_le Stat_add add_good add_le add_ge.
Definition sumM_iadd_le := sumM_le Stat_iadd iadd_good iadd_le iadd_ge.

(* [f x for x in xs] then sum(.., start)  =  the fold over the optional terms *)
Lemma mapM_sum {A} (f : A -> option Stat) add : forall (xs : list A) acc,
  match py_mapM f xs with Some l => Some (py_sum_with add l acc) | None => None end = sumM add (map f xs) acc.
Proof.
  induction xs as [|x xs IH]; intros acc; cbn [py_mapM map].
  - reflexivity.
  - unfold sumM. cbn [py_foldM]. destruct (f x) as [y|]; [|reflexivity].
    fold (sumM add (map f xs) (add acc y)). rewrite <- IH.
    destruct (py_mapM f xs); reflexivity.
Qed.

(* for x in xs: acc (+)= f x *)
Lemma foldM_sum {A} (f : A -> option Stat) add : forall (xs : list A) acc,
  py_foldM (fun a x => match f x with Some t => Some (add a t) | None => None end) xs acc = sumM add (map f xs) acc.
Proof.
  induction xs as [|x xs IH]; intros acc; cbn [py_foldM map].
  - reflexivity.
  - unfold sumM. cbn [py_foldM]. destruct (f x) as [y|]; [|reflexivity]. apply IH.
Qed.

(* ------------------------------------------------------------------ the boolean checks *)
Lemma qle_iff a b : qle a b = true <-> a <= b.
Proof. unfold qle. apply Qle_bool_iff. Qed.

Lemma good_b_sound x : good_b x = true -> good x.
Proof.
  unfold good_b. intros H. apply andb_prop in H. destruct H as [H1 H2]. split.
  - unfold Stat_nonneg. apply Forall_forall. intros g Hg. rewrite forallb_forall in H1. apply qle_iff, H1, Hg.
  - apply qle_iff, H2.
Qed.

Lemma stat_leb_sound x y : stat_leb x y = true -> Stat_le x y.
Proof.
  unfold stat_leb. intros H. unfold Stat_le. apply Forall_forall. intros g Hg. rewrite forallb_forall in H. apply qle_iff, H, Hg.
Qed.

(* a table: all entries good, non-decreasing in the index in every field *)
Definition table_ok (l : list Stat) : Prop :=
  forall a b x y, (a <= b)%nat -> nth_error l a = Some x -> nth_error l b = Some y -> good x /\ good y /\ Stat_le x y.

Lemma chain_ok_sound : forall l, chain_ok l = true -> table_ok l.
Proof.
  induction l as [|x r IH]; intros H a b u v Hab Ea Eb.
  - destruct a; discriminate.
  - cbn [chain_ok] in H. apply andb_prop in H. destruct H as [H Hr]. apply andb_prop in H. destruct H as [Gx Hn].
    apply good_b_sound in Gx. specialize (IH Hr).
    destruct a as [|a].
    + cbn in Ea. inversion Ea; subst u. destruct b as [|b].
      * cbn in Eb. inversion Eb; subst v. auto using Stat_le_refl.
      * cbn in Eb. destruct r as [|y r']; [destruct b; discriminate|].
        apply stat_leb_sound in Hn.
        destruct (IH 0%nat b y v (Nat.le_0_l b) eq_refl Eb) as (_ & Gv & Hyv).
        split; [exact Gx|split; [exact Gv|]]. eapply Stat_le_trans; eassumption.
    + destruct b as [|b]; [lia|]. cbn in Ea, Eb. apply (IH a b u v); [lia|assumption|assumption].
Qed.

Lemma table_ok_good l i x : table_ok l -> nth_error l i = Some x -> good x.
Proof. intros H E. destruct (H i i x x (Nat.le_refl i) E E) as (G & _). exact G. Qed.

Lemma nodup_b_sound : forall l, nodup_b l = true -> NoDup l.
Proof.
  induction l as [|x r IH]; intros H; [constructor|].
  cbn [nodup_b] in H. apply andb_prop in H. destruct H as [H1 H2]. constructor; [|apply IH, H2].
  intros I. apply negb_true_iff in H1. assert (existsb (String.eqb x) r = true); [|congruence].
  apply existsb_exists. exists x. split; [exact I|apply String.eqb_refl].
Qed.

(* ------------------------------------------------------------------ Python list helpers *)
Lemma py_index_nat {A} (l : list A) (n : nat) : py_index l (Z.of_nat n) = nth_error l n.
Proof. unfold py_index. destruct (Z.leb_spec 0 (Z.of_nat n)); [|lia]. rewrite Nat2Z.id. reflexivity. Qed.

Lemma py_len_length {A} (l : list A) : py_len l = Z.of_nat (List.length l).
Proof. reflexivity. Qed.

Lemma zs_length st : List.length (zs st) = List.length st.
Proof. unfold zs. apply map_length. Qed.

Lemma py_sum_Z_fold : forall l a, fold_left Z.add l a = (a + fold_left Z.add l 0)%Z.
Proof.
  induction l as [|x l IH]; intros a; cbn [fold_left]; [lia|]. rewrite IH. rewrite (IH (0 + x)%Z). lia.
Qed.

Lemma py_sum_Z_cons x l : py_sum_Z (x :: l) = (x + py_sum_Z l)%Z.
Proof. unfold py_sum_Z. cbn [fold_left]. rewrite py_sum_Z_fold. lia. Qed.

Lemma py_sum_Z_nil : py_sum_Z [] = 0%Z.
Proof. reflexivity. Qed.

Lemma py_sum_Z_nonneg : forall l, Forall (fun c => (0 <= c)%Z) l -> (0 <= py_sum_Z l)%Z.
Proof.
  induction l as [|x l IH]; intros F; [rewrite py_sum_Z_nil; lia|].
  rewrite py_sum_Z_cons. inversion F; subst. specialize (IH H2). lia.
Qed.

(* the state of Greedy.v read as Python ints: sum(state) *)
Lemma sum_zs_le : forall a b, List.length a = List.length b -> (forall i, (nth i a 0 <= nth i b 0)%nat) ->
  (py_sum_Z (zs a) <= py_sum_Z (zs b))%Z.
Proof.
  induction a as [|x a IH]; intros [|y b] L H; try (cbn in L; discriminate L).
  - apply Z.le_refl.
  - unfold zs in *. cbn [map]. rewrite !py_sum_Z_cons.
    assert (x <= y)%nat by apply (H 0%nat).
    assert (py_sum_Z (map Z.of_nat a) <= py_sum_Z (map Z.of_nat b))%Z.
    { apply IH; [cbn in L; lia|]. intros i. apply (H (S i)). }
    lia.
Qed.

Lemma sum_zs_bump : forall st i, (i < List.length st)%nat -> py_sum_Z (zs (bump st i)) = (py_sum_Z (zs st) + 1)%Z.
Proof.
  induction st as [|x st IH]; intros [|i] L; cbn in L; try lia.
  - unfold zs. cbn [bump map]. rewrite !py_sum_Z_cons. lia.
  - unfold zs in *. cbn [bump map]. rewrite !py_sum_Z_cons. rewrite IH; [lia|lia].
Qed.

Lemma inject_Z_le a b : (a <= b)%Z -> inject_Z a <= inject_Z b.
Proof. intros H. rewrite <- Zle_Qle. exact H. Qed.

(* ------------------------------------------------------------------ the objective: C12 under one type *)
Definition logic_wf (L : logic) : Prop := 0 <= logic_constant L /\ 0 <= logic_mastery L /\ logic_mastery L <= 1.

Lemma armor_factor_eq L s a : logic_armor_factor L s a == 1 - (1#10000) * (a * (100 - Stat_ignored_defence s)).
Proof. destruct L; reflexivity. Qed.

(* C12_damage_mono_{STR,INT,DEX,LUK,LUKDual} (Proofs/DamageMono.v), for whichever logic L is *)
Lemma logic_mono L s s' armor : logic_wf L -> Stat_nonneg s -> Stat_le s s' -> 0 <= armor ->
  0 <= logic_armor_factor L s armor -> mono_on (fun x => logic_df L x armor) s s'.
Proof.
  intros (H1 & H2 & H3) Hn Hle Ha Hf. destruct L; cbn [logic_df logic_armor_factor logic_constant logic_mastery] in *.
  - apply STR_damage_factor_mono; assumption.
  - apply INT_damage_factor_mono; assumption.
  - apply DEX_damage_factor_mono; assumption.
  - apply LUK_damage_factor_mono; assumption.
  - apply Dual_damage_factor_mono; assumption.
Qed.

(* default_stat + contribution: a larger good contribution never lowers the objective *)
Lemma objective_le L default armor t t' : logic_wf L -> good default -> 0 <= armor ->
  0 <= logic_armor_factor L default armor -> good t -> good t' -> Stat_le t t' ->
  0 <= logic_df L (Stat_add default t) armor /\
  logic_df L (Stat_add default t) armor <= logic_df L (Stat_add default t') armor.
Proof.
  intros Hw Gd Ha Hf Gt Gt' Hle.
  assert (Gs : good (Stat_add default t)) by (apply add_good; assumption).
  assert (Hs : Stat_le (Stat_add default t) (Stat_add default t')).
  { apply add_le; try assumption. apply Stat_le_refl. }
  apply (logic_mono L (Stat_add default t) (Stat_add default t') armor Hw (proj1 Gs) Hs Ha).
  rewrite armor_factor_eq in *.
  pose proof (le_ied _ _ (add_ge default t Gd Gt)) as Hi. destruct Gs as [_ Gi].
  assert (0 <= armor * (Stat_ignored_defence (Stat_add default t) - Stat_ignored_defence default)) by (apply Qmult_le_0_compat; lra).
  lra.
Qed.

Lemma py_mapM_ext {A B} (f g : A -> option B) : (forall x, f x = g x) -> forall l, py_mapM f l = py_mapM g l.
Proof. intros H. induction l as [|x l IH]; cbn [py_mapM]; [reflexivity|]. rewrite H, IH. reflexivity. Qed.

Lemma py_foldM_ext {A S} (f g : S -> A -> option S) : (forall s x, f s x = g s x) ->
  forall l s, py_foldM f l s = py_foldM g l s.
Proof. intros H. induction l as [|x l IH]; intros s; cbn [py_foldM]; [reflexivity|]. rewrite H. destruct (g s x); auto. Qed.

(* ------------------------------------------------------------------ tables read by index: tables[i][state[i]] *)
Section Indexed.
  Context {A : Type}.
  Variable tab : A -> list Stat.
  Variable f : A * Z -> option Stat.
  Hypothesis f_spec : forall a n, f (a, Z.of_nat n) = nth_error (tab a) n.

  Definition caps_of (tabs : list A) : list nat := map (fun a => List.length (tab a) - 1)%nat tabs.

  Lemma indexed_terms_le : forall tabs, Forall (fun a => table_ok (tab a) /\ tab a <> []) tabs ->
    forall st st', List.length st = List.length st' -> (forall i, (nth i st 0 <= nth i st' 0)%nat) ->
    within (caps_of tabs) st' ->
    terms_le (map f (combine tabs (zs st))) (map f (combine tabs (zs st'))).
  Proof.
    induction tabs as [|a tabs IH]; intros F st st' L H W.
    - cbn. constructor.
    - destruct st' as [|y st']; [destruct W|]. destruct st as [|x st]; [discriminate|].
      cbn [caps_of map within] in W. destruct W as [Wy W]. inversion F as [|? ? [Ta Na] F']; subst.
      unfold zs. cbn [map combine]. rewrite !f_spec.
      assert (Hxy : (x <= y)%nat) by apply (H 0%nat).
      assert (Ly : (y < List.length (tab a))%nat).
      { destruct (tab a); [congruence|]. cbn [List.length] in *. lia. }
      destruct (nth_error (tab a) y) as [v|] eqn:Ey; [|apply nth_error_None in Ey; lia].
      destruct (nth_error (tab a) x) as [u|] eqn:Ex; [|apply nth_error_None in Ex; lia].
      destruct (Ta x y u v Hxy Ex Ey) as (Gu & Gv & Huv).
      apply tl_both; try assumption.
      apply (IH F' st st'); [cbn in L; lia| |exact W]. intros i. apply (H (S i)).
  Qed.

  Lemma within_length : forall caps st, within caps st -> List.length st = List.length caps.
  Proof.
    induction caps as [|c caps IH]; intros [|x st] W; try destruct W; [reflexivity|]. cbn. f_equal. apply IH. assumption.
  Qed.
End Indexed.

Lemma within_le : forall caps st st', within caps st' -> List.length st = List.length st' ->
  (forall i, (nth i st 0 <= nth i st' 0)%nat) -> within caps st.
Proof.
  induction caps as [|c caps IH]; intros st st' W L H.
  - destruct st'; [|destruct W]. destruct st; [exact I|discriminate].
  - destruct st' as [|y st']; [destruct W|]. destruct st as [|x st]; [discriminate|]. destruct W as [Wy W].
    split; [pose proof (H 0%nat) as H0; cbn in H0; lia|]. apply (IH st st' W); [cbn in L; lia|]. intros i. apply (H (S i)).
Qed.

Lemma within_b_iff : forall caps st, within_b caps st = true <-> within caps st.
Proof.
  induction caps as [|c caps IH]; intros [|x st]; cbn [within within_b]; try tauto; try (split; [discriminate|tauto]).
  rewrite andb_true_iff, Nat.leb_le, IH. tauto.
Qed.

(* a state that is a maximum-respecting raise of a state within the caps stays within them when every cap >= M *)
Lemma within_raise : forall caps st st' M, within caps st -> List.length st = List.length st' ->
  (forall j, (nth j st' 0 <= Nat.max (nth j st 0) M)%nat) -> Forall (fun c => (M <= c)%nat) caps -> within caps st'.
Proof.
  induction caps as [|c caps IH]; intros st st' M W L H F.
  - destruct st; [|destruct W]. destruct st'; [exact I|discriminate].
  - destruct st as [|x st]; [destruct W|]. destruct st' as [|y st']; [discriminate|]. destruct W as [Wx W].
    inversion F; subst. split; [pose proof (H 0%nat) as H0; cbn in H0; lia|].
    apply (IH st st' M W); [cbn in L; lia| |assumption]. intros j. apply (H (S j)).
Qed.
