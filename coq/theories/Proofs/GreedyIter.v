(* C19 -- the step iterator (simaple/optimizer/step_iterator.py, modelled by
   V.Model.Greedy.cumulated) yields every multiset of 1..min(depth,4) slot indices below n
   exactly once, for every n and depth.

     cumulated_NoDup     no tuple is yielded twice
     cumulated_sound     every tuple is non-empty, has at most min(depth,4) entries, all < n
     cumulated_complete  every such multiset is yielded (as some arrangement of it)
     cumulated_unique    two yielded tuples that are arrangements of each other are equal

   Route: every member of combs (seq a n) k is a strictly increasing list; the members of
   the iterator are exactly the lists of a canonical `shape`; `rep (isort m)` is the
   canonical arrangement of the multiset m. *)
From Coq Require Import List Arith Lia Bool Permutation.
From V.Model Require Import Greedy.
Import ListNotations.

(* ------------------------------------------------------------------ generic list facts *)
Lemma NoDup_app_disj {A} (l l' : list A) :
  NoDup l -> NoDup l' -> (forall t, In t l -> In t l' -> False) -> NoDup (l ++ l').
Proof.
  intros Hl Hl' Hd. induction Hl as [|x l Hx Hl IH]; simpl; auto.
  constructor.
  - rewrite in_app_iff. intros [H|H]; [auto|]. apply (Hd x); simpl; auto.
  - apply IH. intros t H1 H2. apply (Hd t); simpl; auto.
Qed.

Lemma NoDup_app_sep {A} (f : A -> nat) k (l l' : list A) :
  NoDup l -> NoDup l' -> (forall t, In t l -> f t < k) -> (forall t, In t l' -> k <= f t) ->
  NoDup (l ++ l').
Proof.
  intros Hl Hl' H1 H2. apply NoDup_app_disj; auto.
  intros t Ha Hb. apply H1 in Ha. apply H2 in Hb. lia.
Qed.

Lemma NoDup_map_inj {A B} (f : A -> B) l :
  (forall x y, In x l -> In y l -> f x = f y -> x = y) -> NoDup l -> NoDup (map f l).
Proof.
  intros Hinj Hl. induction Hl as [|x l Hx Hl IH]; simpl; [constructor|].
  constructor.
  - rewrite in_map_iff. intros [y [Hy Hin]].
    apply Hinj in Hy; [subst; auto | right; auto | left; auto].
  - apply IH. intros; apply Hinj; auto; right; auto.
Qed.

Lemma NoDup_flat_map {A B} (f : A -> list B) l :
  NoDup l -> (forall x, In x l -> NoDup (f x)) ->
  (forall x y b, In x l -> In y l -> In b (f x) -> In b (f y) -> x = y) ->
  NoDup (flat_map f l).
Proof.
  intros Hl. induction Hl as [|x l Hx Hl IH]; intros Hn Hd; simpl; [constructor|].
  apply NoDup_app_disj.
  - apply Hn; left; auto.
  - apply IH.
    + intros; apply Hn; right; auto.
    + intros y z b Hy Hz; apply Hd; right; auto.
  - intros b Hb Hb'. rewrite in_flat_map in Hb'. destruct Hb' as (y & Hy & Hby).
    assert (x = y) by (apply (Hd x y b); simpl; auto). subst; auto.
Qed.

Lemma NoDup_if {A} (b : bool) (l : list A) : NoDup l -> NoDup (if b then l else []).
Proof. destruct b; auto. constructor. Qed.

Lemma In_if {A} (b : bool) (l : list A) t : In t (if b then l else []) <-> b = true /\ In t l.
Proof. destruct b; simpl; intuition discriminate. Qed.

(* ------------------------------------------------------------------ combinations *)
Lemma combs_incl {A} (l : list A) : forall k t, In t (combs l k) -> incl t l.
Proof.
  induction l as [|x r IH]; intros k t; destruct k; simpl.
  - intros [<-|[]]. apply incl_nil_l.
  - intros [].
  - intros [<-|[]]. apply incl_nil_l.
  - rewrite in_app_iff, in_map_iff. intros [(t' & <- & Ht')|Ht].
    + apply incl_cons; [left; auto|]. apply incl_tl. eapply IH; eauto.
    + apply incl_tl. eapply IH; eauto.
Qed.

Lemma combs_NoDup {A} (l : list A) : NoDup l -> forall k, NoDup (combs l k).
Proof.
  intros Hl. induction Hl as [|x r Hx Hr IH]; intros k; destruct k; simpl.
  - constructor; [simpl; tauto|constructor].
  - constructor.
  - constructor; [simpl; tauto|constructor].
  - apply NoDup_app_disj.
    + apply NoDup_map_inj; auto. intros a b _ _ H; inversion H; auto.
    + apply IH.
    + intros t Ht Ht'. rewrite in_map_iff in Ht. destruct Ht as (t' & <- & _).
      apply combs_incl in Ht'. apply Hx, Ht'. left; auto.
Qed.

Lemma filter_map_cons_true {A} (p : A -> bool) a L :
  p a = true -> filter (forallb p) (map (cons a) L) = map (cons a) (filter (forallb p) L).
Proof.
  intros Ha. induction L as [|t L IH]; simpl; auto.
  rewrite Ha; simpl. destruct (forallb p t); simpl; rewrite IH; auto.
Qed.

Lemma filter_map_cons_false {A} (p : A -> bool) a L :
  p a = false -> filter (forallb p) (map (cons a) L) = [].
Proof.
  intros Ha. induction L as [|t L IH]; simpl; auto. rewrite Ha; simpl; auto.
Qed.

Lemma combs_0 {A} (l : list A) : combs l 0 = [[]].
Proof. destruct l; auto. Qed.

Lemma combs_filter {A} (p : A -> bool) l :
  forall k, combs (filter p l) k = filter (forallb p) (combs l k).
Proof.
  induction l as [|a l IH]; intros k; destruct k; simpl; auto.
  - rewrite combs_0; auto.
  - destruct (p a) eqn:Ha; simpl; rewrite filter_app, <- !IH.
    + rewrite filter_map_cons_true by auto. rewrite <- IH. auto.
    + rewrite filter_map_cons_false by auto. auto.
Qed.

(* strictly increasing, first element at least lo *)
Fixpoint incr (lo : nat) (t : list nat) : Prop :=
  match t with
  | [] => True
  | x :: r => lo <= x /\ incr (S x) r
  end.

Lemma incr_weaken lo lo' t : lo' <= lo -> incr lo t -> incr lo' t.
Proof. destruct t; simpl; intuition lia. Qed.

Lemma combs_seq n : forall a k t,
  In t (combs (seq a n) k) <-> length t = k /\ incr a t /\ Forall (fun i => i < a + n) t.
Proof.
  induction n as [|n IH]; intros a k t; destruct k; simpl.
  - split.
    + intros [<-|[]]. simpl; auto.
    + intros (H & _). destruct t; [auto|discriminate].
  - split; [intros []|]. intros (Hl & Hi & Hf). destruct t as [|x r]; [discriminate|].
    simpl in Hi. rewrite Forall_cons_iff in Hf. lia.
  - split.
    + intros [<-|[]]. simpl; auto.
    + intros (H & _). destruct t; [auto|discriminate].
  - rewrite in_app_iff, in_map_iff. split.
    + intros [(t' & <- & Ht')|Ht].
      * apply IH in Ht'. destruct Ht' as (Hl & Hi & Hf). simpl. split; [lia|]. split; [auto|].
        constructor; [lia|]. eapply Forall_impl; [|exact Hf]. simpl; intros; lia.
      * apply IH in Ht. destruct Ht as (Hl & Hi & Hf). split; [auto|]. split.
        -- eapply incr_weaken; [|exact Hi]. lia.
        -- eapply Forall_impl; [|exact Hf]. simpl; intros; lia.
    + intros (Hl & Hi & Hf). destruct t as [|x r]; [discriminate|].
      simpl in Hl, Hi. rewrite Forall_cons_iff in Hf. destruct Hf as (Hx & Hf).
      assert (Hf' : Forall (fun i => i < S a + n) r)
        by (eapply Forall_impl; [|exact Hf]; simpl; intros; lia).
      destruct (Nat.eq_dec x a) as [->|Hne].
      * left. exists r. split; auto. apply IH. split; [lia|]. tauto.
      * right. apply IH. split; [simpl; lia|]. split.
        -- simpl. split; [lia|tauto].
        -- constructor; [lia|auto].
Qed.

Definition below (n : nat) (t : list nat) : Prop := Forall (fun i => i < n) t.

Lemma below_nil n : below n [] <-> True.
Proof. apply Forall_nil_iff. Qed.
Lemma below_cons n a t : below n (a :: t) <-> a < n /\ below n t.
Proof. apply Forall_cons_iff. Qed.

Ltac bel := rewrite ?below_cons, ?below_nil in *.

Lemma combs2 n t : In t (combs (seq 0 n) 2) <-> exists i j, t = [i; j] /\ i < j /\ j < n.
Proof.
  rewrite combs_seq. split.
  - intros (Hl & Hi & Hf). destruct t as [|i [|j [|? ?]]]; try discriminate.
    exists i, j. simpl in Hi. fold (below (0 + n) [i; j]) in Hf. bel. intuition lia.
  - intros (i & j & -> & ? & ?). simpl. fold (below n [i; j]). bel. intuition lia.
Qed.

Lemma combs3 n t :
  In t (combs (seq 0 n) 3) <-> exists i j k, t = [i; j; k] /\ i < j /\ j < k /\ k < n.
Proof.
  rewrite combs_seq. split.
  - intros (Hl & Hi & Hf). destruct t as [|i [|j [|k [|? ?]]]]; try discriminate.
    exists i, j, k. simpl in Hi. fold (below (0 + n) [i; j; k]) in Hf. bel. intuition lia.
  - intros (i & j & k & -> & ? & ? & ?). simpl. fold (below n [i; j; k]). bel. intuition lia.
Qed.

Lemma combs4 n t :
  In t (combs (seq 0 n) 4) <->
  exists i j k l, t = [i; j; k; l] /\ i < j /\ j < k /\ k < l /\ l < n.
Proof.
  rewrite combs_seq. split.
  - intros (Hl & Hi & Hf). destruct t as [|i [|j [|k [|l [|? ?]]]]]; try discriminate.
    exists i, j, k, l. simpl in Hi. fold (below (0 + n) [i; j; k; l]) in Hf. bel. intuition lia.
  - intros (i & j & k & l & -> & ? & ? & ? & ?). simpl. fold (below n [i; j; k; l]). bel.
    intuition lia.
Qed.

(* ------------------------------------------------------------------ permutations(range(n), 2) *)
Lemma perms2_In n i j : In (i, j) (perms2 n) <-> i < n /\ j < n /\ j <> i.
Proof.
  unfold perms2. rewrite in_flat_map. split.
  - intros (x & Hx & H). rewrite in_map_iff in H. destruct H as (y & Heq & Hy).
    inversion Heq; subst. rewrite filter_In, in_seq, negb_true_iff, Nat.eqb_neq in Hy.
    rewrite in_seq in Hx. lia.
  - intros (? & ? & ?). exists i. split; [apply in_seq; lia|]. apply in_map_iff. exists j.
    split; auto. rewrite filter_In, in_seq, negb_true_iff, Nat.eqb_neq. lia.
Qed.

Lemma perms2_NoDup n : NoDup (perms2 n).
Proof.
  unfold perms2. apply NoDup_flat_map.
  - apply seq_NoDup.
  - intros x _. apply NoDup_map_inj; [|apply NoDup_filter, seq_NoDup].
    intros a b _ _ H; inversion H; auto.
  - intros x y b _ _ Hx Hy. rewrite in_map_iff in Hx, Hy.
    destruct Hx as (? & <- & _). destruct Hy as (? & H & _). inversion H; auto.
Qed.

(* ------------------------------------------------------------------ the eleven families *)
Definition F0 n := map (fun i => [i]) (seq 0 n).
Definition F1 n := map (fun i => [i; i]) (seq 0 n).
Definition F2 n := combs (seq 0 n) 2.
Definition F3 n := map (fun i => [i; i; i]) (seq 0 n).
Definition F4 n := map (fun p => [fst p; fst p; snd p]) (perms2 n).
Definition F5 n := combs (seq 0 n) 3.
Definition F6 n := map (fun i => [i; i; i; i]) (seq 0 n).
Definition F7 n := map (fun p => [fst p; fst p; fst p; snd p]) (perms2 n).
Definition F8 n :=
  map (fun c => match c with [i; j] => [i; i; j; j] | _ => [] end) (combs (seq 0 n) 2).
Definition F9 n :=
  flat_map (fun i => map (fun c => i :: i :: c)
                         (combs (filter (fun idx => negb (idx =? i)) (seq 0 n)) 2)) (seq 0 n).
Definition F10 n := combs (seq 0 n) 4.

Lemma single_eq n : single_iterator n = F0 n.
Proof. reflexivity. Qed.
Lemma double_eq n : double_iterator n = F1 n ++ F2 n.
Proof. reflexivity. Qed.
Lemma triple_eq n : triple_iterator n = F3 n ++ F4 n ++ F5 n.
Proof. reflexivity. Qed.
Lemma quadruple_eq n : quadruple_iterator n = F6 n ++ F7 n ++ F8 n ++ F9 n ++ F10 n.
Proof. reflexivity. Qed.

Lemma in_map_seq {B} (f : nat -> B) n t :
  In t (map f (seq 0 n)) <-> exists i, t = f i /\ i < n.
Proof.
  rewrite in_map_iff. split.
  - intros (i & <- & Hi). apply in_seq in Hi. exists i; split; auto; lia.
  - intros (i & -> & Hi). exists i; split; auto. apply in_seq; lia.
Qed.

Lemma F0_In n t : In t (F0 n) <-> exists i, t = [i] /\ i < n.
Proof. apply in_map_seq. Qed.
Lemma F1_In n t : In t (F1 n) <-> exists i, t = [i; i] /\ i < n.
Proof. apply in_map_seq. Qed.
Lemma F2_In n t : In t (F2 n) <-> exists i j, t = [i; j] /\ i < j /\ j < n.
Proof. apply combs2. Qed.
Lemma F3_In n t : In t (F3 n) <-> exists i, t = [i; i; i] /\ i < n.
Proof. apply in_map_seq. Qed.
Lemma F4_In n t : In t (F4 n) <-> exists i j, t = [i; i; j] /\ i < n /\ j < n /\ j <> i.
Proof.
  unfold F4. rewrite in_map_iff. split.
  - intros ([i j] & <- & H). apply perms2_In in H. exists i, j. auto.
  - intros (i & j & -> & H). exists (i, j). split; auto. apply perms2_In; auto.
Qed.
Lemma F5_In n t : In t (F5 n) <-> exists i j k, t = [i; j; k] /\ i < j /\ j < k /\ k < n.
Proof. apply combs3. Qed.
Lemma F6_In n t : In t (F6 n) <-> exists i, t = [i; i; i; i] /\ i < n.
Proof. apply in_map_seq. Qed.
Lemma F7_In n t : In t (F7 n) <-> exists i j, t = [i; i; i; j] /\ i < n /\ j < n /\ j <> i.
Proof.
  unfold F7. rewrite in_map_iff. split.
  - intros ([i j] & <- & H). apply perms2_In in H. exists i, j. auto.
  - intros (i & j & -> & H). exists (i, j). split; auto. apply perms2_In; auto.
Qed.
Lemma F8_In n t : In t (F8 n) <-> exists i j, t = [i; i; j; j] /\ i < j /\ j < n.
Proof.
  unfold F8. rewrite in_map_iff. split.
  - intros (c & <- & H). apply combs2 in H. destruct H as (i & j & -> & H). exists i, j. auto.
  - intros (i & j & -> & H). exists [i; j]. split; auto. apply combs2. exists i, j. auto.
Qed.
Lemma F9_In n t :
  In t (F9 n) <->
  exists i j k, t = [i; i; j; k] /\ i < n /\ j < k /\ k < n /\ j <> i /\ k <> i.
Proof.
  unfold F9. rewrite in_flat_map. split.
  - intros (i & Hi & H). apply in_seq in Hi. rewrite in_map_iff in H.
    destruct H as (c & <- & H). rewrite combs_filter, filter_In, combs2 in H.
    destruct H as ((j & k & -> & H) & Hp). simpl in Hp.
    rewrite !andb_true_iff, !negb_true_iff, !Nat.eqb_neq in Hp.
    exists i, j, k. split; auto. lia.
  - intros (i & j & k & -> & H). exists i. split; [apply in_seq; lia|].
    apply in_map_iff. exists [j; k]. split; auto.
    rewrite combs_filter, filter_In, combs2. split.
    + exists j, k. split; auto. lia.
    + simpl. rewrite !andb_true_iff, !negb_true_iff, !Nat.eqb_neq. intuition lia.
Qed.
Lemma F10_In n t :
  In t (F10 n) <-> exists i j k l, t = [i; j; k; l] /\ i < j /\ j < k /\ k < l /\ l < n.
Proof. apply combs4. Qed.

(* no family repeats a tuple *)
Lemma map_seq_NoDup {B} (f : nat -> B) n :
  (forall x y, f x = f y -> x = y) -> NoDup (map f (seq 0 n)).
Proof. intros H. apply NoDup_map_inj; [|apply seq_NoDup]. intros x y _ _; apply H. Qed.

Lemma F0_NoDup n : NoDup (F0 n).
Proof. apply map_seq_NoDup. intros x y H; inversion H; auto. Qed.
Lemma F1_NoDup n : NoDup (F1 n).
Proof. apply map_seq_NoDup. intros x y H; inversion H; auto. Qed.
Lemma F2_NoDup n : NoDup (F2 n).
Proof. apply combs_NoDup, seq_NoDup. Qed.
Lemma F3_NoDup n : NoDup (F3 n).
Proof. apply map_seq_NoDup. intros x y H; inversion H; auto. Qed.
Lemma F4_NoDup n : NoDup (F4 n).
Proof.
  apply NoDup_map_inj; [|apply perms2_NoDup].
  intros [a b] [c d] _ _ H; simpl in H; inversion H; auto.
Qed.
Lemma F5_NoDup n : NoDup (F5 n).
Proof. apply combs_NoDup, seq_NoDup. Qed.
Lemma F6_NoDup n : NoDup (F6 n).
Proof. apply map_seq_NoDup. intros x y H; inversion H; auto. Qed.
Lemma F7_NoDup n : NoDup (F7 n).
Proof.
  apply NoDup_map_inj; [|apply perms2_NoDup].
  intros [a b] [c d] _ _ H; simpl in H; inversion H; auto.
Qed.
Lemma F8_NoDup n : NoDup (F8 n).
Proof.
  apply NoDup_map_inj; [|apply combs_NoDup, seq_NoDup].
  intros x y Hx Hy H. apply combs2 in Hx, Hy.
  destruct Hx as (i & j & -> & _). destruct Hy as (i' & j' & -> & _). inversion H; auto.
Qed.
Lemma F9_NoDup n : NoDup (F9 n).
Proof.
  apply NoDup_flat_map.
  - apply seq_NoDup.
  - intros i _. apply NoDup_map_inj; [|apply combs_NoDup, NoDup_filter, seq_NoDup].
    intros a b _ _ H; inversion H; auto.
  - intros x y b _ _ Hx Hy. rewrite in_map_iff in Hx, Hy.
    destruct Hx as (? & <- & _). destruct Hy as (? & H & _). inversion H; auto.
Qed.
Lemma F10_NoDup n : NoDup (F10 n).
Proof. apply combs_NoDup, seq_NoDup. Qed.

(* a number that tells the families apart *)
Definition cls (t : list nat) : nat :=
  match t with
  | [_] => 0
  | [a; b] => if a =? b then 1 else 2
  | [a; b; c] => if a =? b then (if b =? c then 3 else 4) else 5
  | [a; b; c; d] =>
      if a =? b then (if b =? c then (if c =? d then 6 else 7) else if c =? d then 8 else 9)
      else 10
  | _ => 0
  end.

Ltac eqb_cases :=
  repeat match goal with
         | |- context [?x =? ?y] => destruct (Nat.eqb_spec x y); try lia
         end.

Lemma F0_cls n t : In t (F0 n) -> cls t = 0.
Proof. rewrite F0_In. intros (i & -> & H). reflexivity. Qed.
Lemma F1_cls n t : In t (F1 n) -> cls t = 1.
Proof. rewrite F1_In. intros (i & -> & H). simpl. eqb_cases. Qed.
Lemma F2_cls n t : In t (F2 n) -> cls t = 2.
Proof. rewrite F2_In. intros (i & j & -> & H). simpl. eqb_cases. Qed.
Lemma F3_cls n t : In t (F3 n) -> cls t = 3.
Proof. rewrite F3_In. intros (i & -> & H). simpl. eqb_cases. Qed.
Lemma F4_cls n t : In t (F4 n) -> cls t = 4.
Proof. rewrite F4_In. intros (i & j & -> & H). simpl. eqb_cases. Qed.
Lemma F5_cls n t : In t (F5 n) -> cls t = 5.
Proof. rewrite F5_In. intros (i & j & k & -> & H). simpl. eqb_cases. Qed.
Lemma F6_cls n t : In t (F6 n) -> cls t = 6.
Proof. rewrite F6_In. intros (i & -> & H). simpl. eqb_cases. Qed.
Lemma F7_cls n t : In t (F7 n) -> cls t = 7.
Proof. rewrite F7_In. intros (i & j & -> & H). simpl. eqb_cases. Qed.
Lemma F8_cls n t : In t (F8 n) -> cls t = 8.
Proof. rewrite F8_In. intros (i & j & -> & H). simpl. eqb_cases. Qed.
Lemma F9_cls n t : In t (F9 n) -> cls t = 9.
Proof. rewrite F9_In. intros (i & j & k & -> & H). simpl. eqb_cases. Qed.
Lemma F10_cls n t : In t (F10 n) -> cls t = 10.
Proof. rewrite F10_In. intros (i & j & k & l & -> & H). simpl. eqb_cases. Qed.

Ltac cls_of H :=
  first [ apply F0_cls in H | apply F1_cls in H | apply F2_cls in H | apply F3_cls in H
        | apply F4_cls in H | apply F5_cls in H | apply F6_cls in H | apply F7_cls in H
        | apply F8_cls in H | apply F9_cls in H | apply F10_cls in H ].

Ltac cls_bound :=
  let t := fresh "t" in let H := fresh "H" in
  intros t H; rewrite ?in_app_iff in H;
  repeat match type of H with _ \/ _ => destruct H as [H|H] end;
  cls_of H; lia.

Lemma cumulated_eq n d :
  cumulated n d =
  (if 1 <=? d then F0 n else [])
  ++ (if 2 <=? d then F1 n ++ F2 n else [])
  ++ (if 3 <=? d then F3 n ++ F4 n ++ F5 n else [])
  ++ (if 4 <=? d then F6 n ++ F7 n ++ F8 n ++ F9 n ++ F10 n else []).
Proof. reflexivity. Qed.

Lemma double_NoDup n : NoDup (F1 n ++ F2 n).
Proof.
  apply (NoDup_app_sep cls 2); [apply F1_NoDup|apply F2_NoDup|cls_bound|cls_bound].
Qed.

Lemma triple_NoDup n : NoDup (F3 n ++ F4 n ++ F5 n).
Proof.
  apply (NoDup_app_sep cls 4); [apply F3_NoDup| |cls_bound|cls_bound].
  apply (NoDup_app_sep cls 5); [apply F4_NoDup|apply F5_NoDup|cls_bound|cls_bound].
Qed.

Lemma quadruple_NoDup n : NoDup (F6 n ++ F7 n ++ F8 n ++ F9 n ++ F10 n).
Proof.
  apply (NoDup_app_sep cls 7); [apply F6_NoDup| |cls_bound|cls_bound].
  apply (NoDup_app_sep cls 8); [apply F7_NoDup| |cls_bound|cls_bound].
  apply (NoDup_app_sep cls 9); [apply F8_NoDup| |cls_bound|cls_bound].
  apply (NoDup_app_sep cls 10); [apply F9_NoDup|apply F10_NoDup|cls_bound|cls_bound].
Qed.

Ltac cls_bound_if :=
  let t := fresh "t" in let H := fresh "H" in
  intros t H; rewrite ?in_app_iff, ?In_if in H;
  repeat match type of H with
         | _ \/ _ => destruct H as [H|H]
         | _ /\ _ => destruct H as [_ H]
         end;
  rewrite ?in_app_iff in H;
  repeat match type of H with _ \/ _ => destruct H as [H|H] end;
  cls_of H; lia.

Lemma cumulated_NoDup : forall n d, NoDup (cumulated n d).
Proof.
  intros n d. rewrite cumulated_eq.
  apply (NoDup_app_sep cls 1); [apply NoDup_if, F0_NoDup| |cls_bound_if|cls_bound_if].
  apply (NoDup_app_sep cls 3); [apply NoDup_if, double_NoDup| |cls_bound_if|cls_bound_if].
  apply (NoDup_app_sep cls 6);
    [apply NoDup_if, triple_NoDup|apply NoDup_if, quadruple_NoDup|cls_bound_if|cls_bound_if].
Qed.

(* ------------------------------------------------------------------ canonical shapes *)
Definition shape (t : list nat) : Prop :=
  match t with
  | [_] => True
  | [a; b] => a <= b
  | [a; b; c] => a = b \/ (a < b /\ b < c)
  | [a; b; c; d] =>
      (a = b /\ b = c) \/ (a = b /\ c = d /\ a < c) \/ (a = b /\ c < d /\ c <> a /\ d <> a)
      \/ (a < b /\ b < c /\ c < d)
  | _ => False
  end.

Lemma shape_length t : shape t -> 1 <= length t <= 4.
Proof. destruct t as [|a [|b [|c [|d [|e r]]]]]; simpl; intros; try lia; tauto. Qed.

Lemma F0_shape n t : In t (F0 n) <-> shape t /\ length t = 1 /\ below n t.
Proof.
  rewrite F0_In. split.
  - intros (i & -> & H). simpl. bel. auto.
  - intros (Hs & Hl & Hb). destruct t as [|a [|? ?]]; try discriminate. bel. exists a. tauto.
Qed.

Lemma double_shape n t : In t (F1 n ++ F2 n) <-> shape t /\ length t = 2 /\ below n t.
Proof.
  rewrite in_app_iff, F1_In, F2_In. split.
  - intros [(i & -> & H)|(i & j & -> & H)]; simpl; bel; intuition lia.
  - intros (Hs & Hl & Hb). destruct t as [|a [|b [|? ?]]]; try discriminate.
    simpl in Hs. bel. destruct (Nat.eq_dec a b) as [->|Hne].
    + left. exists b. tauto.
    + right. exists a, b. split; auto. lia.
Qed.

Lemma triple_shape n t :
  In t (F3 n ++ F4 n ++ F5 n) <-> shape t /\ length t = 3 /\ below n t.
Proof.
  rewrite !in_app_iff, F3_In, F4_In, F5_In. split.
  - intros [(i & -> & H)|[(i & j & -> & H)|(i & j & k & -> & H)]]; simpl; bel; intuition lia.
  - intros (Hs & Hl & Hb). destruct t as [|a [|b [|c [|? ?]]]]; try discriminate.
    simpl in Hs. bel. destruct Hs as [->|Hs].
    + destruct (Nat.eq_dec b c) as [->|Hne].
      * left. exists c. tauto.
      * right; left. exists b, c. split; auto. intuition lia.
    + right; right. exists a, b, c. split; auto. lia.
Qed.

Lemma quadruple_shape n t :
  In t (F6 n ++ F7 n ++ F8 n ++ F9 n ++ F10 n) <-> shape t /\ length t = 4 /\ below n t.
Proof.
  rewrite !in_app_iff, F6_In, F7_In, F8_In, F9_In, F10_In. split.
  - intros [(i & -> & H)|[(i & j & -> & H)|[(i & j & -> & H)|[(i & j & k & -> & H)
           |(i & j & k & l & -> & H)]]]]; simpl; bel; (split; [lia|]); intuition lia.
  - intros (Hs & Hl & Hb). destruct t as [|a [|b [|c [|d [|? ?]]]]]; try discriminate.
    simpl in Hs. bel. destruct Hs as [(-> & ->)|[(-> & -> & H)|[(-> & H)|H]]].
    + destruct (Nat.eq_dec c d) as [->|Hne].
      * left. exists d. tauto.
      * right; left. exists c, d. split; auto. intuition lia.
    + right; right; left. exists b, d. split; auto. lia.
    + right; right; right; left. exists b, c, d. split; auto. lia.
    + right; right; right; right. exists a, b, c, d. split; auto. lia.
Qed.

Lemma cumulated_shape n d t :
  In t (cumulated n d) <-> shape t /\ length t <= d /\ below n t.
Proof.
  rewrite cumulated_eq, !in_app_iff, !In_if, !Nat.leb_le.
  rewrite F0_shape, double_shape, triple_shape, quadruple_shape. split.
  - intuition lia.
  - intros (Hs & Hl & Hb). pose proof (shape_length t Hs) as Hlen.
    assert (C : length t = 1 \/ length t = 2 \/ length t = 3 \/ length t = 4) by lia.
    destruct C as [C|[C|[C|C]]]; [left|right; left|right; right; left|right; right; right];
      (split; [lia|tauto]).
Qed.

Lemma cumulated_sound : forall n d t, In t (cumulated n d) ->
   t <> [] /\ length t <= Nat.min d 4 /\ Forall (fun i => i < n) t.
Proof.
  intros n d t H. apply cumulated_shape in H. destruct H as (Hs & Hl & Hb).
  pose proof (shape_length t Hs). split; [|split; [lia|exact Hb]].
  intros ->. simpl in *. lia.
Qed.

(* ------------------------------------------------------------------ sorting *)
Fixpoint insert (x : nat) (l : list nat) : list nat :=
  match l with
  | [] => [x]
  | y :: r => if x <=? y then x :: y :: r else y :: insert x r
  end.

Fixpoint isort (l : list nat) : list nat :=
  match l with
  | [] => []
  | x :: r => insert x (isort r)
  end.

Lemma insert_perm x l : Permutation (insert x l) (x :: l).
Proof.
  induction l as [|y r IH]; simpl; auto.
  destruct (x <=? y); auto.
  eapply perm_trans; [apply perm_skip, IH|apply perm_swap].
Qed.

Lemma isort_perm l : Permutation (isort l) l.
Proof.
  induction l as [|x r IH]; simpl; auto.
  eapply perm_trans; [apply insert_perm|apply perm_skip, IH].
Qed.

Lemma insert_comm x y l : insert x (insert y l) = insert y (insert x l).
Proof.
  induction l as [|z r IH]; simpl.
  - destruct (Nat.leb_spec x y), (Nat.leb_spec y x); try lia; auto.
    assert (x = y) by lia. subst; auto.
  - destruct (Nat.leb_spec y z), (Nat.leb_spec x z); simpl;
      repeat match goal with
             | |- context [?a <=? ?b] => destruct (Nat.leb_spec a b); try lia
             end; auto.
    + assert (x = y) by lia. subst; auto.
    + rewrite IH; auto.
Qed.

Lemma isort_Permutation l l' : Permutation l l' -> isort l = isort l'.
Proof.
  induction 1; simpl; auto.
  - rewrite IHPermutation; auto.
  - apply insert_comm.
  - congruence.
Qed.

(* non-decreasing, first element at least lo *)
Fixpoint ndf (lo : nat) (l : list nat) : Prop :=
  match l with
  | [] => True
  | x :: r => lo <= x /\ ndf x r
  end.

Lemma insert_ndf x : forall l lo, lo <= x -> ndf lo l -> ndf lo (insert x l).
Proof.
  induction l as [|y r IH]; intros lo Hx Hl; simpl in *.
  - auto.
  - destruct (Nat.leb_spec x y); simpl.
    + intuition lia.
    + split; [lia|]. apply IH; [lia|tauto].
Qed.

Lemma isort_ndf l : ndf 0 (isort l).
Proof.
  induction l as [|x r IH]; simpl; auto. apply insert_ndf; [lia|auto].
Qed.

(* the canonical arrangement of a sorted list *)
Definition rep (s : list nat) : list nat :=
  match s with
  | [a; b; c] => if a =? b then s else if b =? c then [b; c; a] else s
  | [a; b; c; d] =>
      if a =? b then s
      else if b =? c then (if c =? d then [b; c; d; a] else [b; c; a; d])
      else if c =? d then [c; d; a; b] else s
  | _ => s
  end.

Lemma rep_perm s : Permutation (rep s) s.
Proof.
  destruct s as [|a [|b [|c [|d [|e r]]]]]; simpl; auto.
  - destruct (a =? b); auto. destruct (b =? c); auto.
    apply Permutation_sym, (Permutation_cons_append [b; c] a).
  - destruct (a =? b); auto. destruct (b =? c); [destruct (c =? d)|destruct (c =? d)]; auto.
    + apply Permutation_sym, (Permutation_cons_append [b; c; d] a).
    + apply Permutation_sym, (Permutation_middle [b; c] [d] a).
    + apply (Permutation_app_comm [c; d] [a; b]).
Qed.

Lemma rep_shape s : ndf 0 s -> 1 <= length s <= 4 -> shape (rep s).
Proof.
  destruct s as [|a [|b [|c [|d [|e r]]]]]; simpl; intros Hs Hl; try lia; auto.
  - eqb_cases; simpl; lia.
  - eqb_cases; simpl; lia.
Qed.

Ltac leb_cases :=
  repeat match goal with
         | |- context [?x <=? ?y] => destruct (Nat.leb_spec x y); try lia; simpl
         end.

Lemma rep_isort t : shape t -> rep (isort t) = t.
Proof.
  destruct t as [|a [|b [|c [|d [|e r]]]]]; simpl; intros Hs; try tauto.
  - leb_cases. reflexivity.
  - destruct Hs as [->|Hs]; leb_cases; eqb_cases; reflexivity.
  - destruct Hs as [(-> & ->)|[(-> & -> & H)|[(-> & H)|H]]]; leb_cases; eqb_cases; reflexivity.
Qed.

Lemma cumulated_complete : forall n d m,
   m <> [] -> length m <= Nat.min d 4 -> Forall (fun i => i < n) m ->
   exists t, In t (cumulated n d) /\ Permutation t m.
Proof.
  intros n d m Hne Hl Hb.
  assert (Hp : Permutation (rep (isort m)) m)
    by (eapply perm_trans; [apply rep_perm|apply isort_perm]).
  exists (rep (isort m)). split; auto.
  assert (Hlen : 1 <= length m) by (destruct m; [congruence|simpl; lia]).
  apply cumulated_shape. split; [|split].
  - apply rep_shape; [apply isort_ndf|].
    rewrite (Permutation_length (isort_perm m)). lia.
  - rewrite (Permutation_length Hp). lia.
  - eapply Permutation_Forall; [apply Permutation_sym, Hp|exact Hb].
Qed.

Lemma cumulated_unique : forall n d t t',
   In t (cumulated n d) -> In t' (cumulated n d) -> Permutation t t' -> t = t'.
Proof.
  intros n d t t' H H' Hp. apply cumulated_shape in H, H'.
  destruct H as (Hs & _). destruct H' as (Hs' & _).
  rewrite <- (rep_isort t Hs), <- (rep_isort t' Hs'). f_equal. apply isort_Permutation, Hp.
Qed.
