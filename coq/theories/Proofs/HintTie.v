(* run_plan_with_hint as GENERATED from simaple/api/base.py (gen/HintSrc.v, by tools/tr_hint.py) is run_hint of Model/Engine.v:
   the prefix loop is `common`, the step-back loop is `stepback`, the slices are firstn (S k) / skipn k. *)
From Coq Require Import List ZArith Bool Lia.
Import ListNotations.
From V Require Import Lib.PyHist Model.Engine.
From G Require Import HintSrc.

Section Tie.
  Variables St Ev Act Ck H T D Name : Type.
  Variable play : St -> Act -> St * list Ev.
  Variable save : St -> Ck.
  Variable restore : Ck -> St.
  Variable clock : St -> T.
  Variable inspect : Name -> St -> D.
  Variable mk_act : Name -> meth -> option T -> Act.
  Variable star : Name.
  Variable ev_name : Ev -> Name.
  Variable ev_delay : Ev -> option T.
  Variable name_eqb : Name -> Name -> bool.
  Variable tzero : T.
  Variables tpos tis0 : T -> bool.
  Variable H0 : H.
  Variable hashf : H -> cmd T Name -> list (T * Act * list Ev) -> H.
  Variable V : Type.
  Variable view : St -> V.
  Variable dummy : Ck.
  Variable cmd_eqb : cmd T Name -> cmd T Name -> bool.
  Variable resp0 : resp Ev Act Ck H T D Name V.
  Notation cmd_ := (cmd T Name).
  Notation resp_ := (resp Ev Act Ck H T D Name V).
  Notation has_ckpt_ := (has_ckpt Ev Act Ck H T D Name V).
  Notation common_ := (common Ev Act Ck H T D Name V cmd_eqb).
  Notation stepback_ := (stepback Ev Act Ck H T D Name V resp0).
  Notation body_ := (src_cache_count_body Ev Act Ck H T D Name V cmd_eqb).

  Lemma forallb_ext' {A} (f g : A -> bool) (l : list A) : (forall x, f x = g x) -> forallb f l = forallb g l.
  Proof. intros E. induction l as [|x l IH]; [reflexivity|]. cbn. rewrite E, IH. reflexivity. Qed.

  Lemma contains_checkpoint_is_has_ckpt (r : resp_) : src_contains_checkpoint Ev Act Ck H T D Name V r = has_ckpt_ r.
  Proof.
    unfold src_contains_checkpoint, has_ckpt. cbn [bind].
    rewrite (forallb_ext' _ (fun q => match rck Ev Act Ck T V q with Some _ => true | None => false end))
      by (intros q; unfold src_plog_contains_checkpoint; cbn [bind]; reflexivity).
    destruct (forallb _ _); cbn [andb]; [|reflexivity].
    unfold py_len. destruct (rpl Ev Act Ck H T D Name V r); reflexivity.
  Qed.

  (* ---- the prefix loop *)
  Lemma py_index_app_len {A} (p : list A) (x : A) (r : list A) : py_index (p ++ x :: r) (Z.of_nat (length p)) = Some x.
  Proof.
    unfold py_index. replace (0 <=? Z.of_nat (length p))%Z with true by (symmetry; apply Z.leb_le; lia).
    rewrite Nat2Z.id, nth_error_app2, Nat.sub_diag by lia. reflexivity.
  Qed.

  Lemma body_step (p1 : list cmd_) (h1 : list resp_) pcs hm cs0 ph c cc :
    length p1 = length h1 ->
    body_ (p1 ++ pcs) cs0 ph (h1 ++ hm) (Z.of_nat (length p1), c) cc =
    match pcs, hm with
    | pc :: _, h :: _ => if cmd_eqb pc (rcmd Ev Act Ck H T D Name V h) && cmd_eqb c pc then Some ((cc + 1)%Z, true) else Some (cc, false)
    | _, _ => Some (cc, false)
    end.
  Proof.
    intros Hl. unfold src_cache_count_body. cbn [bind]. unfold py_len. rewrite !app_length.
    destruct pcs as [|pc pcs].
    - cbn [length]. replace (Z.of_nat (length p1 + 0) <=? Z.of_nat (length p1))%Z with true by (symmetry; apply Z.leb_le; lia). reflexivity.
    - replace (Z.of_nat (length p1 + length (pc :: pcs)) <=? Z.of_nat (length p1))%Z with false by (symmetry; apply Z.leb_gt; cbn [length]; lia).
      destruct hm as [|h hm].
      + cbn [length]. replace (Z.of_nat (length h1 + 0) <=? Z.of_nat (length p1))%Z with true by (symmetry; apply Z.leb_le; lia). reflexivity.
      + replace (Z.of_nat (length h1 + length (h :: hm)) <=? Z.of_nat (length p1))%Z with false by (symmetry; apply Z.leb_gt; cbn [length]; lia).
        cbn [bind]. rewrite py_index_app_len. cbn [bind]. rewrite Hl at 1. rewrite py_index_app_len. cbn [bind].
        destruct (cmd_eqb pc (rcmd Ev Act Ck H T D Name V h)); cbn [negb andb]; [|reflexivity].
        destruct (cmd_eqb c pc); reflexivity.
  Qed.

  Lemma cache_count_gen (cs0 : list cmd_) (ph : list resp_) : forall (cs p1 pcs : list cmd_) (h1 hm : list resp_) cc,
    length p1 = length h1 ->
    py_for_state (body_ (p1 ++ pcs) cs0 ph (h1 ++ hm)) (py_enumerate_from (Z.of_nat (length p1)) cs) cc
    = Some (cc + Z.of_nat (common_ cs pcs hm))%Z.
  Proof.
    induction cs as [|c cs IH]; intros p1 pcs h1 hm cc Hl.
    - cbn. f_equal. lia.
    - cbn [py_enumerate_from py_for_state]. rewrite body_step by exact Hl.
      destruct pcs as [|pc pcs]; [cbn [common]; f_equal; lia|].
      destruct hm as [|h hm]; [cbn [common]; f_equal; lia|].
      cbn [common]. destruct (cmd_eqb pc (rcmd Ev Act Ck H T D Name V h) && cmd_eqb c pc); [|f_equal; lia].
      replace (p1 ++ pc :: pcs) with ((p1 ++ [pc]) ++ pcs) by (rewrite <- app_assoc; reflexivity).
      replace (h1 ++ h :: hm) with ((h1 ++ [h]) ++ hm) by (rewrite <- app_assoc; reflexivity).
      replace (Z.of_nat (length p1) + 1)%Z with (Z.of_nat (length (p1 ++ [pc]))) by (rewrite app_length; cbn [length]; lia).
      rewrite IH by (rewrite !app_length; cbn [length]; lia). f_equal. lia.
  Qed.

  Theorem src_cache_count_is_common (pcs cs : list cmd_) (ph : list resp_) :
    src_cache_count Ev Act Ck H T D Name V cmd_eqb pcs cs ph = Some (Z.of_nat (common_ cs pcs (tl ph))).
  Proof.
    unfold src_cache_count. cbn [bind]. unfold py_slice_from. cbn [Z.leb Z.to_nat Pos.to_nat Pos.iter_op Nat.add].
    replace (skipn 1 ph) with (tl ph) by (destruct ph; reflexivity).
    exact (cache_count_gen cs ph cs [] pcs [] (tl ph) 0%Z eq_refl).
  Qed.

  (* ---- what the generated prefix count means: every position below it holds the SAME command in the new plan, in the
     previous plan and in the previous response (sound: nothing stale is reused), and the position at it, when all three
     exist, does not (maximal: nothing reusable is thrown away) *)
  Notation rcmd_ := (rcmd Ev Act Ck H T D Name V).
  Lemma common_sound (Hspec : forall a b : cmd_, cmd_eqb a b = true <-> a = b) :
    forall (cs pcs : list cmd_) (hm : list resp_) j, (j < common_ cs pcs hm)%nat ->
      exists c h, nth_error cs j = Some c /\ nth_error pcs j = Some c /\ nth_error hm j = Some h /\ rcmd_ h = c.
  Proof.
    induction cs as [|c cs IH]; intros [|pc pcs] [|h hm] j Hj; cbn [common] in Hj; try lia.
    destruct (cmd_eqb pc (rcmd_ h) && cmd_eqb c pc) eqn:E; [|lia].
    apply andb_true_iff in E. destruct E as [E1 E2]. apply Hspec in E1. apply Hspec in E2.
    destruct j as [|j]; cbn [nth_error].
    - exists c, h. subst. auto.
    - apply IH. lia.
  Qed.
  Lemma common_maximal (Hspec : forall a b : cmd_, cmd_eqb a b = true <-> a = b) :
    forall (cs pcs : list cmd_) (hm : list resp_) c pc h,
      nth_error cs (common_ cs pcs hm) = Some c -> nth_error pcs (common_ cs pcs hm) = Some pc ->
      nth_error hm (common_ cs pcs hm) = Some h -> ~ (pc = rcmd_ h /\ c = pc).
  Proof.
    induction cs as [|c0 cs IH]; intros [|pc0 pcs] [|h0 hm] c pc h; cbn [common]; try (cbn [nth_error]; discriminate).
    destruct (cmd_eqb pc0 (rcmd_ h0) && cmd_eqb c0 pc0) eqn:E.
    - cbn [nth_error]. apply IH.
    - cbn [nth_error]. intros Ec Ep Eh [A B]. injection Ec as <-. injection Ep as <-. injection Eh as <-.
      assert (E1 : cmd_eqb pc0 (rcmd_ h0) = true) by (apply Hspec; exact A).
      assert (E2 : cmd_eqb c0 pc0 = true) by (apply Hspec; exact B).
      rewrite E1, E2 in E. discriminate.
  Qed.
  Theorem src_cache_count_spec (Hspec : forall a b : cmd_, cmd_eqb a b = true <-> a = b) (pcs cs : list cmd_) (ph : list resp_) :
    exists k : nat, src_cache_count Ev Act Ck H T D Name V cmd_eqb pcs cs ph = Some (Z.of_nat k) /\
      (forall j, (j < k)%nat -> exists c h, nth_error cs j = Some c /\ nth_error pcs j = Some c /\
                                          nth_error (tl ph) j = Some h /\ rcmd_ h = c) /\
      (forall c pc h, nth_error cs k = Some c -> nth_error pcs k = Some pc -> nth_error (tl ph) k = Some h ->
                      ~ (pc = rcmd_ h /\ c = pc)).
  Proof.
    exists (common_ cs pcs (tl ph)). split; [apply src_cache_count_is_common|]. split.
    - apply common_sound. exact Hspec.
    - apply common_maximal. exact Hspec.
  Qed.

  (* ---- the step-back loop *)
  Lemma step_back_gen (ph : list resp_) : forall k fuel, (k < length ph \/ k = 0)%nat -> (S k <= fuel)%nat ->
    py_while fuel (src_step_back_test Ev Act Ck H T D Name V ph) (fun c => (c - 1)%Z) (Z.of_nat k) = Some (Z.of_nat (stepback_ k ph)).
  Proof.
    induction k as [|k IH]; intros fuel Hk Hf; (destruct fuel as [|fuel]; [lia|]); cbn [py_while].
    - unfold src_step_back_test. cbn [bind]. reflexivity.
    - assert (Hlt : (S k < length ph)%nat) by (destruct Hk as [Hk|Hk]; [exact Hk|discriminate]).
      unfold src_step_back_test at 1. cbn [bind].
      replace (0 <? Z.of_nat (S k))%Z with true by (symmetry; apply Z.ltb_lt; lia).
      unfold py_index. replace (0 <=? Z.of_nat (S k))%Z with true by (symmetry; apply Z.leb_le; lia). rewrite Nat2Z.id.
      destruct (nth_error ph (S k)) as [r|] eqn:E; [|apply nth_error_None in E; lia].
      cbn [bind]. rewrite contains_checkpoint_is_has_ckpt. cbn [stepback]. rewrite (nth_error_nth _ _ resp0 E).
      destruct (has_ckpt_ r); cbn [negb]; [reflexivity|].
      replace (Z.of_nat (S k) - 1)%Z with (Z.of_nat k) by lia. apply IH; [left; lia|lia].
  Qed.

  Lemma common_le : forall (cs pcs : list cmd_) (hm : list resp_), (common_ cs pcs hm <= length hm)%nat.
  Proof.
    induction cs as [|c cs IH]; intros [|pc pcs] [|h hm]; cbn [common length]; try lia.
    destruct (cmd_eqb pc _ && cmd_eqb c pc); [specialize (IH pcs hm); lia|lia].
  Qed.

  Lemma stepback_le' k (h : list resp_) : (stepback_ k h <= k)%nat.
  Proof. induction k as [|k IH]; cbn [stepback]; [lia|]. destruct (has_ckpt_ _); lia. Qed.

  Theorem src_run_plan_with_hint_is_run_hint (pcs : list cmd_) (ph : list resp_) (cs : list cmd_) :
    src_run_plan_with_hint St Ev Act Ck H T D Name play save restore clock inspect mk_act star ev_name ev_delay name_eqb tzero tpos tis0
      H0 hashf V view dummy cmd_eqb pcs ph cs
    = run_hint St Ev Act Ck H T D Name play save restore clock inspect mk_act star ev_name ev_delay name_eqb tzero tpos tis0
      H0 hashf V view dummy cmd_eqb resp0 pcs ph cs.
  Proof.
    unfold src_run_plan_with_hint, run_hint. rewrite src_cache_count_is_common. cbn [bind].
    set (cc := common_ cs pcs (tl ph)).
    assert (Hcc : (cc < length ph \/ cc = 0)%nat).
    { pose proof (common_le cs pcs (tl ph)) as L. fold cc in L. destruct ph as [|r ph]; cbn [tl length] in *; lia. }
    unfold src_step_back. rewrite Nat2Z.id. rewrite (step_back_gen ph cc (S cc) Hcc (le_n _)). cbn [bind].
    set (k := stepback_ cc ph).
    unfold py_slice_to, py_slice_from.
    replace (0 <=? Z.of_nat k + 1)%Z with true by (symmetry; apply Z.leb_le; lia).
    replace (0 <=? Z.of_nat k)%Z with true by (symmetry; apply Z.leb_le; lia).
    replace (Z.to_nat (Z.of_nat k + 1)) with (S k) by lia. rewrite Nat2Z.id. reflexivity.
  Qed.

  (* C04 for the GENERATED incremental runner *)
  Hypothesis restore_save : forall s, restore (save s) = s.
  Hypothesis cmd_eqb_spec : forall a b : cmd_, cmd_eqb a b = true <-> a = b.
  Notation mrun := (run St Ev Act Ck H T D Name play save restore clock inspect mk_act star ev_name ev_delay name_eqb tzero tpos tis0 H0 hashf).
  Notation mextract := (extract St Ev Act Ck H T D Name restore hashf V view).

  Theorem src_hint_eq_full_run (init : oplog Ev Act Ck H T D Name) (pcs cs : list cmd_) (ep ef : eng St Ev Act Ck H T D Name) :
    lplogs Ev Act Ck H T D Name init <> [] ->
    mrun (of_logs St Ev Act Ck H T D Name [init]) pcs = Some ep ->
    mrun (of_logs St Ev Act Ck H T D Name [init]) cs = Some ef ->
    src_run_plan_with_hint St Ev Act Ck H T D Name play save restore clock inspect mk_act star ev_name ev_delay name_eqb tzero tpos tis0
      H0 hashf V view dummy cmd_eqb pcs (mextract ep 0) cs = Some (mextract ef 0).
  Proof.
    intros Hi Hp Hf. rewrite src_run_plan_with_hint_is_run_hint.
    exact (C04_fresh St Ev Act Ck H T D Name play save restore restore_save clock inspect mk_act star ev_name ev_delay name_eqb tzero tpos tis0
             H0 hashf V view dummy cmd_eqb cmd_eqb_spec resp0 init pcs cs ep ef Hi Hp Hf).
  Qed.
End Tie.
