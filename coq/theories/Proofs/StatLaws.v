(* Laws of the generated stat algebra (gen/CoreQ.v).  Proof scripts are generic in the
   field list: they unfold the generated definitions and close each field with `ring`,
   so they survive reordering/adding fields but break when a field is dropped, reset
   or combined differently. *)
From Coq Require Import QArith Qround Qminmax ZArith List Lqa Permutation Setoid Morphisms.
From V.Lib Require Import PyNum.
From G Require Import CoreQ.
Import ListNotations.
Open Scope Q_scope.

Ltac fieldwise := cbn; repeat split; ring.

(* ------------------------------------------------------------------ Stat *)
Lemma Stat_seq_refl a : Stat_seq a a.
Proof. unfold Stat_seq; repeat split; reflexivity. Qed.
Lemma Stat_seq_sym a b : Stat_seq a b -> Stat_seq b a.
Proof. unfold Stat_seq; intros H; repeat match goal with H : _ /\ _ |- _ => destruct H end;
  repeat split; symmetry; assumption. Qed.
Lemma Stat_seq_trans a b c : Stat_seq a b -> Stat_seq b c -> Stat_seq a c.
Proof. unfold Stat_seq; intros H1 H2; repeat match goal with H : _ /\ _ |- _ => destruct H end;
  repeat split; etransitivity; eassumption. Qed.
#[export] Instance Stat_seq_equiv : Equivalence Stat_seq.
Proof. split; [exact Stat_seq_refl | exact Stat_seq_sym | exact Stat_seq_trans]. Qed.

Lemma Stat_add_proper a a' b b' : Stat_seq a a' -> Stat_seq b b' -> Stat_seq (Stat_add a b) (Stat_add a' b').
Proof.
  unfold Stat_seq; intros H1 H2; repeat match goal with H : _ /\ _ |- _ => destruct H end.
  unfold Stat_add; cbn.
  repeat split; repeat match goal with H : _ == _ |- _ => rewrite H; clear H end; reflexivity.
Qed.
#[export] Instance Stat_add_mor : Proper (Stat_seq ==> Stat_seq ==> Stat_seq) Stat_add.
Proof. intros a a' Ha b b' Hb; apply Stat_add_proper; assumption. Qed.

Lemma Stat_add_comm a b : Stat_seq (Stat_add a b) (Stat_add b a).
Proof. unfold Stat_seq, Stat_add. fieldwise. Qed.
Lemma Stat_add_assoc a b c : Stat_seq (Stat_add (Stat_add a b) c) (Stat_add a (Stat_add b c)).
Proof. unfold Stat_seq, Stat_add. fieldwise. Qed.
Lemma Stat_add_0_r a : Stat_seq (Stat_add a Stat_zero) a.
Proof. unfold Stat_seq, Stat_add, Stat_zero. fieldwise. Qed.
Lemma Stat_add_0_l a : Stat_seq (Stat_add Stat_zero a) a.
Proof. unfold Stat_seq, Stat_add, Stat_zero. fieldwise. Qed.
Lemma Stat_iadd_eq_add a b : Stat_seq (Stat_iadd a b) (Stat_add a b).
Proof. unfold Stat_seq, Stat_iadd, Stat_add. fieldwise. Qed.
(* `s += s`: the operand is the object being updated, so every read of it sees the writes made so far *)
Lemma Stat_iadd_self_eq_add a : Stat_seq (Stat_iadd_self a) (Stat_add a a).
Proof. unfold Stat_seq, Stat_iadd_self, Stat_add. fieldwise. Qed.

Lemma Stat_fd_multiplicative a b :
  1 + (1#100) * Stat_final_damage_multiplier (Stat_add a b)
  == (1 + (1#100) * Stat_final_damage_multiplier a) * (1 + (1#100) * Stat_final_damage_multiplier b).
Proof. unfold Stat_add; cbn. ring. Qed.
Lemma Stat_ied_multiplicative a b :
  1 - (1#100) * Stat_ignored_defence (Stat_add a b)
  == (1 - (1#100) * Stat_ignored_defence a) * (1 - (1#100) * Stat_ignored_defence b).
Proof. unfold Stat_add; cbn. ring. Qed.

Ltac forall_fields := repeat (apply Forall_cons; [cbn; try ring|]); try apply Forall_nil.

Lemma Stat_add_additive a b :
  Forall (fun f => f (Stat_add a b) == f a + f b) Stat_additive_fields.
Proof. unfold Stat_additive_fields, Stat_add. forall_fields. Qed.
Lemma Stat_stack_scales a n : Forall (fun f => f (Stat_stack a n) == f a * n) Stat_fields.
Proof. unfold Stat_fields, Stat_stack. forall_fields. Qed.
Lemma Stat_stack_1 a : Stat_seq (Stat_stack a 1) a.
Proof. unfold Stat_seq, Stat_stack. fieldwise. Qed.
Lemma Stat_stack_plus a n m :
  Forall (fun f => f (Stat_stack a (n + m)) == f (Stat_stack a n) + f (Stat_stack a m)) Stat_fields.
Proof. unfold Stat_fields, Stat_stack. forall_fields. Qed.

(* Every declared field is in the list the laws range over: the list has as many entries
   as the record has numeric fields (checked by applying the constructor to that many
   arguments in gen/CoreQ.v: Stat_zero), and seq mentions every projection. *)

(* ---- sum = left fold of + from the empty block ---- *)
Definition Stat_fold (l : list Stat) (acc : Stat) : Stat := fold_left Stat_add l acc.

Lemma Stat_fold_proper l : forall a a', Stat_seq a a' -> Stat_seq (Stat_fold l a) (Stat_fold l a').
Proof.
  induction l as [|x l IH]; intros a a' H; cbn [Stat_fold fold_left]; [exact H|].
  apply IH. apply Stat_add_proper; [exact H | reflexivity].
Qed.

Lemma fold_plus_ext {A} (f : A -> Q) l : forall a a', a == a' ->
  fold_left (fun acc s => acc + f s) l a == fold_left (fun acc s => acc + f s) l a'.
Proof. induction l as [|x l IH]; intros a a' H; cbn [fold_left]; [exact H|]. apply IH. rewrite H. reflexivity. Qed.

(* one additive field: the running sum started at the accumulator's field is the field of
   the running block *)
Lemma sum_additive_field (f : Stat -> Q) :
  (forall a b, f (Stat_add a b) == f a + f b) ->
  forall l acc, fold_left (fun a s => a + f s) l (f acc) == f (Stat_fold l acc).
Proof.
  intros Hf l; induction l as [|x l IH]; intros acc; cbn [fold_left Stat_fold]; [reflexivity|].
  unfold Stat_fold in IH. rewrite <- IH. apply fold_plus_ext. rewrite Hf. reflexivity.
Qed.

Lemma fd_ext l : forall a a', a == a' ->
  fold_left (fun acc s => acc + Stat_final_damage_multiplier s * acc * (1#100)) l a
  == fold_left (fun acc s => acc + Stat_final_damage_multiplier s * acc * (1#100)) l a'.
Proof. induction l as [|x l IH]; intros a a' H; cbn [fold_left]; [exact H|]. apply IH. rewrite H. reflexivity. Qed.
Lemma sum_fd : forall l acc,
  fold_left (fun a s => a + Stat_final_damage_multiplier s * a * (1#100)) l (1 + (1#100) * Stat_final_damage_multiplier acc)
  == 1 + (1#100) * Stat_final_damage_multiplier (Stat_fold l acc).
Proof.
  intros l; induction l as [|x l IH]; intros acc; cbn [fold_left Stat_fold]; [reflexivity|].
  unfold Stat_fold in IH. rewrite <- IH. apply fd_ext. unfold Stat_add; cbn. ring.
Qed.
Lemma def_ext l : forall a a', a == a' ->
  fold_left (fun acc s => acc - acc * (1#100) * Stat_ignored_defence s) l a
  == fold_left (fun acc s => acc - acc * (1#100) * Stat_ignored_defence s) l a'.
Proof. induction l as [|x l IH]; intros a a' H; cbn [fold_left]; [exact H|]. apply IH. rewrite H. reflexivity. Qed.
Lemma sum_def : forall l acc,
  fold_left (fun a s => a - a * (1#100) * Stat_ignored_defence s) l (1 - (1#100) * Stat_ignored_defence acc)
  == 1 - (1#100) * Stat_ignored_defence (Stat_fold l acc).
Proof.
  intros l; induction l as [|x l IH]; intros acc; cbn [fold_left Stat_fold]; [reflexivity|].
  unfold Stat_fold in IH. rewrite <- IH. apply def_ext. unfold Stat_add; cbn. ring.
Qed.

Lemma Stat_sum_fd l :
  Stat_final_damage_multiplier (Stat_sum l) == Stat_final_damage_multiplier (Stat_fold l Stat_zero).
Proof.
  unfold Stat_sum; cbn [Stat_final_damage_multiplier].
  pose proof (sum_fd l Stat_zero) as H. cbn [Stat_final_damage_multiplier Stat_zero] in H.
  assert (E : fold_left (fun acc s => acc + Stat_final_damage_multiplier s * acc * (1 # 100)) l 1
              == 1 + (1 # 100) * Stat_final_damage_multiplier (Stat_fold l Stat_zero)).
  { rewrite <- H. apply fd_ext. ring. }
  rewrite E. ring.
Qed.
Lemma Stat_sum_ied l :
  Stat_ignored_defence (Stat_sum l) == Stat_ignored_defence (Stat_fold l Stat_zero).
Proof.
  unfold Stat_sum; cbn [Stat_ignored_defence].
  pose proof (sum_def l Stat_zero) as H. cbn [Stat_ignored_defence Stat_zero] in H.
  assert (E : fold_left (fun acc s => acc - acc * (1 # 100) * Stat_ignored_defence s) l 1
              == 1 - (1 # 100) * Stat_ignored_defence (Stat_fold l Stat_zero)).
  { rewrite <- H. apply def_ext. ring. }
  rewrite E. ring.
Qed.

Lemma Stat_sum_additive l :
  Forall (fun f => f (Stat_sum l) == f (Stat_fold l Stat_zero)) Stat_additive_fields.
Proof.
  pose proof (fun a b => Stat_add_additive a b) as Hadd.
  unfold Stat_additive_fields in *.
  repeat (apply Forall_cons;
    [ match goal with |- ?f (Stat_sum l) == _ =>
        unfold Stat_sum; cbn [f];
        rewrite <- (sum_additive_field f);
        [ apply fold_plus_ext; cbn; reflexivity
        | intros a b; unfold Stat_add; cbn; ring ]
      end | ]).
  apply Forall_nil.
Qed.

Theorem Stat_sum_eq_fold l : Stat_seq (Stat_sum l) (Stat_fold l Stat_zero).
Proof.
  pose proof (Stat_sum_additive l) as H. pose proof (Stat_sum_fd l) as Hfd. pose proof (Stat_sum_ied l) as Hied.
  unfold Stat_additive_fields in H.
  repeat match goal with H : Forall _ (_ :: _) |- _ => inversion H; clear H; subst end.
  unfold Stat_seq. repeat split; assumption.
Qed.

(* permutation invariance of the fold, hence of sum *)
Lemma Stat_fold_swap l : forall a x, Stat_seq (Stat_fold l (Stat_add a x)) (Stat_add (Stat_fold l a) x).
Proof.
  induction l as [|y l IH]; intros a x; cbn [Stat_fold fold_left]; [reflexivity|].
  fold (Stat_fold l (Stat_add (Stat_add a x) y)). fold (Stat_fold l (Stat_add a y)).
  rewrite <- IH. apply Stat_fold_proper.
  rewrite Stat_add_assoc, (Stat_add_comm x y), <- Stat_add_assoc. reflexivity.
Qed.
Lemma Stat_fold_perm l l' : Permutation l l' -> forall a, Stat_seq (Stat_fold l a) (Stat_fold l' a).
Proof.
  induction 1 as [|x l l' _ IH|x y l|l l' l'' _ IH1 _ IH2]; intros a; cbn [Stat_fold fold_left].
  - reflexivity.
  - apply IH.
  - apply Stat_fold_proper.
    rewrite Stat_add_assoc, (Stat_add_comm y x), <- Stat_add_assoc. reflexivity.
  - etransitivity; [apply IH1 | apply IH2].
Qed.
Theorem Stat_sum_perm l l' : Permutation l l' -> Stat_seq (Stat_sum l) (Stat_sum l').
Proof.
  intros H. rewrite !Stat_sum_eq_fold. apply Stat_fold_perm, H.
Qed.
Theorem Stat_sum_app l1 l2 : Stat_seq (Stat_sum (l1 ++ l2)) (Stat_add (Stat_sum l1) (Stat_sum l2)).
Proof.
  rewrite !Stat_sum_eq_fold. unfold Stat_fold. rewrite fold_left_app.
  fold (Stat_fold l1 Stat_zero). generalize (Stat_fold l1 Stat_zero) as s. intros s.
  revert s. induction l2 as [|x l2 IH] using rev_ind; intros s.
  - cbn. symmetry. apply Stat_add_0_r.
  - rewrite !fold_left_app. cbn [fold_left]. rewrite IH. rewrite Stat_add_assoc. reflexivity.
Qed.
Theorem Stat_sum_pair a b : Stat_seq (Stat_sum [a; b]) (Stat_add a b).
Proof. rewrite Stat_sum_eq_fold. cbn. rewrite Stat_add_0_l. reflexivity. Qed.
Theorem Stat_sum_nil : Stat_seq (Stat_sum []) Stat_zero.
Proof. rewrite Stat_sum_eq_fold. reflexivity. Qed.

(* repeated + agrees with in-place accumulation along any list *)
Theorem Stat_iadd_fold l : forall a, Stat_seq (fold_left Stat_iadd l a) (fold_left Stat_add l a).
Proof.
  induction l as [|x l IH]; intros a; cbn [fold_left]; [reflexivity|].
  rewrite IH. apply (Stat_fold_proper l). apply Stat_iadd_eq_add.
Qed.

(* ------------------------------------------------------------------ ActionStat *)
Lemma ActionStat_add_comm a b : ActionStat_seq (ActionStat_add a b) (ActionStat_add b a).
Proof. unfold ActionStat_seq, ActionStat_add. fieldwise. Qed.
Lemma ActionStat_add_assoc a b c :
  ActionStat_seq (ActionStat_add (ActionStat_add a b) c) (ActionStat_add a (ActionStat_add b c)).
Proof. unfold ActionStat_seq, ActionStat_add. fieldwise. Qed.
Lemma ActionStat_add_0_r a : ActionStat_seq (ActionStat_add a ActionStat_zero) a.
Proof. unfold ActionStat_seq, ActionStat_add, ActionStat_zero. fieldwise. Qed.
Lemma ActionStat_add_0_l a : ActionStat_seq (ActionStat_add ActionStat_zero a) a.
Proof. unfold ActionStat_seq, ActionStat_add, ActionStat_zero. fieldwise. Qed.
Lemma ActionStat_iadd_eq_add a b : ActionStat_seq (ActionStat_iadd a b) (ActionStat_add a b).
Proof. unfold ActionStat_seq, ActionStat_iadd, ActionStat_add. fieldwise. Qed.
Lemma ActionStat_iadd_self_eq_add a : ActionStat_seq (ActionStat_iadd_self a) (ActionStat_add a a).
Proof. unfold ActionStat_seq, ActionStat_iadd_self, ActionStat_add. fieldwise. Qed.
Lemma ActionStat_add_additive a b :
  Forall (fun f => f (ActionStat_add a b) == f a + f b) ActionStat_fields.
Proof. unfold ActionStat_fields, ActionStat_add. forall_fields. Qed.

(* ------------------------------------------------------------------ LevelStat *)
Lemma LevelStat_add_comm a b : LevelStat_seq (LevelStat_add a b) (LevelStat_add b a).
Proof. unfold LevelStat_seq, LevelStat_add. fieldwise. Qed.
Lemma LevelStat_add_assoc a b c :
  LevelStat_seq (LevelStat_add (LevelStat_add a b) c) (LevelStat_add a (LevelStat_add b c)).
Proof. unfold LevelStat_seq, LevelStat_add. fieldwise. Qed.
Lemma LevelStat_add_0_r a : LevelStat_seq (LevelStat_add a LevelStat_zero) a.
Proof. unfold LevelStat_seq, LevelStat_add, LevelStat_zero. fieldwise. Qed.
Lemma LevelStat_add_0_l a : LevelStat_seq (LevelStat_add LevelStat_zero a) a.
Proof. unfold LevelStat_seq, LevelStat_add, LevelStat_zero. fieldwise. Qed.
Lemma LevelStat_add_additive a b :
  Forall (fun f => f (LevelStat_add a b) == f a + f b) LevelStat_fields.
Proof. unfold LevelStat_fields, LevelStat_add. forall_fields. Qed.
(* the per-level contribution is additive in the level block *)
Lemma LevelStat_get_stat_add a b lv :
  Stat_seq (LevelStat_get_stat (LevelStat_add a b) lv) (Stat_add (LevelStat_get_stat a lv) (LevelStat_get_stat b lv)).
Proof. unfold Stat_seq, LevelStat_get_stat, LevelStat_add, Stat_add. fieldwise. Qed.

(* ------------------------------------------------------------------ ExtendedStat *)
Ltac ext_split := unfold ExtendedStat_seq, ExtendedStat_add, ExtendedStat_zero; cbn [ExtendedStat_stat ExtendedStat_action_stat ExtendedStat_level_stat]; split; [|split].
Lemma ExtendedStat_add_comm a b : ExtendedStat_seq (ExtendedStat_add a b) (ExtendedStat_add b a).
Proof. ext_split; [apply Stat_add_comm | apply ActionStat_add_comm | apply LevelStat_add_comm]. Qed.
Lemma ExtendedStat_add_assoc a b c :
  ExtendedStat_seq (ExtendedStat_add (ExtendedStat_add a b) c) (ExtendedStat_add a (ExtendedStat_add b c)).
Proof. ext_split; [apply Stat_add_assoc | apply ActionStat_add_assoc | apply LevelStat_add_assoc]. Qed.
Lemma ExtendedStat_add_0_r a : ExtendedStat_seq (ExtendedStat_add a ExtendedStat_zero) a.
Proof. ext_split; [apply Stat_add_0_r | apply ActionStat_add_0_r | apply LevelStat_add_0_r]. Qed.
Lemma ExtendedStat_add_0_l a : ExtendedStat_seq (ExtendedStat_add ExtendedStat_zero a) a.
Proof. ext_split; [apply Stat_add_0_l | apply ActionStat_add_0_l | apply LevelStat_add_0_l]. Qed.
