(* C20 -- the generic theorems of Proofs/MemoCoherent.v instantiated with the field lists generated
   from the provider classes.  The obligations on the generated lists (every field read by the
   memoizable computation is a key field; the hashed object carries the class name and the key dump)
   are discharged here by vm_compute: a source change that breaks them breaks this file. *)
From Coq Require Import List Bool String NArith Arith.
From V.Model Require Import Memo MemoExec.
From V.Proofs Require Import MemoCoherent.
From G Require Import MemoFields.
Import ListNotations.
Open Scope string_scope.

Lemma mem_In f l : mem f l = true <-> In f l.
Proof.
  unfold mem. rewrite existsb_exists. split.
  - intros [x [Hx E]]. apply String.eqb_eq in E. subst. exact Hx.
  - intros Hf. exists f. split; [exact Hf|apply String.eqb_refl].
Qed.

Lemma subset_incl a b : subset a b = true -> forall f, In f a -> In f b.
Proof. unfold subset. rewrite forallb_forall. intros Hs f Hf. apply mem_In, Hs, Hf. Qed.

(* ------------------------------------------------------------------ obligations on the generated lists *)
Lemma fields_ok_true : fields_ok = true.
Proof. vm_compute. reflexivity. Qed.

Lemma reads_in_key_true : reads_in_key = true.
Proof. vm_compute. reflexivity. Qed.

Lemma named_of_true : named_of = true.
Proof. vm_compute. reflexivity. Qed.

Theorem memo_reads_are_key_fields : forall k f, In f (R_of k) -> In f (K_of k).
Proof.
  intros k. apply subset_incl. pose proof reads_in_key_true as X. unfold reads_in_key in X.
  rewrite forallb_forall in X. apply X. destruct k; cbn; auto.
Qed.

Theorem key_fields_are_all_minus_excluded :
  forall k f, In f (K_of k) <-> In f (all_of k) /\ ~ In f (excluded_of k).
Proof.
  intros k f. unfold K_of, minus. rewrite filter_In, negb_true_iff. split; intros [A B]; split; auto.
  - intros C. apply mem_In in C. congruence.
  - destruct (mem f (excluded_of k)) eqn:E; [|reflexivity]. apply mem_In in E. contradiction.
Qed.

(* an excluded field is never read by the memoizable computation *)
Theorem excluded_fields_not_read : forall k f, In f (excluded_of k) -> ~ In f (R_of k).
Proof.
  intros k f He Hr. apply memo_reads_are_key_fields in Hr.
  apply key_fields_are_all_minus_excluded in Hr. tauto.
Qed.

(* ------------------------------------------------------------------ the real signature *)
Section Simaple.
  Variables Val Hash MemoEnv IndepEnv Env Ser Exported FileC : Type.
  Variable heqb : Hash -> Hash -> bool.
  Variable h : option pkind * list (string * option Val) -> Hash.
  Variable G : pkind -> list (string * option Val) -> MemoEnv.
  Variable H : pkind -> list (string * option Val) -> IndepEnv.
  Variable combine : IndepEnv -> MemoEnv -> Env.
  Variable ser : MemoEnv * IndepEnv -> Ser.
  Variable de : Ser -> MemoEnv * IndepEnv.
  Variable xser : list (Hash * Ser) -> Exported.
  Variable xde : Exported -> list (Hash * Ser).
  Variable fser : list (Hash * Ser) -> FileC.
  Variable fde : FileC -> list (Hash * Ser).

  Let M := simaple_sig Val Hash MemoEnv IndepEnv Env Ser Exported FileC
                       heqb h G H combine ser de xser xde fser fde.

  Hypothesis heqb_ok : forall a b, heqb a b = true <-> a = b.
  Hypothesis h_injective : forall a b, h a = h b -> a = b.
  Hypothesis de_ser_id : forall c, de (ser c) = c.

  Hypothesis xde_xser_id : forall s, xde (xser s) = s.
  Hypothesis fde_fser_id : forall s, fde (fser s) = s.

  Lemma simaple_hyps : hyps M.
  Proof.
    apply Hyps; [exact heqb_ok|exact h_injective|exact named_of_true|exact memo_reads_are_key_fields
                |exact de_ser_id|exact xde_xser_id|exact fde_fser_id].
  Qed.

  Theorem simaple_memo_coherent : forall ops,
    map (fun r => environment M (fst r)) (run_mem M [] ops) = map (direct M) (requests M ops).
  Proof. apply memo_coherent, simaple_hyps. Qed.

  Theorem simaple_memo_coherent_file : forall ops,
    map (fun r => environment M (fst r)) (run_file M (new_file M) ops) = map (direct M) (requests M ops).
  Proof. apply memo_coherent_new_file, simaple_hyps. Qed.

  Theorem simaple_memo_coherent_existing_file : forall ops s, Inv M s ->
    map (fun r => environment M (fst r)) (run_file M (fser s) ops) = map (direct M) (requests M ops).
  Proof. intros ops s. apply (memo_coherent_file M simaple_hyps). Qed.

  Theorem simaple_file_refines_memory : forall ops s, run_file M (fser s) ops = run_mem M s ops.
  Proof. apply file_refines_memory, simaple_hyps. Qed.

  Theorem simaple_export_import_transparent : forall ops s,
    run_mem M s ops = run_mem M s (map (Req M) (requests M ops)).
  Proof. apply export_import_transparent, simaple_hyps. Qed.

  Theorem simaple_kinds_never_share : forall ps, Forall (served_ok M ps) (run_owned M [] [] ps).
  Proof. apply kinds_never_share, simaple_hyps. Qed.

  Theorem simaple_kinds_differ_keys_differ : forall p q : prov M, kind M p <> kind M q -> key M p <> key M q.
  Proof. apply kinds_differ_keys_differ, simaple_hyps. Qed.
  Theorem simaple_all : forall ops : list (op M),
      map (fun r => environment M (fst r)) (run_mem M nil ops) = map (direct M) (requests M ops) /\
      map (fun r => environment M (fst r)) (run_file M (new_file M) ops) = map (direct M) (requests M ops) /\
      run_mem M nil ops = run_mem M nil (map (Req M) (requests M ops)) /\
      Forall (served_ok M (requests M ops)) (run_owned M nil nil (requests M ops)).
  Proof.
    intros ops. split; [apply simaple_memo_coherent|]. split; [apply simaple_memo_coherent_file|].
    split; [apply simaple_export_import_transparent|apply simaple_kinds_never_share].
  Qed.
End Simaple.

(* ------------------------------------------------------------------ the executable instance satisfies the hypotheses *)
Lemma opt_eqb_spec {A} (e : A -> A -> bool) :
  (forall x y, e x y = true <-> x = y) -> forall a b, opt_eqb e a b = true <-> a = b.
Proof.
  intros He [x|] [y|]; cbn; try (split; [discriminate|intros X; inversion X]); [|tauto].
  rewrite He. split; [intros ->; reflexivity|intros X; inversion X; reflexivity].
Qed.

Lemma list_eqb_spec {A} (e : A -> A -> bool) :
  (forall x y, e x y = true <-> x = y) -> forall a b, list_eqb e a b = true <-> a = b.
Proof.
  intros He. induction a as [|x a IH]; intros [|y b]; cbn; try (split; [discriminate|intros X; inversion X]); [tauto|].
  rewrite andb_true_iff, He, IH. split; [intros [-> ->]; reflexivity|intros X; inversion X; auto].
Qed.

Lemma kind_eqb_spec a b : kind_eqb a b = true <-> a = b.
Proof. destruct a, b; cbn; split; intros X; try reflexivity; discriminate. Qed.

Lemma cell_eqb_spec a b : cell_eqb a b = true <-> a = b.
Proof.
  destruct a as [f v], b as [g w]. unfold cell_eqb. cbn.
  rewrite andb_true_iff, String.eqb_eq, (opt_eqb_spec N.eqb N.eqb_eq).
  split; [intros [-> ->]; reflexivity|intros X; inversion X; auto].
Qed.

Lemma akey_eqb_spec a b : akey_eqb a b = true <-> a = b.
Proof.
  destruct a as [k l], b as [k' l']. unfold akey_eqb. cbn.
  rewrite andb_true_iff, (opt_eqb_spec kind_eqb kind_eqb_spec), (list_eqb_spec cell_eqb cell_eqb_spec).
  split; [intros [-> ->]; reflexivity|intros X; inversion X; auto].
Qed.

(* NON-VACUITY: the hypotheses of all theorems are satisfied by a concrete signature built on the
   real, generated field lists (for every pair of tables G, H) *)
Theorem exec_hyps : forall gt ht, hyps (exec_sig gt ht).
Proof.
  intros gt ht. unfold exec_sig. apply simaple_hyps; auto. apply akey_eqb_spec.
Qed.

(* ... and a concrete history on it exercises every branch: a miss, a hit after a change of a field
   outside the key (armor: the independent part follows the request, the memoizable part is the stored
   one), a miss after a change of a key field (level), a miss for the other provider pkind with the same
   field values, hits after a re-import; in memory and file-backed. *)
Definition ex_fields (level armor : N) : list (string * N) :=
  [("level", level); ("jobtype", 1%N); ("combat_orders_level", 1%N); ("armor", armor)].
Definition ex_pr (fs : list (string * N)) (k : pkind) (S : list string) : list (string * option N) :=
  proj (exec_sig [] []) S (Prov (exec_sig [] []) k fs).
Definition ex_gt : table :=
  [((Minimal, ex_pr (ex_fields 270 300) Minimal (R_of Minimal)), 11%N);
   ((Minimal, ex_pr (ex_fields 260 300) Minimal (R_of Minimal)), 12%N);
   ((Baseline, ex_pr (ex_fields 270 300) Baseline (R_of Baseline)), 13%N)].
Definition ex_ht : table :=
  [((Minimal, ex_pr (ex_fields 270 300) Minimal (I_of Minimal)), 21%N);
   ((Minimal, ex_pr (ex_fields 270 100) Minimal (I_of Minimal)), 22%N);
   ((Baseline, ex_pr (ex_fields 270 300) Baseline (I_of Baseline)), 23%N)].
Definition ex_history : list xop :=
  [XReq Minimal (ex_fields 270 300); XReq Minimal (ex_fields 270 100); XReq Minimal (ex_fields 260 300);
   XReq Baseline (ex_fields 270 300); XReopen; XReq Minimal (ex_fields 270 100); XReq Baseline (ex_fields 270 300)].
Definition ex_answers : list ((N * N) * option N) :=
  [((11, 21), None); ((11, 22), Some 0); ((12, 21), None); ((13, 23), None);
   ((11, 22), Some 0); ((13, 23), Some 2)]%N.

Example memo_example_in_memory : run_exec false ex_gt ex_ht ex_history = ex_answers.
Proof. vm_compute. reflexivity. Qed.
Example memo_example_file : run_exec true ex_gt ex_ht ex_history = ex_answers.
Proof. vm_compute. reflexivity. Qed.
Example memo_example_entries : entries_exec false ex_gt ex_ht ex_history = 3%N.
Proof. vm_compute. reflexivity. Qed.
(* the answers above are the direct computations, as memo_coherent says *)
Example memo_example_direct :
  map fst ex_answers =
  map (parts (exec_sig ex_gt ex_ht)) (requests (exec_sig ex_gt ex_ht) (map (to_op ex_gt ex_ht) ex_history)).
Proof. vm_compute. reflexivity. Qed.
