(* C16: generic lemmas about Model/Levels.v (nothing generated is mentioned here; Proofs/LevelsGen.v instantiates). *)
From Coq Require Import QArith Qround Qminmax ZArith List String Bool Lia Lqa.
From V.Model Require Import Expr ExprParse Levels.
From V.Proofs Require Import ExprMono.
Import ListNotations.

(* ------------------------------------------------------------------------------------------------ ranges *)
Lemma zrange_In n : forall lo l, In l (zrange lo n) <-> (lo <= l < lo + Z.of_nat n)%Z.
Proof.
  induction n as [|n IH]; intros lo l; cbn [zrange In].
  - split; [tauto|lia].
  - rewrite IH. lia.
Qed.

Lemma zspan_In lo hi l : In l (zspan lo hi) <-> (lo <= l < hi)%Z.
Proof. unfold zspan. rewrite zrange_In. lia. Qed.

(* ------------------------------------------------------------------------------------------------ sweeps *)
Lemma Qle_bool_le a b : Qle_bool a b = true -> a <= b.
Proof. apply Qle_bool_iff. Qed.

Lemma sweep_steps r x e lo hi :
  defined_at r x e lo = true -> forallb (step_ok r x e) (zspan lo hi) = true ->
  forall n l1, (lo <= l1)%Z -> (l1 + Z.of_nat n <= hi)%Z ->
  exists v1 v2, eval (at_level r x l1) e = Some v1 /\ eval (at_level r x (l1 + Z.of_nat n)) e = Some v2 /\ v1 <= v2.
Proof.
  intros Hd Hs. rewrite forallb_forall in Hs.
  assert (Hdef : forall l, (lo <= l <= hi)%Z -> exists v, eval (at_level r x l) e = Some v).
  { intros l Hl. destruct (Z.eq_dec l lo) as [->|Hne].
    - unfold defined_at in Hd. destruct (eval (at_level r x lo) e) as [v|]; [eauto|discriminate].
    - assert (Hin : In (l - 1)%Z (zspan lo hi)) by (apply zspan_In; lia).
      specialize (Hs _ Hin). unfold step_ok in Hs. replace (l - 1 + 1)%Z with l in Hs by lia.
      destruct (eval (at_level r x (l - 1)) e); [|discriminate]. destruct (eval (at_level r x l) e) as [v|]; [eauto|discriminate]. }
  induction n as [|n IH]; intros l1 H1 H2.
  - destruct (Hdef l1) as [v Hv]; [lia|]. exists v, v. replace (l1 + Z.of_nat 0)%Z with l1 by lia. repeat split; try assumption. apply Qle_refl.
  - destruct (IH l1 H1) as (v1 & v2 & E1 & E2 & Hle); [lia|].
    assert (Hin : In (l1 + Z.of_nat n)%Z (zspan lo hi)) by (apply zspan_In; lia).
    specialize (Hs _ Hin). unfold step_ok in Hs. rewrite E2 in Hs.
    replace (l1 + Z.of_nat n + 1)%Z with (l1 + Z.of_nat (S n))%Z in Hs by lia.
    destruct (eval (at_level r x (l1 + Z.of_nat (S n))) e) as [v3|]; [|discriminate].
    exists v1, v3. repeat split; try assumption. apply Qle_bool_le in Hs. eapply Qle_trans; eassumption.
Qed.

Lemma sweep_sound x e lo hi : sweep_ok x e lo hi = true ->
  forall l1 l2, (lo <= l1)%Z -> (l1 <= l2)%Z -> (l2 <= hi)%Z ->
  exists v1 v2, eval (at_level no_env x l1) e = Some v1 /\ eval (at_level no_env x l2) e = Some v2 /\ v1 <= v2.
Proof.
  unfold sweep_ok. intros H l1 l2 H1 H12 H2. apply andb_prop in H. destruct H as [Hd Hs].
  destruct (sweep_steps no_env x e lo hi Hd Hs (Z.to_nat (l2 - l1)) l1 H1) as (v1 & v2 & E1 & E2 & Hle); [lia|].
  replace (l1 + Z.of_nat (Z.to_nat (l2 - l1)))%Z with l2 in E2 by lia. eauto.
Qed.

(* an expression whose only variable is x does not look at the rest of the environment *)
Lemma only_var_eval x e : only_var x e = true -> forall r r' q, eval (upd r x q) e = eval (upd r' x q) e.
Proof.
  induction e as [q0|v|o a IHa b IHb|a IHa|f a IHa|g a IHa b IHb]; cbn [only_var]; intros H r r' q; cbn [eval].
  - reflexivity.
  - unfold upd. rewrite H. reflexivity.
  - apply andb_prop in H. destruct H as [Ha Hb]. rewrite (IHa Ha r r' q), (IHb Hb r r' q). reflexivity.
  - rewrite (IHa H r r' q). reflexivity.
  - rewrite (IHa H r r' q). reflexivity.
  - apply andb_prop in H. destruct H as [Ha Hb]. rewrite (IHa Ha r r' q), (IHb Hb r r' q). reflexivity.
Qed.

(* textual substitution of a number for the variable = binding the variable *)
Lemma subst_eval x q e : forall r, eval r (subst x q e) = eval (upd r x q) e.
Proof.
  induction e as [q0|v|o a IHa b IHb|a IHa|f a IHa|g a IHa b IHb]; intros r; cbn [subst eval].
  - reflexivity.
  - unfold upd. destruct (String.eqb v x); reflexivity.
  - rewrite IHa, IHb. reflexivity.
  - rewrite IHa. reflexivity.
  - rewrite IHa. reflexivity.
  - rewrite IHa, IHb. reflexivity.
Qed.

Lemma inject_Z_le a b : (a <= b)%Z -> inject_Z a <= inject_Z b.
Proof. intros H. rewrite <- Zle_Qle. exact H. Qed.

Lemma inject_Z_nonneg a : (0 <= a)%Z -> 0 <= inject_Z a.
Proof. intros H. change 0 with (inject_Z 0). apply inject_Z_le. exact H. Qed.

(* the meaning of the per-formula check *)
Lemma level_ok_sound x f : level_ok x f = true -> (0 <= f_lo f)%Z ->
  forall r, env_nonneg r -> forall l1 l2, (f_lo f <= l1)%Z -> (l1 <= l2)%Z -> (l2 <= f_hi f)%Z ->
  forall v1 v2, eval (at_level r x l1) (f_expr f) = Some v1 -> eval (at_level r x l2) (f_expr f) = Some v2 -> v1 <= v2.
Proof.
  unfold level_ok. intros H Hlo r Hr l1 l2 H1 H12 H2 v1 v2 E1 E2.
  destruct (const_in x (f_expr f)) eqn:Hc.
  - unfold at_level in E1, E2. rewrite (const_sound r x _ _ Hc) in E1. rewrite (const_sound r x _ _ Hc) in E2.
    rewrite E1 in E2. injection E2 as <-. apply Qle_refl.
  - destruct (only_var x (f_expr f)) eqn:Ho.
    + destruct (sweep_sound _ _ _ _ H l1 l2 H1 H12 H2) as (w1 & w2 & F1 & F2 & Hle).
      unfold at_level in *. rewrite (only_var_eval x _ Ho r no_env) in E1. rewrite (only_var_eval x _ Ho r no_env) in E2.
      rewrite F1 in E1. rewrite F2 in E2. injection E1 as <-. injection E2 as <-. exact Hle.
    + apply andb_prop in H. destruct H as [Hm _]. unfold at_level in *.
      eapply (mono_sound x _ Hm r (inject_Z l1) (inject_Z l2)); try eassumption.
      * apply inject_Z_nonneg. lia.
      * apply inject_Z_le. exact H12.
Qed.

(* definedness: a swept formula is defined on its whole range; a syntactically monotone one is defined at every level as soon as
   it is defined at one *)
Lemma level_ok_defined x f : level_ok x f = true -> const_in x (f_expr f) = false ->
  forall r l1 l2, (f_lo f <= l1 <= f_hi f)%Z -> (f_lo f <= l2 <= f_hi f)%Z ->
  eval (at_level r x l1) (f_expr f) <> None -> eval (at_level r x l2) (f_expr f) <> None.
Proof.
  unfold level_ok. intros H Hc r l1 l2 H1 H2 D. rewrite Hc in H.
  destruct (only_var x (f_expr f)) eqn:Ho.
  - destruct (sweep_sound _ _ _ _ H l2 l2) as (w1 & w2 & F1 & _); try lia.
    unfold at_level in *. rewrite (only_var_eval x _ Ho r no_env). rewrite F1. discriminate.
  - apply andb_prop in H. destruct H as [Hm _]. unfold at_level in *. eapply mono_defined; eassumption.
Qed.

(* ------------------------------------------------------------------------------------------------ structural equality *)
Lemma q_same_eq a b : q_same a b = true -> a = b.
Proof.
  unfold q_same. intros H. apply andb_prop in H. destruct H as [Hn Hd].
  apply Z.eqb_eq in Hn. apply Pos.eqb_eq in Hd. destruct a, b. cbn in *. subst. reflexivity.
Qed.

Lemma expr_eqb_eq : forall a b, expr_eqb a b = true -> a = b.
Proof.
  induction a as [p|v|o a1 IH1 a2 IH2|a1 IH1|f a1 IH1|g a1 IH1 a2 IH2]; intros [q|w|o' b1 b2|b1|f' b1|g' b1 b2]; cbn [expr_eqb]; intros H; try discriminate.
  - f_equal. apply q_same_eq. exact H.
  - f_equal. apply String.eqb_eq. exact H.
  - apply andb_prop in H. destruct H as [H H2]. apply andb_prop in H. destruct H as [Ho H1].
    rewrite (IH1 _ H1), (IH2 _ H2). destruct o, o'; try discriminate; reflexivity.
  - rewrite (IH1 _ H). reflexivity.
  - apply andb_prop in H. destruct H as [Hf H1]. rewrite (IH1 _ H1). destruct f, f'; try discriminate; reflexivity.
  - apply andb_prop in H. destruct H as [H H2]. apply andb_prop in H. destruct H as [Hg H1].
    rewrite (IH1 _ H1), (IH2 _ H2). destruct g, g'; try discriminate; reflexivity.
Qed.

Lemma parses_to_sound f : parses_to f = true -> parse (f_toks f) = Some (f_expr f).
Proof. unfold parses_to. destruct (parse (f_toks f)) as [e|]; [|discriminate]. intros H. rewrite (expr_eqb_eq _ _ H). reflexivity. Qed.

(* ------------------------------------------------------------------------------------------------ names *)
Lemma mem_In k l : mem k l = true <-> In k l.
Proof.
  unfold mem. rewrite existsb_exists. split.
  - intros (y & Hy & E). apply String.eqb_eq in E. subst. exact Hy.
  - intros H. exists k. split; [exact H|apply String.eqb_refl].
Qed.

Lemma nodupb_NoDup l : nodupb l = true -> NoDup l.
Proof.
  induction l as [|x r IH]; cbn [nodupb]; intros H; constructor.
  - apply andb_prop in H. destruct H as [H _]. intros Hin. apply mem_In in Hin. rewrite Hin in H. discriminate.
  - apply IH. apply andb_prop in H. tauto.
Qed.

Lemma exclude_hexa_subset cfg names repl levels n : In n (exclude_hexa cfg names repl levels) -> In n names.
Proof. unfold exclude_hexa. rewrite filter_In. tauto. Qed.

Lemma exclude_hexa_NoDup cfg names repl levels : NoDup names -> NoDup (exclude_hexa cfg names repl levels).
Proof. apply NoDup_filter. Qed.

Lemma exclude_hexa_In cfg names repl levels n :
  In n (exclude_hexa cfg names repl levels) <-> In n names /\ ~ In n (to_exclude cfg repl levels).
Proof.
  unfold exclude_hexa. rewrite filter_In. rewrite negb_true_iff. split; intros [H1 H2]; split; try assumption.
  - intros Hin. apply mem_In in Hin. congruence.
  - destruct (mem n (to_exclude cfg repl levels)) eqn:E; [|reflexivity]. apply mem_In in E. contradiction.
Qed.

(* the shipped rule: look at the HIGH tier's level (default 0), drop the LOW tier when it is > 0 *)
Definition shipped_excl : excl_cfg := mkExcl THigh CGt 0 0 TLow.

Lemma to_exclude_shipped repl levels n :
  In n (to_exclude shipped_excl repl levels) <-> exists high, In (n, high) repl /\ (0 < level_of levels 0 high)%Z.
Proof.
  unfold to_exclude. rewrite in_flat_map. split.
  - intros ([low high] & Hin & Hx). unfold excluded_by, shipped_excl in Hx. cbn [x_cmp x_lookup x_const x_default x_drop pick fst snd cmp_z] in Hx.
    destruct (level_of levels 0 high >? 0)%Z eqn:E; [|contradiction]. destruct Hx as [<-|[]].
    exists high. split; [exact Hin|]. apply Z.gtb_lt in E. exact E.
  - intros (high & Hin & Hl). exists (n, high). split; [exact Hin|].
    unfold excluded_by, shipped_excl. cbn [x_cmp x_lookup x_const x_default x_drop pick fst snd cmp_z].
    assert (E : (level_of levels 0 high >? 0)%Z = true) by (apply Z.gtb_lt; exact Hl). rewrite E. left. reflexivity.
Qed.

(* hexa_replacements is a dict: its keys (the low tiers) are pairwise different *)
Theorem exclude_hexa_iff_shipped names repl levels low high :
  NoDup (map fst repl) -> In (low, high) repl -> In low names -> (0 <= level_of levels 0 high)%Z ->
  (In low (exclude_hexa shipped_excl names repl levels) <-> level_of levels 0 high = 0%Z).
Proof.
  intros Hnd Hin Hn Hnn. rewrite exclude_hexa_In, to_exclude_shipped. split.
  - intros [_ Hno]. destruct (Z.eq_dec (level_of levels 0 high) 0) as [E|E]; [exact E|].
    exfalso. apply Hno. exists high. split; [exact Hin|lia].
  - intros E. split; [exact Hn|]. intros (high' & Hin' & Hl).
    assert (high' = high).
    { clear - Hnd Hin Hin'. induction repl as [|[a b] r IH]; [contradiction|]. cbn [map fst] in Hnd. inversion Hnd as [|? ? Hnotin Hnd']; subst.
      destruct Hin as [E1|Hin], Hin' as [E2|Hin'].
      - congruence.
      - injection E1 as -> ->. exfalso. apply Hnotin. apply in_map_iff. exists (low, high'). split; [reflexivity|exact Hin'].
      - injection E2 as -> ->. exfalso. apply Hnotin. apply in_map_iff. exists (low, high). split; [reflexivity|exact Hin].
      - apply IH; assumption. }
    subst. lia.
Qed.

(* a name that is not the low tier of any replacement pair is never dropped *)
Theorem exclude_hexa_keeps_others names repl levels n :
  In n names -> ~ In n (map fst repl) -> In n (exclude_hexa shipped_excl names repl levels).
Proof.
  intros Hn Hk. rewrite exclude_hexa_In, to_exclude_shipped. split; [exact Hn|].
  intros (high & Hin & _). apply Hk. apply in_map_iff. exists (n, high). split; [reflexivity|exact Hin].
Qed.

(* ------------------------------------------------------------------------------------------------ level maps *)
Definition levels_le (l l' : list (string * Z)) : Prop := Forall2 (fun a b => fst a = fst b /\ (snd a <= snd b)%Z) l l'.

Lemma lookup_le l l' : levels_le l l' -> forall k,
  match lookup k l, lookup k l' with Some a, Some b => (a <= b)%Z | None, None => True | _, _ => False end.
Proof.
  unfold lookup. induction 1 as [|[ka a] [kb b] r r' [Hk Hv] _ IH]; intros k; cbn [find fst snd] in *.
  - exact I.
  - subst kb. destruct (String.eqb ka k); [exact Hv|apply IH].
Qed.

Lemma levels_le_app a a' b b' : levels_le a a' -> levels_le b b' -> levels_le (a ++ b) (a' ++ b').
Proof. apply Forall2_app. Qed.

Lemma levels_le_const names v v' : (v <= v')%Z -> levels_le (map (fun n : string => (n, v)) names) (map (fun n => (n, v')) names).
Proof. intros H. induction names as [|n r IH]; cbn [map]; constructor; [cbn; split; [reflexivity|exact H]|exact IH]. Qed.

Lemma skill_levels_of_le p v v' h h' m m' : (v <= v')%Z -> (h <= h')%Z -> (m <= m')%Z ->
  levels_le (skill_levels_of p v h m) (skill_levels_of p v' h' m').
Proof. intros. unfold skill_levels_of. repeat apply levels_le_app; apply levels_le_const; assumption. Qed.

(* ------------------------------------------------------------------------------------------------ figures *)
Definition fval_le (fv fv' : nat -> option Q) (fid : nat) : Prop :=
  forall a b, fv fid = Some a -> fv' fid = Some b -> a <= b.

Lemma apply_post_le fv fv' o x x' v v' :
  post_nonneg o = true -> (forall fid, o = PAddF fid -> fval_le fv fv' fid) ->
  x <= x' -> apply_post fv (Some x) o = Some v -> apply_post fv' (Some x') o = Some v' -> v <= v'.
Proof.
  intros Hn Hf Hx E E'. destruct o as [q|q|fid]; cbn [apply_post post_nonneg] in *.
  - injection E as <-. injection E' as <-. lra.
  - injection E as <-. injection E' as <-. apply Qle_bool_le in Hn. nra.
  - destruct (fv fid) as [y|] eqn:Ey; [|discriminate]. destruct (fv' fid) as [y'|] eqn:Ey'; [|discriminate].
    destruct (int_valued y); [|discriminate]. destruct (int_valued y'); [|discriminate].
    injection E as <-. injection E' as <-. specialize (Hf fid eq_refl y y' Ey Ey'). lra.
Qed.

Lemma apply_post_none fv o : apply_post fv None o = None.
Proof. reflexivity. Qed.

Lemma fold_post_none fv l : fold_left (apply_post fv) l None = None.
Proof. induction l as [|o r IH]; cbn [fold_left]; [reflexivity|exact IH]. Qed.

Lemma fold_post_le fv fv' l : forallb post_nonneg l = true ->
  (forall fid, In (PAddF fid) l -> fval_le fv fv' fid) ->
  forall x x' v v', x <= x' -> fold_left (apply_post fv) l (Some x) = Some v -> fold_left (apply_post fv') l (Some x') = Some v' -> v <= v'.
Proof.
  induction l as [|o r IH]; cbn [forallb fold_left]; intros Hn Hf x x' v v' Hx E E'.
  - injection E as <-. injection E' as <-. exact Hx.
  - apply andb_prop in Hn. destruct Hn as [Ho Hr].
    destruct (apply_post fv (Some x) o) as [y|] eqn:Ey; [|rewrite fold_post_none in E; discriminate].
    destruct (apply_post fv' (Some x') o) as [y'|] eqn:Ey'; [|rewrite fold_post_none in E'; discriminate].
    eapply (IH Hr); [| |exact E|exact E'].
    + intros fid Hin. apply Hf. right. exact Hin.
    + eapply apply_post_le; try eassumption. intros fid ->. apply Hf. left. reflexivity.
Qed.

Theorem fig_value_le fv fv' g : forallb post_nonneg (g_post g) = true ->
  (forall fid, g_base g = BF fid -> fval_le fv fv' fid) ->
  (forall fid, In (PAddF fid) (g_post g) -> fval_le fv fv' fid) ->
  forall v v', fig_value fv g = Some v -> fig_value fv' g = Some v' -> v <= v'.
Proof.
  unfold fig_value. intros Hn Hb Hp v v' E E'.
  destruct (base_value fv (g_base g)) as [x|] eqn:Ex; [|rewrite fold_post_none in E; discriminate].
  destruct (base_value fv' (g_base g)) as [x'|] eqn:Ex'; [|rewrite fold_post_none in E'; discriminate].
  eapply fold_post_le; try eassumption.
  destruct (g_base g) as [fid|q]; cbn [base_value] in *.
  - exact (Hb fid eq_refl x x' Ex Ex').
  - injection Ex as <-. injection Ex' as <-. apply Qle_refl.
Qed.

(* ------------------------------------------------------------------------------------------------ sweeps of a function of the level *)
Definition fstep_ok (f : Z -> option Q) (l : Z) : bool :=
  match f l, f (l + 1)%Z with Some a, Some b => Qle_bool a b | _, _ => false end.

Lemma fsweep f lo hi : (exists v, f lo = Some v) -> forallb (fstep_ok f) (zspan lo hi) = true ->
  forall l1 l2, (lo <= l1)%Z -> (l1 <= l2)%Z -> (l2 <= hi)%Z -> exists v1 v2, f l1 = Some v1 /\ f l2 = Some v2 /\ v1 <= v2.
Proof.
  intros Hd Hs. rewrite forallb_forall in Hs.
  assert (Hdef : forall l, (lo <= l <= hi)%Z -> exists v, f l = Some v).
  { intros l Hl. destruct (Z.eq_dec l lo) as [->|Hne]; [exact Hd|].
    assert (Hin : In (l - 1)%Z (zspan lo hi)) by (apply zspan_In; lia).
    specialize (Hs _ Hin). unfold fstep_ok in Hs. replace (l - 1 + 1)%Z with l in Hs by lia.
    destruct (f (l - 1)%Z); [|discriminate]. destruct (f l) as [v|]; [eauto|discriminate]. }
  assert (Hn : forall n l1, (lo <= l1)%Z -> (l1 + Z.of_nat n <= hi)%Z ->
               exists v1 v2, f l1 = Some v1 /\ f (l1 + Z.of_nat n)%Z = Some v2 /\ v1 <= v2).
  { induction n as [|n IH]; intros l1 H1 H2.
    - destruct (Hdef l1) as [v Hv]; [lia|]. exists v, v. replace (l1 + Z.of_nat 0)%Z with l1 by lia. repeat split; try assumption. apply Qle_refl.
    - destruct (IH l1 H1) as (v1 & v2 & E1 & E2 & Hle); [lia|].
      assert (Hin : In (l1 + Z.of_nat n)%Z (zspan lo hi)) by (apply zspan_In; lia).
      specialize (Hs _ Hin). unfold fstep_ok in Hs. rewrite E2 in Hs.
      replace (l1 + Z.of_nat n + 1)%Z with (l1 + Z.of_nat (S n))%Z in Hs by lia.
      destruct (f (l1 + Z.of_nat (S n))%Z) as [v3|]; [|discriminate].
      exists v1, v3. repeat split; try assumption. apply Qle_bool_le in Hs. eapply Qle_trans; eassumption. }
  intros l1 l2 H1 H12 H2. destruct (Hn (Z.to_nat (l2 - l1)) l1 H1) as (v1 & v2 & E1 & E2 & Hle); [lia|].
  replace (l1 + Z.of_nat (Z.to_nat (l2 - l1)))%Z with l2 in E2 by lia. eauto.
Qed.

(* ------------------------------------------------------------------------------------------------ sparse field lists *)
Lemma base_fields_sget fv fv' l : forall kv kv',
  (forall k b, In (k, b) l -> forall x x', base_value fv b = Some x -> base_value fv' b = Some x' -> x <= x') ->
  base_fields fv l = Some kv -> base_fields fv' l = Some kv' -> forall k, sget k kv <= sget k kv'.
Proof.
  induction l as [|[k0 b0] r IH]; intros kv kv' H E E' k; cbn [base_fields] in E, E'.
  - injection E as <-. injection E' as <-. apply Qle_refl.
  - destruct (base_value fv b0) as [x|] eqn:Ex; [|discriminate]. destruct (base_fields fv r) as [kr|] eqn:Er; [|discriminate].
    destruct (base_value fv' b0) as [x'|] eqn:Ex'; [|discriminate]. destruct (base_fields fv' r) as [kr'|] eqn:Er'; [|discriminate].
    injection E as <-. injection E' as <-. unfold sget, lookup. cbn [find fst snd].
    destruct (String.eqb k0 k).
    + exact (H k0 b0 (or_introl eq_refl) x x' Ex Ex').
    + exact (IH kr kr' (fun k1 b1 Hin => H k1 b1 (or_intror Hin)) eq_refl eq_refl k).
Qed.

Lemma base_fields_bound (P : Q -> Prop) fv l : forall kv key, P 0 ->
  (forall b, In (key, b) l -> forall x, base_value fv b = Some x -> P x) ->
  base_fields fv l = Some kv -> P (sget key kv).
Proof.
  induction l as [|[k0 b0] r IH]; intros kv key H0 H E; cbn [base_fields] in E.
  - injection E as <-. exact H0.
  - destruct (base_value fv b0) as [x|] eqn:Ex; [|discriminate]. destruct (base_fields fv r) as [kr|] eqn:Er; [|discriminate].
    injection E as <-. unfold sget, lookup. cbn [find fst snd]. destruct (String.eqb k0 key) eqn:Ek.
    + apply String.eqb_eq in Ek. subst k0. exact (H b0 (or_introl eq_refl) x Ex).
    + exact (IH kr key H0 (fun b Hin => H b (or_intror Hin)) eq_refl).
Qed.
