(* Round trip  parse (print e) = Some e  for EVERY tree, with the concrete fuel of Model/ExprParse.v; the
   printed tokens of every tree derive that tree in the production table; digit separators. *)
From Coq Require Import QArith List Arith Lia Bool String.
From V.Model Require Import Expr ExprParse.
Import ListNotations.
Local Open Scope nat_scope.

Lemma P_mono : forall f m ts x, P f m ts = Some x -> forall f', f <= f' -> P f' m ts = Some x.
Proof.
  induction f as [|f IH]; intros m ts x H f' Hle; [discriminate|].
  destruct f' as [|f']; [lia|]. assert (Hle' : f <= f') by lia.
  cbn [P] in *. destruct m.
  - destruct ts as [|t r]; [discriminate|]. destruct t; try discriminate; try exact H.
    + destruct o; try discriminate. destruct (P f MF r) as [[a r']|] eqn:E; [|discriminate]. rewrite (IH _ _ _ E f' Hle'). exact H.
    + destruct (P f ME r) as [[a r']|] eqn:E; [|discriminate]. rewrite (IH _ _ _ E f' Hle'). exact H.
    + destruct (P f ME r) as [[a r']|] eqn:E; [|discriminate]. rewrite (IH _ _ _ E f' Hle'). exact H.
    + destruct (P f ME r) as [[a r']|] eqn:E; [|discriminate]. rewrite (IH _ _ _ E f' Hle').
      destruct r' as [|t' r'']; [discriminate|]. destruct t'; try discriminate.
      destruct (P f ME r'') as [[b r3]|] eqn:E2; [|discriminate]. rewrite (IH _ _ _ E2 f' Hle'). exact H.
  - destruct (P f MF ts) as [[a r]|] eqn:E; [|discriminate]. rewrite (IH _ _ _ E f' Hle'). apply IH with (f' := f') in H; auto.
  - destruct (P f MT ts) as [[a r]|] eqn:E; [|discriminate]. rewrite (IH _ _ _ E f' Hle'). apply IH with (f' := f') in H; auto.
  - destruct ts as [|t r]; [exact H|]. destruct t; try exact H. destruct (lvl o =? 1); [|exact H].
    destruct (P f MF r) as [[b r']|] eqn:E; [|discriminate]. rewrite (IH _ _ _ E f' Hle'). apply IH with (f' := f') in H; auto.
  - destruct ts as [|t r]; [exact H|]. destruct t; try exact H. destruct (lvl o =? 0); [|exact H].
    destruct (P f MT r) as [[b r']|] eqn:E; [|discriminate]. rewrite (IH _ _ _ E f' Hle'). apply IH with (f' := f') in H; auto.
Qed.

(* ---------------------------------------------------------------- round trip, some fuel *)
Definition no1 (r : list tok) : Prop := match r with TOp o :: _ => lvl o <> 1 | _ => True end.

Definition Fst (ts : list tok) (e : expr) := forall r, exists f, P f MF (ts ++ r) = Some (e, r).
Definition Tst (ts : list tok) (e : expr) := forall r res f1, P f1 (MLoopT e) r = Some res -> exists f, P f MT (ts ++ r) = Some res.
Definition Est (ts : list tok) (e : expr) := forall r res f1, no1 r -> P f1 (MLoopE e) r = Some res -> exists f, P f ME (ts ++ r) = Some res.

Lemma loopT_stop e r : no1 r -> P 1 (MLoopT e) r = Some (e, r).
Proof. intros H. cbn. destruct r as [|t r']; [reflexivity|]. destruct t; try reflexivity. cbn in H. destruct (lvl o =? 1) eqn:E; [apply Nat.eqb_eq in E; contradiction|reflexivity]. Qed.
Lemma loopE_stop e r : (match r with TOp _ :: _ => False | _ => True end) -> P 1 (MLoopE e) r = Some (e, r).
Proof. intros H. cbn. destruct r as [|t r']; [reflexivity|]. destruct t; try reflexivity. destruct H. Qed.

Lemma T_from_F ts e : Fst ts e -> Tst ts e.
Proof.
  intros HF r res f1 Hl. destruct (HF r) as [f Hf]. exists (S (max f f1)). cbn [P].
  rewrite (P_mono _ _ _ _ Hf (max f f1)) by lia. apply (P_mono _ _ _ _ Hl). lia.
Qed.
Lemma E_from_T ts e : Tst ts e -> Est ts e.
Proof.
  intros HT r res f1 Hn Hl. destruct (HT r (e, r) 1 (loopT_stop e r Hn)) as [f Hf]. exists (S (max f f1)). cbn [P].
  rewrite (P_mono _ _ _ _ Hf (max f f1)) by lia. apply (P_mono _ _ _ _ Hl). lia.
Qed.
Lemma F_paren_from_E ts e : Est ts e -> Fst (TLP :: ts ++ [TRP]) e.
Proof.
  intros HE r. destruct (HE (TRP :: r) (e, TRP :: r) 1 I (loopE_stop e (TRP :: r) I)) as [f Hf].
  exists (S f). cbn [app P]. rewrite <- app_assoc. cbn [app]. rewrite Hf. reflexivity.
Qed.
Lemma E_bin o ta a tb b : lvl o = 0 -> Est ta a -> Tst tb b -> Est (ta ++ TOp o :: tb) (Bin o a b).
Proof.
  intros Lo Ea Tb r res f1 Hn Hl. rewrite <- app_assoc. cbn [app].
  destruct (Tb r (b, r) 1 (loopT_stop b r Hn)) as [fb Hfb].
  apply (Ea (TOp o :: tb ++ r) res (S (max fb f1))).
  - cbn. rewrite Lo. discriminate.
  - cbn [P]. rewrite Lo. cbn [Nat.eqb]. rewrite (P_mono _ _ _ _ Hfb (max fb f1)) by lia. apply (P_mono _ _ _ _ Hl). lia.
Qed.
Lemma T_bin o ta a tb b : lvl o = 1 -> Tst ta a -> Fst tb b -> Tst (ta ++ TOp o :: tb) (Bin o a b).
Proof.
  intros Lo Ta Fb r res f1 Hl. rewrite <- app_assoc. cbn [app].
  destruct (Fb r) as [fb Hfb].
  apply (Ta (TOp o :: tb ++ r) res (S (max fb f1))).
  cbn [P]. rewrite Lo. cbn [Nat.eqb]. rewrite (P_mono _ _ _ _ Hfb (max fb f1)) by lia. apply (P_mono _ _ _ _ Hl). lia.
Qed.
Lemma F_neg ta a : Fst ta a -> Fst (TOp Sub :: ta) (Neg a).
Proof. intros Fa r. destruct (Fa r) as [f Hf]. exists (S f). cbn [app P]. rewrite Hf. reflexivity. Qed.
Lemma F_fn1 g ta a : Est ta a -> Fst (TF1 g :: ta ++ [TRP]) (Fn1 g a).
Proof.
  intros Ea r. destruct (Ea (TRP :: r) (a, TRP :: r) 1 I (loopE_stop a (TRP :: r) I)) as [f Hf].
  exists (S f). cbn [app P]. rewrite <- app_assoc. cbn [app]. rewrite Hf. reflexivity.
Qed.
Lemma F_fn2 g ta a tb b : Est ta a -> Est tb b -> Fst (TF2 g :: ta ++ TComma :: tb ++ [TRP]) (Fn2 g a b).
Proof.
  intros Ea Eb r. destruct (Eb (TRP :: r) (b, TRP :: r) 1 I (loopE_stop b (TRP :: r) I)) as [fb Hfb].
  destruct (Ea (TComma :: tb ++ TRP :: r) (a, TComma :: tb ++ TRP :: r) 1 I (loopE_stop a (TComma :: tb ++ TRP :: r) I)) as [fa Hfa].
  exists (S (max fa fb)). cbn [app P]. rewrite <- !app_assoc. cbn [app]. rewrite <- !app_assoc. cbn [app].
  rewrite (P_mono _ _ _ _ Hfa (max fa fb)) by lia. rewrite (P_mono _ _ _ _ Hfb (max fa fb)) by lia. reflexivity.
Qed.

(* for every tree decorated with redundant parentheses, at each of the three levels *)
Theorem roundtrip_all : forall d, Fst (dp 2 d) (erase d) /\ Tst (dp 1 d) (erase d) /\ Est (dp 0 d) (erase d).
Proof.
  assert (ALL : forall ts e, Fst ts e -> Fst ts e /\ Tst ts e /\ Est ts e).
  { intros ts e HF. pose proof (T_from_F _ _ HF) as HT. pose proof (E_from_T _ _ HT). auto. }
  induction d as [q|v|o a (Fa & Ta & Ea) b (Fb & Tb & Eb)|a (Fa & Ta & Ea)|g a (Fa & Ta & Ea)|g a (Fa & Ta & Ea) b (Fb & Tb & Eb)|a (Fa & Ta & Ea)];
    cbn [dp erase].
  - apply ALL. intros r; exists 1; reflexivity.
  - apply ALL. intros r; exists 1; reflexivity.
  - destruct (lvl o) eqn:Lo; [|destruct n as [|n]; [|destruct o; discriminate]]; cbn [Nat.ltb Nat.leb].
    + pose proof (E_bin o _ _ _ _ Lo Ea Tb) as HE.
      pose proof (F_paren_from_E _ _ HE) as HF. pose proof (T_from_F _ _ HF) as HT. auto.
    + pose proof (T_bin o _ _ _ _ Lo Ta Fb) as HT. pose proof (E_from_T _ _ HT) as HE.
      pose proof (F_paren_from_E _ _ HE) as HF. auto.
  - apply ALL, F_neg, Fa.
  - apply ALL, F_fn1, Ea.
  - apply ALL, F_fn2; assumption.
  - apply ALL, F_paren_from_E, Ea.
Qed.

Theorem parse_dprint_some_fuel d : exists f, P f ME (dp 0 d) = Some (erase d, []).
Proof.
  destruct (roundtrip_all d) as (_ & _ & HE). destruct (HE [] (erase d, []) 1 I (loopE_stop (erase d) [] I)) as [f Hf].
  exists f. rewrite app_nil_r in Hf. exact Hf.
Qed.

Lemma dp_inj : forall e l, dp l (inj e) = p l e.
Proof. induction e; intros l; cbn [dp inj p]; rewrite ?IHe, ?IHe1, ?IHe2; reflexivity. Qed.
Lemma erase_inj : forall e, erase (inj e) = e.
Proof. induction e; cbn [erase inj]; rewrite ?IHe, ?IHe1, ?IHe2; reflexivity. Qed.

Theorem parse_print_some_fuel e : exists f, P f ME (p 0 e) = Some (e, []).
Proof. destruct (parse_dprint_some_fuel (inj e)) as [f Hf]. exists f. rewrite dp_inj, erase_inj in Hf. exact Hf. Qed.

(* ---------------------------------------------------------------- the fuel of `parse` is enough *)
Definition strict (m : mode) : nat := match m with MF | MT | ME => 1 | _ => 0 end.

Lemma P_progress : forall f m ts e r, P f m ts = Some (e, r) -> List.length r + strict m <= List.length ts.
Proof.
  induction f as [|f IH]; intros m ts e r H; [discriminate|].
  cbn [P] in H. destruct m; cbn [strict].
  - destruct ts as [|t r0]; [discriminate|]. cbn [List.length]. destruct t; try discriminate.
    + injection H as <- <-. lia.
    + destruct (has_digit l); [|discriminate]. injection H as <- <-. lia.
    + injection H as <- <-. lia.
    + destruct o; try discriminate. destruct (P f MF r0) as [[a r']|] eqn:E; [|discriminate]. injection H as <- <-.
      apply IH in E. cbn [strict] in E. lia.
    + destruct (P f ME r0) as [[a r']|] eqn:E; [|discriminate]. destruct r' as [|t' r'']; [discriminate|]. destruct t'; try discriminate.
      injection H as <- <-. apply IH in E. cbn [strict List.length] in E. lia.
    + destruct (P f ME r0) as [[a r']|] eqn:E; [|discriminate]. destruct r' as [|t' r'']; [discriminate|]. destruct t'; try discriminate.
      injection H as <- <-. apply IH in E. cbn [strict List.length] in E. lia.
    + destruct (P f ME r0) as [[a r']|] eqn:E; [|discriminate]. destruct r' as [|t' r'']; [discriminate|]. destruct t'; try discriminate.
      destruct (P f ME r'') as [[b r3]|] eqn:E2; [|discriminate]. destruct r3 as [|t3 r4]; [discriminate|]. destruct t3; try discriminate.
      injection H as <- <-. apply IH in E. apply IH in E2. cbn [strict List.length] in E, E2. lia.
  - destruct (P f MF ts) as [[a r1]|] eqn:E; [|discriminate]. apply IH in E. apply IH in H. cbn [strict] in *. lia.
  - destruct (P f MT ts) as [[a r1]|] eqn:E; [|discriminate]. apply IH in E. apply IH in H. cbn [strict] in *. lia.
  - destruct ts as [|t r0]; [injection H as <- <-; lia|].
    destruct t; try (injection H as <- <-; lia).
    destruct (lvl o =? 1); [|injection H as <- <-; lia].
    destruct (P f MF r0) as [[b r']|] eqn:E; [|discriminate]. apply IH in E. apply IH in H. cbn [strict List.length] in *. lia.
  - destruct ts as [|t r0]; [injection H as <- <-; lia|].
    destruct t; try (injection H as <- <-; lia).
    destruct (lvl o =? 0); [|injection H as <- <-; lia].
    destruct (P f MT r0) as [[b r']|] eqn:E; [|discriminate]. apply IH in E. apply IH in H. cbn [strict List.length] in *. lia.
Qed.

Ltac setfuel k :=
  match goal with |- P ?F _ _ = _ => replace F with (S k) by (unfold fuel_for, rank; cbn [List.length]; lia) end; cbn [P].

Lemma P_fuel : forall f m ts x, P f m ts = Some x -> P (fuel_for m ts) m ts = Some x.
Proof.
  induction f as [|f IH]; intros m ts x H; [discriminate|].
  assert (LIFT : forall m' ts' x' k, P f m' ts' = Some x' -> fuel_for m' ts' <= k -> P k m' ts' = Some x').
  { intros m' ts' x' k E Hk. apply (P_mono _ _ _ _ (IH _ _ _ E)). exact Hk. }
  cbn [P] in H. destruct m.
  - destruct ts as [|t r0]; [discriminate|]. setfuel (3 * List.length r0 + 3). destruct t; try discriminate; try exact H.
    + destruct o; try discriminate. destruct (P f MF r0) as [[a r']|] eqn:E; [|discriminate].
      rewrite (LIFT _ _ _ (3 * List.length r0 + 3) E) by (unfold fuel_for, rank; lia). exact H.
    + destruct (P f ME r0) as [[a r']|] eqn:E; [|discriminate].
      rewrite (LIFT _ _ _ (3 * List.length r0 + 3) E) by (unfold fuel_for, rank; lia). exact H.
    + destruct (P f ME r0) as [[a r']|] eqn:E; [|discriminate].
      rewrite (LIFT _ _ _ (3 * List.length r0 + 3) E) by (unfold fuel_for, rank; lia). exact H.
    + destruct (P f ME r0) as [[a r']|] eqn:E; [|discriminate].
      rewrite (LIFT _ _ _ (3 * List.length r0 + 3) E) by (unfold fuel_for, rank; lia).
      destruct r' as [|t' r'']; [discriminate|]. destruct t'; try discriminate.
      destruct (P f ME r'') as [[b r3]|] eqn:E2; [|discriminate].
      apply P_progress in E. cbn [strict List.length] in E.
      rewrite (LIFT _ _ _ (3 * List.length r0 + 3) E2) by (unfold fuel_for, rank; lia). exact H.
  - setfuel (3 * List.length ts + 1).
    destruct (P f MF ts) as [[a r1]|] eqn:E; [|discriminate].
    rewrite (LIFT _ _ _ (3 * List.length ts + 1) E) by (unfold fuel_for, rank; lia).
    apply P_progress in E. cbn [strict] in E. apply (LIFT _ _ _ _ H). unfold fuel_for, rank. lia.
  - setfuel (3 * List.length ts + 2).
    destruct (P f MT ts) as [[a r1]|] eqn:E; [|discriminate].
    rewrite (LIFT _ _ _ (3 * List.length ts + 2) E) by (unfold fuel_for, rank; lia).
    apply P_progress in E. cbn [strict] in E. apply (LIFT _ _ _ _ H). unfold fuel_for, rank. lia.
  - setfuel (3 * List.length ts). destruct ts as [|t r0]; [exact H|]. destruct t; try exact H.
    destruct (lvl o =? 1); [|exact H].
    destruct (P f MF r0) as [[b r']|] eqn:E; [|discriminate]. cbn [List.length].
    rewrite (LIFT _ _ _ (3 * S (List.length r0)) E) by (unfold fuel_for, rank; lia).
    apply P_progress in E. cbn [strict] in E. apply (LIFT _ _ _ _ H). unfold fuel_for, rank. lia.
  - setfuel (3 * List.length ts). destruct ts as [|t r0]; [exact H|]. destruct t; try exact H.
    destruct (lvl o =? 0); [|exact H].
    destruct (P f MT r0) as [[b r']|] eqn:E; [|discriminate]. cbn [List.length].
    rewrite (LIFT _ _ _ (3 * S (List.length r0)) E) by (unfold fuel_for, rank; lia).
    apply P_progress in E. cbn [strict] in E. apply (LIFT _ _ _ _ H). unfold fuel_for, rank. lia.
Qed.

(* printing any tree with minimal parentheses and parsing it back gives that tree *)
Theorem parse_print : forall e, parse (print e) = Some e.
Proof.
  intros e. destruct (parse_print_some_fuel e) as [f Hf]. unfold parse, print. rewrite (P_fuel _ _ _ _ Hf). reflexivity.
Qed.

(* ... and with any amount of redundant parentheses around any subexpressions *)
Theorem parse_dprint : forall d, parse (dp 0 d) = Some (erase d).
Proof.
  intros d. destruct (parse_dprint_some_fuel d) as [f Hf]. unfold parse. rewrite (P_fuel _ _ _ _ Hf). reflexivity.
Qed.

Corollary evalp_print : forall r e, evalp r (print e) = eval r e.
Proof. intros r e. unfold evalp. rewrite parse_print. reflexivity. Qed.

(* different trees never print to the same tokens *)
Corollary print_injective : forall e1 e2, print e1 = print e2 -> e1 = e2.
Proof. intros e1 e2 H. pose proof (parse_print e1) as H1. rewrite H, parse_print in H1. congruence. Qed.

(* ---------------------------------------------------------------- digit separators *)
Lemma P_norm : forall f m ts,
  P f m (map norm_tok ts) = match P f m ts with Some (e, r) => Some (e, map norm_tok r) | None => None end.
Proof.
  induction f as [|f IH]; intros m ts; [reflexivity|]. cbn [P]. destruct m.
  - destruct ts as [|t r]; [reflexivity|]. cbn [map]. destruct t; cbn [norm_tok]; try reflexivity.
    + destruct (has_digit l) eqn:E; [reflexivity|]. rewrite E. reflexivity.
    + destruct o; try reflexivity. rewrite IH. destruct (P f MF r) as [[a r']|]; reflexivity.
    + rewrite IH. destruct (P f ME r) as [[a r']|]; [|reflexivity]. destruct r' as [|t' r'']; [reflexivity|].
      destruct t'; cbn [map norm_tok]; try reflexivity. destruct (has_digit l); reflexivity.
    + rewrite IH. destruct (P f ME r) as [[a r']|]; [|reflexivity]. destruct r' as [|t' r'']; [reflexivity|].
      destruct t'; cbn [map norm_tok]; try reflexivity. destruct (has_digit l); reflexivity.
    + rewrite IH. destruct (P f ME r) as [[a r']|]; [|reflexivity]. destruct r' as [|t' r'']; [reflexivity|].
      destruct t'; cbn [map norm_tok]; try reflexivity; [destruct (has_digit l); reflexivity|].
      rewrite IH. destruct (P f ME r'') as [[b r3]|]; [|reflexivity]. destruct r3 as [|t3 r4]; [reflexivity|].
      destruct t3; cbn [map norm_tok]; try reflexivity. destruct (has_digit l); reflexivity.
  - rewrite IH. destruct (P f MF ts) as [[a r]|]; [|reflexivity]. apply IH.
  - rewrite IH. destruct (P f MT ts) as [[a r]|]; [|reflexivity]. apply IH.
  - destruct ts as [|t r]; [reflexivity|]. cbn [map]. destruct t; cbn [norm_tok]; try reflexivity.
    + destruct (has_digit l) eqn:E; cbn [map norm_tok]; rewrite ?E; reflexivity.
    + destruct (lvl o =? 1); [|reflexivity]. rewrite IH. destruct (P f MF r) as [[b r']|]; [|reflexivity]. apply IH.
  - destruct ts as [|t r]; [reflexivity|]. cbn [map]. destruct t; cbn [norm_tok]; try reflexivity.
    + destruct (has_digit l) eqn:E; cbn [map norm_tok]; rewrite ?E; reflexivity.
    + destruct (lvl o =? 0); [|reflexivity]. rewrite IH. destruct (P f MT r) as [[b r']|]; [|reflexivity]. apply IH.
Qed.

(* replacing every well-formed SEPERATED_NUMBER token by the NUMBER token of its value changes nothing *)
Theorem parse_norm : forall ts, parse (map norm_tok ts) = parse ts.
Proof.
  intros ts. unfold parse, fuel_for. rewrite map_length, P_norm.
  destruct (P (3 * List.length ts + rank ME) ME ts) as [[e r]|]; [|reflexivity].
  destruct r; reflexivity.
Qed.

(* ---------------------------------------------------------------- printed trees are sentences of the grammar table *)
Open Scope string_scope.
Ltac inG := cbv; repeat (first [left; reflexivity | right]).

Lemma der_paren G e ts : In ("factor", [Lit "("; NT "expr"; Lit ")"], "") G -> der G "expr" ts e -> der G "factor" (TLP :: ts ++ [TRP]) e.
Proof.
  intros HG H. eapply (der_prod G "factor" _ "" _ [e]); [exact HG| |reflexivity].
  apply ders_lit; [reflexivity|]. apply ders_nt; [exact H|]. apply ders_lit; [reflexivity|]. apply ders_nil.
Qed.

Lemma der_up G a b ts e : In (a, [NT b], "") G -> der G b ts e -> der G a ts e.
Proof.
  intros HG H. eapply (der_prod G a _ "" _ [e]); [exact HG| |reflexivity].
  rewrite <- (app_nil_r ts). apply ders_nt; [exact H|apply ders_nil].
Qed.

Lemma der_bin G lhs l r s alias o a b ta tb :
  In (lhs, [NT l; Lit s; NT r], alias) G -> lit_tok s = Some (TOp o) -> build alias [a; b] = Some (Bin o a b) ->
  der G l ta a -> der G r tb b -> der G lhs (ta ++ TOp o :: tb) (Bin o a b).
Proof.
  intros HG Hs Hb Ha Hb'. eapply (der_prod G lhs _ alias _ [a; b]); [exact HG| |exact Hb].
  apply ders_nt; [exact Ha|]. apply ders_lit; [exact Hs|]. rewrite <- (app_nil_r tb). apply ders_nt; [exact Hb'|apply ders_nil].
Qed.

Theorem print_der_all : forall e,
  der model_productions "factor" (p 2 e) e /\ der model_productions "term" (p 1 e) e /\ der model_productions "expr" (p 0 e) e.
Proof.
  set (G := model_productions).
  assert (UPT : forall ts e, der G "factor" ts e -> der G "term" ts e) by (intros; eapply der_up; [|eassumption]; inG).
  assert (UPE : forall ts e, der G "term" ts e -> der G "expr" ts e) by (intros; eapply der_up; [|eassumption]; inG).
  assert (PAR : forall ts e, der G "expr" ts e -> der G "factor" (TLP :: ts ++ [TRP]) e) by (intros; apply der_paren; [inG|assumption]).
  induction e as [q|v|o a (Fa & Ta & Ea) b (Fb & Tb & Eb)|a (Fa & Ta & Ea)|f a (Fa & Ta & Ea)|g a (Fa & Ta & Ea) b (Fb & Tb & Eb)].
  - assert (HF : der G "factor" [TNum q] (Num q)).
    { eapply (der_prod G "factor" _ "number" _ [Num q]); [inG| |reflexivity]. apply ders_tm; [reflexivity|apply ders_nil]. }
    cbn [p]. auto.
  - assert (HF : der G "factor" [TVar v] (Var v)).
    { eapply (der_prod G "factor" _ "variable" _ [Var v]); [inG| |reflexivity]. apply ders_tm; [reflexivity|apply ders_nil]. }
    cbn [p]. auto.
  - destruct o; cbn [p lvl Nat.ltb Nat.leb].
    + assert (HE : der G "expr" (p 0 a ++ TOp Add :: p 1 b) (Bin Add a b)) by (apply (der_bin G "expr" "expr" "term" "+" "add"); [inG|reflexivity|reflexivity|assumption|assumption]). auto.
    + assert (HE : der G "expr" (p 0 a ++ TOp Sub :: p 1 b) (Bin Sub a b)) by (apply (der_bin G "expr" "expr" "term" "-" "sub"); [inG|reflexivity|reflexivity|assumption|assumption]). auto.
    + assert (HT : der G "term" (p 1 a ++ TOp Mul :: p 2 b) (Bin Mul a b)) by (apply (der_bin G "term" "term" "factor" "*" "mul"); [inG|reflexivity|reflexivity|assumption|assumption]). auto.
    + assert (HT : der G "term" (p 1 a ++ TOp Div :: p 2 b) (Bin Div a b)) by (apply (der_bin G "term" "term" "factor" "/" "div"); [inG|reflexivity|reflexivity|assumption|assumption]). auto.
    + assert (HT : der G "term" (p 1 a ++ TOp IDiv :: p 2 b) (Bin IDiv a b)) by (apply (der_bin G "term" "term" "factor" "//" "int_div"); [inG|reflexivity|reflexivity|assumption|assumption]). auto.
    + assert (HT : der G "term" (p 1 a ++ TOp Gt :: p 2 b) (Bin Gt a b)) by (apply (der_bin G "term" "term" "factor" ">" "gt"); [inG|reflexivity|reflexivity|assumption|assumption]). auto.
    + assert (HT : der G "term" (p 1 a ++ TOp Lt :: p 2 b) (Bin Lt a b)) by (apply (der_bin G "term" "term" "factor" "<" "lt"); [inG|reflexivity|reflexivity|assumption|assumption]). auto.
  - assert (HF : der G "factor" (TOp Sub :: p 2 a) (Neg a)).
    { eapply (der_prod G "factor" _ "neg" _ [a]); [inG| |reflexivity]. apply ders_lit; [reflexivity|].
      rewrite <- (app_nil_r (p 2 a)). apply ders_nt; [assumption|apply ders_nil]. }
    cbn [p]. auto.
  - assert (HF : der G "factor" (TF1 f :: p 0 a ++ [TRP]) (Fn1 f a)).
    { destruct f.
      - eapply (der_prod G "factor" _ "ceil" _ [a]); [inG| |reflexivity]. apply ders_lit; [reflexivity|]. apply ders_nt; [assumption|]. apply ders_lit; [reflexivity|apply ders_nil].
      - eapply (der_prod G "factor" _ "floor" _ [a]); [inG| |reflexivity]. apply ders_lit; [reflexivity|]. apply ders_nt; [assumption|]. apply ders_lit; [reflexivity|apply ders_nil].
      - eapply (der_prod G "factor" _ "apply_attack_speed" _ [a]); [inG| |reflexivity]. apply ders_lit; [reflexivity|]. apply ders_nt; [assumption|]. apply ders_lit; [reflexivity|apply ders_nil]. }
    cbn [p]. auto.
  - assert (HF : der G "factor" (TF2 g :: p 0 a ++ TComma :: p 0 b ++ [TRP]) (Fn2 g a b)).
    { destruct g.
      - eapply (der_prod G "factor" _ "min" _ [a; b]); [inG| |reflexivity]. apply ders_lit; [reflexivity|]. apply ders_nt; [assumption|].
        apply ders_lit; [reflexivity|]. apply ders_nt; [assumption|]. apply ders_lit; [reflexivity|apply ders_nil].
      - eapply (der_prod G "factor" _ "max" _ [a; b]); [inG| |reflexivity]. apply ders_lit; [reflexivity|]. apply ders_nt; [assumption|].
        apply ders_lit; [reflexivity|]. apply ders_nt; [assumption|]. apply ders_lit; [reflexivity|apply ders_nil]. }
    cbn [p]. auto.
Qed.

(* every tree's printed token list is a sentence of the grammar table whose semantic value is that tree *)
Theorem print_der : forall e, der model_productions "start" (print e) e.
Proof.
  intros e. destruct (print_der_all e) as (_ & _ & HE). eapply der_up; [|exact HE]. inG.
Qed.
Close Scope string_scope.
