(* C07 for the modelled classes: a rejection is reported alone and changes nothing. *)
From Coq Require Import ZArith List Bool Lia.
From V.Model Require Import Comp.
Import ListNotations.
Open Scope Z_scope.

Lemma rejected_app a b : rejected (a ++ b) = rejected a || rejected b.
Proof. unfold rejected. apply existsb_app. Qed.
Lemma rejected_repeat_dealt x n : rejected (repeat (dealt x) n) = false.
Proof. induction n; cbn; auto. Qed.
Lemma rejected_map_dealt l : rejected (map dealt l) = false.
Proof. induction l; cbn; auto. Qed.

Ltac norej :=
  repeat (rewrite ?rejected_app, ?rejected_repeat_dealt, ?rejected_map_dealt; cbn [rejected existsb is_reject orb dealt]);
  try reflexivity; try discriminate.

Lemma hl_spec_no_reject p t s : rejected (snd (hl_spec p t s)) = false.
Proof.
  unfold hl_spec. destruct (hit_limited_loop _ _ _ _ _ _) as [[q n]|]; cbn [snd]; [|reflexivity].
  change (EElapsed t :: ?l) with ([EElapsed t] ++ l). norej.
Qed.

Lemma elapse_keydown_no_reject p t s : rejected (snd (elapse_keydown_trait p t s)) = false.
Proof.
  unfold elapse_keydown_trait. destruct (K.resolving (u_kd s) t) as [k' n]. cbn [snd].
  destruct (K.running (u_kd s) && negb (K.running k')); norej.
Qed.

Definition is_stackable_use (c : comp) (m : meth) : bool :=
  match c, m with StackableBuff, MUse => true | _, _ => false end.

(* Every modelled reducer except StackableBuffSkillComponent.use *)
Lemma reject_alone pe hl (Hhl : forall p t s, rejected (snd (hl p t s)) = false) c m p t s s' es :
  is_stackable_use c m = false ->
  reduce pe hl c m p t s = Some (s', es) -> rejected es = true -> es = [EReject] /\ s' = s.
Proof.
  intros Hc H R.
  destruct c, m; cbn [reduce is_stackable_use] in H, Hc; try discriminate;
    unfold use_simple_attack, elapse_simple_attack, use_multiple_damage, use_buff_trait, elapse_buff_trait,
      use_consumable_buff_trait, elapse_consumable_buff_trait, elapse_periodic_with, use_periodic_with_simple,
      use_periodic, use_keydown_trait, stop_keydown_trait, ignore_rejected, triple_elapse in H;
    repeat match type of H with
      | context [if ?b then _ else _] => destruct b eqn:?
      end;
    cbn [fst snd] in H;
    try (injection H as <- <-; first [ split; reflexivity | exfalso; revert R; norej ]).
  - (* hit limited elapse *)
    injection H as H. pose proof (Hhl p t s) as X. rewrite H in X. cbn [snd] in X. congruence.
  - (* keydown elapse *)
    injection H as H. pose proof (elapse_keydown_no_reject p t s) as X. rewrite H in X. cbn [snd] in X. congruence.
Qed.

Lemma reject_alone_spec c m p t s s' es :
  is_stackable_use c m = false ->
  reduce_spec c m p t s = Some (s', es) -> rejected es = true -> es = [EReject] /\ s' = s.
Proof. apply reject_alone. apply hl_spec_no_reject. Qed.

(* ignore_rejected variant: never reports a rejection; when the skill is not ready it returns
   no event at all and the unchanged state *)
Lemma ignore_reject_silent p t s s' es :
  reduce_spec AttackSkill MUseIgnoreReject p t s = Some (s', es) ->
  rejected es = false /\ (0 < u_cd s -> es = [] /\ s' = s).
Proof.
  cbn. unfold use_simple_attack, ignore_rejected, avail. intros H.
  destruct (u_cd s <=? 0) eqn:E; cbn in H; injection H as <- <-; split; try reflexivity; intros; try lia.
  split; reflexivity.
Qed.

(* Using a cooldown skill that is not ready is a no-op reported as one rejection *)
Definition cooldown_kind (c : comp) : bool :=
  match c with ConsumableBuffSkill | StackableBuff => false | _ => true end.
Lemma not_ready_noop c p t s :
  cooldown_kind c = true -> 0 < u_cd s -> reduce_spec c MUse p t s = Some (s, [EReject]).
Proof.
  intros Hc Hcd. assert (A : avail s = false) by (unfold avail; apply Z.leb_gt; lia).
  destruct c; try discriminate; cbn;
    unfold use_simple_attack, use_multiple_damage, use_buff_trait, use_periodic_with_simple, use_periodic, use_keydown_trait;
    rewrite ?A; cbn; reflexivity.
Qed.
Lemma consumable_not_ready_noop p t s :
  C.stack (u_cons s) <= 0 -> reduce_spec ConsumableBuffSkill MUse p t s = Some (s, [EReject]).
Proof.
  intros H. cbn. unfold use_consumable_buff_trait, C.available.
  replace (0 <? C.stack (u_cons s)) with false by (symmetry; apply Z.ltb_ge; lia). reflexivity.
Qed.

(* StackableBuffSkillComponent.use as shipped: the rejection is alone, but the stack entity is
   changed before the availability test.  Largest true sub-statement + the witness. *)
Lemma stackable_reject_partial p t s s' es :
  reduce_spec StackableBuff MUse p t s = Some (s', es) -> rejected es = true ->
  es = [EReject] /\ set_stk s' (u_stk s) = s.
Proof.
  cbn. unfold use_buff_trait. intros H R.
  set (s0 := if u_ltl s <=? 0 then set_stk s 0 else s) in *.
  set (s1 := set_stk s0 _) in *.
  destruct (negb (avail s1)) eqn:E; injection H as <- <-; [|exfalso; revert R; cbn; discriminate].
  split; [reflexivity|]. subst s1 s0. destruct s as [a1 a2 a3 a4 a5 a6 a7 a8 a9 a10 a11 a12 a13]. cbn [u_ltl]. destruct (a3 <=? 0); reflexivity.
Qed.

Definition stk_witness_state : ust :=
  mkU 1000 0 500 500 (C.mkC 1 1 1 1) (P.mkP 1 1 0 0) (P.mkP 1 1 0 0) (P.mkP 1 1 0 0) None None None (K.mkK 1 0 (-1)) 1.
Definition stk_witness_par : par :=
  mkPar false (0,0) 0 1000 0 500 500 0%nat [] (0,0) (0,0) (0,0) (0,0) 0 (0,0) 0 0 0 3 (0,0).
Lemma stackable_reject_refuted :
  exists p s s' es, reduce_spec StackableBuff MUse p 0 s = Some (s', es) /\ rejected es = true /\ s' <> s.
Proof.
  exists stk_witness_par, stk_witness_state. eexists. eexists. split; [vm_compute; reflexivity|].
  split; [reflexivity|]. intros H. apply (f_equal u_stk) in H. vm_compute in H. discriminate.
Qed.

(* Non-vacuity: a rejecting use exists for an ordinary class *)
Example reject_happens :
  reduce_spec AttackSkill MUse stk_witness_par 0 stk_witness_state = Some (stk_witness_state, [EReject]).
Proof. reflexivity. Qed.

(* The dispatcher appends ACCEPT only when neither ACCEPT nor REJECT is present, and writes
   back the returned state: with the lemma above, a rejected action leaves the store's
   entities as they were and is not acknowledged. *)
Definition accept_appended (es : list ev) : bool := negb (rejected es).
Lemma rejected_not_accepted es : rejected es = true -> accept_appended es = false.
Proof. unfold accept_appended. intros ->. reflexivity. Qed.
