From Coq Require Import ZArith Lia Bool.
Open Scope Z_scope.
Ltac Zify.zify_post_hook ::= Z.to_euclidean_division_equations.
From V.Model Require Export EConsumable.

Lemma loop_spec : forall fuel mx cdv t s, 0 < cdv -> 0 <= s <= mx -> t <= cdv ->
  (Z.to_nat ((- t) / cdv + 1) < fuel)%nat ->
  let '(t', s') := loop fuel mx cdv t s in
  0 < t' <= cdv /\ 0 <= s' <= mx /\
  ((s' < mx /\ s' * cdv - t' = s * cdv - t) \/ (s' = mx /\ mx * cdv - cdv <= s * cdv - t)).
Proof.
  induction fuel as [|f IH]; intros mx cdv t s Hc Hs Ht Hf; [lia|]. cbn [loop].
  destruct (t <=? 0) eqn:E.
  - apply Z.leb_le in E. assert (Hf' : (Z.to_nat (- (t + cdv) / cdv + 1) < f)%nat).
    { assert (- (t + cdv) / cdv = - t / cdv - 1) by (replace (- (t + cdv)) with (- t + (-1) * cdv) by lia; rewrite Z.div_add by lia; lia).
      assert (0 <= - t / cdv) by (apply Z.div_pos; lia). lia. }
    specialize (IH mx cdv (t + cdv) (Z.min (s + 1) mx) Hc ltac:(lia) ltac:(lia) Hf').
    destruct (loop f mx cdv (t + cdv) (Z.min (s + 1) mx)) as [t' s'].
    destruct IH as (A & B & [[D1 D2]|[D1 D2]]); repeat split; try lia.
    + destruct (Z.min_spec (s + 1) mx) as [[M1 M2]|[M1 M2]]; rewrite M2 in D2.
      * left. split; [lia|]. nia.
      * exfalso. nia.
    + right. split; [lia|]. destruct (Z.min_spec (s + 1) mx) as [[M1 M2]|[M1 M2]]; rewrite M2 in D2; nia.
  - apply Z.leb_gt in E. repeat split; try lia. destruct (Z.eq_dec s mx); [right|left]; split; try lia; try nia.
Qed.

Lemma elapse_abs c time : wf c -> 0 <= time -> wf (elapse c time) /\ absn (elapse c time) = Z.min (absn c + time) (cap c)
   /\ maxs (elapse c time) = maxs c /\ cd (elapse c time) = cd c.
Proof.
  intros (Hc & Hs & Ht & Hfull) Htime. unfold elapse.
  pose proof (loop_spec (S (Z.to_nat ((time - tl c) / cd c + 1))) (maxs c) (cd c) (tl c - time) (stack c) Hc Hs ltac:(lia)) as X.
  replace (- (tl c - time)) with (time - tl c) in X by lia. specialize (X ltac:(lia)).
  destruct (loop _ (maxs c) (cd c) (tl c - time) (stack c)) as [t1 s1].
  destruct X as (A & B & D). unfold wf, absn, cap; cbn [maxs stack cd tl].
  destruct (s1 =? maxs c) eqn:E.
  - apply Z.eqb_eq in E. subst s1.
    destruct D as [[D1 _]|[_ D2]]; [lia|]. repeat split; try lia; try nia.
  - apply Z.eqb_neq in E. destruct D as [[D1 D2]|[D1 _]]; [|lia]. repeat split; try lia; try nia.
Qed.

Lemma abs_inj c1 c2 : wf c1 -> wf c2 -> maxs c1 = maxs c2 -> cd c1 = cd c2 -> absn c1 = absn c2 -> c1 = c2.
Proof.
  intros (Hc1 & Hs1 & Ht1 & Hf1) (Hc2 & Hs2 & Ht2 & Hf2) Hm Hcd Ha.
  destruct c1 as [m1 s1 d1 t1], c2 as [m2 s2 d2 t2]. unfold absn in Ha. cbn in *. subst m2 d2.
  assert (s1 = s2) by nia. subst s2. assert (t1 = t2) by lia. subst. reflexivity.
Qed.

Theorem elapse_additive c a b : wf c -> 0 <= a -> 0 <= b -> elapse (elapse c a) b = elapse c (a + b).
Proof.
  intros W Ha Hb.
  destruct (elapse_abs c a W Ha) as (W1 & A1 & M1 & D1).
  destruct (elapse_abs (elapse c a) b W1 Hb) as (W2 & A2 & M2 & D2).
  destruct (elapse_abs c (a + b) W ltac:(lia)) as (W3 & A3 & M3 & D3).
  apply abs_inj; auto; try congruence.
  rewrite A2, A3, A1. unfold cap. rewrite M1, D1. lia.
Qed.
