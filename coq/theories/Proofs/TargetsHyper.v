(* C19 (real targets) -- the two targets whose state indexes a table per slot: HyperstatTarget and UnionOccupationTarget.
   Everything is about the GENERATED definitions of gen/Targets.v (HyperstatTarget_get_value, Hyperstat_get_stat,
   Hyperstat_get_current_cost, UnionOccupation_get_stat, ...) and the generated tables. *)
From Coq Require Import List ZArith QArith Qminmax Bool String Lia Lqa Arith.
From V.Model Require Import Greedy TargetsRt Targets.
From V.Proofs Require Import DamageMono StatLaws TargetsGen GreedyP GreedyCoded.
From G Require Import CoreQ Targets.
Import ListNotations.
Open Scope Q_scope.

(* ================================================================== hyper stat *)
Definition hyper_costs := Hyperstat_cost get_kms_hyperstat.

Lemma hyper_term_spec a n : hyper_term (a, Z.of_nat n) = nth_error (snd a) n.
Proof. unfold hyper_term. cbn [fst snd]. apply py_index_nat. Qed.

Lemma hyper_caps_eq : hyper_caps = caps_of (fun a : string * list Stat => snd a) hyper_opts.
Proof. reflexivity. Qed.

(* the generated get_value, unfolded once: the assertion of get_level_rearranged, then the sum of the indexed options *)
Lemma hyper_value_opt_eq L default armor st :
  hyper_value_opt L default armor st =
  if (py_len (zs st) =? py_len hyper_opts)%Z then
    match sumM Stat_add (map hyper_term (combine hyper_opts (zs st))) Stat_zero with
    | Some t => Some (logic_df L (Stat_add default t) armor)
    | None => None
    end
  else None.
Proof.
  unfold hyper_value_opt, hyper_target, hyper_opts.
  cbv beta iota zeta delta [HyperstatTarget_get_value HyperstatTarget__get_hyperstat HyperstatTarget_set_state
    HyperstatTarget_with_state HyperstatTarget_init HyperstatTarget__hyperstat_prototype HyperstatTarget_state
    HyperstatTarget_default_stat HyperstatTarget_damage_logic HyperstatTarget_armor Hyperstat_get_level_rearranged
    Hyperstat_length Hyperstat_get_stat].
  destruct (py_len (zs st) =? py_len (Hyperstat_options get_kms_hyperstat))%Z; [|reflexivity].
  cbn [Hyperstat_options Hyperstat_levels].
  rewrite <- mapM_sum.
  rewrite (py_mapM_ext _ hyper_term).
  - destruct (py_mapM hyper_term _); reflexivity.
  - intros [[p o] lv]. unfold hyper_term. cbn [fst snd]. destruct (py_index o lv); reflexivity.
Qed.

Lemma hyper_len_ok st : (py_len (zs st) =? py_len hyper_opts)%Z = (List.length st =? List.length hyper_opts)%nat.
Proof.
  rewrite !py_len_length, zs_length.
  destruct (Nat.eqb_spec (List.length st) (List.length hyper_opts)) as [E|N].
  - rewrite E. apply Z.eqb_refl.
  - apply Z.eqb_neq. lia.
Qed.

Definition hyper_tables_fact : Prop :=
  Forall (fun a : string * list Stat => table_ok (snd a) /\ snd a <> []) hyper_opts /\
  Forall (fun c => (0 <= c)%Z) hyper_costs.

Lemma hyper_tables_ok_true : hyper_tables_ok = true.
Proof. vm_compute. reflexivity. Qed.

Lemma hyper_tables : hyper_tables_fact.
Proof.
  pose proof hyper_tables_ok_true as H. unfold hyper_tables_ok in H. apply andb_prop in H. destruct H as [H1 H2]. split.
  - apply Forall_forall. intros a Ha. rewrite forallb_forall in H1. specialize (H1 a Ha).
    apply andb_prop in H1. destruct H1 as [C N]. split; [apply chain_ok_sound, C|].
    intros E. rewrite E in N. discriminate.
  - apply Forall_forall. intros c Hc. unfold costs_ok in H2. rewrite forallb_forall in H2.
    apply Z.leb_le, H2, Hc.
Qed.

(* value: defined, non-negative and monotone within the tables *)
Lemma hyper_value_mono L default armor st st' :
  logic_wf L -> good default -> 0 <= armor -> 0 <= logic_armor_factor L default armor ->
  le_state st st' -> within hyper_caps st' ->
  exists v v', hyper_value_opt L default armor st = Some v /\ hyper_value_opt L default armor st' = Some v' /\
               0 <= v /\ v <= v'.
Proof.
  intros Hw Gd Ha Hf [Ll Hl] W.
  rewrite !hyper_value_opt_eq, !hyper_len_ok.
  rewrite hyper_caps_eq in W.
  pose proof (within_length _ _ W) as Lw. unfold caps_of in Lw. rewrite map_length in Lw.
  rewrite Ll, Lw, Nat.eqb_refl.
  destruct hyper_tables as [T _].
  pose proof (indexed_terms_le (fun a : string * list Stat => snd a) hyper_term hyper_term_spec hyper_opts T st st' Ll Hl W) as TL.
  destruct (sumM_add_le _ _ TL Stat_zero Stat_zero good_zero good_zero (Stat_le_refl _)) as (r & r' & E & E' & G & G' & Hr).
  rewrite E, E'. eexists. eexists. split; [reflexivity|]. split; [reflexivity|].
  apply objective_le; assumption.
Qed.

(* ------------------------------------------------------------------ cost *)
(* cumulative cost of a level: sum(cost[:n]) *)
Definition cfl (n : nat) : Z := py_sum_Z (firstn n hyper_costs).
Definition hcost (st : state) : Z := py_sum_Z (map cfl st).

Lemma hyper_cost_opt_eq st :
  hyper_cost_opt st = if (List.length st =? List.length hyper_opts)%nat then Some (hcost st) else None.
Proof.
  unfold hyper_cost_opt, hyper_target.
  cbv beta iota zeta delta [HyperstatTarget_get_cost HyperstatTarget__get_hyperstat HyperstatTarget_set_state
    HyperstatTarget_with_state HyperstatTarget_init HyperstatTarget__hyperstat_prototype HyperstatTarget_state
    Hyperstat_get_level_rearranged Hyperstat_length].
  fold hyper_opts. rewrite hyper_len_ok.
  destruct (List.length st =? List.length hyper_opts)%nat; [|reflexivity].
  f_equal. unfold Hyperstat_get_current_cost, Hyperstat_get_cost_for_level. cbn [Hyperstat_cost Hyperstat_levels].
  fold hyper_costs. unfold hcost, zs. rewrite map_map. f_equal. apply map_ext. intros n.
  unfold cfl, py_slice_to. destruct (Z.leb_spec 0 (Z.of_nat n)); [|lia]. rewrite Nat2Z.id. reflexivity.
Qed.

Lemma In_firstn {A} : forall n (l : list A) x, In x (firstn n l) -> In x l.
Proof. induction n as [|n IH]; intros [|y l] x H; cbn in *; try tauto. destruct H as [->|H]; [tauto|]. right. apply IH, H. Qed.

Lemma firstn_sum_mono : forall (l : list Z), Forall (fun c => (0 <= c)%Z) l ->
  forall n m, (n <= m)%nat -> (0 <= py_sum_Z (firstn n l) <= py_sum_Z (firstn m l))%Z.
Proof.
  induction l as [|x l IH]; intros F n m H.
  - rewrite !firstn_nil. rewrite py_sum_Z_nil. lia.
  - inversion F; subst. destruct n as [|n].
    + cbn [firstn]. rewrite py_sum_Z_nil. split; [lia|]. apply py_sum_Z_nonneg.
      apply Forall_forall. intros c Hc. rewrite Forall_forall in F. apply F. eapply In_firstn. exact Hc.
    + destruct m as [|m]; [lia|]. cbn [firstn]. rewrite !py_sum_Z_cons.
      specialize (IH H3 n m ltac:(lia)). lia.
Qed.

Lemma cfl_mono n m : (n <= m)%nat -> (0 <= cfl n <= cfl m)%Z.
Proof. intros H. apply firstn_sum_mono; [apply hyper_tables|exact H]. Qed.

Lemma hcost_nonneg : forall st, (0 <= hcost st)%Z.
Proof.
  intros st. unfold hcost. apply py_sum_Z_nonneg. apply Forall_forall. intros c Hc. apply in_map_iff in Hc.
  destruct Hc as (n & <- & _). apply (cfl_mono n n (Nat.le_refl n)).
Qed.

Lemma hcost_mono : forall st st', List.length st = List.length st' -> (forall i, (nth i st 0 <= nth i st' 0)%nat) ->
  (hcost st <= hcost st')%Z.
Proof.
  induction st as [|x st IH]; intros [|y st'] L H; try (cbn in L; discriminate L).
  - apply Z.le_refl.
  - unfold hcost in *. cbn [map]. rewrite !py_sum_Z_cons.
    assert (x <= y)%nat by apply (H 0%nat). pose proof (cfl_mono x y ltac:(assumption)).
    assert (py_sum_Z (map cfl st) <= py_sum_Z (map cfl st'))%Z.
    { apply IH; [cbn in L; lia|]. intros i. apply (H (S i)). }
    lia.
Qed.

(* a state that leaves a table costs at least hyper_cost_beyond_tables *)
Definition hyper_cap : nat := fold_right Nat.max 0%nat hyper_caps.

Lemma hyper_beyond_eq : hyper_cost_beyond_tables = cfl (S hyper_cap).
Proof.
  unfold hyper_cost_beyond_tables, Hyperstat_get_cost_for_level. fold hyper_cap. fold hyper_costs.
  unfold cfl, py_slice_to. destruct (Z.leb_spec 0 (Z.of_nat (S hyper_cap))); [|lia]. rewrite Nat2Z.id. reflexivity.
Qed.

Lemma hcost_small_levels : forall st, (hcost st < cfl (S hyper_cap))%Z -> Forall (fun x => (x <= hyper_cap)%nat) st.
Proof.
  induction st as [|x st IH]; intros H; [constructor|].
  unfold hcost in H. cbn [map] in H. rewrite py_sum_Z_cons in H. fold (hcost st) in H.
  pose proof (hcost_nonneg st). pose proof (cfl_mono x x (Nat.le_refl x)).
  constructor.
  - destruct (le_lt_dec x hyper_cap) as [Hx|Hx]; [exact Hx|].
    pose proof (cfl_mono (S hyper_cap) x ltac:(lia)). lia.
  - apply IH. lia.
Qed.

Lemma hyper_caps_uniform : forallb (fun c => (hyper_cap <=? c)%nat) hyper_caps = true.
Proof. vm_compute. reflexivity. Qed.

Lemma within_uniform : forall caps st m, List.length st = List.length caps -> Forall (fun x => (x <= m)%nat) st ->
  Forall (fun c => (m <= c)%nat) caps -> within caps st.
Proof.
  induction caps as [|c caps IH]; intros [|x st] m L F C; try (cbn in L; discriminate L); [exact I|].
  inversion F; subst. inversion C; subst. split; [lia|]. apply (IH st m); [cbn in L; lia|assumption|assumption].
Qed.

Lemma hyper_cheap_within st : List.length st = List.length hyper_opts -> (hcost st < hyper_cost_beyond_tables)%Z ->
  within hyper_caps st.
Proof.
  intros L H. rewrite hyper_beyond_eq in H. apply (within_uniform hyper_caps st hyper_cap).
  - rewrite L. unfold hyper_caps. rewrite map_length. reflexivity.
  - apply hcost_small_levels, H.
  - apply Forall_forall. intros c Hc. pose proof hyper_caps_uniform as U. rewrite forallb_forall in U.
    apply Nat.leb_le, U, Hc.
Qed.

(* the total objective and cost handed to Model/Greedy.v *)
Lemma hyper_cost_total st :
  hyper_cost st = if (List.length st =? List.length hyper_opts)%nat then qz (hcost st) else qz 0.
Proof. unfold hyper_cost. rewrite hyper_cost_opt_eq. destruct (List.length st =? List.length hyper_opts)%nat; reflexivity. Qed.

Lemma hyper_value_wrong_length L default armor st : List.length st <> List.length hyper_opts ->
  hyper_value L default armor st = 0.
Proof.
  intros N. unfold hyper_value. rewrite hyper_value_opt_eq, hyper_len_ok.
  apply Nat.eqb_neq in N. rewrite N. reflexivity.
Qed.

(* cost never falls along a raise *)
Lemma hyper_cost_mono st st' : le_state st st' -> hyper_cost st <= hyper_cost st'.
Proof.
  intros [L H]. rewrite !hyper_cost_total, L. destruct (List.length st' =? List.length hyper_opts)%nat; [|apply Qle_refl].
  apply inject_Z_le, hcost_mono; assumption.
Qed.

(* the objective does not fall along any step whose result is affordable below the end of the tables *)
Lemma hyper_step_mono L default armor budget s s' :
  logic_wf L -> good default -> 0 <= armor -> 0 <= logic_armor_factor L default armor ->
  budget < qz hyper_cost_beyond_tables ->
  le_state s s' -> hyper_cost s' <= budget ->
  hyper_value L default armor s <= hyper_value L default armor s'.
Proof.
  intros Hw Gd Ha Hf Hb Hle Hc.
  destruct (Nat.eq_dec (List.length s') (List.length hyper_opts)) as [E|N].
  - assert (W : within hyper_caps s').
    { apply hyper_cheap_within; [exact E|]. rewrite hyper_cost_total in Hc. apply Nat.eqb_eq in E. rewrite E in Hc.
      unfold qz in *. rewrite Zlt_Qlt. lra. }
    destruct (hyper_value_mono L default armor s s' Hw Gd Ha Hf Hle W) as (v & v' & E1 & E2 & _ & Hv).
    unfold hyper_value. rewrite E1, E2. exact Hv.
  - rewrite (hyper_value_wrong_length _ _ _ s' N). rewrite hyper_value_wrong_length; [apply Qle_refl|].
    destruct Hle as [Ls _]. congruence.
Qed.

(* ------------------------------------------------------------------ never worse, budget, bounds, presets *)
Theorem hyper_never_worse L default armor budget step_size max_iter st st' k :
  logic_wf L -> good default -> 0 <= armor -> 0 <= logic_armor_factor L default armor ->
  budget < qz hyper_cost_beyond_tables ->
  optimize_coded (hyper_value L default armor) hyper_cost hyper_M budget step_size max_iter st = Done st' k ->
  hyper_value L default armor st <= hyper_value L default armor st'.
Proof.
  intros Hw Gd Ha Hf Hb R. unfold optimize_coded in R.
  eapply (run_never_worse (hyper_value L default armor) hyper_cost (fun _ => hyper_M) budget); [|exact R].
  intros s inc s' (_ & _ & Hs & Hc & _). apply (hyper_step_mono L default armor budget); try assumption.
  eapply stepped_le. exact Hs.
Qed.

(* every budget the code derives from a character level is below the end of the tables *)
Lemma hyper_max_budget_300 : (max_budget_upto 300 < hyper_cost_beyond_tables)%Z.
Proof. vm_compute. reflexivity. Qed.

Lemma fold_max_ge : forall (l : list Z) x, In x l -> (x <= fold_right Z.max 0 l)%Z.
Proof.
  induction l as [|y l IH]; intros x H; [destruct H|]. cbn [fold_right]. destruct H as [->|H]; [lia|].
  specialize (IH x H). lia.
Qed.

Lemma hyper_level_budget lv : (lv <= 300)%nat ->
  (Hyperstat_get_maximum_cost_from_level (Z.of_nat lv) < hyper_cost_beyond_tables)%Z.
Proof.
  intros H. eapply Z.le_lt_trans; [|apply hyper_max_budget_300].
  unfold max_budget_upto. apply fold_max_ge. apply in_map_iff. exists lv. split; [reflexivity|]. apply in_seq. lia.
Qed.

(* ================================================================== union occupation *)
Definition occ_tab (row : list (Stat * ActionStat)) : list Stat := map fst row.
Lemma occ_term_spec a n : occ_term (a, Z.of_nat n) = nth_error (occ_tab a) n.
Proof.
  unfold occ_term, occ_tab. cbn [fst snd]. rewrite py_index_nat, nth_error_map. destruct (nth_error a n); reflexivity.
Qed.

Lemma occ_caps_eq : occ_caps = caps_of occ_tab occ_rows.
Proof. unfold occ_caps, caps_of, occ_tab, occ_rows. apply map_ext. intros r. rewrite map_length. reflexivity. Qed.

Lemma occ_value_opt_eq L default armor st :
  occ_value_opt L default armor st =
  if (List.length st =? List.length occ_rows)%nat then
    match sumM Stat_add (map occ_term (combine occ_rows (zs st))) Stat_zero with
    | Some t => Some (logic_df L (Stat_add default t) armor)
    | None => None
    end
  else None.
Proof.
  unfold occ_value_opt, occ_target, occ_proto.
  cbv beta iota zeta delta [UnionOccupationTarget_get_value UnionOccupationTarget__get_union_occupation
    UnionOccupationTarget_set_state UnionOccupationTarget_with_state UnionOccupationTarget_init
    UnionOccupationTarget__union_occupation_prototype UnionOccupationTarget_state UnionOccupationTarget_default_stat
    UnionOccupationTarget_damage_logic UnionOccupationTarget_armor UnionOccupation_get_occupation_rearranged
    UnionOccupation_length UnionOccupation_get_stat].
  cbn [UnionOccupation_occupation_value UnionOccupation_occupation_state]. fold occ_rows.
  assert (E : (py_len (zs st) =? py_len occ_rows)%Z = (List.length st =? List.length occ_rows)%nat).
  { rewrite !py_len_length, zs_length. destruct (Nat.eqb_spec (List.length st) (List.length occ_rows)) as [E|N].
    - rewrite E. apply Z.eqb_refl.
    - apply Z.eqb_neq. lia. }
  rewrite E. destruct (List.length st =? List.length occ_rows)%nat; [|reflexivity].
  cbn [UnionOccupation_occupation_value UnionOccupation_occupation_state].
  rewrite <- mapM_sum. rewrite (py_mapM_ext _ occ_term).
  - destruct (py_mapM occ_term _); reflexivity.
  - intros [row lv]. unfold occ_term. cbn [fst snd]. destruct (py_index row lv); reflexivity.
Qed.

Lemma occ_tables_ok_true : occ_tables_ok = true.
Proof. vm_compute. reflexivity. Qed.

Lemma occ_tables : Forall (fun a => table_ok (occ_tab a) /\ occ_tab a <> []) occ_rows.
Proof.
  pose proof occ_tables_ok_true as H. unfold occ_tables_ok in H. apply Forall_forall. intros a Ha.
  rewrite forallb_forall in H. specialize (H a Ha). apply andb_prop in H. destruct H as [C N]. split.
  - apply chain_ok_sound, C.
  - unfold occ_tab. intros E. apply (f_equal (@List.length Stat)) in E. rewrite map_length in E. rewrite E in N. discriminate.
Qed.

Lemma occ_value_mono L default armor st st' :
  logic_wf L -> good default -> 0 <= armor -> 0 <= logic_armor_factor L default armor ->
  le_state st st' -> within occ_caps st' ->
  exists v v', occ_value_opt L default armor st = Some v /\ occ_value_opt L default armor st' = Some v' /\
               0 <= v /\ v <= v'.
Proof.
  intros Hw Gd Ha Hf [Ll Hl] W.
  rewrite !occ_value_opt_eq. rewrite occ_caps_eq in W.
  pose proof (within_length _ _ W) as Lw. unfold caps_of in Lw. rewrite map_length in Lw.
  rewrite Ll, Lw, Nat.eqb_refl.
  pose proof (indexed_terms_le occ_tab occ_term occ_term_spec occ_rows occ_tables st st' Ll Hl W) as TL.
  destruct (sumM_add_le _ _ TL Stat_zero Stat_zero good_zero good_zero (Stat_le_refl _)) as (r & r' & E & E' & G & G' & Hr).
  rewrite E, E'. eexists. eexists. split; [reflexivity|]. split; [reflexivity|].
  apply objective_le; assumption.
Qed.

Lemma occ_cost_eq st : occ_cost st = qz (py_sum_Z (zs st)).
Proof. reflexivity. Qed.

Lemma occ_caps_ge_M : forallb (fun c => (occ_M <=? c)%nat) occ_caps = true.
Proof. vm_compute. reflexivity. Qed.

Lemma occ_value_outside L default armor st : ~ within occ_caps st -> occ_value L default armor st = 0.
Proof.
  intros N. unfold occ_value. rewrite occ_value_opt_eq.
  destruct (Nat.eqb_spec (List.length st) (List.length occ_rows)) as [E|_]; [|reflexivity].
  (* some slot is beyond its table: that term raises *)
  assert (X : sumM Stat_add (map occ_term (combine occ_rows (zs st))) Stat_zero = None); [|rewrite X; reflexivity].
  rewrite occ_caps_eq in N. clear L default armor. revert st E N. generalize Stat_zero.
  induction occ_rows as [|row rows IH]; intros acc [|x st] E N; try discriminate.
  - exfalso. apply N. exact I.
  - unfold zs. cbn [map combine]. unfold sumM. cbn [py_foldM]. rewrite occ_term_spec.
    destruct (nth_error (occ_tab row) x) as [u|] eqn:Ex; [|reflexivity].
    fold (sumM Stat_add (map occ_term (combine rows (zs st))) (Stat_add acc u)).
    apply IH; [cbn in E; lia|]. intros W. apply N. cbn [caps_of map within]. split; [|exact W].
    assert (x < List.length (occ_tab row))%nat by (apply nth_error_Some; congruence). lia.
Qed.

Lemma occ_step_mono L default armor s inc s' :
  logic_wf L -> good default -> 0 <= armor -> 0 <= logic_armor_factor L default armor ->
  stepped (fun _ => occ_M) s inc = Some s' ->
  occ_value L default armor s <= occ_value L default armor s'.
Proof.
  intros Hw Gd Ha Hf Hs.
  pose proof (stepped_le _ _ _ _ Hs) as Hle. pose proof (stepped_bound _ _ _ _ Hs) as Hb.
  destruct (within_b occ_caps s') eqn:W'.
  - apply within_b_iff in W'.
    destruct (occ_value_mono L default armor s s' Hw Gd Ha Hf Hle W') as (v & v' & E1 & E2 & _ & Hv).
    unfold occ_value. rewrite E1, E2. exact Hv.
  - assert (N' : ~ within occ_caps s') by (intros W; apply within_b_iff in W; congruence).
    rewrite (occ_value_outside _ _ _ s' N').
    assert (N : ~ within occ_caps s).
    { intros W. apply N'. destruct Hle as [Ls _]. apply (within_raise occ_caps s s' occ_M W Ls Hb).
      apply Forall_forall. intros c Hc. pose proof occ_caps_ge_M as U. rewrite forallb_forall in U. apply Nat.leb_le, U, Hc. }
    rewrite (occ_value_outside _ _ _ s N). apply Qle_refl.
Qed.

Theorem occ_never_worse L default armor budget step_size max_iter st st' k :
  logic_wf L -> good default -> 0 <= armor -> 0 <= logic_armor_factor L default armor ->
  optimize_coded (occ_value L default armor) occ_cost occ_M budget step_size max_iter st = Done st' k ->
  occ_value L default armor st <= occ_value L default armor st'.
Proof.
  intros Hw Gd Ha Hf R.
  eapply (coded_never_worse (occ_value L default armor) occ_cost occ_M budget step_size max_iter); [|exact R].
  intros s inc s' Hs. eapply occ_step_mono; eassumption.
Qed.

(* the cost sum(state) rises by exactly the number of raises: strictly along every non-empty increment *)
Lemma stepped_sum : forall M inc st st', stepped (fun _ => M) st inc = Some st' -> Forall (fun i => (i < List.length st)%nat) inc ->
  py_sum_Z (zs st') = (py_sum_Z (zs st) + Z.of_nat (List.length inc))%Z.
Proof.
  induction inc as [|i r IH]; intros st st' H F.
  - cbn in H. inversion H; subst. cbn [List.length]. lia.
  - cbn [stepped] in H. destruct (M <? nth i (bump st i) 0)%nat; [discriminate|].
    inversion F; subst. rewrite (IH _ _ H).
    + rewrite sum_zs_bump by assumption. cbn [List.length]. lia.
    + rewrite bump_length. assumption.
Qed.
