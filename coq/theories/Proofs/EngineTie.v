(* The stateful glue of the engine as GENERATED from simaple/simulate/engine.py + policy/base.py (gen/EngineSrc.v, by
   tools/tr_engine.py; it uses gen/HistorySrc.v and gen/HandlersSrc.v) is exec / rollback / reload of Model/Engine.v. *)
From Coq Require Import List ZArith.
Import ListNotations.
From V Require Import Lib.PyHist Lib.PyGen Model.Engine Proofs.HistoryTie Proofs.HandlersTie.
From G Require Import HistorySrc HandlersSrc EngineSrc.

Section Tie.
  Variables St Ev Act Ck H T D Name : Type.
  Variable play : St -> Act -> St * list Ev.
  Variable save : St -> Ck.
  Variable restore : Ck -> St.
  Variable clock : St -> T.
  Variable inspect : Name -> St -> D.
  Variable mk_act : Name -> meth -> option T -> Act.
  Variable star : Name.
  Variable ev_name : Ev -> Name.
  Variable ev_delay : Ev -> option T.
  Variable name_eqb : Name -> Name -> bool.
  Variable tzero : T.
  Variables tpos tis0 : T -> bool.
  Variable H0 : H.
  Variable hashf : H -> cmd T Name -> list (T * Act * list Ev) -> H.
  Notation eng := (eng St Ev Act Ck H T D Name).

  Lemma src_current_store_is_current_store (e : eng) :
    src_current_store St Ev Act Ck H T D Name restore (logs _ _ _ _ _ _ _ _ e) (cache _ _ _ _ _ _ _ _ e)
    = current_store St Ev Act Ck H T D Name restore e.
  Proof.
    unfold src_current_store, current_store. destruct (cache _ _ _ _ _ _ _ _ e); [reflexivity|].
    rewrite src_current_ckpt_is_last_checkpoint. destruct (last_plog _ _ _ _ _ _ _ _); reflexivity.
  Qed.

  Theorem src_exec_is_exec (e : eng) (c : cmd T Name) :
    src_exec St Ev Act Ck H T D Name play save restore clock inspect mk_act star ev_name ev_delay name_eqb tzero tpos tis0 H0 hashf e c
    = exec St Ev Act Ck H T D Name play save restore clock inspect mk_act star ev_name ev_delay name_eqb tzero tpos tis0 H0 hashf e c.
  Proof.
    unfold src_exec, exec. destruct c as [o x|t].
    - unfold src_exec_operation. rewrite src_current_store_is_current_store.
      destruct (current_store _ _ _ _ _ _ _ _ restore e) as [st|]; [|reflexivity]. cbn [bind operation_of].
      rewrite handlers_drive_exec_op. destruct (exec_op _ _ _ _ _ _ _ _ _ _ _ _ _ _ _ _ _ o st _) as [[st' pls] b'].
      rewrite src_commit_appends. reflexivity.
    - unfold src_console. rewrite src_current_store_is_current_store.
      destruct (current_store _ _ _ _ _ _ _ _ restore e) as [st|]; [|reflexivity]. cbn [bind text_of].
      rewrite src_commit_appends. reflexivity.
  Qed.

  Theorem src_rollback_is_rollback (e : eng) (i : nat) :
    src_rollback St Ev Act Ck H T D Name e (Z.of_nat i) = Some (rollback St Ev Act Ck H T D Name e i).
  Proof.
    unfold src_rollback, rollback, of_logs. rewrite src_discard_after_is_firstn. cbn [bind].
    rewrite src_last_events_is_last_events. reflexivity.
  Qed.

  Theorem src_reload_is_reload (e : eng) (ls : list (oplog Ev Act Ck H T D Name)) :
    src_reload St Ev Act Ck H T D Name e ls = Some (reload St Ev Act Ck H T D Name ls).
  Proof. unfold src_reload, reload, of_logs. rewrite src_last_events_is_last_events. reflexivity. Qed.

  (* ---- the property theorems restated for the GENERATED engine *)
  Notation sexec := (src_exec St Ev Act Ck H T D Name play save restore clock inspect mk_act star ev_name ev_delay name_eqb tzero tpos tis0 H0 hashf).
  Notation mrun := (run St Ev Act Ck H T D Name play save restore clock inspect mk_act star ev_name ev_delay name_eqb tzero tpos tis0 H0 hashf).
  Fixpoint src_run (e : eng) (cs : list (cmd T Name)) : option eng :=
    match cs with [] => Some e | c :: r => match sexec e c with Some e' => src_run e' r | None => None end end.

  Lemma src_run_is_run (cs : list (cmd T Name)) : forall e, src_run e cs = mrun e cs.
  Proof. induction cs as [|c r IH]; intros e; [reflexivity|]. cbn [src_run run]. rewrite src_exec_is_exec. destruct (exec _ _ _ _ _ _ _ _ _ _ _ _ _ _ _ _ _ _ _ _ _ _ _ e c); [apply IH|reflexivity]. Qed.

  Hypothesis restore_save : forall s, restore (save s) = s.

  (* C01 for the generated engine: record up to any cut, reload the recorded logs into an engine, run the rest *)
  Theorem src_resume_eq_uninterrupted (init : oplog Ev Act Ck H T D Name) (cs : list (cmd T Name)) (k : nat) (e_full any : eng) :
    last_plog Ev Act Ck H T D Name [init] <> None ->
    src_run (of_logs St Ev Act Ck H T D Name [init]) cs = Some e_full ->
    exists e_cut e_loaded e_res,
      src_run (of_logs St Ev Act Ck H T D Name [init]) (firstn k cs) = Some e_cut /\
      src_reload St Ev Act Ck H T D Name any (logs _ _ _ _ _ _ _ _ e_cut) = Some e_loaded /\
      src_run e_loaded (skipn k cs) = Some e_res /\
      logs _ _ _ _ _ _ _ _ e_res = logs _ _ _ _ _ _ _ _ e_full /\ sim St Ev Act Ck H T D Name restore e_res e_full.
  Proof.
    intros Hi Hf. rewrite src_run_is_run in Hf.
    destruct (C01_fresh St Ev Act Ck H T D Name play save restore restore_save clock inspect mk_act star ev_name ev_delay name_eqb
                tzero tpos tis0 H0 hashf init cs k e_full Hi Hf) as [e_cut [e_res [Hc [Hr [Hl Hs]]]]].
    exists e_cut, (reload St Ev Act Ck H T D Name (logs _ _ _ _ _ _ _ _ e_cut)), e_res.
    rewrite !src_run_is_run, src_reload_is_reload. repeat split; try assumption; apply Hs.
  Qed.

  (* C03 for the generated engine: any interleaving of exec and rollback *)
  Inductive src_step := XExec (c : cmd T Name) | XRoll (i : nat).
  Fixpoint src_steps (e : eng) (ss : list src_step) : option eng :=
    match ss with
    | [] => Some e
    | XExec c :: r => match sexec e c with Some e' => src_steps e' r | None => None end
    | XRoll i :: r => match src_rollback St Ev Act Ck H T D Name e (Z.of_nat i) with Some e' => src_steps e' r | None => None end
    end.
  Definition to_model (s : src_step) : stepk T Name := match s with XExec c => SExec T Name c | XRoll i => SRoll T Name i end.
  Lemma src_steps_is_steps (ss : list src_step) : forall e,
    src_steps e ss = steps St Ev Act Ck H T D Name play save restore clock inspect mk_act star ev_name ev_delay name_eqb tzero tpos tis0 H0 hashf
                       e (map to_model ss).
  Proof.
    induction ss as [|[c|i] r IH]; intros e; [reflexivity| |]; cbn [src_steps steps map to_model].
    - rewrite src_exec_is_exec. destruct (exec _ _ _ _ _ _ _ _ _ _ _ _ _ _ _ _ _ _ _ _ _ _ _ e c); [apply IH|reflexivity].
    - rewrite src_rollback_is_rollback. apply IH.
  Qed.

  Theorem src_rollback_eq_survivors (init : oplog Ev Act Ck H T D Name) (ss : list src_step) (e : eng) :
    last_plog Ev Act Ck H T D Name [init] <> None ->
    src_steps (of_logs St Ev Act Ck H T D Name [init]) ss = Some e ->
    exists e', src_run (of_logs St Ev Act Ck H T D Name [init]) (surv T Name [] (map to_model ss)) = Some e' /\
               logs _ _ _ _ _ _ _ _ e = logs _ _ _ _ _ _ _ _ e' /\ sim St Ev Act Ck H T D Name restore e e'.
  Proof.
    intros Hi Hs. rewrite src_steps_is_steps in Hs.
    destruct (C03_fresh St Ev Act Ck H T D Name play save restore restore_save clock inspect mk_act star ev_name ev_delay name_eqb
                tzero tpos tis0 H0 hashf init (map to_model ss) e Hi Hs) as [e' [Hr [Hl Hsim]]].
    exists e'. rewrite src_run_is_run. repeat split; try assumption; apply Hsim.
  Qed.
End Tie.
