(* C09 for the classes of Model/SpecMech.v: elapsing a then b = elapsing a+b (damage events a permutation,
   states equal up to the dead counters of an expired Periodic / DynamicIntervalPeriodic, hence equal views).
   FullMetalBarrageComponent: true only up to its penalty_lasting slot (refuted with a witness, largest true
   sub-statement proved). *)
From Coq Require Import ZArith List Bool Lia Permutation.
From V.Model Require Import Comp SpecMech.
From V.Proofs Require EPeriodicP EConsumableP EKeydownP.
From V.Proofs Require Import CompReject CompChunk SpecMechReject SpecMechDP.
Import ListNotations.
Open Scope Z_scope.

Arguments DP.resolving : simpl never.
Arguments DP.norm : simpl never.
Arguments LS.elapse : simpl never.

Definition xnorm (s : xst) : xst := set_dp (set_u s (unorm (x_u s))) (DP.norm (x_dp s)).
Definition xwf (s : xst) : Prop := wf_ust (x_u s) /\ DP.wf (x_dp s).

Lemma xst_ext (x y : xst) :
  x_u x = x_u y -> x_rm x = x_rm y -> x_l2 x = x_l2 y -> x_l3 x = x_l3 y -> x_k2 x = x_k2 y -> x_ls x = x_ls y ->
  x_cyc x = x_cyc y -> x_int x = x_int y -> x_dp x = x_dp y -> x = y.
Proof. destruct x, y; cbn; intros; subst; reflexivity. Qed.

Ltac xsimpl := cbn [x_u x_rm x_l2 x_l3 x_k2 x_ls x_cyc x_int x_dp set_u set_l2 set_ls set_cyc set_int set_dp xnorm lift fst snd].

Lemma dealts_repeat_E d h n : dealts (repeat (EDealt d h) n) = repeat (EDealt d h) n.
Proof. apply (dealts_repeat (d, h)). Qed.
Lemma dealts_elapsed t l : dealts (EElapsed t :: l) = dealts l.
Proof. reflexivity. Qed.
Lemma dealts_cons_dealt x l : dealts (dealt x :: l) = dealt x :: dealts l.
Proof. reflexivity. Qed.
Lemma dealts_map_dealt l : dealts (map dealt l) = map dealt l.
Proof. induction l; cbn; [reflexivity|]. f_equal. exact IHl. Qed.

(* ------------------------------------------------------------ classes that lift a common class's elapse *)
Lemma lift_chunk (cc : comp) (f : Z -> ust -> res) q a b s :
  chunk_proved cc = true -> (forall t u, reduce_spec cc MElapse q t u = Some (f t u)) ->
  xwf s -> 0 <= a -> 0 <= b ->
  let r1 := lift s (f a (x_u s)) in
  let r2 := lift (fst r1) (f b (x_u (fst r1))) in
  let r3 := lift s (f (a + b) (x_u s)) in
  xnorm (fst r2) = xnorm (fst r3) /\ Permutation (dealts (snd r1 ++ snd r2)) (dealts (snd r3)).
Proof.
  intros Cp Hf [W _] Ha Hb. xsimpl.
  destruct (f a (x_u s)) as [u1 e1] eqn:E1. xsimpl.
  destruct (f b u1) as [u2 e2] eqn:E2. destruct (f (a + b) (x_u s)) as [u3 e3] eqn:E3. xsimpl.
  assert (H1 : reduce_spec cc MElapse q a (x_u s) = Some (u1, e1)) by (rewrite Hf, E1; reflexivity).
  assert (H2 : reduce_spec cc MElapse q b u1 = Some (u2, e2)) by (rewrite Hf, E2; reflexivity).
  assert (H3 : reduce_spec cc MElapse q (a + b) (x_u s) = Some (u3, e3)) by (rewrite Hf, E3; reflexivity).
  destruct (elapse_chunk cc q a b (x_u s) u1 e1 u2 e2 u3 e3 Cp W Ha Hb H1 H2 H3) as [U Pm].
  split; [|exact Pm]. unfold xnorm. xsimpl. rewrite U. reflexivity.
Qed.

(* ------------------------------------------------------------ HommingMissile *)
Lemma chunk_homming p a b s : xwf s -> 0 <= a -> 0 <= b ->
  let r1 := hm_elapse P.elapse p a s in let r2 := hm_elapse P.elapse p b (fst r1) in let r3 := hm_elapse P.elapse p (a + b) s in
  xnorm (fst r2) = xnorm (fst r3) /\ dealts (snd r1 ++ snd r2) = dealts (snd r3).
Proof.
  intros [(W & _) _] Ha Hb. unfold hm_elapse. xsimpl. usimpl.
  destruct (periodic_chunk (u_p1 (x_u s)) a b W Ha Hb) as [N T _ _]. split.
  - apply xst_ext; xsimpl; try reflexivity. apply ust_ext; usimpl; rewrite ?N; try reflexivity; lia.
  - unfold hm_dmg, hm_hit. xsimpl. rewrite dealts_app, !dealts_elapsed, !dealts_repeat_E, repeat_add, T. reflexivity.
Qed.

(* ------------------------------------------------------------ MultipleOptionComponent *)
Lemma mo_events_add p n1 : forall n2 c,
  mo_events p (n1 + n2) c =
  (fst (mo_events p n1 c) ++ fst (mo_events p n2 (snd (mo_events p n1 c))), snd (mo_events p n2 (snd (mo_events p n1 c)))).
Proof.
  induction n1 as [|n1 IH]; intros n2 c.
  - cbn. destruct (mo_events p n2 c); reflexivity.
  - cbn [Nat.add mo_events]. rewrite (IH n2 (cyc_step c)).
    destruct (mo_events p n1 (cyc_step c)) as [l1 c1]. cbn [fst snd].
    destruct (mo_events p n2 c1) as [l2 c2]. reflexivity.
Qed.
Lemma mo_events_dealts p n : forall c, dealts (fst (mo_events p n c)) = fst (mo_events p n c).
Proof.
  induction n as [|n IH]; intros c; cbn [mo_events]; [reflexivity|].
  specialize (IH (cyc_step c)). destruct (mo_events p n (cyc_step c)) as [l c']. cbn [fst] in *.
  destruct (fst c <? xp_n1 p); rewrite dealts_cons_dealt, IH; reflexivity.
Qed.

Lemma chunk_multiple_option p a b s : xwf s -> 0 <= a -> 0 <= b ->
  let r1 := mo_elapse P.elapse p a s in let r2 := mo_elapse P.elapse p b (fst r1) in let r3 := mo_elapse P.elapse p (a + b) s in
  xnorm (fst r2) = xnorm (fst r3) /\ dealts (snd r1 ++ snd r2) = dealts (snd r3).
Proof.
  intros [(W & _) _] Ha Hb. unfold mo_elapse.
  destruct (periodic_chunk (u_p1 (x_u s)) a b W Ha Hb) as [N T _ _].
  set (q := u_p1 (x_u s)) in *. set (q1 := P.elapse q a) in *. set (q3 := P.elapse q (a + b)) in *.
  pose proof (mo_events_add p (ticks q q1) (ticks q1 (P.elapse q1 b)) (x_cyc s)) as A. rewrite T in A.
  pose proof (mo_events_dealts p (ticks q q1) (x_cyc s)) as D1.
  destruct (mo_events p (ticks q q1) (x_cyc s)) as [l1 c1]. xsimpl. usimpl. fold q1. cbn [fst snd] in A, D1.
  pose proof (mo_events_dealts p (ticks q1 (P.elapse q1 b)) c1) as D2.
  destruct (mo_events p (ticks q1 (P.elapse q1 b)) c1) as [l2 c2]. xsimpl. cbn [fst snd] in A, D1, D2.
  rewrite A. xsimpl. split.
  - apply xst_ext; xsimpl; try reflexivity. apply ust_ext; usimpl; rewrite ?N; try reflexivity; lia.
  - rewrite dealts_app, !dealts_elapsed, dealts_app. reflexivity.
Qed.

(* ------------------------------------------------------------ MecaCarrier *)
Lemma mc_events_app p l1 l2 : mc_events p (l1 ++ l2) = mc_events p l1 ++ mc_events p l2.
Proof. unfold mc_events. apply flat_map_app. Qed.
Lemma mc_events_dealts p l : dealts (mc_events p l) = mc_events p l.
Proof.
  unfold mc_events. induction l as [|n l IH]; cbn [flat_map]; [reflexivity|]. rewrite dealts_app, dealts_repeat, IH. reflexivity.
Qed.

Lemma chunk_meca p a b s : xwf s -> 0 <= a -> 0 <= b ->
  let r1 := mc_elapse DP.resolving p a s in let r2 := mc_elapse DP.resolving p b (fst r1) in let r3 := mc_elapse DP.resolving p (a + b) s in
  xnorm (fst r2) = xnorm (fst r3) /\ dealts (snd r1 ++ snd r2) = dealts (snd r3).
Proof.
  intros [_ W] Ha Hb. unfold mc_elapse.
  destruct (resolving_additive (x_dp s) a b W Ha Hb) as (N & L & _).
  destruct (DP.resolving (x_dp s) a) as [d1 l1]. xsimpl. cbn [fst snd] in N, L.
  destruct (DP.resolving d1 b) as [d2 l2]. destruct (DP.resolving (x_dp s) (a + b)) as [d3 l3]. xsimpl. cbn [fst snd] in N, L.
  split.
  - apply xst_ext; xsimpl; try reflexivity; [|exact N]. apply ust_ext; usimpl; try reflexivity; lia.
  - rewrite dealts_app, !dealts_elapsed, !mc_events_dealts, <- mc_events_app, L. reflexivity.
Qed.

(* ------------------------------------------------------------ Elysion *)
Lemma chunk_elysion a b s : 0 <= a -> 0 <= b ->
  let r1 := ely_elapse a s in let r2 := ely_elapse b (fst r1) in let r3 := ely_elapse (a + b) s in
  fst r2 = fst r3 /\ dealts (snd r1 ++ snd r2) = dealts (snd r3).
Proof.
  intros Ha Hb. unfold ely_elapse. xsimpl. usimpl. split; [|reflexivity].
  apply xst_ext; xsimpl; try reflexivity; [|apply ls_elapse_additive; assumption].
  apply ust_ext; usimpl; try reflexivity; lia.
Qed.

(* ------------------------------------------------------------ KarmaBladeTriggerComponent *)
Definition kb_ls (k : LS.T) (t : Z) : LS.T * bool :=
  let k' := LS.elapse k t in if LS.enabled k && negb (LS.enabled k') then (LS.reset k', true) else (k', false).
Lemma kb_elapse_ls p t s :
  kb_elapse p t s = (set_ls (set_u s (set_cd (x_u s) (u_cd (x_u s) - t))) (fst (kb_ls (x_ls s) t)),
                     if snd (kb_ls (x_ls s) t) then [dealt (p_fin (xp p))] else []).
Proof. unfold kb_elapse, kb_ls. destruct (LS.enabled (x_ls s) && negb _); reflexivity. Qed.

Lemma kb_ls_closed st mx du tl t :
  kb_ls (LS.mk st mx du tl) t =
  if 0 <? tl then (if 0 <? tl - t then (LS.mk st mx du (tl - t), false) else (LS.mk 0 mx du 0, true))
  else (if tl - t <? 0 then LS.mk 0 mx du 0 else LS.mk st mx du (tl - t), false).
Proof.
  unfold kb_ls, LS.elapse, LS.enabled, LS.reset. cbn [LS.tl LS.stack LS.maxs LS.dur].
  destruct (Z.ltb_spec 0 tl) as [H0|H0]; destruct (Z.ltb_spec (tl - t) 0) as [H1|H1]; cbn [LS.tl LS.stack LS.maxs LS.dur andb negb].
  - replace (0 <? tl - t) with false by (symmetry; apply Z.ltb_ge; lia). reflexivity.
  - destruct (Z.ltb_spec 0 (tl - t)); reflexivity.
  - reflexivity.
  - reflexivity.
Qed.

Lemma kb_ls_additive k a b : 0 <= a -> 0 <= b ->
  fst (kb_ls (fst (kb_ls k a)) b) = fst (kb_ls k (a + b)) /\
  (snd (kb_ls k a), snd (kb_ls (fst (kb_ls k a)) b), snd (kb_ls k (a + b))) <> (true, true, true) /\
  orb (snd (kb_ls k a)) (snd (kb_ls (fst (kb_ls k a)) b)) = snd (kb_ls k (a + b)).
Proof.
  intros Ha Hb. destruct k as [st mx du tl]. rewrite (kb_ls_closed st mx du tl a), (kb_ls_closed st mx du tl (a + b)).
  destruct (Z.ltb_spec 0 tl) as [H0|H0].
  - destruct (Z.ltb_spec 0 (tl - a)) as [H1|H1]; cbn [fst snd]; rewrite kb_ls_closed.
    + replace (0 <? tl - a) with true by (symmetry; apply Z.ltb_lt; lia). replace (tl - a - b) with (tl - (a + b)) by lia.
      destruct (Z.ltb_spec 0 (tl - (a + b))); cbn [fst snd orb]; repeat split; try reflexivity; discriminate.
    + replace (0 <? 0) with false by reflexivity. replace (0 <? tl - (a + b)) with false by (symmetry; apply Z.ltb_ge; lia).
      destruct (Z.ltb_spec (0 - b) 0); cbn [fst snd orb]; repeat split; try reflexivity; try discriminate.
      f_equal. lia.
  - destruct (Z.ltb_spec (tl - a) 0) as [H1|H1]; cbn [fst snd]; rewrite kb_ls_closed.
    + replace (0 <? 0) with false by reflexivity. replace (tl - (a + b) <? 0) with true by (symmetry; apply Z.ltb_lt; lia).
      destruct (Z.ltb_spec (0 - b) 0); cbn [fst snd orb]; repeat split; try reflexivity; try discriminate.
      f_equal. lia.
    + replace (0 <? tl - a) with false by (symmetry; apply Z.ltb_ge; lia). replace (tl - a - b) with (tl - (a + b)) by lia.
      destruct (Z.ltb_spec (tl - (a + b)) 0); cbn [fst snd orb]; repeat split; try reflexivity; discriminate.
Qed.

Lemma chunk_karma p a b s : 0 <= a -> 0 <= b ->
  let r1 := kb_elapse p a s in let r2 := kb_elapse p b (fst r1) in let r3 := kb_elapse p (a + b) s in
  fst r2 = fst r3 /\ dealts (snd r1 ++ snd r2) = dealts (snd r3).
Proof.
  intros Ha Hb. cbn zeta. rewrite !kb_elapse_ls. xsimpl. usimpl.
  destruct (kb_ls_additive (x_ls s) a b Ha Hb) as (F & N & O). split.
  - apply xst_ext; xsimpl; try reflexivity; [|exact F]. apply ust_ext; usimpl; try reflexivity; lia.
  - rewrite <- O. destruct (snd (kb_ls (x_ls s) a)); destruct (snd (kb_ls (fst (kb_ls (x_ls s) a)) b)); try reflexivity.
    exfalso. rewrite <- O in N. apply N. reflexivity.
Qed.

(* ------------------------------------------------------------ HowlingGaleComponent *)
Lemma hg_events_add r n1 n2 : hg_events r n1 ++ hg_events r n2 = hg_events r (n1 + n2).
Proof. induction n1; cbn [hg_events Nat.add app]; [reflexivity|]. rewrite <- app_assoc, IHn1. reflexivity. Qed.
Lemma hg_events_dealts r n : dealts (hg_events (map dealt r) n) = hg_events (map dealt r) n.
Proof. induction n; cbn [hg_events]; [reflexivity|]. rewrite dealts_app, dealts_map_dealt, IHn. reflexivity. Qed.

Lemma chunk_howling p a b s : xwf s -> 0 <= a -> 0 <= b ->
  let r1 := hg_elapse P.elapse p a s in let r2 := hg_elapse P.elapse p b (fst r1) in let r3 := hg_elapse P.elapse p (a + b) s in
  xnorm (fst r2) = xnorm (fst r3) /\ dealts (snd r1 ++ snd r2) = dealts (snd r3).
Proof.
  intros [(W & _ & _ & WC & _) _] Ha Hb. unfold hg_elapse. xsimpl. usimpl.
  destruct (periodic_chunk (u_p1 (x_u s)) a b W Ha Hb) as [N T _ _]. split.
  - apply xst_ext; xsimpl; try reflexivity. apply ust_ext; usimpl; rewrite ?N; try reflexivity.
    apply (EConsumableP.elapse_additive _ a b WC Ha Hb).
  - rewrite dealts_app, !dealts_elapsed, !hg_events_dealts, hg_events_add, T. reflexivity.
Qed.

(* ------------------------------------------------------------ FullMetalBarrageComponent *)
Lemma kd_ended_app a b : kd_ended (a ++ b) = kd_ended a || kd_ended b.
Proof. apply existsb_app. Qed.
Lemma kd_ended_repeat x n : kd_ended (repeat (dealt x) n) = false.
Proof. induction n; cbn; auto. Qed.
Definition kd_ends (k : K.K) (t : Z) : bool := K.running k && negb (K.running (fst (K.resolving k t))).
Lemma kd_ended_elapse q t u : kd_ended (snd (elapse_keydown_trait q t u)) = kd_ends (u_kd u) t.
Proof.
  unfold elapse_keydown_trait, kd_ends. destruct (K.resolving (u_kd u) t) as [k' n]. cbn [fst snd].
  destruct (K.running (u_kd u) && negb (K.running k')); rewrite !kd_ended_app, kd_ended_repeat; reflexivity.
Qed.

Lemma fmb_elapse_eq p t s :
  fmb_elapse p t s =
  (set_l2 (set_u s (fst (elapse_keydown_trait (xp p) t (x_u s))))
          (if kd_ends (u_kd (x_u s)) t
           then (xp_t1 p + K.tl (u_kd (fst (elapse_keydown_trait (xp p) t (x_u s)))), xp_t1 p)
           else (fst (x_l2 s) - t, snd (x_l2 s))),
   snd (elapse_keydown_trait (xp p) t (x_u s))).
Proof.
  unfold fmb_elapse, fmb_penalize_elapse, lift. cbn [fst snd]. rewrite kd_ended_elapse. destruct (kd_ends _ _); reflexivity.
Qed.

Lemma running_after k t : K.wf k -> 0 <= t -> K.running (fst (K.resolving k t)) = (0 <? K.tl k - t).
Proof.
  intros W Ht. pose proof (EKeydownP.resolving_spec k t W Ht) as X. destruct (K.resolving k t) as [k' n].
  destruct X as [_ ->]. reflexivity.
Qed.
Lemma tl_after k t : K.wf k -> 0 <= t -> K.tl (fst (K.resolving k t)) = K.tl k - t.
Proof.
  intros W Ht. pose proof (EKeydownP.resolving_spec k t W Ht) as X. destruct (K.resolving k t) as [k' n].
  destruct X as [_ ->]. reflexivity.
Qed.
Lemma kd_of_elapse q t u : u_kd (fst (elapse_keydown_trait q t u)) = fst (K.resolving (u_kd u) t).
Proof. unfold elapse_keydown_trait. destruct (K.resolving (u_kd u) t) as [k1 n1]. reflexivity. Qed.

(* after the repair f0eb2ac the whole state, penalty included, is exactly additive *)
Lemma chunk_barrage p a b s : xwf s -> 0 <= a -> 0 <= b ->
  let r1 := fmb_elapse p a s in let r2 := fmb_elapse p b (fst r1) in let r3 := fmb_elapse p (a + b) s in
  fst r2 = fst r3 /\ Permutation (dealts (snd r1 ++ snd r2)) (dealts (snd r3)).
Proof.
  intros [W _] Ha Hb. cbn zeta. rewrite !fmb_elapse_eq. xsimpl.
  pose proof (kd_of_elapse (xp p) a (x_u s)) as K1.
  pose proof (kd_of_elapse (xp p) (a + b) (x_u s)) as K3.
  destruct (elapse_keydown_trait (xp p) a (x_u s)) as [u1 e1] eqn:E1. xsimpl.
  pose proof (kd_of_elapse (xp p) b u1) as K2.
  destruct (elapse_keydown_trait (xp p) b u1) as [u2 e2] eqn:E2.
  destruct (elapse_keydown_trait (xp p) (a + b) (x_u s)) as [u3 e3] eqn:E3. xsimpl.
  assert (H1 : reduce_spec KeydownSkill MElapse (xp p) a (x_u s) = Some (u1, e1)) by (cbn; rewrite E1; reflexivity).
  assert (H2 : reduce_spec KeydownSkill MElapse (xp p) b u1 = Some (u2, e2)) by (cbn; rewrite E2; reflexivity).
  assert (H3 : reduce_spec KeydownSkill MElapse (xp p) (a + b) (x_u s) = Some (u3, e3)) by (cbn; rewrite E3; reflexivity).
  destruct (chunk_keydown (xp p) a b (x_u s) u1 e1 u2 e2 u3 e3 W Ha Hb H1 H2 H3) as [U Pm]. clear H1 H2 H3.
  subst u3. cbn [fst] in K1, K2, K3.
  destruct W as (_ & _ & _ & _ & WK).
  pose proof (running_after _ a WK Ha) as R1. pose proof (running_after _ (a + b) WK ltac:(lia)) as R3.
  pose proof (tl_after _ a WK Ha) as T1. pose proof (tl_after _ (a + b) WK ltac:(lia)) as T3.
  pose proof (EKeydownP.resolving_wf _ a WK Ha) as WK1.
  rewrite <- K1 in R1, T1, WK1. rewrite <- K3 in R3, T3.
  pose proof (running_after _ b WK1 Hb) as R2. pose proof (tl_after _ b WK1 Hb) as T2.
  rewrite <- K2 in R2, T2. rewrite T1 in R2, T2.
  set (tl := K.tl (u_kd (x_u s))) in *.
  assert (Ea : kd_ends (u_kd (x_u s)) a = (0 <? tl) && negb (0 <? tl - a)).
  { unfold kd_ends. rewrite <- K1, R1. reflexivity. }
  assert (Eb : kd_ends (u_kd u1) b = (0 <? tl - a) && negb (0 <? tl - (a + b))).
  { unfold kd_ends. rewrite <- K2, R2. change (K.running (u_kd u1)) with (0 <? K.tl (u_kd u1)). rewrite T1.
    replace (tl - a - b) with (tl - (a + b)) by lia. reflexivity. }
  assert (Eab : kd_ends (u_kd (x_u s)) (a + b) = (0 <? tl) && negb (0 <? tl - (a + b))).
  { unfold kd_ends. rewrite <- K3, R3. reflexivity. }
  rewrite Ea, Eb, Eab, T1, T2. clear Ea Eb Eab R1 R2 R3 K1 K2 K3 WK1 E1 E2 E3.
  split; [|exact Pm].
  destruct (Z.ltb_spec 0 tl); destruct (Z.ltb_spec 0 (tl - a)); destruct (Z.ltb_spec 0 (tl - (a + b)));
    cbn [andb negb fst snd]; try lia;
    apply xst_ext; xsimpl; try reflexivity; f_equal; lia.
Qed.

(* the witness of the former finding C09-fullmetalbarrage-penalty-chunking (key-down with 100 ms left, then
   100 + 900 ms versus 1000 ms): the penalty time now agrees *)
Definition fmb_par : xpar :=
  mkXP (mkPar false (1, 1) 0 0 0 0 0 0%nat [] (0, 0) (0, 0) (0, 0) (2, 2) 1800 (0, 0) 8000 0 0 0 (0, 0)) (0, 0) 0 2000 0 1 1 [].
Definition fmb_state : xst := set_u x0 (set_kd u0 (K.mkK 150 50 100)).
Example barrage_chunk_repaired :
  xwf fmb_state /\
  x_l2 (fst (fmb_elapse fmb_par 900 (fst (fmb_elapse fmb_par 100 fmb_state)))) = (1100, 2000) /\
  x_l2 (fst (fmb_elapse fmb_par 1000 fmb_state)) = (1100, 2000).
Proof.
  split. { unfold xwf, wf_ust, P.wf, C.wf, K.wf, DP.wf. cbn. lia. }
  split; vm_compute; reflexivity.
Qed.

(* ------------------------------------------------------------ summary *)
Definition xchunk_kind (c : xcomp) : bool :=
  match c with CosmicOrb | CrossTheStyx => false | _ => true end.

Lemma xelapse_chunk c p a b s s1 e1 s2 e2 s3 e3 :
  xchunk_kind c = true -> xwf s -> 0 <= a -> 0 <= b ->
  xreduce_spec c XElapse p a s = Some (s1, e1) -> xreduce_spec c XElapse p b s1 = Some (s2, e2) ->
  xreduce_spec c XElapse p (a + b) s = Some (s3, e3) ->
  xnorm s2 = xnorm s3 /\ Permutation (dealts (e1 ++ e2)) (dealts e3).
Proof.
  intros Ck W Ha Hb H1 H2 H3.
  destruct c; try discriminate; cbn in H1, H2, H3; apply some_inj in H1; apply some_inj in H2; apply some_inj in H3;
    apply pair_eq in H1; destruct H1 as [-> ->]; apply pair_eq in H2; destruct H2 as [-> ->]; apply pair_eq in H3; destruct H3 as [-> ->].
  - apply (lift_chunk PeriodicAttack (elapse_periodic_with P.elapse (xp p)) (xp p) a b s eq_refl); auto.
  - apply (lift_chunk BuffSkill (fun t u => elapse_buff_trait t u) (xp p) a b s eq_refl); auto.
  - destruct (chunk_homming p a b s W Ha Hb) as [X ->]. split; [exact X|reflexivity].
  - destruct (chunk_barrage p a b s W Ha Hb) as [-> X]. split; [reflexivity|exact X].
  - destruct (chunk_multiple_option p a b s W Ha Hb) as [X ->]. split; [exact X|reflexivity].
  - destruct (chunk_meca p a b s W Ha Hb) as [X ->]. split; [exact X|reflexivity].
  - destruct (chunk_elysion a b s Ha Hb) as [-> ->]. split; reflexivity.
  - apply (lift_chunk AttackSkill (fun t u => elapse_simple_attack t u) (xp p) a b s eq_refl); auto.
  - apply (lift_chunk PeriodicAttack (elapse_periodic_with P.elapse (xp p)) (xp p) a b s eq_refl); auto.
  - apply (lift_chunk PeriodicAttack (elapse_periodic_with P.elapse (xp p)) (xp p) a b s eq_refl); auto.
  - apply (lift_chunk AttackSkill (fun t u => elapse_simple_attack t u) (xp p) a b s eq_refl); auto.
  - apply (lift_chunk AttackSkill (fun t u => elapse_simple_attack t u) (xp p) a b s eq_refl); auto.
  - apply (lift_chunk KeydownSkill (elapse_keydown_trait (xp p)) (xp p) a b s eq_refl); auto.
  - apply (lift_chunk BuffSkill (fun t u => elapse_buff_trait t u) (xp p) a b s eq_refl); auto.
  - destruct (chunk_karma p a b s Ha Hb) as [-> ->]. split; reflexivity.
  - destruct (chunk_howling p a b s W Ha Hb) as [X ->]. split; [exact X|reflexivity].
Qed.

(* views only read the normalised state *)
Lemma xviews_xnorm c p s :
  xview_validity c p (xnorm s) = xview_validity c p s /\ xview_running c p (xnorm s) = xview_running c p s /\
  xview_buff c (xnorm s) = xview_buff c s /\ xview_keydown c (xnorm s) = xview_keydown c s.
Proof.
  destruct c; repeat split; try reflexivity.
  unfold xview_running, xnorm. xsimpl. rewrite norm_stack, norm_tl. reflexivity.
Qed.

Corollary xelapse_chunk_views c p a b s s1 e1 s2 e2 s3 e3 :
  xchunk_kind c = true -> xwf s -> 0 <= a -> 0 <= b ->
  xreduce_spec c XElapse p a s = Some (s1, e1) -> xreduce_spec c XElapse p b s1 = Some (s2, e2) ->
  xreduce_spec c XElapse p (a + b) s = Some (s3, e3) ->
  xview_validity c p s2 = xview_validity c p s3 /\ xview_running c p s2 = xview_running c p s3 /\
  xview_buff c s2 = xview_buff c s3 /\ xview_keydown c s2 = xview_keydown c s3.
Proof.
  intros C W Ha Hb H1 H2 H3. destruct (xelapse_chunk c p a b s s1 e1 s2 e2 s3 e3 C W Ha Hb H1 H2 H3) as [U _].
  destruct (xviews_xnorm c p s2) as (A1 & A2 & A3 & A4). destruct (xviews_xnorm c p s3) as (B1 & B2 & B3 & B4).
  rewrite <- A1, <- A2, <- A3, <- A4, <- B1, <- B2, <- B3, <- B4, U. repeat split.
Qed.

