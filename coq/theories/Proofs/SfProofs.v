(* C17 -- proofs about the GENERATED star-force model gen/SfGen.v (regenerated from
   simaple/gear/improvements/starforce*.py on every run).  Table facts are checked by
   vm_compute on the generated tables; everything else is for all metas / stats / stars. *)
From Coq Require Import ZArith QArith Qround List Bool Lia Lqa.
From V.Model Require Import SfBase.
From G Require Import SfGen.
Import ListNotations.
Open Scope Z_scope.

(* ------------------------------------------------------------------ generic facts on the idioms *)
Lemma zidx_ok {A} (l : list A) (i : Z) : 0 <= i < Z.of_nat (length l) -> exists v, zidx l i = Some v /\ In v l.
Proof.
  intros H. unfold zidx. destruct (i <? 0) eqn:E; [apply Z.ltb_lt in E; lia|].
  destruct (nth_error l (Z.to_nat i)) as [v|] eqn:N.
  - exists v. split; [reflexivity|]. eapply nth_error_In; eauto.
  - apply nth_error_None in N. lia.
Qed.

Lemma zidx_none_high {A} (l : list A) (i : Z) : Z.of_nat (length l) <= i -> zidx l i = None.
Proof.
  intros H. unfold zidx. destruct (i <? 0) eqn:E; [apply Z.ltb_lt in E; lia|]. apply nth_error_None. lia.
Qed.

Lemma find_existsb {A} (p : A -> bool) l : existsb p l = true -> exists x, find p l = Some x.
Proof.
  induction l as [|a l IH]; cbn; [discriminate|]. destruct (p a); [eauto|]. cbn. exact IH.
Qed.

Lemma find_rev_ok {A} (p : A -> bool) (r0 : A) (rest : list A) :
  p r0 = true -> exists r, find_rev p (r0 :: rest) = Some r /\ In r (r0 :: rest).
Proof.
  intros H. unfold find_rev.
  destruct (find_existsb p (rev (r0 :: rest))) as [x Hx].
  - apply existsb_exists. exists r0. split; [|exact H]. apply in_rev. rewrite rev_involutive. left. reflexivity.
  - exists x. split; [exact Hx|]. apply find_some in Hx. destruct Hx as [Hx _]. apply in_rev in Hx. exact Hx.
Qed.

Lemma scan_break_in {A} (p : A -> bool) l : forall cur r, scan_break p l cur = Some r -> cur = Some r \/ In r l.
Proof.
  induction l as [|a l IH]; cbn; intros cur r H; [left; exact H|].
  destruct (p a); [|left; exact H]. apply IH in H. destruct H as [H|H]; [inversion H; subst; right; left; reflexivity|right; right; exact H].
Qed.

Lemma fold_range_n_snoc {A} (f : Z -> A -> option A) : forall n i acc,
  fold_range_n f i (S n) acc = obind (fold_range_n f i n acc) (f (i + Z.of_nat n)).
Proof.
  induction n as [|n IH]; intros i acc.
  - cbn. rewrite Z.add_0_r. destruct (f i acc); reflexivity.
  - change (fold_range_n f i (S (S n)) acc) with
      (match f i acc with None => None | Some a => fold_range_n f (i + 1) (S n) a end).
    change (fold_range_n f i (S n) acc) with
      (match f i acc with None => None | Some a => fold_range_n f (i + 1) n a end).
    destruct (f i acc) as [a|]; [|reflexivity]. rewrite IH.
    replace (i + 1 + Z.of_nat n) with (i + Z.of_nat (S n)) by lia. reflexivity.
Qed.

Lemma fold_range_snoc {A} (f : Z -> A -> option A) a b acc : a <= b ->
  fold_range f a (b + 1) acc = obind (fold_range f a b acc) (f b).
Proof.
  intros H. unfold fold_range. replace (Z.to_nat (b + 1 - a)) with (S (Z.to_nat (b - a))) by lia.
  rewrite fold_range_n_snoc. replace (a + Z.of_nat (Z.to_nat (b - a))) with b by lia. reflexivity.
Qed.

Lemma fold_range_empty {A} (f : Z -> A -> option A) a b acc : b <= a -> fold_range f a b acc = Some acc.
Proof. intros H. unfold fold_range. replace (Z.to_nat (b - a)) with O by lia. reflexivity. Qed.

Lemma fold_range_n_refused {A} (f : Z -> A -> option A) j : (forall acc, f j acc = None) ->
  forall n i acc, i <= j < i + Z.of_nat n -> fold_range_n f i n acc = None.
Proof.
  intros Hj. induction n as [|n IH]; intros i acc H; [lia|]. cbn [fold_range_n].
  destruct (Z.eq_dec i j) as [->|Hne]; [rewrite Hj; reflexivity|].
  destruct (f i acc); [|reflexivity]. apply IH. lia.
Qed.

(* ------------------------------------------------------------------ stat blocks *)
Open Scope Q_scope.
Definition snonneg (s : SStat) : Prop :=
  0 <= sSTR s /\ 0 <= sDEX s /\ 0 <= sINT s /\ 0 <= sLUK s /\ 0 <= sATT s /\ 0 <= sMAT s /\ 0 <= sMHP s /\ 0 <= sMMP s.
Definition sle (a b : SStat) : Prop :=
  sSTR a <= sSTR b /\ sDEX a <= sDEX b /\ sINT a <= sINT b /\ sLUK a <= sLUK b /\
  sATT a <= sATT b /\ sMAT a <= sMAT b /\ sMHP a <= sMHP b /\ sMMP a <= sMMP b.

Lemma snonneg_forall s : snonneg s <-> Forall (fun f => 0 <= f s) sfields.
Proof.
  unfold snonneg, sfields. split.
  - intros (?&?&?&?&?&?&?&?). repeat constructor; assumption.
  - intros H. repeat match goal with H : Forall _ (_ :: _) |- _ => inversion H; clear H; subst end. repeat split; assumption.
Qed.
Lemma sle_forall a b : sle a b <-> Forall (fun f => f a <= f b) sfields.
Proof.
  unfold sle, sfields. split.
  - intros (?&?&?&?&?&?&?&?). repeat constructor; assumption.
  - intros H. repeat match goal with H : Forall _ (_ :: _) |- _ => inversion H; clear H; subst end. repeat split; assumption.
Qed.

Lemma snonneg_zero : snonneg szero.
Proof. unfold snonneg, szero; cbn. repeat split; lra. Qed.
Lemma snonneg_sadd a b : snonneg a -> snonneg b -> snonneg (sadd a b).
Proof. unfold snonneg, sadd; cbn. intros (?&?&?&?&?&?&?&?) (?&?&?&?&?&?&?&?). repeat split; lra. Qed.
Lemma sle_refl a : sle a a.
Proof. unfold sle. repeat split; lra. Qed.
Lemma sle_trans a b c : sle a b -> sle b c -> sle a c.
Proof. unfold sle. intros (?&?&?&?&?&?&?&?) (?&?&?&?&?&?&?&?). repeat split; lra. Qed.
Lemma sle_sadd a b : snonneg b -> sle a (sadd a b).
Proof. unfold sle, snonneg, sadd; cbn. intros (?&?&?&?&?&?&?&?). repeat split; lra. Qed.

Lemma qz_nonneg z : (0 <= z)%Z -> 0 <= qz z.
Proof. intros H. unfold qz. change 0 with (inject_Z 0). rewrite <- Zle_Qle. exact H. Qed.
Lemma qfdiv_nonneg x d : 0 <= x -> 0 < d -> 0 <= qfdiv x d.
Proof.
  intros Hx Hd. unfold qfdiv. change 0 with (inject_Z 0) at 1. rewrite <- Zle_Qle.
  change 0%Z with (Qfloor 0). apply Qfloor_resp_le. apply Qle_shift_div_l; [exact Hd|]. lra.
Qed.
Lemma qplus_nn a b : 0 <= a -> 0 <= b -> 0 <= a + b.
Proof. intros; lra. Qed.

(* solves 0 <= e for the expressions the translator emits, given v >= 0 (Z) and snonneg facts *)
Ltac nn :=
  repeat match goal with H : snonneg _ |- _ => destruct H as (?&?&?&?&?&?&?&?) end;
  repeat match goal with
  | |- 0 <= (if ?c then _ else _) => destruct c
  | |- 0 <= _ + _ => apply qplus_nn
  | |- 0 <= qz _ => apply qz_nonneg; lia
  | |- 0 <= qfdiv _ _ => apply qfdiv_nonneg; [|reflexivity]
  | |- 0 <= 0 => apply Qle_refl
  | |- 0 <= _ => assumption
  end.

(* ------------------------------------------------------------------ facts checked on the generated tables *)
Open Scope Z_scope.
Definition row_ok (n : nat) (r : list Z) : bool := (n <=? length r)%nat && forallb (fun z => 0 <=? z) (tl r).
Definition tbl_ok (n : nat) (t : list (list Z)) : bool :=
  match t with [] => false | r0 :: _ => (zrow r0 0 <=? 0) && forallb (row_ok n) t end.
Definition bonus_ok (n : nat) (r : list Z) : bool := (n <=? length r)%nat && forallb (fun z => 0 <=? z) r.
Definition caps_ok (t : list (list Z)) : bool :=
  forallb (fun r => (0 <=? zrow r 1) && (zrow r 1 <=? 25) && (0 <=? zrow r 2) && (zrow r 2 <=? 15)) t.

Lemma generated_tables_ok :
  tbl_ok 16 t_superior_att_increments && tbl_ok 16 t_superior_stat_increments &&
  tbl_ok 26 t_starforce_weapon_att_increments && tbl_ok 26 t_starforce_att_increments &&
  tbl_ok 26 t_starforce_stat_increments && bonus_ok 26 t_glove_starforce_bonus &&
  bonus_ok 26 t_mhp_starforce_bonus && caps_ok t_star_data = true.
Proof. vm_compute. reflexivity. Qed.

Ltac table_fact :=
  let T := fresh "T" in
  pose proof generated_tables_ok as T; repeat (apply andb_true_iff in T; destruct T as [T ?]); assumption.

Lemma lookup_ok n t lvl star : tbl_ok n t = true -> 0 <= lvl -> 1 <= star < Z.of_nat n ->
  exists row, find_rev (fun item => lvl >=? zrow item 0) t = Some row /\
  exists v, zidx row star = Some v /\ 0 <= v.
Proof.
  intros Ht Hl Hs. destruct t as [|r0 rest]; [discriminate|]. cbn [tbl_ok] in Ht.
  apply andb_true_iff in Ht. destruct Ht as [H0 Hrows]. apply Z.leb_le in H0.
  destruct (find_rev_ok (fun item => lvl >=? zrow item 0) r0 rest) as (row & Hf & Hin).
  - apply Z.geb_le. lia.
  - exists row. split; [exact Hf|]. rewrite forallb_forall in Hrows. specialize (Hrows row Hin).
    unfold row_ok in Hrows. apply andb_true_iff in Hrows. destruct Hrows as [Hlen Hnn]. apply Nat.leb_le in Hlen.
    destruct (zidx_ok row star) as (v & Hv & Hinv); [lia|]. exists v. split; [exact Hv|].
    unfold zidx in Hv. destruct (star <? 0) eqn:E; [apply Z.ltb_lt in E; lia|].
    destruct row as [|h tl0]; [destruct (Z.to_nat star); discriminate|].
    destruct (Z.to_nat star) as [|k] eqn:Ek; [lia|]. cbn in Hv, Hnn. rewrite forallb_forall in Hnn.
    apply Z.leb_le. apply Hnn. eapply nth_error_In; eauto.
Qed.

Lemma bonus_lookup_ok n r star : bonus_ok n r = true -> 0 <= star < Z.of_nat n -> exists v, zidx r star = Some v /\ 0 <= v.
Proof.
  intros H Hs. unfold bonus_ok in H. apply andb_true_iff in H. destruct H as [Hlen Hnn]. apply Nat.leb_le in Hlen.
  destruct (zidx_ok r star) as (v & Hv & Hin); [lia|]. exists v. split; [exact Hv|].
  rewrite forallb_forall in Hnn. apply Z.leb_le. apply Hnn. exact Hin.
Qed.

(* ------------------------------------------------------------------ max_star *)
Definition cap_limit (m : Meta) : Z := if m_superior m then 15 else 25.

Lemma max_star_bound m : 0 <= g_max_star m <= cap_limit m.
Proof.
  unfold g_max_star, cap_limit.
  destruct (m_tuc m <=? 0); [destruct (m_superior m); lia|].
  destruct (gt_is_mechanic_gear (m_type m) || gt_is_dragon_gear (m_type m)); [destruct (m_superior m); lia|].
  destruct (scan_break _ t_star_data None) as [row|] eqn:E; [|destruct (m_superior m); lia].
  apply scan_break_in in E. destruct E as [E|E]; [discriminate|].
  assert (C : caps_ok t_star_data = true) by table_fact.
  unfold caps_ok in C. rewrite forallb_forall in C. specialize (C row E).
  repeat (apply andb_true_iff in C; destruct C as [C ?]).
  repeat match goal with H : (_ <=? _) = true |- _ => apply Z.leb_le in H end.
  destruct (m_superior m); lia.
Qed.

(* ------------------------------------------------------------------ the table lookup as the star-force code uses it *)
Lemma increment_defined m star amazing att :
  0 <= m_req_level m -> 1 <= star <= cap_limit m -> (m_superior m = false -> amazing = false) ->
  exists v, g_get_starforce_increment m star amazing att = Some v /\ 0 <= v.
Proof.
  intros Hl Hs Ha. unfold g_get_starforce_increment, cap_limit in *.
  destruct (m_superior m) eqn:Sup.
  - destruct att.
    + destruct (lookup_ok 16 t_superior_att_increments (m_req_level m) star) as (row & Hf & v & Hv & Hp);
        [table_fact|lia|cbn; lia|]. rewrite Hf, Hv. eauto.
    + destruct (lookup_ok 16 t_superior_stat_increments (m_req_level m) star) as (row & Hf & v & Hv & Hp);
        [table_fact|lia|cbn; lia|]. rewrite Hf, Hv. eauto.
  - rewrite (Ha eq_refl). cbn [negb]. destruct att.
    + destruct (gt_is_improved_as_weapon (m_type m)).
      * destruct (lookup_ok 26 t_starforce_weapon_att_increments (m_req_level m) star) as (row & Hf & v & Hv & Hp);
          [table_fact|lia|cbn; lia|]. rewrite Hf, Hv. eauto.
      * destruct (lookup_ok 26 t_starforce_att_increments (m_req_level m) star) as (row & Hf & v & Hv & Hp);
          [table_fact|lia|cbn; lia|]. rewrite Hf, Hv. eauto.
    + destruct (lookup_ok 26 t_starforce_stat_increments (m_req_level m) star) as (row & Hf & v & Hv & Hp);
        [table_fact|lia|cbn; lia|]. rewrite Hf, Hv. eauto.
Qed.

(* ------------------------------------------------------------------ the increment providers *)
Ltac use_increment m star am att :=
  let v := fresh "v" in let Hv := fresh "Hv" in let Hp := fresh "Hp" in
  destruct (increment_defined m star am att) as (v & Hv & Hp);
  [assumption | unfold cap_limit; repeat match goal with H : m_superior _ = _ |- _ => rewrite H end; lia
   | first [reflexivity | intros; congruence] |]; rewrite Hv.

Ltac finish_stat := eexists; split; [reflexivity|]; unfold snonneg; cbn [sSTR sDEX sINT sLUK sATT sMAT sMHP sMMP szero]; repeat split; nn.

Lemma stat_increment_ok m star g : 0 <= m_req_level m -> m_superior m = false -> 1 <= star <= 25 -> snonneg g ->
  exists s, g_stat_increment m star g = Some s /\ snonneg s.
Proof. intros Hl Sup Hs Hg. unfold g_stat_increment. use_increment m star false false. finish_stat. Qed.

Lemma weapon_att_increment_ok m star g : 0 <= m_req_level m -> m_superior m = false -> 1 <= star <= 25 -> snonneg g ->
  exists s, g_weapon_att_increment m star g = Some s /\ snonneg s.
Proof. intros Hl Sup Hs Hg. unfold g_weapon_att_increment. use_increment m star false true. finish_stat. Qed.

Lemma att_increment_ok m star g : 0 <= m_req_level m -> m_superior m = false -> 1 <= star <= 25 -> snonneg g ->
  exists s, g_att_increment m star g = Some s /\ snonneg s.
Proof.
  intros Hl Sup Hs Hg. unfold g_att_increment. destruct (gt_is_improved_as_weapon (m_type m)).
  - destruct (weapon_att_increment_ok m star g) as (s & E & N); try assumption. rewrite E. eauto.
  - use_increment m star false true. finish_stat.
Qed.

Lemma hpmp_increment_ok m star g : 1 <= star <= 25 -> exists s, g_hpmp_increment m star g = Some s /\ snonneg s.
Proof.
  intros Hs. unfold g_hpmp_increment.
  destruct (bonus_lookup_ok 26 t_mhp_starforce_bonus star) as (v & Hv & Hp); [table_fact|cbn; lia|]. rewrite Hv.
  repeat match goal with |- context [if ?c then Some _ else _] => destruct c end; finish_stat.
Qed.

Lemma glove_increment_ok m star g : 1 <= star <= 25 -> exists s, g_glove_increment m star g = Some s /\ snonneg s.
Proof.
  intros Hs. unfold g_glove_increment.
  destruct (negb (m_type m =? 108)); [finish_stat|].
  destruct (bonus_lookup_ok 26 t_glove_starforce_bonus star) as (v & Hv & Hp); [table_fact|cbn; lia|]. rewrite Hv.
  repeat match goal with |- context [if ?c then Some _ else _] => destruct c end; finish_stat.
Qed.

Lemma superior_increment_ok m star g : 0 <= m_req_level m -> m_superior m = true -> 1 <= star <= 15 ->
  exists s, g_superior_increment m star g = Some s /\ snonneg s.
Proof.
  intros Hl Sup Hs. unfold g_superior_increment.
  use_increment m star true false. use_increment m star true true. finish_stat.
Qed.

(* ------------------------------------------------------------------ one star *)
Theorem single_defined_nonneg m ref star cur :
  0 <= m_req_level m -> snonneg ref -> snonneg cur -> 1 <= star <= g_max_star m ->
  exists inc, g_single m ref star cur = Some inc /\ snonneg inc.
Proof.
  intros Hl Hr Hc Hs. pose proof (max_star_bound m) as B. unfold cap_limit in B. unfold g_single.
  destruct (star >? g_max_star m) eqn:E; [apply Z.gtb_lt in E; lia|].
  assert (G : snonneg (sadd cur ref)) by (apply snonneg_sadd; assumption).
  destruct (m_superior m) eqn:Sup.
  - destruct (superior_increment_ok m star (sadd cur ref)) as (s & Es & Ns); [assumption|assumption|lia|]. rewrite Es. eauto.
  - destruct (stat_increment_ok m star (sadd cur ref)) as (s1 & E1 & N1); [assumption|assumption|lia|assumption|].
    destruct (att_increment_ok m star (sadd cur ref)) as (s2 & E2 & N2); [assumption|assumption|lia|assumption|].
    destruct (hpmp_increment_ok m star (sadd cur ref)) as (s3 & E3 & N3); [lia|].
    destruct (glove_increment_ok m star (sadd cur ref)) as (s4 & E4 & N4); [lia|].
    rewrite E1, E2, E3, E4. finish_stat.
Qed.

Theorem single_refused m ref star cur : g_max_star m < star -> g_single m ref star cur = None.
Proof. intros H. unfold g_single. destruct (star >? g_max_star m) eqn:E; [reflexivity|]. rewrite Z.gtb_ltb in E. apply Z.ltb_ge in E. lia. Qed.

(* ------------------------------------------------------------------ the fold *)
Definition step (m : Meta) (ref : SStat) (i : Z) (cur : SStat) : option SStat :=
  match g_single m ref i cur with None => None | Some inc => Some (sadd cur inc) end.

Lemma calc_as_fold m ref star : g_calc m ref star = fold_range (step m ref) 1 (star + 1) szero.
Proof. unfold g_calc, step. destruct (fold_range _ 1 (star + 1) szero); reflexivity. Qed.

Theorem calc_zero m ref star : star <= 0 -> g_calc m ref star = Some szero.
Proof. intros H. rewrite calc_as_fold. apply fold_range_empty. lia. Qed.

Theorem calc_step m ref n : 0 <= n ->
  g_calc m ref (n + 1) =
  match g_calc m ref n with
  | None => None
  | Some cur => match g_single m ref (n + 1) cur with None => None | Some inc => Some (sadd cur inc) end
  end.
Proof.
  intros H. rewrite !calc_as_fold. rewrite fold_range_snoc by lia. reflexivity.
Qed.

Theorem calc_defined_nonneg m ref star :
  0 <= m_req_level m -> snonneg ref -> star <= g_max_star m ->
  exists v, g_calc m ref star = Some v /\ snonneg v.
Proof.
  intros Hl Hr. destruct (Z.le_gt_cases star 0) as [Hz|Hpos].
  - intros _. rewrite calc_zero by exact Hz. eauto using snonneg_zero.
  - assert (Hn : 0 <= star) by lia. clear Hpos. pattern star. apply natlike_ind; [| |exact Hn]; clear Hn.
    + intros _. rewrite calc_zero by lia. eauto using snonneg_zero.
    + intros n Hn IH Hs. destruct IH as (cur & Ec & Nc); [lia|].
      change (Z.succ n) with (n + 1). rewrite calc_step by exact Hn. rewrite Ec.
      destruct (single_defined_nonneg m ref (n + 1) cur) as (inc & Ei & Ni); try assumption; [lia|].
      rewrite Ei. eexists; split; [reflexivity|]. apply snonneg_sadd; assumption.
Qed.

Theorem calc_monotone m ref n k a b :
  0 <= m_req_level m -> snonneg ref -> 0 <= n -> 0 <= k -> n + k <= g_max_star m ->
  g_calc m ref n = Some a -> g_calc m ref (n + k) = Some b -> sle a b.
Proof.
  intros Hl Hr Hn Hk. revert b. pattern k. apply natlike_ind; [| |exact Hk].
  - intros b _ Ea Eb. rewrite Z.add_0_r in Eb. rewrite Ea in Eb. inversion Eb; subst. apply sle_refl.
  - intros j Hj IH b Hs Ea Eb. replace (n + Z.succ j) with ((n + j) + 1) in Eb by lia.
    rewrite calc_step in Eb by lia.
    destruct (calc_defined_nonneg m ref (n + j)) as (c & Ec & Nc); try assumption; [lia|].
    rewrite Ec in Eb.
    destruct (single_defined_nonneg m ref (n + j + 1) c) as (inc & Ei & Ni); try assumption; [lia|].
    rewrite Ei in Eb. inversion Eb; subst. eapply sle_trans; [apply IH; [lia|exact Ea|exact Ec]|]. apply sle_sadd. exact Ni.
Qed.

Theorem calc_refused m ref star : g_max_star m < star -> g_calc m ref star = None.
Proof.
  intros H. pose proof (max_star_bound m) as B. rewrite calc_as_fold. unfold fold_range.
  apply (fold_range_n_refused (step m ref) (g_max_star m + 1)).
  - intros acc. unfold step. rewrite single_refused by lia. reflexivity.
  - lia.
Qed.

Theorem cutoff_is_min m star : g_cutoff m star = Z.min star (g_max_star m).
Proof. reflexivity. Qed.

Theorem cutoff_always_accepted m ref star : 0 <= m_req_level m -> snonneg ref ->
  exists v, g_calc m ref (g_cutoff m star) = Some v /\ snonneg v.
Proof. intros Hl Hr. apply calc_defined_nonneg; try assumption. rewrite cutoff_is_min. lia. Qed.

(* ------------------------------------------------------------------ non-vacuity: a concrete level-160 warrior weapon *)
Open Scope Q_scope.
Example witness_meta : Meta := mkMeta 130 160 1 false 8.
Example witness_ref : SStat := mkS 100 100 0 0 (283#1) 0 0 0.
Example witness_hyps : (0 <= m_req_level witness_meta)%Z /\ snonneg witness_ref /\ g_max_star witness_meta = 25%Z.
Proof. split; [cbn; lia|]. split; [unfold snonneg; cbn; repeat split; lra|vm_compute; reflexivity]. Qed.
Example witness_value : option_map (fun s => (Qred (sSTR s), Qred (sATT s), Qred (sMHP s))) (g_calc witness_meta witness_ref 22)
                        = Some (131#1, 185#1, 255#1).
Proof. vm_compute. reflexivity. Qed.
Example witness_refused : g_calc witness_meta witness_ref 26 = None.
Proof. vm_compute. reflexivity. Qed.
