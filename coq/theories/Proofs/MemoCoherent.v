(* C20 -- proofs about Model/Memo.v, for every signature M satisfying `hyps M`. *)
From Coq Require Import List Bool Arith Lia.
From V.Model Require Import Memo.
Import ListNotations.

Section Proofs.
  Variable M : sig.

  Notation prov := (prov M).
  Notation store := (store M).

  (* ---------------------------------------------------------------- projections *)
  Lemma map_ext_on {A B} (f g : A -> B) l : map f l = map g l -> forall x, In x l -> f x = g x.
  Proof.
    induction l as [|a l IH]; cbn; intros E x Hx; [contradiction|].
    inversion E. destruct Hx as [->|Hx]; auto.
  Qed.

  Lemma proj_sub (A B : list (Field M)) (p q : prov) :
    (forall f, In f B -> In f A) -> proj M A p = proj M A q -> proj M B p = proj M B q.
  Proof.
    intros Sub E. unfold proj in *. apply map_ext_in. intros f Hf.
    pose proof (map_ext_on _ _ _ E f (Sub f Hf)) as X. cbn in X. exact X.
  Qed.

  (* ---------------------------------------------------------------- lookup *)
  Lemma lookup_from_app i (s : store) k' v k :
    lookup_from M i (s ++ [(k', v)]) k =
    match lookup_from M i s k with
    | Some r => Some r
    | None => if heqb M k' k then Some (i + length s, v) else None
    end.
  Proof.
    revert i. induction s as [|[k0 e0] s IH]; intros i; cbn.
    - rewrite Nat.add_0_r. reflexivity.
    - destruct (heqb M k0 k); [reflexivity|]. rewrite IH.
      destruct (lookup_from M (S i) s k); [reflexivity|].
      replace (S i + length s) with (i + S (length s)) by lia. reflexivity.
  Qed.

  Lemma lookup_from_nth i (s : store) k j e :
    lookup_from M i s k = Some (j, e) ->
    i <= j /\ exists k', nth_error s (j - i) = Some (k', e) /\ heqb M k' k = true.
  Proof.
    revert i. induction s as [|[k0 e0] s IH]; intros i; cbn; [discriminate|].
    destruct (heqb M k0 k) eqn:E.
    - intros X; inversion X; subst. split; [lia|]. rewrite Nat.sub_diag. cbn. eauto.
    - intros X. destruct (IH _ X) as [L [k' [N Hk]]]. split; [lia|].
      replace (j - i) with (S (j - S i)) by lia. cbn. eauto.
  Qed.

  Hypothesis HY : hyps M.

  Lemma key_eq (p q : prov) :
    key M p = key M q -> kind M p = kind M q /\ proj M (K M (kind M p)) p = proj M (K M (kind M p)) q.
  Proof.
    unfold key. rewrite (named_true M HY). intros E. apply (h_inj M HY) in E.
    injection E as E1 E2. split; [exact E1|]. rewrite E2, E1. reflexivity.
  Qed.

  (* the structural fact: what is memoized depends on the request only through its key *)
  Lemma memo_factors (p q : prov) : key M p = key M q -> memo_part M p = memo_part M q.
  Proof.
    intros E. destruct (key_eq _ _ E) as [Ek Ep]. unfold memo_part. rewrite <- Ek. f_equal.
    apply proj_sub with (A := K M (kind M p)); [apply (R_sub_K M HY)|exact Ep].
  Qed.

  Lemma kinds_differ_keys_differ (p q : prov) : kind M p <> kind M q -> key M p <> key M q.
  Proof. intros N E. apply N. apply (key_eq _ _ E). Qed.

  (* ---------------------------------------------------------------- invariant *)
  Lemma Inv_nil : Inv M [].
  Proof. intros k j e X. discriminate. Qed.

  Lemma memoize_inv s p : Inv M s -> Inv M (fst (fst (memoize M s p))).
  Proof.
    intros Hs. unfold memoize. destruct (lookup M s (key M p)) as [[j e]|] eqn:E; cbn; [exact Hs|].
    intros k j e. unfold lookup. rewrite lookup_from_app. fold (lookup M s k).
    destruct (lookup M s k) as [[j' e']|] eqn:E'.
    - intros X; inversion X; subst. eapply Hs; eauto.
    - destruct (heqb M (key M p) k) eqn:Ek; [|discriminate].
      apply (heqb_spec M HY) in Ek. intros X; inversion X; subst. eauto.
  Qed.

  Lemma memoize_parts s p : Inv M s -> snd (fst (memoize M s p)) = parts M p.
  Proof.
    intros Hs. unfold memoize. destruct (lookup M s (key M p)) as [[j e]|] eqn:E; cbn; [|reflexivity].
    destruct (Hs _ _ _ E) as [q [Kq ->]]. rewrite (de_ser M HY). cbn. unfold parts. f_equal.
    apply memo_factors. exact Kq.
  Qed.

  (* the independent part of the answer is computed from the current request whatever the store holds *)
  Lemma memoize_indep_any_store s p : snd (snd (fst (memoize M s p))) = indep_part M p.
  Proof. unfold memoize. destruct (lookup M s (key M p)) as [[j e]|]; reflexivity. Qed.

  Lemma memoize_file_indep_any_file f p : snd (snd (fst (memoize_file M f p))) = indep_part M p.
  Proof. unfold memoize_file. destruct (lookup M (fde M f) (key M p)) as [[j e]|]; reflexivity. Qed.

  (* ---------------------------------------------------------------- sequences, in memory *)
  Lemma run_mem_parts ops : forall s, Inv M s -> map fst (run_mem M s ops) = map (parts M) (requests M ops).
  Proof.
    induction ops as [|[p|] r IH]; intros s Hs; cbn; [reflexivity| |].
    - pose proof (memoize_parts s p Hs) as C. pose proof (memoize_inv s p Hs) as Hs'.
      destruct (memoize M s p) as [[s' c] hit]. cbn in *. rewrite C, IH; auto.
    - apply IH. rewrite (xde_xser M HY). exact Hs.
  Qed.

  Theorem memo_coherent_from ops s :
    Inv M s -> map (fun r => environment M (fst r)) (run_mem M s ops) = map (direct M) (requests M ops).
  Proof.
    intros Hs. pose proof (run_mem_parts ops s Hs) as X.
    rewrite <- (map_map fst (environment M)), X, map_map. reflexivity.
  Qed.

  Theorem memo_coherent ops :
    map (fun r => environment M (fst r)) (run_mem M [] ops) = map (direct M) (requests M ops).
  Proof. apply memo_coherent_from, Inv_nil. Qed.

  (* re-importing an exported memo at any points of a history changes neither answers nor hits *)
  Theorem export_import_transparent ops s :
    run_mem M s ops = run_mem M s (map (Req M) (requests M ops)).
  Proof.
    revert s. induction ops as [|[p|] r IH]; intros s; cbn; [reflexivity| |].
    - destruct (memoize M s p) as [[s' c] hit]. rewrite IH. reflexivity.
    - rewrite (xde_xser M HY). apply IH.
  Qed.

  Theorem independent_from_current_request ops s :
    map (fun r => snd (fst r)) (run_mem M s ops) = map (indep_part M) (requests M ops).
  Proof.
    revert s. induction ops as [|[p|] r IH]; intros s; cbn; [reflexivity| |].
    - pose proof (memoize_indep_any_store s p) as C.
      destruct (memoize M s p) as [[s' c] hit]. cbn in *. rewrite C, IH. reflexivity.
    - apply IH.
  Qed.

  (* ---------------------------------------------------------------- file-backed *)
  Theorem file_refines_memory ops s : run_file M (fser M s) ops = run_mem M s ops.
  Proof.
    revert s. induction ops as [|[p|] r IH]; intros s; cbn; [reflexivity| |].
    - unfold memoize_file, memoize. rewrite (fde_fser M HY).
      destruct (lookup M s (key M p)) as [[j e]|]; rewrite IH; reflexivity.
    - rewrite (xde_xser M HY). apply IH.
  Qed.

  Theorem memo_coherent_file ops s :
    Inv M s ->
    map (fun r => environment M (fst r)) (run_file M (fser M s) ops) = map (direct M) (requests M ops).
  Proof. intros Hs. rewrite file_refines_memory. apply memo_coherent_from, Hs. Qed.

  Theorem memo_coherent_new_file ops :
    map (fun r => environment M (fst r)) (run_file M (new_file M) ops) = map (direct M) (requests M ops).
  Proof. apply memo_coherent_file, Inv_nil. Qed.

  Theorem independent_from_current_request_file ops f :
    map (fun r => snd (fst r)) (run_file M f ops) = map (indep_part M) (requests M ops).
  Proof.
    revert f. induction ops as [|[p|] r IH]; intros f; cbn; [reflexivity| |].
    - pose proof (memoize_file_indep_any_file f p) as C.
      destruct (memoize_file M f p) as [[f' c] hit]. cbn in *. rewrite C, IH. reflexivity.
    - apply IH.
  Qed.

  (* ---------------------------------------------------------------- who served a hit *)
  Definition Owned (s : store) (os : list prov) : Prop :=
    Forall2 (fun e q => fst e = key M q /\ snd e = ser M (parts M q)) s os.

  Lemma Forall2_nth {A B} (P : A -> B -> Prop) l1 l2 n a :
    Forall2 P l1 l2 -> nth_error l1 n = Some a -> exists b, nth_error l2 n = Some b /\ P a b.
  Proof.
    intros F. revert n. induction F as [|x y l1 l2 Pxy F IH]; intros [|n]; cbn; try discriminate.
    - intros X; inversion X; subst. eauto.
    - apply IH.
  Qed.

  Lemma served_ok_mono ps ps' x : incl ps ps' -> served_ok M ps x -> served_ok M ps' x.
  Proof.
    intros Hi. unfold served_ok. destruct (snd x) as [[q|]|]; auto.
    intros [A B]. split; auto.
  Qed.

  Lemma run_owned_ok ps : forall s os pre,
    Owned s os -> incl os pre -> Forall (served_ok M (pre ++ ps)) (run_owned M s os ps).
  Proof.
    induction ps as [|p r IH]; intros s os pre Ho Hi; cbn; [constructor|].
    unfold memoize. destruct (lookup M s (key M p)) as [[j e]|] eqn:E.
    - constructor.
      + unfold served_ok. cbn.
        destruct (lookup_from_nth _ _ _ _ _ E) as [_ [k' [N Hk]]]. rewrite Nat.sub_0_r in N.
        destruct (Forall2_nth _ _ _ _ _ Ho N) as [q [Nq [Kq _]]]. cbn in Kq.
        rewrite Nq. apply (heqb_spec M HY) in Hk. subst k'.
        destruct (key_eq _ _ Kq) as [Ek Ep].
        split; [apply in_or_app; left; apply Hi; eapply nth_error_In; eauto|].
        split; [congruence|]. split; [symmetry; exact Ep|]. symmetry. apply memo_factors. exact Kq.
      + specialize (IH s os (pre ++ [p]) Ho).
        rewrite <- app_assoc in IH. apply IH. intros x Hx. apply in_or_app. left. apply Hi, Hx.
    - constructor; [exact Logic.I|].
      specialize (IH (s ++ [(key M p, ser M (parts M p))]) (os ++ [p]) (pre ++ [p])).
      rewrite <- app_assoc in IH. apply IH.
      + apply Forall2_app; [exact Ho|]. constructor; [split; reflexivity|constructor].
      + intros x Hx. apply in_app_or in Hx. apply in_or_app.
        destruct Hx as [Hx|Hx]; [left; apply Hi, Hx|right; exact Hx].
  Qed.

  (* from the empty memo: every hit is served by the entry an EARLIER request q of the same sequence
     stored; q has the same kind, the same key fields and the same memoizable part as the request *)
  Theorem kinds_never_share ps : Forall (served_ok M ps) (run_owned M [] [] ps).
  Proof. apply (run_owned_ok ps [] [] []); [constructor|intros x []]. Qed.

  (* the hit/miss decisions of run_owned are those of run_mem *)
  Lemma run_owned_trace ps : forall s os,
    map (fun x => match snd x with None => false | Some _ => true end) (run_owned M s os ps) =
    map (fun r => match snd r with None => false | Some _ => true end) (run_mem M s (map (Req M) ps)).
  Proof.
    induction ps as [|p r IH]; intros s os; cbn; [reflexivity|].
    destruct (memoize M s p) as [[s' c] [j|]]; cbn; rewrite IH; reflexivity.
  Qed.
End Proofs.
