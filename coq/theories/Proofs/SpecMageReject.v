(* C07 and C10 for the classes of the extension `mage` (Model/SpecMage.v). *)
From Coq Require Import ZArith List Bool Lia.
From V.Model Require Import Comp SpecMage.
From V.Proofs Require Import CompReject.
Import ListNotations.
Open Scope Z_scope.

(* ------------------------------------------------------------ event list facts *)
Lemma xrejected_app a b : xrejected (a ++ b) = xrejected a || xrejected b.
Proof. unfold xrejected. apply existsb_app. Qed.
Lemma xrejected_map_XE l : xrejected (map XE l) = rejected l.
Proof. induction l as [|e l IH]; cbn; [reflexivity|]. destruct e; cbn; try exact IH; reflexivity. Qed.
Lemma xrejected_repeat_dealt x n : xrejected (repeat (xdealt x) n) = false.
Proof. induction n; cbn; auto. Qed.
Lemma xset_u_id s : xset_u s (x_u s) = s.
Proof. destruct s; reflexivity. Qed.

Lemma chain_ticks_norej tbl h : forall n k, xrejected (fst (chain_ticks tbl h n k)) = false.
Proof.
  induction n as [|n IH]; intros k; cbn; [reflexivity|].
  specialize (IH (stk_inc k 1)). destruct (chain_ticks tbl h n (stk_inc k 1)) as [es k']. cbn in *. exact IH.
Qed.

Lemma jt_loop_norej : forall fuel mx pd q t prev f acc q' f' es,
  jt_loop fuel mx pd q t prev f acc = Some (q', f', es) -> xrejected acc = false -> xrejected es = false.
Proof.
  induction fuel as [|fl IH]; intros mx pd q t prev f acc q' f' es H A; cbn in H.
  - destruct (t <=? 0); [|discriminate]. injection H as _ _ <-. exact A.
  - destruct (t <=? 0); [injection H as _ _ <-; exact A|].
    destruct (P.step q t) as [q1 t1]. destruct (mx <=? P.cnt q1); [injection H as _ _ <-; exact A|].
    destruct (P.cnt q1 =? prev); [eapply IH; eauto|].
    destruct (if (P.cnt q1 + 1) mod 5 =? 0 then use_frost f else (f, sk f)) as [f1 m].
    eapply IH; [exact H|]. rewrite xrejected_app, A. reflexivity.
Qed.
Lemma tb_loop_norej : forall fuel mx tbl h shock q t prev f acc q' f' es,
  tb_loop fuel mx tbl h shock q t prev f acc = Some (q', f', es) -> xrejected acc = false -> xrejected es = false.
Proof.
  induction fuel as [|fl IH]; intros mx tbl h shock q t prev f acc q' f' es H A; cbn in H.
  - destruct (t <=? 0); [|discriminate]. injection H as _ _ <-. exact A.
  - destruct (t <=? 0); [injection H as _ _ <-; exact A|].
    destruct (P.step q t) as [q1 t1]. destruct (mx <? P.cnt q1); [injection H as _ _ <-; exact A|].
    destruct (prev =? P.cnt q1); [eapply IH; eauto|].
    destruct (use_frost f) as [f1 m].
    eapply IH; [exact H|]. rewrite xrejected_app, A. reflexivity.
Qed.

Ltac xnorej :=
  repeat (rewrite ?xrejected_app, ?xrejected_map_XE, ?xrejected_repeat_dealt, ?rejected_app, ?rejected_repeat_dealt;
          cbn [xrejected existsb xis_reject orb xdealt dealt mobdot rejected is_reject map app]);
  try reflexivity; try discriminate.

(* ------------------------------------------------------------ C07 *)
(* every modelled reducer (FlameSwipVI.use included, after the repair 385777f): a rejection is alone
   and the state is untouched *)
Lemma xreject_alone pe fuel c m p t s s' es :
  xreduce pe fuel c m p t s = Some (s', es) -> xrejected es = true -> es = [XE EReject] /\ s' = s.
Proof.
  intros H R.
  destruct c, m; cbn [xreduce] in H; try discriminate;
    unfold cd_elapse, lift, har_stack, tc_attack, use_buff_trait, elapse_buff_trait, elapse_simple_attack,
      use_periodic_with_simple, use_periodic, elapse_periodic_with, cf_elapse, use_simple_attack in H;
    cbn [fst snd] in H;
    repeat match type of H with
      | context [if ?b then _ else _] => destruct b eqn:?
      | context [let '(_, _) := ?x in _] => destruct x eqn:?
      end;
    cbn [fst snd map] in H;
    try (injection H as <- <-; first [ split; [reflexivity | try apply xset_u_id; reflexivity] | exfalso; revert R; xnorej ]).
  - (* PoisonChain elapse *)
    pose proof (chain_ticks_norej (xp_tbl p) (snd (p_pd1 (xp p))) (ticks (u_p1 (x_u s)) (pe (u_p1 (x_u s)) t)) (x_stk s)) as X.
    rewrite Heqp0 in X. cbn [fst] in X. unfold xrejected in X. intros Y. congruence.
  - (* JupyterThunder elapse *)
    destruct (jt_loop _ _ _ _ _ _ _ _) as [[[q1 f] l]|] eqn:E; [|discriminate]. injection H as <- <-.
    exfalso. pose proof (jt_loop_norej _ _ _ _ _ _ _ _ _ _ _ E eq_refl) as X. change (xrejected l = true) in R. congruence.
  - (* ThunderBreak elapse *)
    destruct (tb_loop _ _ _ _ _ _ _ _ _ _) as [[[q1 f] l]|] eqn:E; [|discriminate]. injection H as <- <-.
    exfalso. pose proof (tb_loop_norej _ _ _ _ _ _ _ _ _ _ _ _ _ E eq_refl) as X. change (xrejected l = true) in R. congruence.
  - (* ChainLightningVI use *)
    destruct (use_frost (x_frost s)) as [f' m0]. injection Heqx as _ <-. discriminate.
Qed.

Lemma xreject_alone_spec c m p t s s' es :
  xreduce_spec c m p t s = Some (s', es) -> xrejected es = true -> es = [XE EReject] /\ s' = s.
Proof. apply xreject_alone. Qed.

(* only `use` can reject: elapse and the listening reducers (trigger, stack, explode, increase_*,
   reset_cooldown) never do *)
Lemma xonly_use_rejects pe fuel c m p t s s' es :
  m <> XUse -> xreduce pe fuel c m p t s = Some (s', es) -> xrejected es = false.
Proof.
  intros Hm H. destruct (xrejected es) eqn:R; [|reflexivity]. exfalso.
  destruct (xreject_alone pe fuel c m p t s s' es H R) as [-> ->].
  destruct c, m; try congruence; cbn [xreduce] in H; try discriminate;
    unfold cd_elapse, lift, har_stack, elapse_buff_trait, elapse_simple_attack, elapse_periodic_with, cf_elapse in H;
    cbn [fst snd map] in H;
    repeat match type of H with
      | context [if ?b then _ else _] => destruct b eqn:?
      | context [let '(_, _) := ?x in _] => destruct x eqn:?
      | context [match ?x with Some _ => _ | None => _ end] => destruct x as [[[? ?] ?]|] eqn:?
      end; try discriminate; injection H as _ H; try discriminate.
  all: destruct (ticks _ _); discriminate.
Qed.

(* Using a skill that is cooling down is a no-op reported as one rejection (every class with a
   `use`) *)
Definition has_use (c : xcomp) : bool := match c with FerventDrain | FrostEffect => false | _ => true end.
Lemma xnot_ready_noop c p t s :
  has_use c = true -> 0 < u_cd (x_u s) -> xreduce_spec c XUse p t s = Some (s, [XE EReject]).
Proof.
  intros Hu Hcd. assert (A : avail (x_u s) = false) by (unfold avail; apply Z.leb_gt; lia).
  destruct c; try discriminate; try congruence; cbn;
    unfold lift, use_buff_trait, use_periodic_with_simple, use_periodic, use_simple_attack; rewrite ?A; cbn; rewrite ?xset_u_id; reflexivity.
Qed.

Definition x0 : xst :=
  mkX (mkU 0 0 0 0 (C.mkC 1 1 1 1) (P.mkP 1 1 0 0) (P.mkP 1 1 0 0) (P.mkP 1 1 0 0) None None None (K.mkK 1 0 (-1)) 0)
      (mkStk 1 3) None (mkStk 2 5) (P.mkP 120 120 0 0) (mkDrain 5 5) (mkNova 0 100000) (mkCF [] 1000 4000 4 0 7000 0).
Definition x0_cooling : xst := xset_u x0 (set_cd (x_u x0) 500).
Definition xp0 : xpar :=
  mkXP (mkPar false (7, 1) 600 1000 0 20000 20000 2%nat [] (8, 1) (0, 0) (0, 0) (9, 1) 0 (10, 1) 0 0 3 0 (11, 10000))
       5 true [20; 21; 22; 23; 24; 25; 26] 2 4000 2 8 5000 70 3 115.

(* FlameSwipVI.use before the repair 385777f appended the DOT event and bumped the stack on a
   rejected use; the repaired reducer returns the rejection alone (regression example on the old witness) *)
Example flameswip_reject_repaired :
  xreduce_spec FlameSwipVI XUse xp0 0 x0_cooling = Some (x0_cooling, [XE EReject]).
Proof. reflexivity. Qed.

(* non-vacuity: an ordinary class rejects on the same state *)
Example xreject_happens :
  xreduce_spec ThunderAttack XUse xp0 0 x0_cooling = Some (x0_cooling, [XE EReject]) /\
  xreduce_spec HexaAngelRay XUse xp0 0 x0_cooling = Some (x0_cooling, [XE EReject]) /\
  xreduce_spec ChainLightningVI XUse xp0 0 x0_cooling = Some (x0_cooling, [XE EReject]).
Proof. repeat split. Qed.

(* ------------------------------------------------------------ C10 *)
Lemma xvalidity_time_left_nonneg c p s v : xview_validity c p s = Some v -> 0 <= v_time_left v.
Proof.
  destruct c; cbn; intros H; try discriminate; injection H as <-; unfold xcd_validity, cd_validity; cbn; lia.
Qed.

(* valid -> accepted, every class with a validity view (FlameSwipVI included) *)
Lemma xvalid_accepts c p t s v s' es :
  xview_validity c p s = Some v -> v_valid v = true ->
  xreduce_spec c XUse p t s = Some (s', es) -> xrejected es = false.
Proof.
  intros V Hv H.
  assert (A : avail (x_u s) = true).
  { destruct c; cbn in V; try discriminate; injection V as <-; cbn in Hv; try exact Hv.
    destruct (p_disable (xp p)); [discriminate|exact Hv]. }
  clear V Hv.
  destruct c; cbn in H; try discriminate;
    unfold lift, tc_attack, har_stack, use_buff_trait, use_periodic_with_simple, use_periodic, use_simple_attack in H;
    rewrite ?A in H; cbn [negb fst snd] in H; cbn iota in H;
    repeat match type of H with
      | context [if ?b then _ else _] => destruct b eqn:?
      | context [let '(_, _) := ?x in _] => destruct x eqn:?
      end;
    cbn [fst snd map rejected existsb is_reject dealt orb] in *; try discriminate;
    try (injection H as <- <-; xnorej).
  - (* ChainLightningVI *)
    destruct (use_frost (x_frost s)) as [f' m0]. injection Heqx as _ <-. reflexivity.
Qed.

(* the validity view is exactly "use would not be rejected" for the classes that cannot be
   invalidated by configuration *)
Lemma xvalidity_mirrors_use c p t s v s' es :
  c <> DivineMinion -> xview_validity c p s = Some v ->
  xreduce_spec c XUse p t s = Some (s', es) -> v_valid v = negb (xrejected es).
Proof.
  intros Hc V H. destruct (v_valid v) eqn:Hv.
  - rewrite (xvalid_accepts c p t s v s' es V Hv H). reflexivity.
  - assert (A : avail (x_u s) = false).
    { destruct c; cbn in V; try discriminate; try congruence; injection V as <-; exact Hv. }
    destruct c; cbn in H; try discriminate; try congruence;
      unfold lift, use_buff_trait, use_periodic_with_simple, use_periodic, use_simple_attack in H;
      rewrite ?A in H; cbn in H; injection H as _ <-; reflexivity.
Qed.

Example xvalid_state_exists :
  xview_validity ThunderAttack xp0 x0 = Some (mkV true 0 None) /\
  xview_validity ThunderAttack xp0 x0_cooling = Some (mkV false 500 None) /\
  xview_buff Infinity xp0 (xset_u x0 (set_las (x_u x0) 9000 20000)) = Some (76 * 1).
Proof. repeat split. Qed.

Lemma xonly_use_rejects_spec c m p t s s' es :
  m <> XUse -> xreduce_spec c m p t s = Some (s', es) -> xrejected es = false.
Proof. apply xonly_use_rejects. Qed.
