(* C10, store-access part of the status views (Model/DispatchViews.v): presence of the bound addresses
   is exactly the guard under which a view evaluates; it is established by initialisation, preserved
   by every dispatch and every play, hence views never raise and are read-only on reachable stores;
   the buff aggregation is the fold of `add` and does not depend on the installation order. *)
From Coq Require Import List Bool Arith String Ascii ZArith Lia Permutation.
From V.Model Require Import Router Play Dispatch DispatchViews.
From V.Proofs Require Import RouterCache DispatchStore DispatchRouter DispatchPlay.
Import ListNotations.
Local Open Scope string_scope.

Section ViewsP.
  Variables Ent Pay V : Type.
  Variable empty_pay : Pay.
  Variable clock0 : Ent.
  Variable spent : Ent -> Pay -> option Ent.
  Variable pnone : Pay.
  Variable ptime : Z -> Pay.

  Notation component := (Dispatch.component Ent Pay).
  Notation store := (Dispatch.store Ent).
  Notation inst := (Dispatch.inst Ent Pay).
  Notation rst := (Dispatch.rst Ent Pay).
  Notation action := (Dispatch.action Pay).
  Notation event := (Dispatch.event Pay).
  Notation bound_addrs := (Dispatch.bound_addrs Ent Pay).
  Notation bound_names := (Dispatch.bound_names Ent Pay).
  Notation comp_addr := (Dispatch.comp_addr Ent Pay).
  Notation present := (DispatchStore.present Ent).
  Notation pres_le := (DispatchStore.pres_le Ent).
  Notation agree_outside := (DispatchStore.agree_outside Ent).
  Notation view_call := (DispatchViews.view_call Ent Pay V).
  Notation view_fn := (DispatchViews.view_fn Ent V).
  Notation cview := (DispatchViews.cview Ent Pay V).
  Notation agg_call := (DispatchViews.agg_call Ent Pay V).
  Notation clock_view := (DispatchViews.clock_view Ent).
  Notation installed := (Dispatch.installed Ent Pay empty_pay clock0 spent).
  Notation dispatch_c := (Dispatch.dispatch_c Ent Pay).
  Notation pst := (Dispatch.pst Ent Pay).
  Notation prouter := (Dispatch.prouter Ent Pay pnone ptime).
  Notation pplay := (Dispatch.pplay Ent Pay pnone ptime).
  Notation paction := (Play.action Pay string string (option string)).
  Notation pstore := (Play.store pst Pay string string (option string)).
  Notation run_queue := (Play.run_queue pst Pay string string (option string)).
  Notation own_addrs := (DispatchViews.own_addrs Ent Pay).
  Notation init_addrs := (DispatchViews.init_addrs Ent Pay).
  Notation initial_store := (DispatchViews.initial_store Ent Pay).
  Notation binds_closed := (DispatchViews.binds_closed Ent Pay).

  (* ---------------------------------------------------------------- one view call *)
  (* sufficient: every bound name is present or has a default *)
  Lemma read_all_total cur defs : forall names st,
    (forall n a, In (n, a) names -> present st (resolve cur a) \/ dget defs n <> None) ->
    exists st' fs, read_all Ent cur defs names st = Some (st', fs).
  Proof.
    induction names as [|[n a] r IH]; intros st H; cbn; [eauto|].
    assert (R : exists st1 e, read_entity Ent st (resolve cur a) (dget defs n) = Some (st1, e)).
    { unfold read_entity. destruct (dget st (resolve cur a)) as [v|] eqn:G; [eauto|].
      destruct (dget defs n) as [d|] eqn:D; [eauto|].
      destruct (H n a (or_introl eq_refl)) as [P|P]; [exfalso; apply P; exact G|exfalso; apply P; exact D]. }
    destruct R as (st1 & e & R). rewrite R.
    apply read_entity_spec in R. destruct R as (_ & P1 & _).
    destruct (IH st1) as (st2 & fs & E).
    - intros n' a' I. destruct (H n' a' (or_intror I)) as [P|P]; [left; apply P1; exact P|right; exact P].
    - rewrite E. eauto.
  Qed.

  Theorem view_total (c : component) (vf : view_fn) (st : store) :
    (forall n a, In (n, a) (bound_names c) -> present st (resolve (comp_addr c) a) \/ dget (c_default c) n <> None) ->
    exists st' v, view_call c vf st = Some (st', v).
  Proof.
    intros H. unfold DispatchViews.view_call, get_state.
    destruct (read_all_total (comp_addr c) (c_default c) (bound_names c) st H) as (st' & fs & E).
    rewrite E. eauto.
  Qed.

  (* all present: evaluates, and the store is returned as it was (read-only) *)
  Theorem view_present_read_only (c : component) (vf : view_fn) (st : store) :
    (forall x, In x (bound_addrs c) -> present st x) ->
    exists fs, get_state Ent Pay c st = Some (st, fs) /\ view_call c vf st = Some (st, vf fs).
  Proof.
    intros H.
    destruct (read_all_total (comp_addr c) (c_default c) (bound_names c) st) as (st' & fs & E).
    { intros n a I. left. apply H. rewrite bound_addrs_eq. unfold addrs_of.
      apply (in_map (fun kv => resolve (comp_addr c) (snd kv))) in I. exact I. }
    pose proof (read_all_spec Ent _ _ _ _ _ _ E) as (_ & _ & _ & S).
    destruct S as [Es _]; [rewrite <- bound_addrs_eq; exact H|]. subst st'.
    exists fs. unfold DispatchViews.view_call, get_state. rewrite E. split; reflexivity.
  Qed.

  (* necessary: after a successful call every bound address is present, and only addresses of DEFAULTED
     names can have been created; so an absent bound address that no defaulted name resolves to makes
     the call raise *)
  Definition defaulted_addrs (c : component) : list string :=
    map (fun kv => resolve (comp_addr c) (snd kv))
        (filter (fun kv => match dget (c_default c) (fst kv) with Some _ => true | None => false end) (bound_names c)).

  Lemma read_all_necessary cur defs : forall names st st' fs,
    read_all Ent cur defs names st = Some (st', fs) ->
    (forall x, In x (addrs_of cur names) -> present st' x) /\
    agree_outside (map (fun kv => resolve cur (snd kv))
                       (filter (fun kv => match dget defs (fst kv) with Some _ => true | None => false end) names)) st st'.
  Proof.
    induction names as [|[n a] r IH]; intros st st' fs; cbn.
    - intros H; inversion H; subst. split; [intros x []|apply agree_refl].
    - destruct (read_entity Ent st (resolve cur a) (dget defs n)) as [[st1 e]|] eqn:R; [|discriminate].
      destruct (read_all Ent cur defs r st1) as [[st2 fs2]|] eqn:RA; [|discriminate].
      intros H; inversion H; subst.
      destruct (IH _ _ _ RA) as [P2 A2].
      pose proof (read_all_spec Ent _ _ _ _ _ _ RA) as (_ & PL & _).
      pose proof R as R'. apply read_entity_spec in R'. destruct R' as (A1 & _ & P1 & _ & S1).
      split.
      + intros x [E|I]; [subst x; apply PL; exact P1|apply P2; exact I].
      + destruct (dget defs n) as [d|] eqn:D; cbn [filter map].
        * eapply agree_trans.
          -- eapply agree_weaken; [|exact A1]. intros x [E|[]]. left. exact E.
          -- eapply agree_weaken; [|exact A2]. intros x I. right. exact I.
        * (* no default: the read did not write *)
          assert (st1 = st).
          { unfold read_entity in R. destruct (dget st (resolve cur a)); inversion R; reflexivity. }
          subst st1. exact A2.
  Qed.

  Theorem view_raises_when_absent (c : component) (vf : view_fn) (st : store) (x : string) :
    In x (bound_addrs c) -> ~ In x (defaulted_addrs c) -> ~ present st x -> view_call c vf st = None.
  Proof.
    intros I ND NP. unfold DispatchViews.view_call, get_state.
    destruct (read_all Ent (comp_addr c) (c_default c) (bound_names c) st) as [[st' fs]|] eqn:E; [|reflexivity].
    exfalso. apply read_all_necessary in E. destruct E as [P A].
    apply NP. unfold DispatchStore.present. rewrite <- (A x ND). apply P. rewrite <- bound_addrs_eq. exact I.
  Qed.

  (* ---------------------------------------------------------------- the invariant *)
  Definition all_present (cs : list component) (st : store) : Prop :=
    (forall c, In c cs -> forall x, In x (bound_addrs c) -> present st x) /\ present st clock_addr.

  Lemma all_present_mono cs st st' : pres_le st st' -> all_present cs st -> all_present cs st'.
  Proof. intros L [H1 H2]. split; [intros c Ic x Ix; apply L, (H1 c Ic x Ix)|apply L, H2]. Qed.

  (* presence only grows: any router dispatch, any cache *)
  Theorem presence_kept_by_dispatch (sys : list inst) (cs : list component) fuel c a s c' s' evs :
    dispatch_c fuel (installed sys) c a s = (c', Some (s', evs)) ->
    all_present cs (fst s) -> all_present cs (fst s').
  Proof. intros H. apply router_frame_coarse in H. destruct H as [_ L]. apply all_present_mono. exact L. Qed.

  Lemma prouter_pres (sys : list inst) fuel (a : paction) (s : pst) :
    pres_le (p_store s) (p_store (fst (prouter fuel (installed sys) a s))).
  Proof.
    unfold Dispatch.prouter. destruct (p_ok s); [|apply pres_refl].
    destruct (dispatch_c fuel (installed sys) (p_cache s) (act_of Pay pnone ptime a) (p_store s, p_trace s))
      as [c' [[[st' tr'] evs]|]] eqn:D; cbn; [|apply pres_refl].
    apply router_frame_coarse in D. destruct D as [_ L]. exact L.
  Qed.
  Lemma run_queue_pres (sys : list inst) fuel : forall q s,
    pres_le (p_store s) (p_store (fst (fst (run_queue (prouter fuel (installed sys)) q s)))).
  Proof.
    induction q as [|a r IH]; intros s; cbn; [apply pres_refl|].
    pose proof (prouter_pres sys fuel a s) as L1.
    destruct (prouter fuel (installed sys) a s) as [s1 e1]. cbn in L1.
    specialize (IH s1). destruct (run_queue (prouter fuel (installed sys)) r s1) as [[s2 e2] tr]. cbn in *.
    eapply pres_trans; eauto.
  Qed.
  (* ... any play (also one in which a dispatch raised: the model then keeps the store) *)
  Theorem presence_kept_by_play (sys : list inst) (cs : list component) fuel (st : pstore) (a : paction) :
    all_present cs (p_store (ent _ _ _ _ _ st)) ->
    all_present cs (p_store (ent _ _ _ _ _ (fst (fst (pplay fuel (installed sys) st a))))).
  Proof.
    unfold Dispatch.pplay, Play.play.
    pose proof (run_queue_pres sys fuel (queue Pay string string (option string) (cbs _ _ _ _ _ st) a) (ent _ _ _ _ _ st)) as L.
    destruct (run_queue (prouter fuel (installed sys)) (queue Pay string string (option string) (cbs _ _ _ _ _ st) a) (ent _ _ _ _ _ st))
      as [[s1 E1] tr1]. cbn in *. apply all_present_mono. exact L.
  Qed.

  (* ---- established by initialisation *)
  Lemma init_defaults_spec cur : forall defs st,
    pres_le st (init_defaults Ent cur defs st) /\
    forall n, In n (map fst defs) -> present (init_defaults Ent cur defs st) (resolve cur n).
  Proof.
    induction defs as [|[n e] r IH]; intros st; cbn; [split; [apply pres_refl|intros n []]|].
    destruct (read_entity Ent st (resolve cur n) (Some e)) as [[st1 e1]|] eqn:R.
    - apply read_entity_spec in R. destruct R as (_ & P1 & Pa & _).
      destruct (IH st1) as [L H]. split; [eapply pres_trans; eauto|].
      intros n' [E|I]; [subst n'; apply L; exact Pa|apply H; exact I].
    - exfalso. unfold read_entity in R. destruct (dget st (resolve cur n)); discriminate.
  Qed.

  Lemma init_fold_spec : forall cs st,
    pres_le st (fold_left (DispatchViews.init_comp Ent Pay) cs st) /\
    forall x, In x (flat_map own_addrs cs) -> present (fold_left (DispatchViews.init_comp Ent Pay) cs st) x.
  Proof.
    induction cs as [|c r IH]; intros st; cbn [fold_left flat_map]; [split; [apply pres_refl|intros x []]|].
    destruct (init_defaults_spec (comp_addr c) (c_default c) st) as [L1 H1].
    destruct (IH (DispatchViews.init_comp Ent Pay st c)) as [L2 H2].
    split; [eapply pres_trans; [exact L1|exact L2]|].
    intros x I. apply in_app_or in I. destruct I as [I|I]; [|apply H2; exact I].
    apply L2. unfold DispatchViews.own_addrs in I. apply in_map_iff in I. destruct I as ([n e] & E & I). subst x.
    apply H1. apply (in_map fst) in I. exact I.
  Qed.

  Theorem presence_established_by_init (dyn clk : Ent) (cs : list component) :
    binds_closed cs = true -> all_present cs (initial_store dyn clk cs).
  Proof.
    intros BC. unfold DispatchViews.initial_store.
    destruct (init_fold_spec cs (DispatchViews.bare_store Ent dyn clk)) as [L H].
    assert (G : forall x, In x (init_addrs cs) -> present (fold_left (DispatchViews.init_comp Ent Pay) cs (DispatchViews.bare_store Ent dyn clk)) x).
    { intros x [E|[E|I]]; [| |apply H; exact I]; subst x; apply L; unfold DispatchStore.present, DispatchViews.bare_store;
        rewrite dget_dset; cbn; discriminate. }
    split.
    - intros c Ic x Ix. apply G. unfold DispatchViews.binds_closed in BC. rewrite forallb_forall in BC.
      specialize (BC c Ic). rewrite forallb_forall in BC. specialize (BC x Ix). apply existsb_exists in BC.
      destruct BC as (y & Iy & E). apply String.eqb_eq in E. subst y. exact Iy.
    - apply G. right. left. reflexivity.
  Qed.

  (* ---- reachable stores *)
  Inductive reachable (sys : list inst) (fuel : nat) (st0 : store) : pstore -> Prop :=
  | reach_init ps : p_store (ent _ _ _ _ _ ps) = st0 -> reachable sys fuel st0 ps
  | reach_play ps a : reachable sys fuel st0 ps -> reachable sys fuel st0 (fst (fst (pplay fuel (installed sys) ps a))).

  Theorem presence_invariant (sys : list inst) fuel (dyn clk : Ent) (cs : list component) (ps : pstore) :
    binds_closed cs = true -> reachable sys fuel (initial_store dyn clk cs) ps ->
    all_present cs (p_store (ent _ _ _ _ _ ps)).
  Proof.
    intros BC R. induction R as [ps E|ps a R IH].
    - rewrite E. apply presence_established_by_init. exact BC.
    - apply presence_kept_by_play. exact IH.
  Qed.

  (* ---------------------------------------------------------------- views under the invariant *)
  Lemma agg_present (cs : list component) (st : store) : all_present cs st ->
    forall children : list cview, (forall cv, In cv children -> In (cv_comp cv) cs) ->
    exists rs, agg_call children st = Some (st, rs) /\
               Forall2 (fun cv r => view_call (cv_comp cv) (cv_fn cv) st = Some (st, r)) children rs.
  Proof.
    intros [AP _]. induction children as [|cv r IH]; intros Hin; cbn.
    - exists []. split; [reflexivity|constructor].
    - destruct (view_present_read_only (cv_comp cv) (cv_fn cv) st) as (fs & _ & E).
      { apply AP. apply Hin. left. reflexivity. }
      rewrite E. destruct IH as (rs & E2 & F); [intros x I; apply Hin; right; exact I|].
      rewrite E2. eexists. split; [reflexivity|]. constructor; assumption.
  Qed.

  Lemma clock_present (st : store) : present st clock_addr ->
    exists ck, clock_view clock0 st = Some (st, ck).
  Proof.
    intros P. unfold DispatchViews.clock_view, read_entity. rewrite clock_resolved.
    destruct (dget st clock_addr) as [v|] eqn:G; [eauto|exfalso; apply P; exact G].
  Qed.

  (* in every store reachable from the initial store by plays: every component view, every aggregation
     view and the clock view evaluate (no ValueError from store access) and return the store unchanged *)
  Theorem views_never_raise_on_reachable (sys : list inst) fuel (dyn clk : Ent) (cs : list component) (ps : pstore) :
    binds_closed cs = true -> reachable sys fuel (initial_store dyn clk cs) ps ->
    let st := p_store (ent _ _ _ _ _ ps) in
    (forall c (vf : view_fn), In c cs -> exists v, view_call c vf st = Some (st, v)) /\
    (forall children : list cview, (forall cv, In cv children -> In (cv_comp cv) cs) ->
       exists rs, agg_call children st = Some (st, rs) /\ List.length rs = List.length children) /\
    (exists ck, clock_view clock0 st = Some (st, ck)).
  Proof.
    intros BC R. pose proof (presence_invariant sys fuel dyn clk cs ps BC R) as AP. cbn zeta.
    split; [|split].
    - intros c vf Ic. destruct (view_present_read_only c vf (p_store (ent _ _ _ _ _ ps))) as (fs & _ & E).
      + destruct AP as [AP _]. apply AP. exact Ic.
      + eauto.
    - intros children Hin. destruct (agg_present cs _ AP children Hin) as (rs & E & F).
      exists rs. split; [exact E|]. clear - F. induction F; cbn; congruence.
    - apply clock_present. destruct AP as [_ P]. exact P.
  Qed.

  (* read-only, stated on its own: under the invariant no view call changes the store (the only write a
     view can make is the setdefault of an absent defaulted entity) *)
  Theorem views_read_only (cs : list component) (st : store) : all_present cs st ->
    (forall c (vf : view_fn) st' v, In c cs -> view_call c vf st = Some (st', v) -> st' = st) /\
    (forall (children : list cview) st' rs, (forall cv, In cv children -> In (cv_comp cv) cs) ->
       agg_call children st = Some (st', rs) -> st' = st) /\
    (forall st' ck, clock_view clock0 st = Some (st', ck) -> st' = st).
  Proof.
    intros AP. split; [|split].
    - intros c vf st' v Ic H. destruct (view_present_read_only c vf st) as (fs & _ & E).
      + destruct AP as [AP _]. apply AP. exact Ic.
      + rewrite E in H. inversion H. reflexivity.
    - intros children st' rs Hin H. destruct (agg_present cs st AP children Hin) as (rs' & E & _).
      rewrite E in H. inversion H. reflexivity.
    - intros st' ck H. destruct AP as [_ P]. destruct (clock_present st P) as (ck' & E). rewrite E in H. inversion H. reflexivity.
  Qed.
  (* in general (no invariant): a view call never removes anything and writes only defaulted bound addresses *)
  Theorem view_frame (c : component) (vf : view_fn) (st st' : store) v :
    view_call c vf st = Some (st', v) -> agree_outside (defaulted_addrs c) st st' /\ pres_le st st'.
  Proof.
    unfold DispatchViews.view_call, get_state.
    destruct (read_all Ent (comp_addr c) (c_default c) (bound_names c) st) as [[st1 fs]|] eqn:E; [|discriminate].
    intros H; inversion H; subst.
    split; [apply (read_all_necessary _ _ _ _ _ _ E)|apply (read_all_spec Ent _ _ _ _ _ _ E)].
  Qed.

  (* under the invariant the results of an aggregation do not depend on the order of its children *)
  Lemma forall2_perm {A B} (R : A -> B -> Prop) (l l' : list A) : Permutation l l' ->
    forall rs, Forall2 R l rs -> exists rs', Forall2 R l' rs' /\ Permutation rs rs'.
  Proof.
    induction 1 as [|x l l' P IH|x y l|l l1 l2 P1 IH1 P2 IH2]; intros rs F.
    - inversion F; subst. exists []. split; constructor.
    - inversion F; subst. destruct (IH _ H3) as (rs' & F' & P'). exists (y :: rs'). split; constructor; assumption.
    - inversion F; subst. inversion H3; subst. exists (y1 :: y0 :: l'0). split; [repeat constructor; assumption|apply perm_swap].
    - destruct (IH1 _ F) as (r1 & F1 & Q1). destruct (IH2 _ F1) as (r2 & F2 & Q2). exists r2. split; [exact F2|eapply perm_trans; eauto].
  Qed.

  Theorem agg_order_irrelevant (cs : list component) (st : store) (children children' : list cview) rs :
    all_present cs st -> (forall cv, In cv children -> In (cv_comp cv) cs) -> Permutation children children' ->
    agg_call children st = Some (st, rs) ->
    exists rs', agg_call children' st = Some (st, rs') /\ Permutation rs rs'.
  Proof.
    intros AP Hin P H.
    destruct (agg_present cs st AP children Hin) as (r0 & E0 & F0). rewrite E0 in H. inversion H; subst r0.
    assert (Hin' : forall cv, In cv children' -> In (cv_comp cv) cs).
    { intros cv I. apply Hin. eapply Permutation_in; [apply Permutation_sym; exact P|exact I]. }
    destruct (agg_present cs st AP children' Hin') as (r1 & E1 & F1).
    exists r1. split; [exact E1|].
    destruct (forall2_perm _ _ _ P _ F0) as (r2 & F2 & Q).
    assert (r2 = r1).
    { clear - F1 F2. revert r1 F1. induction F2 as [|cv r l rs' H F IH]; intros r1 F1; inversion F1; subst; [reflexivity|].
      rewrite H in H2. inversion H2; subst. f_equal. apply IH. assumption. }
    subst r2. exact Q.
  Qed.
End ViewsP.

(* ------------------------------------------------------------------ the buff aggregation *)
Section BuffP.
  Variables B : Type.
  Variable add : B -> B -> B.
  Variable zero : B.
  Variable eqv : B -> B -> Prop.                     (* C11: Stat_seq, field-wise Qeq *)
  Hypothesis eqv_refl : forall a, eqv a a.
  Hypothesis eqv_sym : forall a b, eqv a b -> eqv b a.
  Hypothesis eqv_trans : forall a b c, eqv a b -> eqv b c -> eqv a c.
  Hypothesis add_proper_l : forall a a' b, eqv a a' -> eqv (add a b) (add a' b).
  Hypothesis add_comm : forall a b, eqv (add a b) (add b a).                      (* C11_stat_add_comm *)
  Hypothesis add_assoc : forall a b c, eqv (add (add a b) c) (add a (add b c)).   (* C11_stat_add_assoc *)
  Hypothesis add_proper_r : forall a b b', eqv b b' -> eqv (add a b) (add a b').

  Lemma fold_proper l : forall z z', eqv z z' -> eqv (fold_left add l z) (fold_left add l z').
  Proof. induction l as [|x l IH]; intros z z' E; cbn; [exact E|]. apply IH. apply add_proper_l. exact E. Qed.

  Lemma fold_perm l l' : Permutation l l' -> forall z, eqv (fold_left add l z) (fold_left add l' z).
  Proof.
    induction 1 as [|x l l' P IH|x y l|l l1 l2 P1 IH1 P2 IH2]; intros z; cbn.
    - apply eqv_refl.
    - apply IH.
    - apply fold_proper.
      (* (z + y) + x  ~  (z + x) + y *)
      eapply eqv_trans; [apply add_assoc|]. eapply eqv_trans; [apply add_proper_r, add_comm|].
      apply eqv_sym, add_assoc.
    - eapply eqv_trans; [apply IH1|apply IH2].
  Qed.

  Lemma somes_perm (rs rs' : list (option B)) : Permutation rs rs' -> Permutation (somes B rs) (somes B rs').
  Proof. unfold somes. apply Permutation_flat_map. Qed.

  Theorem buff_total_perm (rs rs' : list (option B)) : Permutation rs rs' ->
    eqv (buff_total B add zero rs) (buff_total B add zero rs').
  Proof. intros P. unfold buff_total. apply fold_perm. apply somes_perm. exact P. Qed.

  Variables Ent Pay : Type.
  (* BuffParentView: the fold of `add`, from `zero`, over the component buffs that are Some, in
     installation order; the store is untouched and the value does not depend on the installation order *)
  Theorem total_buff_is_sum (cs : list (Dispatch.component Ent Pay)) (st : Dispatch.store Ent)
          (children : list (cview Ent Pay (option B))) :
    all_present Ent Pay cs st -> (forall cv, In cv children -> In (cv_comp cv) cs) ->
    exists rs, agg_call Ent Pay (option B) children st = Some (st, rs) /\
               buff_view Ent Pay B add zero children st = Some (st, fold_left add (somes B rs) zero) /\
               forall children', Permutation children children' ->
                 exists total', buff_view Ent Pay B add zero children' st = Some (st, total') /\
                                eqv (fold_left add (somes B rs) zero) total'.
  Proof.
    intros AP Hin. destruct (agg_present Ent Pay (option B) cs st AP children Hin) as (rs & E & _).
    exists rs. split; [exact E|]. split; [unfold buff_view; rewrite E; reflexivity|].
    intros children' P.
    destruct (agg_order_irrelevant Ent Pay (option B) cs st children children' rs AP Hin P E) as (rs' & E' & Q).
    exists (buff_total B add zero rs'). split; [unfold buff_view; rewrite E'; reflexivity|].
    apply buff_total_perm. exact Q.
  Qed.
End BuffP.
