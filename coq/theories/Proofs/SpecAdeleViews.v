(* C10 for the classes of the `adele` extension: validity never reports a negative remaining time and a
   skill advertised as usable is accepted when used; for the adele skills whose use also needs ether or
   swords the validity view is EXACTLY `use would not be rejected`. *)
From Coq Require Import ZArith List Bool Lia.
From V.Model Require Import Comp SpecAdele.
From V.Proofs Require Import CompReject SpecAdeleReject.
Import ListNotations.
Open Scope Z_scope.
Local Arguments sword_count : simpl never.

Lemma xvalidity_time_left_nonneg c p s v : xview_validity c p s = Some v -> 0 <= v_time_left v.
Proof. destruct c; cbn; intros H; try discriminate; injection H as <-; unfold cd_validity; cbn; lia. Qed.

Lemma xvalid_accepts c p t s s' es v :
  xview_validity c p s = Some v -> v_valid v = true ->
  xreduce_spec c XUse p t s = Some (s', es) -> rejected es = false.
Proof.
  intros V Hv H.
  destruct c; cbn in V; try discriminate; injection V as <-; cbn in Hv, H; try discriminate;
    unfold cd_validity in Hv; cbn in Hv;
    try (destruct (p_disable (xp p)); [discriminate|]);
    unfold lift, use_buff_trait, use_periodic_with_simple, use_consumable_buff_trait, use_multiple in H;
    repeat match goal with Hx : _ && _ = true |- _ => apply andb_prop in Hx; destruct Hx end;
    repeat match goal with Hx : ?b = true |- _ => rewrite Hx in H end; cbn [negb andb fst snd] in H;
    try (injection H as <- <-; xnorej).
  - (* storm *)
    rewrite Z.leb_antisym in H.
    match goal with Hx : (0 <? sword_count s) = true |- _ => rewrite Hx in H end.
    cbn in H. injection H as <- <-. reflexivity.
Qed.

(* validity mirrors use exactly (Order: cooldown and ether; Blossom, Storm: cooldown and swords) *)
Lemma adele_validity_mirrors_use c p t s s' es v :
  (c = Order \/ c = Blossom \/ c = Storm) ->
  xview_validity c p s = Some v -> xreduce_spec c XUse p t s = Some (s', es) ->
  v_valid v = negb (rejected es).
Proof.
  intros Hc V H. destruct Hc as [-> | [-> | ->]]; cbn in V, H; injection V as <-; cbn [v_valid].
  - rewrite andb_comm in H. destruct (avail (x_u s) && order_valid p s); injection H as <- <-; reflexivity.
  - destruct (avail (x_u s) && (0 <? sword_count s)); injection H as <- <-; [|reflexivity].
    symmetry. apply negb_true_iff. xnorej.
  - unfold use_periodic_with_simple in H. rewrite Z.leb_antisym in H.
    destruct (0 <? sword_count s); cbn [negb] in H; rewrite ?andb_false_r, ?andb_true_r.
    + destruct (avail (x_u s)); cbn in H; injection H as <- <-; reflexivity.
    + injection H as <- <-; reflexivity.
Qed.

(* a gathering without swords is accepted (and deals nothing) although validity hides it: validity is
   sufficient for acceptance, not necessary *)
Example gathering_accepts_without_swords :
  exists v s' es, xview_validity Gathering x_p0 x_s0 = Some v /\ v_valid v = false /\
    xreduce_spec Gathering XUse x_p0 0 x_s0 = Some (s', es) /\ rejected es = false.
Proof. do 3 eexists. repeat split; vm_compute; reflexivity. Qed.

(* the views that carry no validity: always-on components *)
Lemma always_enabled_views p s :
  xview_validity AlwaysEnabled p s = None /\ xview_buff AlwaysEnabled p s = Some 1 /\
  xview_running AlwaysEnabled p s = Some (mkR (xp_inf p) (xp_inf p) None).
Proof. repeat split. Qed.

(* the running views report a non-negative stack *)
Lemma order_running_stack_nonneg p s r : xview_running Order p s = Some r -> exists k, r_stack r = Some k /\ 0 <= k.
Proof. cbn. intros H. injection H as <-. cbn. eexists. split; [reflexivity|]. unfold sword_count. lia. Qed.

(* the Cygnus multiplier never exceeds its configured maximum *)
Lemma cygnus_buff_capped p s b : xview_buff CygnusBlessing p s = Some b -> b <= xp_bmax p.
Proof. cbn. destruct (las_on (x_u s)); intros H; [|discriminate]. injection H as <-. lia. Qed.

Example xvalid_state_exists :
  exists v, xview_validity ProgrammedPeriodic x_p0 x_s0 = Some v /\ v_valid v = true.
Proof. eexists. split; vm_compute; reflexivity. Qed.
Example xvalid_order_state_exists :
  exists v, xview_validity Order x_p0 (setgauge x_s0 100) = Some v /\ v_valid v = true.
Proof. eexists. split; vm_compute; reflexivity. Qed.
