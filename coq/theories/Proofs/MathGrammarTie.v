(* The tables tools/tr_mathgrammar.py extracts from simaple/spec/_math.py on THIS run (gen/MathGrammar.v) are the
   tables the model implements; hence the theorems about the model's tables are theorems about the source's. *)
From Coq Require Import QArith List Bool String.
From V.Model Require Import Expr ExprParse.
From V.Proofs Require Import ExprParseP ExprSem.
From G Require MathGrammar.
Import ListNotations.

Theorem grammar_tie :
  MathGrammar.productions = model_productions /\
  MathGrammar.inlined_rules = model_inlined_rules /\
  MathGrammar.terminals = model_terminals /\
  MathGrammar.imports = model_imports /\
  MathGrammar.ignored = model_ignored /\
  MathGrammar.lark_call = model_lark_call.
Proof. vm_compute. repeat split; reflexivity. Qed.

Theorem optable_tie : MathGrammar.optable = model_optable /\ MathGrammar.entry = model_entry.
Proof. vm_compute. split; reflexivity. Qed.

(* every tree, printed with minimal parentheses, is a sentence of the SOURCE grammar with that tree as its value,
   and the model's parser returns that tree *)
Theorem source_grammar_roundtrip : forall e,
  der MathGrammar.productions "start" (print e) e /\ parse (print e) = Some e.
Proof.
  intros e. destruct grammar_tie as (-> & _). split; [apply print_der|apply parse_print].
Qed.

(* the Python expression of every semantic action of the SOURCE, read over exact rationals, is what eval computes
   for the node that action builds *)
Theorem source_actions_denote_eval : forall alias body es e r vs,
  In (alias, body) MathGrammar.optable -> build alias es = Some e ->
  Forall2 (fun e v => eval r e = Some v) es vs -> eval r e = pyden body vs.
Proof. destruct optable_tie as (-> & _). exact optable_sound. Qed.
