(* DFSTraversePatch._apply + ArithmeticPatch: what it computes exactly, where that is the property's reading,
   and where it is not. *)
From Coq Require Import QArith List Bool ZArith NArith String Lia.
From V.Model Require Import Expr ExprParse Doc.
Import ListNotations.

Section DocP.
  Variable Leaf : Type.
  Variable leaf_eqb : Leaf -> Leaf -> bool.
  Variable ev : Leaf -> option Leaf.
  Variable evk : Leaf -> option Leaf.
  Variable exclude_key : Leaf.

  Notation doc := (Doc.doc Leaf).
  Notation apply := (Doc.apply Leaf leaf_eqb ev evk exclude_key).
  Notation reading := (Doc.reading Leaf leaf_eqb ev exclude_key).
  Notation hooked := (Doc.hooked Leaf leaf_eqb ev evk exclude_key).
  Notation excluded := (Doc.excluded Leaf leaf_eqb exclude_key).
  Notation set := (Doc.set Leaf leaf_eqb).
  Notation mem := (Doc.mem Leaf leaf_eqb).
  Notation dict_of := (Doc.dict_of Leaf leaf_eqb).
  Notation distinct_keys := (Doc.distinct_keys Leaf leaf_eqb).
  Notation distinct_all := (Doc.distinct_all Leaf leaf_eqb).
  Notation is_container := (Doc.is_container Leaf).

  (* induction over nested documents *)
  Lemma doc_induction (Pd : doc -> Prop) :
    (forall l, Pd (DLeaf l)) ->
    (forall ds, Forall Pd ds -> Pd (DList ds)) ->
    (forall kvs, Forall (fun kv => Pd (snd kv)) kvs -> Pd (DDict kvs)) ->
    forall d, Pd d.
  Proof.
    intros HL HD HK. fix IH 1. intros [l|ds|kvs].
    - apply HL.
    - apply HD. induction ds as [|x r IHr]; constructor; [apply IH|exact IHr].
    - apply HK. induction kvs as [|[k v] r IHr]; constructor; [apply IH|exact IHr].
  Qed.

  (* the local loops of Model/Doc.v, named *)
  Definition listA (f : doc -> option doc) :=
    fix go (l : list doc) : option (list doc) :=
      match l with
      | [] => Some []
      | x :: r => match f x with
                  | Some x' => match go r with Some r' => Some (x' :: r') | None => None end
                  | None => None
                  end
      end.
  Definition goA (ex : list Leaf) :=
    fix go (l : list (Leaf * doc)) (acc : list (Leaf * doc)) : option (list (Leaf * doc)) :=
      match l with
      | [] => Some acc
      | (k, v) :: r =>
          if mem k ex then go r acc else
          match v with
          | DLeaf x => match ev k, ev x with
                       | Some k', Some x' => go r (set acc k' (DLeaf x'))
                       | _, _ => None
                       end
          | _ => match evk k, apply v with
                 | Some k', Some v' => go r (set acc k' v')
                 | _, _ => None
                 end
          end
      end.
  Definition goR (keyc : Leaf -> option Leaf) (mk : list (Leaf * doc) -> list (Leaf * doc)) (ex : list Leaf) :=
    fix go (l : list (Leaf * doc)) : option (list (Leaf * doc)) :=
      match l with
      | [] => Some []
      | (k, v) :: r =>
          if mem k ex then go r else
          match (if is_container v then keyc k else ev k), reading keyc mk v with
          | Some k', Some v' => match go r with Some r' => Some ((k', v') :: r') | None => None end
          | _, _ => None
          end
      end.

  Lemma apply_list ds : apply (DList ds) = match listA apply ds with Some ds' => Some (DList ds') | None => None end.
  Proof. reflexivity. Qed.
  Lemma apply_dict kvs : apply (DDict kvs) =
    match excluded kvs with
    | None => None
    | Some ex => match goA ex kvs [] with Some acc => Some (DDict acc) | None => None end
    end.
  Proof. reflexivity. Qed.
  Lemma reading_list keyc mk ds :
    reading keyc mk (DList ds) = match listA (reading keyc mk) ds with Some ds' => Some (DList ds') | None => None end.
  Proof. reflexivity. Qed.
  Lemma reading_dict keyc mk kvs : reading keyc mk (DDict kvs) =
    match excluded kvs with
    | None => None
    | Some ex => match goR keyc mk ex kvs with Some es => Some (DDict (mk es)) | None => None end
    end.
  Proof. reflexivity. Qed.

  Lemma listA_ext f g ds : Forall (fun d => f d = g d) ds -> listA f ds = listA g ds.
  Proof. induction 1 as [|x r Hx _ IH]; cbn [listA]; [reflexivity|]. rewrite Hx, IH. reflexivity. Qed.

  Definition setf := fun (acc : list (Leaf * doc)) (kv : Leaf * doc) => set acc (fst kv) (snd kv).

  Lemma goA_goR ex : forall l, Forall (fun kv => apply (snd kv) = reading evk dict_of (snd kv)) l ->
    forall acc, goA ex l acc = match goR evk dict_of ex l with Some es => Some (fold_left setf es acc) | None => None end.
  Proof.
    induction 1 as [|[k v] r Hv _ IH]; intros acc; cbn [goA goR]; [reflexivity|].
    destruct (mem k ex); [apply IH|]. cbn [snd] in Hv.
    destruct v as [x|ds|kvs].
    - cbn [Doc.is_container Doc.reading]. destruct (ev k) as [k'|]; [|reflexivity]. destruct (ev x) as [x'|]; [|reflexivity].
      rewrite IH. destruct (goR evk dict_of ex r); reflexivity.
    - rewrite Hv. cbn [Doc.is_container]. destruct (evk k) as [k'|]; [|reflexivity].
      destruct (reading evk dict_of (DList ds)) as [v'|]; [|reflexivity].
      rewrite IH. destruct (goR evk dict_of ex r); reflexivity.
    - rewrite Hv. cbn [Doc.is_container]. destruct (evk k) as [k'|]; [|reflexivity].
      destruct (reading evk dict_of (DDict kvs)) as [v'|]; [|reflexivity].
      rewrite IH. destruct (goR evk dict_of ex r); reflexivity.
  Qed.

  (* (1) what _apply computes, for EVERY document and EVERY pair of hooks: the entries listed under "exclude" (and
     "exclude" itself) are dropped; every scalar value, list element and key of a scalar-valued entry goes through ev,
     the key of a dict-/list-valued entry through the patch_key hook evk, at any depth; the result dict is built in
     order with Python's d[k] = v *)
  Theorem apply_hooked : forall d, apply d = hooked d.
  Proof.
    unfold Doc.hooked. apply (doc_induction (fun d => apply d = reading evk dict_of d)).
    - reflexivity.
    - intros ds H. rewrite apply_list, reading_list. rewrite (listA_ext _ _ _ H). reflexivity.
    - intros kvs H. rewrite apply_dict, reading_dict. destruct (excluded kvs) as [ex|]; [|reflexivity].
      rewrite (goA_goR ex kvs H []). destruct (goR evk dict_of ex kvs); reflexivity.
  Qed.

  (* building the dict changes nothing when the (interpreted) keys are pairwise different *)
  Lemma set_fresh acc k v : forallb (fun kv => negb (leaf_eqb (fst kv) k)) acc = true -> set acc k v = acc ++ [(k, v)].
  Proof.
    induction acc as [|[k' v'] r IH]; cbn; intros H; [reflexivity|].
    apply andb_true_iff in H. destruct H as [H1 H2]. apply negb_true_iff in H1. rewrite H1, (IH H2). reflexivity.
  Qed.
  Lemma fold_set_distinct : forall l acc,
    distinct_keys l = true ->
    forallb (fun a => forallb (fun b => negb (leaf_eqb (fst a) (fst b))) l) acc = true ->
    fold_left setf l acc = acc ++ l.
  Proof.
    induction l as [|[k v] r IH]; intros acc Hd Ha; cbn [fold_left]; [rewrite app_nil_r; reflexivity|].
    cbn [Doc.distinct_keys] in Hd. apply andb_true_iff in Hd. destruct Hd as [Hk Hd].
    unfold setf at 2. cbn [fst snd]. rewrite set_fresh.
    - rewrite IH; [rewrite <- app_assoc; reflexivity|exact Hd|].
      rewrite forallb_app. apply andb_true_iff. split.
      + rewrite forallb_forall in *. intros a Hin. specialize (Ha a Hin). cbn [forallb] in Ha. apply andb_true_iff in Ha. apply Ha.
      + cbn [forallb fst]. rewrite andb_true_r. apply negb_true_iff in Hk.
        rewrite forallb_forall. intros b Hb. apply negb_true_iff.
        destruct (leaf_eqb k (fst b)) eqn:E; [|reflexivity].
        exfalso. assert (X : existsb (fun kv => leaf_eqb k (fst kv)) r = true) by (apply existsb_exists; exists b; split; assumption).
        congruence.
    - rewrite forallb_forall in *. intros a Hin. specialize (Ha a Hin). cbn [forallb fst] in Ha. apply andb_true_iff in Ha. apply Ha.
  Qed.
  Theorem dict_of_distinct l : distinct_keys l = true -> dict_of l = l.
  Proof. intros H. unfold Doc.dict_of. apply (fold_set_distinct l [] H). reflexivity. Qed.


  (* (2) when no two interpreted keys of one dict coincide (anywhere in the result), building the dict is the identity:
     the reading with Python's dict semantics is the plain map *)
  Lemma goR_plain keyc ex : forall l es,
    Forall (fun kv => forall d', reading keyc (fun es => es) (snd kv) = Some d' -> distinct_all d' = true ->
                                 reading keyc dict_of (snd kv) = Some d') l ->
    goR keyc (fun es => es) ex l = Some es -> forallb (fun kv => distinct_all (snd kv)) es = true ->
    goR keyc dict_of ex l = Some es.
  Proof.
    induction l as [|[k v] r IH]; intros es HF H HD; cbn [goR] in *; [exact H|].
    inversion HF as [|? ? Hv Hr]; subst. cbn [snd] in Hv.
    destruct (mem k ex); [apply IH; assumption|].
    destruct (if is_container v then keyc k else ev k) as [k'|]; [|discriminate].
    destruct (reading keyc (fun es => es) v) as [v'|] eqn:Ev; [|discriminate].
    destruct (goR keyc (fun es => es) ex r) as [r'|] eqn:Er; [|discriminate].
    injection H as <-. cbn [forallb snd] in HD. apply andb_true_iff in HD. destruct HD as [HD1 HD2].
    rewrite (Hv v' eq_refl HD1). rewrite (IH r' Hr eq_refl HD2). reflexivity.
  Qed.

  Theorem reading_plain keyc : forall d d', reading keyc (fun es => es) d = Some d' -> distinct_all d' = true ->
    reading keyc dict_of d = Some d'.
  Proof.
    apply (doc_induction (fun d => forall d', reading keyc (fun es => es) d = Some d' -> distinct_all d' = true ->
                                              reading keyc dict_of d = Some d')).
    - intros l d' H _. exact H.
    - intros ds HF d' H HD. rewrite reading_list in *.
      destruct (listA (reading keyc (fun es => es)) ds) as [ds'|] eqn:E; [|discriminate]. injection H as <-.
      cbn [Doc.distinct_all] in HD.
      assert (X : listA (reading keyc dict_of) ds = Some ds').
      { clear - HF E HD. revert ds' E HD. induction HF as [|x r Hx _ IH]; intros ds' E HD; cbn [listA] in *; [exact E|].
        destruct (reading keyc (fun es => es) x) as [x'|] eqn:Ex; [|discriminate].
        destruct (listA (reading keyc (fun es => es)) r) as [r'|] eqn:Er; [|discriminate].
        injection E as <-. cbn [forallb] in HD. apply andb_true_iff in HD. destruct HD as [H1 H2].
        rewrite (Hx x' eq_refl H1), (IH r' eq_refl H2). reflexivity. }
      rewrite X. reflexivity.
    - intros kvs HF d' H HD. rewrite reading_dict in *. destruct (excluded kvs) as [ex|]; [|discriminate].
      destruct (goR keyc (fun es => es) ex kvs) as [es|] eqn:E; [|discriminate]. injection H as <-.
      cbn [Doc.distinct_all] in HD. apply andb_true_iff in HD. destruct HD as [HD1 HD2].
      rewrite (goR_plain keyc ex kvs es HF E HD2). rewrite (dict_of_distinct es HD1). reflexivity.
  Qed.

  (* (3) Spec.interpret: the store is a value, interpretation returns it unchanged and is a function of its inputs *)
  Notation interpret := (Doc.interpret Leaf).
  Notation interpret_in := (Doc.interpret_in Leaf).
  Theorem interpret_store_unchanged s i ps : fst (interpret_in s i ps) = s.
  Proof. reflexivity. Qed.
  Theorem interpret_twice_same s i ps :
    snd (interpret_in (fst (interpret_in s i ps)) i ps) = snd (interpret_in s i ps).
  Proof. reflexivity. Qed.
  Theorem interpret_one p d : interpret [p] d = p d.
  Proof. reflexivity. Qed.
  Theorem interpret_app ps qs d :
    interpret (ps ++ qs) d = match interpret ps d with Some d' => interpret qs d' | None => None end.
  Proof.
    unfold Doc.interpret. generalize (@Some doc d) as x. induction ps as [|p r IH]; intros x; cbn [app fold_left].
    - destruct x as [d'|]; [reflexivity|]. induction qs as [|q r IH]; [reflexivity|exact IH].
    - apply IH.
  Qed.
End DocP.

(* ------------------------------------------------------------------------------------------------ the instance *)
Local Open Scope Q_scope.

(* C15_apply_spec, the FULL statement, no side condition: for every binding and every document ArithmeticPatch.apply is
   the document with every '{{e}}' -- value, list element, key of a scalar-valued entry, key of a dict-/list-valued
   entry, at any depth -- replaced by eval e (excluded entries dropped, the result dict built in order) *)
Theorem arith_apply_spec : forall r d, arith_apply r d = arith_ideal r d.
Proof. intros r d. unfold arith_apply, arith_ideal, Doc.ideal. rewrite apply_hooked. reflexivity. Qed.

(* ... and it is the plain "replace everything" map whenever the interpreted keys of each dict are pairwise different *)
Theorem arith_apply_plain : forall r d d', arith_plain r d = Some d' -> distinct_all leaf leaf_eqb d' = true ->
  arith_apply r d = Some d'.
Proof. intros r d d' H HD. rewrite arith_apply_spec. apply reading_plain; assumption. Qed.

(* the witness of the former finding (repaired by e5276b7):  {"{{ 1 + 1 }}": {"a": 1}, "{{ 3 }}": ["{{ 1 }}"]} *)
Definition witness : sdoc :=
  DDict [(LStr 1 (Some [TNum 1; TOp Add; TNum 1]), DDict [(LStr 2 None, DLeaf (LNum 1))]);
         (LStr 3 (Some [TNum 3]), DList [DLeaf (LStr 4 (Some [TNum 1]))])].
Example witness_value :
  arith_apply (fun _ => None) witness =
    Some (DDict [(LNum (1 + 1), DDict [(LStr 2 None, DLeaf (LNum 1))]); (LNum 3, DList [DLeaf (LNum 1)])]).
Proof. vm_compute. reflexivity. Qed.

(* each placement separately, for every expression, also when its value is 0 *)
Theorem list_element_replaced : forall r i ts q, evalp r ts = Some q ->
  arith_apply r (DList [DLeaf (LStr i (Some ts))]) = Some (DList [DLeaf (LNum q)]).
Proof. intros r i ts q H. cbn. rewrite H. reflexivity. Qed.
Theorem value_and_key_replaced : forall r i tk qk j tv qv, i <> exclude_id -> evalp r tk = Some qk -> evalp r tv = Some qv ->
  arith_apply r (DDict [(LStr i (Some tk), DLeaf (LStr j (Some tv)))]) = Some (DDict [(LNum qk, DLeaf (LNum qv))]).
Proof.
  intros r i tk qk j tv qv Hi Hk Hv. unfold arith_apply.
  assert (E : N.eqb i exclude_id = false) by (apply N.eqb_neq; exact Hi).
  cbn [apply]. unfold excluded, lookup, mem.
  repeat first [rewrite E | rewrite Hk | rewrite Hv | progress cbn [leaf_eqb exclude_key existsb app orb ev Doc.set]]. reflexivity.
Qed.
Theorem container_key_replaced : forall r i tk qk j tv qv, i <> exclude_id -> evalp r tk = Some qk -> evalp r tv = Some qv ->
  arith_apply r (DDict [(LStr i (Some tk), DList [DLeaf (LStr j (Some tv))])]) = Some (DDict [(LNum qk, DList [DLeaf (LNum qv)])]).
Proof.
  intros r i tk qk j tv qv Hi Hk Hv. unfold arith_apply.
  assert (E : N.eqb i exclude_id = false) by (apply N.eqb_neq; exact Hi).
  cbn [apply]. unfold excluded, lookup, mem.
  repeat first [rewrite E | rewrite Hk | rewrite Hv | progress cbn [leaf_eqb exclude_key existsb app orb ev Doc.set]]. reflexivity.
Qed.
Theorem nested_value_replaced : forall r i k j ts q, k <> exclude_id -> j <> exclude_id -> evalp r ts = Some q ->
  arith_apply r (DDict [(LStr k None, DList [DDict [(LStr j None, DLeaf (LStr i (Some ts)))]])])
  = Some (DDict [(LStr k None, DList [DDict [(LStr j None, DLeaf (LNum q))]])]).
Proof.
  intros r i k j ts q Hk Hj H. unfold arith_apply.
  assert (Ek : N.eqb k exclude_id = false) by (apply N.eqb_neq; exact Hk).
  assert (Ej : N.eqb j exclude_id = false) by (apply N.eqb_neq; exact Hj).
  cbn [apply]. unfold excluded, lookup, mem.
  repeat first [rewrite Ek | rewrite Ej | rewrite H | progress cbn [leaf_eqb exclude_key existsb app orb ev Doc.set]]. reflexivity.
Qed.

(* non-vacuity: a document with an excluded entry, an expression that is 0 in a list, expression keys in front of a scalar
   and in front of a dict, and a variable; its interpreted keys are pairwise different *)
Open Scope string_scope.
Definition sample_env : env := env_of [("skill_level", 12); ("x", 0)].
Definition sample_doc : sdoc :=
  DDict [ (LStr 0 None, DList [DLeaf (LStr 5 None)]);                                         (* exclude: [dropped] *)
          (LStr 5 None, DLeaf (LStr 6 (Some [TNum 1; TOp Div; TNum 0])));                     (* dropped: "{{ 1/0 }}" never evaluated *)
          (LStr 7 None, DList [DLeaf (LStr 8 (Some [TVar "x"])); DLeaf (LNum 3)]);            (* [ "{{ x }}", 3 ]  with x = 0 *)
          (LStr 9 (Some [TNum 2; TOp Mul; TNum 3]), DLeaf (LStr 10 (Some [TVar "skill_level"; TOp IDiv; TNum 5])));
          (LStr 11 (Some [TNum 7; TOp Add; TVar "x"]),
             DDict [(LStr 12 None, DLeaf (LStr 13 (Some [TNum 10; TOp Sub; TNum 4; TOp Sub; TNum 3])))]) ].
Definition sample_result : sdoc :=
  DDict [ (LStr 7 None, DList [DLeaf (LNum 0); DLeaf (LNum 3)]);
          (LNum (2 * 3), DLeaf (LNum (qidiv 12 5)));
          (LNum (7 + 0), DDict [(LStr 12 None, DLeaf (LNum (10 - 4 - 3)))]) ].
Example sample_apply :
  arith_apply sample_env sample_doc = Some sample_result
  /\ arith_plain sample_env sample_doc = Some sample_result
  /\ distinct_all leaf leaf_eqb sample_result = true.
Proof. vm_compute. repeat split; reflexivity. Qed.
(* ... and one where two interpreted keys coincide: the later value lands on the earlier key's place *)
Example colliding_keys :
  arith_apply sample_env (DDict [(LStr 1 (Some [TNum 1]), DLeaf (LNum 10)); (LStr 2 None, DLeaf (LNum 20));
                                 (LStr 3 (Some [TNum 2; TOp Sub; TNum 1]), DList [])])
  = Some (DDict [(LNum 1, DList []); (LStr 2 None, DLeaf (LNum 20))]).
Proof. vm_compute. reflexivity. Qed.
Close Scope string_scope.
