(* DFSTraversePatch._apply + ArithmeticPatch: what it computes exactly, where that is the property's reading,
   and where it is not. *)
From Coq Require Import QArith List Bool ZArith NArith String Lia.
From V.Model Require Import Expr ExprParse Doc.
Import ListNotations.

Section DocP.
  Variable Leaf : Type.
  Variable leaf_eqb : Leaf -> Leaf -> bool.
  Variable ev : Leaf -> option Leaf.
  Variable exclude_key : Leaf.

  Notation doc := (Doc.doc Leaf).
  Notation apply := (Doc.apply Leaf leaf_eqb ev exclude_key).
  Notation reading := (Doc.reading Leaf leaf_eqb ev exclude_key).
  Notation ideal := (Doc.ideal Leaf leaf_eqb ev exclude_key).
  Notation as_coded := (Doc.as_coded Leaf leaf_eqb ev exclude_key).
  Notation keys_ok := (Doc.keys_ok Leaf leaf_eqb ev exclude_key).
  Notation excluded := (Doc.excluded Leaf leaf_eqb exclude_key).
  Notation set := (Doc.set Leaf leaf_eqb).
  Notation mem := (Doc.mem Leaf leaf_eqb).
  Notation dict_of := (Doc.dict_of Leaf leaf_eqb).
  Notation distinct_keys := (Doc.distinct_keys Leaf leaf_eqb).
  Notation is_container := (Doc.is_container Leaf).

  (* induction over nested documents *)
  Lemma doc_induction (Pd : doc -> Prop) :
    (forall l, Pd (DLeaf l)) ->
    (forall ds, Forall Pd ds -> Pd (DList ds)) ->
    (forall kvs, Forall (fun kv => Pd (snd kv)) kvs -> Pd (DDict kvs)) ->
    forall d, Pd d.
  Proof.
    intros HL HD HK. fix IH 1. intros [l|ds|kvs].
    - apply HL.
    - apply HD. induction ds as [|x r IHr]; constructor; [apply IH|exact IHr].
    - apply HK. induction kvs as [|[k v] r IHr]; constructor; [apply IH|exact IHr].
  Qed.

  (* the local loops of Model/Doc.v, named *)
  Definition listA (f : doc -> option doc) :=
    fix go (l : list doc) : option (list doc) :=
      match l with
      | [] => Some []
      | x :: r => match f x with
                  | Some x' => match go r with Some r' => Some (x' :: r') | None => None end
                  | None => None
                  end
      end.
  Definition goA (ex : list Leaf) :=
    fix go (l : list (Leaf * doc)) (acc : list (Leaf * doc)) : option (list (Leaf * doc)) :=
      match l with
      | [] => Some acc
      | (k, v) :: r =>
          if mem k ex then go r acc else
          match v with
          | DLeaf x => match ev k, ev x with
                       | Some k', Some x' => go r (set acc k' (DLeaf x'))
                       | _, _ => None
                       end
          | _ => match apply v with Some v' => go r (set acc k v') | None => None end
          end
      end.
  Definition goR (kk : bool) (ex : list Leaf) :=
    fix go (l : list (Leaf * doc)) : option (list (Leaf * doc)) :=
      match l with
      | [] => Some []
      | (k, v) :: r =>
          if mem k ex then go r else
          match (if kk || negb (is_container v) then ev k else Some k), reading kk v with
          | Some k', Some v' => match go r with Some r' => Some ((k', v') :: r') | None => None end
          | _, _ => None
          end
      end.
  Definition allL := fix all (l : list doc) : Prop := match l with [] => True | x :: r => keys_ok x /\ all r end.
  Definition allK (ex : list Leaf) :=
    fix all (l : list (Leaf * doc)) : Prop :=
      match l with
      | [] => True
      | (k, v) :: r => (mem k ex = false -> keys_ok v /\ (is_container v = true -> ev k = Some k)) /\ all r
      end.

  Lemma apply_list ds : apply (DList ds) = match listA apply ds with Some ds' => Some (DList ds') | None => None end.
  Proof. reflexivity. Qed.
  Lemma apply_dict kvs : apply (DDict kvs) =
    match excluded kvs with
    | None => None
    | Some ex => match goA ex kvs [] with Some acc => Some (DDict acc) | None => None end
    end.
  Proof. reflexivity. Qed.
  Lemma reading_list kk ds : reading kk (DList ds) = match listA (reading kk) ds with Some ds' => Some (DList ds') | None => None end.
  Proof. reflexivity. Qed.
  Lemma reading_dict kk kvs : reading kk (DDict kvs) =
    match excluded kvs with
    | None => None
    | Some ex => match goR kk ex kvs with Some es => Some (DDict (dict_of es)) | None => None end
    end.
  Proof. reflexivity. Qed.
  Lemma keys_ok_list ds : keys_ok (DList ds) = allL ds.
  Proof. reflexivity. Qed.
  Lemma keys_ok_dict kvs : keys_ok (DDict kvs) = (forall ex, excluded kvs = Some ex -> allK ex kvs).
  Proof. reflexivity. Qed.

  Lemma listA_ext f g ds : Forall (fun d => f d = g d) ds -> listA f ds = listA g ds.
  Proof. induction 1 as [|x r Hx _ IH]; cbn [listA]; [reflexivity|]. rewrite Hx, IH. reflexivity. Qed.

  Definition setf := fun (acc : list (Leaf * doc)) (kv : Leaf * doc) => set acc (fst kv) (snd kv).

  Lemma goA_goR ex : forall l, Forall (fun kv => apply (snd kv) = reading false (snd kv)) l ->
    forall acc, goA ex l acc = match goR false ex l with Some es => Some (fold_left setf es acc) | None => None end.
  Proof.
    induction 1 as [|[k v] r Hv _ IH]; intros acc; cbn [goA goR]; [reflexivity|].
    destruct (mem k ex); [apply IH|]. cbn [snd] in Hv.
    destruct v as [x|ds|kvs].
    - cbn [Doc.is_container negb orb Doc.reading]. destruct (ev k) as [k'|]; [|reflexivity]. destruct (ev x) as [x'|]; [|reflexivity].
      rewrite IH. destruct (goR false ex r); reflexivity.
    - rewrite Hv. cbn [Doc.is_container negb orb]. destruct (reading false (DList ds)) as [v'|]; [|reflexivity].
      rewrite IH. destruct (goR false ex r); reflexivity.
    - rewrite Hv. cbn [Doc.is_container negb orb]. destruct (reading false (DDict kvs)) as [v'|]; [|reflexivity].
      rewrite IH. destruct (goR false ex r); reflexivity.
  Qed.

  (* (1) what the code computes, for EVERY document: every '{{e}}' value, list element and key of a scalar-valued entry
     is evaluated; excluded entries are dropped; the key of a dict- or list-valued entry is left as it is *)
  Theorem apply_as_coded : forall d, apply d = as_coded d.
  Proof.
    unfold Doc.as_coded. apply doc_induction.
    - reflexivity.
    - intros ds H. rewrite apply_list, reading_list. rewrite (listA_ext _ _ _ H). reflexivity.
    - intros kvs H. rewrite apply_dict, reading_dict. destruct (excluded kvs) as [ex|]; [|reflexivity].
      rewrite (goA_goR ex kvs H []). destruct (goR false ex kvs); reflexivity.
  Qed.

  Lemma goR_agree ex : forall l, Forall (fun kv => keys_ok (snd kv) -> reading false (snd kv) = reading true (snd kv)) l ->
    allK ex l -> goR false ex l = goR true ex l.
  Proof.
    induction 1 as [|[k v] r Hv _ IH]; intros HA; cbn [goR]; [reflexivity|].
    cbn [allK] in HA. destruct HA as [Hkv Hr]. specialize (IH Hr).
    destruct (mem k ex); [exact IH|]. destruct (Hkv eq_refl) as [Hok Hk]. cbn [snd] in Hv. rewrite (Hv Hok), IH.
    destruct (is_container v) eqn:C; cbn [negb orb]; [|reflexivity].
    rewrite (Hk eq_refl). reflexivity.
  Qed.

  Lemma reading_agree : forall d, keys_ok d -> reading false d = reading true d.
  Proof.
    apply (doc_induction (fun d => keys_ok d -> reading false d = reading true d)).
    - reflexivity.
    - intros ds H Hok. rewrite !reading_list. rewrite keys_ok_list in Hok.
      assert (E : listA (reading false) ds = listA (reading true) ds).
      { induction H as [|x r Hx _ IH]; [reflexivity|]. cbn [allL] in Hok. destruct Hok as [Ox Or].
        cbn [listA]. rewrite (Hx Ox), (IH Or). reflexivity. }
      rewrite E. reflexivity.
    - intros kvs H Hok. rewrite !reading_dict. rewrite keys_ok_dict in Hok.
      destruct (excluded kvs) as [ex|]; [|reflexivity].
      rewrite (goR_agree ex kvs H (Hok ex eq_refl)). reflexivity.
  Qed.

  (* (2) the largest part of the property's statement that is true of the code: when no surviving key in front of a
     dict / list is an expression, apply = "every expression replaced" *)
  Theorem apply_ideal_partial : forall d, keys_ok d -> apply d = ideal d.
  Proof. intros d H. rewrite apply_as_coded. unfold Doc.as_coded, Doc.ideal. apply reading_agree, H. Qed.

  (* building the dict changes nothing when the (interpreted) keys are pairwise different *)
  Lemma set_fresh acc k v : forallb (fun kv => negb (leaf_eqb (fst kv) k)) acc = true -> set acc k v = acc ++ [(k, v)].
  Proof.
    induction acc as [|[k' v'] r IH]; cbn; intros H; [reflexivity|].
    apply andb_true_iff in H. destruct H as [H1 H2]. apply negb_true_iff in H1. rewrite H1, (IH H2). reflexivity.
  Qed.
  Lemma fold_set_distinct : forall l acc,
    distinct_keys l = true ->
    forallb (fun a => forallb (fun b => negb (leaf_eqb (fst a) (fst b))) l) acc = true ->
    fold_left setf l acc = acc ++ l.
  Proof.
    induction l as [|[k v] r IH]; intros acc Hd Ha; cbn [fold_left]; [rewrite app_nil_r; reflexivity|].
    cbn [Doc.distinct_keys] in Hd. apply andb_true_iff in Hd. destruct Hd as [Hk Hd].
    unfold setf at 2. cbn [fst snd]. rewrite set_fresh.
    - rewrite IH; [rewrite <- app_assoc; reflexivity|exact Hd|].
      rewrite forallb_app. apply andb_true_iff. split.
      + rewrite forallb_forall in *. intros a Hin. specialize (Ha a Hin). cbn [forallb] in Ha. apply andb_true_iff in Ha. apply Ha.
      + cbn [forallb fst]. rewrite andb_true_r. apply negb_true_iff in Hk.
        rewrite forallb_forall. intros b Hb. apply negb_true_iff.
        destruct (leaf_eqb k (fst b)) eqn:E; [|reflexivity].
        exfalso. assert (X : existsb (fun kv => leaf_eqb k (fst kv)) r = true) by (apply existsb_exists; exists b; split; assumption).
        congruence.
    - rewrite forallb_forall in *. intros a Hin. specialize (Ha a Hin). cbn [forallb fst] in Ha. apply andb_true_iff in Ha. apply Ha.
  Qed.
  Theorem dict_of_distinct l : distinct_keys l = true -> dict_of l = l.
  Proof. intros H. unfold Doc.dict_of. apply (fold_set_distinct l [] H). reflexivity. Qed.

  (* (3) Spec.interpret: the store is a value, interpretation returns it unchanged and is a function of its inputs *)
  Notation interpret := (Doc.interpret Leaf).
  Notation interpret_in := (Doc.interpret_in Leaf).
  Theorem interpret_store_unchanged s i ps : fst (interpret_in s i ps) = s.
  Proof. reflexivity. Qed.
  Theorem interpret_twice_same s i ps :
    snd (interpret_in (fst (interpret_in s i ps)) i ps) = snd (interpret_in s i ps).
  Proof. reflexivity. Qed.
  Theorem interpret_one p d : interpret [p] d = p d.
  Proof. reflexivity. Qed.
  Theorem interpret_app ps qs d :
    interpret (ps ++ qs) d = match interpret ps d with Some d' => interpret qs d' | None => None end.
  Proof.
    unfold Doc.interpret. generalize (@Some doc d) as x. induction ps as [|p r IH]; intros x; cbn [app fold_left].
    - destruct x as [d'|]; [reflexivity|]. induction qs as [|q r IH]; [reflexivity|exact IH].
    - apply IH.
  Qed.
End DocP.

(* ------------------------------------------------------------------------------------------------ the instance *)
Local Open Scope Q_scope.

Theorem arith_apply_as_coded : forall r d, arith_apply r d = arith_as_coded r d.
Proof. intros r d. apply apply_as_coded. Qed.

Theorem arith_apply_partial : forall r d, keys_ok leaf leaf_eqb (ev r) exclude_key d -> arith_apply r d = arith_ideal r d.
Proof. intros r d. apply apply_ideal_partial. Qed.

(* the full statement is false of the code:  {"{{ 1 + 1 }}": {"a": 1}}  keeps its key *)
Definition witness_key : leaf := LStr 1 (Some [TNum 1; TOp Add; TNum 1]).
Definition witness : sdoc := DDict [(witness_key, DDict [(LStr 2 None, DLeaf (LNum 1))])].
Theorem arith_apply_refuted : exists r d, arith_apply r d <> arith_ideal r d.
Proof.
  exists (fun _ => None), witness. vm_compute. intro H. discriminate H.
Qed.
Example witness_values :
  arith_apply (fun _ => None) witness = Some witness /\
  arith_ideal (fun _ => None) witness = Some (DDict [(LNum (1 + 1), DDict [(LStr 2 None, DLeaf (LNum 1))])]).
Proof. vm_compute. split; reflexivity. Qed.

(* each placement separately, for every expression, also when its value is 0 *)
Theorem list_element_replaced : forall r i ts q, evalp r ts = Some q ->
  arith_apply r (DList [DLeaf (LStr i (Some ts))]) = Some (DList [DLeaf (LNum q)]).
Proof. intros r i ts q H. cbn. rewrite H. reflexivity. Qed.
Theorem value_and_key_replaced : forall r i tk qk j tv qv, i <> exclude_id -> evalp r tk = Some qk -> evalp r tv = Some qv ->
  arith_apply r (DDict [(LStr i (Some tk), DLeaf (LStr j (Some tv)))]) = Some (DDict [(LNum qk, DLeaf (LNum qv))]).
Proof.
  intros r i tk qk j tv qv Hi Hk Hv. unfold arith_apply.
  assert (E : N.eqb i exclude_id = false) by (apply N.eqb_neq; exact Hi).
  cbn [apply]. unfold excluded, lookup, mem.
  repeat first [rewrite E | rewrite Hk | rewrite Hv | progress cbn [leaf_eqb exclude_key existsb app orb ev Doc.set]]. reflexivity.
Qed.
Theorem nested_value_replaced : forall r i k j ts q, k <> exclude_id -> j <> exclude_id -> evalp r ts = Some q ->
  arith_apply r (DDict [(LStr k None, DList [DDict [(LStr j None, DLeaf (LStr i (Some ts)))]])])
  = Some (DDict [(LStr k None, DList [DDict [(LStr j None, DLeaf (LNum q))]])]).
Proof.
  intros r i k j ts q Hk Hj H. unfold arith_apply.
  assert (Ek : N.eqb k exclude_id = false) by (apply N.eqb_neq; exact Hk).
  assert (Ej : N.eqb j exclude_id = false) by (apply N.eqb_neq; exact Hj).
  cbn [apply]. unfold excluded, lookup, mem.
  repeat first [rewrite Ek | rewrite Ej | rewrite H | progress cbn [leaf_eqb exclude_key existsb app orb ev Doc.set]]. reflexivity.
Qed.

(* non-vacuity: a document with an excluded entry, an expression that is 0 in a list, expression keys and values,
   and a variable; it satisfies keys_ok, and apply = ideal = the expected document *)
Open Scope string_scope.
Definition sample_env : env := env_of [("skill_level", 12); ("x", 0)].
Definition sample_doc : sdoc :=
  DDict [ (LStr 0 None, DList [DLeaf (LStr 5 None)]);                                         (* exclude: [dropped] *)
          (LStr 5 None, DLeaf (LStr 6 (Some [TNum 1; TOp Div; TNum 0])));                     (* dropped: "{{ 1/0 }}" never evaluated *)
          (LStr 7 None, DList [DLeaf (LStr 8 (Some [TVar "x"])); DLeaf (LNum 3)]);            (* [ "{{ x }}", 3 ]  with x = 0 *)
          (LStr 9 (Some [TNum 2; TOp Mul; TNum 3]), DLeaf (LStr 10 (Some [TVar "skill_level"; TOp IDiv; TNum 5])));
          (LStr 11 None, DDict [(LStr 12 None, DLeaf (LStr 13 (Some [TNum 10; TOp Sub; TNum 4; TOp Sub; TNum 3])))]) ].
Example sample_keys_ok : keys_ok leaf leaf_eqb (ev sample_env) exclude_key sample_doc.
Proof. intros ex H. vm_compute in H. injection H as <-. cbn. repeat split; try discriminate; intros; try reflexivity; try exact I.
  all: try (intros ex' H'; vm_compute in H'; injection H' as <-; cbn; repeat split; intros; try reflexivity; try discriminate; exact I). Qed.
Example sample_apply :
  arith_apply sample_env sample_doc =
    Some (DDict [ (LStr 7 None, DList [DLeaf (LNum 0); DLeaf (LNum 3)]);
                  (LNum (2 * 3), DLeaf (LNum (qidiv 12 5)));
                  (LStr 11 None, DDict [(LStr 12 None, DLeaf (LNum (10 - 4 - 3)))]) ])
  /\ arith_ideal sample_env sample_doc = arith_apply sample_env sample_doc.
Proof. vm_compute. split; reflexivity. Qed.
Close Scope string_scope.
