(* C07 for the classes of Model/SpecMech.v: a rejection is reported alone and changes nothing. *)
From Coq Require Import ZArith List Bool Lia.
From V.Model Require Import Comp SpecMech.
From V.Proofs Require Import CompReject.
Import ListNotations.
Open Scope Z_scope.

Lemma some_inj {A} (a b : A) : Some a = Some b -> a = b.
Proof. intros H. injection H as H. exact H. Qed.

Lemma pair_eq {A B} (x : A * B) a b : x = (a, b) -> a = fst x /\ b = snd x.
Proof. intros ->. split; reflexivity. Qed.

Lemma set_u_same s : set_u s (x_u s) = s.
Proof. destruct s; reflexivity. Qed.
Lemma set_u_set_u s a b : set_u (set_u s a) b = set_u s b.
Proof. reflexivity. Qed.

Lemma rejected_cons_dealt x es : rejected (dealt x :: es) = rejected es.
Proof. reflexivity. Qed.
Lemma rejected_repeat_EDealt d h n : rejected (repeat (EDealt d h) n) = false.
Proof. induction n; cbn; auto. Qed.

Lemma mo_events_no_reject p n : forall c, rejected (fst (mo_events p n c)) = false.
Proof.
  induction n as [|n IH]; intros c; cbn [mo_events]; [reflexivity|].
  specialize (IH (cyc_step c)). destruct (mo_events p n (cyc_step c)) as [l c']. cbn [fst] in *.
  destruct (fst c <? xp_n1 p); cbn; exact IH.
Qed.
Lemma mc_events_no_reject p l : rejected (mc_events p l) = false.
Proof.
  unfold mc_events. induction l as [|n l IH]; cbn [flat_map]; [reflexivity|].
  rewrite rejected_app, rejected_repeat_dealt, IH. reflexivity.
Qed.
Lemma hg_events_no_reject r n : rejected (hg_events (map dealt r) n) = false.
Proof. induction n; cbn [hg_events]; [reflexivity|]. rewrite rejected_app, rejected_map_dealt, IHn. reflexivity. Qed.
Lemma periodic_elapse_no_reject pe p t u : rejected (snd (elapse_periodic_with pe p t u)) = false.
Proof. unfold elapse_periodic_with. cbn [snd]. change (EElapsed t :: ?l) with ([EElapsed t] ++ l). norej. Qed.

(* the key-down traits' events and the penalty *)
Lemma fmb_penalize_events p r : snd (fmb_penalize p r) = snd r.
Proof. unfold fmb_penalize. destruct (kd_ended (snd r)); reflexivity. Qed.
Lemma fmb_penalize_elapse_events p r : snd (fmb_penalize_elapse p r) = snd r.
Proof. unfold fmb_penalize_elapse. destruct (kd_ended (snd r)); reflexivity. Qed.
Lemma ignore_rejected_no_reject r : rejected (snd (ignore_rejected r)) = false.
Proof.
  unfold ignore_rejected. cbn [snd]. induction (snd r) as [|e l IH]; cbn [filter]; [reflexivity|].
  destruct e; cbn; try exact IH.
Qed.
Lemma kd_ended_reject : kd_ended [EReject] = false.
Proof. reflexivity. Qed.

Ltac finish_inj H R :=
  first [ injection H as <- <-; first [ split; [reflexivity | try reflexivity; try apply set_u_same]
                                       | exfalso; revert R; norej ] ].

(* Every modelled reducer (FlareSlash.change_stance_trigger / styx_trigger included: after the repair 5aadaec
   they are @ignore_rejected and never report a rejection) *)
Lemma xreject_alone pe dr c m p t s s' es :
  xreduce pe dr c m p t s = Some (s', es) -> rejected es = true -> es = [EReject] /\ s' = s.
Proof.
  intros H R.
  destruct c, m; cbn [xreduce] in H; try discriminate; apply some_inj in H.
  all: try (unfold rs_use, bf_use, hm_use, fmb_use, fc_use, lift, use_periodic_with_simple, use_buff_trait, use_periodic,
              use_keydown_trait, use_simple_attack in H;
            match type of H with context [if ?b then _ else _] => destruct b eqn:? end; cbn [fst snd] in H;
            finish_inj H R).
  all: try (unfold rs_elapse, bf_elapse, cb_elapse, lift in H;
            injection H as <- <-; exfalso; revert R;
            first [ rewrite periodic_elapse_no_reject; discriminate | cbn; discriminate ]).
  - (* robot summon elapse *)
    unfold rs_elapse, lift in H. apply pair_eq in H. destruct H as [-> ->]. cbn [snd] in R.
    rewrite periodic_elapse_no_reject in R. discriminate.
  - (* homming elapse *)
    unfold hm_elapse in H. apply pair_eq in H. destruct H as [-> ->]. cbn [snd] in R. exfalso. revert R.
    change (EElapsed t :: ?l) with ([EElapsed t] ++ l). rewrite rejected_app, rejected_repeat_EDealt. discriminate.
  - (* full metal barrage elapse *)
    unfold fmb_elapse in H. apply pair_eq in H. destruct H as [-> ->]. rewrite fmb_penalize_elapse_events in R. cbn [snd lift] in R.
    rewrite elapse_keydown_no_reject in R. discriminate.
  - (* fmb stop *)
    unfold fmb_stop, lift, stop_keydown_trait in H. destruct (negb (K.running (u_kd (x_u s)))) eqn:E; cbn [fst snd] in H.
    + unfold fmb_penalize in H. cbn [snd fst kd_ended existsb is_kdend orb] in H. apply pair_eq in H. destruct H as [-> ->].
      split; [reflexivity|apply set_u_same].
    + unfold fmb_penalize in H. cbn [snd fst kd_ended existsb is_kdend orb dealt] in H. apply pair_eq in H. destruct H as [-> ->].
      exfalso. revert R. cbn. discriminate.
  - (* multiple option use *)
    unfold mo_use in H. destruct (negb (avail (x_u s))); apply pair_eq in H; destruct H as [-> ->]; [split; reflexivity|discriminate].
  - (* multiple option elapse *)
    unfold mo_elapse in H. pose proof (mo_events_no_reject p (ticks (u_p1 (x_u s)) (pe (u_p1 (x_u s)) t)) (x_cyc s)) as X.
    destruct (mo_events _ _ _) as [l c']. cbn [fst] in X. apply pair_eq in H; destruct H as [-> ->]. cbn [snd] in R.
    change (rejected (EElapsed t :: l)) with (rejected l) in R. congruence.
  - (* meca carrier use *)
    unfold mc_use in H. destruct (negb (avail (x_u s))); apply pair_eq in H; destruct H as [-> ->]; [split; reflexivity|discriminate].
  - (* meca carrier elapse *)
    unfold mc_elapse in H. destruct (dr (x_dp s) t) as [d' l]. apply pair_eq in H; destruct H as [-> ->]. cbn [snd] in R.
    change (rejected (EElapsed t :: ?l)) with (rejected l) in R. rewrite mc_events_no_reject in R. discriminate.
  - (* elysion crack *)
    unfold ely_crack in H. destruct (negb (las_on (x_u s)) || negb (avail2 (x_u s))); [apply pair_eq in H; destruct H as [-> ->]; discriminate|].
    destruct (LS.is_maximum _); apply pair_eq in H; destruct H as [-> ->]; discriminate.
  - (* styx use *)
    unfold styx_use in H. destruct (negb (l_on (x_l2 s))); apply pair_eq in H; destruct H as [-> ->]; [split; reflexivity|discriminate].
  - (* cosmic burst trigger *)
    unfold cb_trigger in H. destruct (negb (avail (x_u s)) || (LS.stack (x_ls s) =? 0)); apply pair_eq in H; destruct H as [-> ->];
      [split; reflexivity|discriminate].
  - (* cosmic shower use *)
    unfold cs_use in H. destruct (orb_gate s); apply pair_eq in H; destruct H as [-> ->]; [split; reflexivity|discriminate].
  - (* cosmic shower elapse *)
    unfold rs_elapse, lift in H. apply pair_eq in H. destruct H as [-> ->]. cbn [snd] in R.
    rewrite periodic_elapse_no_reject in R. discriminate.
  - (* cosmos use *)
    unfold cm_use in H. destruct (orb_gate s); apply pair_eq in H; destruct H as [-> ->]; [split; reflexivity|discriminate].
  - (* cosmos elapse *)
    unfold rs_elapse, lift in H. apply pair_eq in H. destruct H as [-> ->]. cbn [snd] in R.
    rewrite periodic_elapse_no_reject in R. discriminate.
  - (* flare slash change_stance_trigger *)
    unfold fs_trigger, lift in H. apply pair_eq in H. destruct H as [-> ->]. cbn [snd] in R.
    rewrite ignore_rejected_no_reject in R. discriminate.
  - (* flare slash styx_trigger *)
    unfold fs_trigger, lift in H. apply pair_eq in H. destruct H as [-> ->]. cbn [snd] in R.
    rewrite ignore_rejected_no_reject in R. discriminate.
  - (* blade storm use *)
    unfold bs_use, lift, use_keydown_trait in H.
    destruct (negb (avail (x_u s)) || K.running (u_kd (x_u s))); cbn [fst snd rejected existsb is_reject orb] in H;
      apply pair_eq in H; destruct H as [-> ->].
    + split; [reflexivity|apply set_u_same].
    + discriminate.
  - (* blade storm elapse *)
    unfold bs_elapse, lift in H. apply pair_eq in H; destruct H as [-> ->]. cbn [snd] in R. rewrite elapse_keydown_no_reject in R. discriminate.
  - (* blade storm stop *)
    unfold bs_stop, lift, stop_keydown_trait in H. destruct (negb (K.running (u_kd (x_u s)))); cbn [fst snd] in H;
      apply pair_eq in H; destruct H as [-> ->]; [split; [reflexivity|apply set_u_same]|discriminate].
  - (* karma elapse *)
    unfold kb_elapse in H. destruct (LS.enabled (x_ls s) && negb _); apply pair_eq in H; destruct H as [-> ->]; discriminate.
  - (* karma trigger *)
    unfold kb_trigger in H. destruct (negb (LS.enabled (x_ls s))); [apply pair_eq in H; destruct H as [-> ->]; discriminate|].
    destruct (negb (avail (x_u s))); [apply pair_eq in H; destruct H as [-> ->]; discriminate|].
    destruct (LS.stack _ <=? 0); apply pair_eq in H; destruct H as [-> ->]; discriminate.
  - (* howling gale use *)
    unfold hg_use in H. destruct (negb (C.available (u_cons (x_u s)))); apply pair_eq in H; destruct H as [-> ->]; [split; reflexivity|discriminate].
  - (* howling gale elapse *)
    unfold hg_elapse in H. apply pair_eq in H; destruct H as [-> ->]. cbn [snd] in R.
    change (rejected (EElapsed t :: ?l)) with (rejected l) in R. rewrite hg_events_no_reject in R. discriminate.
Qed.

Lemma xreject_alone_spec c m p t s s' es :
  xreduce_spec c m p t s = Some (s', es) -> rejected es = true -> es = [EReject] /\ s' = s.
Proof. apply xreject_alone. Qed.

(* FlareSlash.change_stance_trigger / styx_trigger (after the repair 5aadaec): never a rejection; while the slash
   is still cooling down after the reduction the trigger is silent and only shortens the cooldown; otherwise it
   fires the slash. *)
Lemma flare_trigger_silent c m p t s s' es :
  (c = FlareSlash /\ (m = XChangeStance \/ m = XStyx)) ->
  xreduce_spec c m p t s = Some (s', es) ->
  rejected es = false /\
  let r := match m with XChangeStance => xp_t1 p | _ => xp_t2 p end in
  (0 < u_cd (x_u s) - r -> es = [] /\ s' = set_u s (set_cd (x_u s) (u_cd (x_u s) - r))).
Proof.
  intros [-> Hm] H. split.
  - destruct Hm as [-> | ->]; cbn in H; apply some_inj in H; unfold fs_trigger, lift in H;
      apply pair_eq in H; destruct H as [_ ->]; cbn [snd]; apply ignore_rejected_no_reject.
  - cbn zeta. intros Hcd.
    destruct Hm as [-> | ->]; cbn in H; apply some_inj in H; unfold fs_trigger, lift, use_simple_attack, ignore_rejected, avail in H;
      cbn [x_u set_u u_cd set_cd] in H;
      match type of H with context [?a <=? 0] => destruct (Z.leb_spec a 0) as [L|L]; [exfalso; cbn in L; lia|] end;
      cbn in H; injection H as <- <-; split; reflexivity.
Qed.

Definition u0 : ust :=
  mkU 0 0 0 0 (C.mkC 1 1 1 1) (P.mkP 1 1 0 0) (P.mkP 1 1 0 0) (P.mkP 1 1 0 0) None None None (K.mkK 1 0 (-1)) 0.
Definition x0 : xst := mkX u0 (0, 0) (0, 0) (0, 0) (K.mkK 1 0 (-1)) (LS.mk 0 0 0 0) (0, 1) 0 (DP.mkD 1 1 0 0 0 0).
Definition par0 : par := mkPar false (1, 1) 0 12000 0 0 0 0%nat [] (0, 0) (0, 0) (0, 0) (0, 0) 0 (0, 0) 0 0 0 0 (0, 0).
Definition flare_par : xpar := mkXP par0 (0, 0) 0 800 1200 1 1 [].
Definition flare_state : xst := set_u x0 (set_cd u0 10000).

(* the witness of the former findings C07-flareslash-change-stance-trigger / -styx-trigger: now silent *)
Example flare_trigger_repaired :
  xreduce_spec FlareSlash XChangeStance flare_par 0 flare_state = Some (set_u x0 (set_cd u0 9200), []) /\
  xreduce_spec FlareSlash XStyx flare_par 0 flare_state = Some (set_u x0 (set_cd u0 8800), []).
Proof. split; reflexivity. Qed.

(* the silent triggers: when the listening reducer does nothing it reports nothing and returns the input state *)
Lemma silent_triggers p t s :
  (las_on (x_u s) = false \/ avail2 (x_u s) = false -> xreduce_spec Elysion XCrack p t s = Some (s, [])) /\
  (LS.enabled (x_ls s) = false \/ avail (x_u s) = false -> xreduce_spec KarmaBlade XTrigger p t s = Some (s, [])).
Proof.
  split; intros H; cbn; unfold ely_crack, kb_trigger.
  - destruct H as [-> | ->]; cbn; [reflexivity|]. rewrite orb_true_r. reflexivity.
  - destruct H as [-> | ->]; cbn; [reflexivity|]. destruct (negb (LS.enabled (x_ls s))); reflexivity.
Qed.

(* using a skill that is not ready: one rejection, unchanged state (the cooldown-gated uses) *)
Definition cooldown_gated (c : xcomp) : bool :=
  match c with
  | RobotSummon | RobotSetupBuff | HommingMissile | FullMetalBarrage | MultipleOption | MecaCarrier | Elysion
  | CosmicShower | Cosmos | FinalCut | BladeStorm | UltimateDarkSight => true
  | _ => false end.
Lemma xnot_ready_noop c p t s :
  cooldown_gated c = true -> 0 < u_cd (x_u s) -> xreduce_spec c XUse p t s = Some (s, [EReject]).
Proof.
  intros Hc Hcd. assert (A : avail (x_u s) = false) by (unfold avail; apply Z.leb_gt; lia).
  destruct c; try discriminate; cbn;
    unfold rs_use, bf_use, hm_use, fmb_use, mo_use, mc_use, cs_use, cm_use, fc_use, bs_use, orb_gate, lift,
      use_periodic_with_simple, use_buff_trait, use_periodic, use_keydown_trait, use_simple_attack;
    rewrite ?A; cbn; rewrite ?set_u_same; reflexivity.
Qed.

Example xreject_happens :
  xreduce_spec FinalCut XUse flare_par 0 flare_state = Some (flare_state, [EReject]).
Proof. reflexivity. Qed.
